/-
  C20 — the supertree clause at full strength: a supertree of binary trees
  displays EVERY rooted triple induced by each input tree (not only the
  BreakUp triples emitted by `tree_to_triples`), for `supertree` and for every
  member of `all_supertrees`; and `supertree` returns a tree exactly when the
  input trees are compatible.

  The key fact (`C20_breakup_generates`) is the classical one: the triples
  emitted by the BreakUp decomposition of a binary tree `t` generate all the
  triples induced by `t` — any tree with distinct leaf names that contains the
  leaves of `t` and displays the emitted triples displays every `ab|c` with
  lca(a,b) strictly below lca(a,c) = lca(b,c) in `t`.
  (Lemmas: `SRVerif/Proofs/TriplesInduced.lean`, `TriplesInducedSuper.lean`.)

  Scope: binary input trees, as for `tree_to_triples` itself (on a polytomy
  the Python code fails to unpack `other.children`; the model returns `none`).

  Order of contraction.  `tree_to_triples` pops minimal internal nodes from a
  Python `set` (address-dependent order) and the emitted triples depend on that
  order; the model fixes one order.  The last section removes this dependency:
  `SR.Tri.BreakUp t trs` (Proofs/TriplesInducedOrder.lean) says that `trs` is
  the output of the loop for SOME order of popping, the model's output is one
  such run (`C20_breakup_model_is_run`), and the supertree clause and the round
  trip hold for EVERY run (`C20_breakup_any_order`, `C20_supertree_any_order`,
  `C20_supertree_any_order_complete`, `C20_roundtrip_any_order`; the latter
  through `C20_triples_determine_tree`, Proofs/TriplesInducedRoundtrip.lean).
  The rewriting system `Step` was compared with the real `tree_to_triples`
  under randomised `set.pop` orders (every observed output is a run); it is
  not exercised by the check's driver.
-/
import SRVerif.Properties.C20
import SRVerif.Proofs.TriplesInducedSuper
import SRVerif.Proofs.TriplesInducedOrder
import SRVerif.Proofs.TriplesInducedRoundtrip

namespace SR.C20

open SR SR.DS SR.Tri SR.Tri.Spec SR.Tri.LTree

/-- **The BreakUp triples generate all induced triples.**  Let `t` be a binary
    tree with distinct leaf names and `(ls, trs) = tree_to_triples t`.  Every
    tree `S` with distinct leaf names that contains the leaves of `t` and
    displays every triple of `trs` displays every proper triple displayed by
    `t`.  (`S` need not be binary and may have more leaves.) -/
theorem C20_breakup_generates (t S : LTree) (hb : binary t = true) (hn : t.leaves.Nodup)
    (hS : S.leaves.Nodup) (ls : List Nat) (trs : List Triple)
    (h : treeToTriples t = some (ls, trs))
    (hsub : ∀ x, x ∈ ls → x ∈ S.leaves) (hd : ∀ tr, tr ∈ trs → displays S tr = true) :
    ∀ tr : Triple, proper tr = true → displays t tr = true → displays S tr = true := by
  rw [treeToTriples_eq t hb] at h
  simp only [Option.some.injEq, Prod.mk.injEq] at h
  obtain ⟨rfl, rfl⟩ := h
  exact induced_displayed hS t hb hn hsub hd

/-- Non-vacuity: the caterpillar `(((0,1),2),3)` emits two triples; the tree
    `S` (with an extra leaf and a different shape outside) displays them, and
    hence e.g. the induced, non-emitted triple `01|3`. -/
example : treeToTriples (.node [.node [.node [.leaf 0, .leaf 1], .leaf 2], .leaf 3])
    = some ([0, 1, 2, 3], [(0, 1, 2), (1, 2, 3)]) := by decide

example :
    let S : LTree := .node [.node [.node [.leaf 1, .leaf 0], .leaf 2], .node [.leaf 4, .leaf 3]]
    displays S (0, 1, 2) = true ∧ displays S (1, 2, 3) = true ∧ displays S (0, 1, 3) = true := by
  decide

/-- **Supertree, full clause** (`C20_supertree_statement` of `C20.lean`): the
    tree returned by `supertree` for binary input trees with distinct leaf
    names displays every proper triple displayed by any input tree. -/
theorem C20_supertree : C20_supertree_statement := by
  intro ts S hts h t ht tr hp hd
  exact (supertree_displays_all (fun t ht => (hts t ht).1) (fun t ht => (hts t ht).2) h).2.2 t ht tr hp hd

/-- **Supertree** with the leaf clause: the returned tree has distinct leaf
    names, its leaf set is the union of the input leaf sets, and it displays
    every induced triple of every input tree. -/
theorem C20_supertree_full (ts : List LTree) (S : LTree)
    (hts : ∀ t, t ∈ ts → binary t = true ∧ t.leaves.Nodup)
    (h : supertree ts = some (some S)) :
    S.leaves.Nodup ∧ (∀ x, x ∈ S.leaves ↔ ∃ t, t ∈ ts ∧ x ∈ t.leaves) ∧
    ∀ t, t ∈ ts → ∀ tr : Triple, proper tr = true → displays t tr = true → displays S tr = true :=
  supertree_displays_all (fun t ht => (hts t ht).1) (fun t ht => (hts t ht).2) h

/-- Non-vacuity: two overlapping caterpillars; the supertree displays `01|3`,
    which is induced by the first tree but emitted by neither. -/
example :
    let t1 : LTree := .node [.node [.node [.leaf 0, .leaf 1], .leaf 2], .leaf 3]
    let t2 : LTree := .node [.node [.leaf 1, .leaf 4], .leaf 3]
    (supertree [t1, t2]).map (·.map (fun S => displays S (0, 1, 3) && displays S (1, 4, 3)
      && displays t1 (0, 1, 3) && !((treeToTriples t1).map (·.2)).any (·.contains (0, 1, 3))))
      = some (some true) := by
  decide

/-- **All supertrees.**  Every member of `all_supertrees` (binary input trees
    with distinct leaf names) is binary, has the union of the input leaves as
    its leaf set and displays every induced triple of every input tree; two
    members at different positions differ up to child order. -/
theorem C20_all_supertrees (ts : List LTree) (Ss : List LTree)
    (hts : ∀ t, t ∈ ts → binary t = true ∧ t.leaves.Nodup)
    (h : allSupertrees ts = some Ss) :
    (∀ S, S ∈ Ss → binary S = true ∧ S.leaves.Nodup ∧
      (∀ x, x ∈ S.leaves ↔ ∃ t, t ∈ ts ∧ x ∈ t.leaves) ∧
      ∀ t, t ∈ ts → ∀ tr : Triple, proper tr = true → displays t tr = true → displays S tr = true) ∧
    Ss.Pairwise (fun S S' => sameClades S S' = false) :=
  allSupertrees_displays_all (fun t ht => (hts t ht).1) (fun t ht => (hts t ht).2) h

example : (allSupertrees [.node [.node [.leaf 0, .leaf 1], .leaf 2], .node [.node [.leaf 1, .leaf 3], .leaf 2]]).map
    (·.length) = some 3 := by decide

/-- **`supertree` decides compatibility.**  For a non-empty family of binary
    trees with distinct leaf names, `supertree` returns a tree iff some tree
    with distinct leaf names, whose leaf set is the union of the input leaf
    sets, displays every induced triple of every input tree. -/
theorem C20_supertree_iff (ts : List LTree) (hts : ∀ t, t ∈ ts → binary t = true ∧ t.leaves.Nodup)
    (hne : ts ≠ []) :
    (∃ S, supertree ts = some (some S)) ↔
      ∃ U : LTree, U.leaves.Nodup ∧ (∀ x, x ∈ U.leaves ↔ ∃ t, t ∈ ts ∧ x ∈ t.leaves) ∧
        ∀ t, t ∈ ts → ∀ tr : Triple, proper tr = true → displays t tr = true → displays U tr = true := by
  constructor
  · rintro ⟨S, hS⟩
    exact ⟨S, C20_supertree_full ts S hts hS⟩
  · rintro ⟨U, hU, hUl, hUd⟩
    exact supertree_complete (fun t ht => (hts t ht).1) (fun t ht => (hts t ht).2) hne hU
      (fun t ht x hx => (hUl x).mpr ⟨t, ht, hx⟩) hUd

/-- Non-vacuity of the negative direction: `01|2` and `02|1` are incompatible. -/
example : (supertree [.node [.node [.leaf 0, .leaf 1], .leaf 2],
    .node [.node [.leaf 0, .leaf 2], .leaf 1]]).map (·.isNone) = some true := by decide

/-! ### Any order of contraction in `tree_to_triples` -/

/-- The model's `tree_to_triples` is one run of the nondeterministic loop
    (`Step` = pop any non-root minimal internal node, `BreakUp` = run until the
    root is the only internal node). -/
theorem C20_breakup_model_is_run (t : LTree) (ls : List Nat) (trs : List Triple)
    (h : treeToTriples t = some (ls, trs)) : ls = t.leaves ∧ BreakUp t trs :=
  treeToTriples_breakUp h

/-- **Every run of BreakUp generates all induced triples**: whatever the order
    in which `tree_to_triples` pops the minimal internal nodes of the binary
    tree `t`, the emitted triples consist of three different leaves of `t` and
    are displayed by `t`, and a tree `S` (distinct leaf names) containing the
    leaves of `t` and displaying the emitted triples displays every proper
    triple displayed by `t`. -/
theorem C20_breakup_any_order (t S : LTree) (hb : binary t = true) (hn : t.leaves.Nodup)
    (trs : List Triple) (h : BreakUp t trs) :
    (∀ tr, tr ∈ trs → proper tr = true ∧ displays t tr = true) ∧
    (S.leaves.Nodup → (∀ x, x ∈ t.leaves → x ∈ S.leaves) → (∀ tr, tr ∈ trs → displays S tr = true) →
      ∀ tr : Triple, proper tr = true → displays t tr = true → displays S tr = true) :=
  ⟨fun tr htr => ⟨(breakUp_scope hb hn h tr htr).1, breakUp_displays hb hn h tr htr⟩,
    fun hS hsub hd => breakUp_induced hb hn h hS hsub hd⟩

/-- Non-vacuity: a run that differs from the model's order (the second cherry
    is popped first); its triple set `{14|2, 02|1, 01|3}` differs from the
    model's `{02|4, 14|0, 01|3}`. -/
example : BreakUp (.node [.node [.node [.leaf 2, .leaf 0], .node [.leaf 4, .leaf 1]], .leaf 3])
    [(1, 4, 2), (0, 2, 1), (0, 1, 3)] :=
  ⟨.node [.leaf 3, .leaf 0],
    Run.cons (Step.inL _ (Step.hereR 4 1 _))
      (Run.cons (Step.inL _ (Step.hereL 2 0 (.leaf 1)))
        (Run.cons (Step.hereL 1 0 (.leaf 3)) (Run.nil _))),
    trivial⟩

example : (treeToTriples (.node [.node [.node [.leaf 2, .leaf 0], .node [.leaf 4, .leaf 1]], .leaf 3])).map (·.2)
    = some [(0, 2, 4), (1, 4, 0), (0, 1, 3)] := by decide

/-- **Supertrees, any order of contraction.**  Let every input tree `p.1`
    (binary, distinct leaf names) come with the triples `p.2` of some run of
    `tree_to_triples`, let `L` be a duplicate-free list of all leaves and `trs`
    a list of all emitted triples (what `trees_to_triples` returns).  Then the
    call of BUILD / AllTrees is in scope, the tree returned by
    `tree_from_triples(L, trs)` and every member of
    `all_trees_from_triples(L, trs)` has leaf set `L` and displays every
    induced triple of every input tree. -/
theorem C20_supertree_any_order (fam : List (LTree × List Triple))
    (hfam : ∀ p, p ∈ fam → binary p.1 = true ∧ p.1.leaves.Nodup ∧ BreakUp p.1 p.2)
    (L : List Nat) (trs : List Triple) (hLn : L.Nodup)
    (hL : ∀ x, x ∈ L ↔ ∃ p, p ∈ fam ∧ x ∈ p.1.leaves)
    (hT : ∀ tr, tr ∈ trs ↔ ∃ p, p ∈ fam ∧ tr ∈ p.2) :
    Scope L trs ∧
    (∀ S, treeFromTriples L trs = some S → S.leaves.Perm L ∧
      ∀ p, p ∈ fam → ∀ tr : Triple, proper tr = true → displays p.1 tr = true → displays S tr = true) ∧
    (∀ S, S ∈ allTreesFromTriples L trs → binary S = true ∧ S.leaves.Perm L ∧
      ∀ p, p ∈ fam → ∀ tr : Triple, proper tr = true → displays p.1 tr = true → displays S tr = true) := by
  obtain ⟨hk, hp, hall⟩ := good_displays_all_runs hfam hL hT
  refine ⟨⟨hLn, hk, hp⟩, ?_, ?_⟩
  · intro S h
    have hg := treeFromTriples_good hLn hk hp h
    exact ⟨(List.perm_ext_iff_of_nodup hg.nodup hLn).mpr hg.mem, hall S hg⟩
  · intro S h
    obtain ⟨hg, hb⟩ := allTreesFromTriples_good hLn hk hp h
    exact ⟨hb, (List.perm_ext_iff_of_nodup hg.nodup hLn).mpr hg.mem, hall S hg⟩

/-- Non-vacuity: BUILD on the triples of the non-model run above. -/
example : (treeFromTriples [0, 1, 2, 3, 4] [(1, 4, 2), (0, 2, 1), (0, 1, 3)]).map
    (sameClades (.node [.node [.node [.leaf 2, .leaf 0], .node [.leaf 4, .leaf 1]], .leaf 3]))
    = some true := by decide

/-- `supertree` with any order of contraction succeeds on compatible inputs:
    if some tree with distinct leaf names containing all the leaves displays
    every induced triple of every input tree, BUILD returns a tree. -/
theorem C20_supertree_any_order_complete (fam : List (LTree × List Triple))
    (hfam : ∀ p, p ∈ fam → binary p.1 = true ∧ p.1.leaves.Nodup ∧ BreakUp p.1 p.2)
    (hne : fam ≠ []) (L : List Nat) (trs : List Triple) (hLn : L.Nodup)
    (hL : ∀ x, x ∈ L ↔ ∃ p, p ∈ fam ∧ x ∈ p.1.leaves)
    (hT : ∀ tr, tr ∈ trs ↔ ∃ p, p ∈ fam ∧ tr ∈ p.2)
    (U : LTree) (hU : U.leaves.Nodup) (hUl : ∀ x, x ∈ L → x ∈ U.leaves)
    (hUd : ∀ p, p ∈ fam → ∀ tr : Triple, proper tr = true → displays p.1 tr = true → displays U tr = true) :
    (treeFromTriples L trs).isSome = true := by
  have hLne : L ≠ [] := by
    cases fam with
    | nil => exact absurd rfl hne
    | cons p ps =>
      obtain ⟨x, hx⟩ := List.exists_mem_of_ne_nil _ (binary_leaves_ne p.1 (hfam p (by simp)).1)
      have : x ∈ L := (hL x).mpr ⟨p, by simp, hx⟩
      intro h; rw [h] at this; cases this
  apply treeFromTriples_complete hLn hLne hU hUl
  intro tr htr
  obtain ⟨p, hp, htp⟩ := (hT tr).mp htr
  obtain ⟨hb, hn, hbu⟩ := hfam p hp
  obtain ⟨q, a, b, c⟩ := breakUp_scope hb hn hbu tr htp
  exact ⟨(inside_iff L tr).mpr ⟨(hL _).mpr ⟨p, hp, a⟩, (hL _).mpr ⟨p, hp, b⟩, (hL _).mpr ⟨p, hp, c⟩⟩,
    hUd p hp tr q (breakUp_displays hb hn hbu tr htp)⟩

/-- **A binary tree is determined by its rooted triples.**  If `u` (distinct
    leaf names, no empty clade) has the same leaf set as the binary tree `t`
    (distinct leaf names) and displays every proper triple displayed by `t`,
    then `u` and `t` have the same clades (`u` is `t` up to child order). -/
theorem C20_triples_determine_tree (t u : LTree) (hb : binary t = true) (hn : t.leaves.Nodup)
    (hu : u.leaves.Nodup) (hne : ∀ C, C ∈ clades u → C ≠ [])
    (hl : ∀ x, x ∈ u.leaves ↔ x ∈ t.leaves)
    (hd : ∀ tr : Triple, proper tr = true → displays t tr = true → displays u tr = true) :
    sameClades t u = true :=
  sameClades_of_displays hb hn hu hne hl hd

example : sameClades (.node [.node [.leaf 0, .leaf 1], .leaf 2]) (.node [.leaf 2, .node [.leaf 1, .leaf 0]]) = true := by
  decide

/-- **Round trip, any order of contraction.**  For a binary tree with distinct
    leaf names and the triples `trs` of ANY run of `tree_to_triples`,
    `tree_from_triples(leaves, trs)` returns a tree with the same clade set.
    (`C20_roundtrip` is the instance of the model's order, by
    `C20_breakup_model_is_run`.) -/
theorem C20_roundtrip_any_order (t : LTree) (hb : binary t = true) (hn : t.leaves.Nodup)
    (trs : List Triple) (h : BreakUp t trs) :
    ∃ u, treeFromTriples t.leaves trs = some u ∧ sameClades t u = true :=
  breakUp_roundtrip hb hn h

/-- **The three statements that `C20.lean` keeps visible as `def`s, together.**
    `C20_statement` (BUILD completeness ∧ AllTrees completeness ∧ the full
    supertree clause) holds: nothing of the property is left stated-but-unproved.
    (The docstring of `C20_statement` in `C20.lean`, "the one clause … stated
    but not proved", predates this file: the supertree clause is `C20_supertree`
    above.) -/
theorem C20_full : C20_statement := ⟨C20_complete_one, C20_complete_all, C20_supertree⟩

end SR.C20
