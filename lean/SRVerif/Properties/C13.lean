/-
  UPDATE (build round 2): uniqueness, the loss multiset/count, the look-ups and the TikZ counts are PROVED in Properties/C13Full.lean and C13Tikz.lean (and on the drawing calls in C13Draw.lean / C13DrawValid.lean).
  (The text below is kept as written in round 1; where it says "missing" / "not proved", see the files above.)

  C13 — a diagram shows exactly the events the cost model counts.

  Model: `SRVerif/Model/Layout.lean` (`computeBranches` = `_compute_branches`
  with `_add_losses`; `render` = statement kinds of `_tikz_draw_branches`).
  Hypotheses of every theorem: the reconciliation is valid (`Spec.validRec`)
  and all its species are nodes of the species tree (`inTree`).

  Proved here: `C13_no_keyerror` (full, for `_compute_branches`),
  `C13_nodes_partial`, `C13_losses_partial`, `C13_transfers` (full).
  Kept as statements (not proved in the time available): uniqueness of the
  branch of an object node, the loss COUNT, `C13_tikz`, and the success of the
  later dictionary lookups (see `C13_lookups_statement`); the harness decides
  them on every generated input.
-/
import SRVerif.Proofs.LayoutPass
import SRVerif.Spec.Opt

namespace SR.C13

open SR SR.Layout

/-- Every species used by the reconciliation is a node of the species tree. -/
def inTree (S : RTree) : Sol → Bool
  | .leaf s _ => S.isNode s
  | .node s _ l r => S.isNode s && inTree S l && inTree S r

/-- The evaluator's event at the root of a sub-solution (`node_event`; a leaf
    of a valid reconciliation is `LEAF`). -/
def solEvent : Sol → Event
  | .leaf _ _ => .leaf
  | .node s _ l r => internalEvent s l.sp r.sp

def kindOfEvent : Event → Option BKind
  | .leaf => some .leaf
  | .spec => some .spec
  | .dup => some .dup
  | .hgt => some .hgt
  | .invalid => none

theorem good_of_valid {S : RTree} : ∀ {o : OTree} {sol : Sol},
    Spec.validRec o sol = true → inTree S sol = true → Good S sol := by
  intro o sol
  induction sol generalizing o with
  | leaf s f =>
    intro _ hin p sub hsub
    cases p with
    | nil =>
      simp only [subAt, Option.some.injEq] at hsub
      subst hsub
      exact ⟨by simpa [inTree, Sol.sp] using hin, by intro sp f l r h; cases h⟩
    | cons i p => simp [subAt] at hsub
  | node s f l r ihl ihr =>
    intro hv hin p sub hsub
    cases o with
    | leaf g fo => simp [Spec.validRec] at hv
    | node ol or_ =>
      simp only [Spec.validRec, Bool.and_eq_true, bne_iff_ne, ne_eq] at hv
      simp only [inTree, Bool.and_eq_true] at hin
      cases p with
      | nil =>
        simp only [subAt, Option.some.injEq] at hsub
        subst hsub
        refine ⟨hin.1.1, ?_⟩
        intro sp f' l' r' h
        cases h
        exact hv.1.1
      | cons i p =>
        simp only [subAt] at hsub
        split at hsub
        · exact ihl hv.1.2 hin.1.2 p sub hsub
        · split at hsub
          · exact ihr hv.2 hin.2 p sub hsub
          · cases hsub

theorem nodeBranch_kind {p : Path} {sub : Sol} {b : Branch} (h : NodeBranch sub.sp p sub b) :
    some b.kind = kindOfEvent (solEvent sub) := by
  cases sub with
  | leaf s f => simp only [NodeBranch] at h; simp [solEvent, kindOfEvent, h]
  | node s f l r =>
    have h' : NodeBranch s p (.node s f l r) b := h
    simp only [NodeBranch] at h'
    simp only [solEvent]
    cases hE : internalEvent s l.sp r.sp with
    | leaf => simp only [hE] at h'
    | invalid => simp only [hE] at h'
    | spec => simp only [hE] at h'; simp [kindOfEvent, h']
    | dup => simp only [hE] at h'; simp [kindOfEvent, h']
    | hgt => simp only [hE] at h'; simp [kindOfEvent, h'.1]

/-- **C13, no `KeyError`** (full, for `_compute_branches`): on a valid
    reconciliation neither `state["anchor_nodes"].remove(...)` nor the state
    look-ups of `_add_losses` fail, and a state exists for every species. -/
theorem C13_no_keyerror (S : RTree) (o : OTree) (sol : Sol)
    (hv : Spec.validRec o sol = true) (hin : inTree S sol = true) :
    ∃ st, computeBranches S sol = .ok st ∧ skeys st = S.postorder := by
  obtain ⟨st, ok, hk, _⟩ := computeBranches_ok (good_of_valid hv hin)
  exact ⟨st, ok, hk⟩

/-- Full statement of the node clause: exactly one event branch per object
    node (existence, uniqueness over all species), in the species it is mapped
    to, of the evaluator's kind; and nothing else is an event branch. -/
def C13_nodes_statement (S : RTree) (sol : Sol) (st : LState) : Prop :=
  (∀ p sub, subAt sol p = some sub →
    ∃ b, b ∈ brs st sub.sp ∧ b.key = .gene p ∧ some b.kind = kindOfEvent (solEvent sub)) ∧
  (∀ t b, b ∈ brs st t → b.kind ≠ .loss →
    ∃ p sub, subAt sol p = some sub ∧ sub.sp = t ∧ b.key = .gene p ∧
      some b.kind = kindOfEvent (solEvent sub)) ∧
  (S.postorder.flatMap fun t => keysOf (brs st t)).Nodup

/-- **C13, nodes** (partial: the two first conjuncts of `C13_nodes_statement`;
    missing: `Nodup` of the keys over all species, i.e. that an object node has
    no SECOND branch). -/
theorem C13_nodes_partial (S : RTree) (o : OTree) (sol : Sol) (st : LState)
    (hv : Spec.validRec o sol = true) (hin : inTree S sol = true)
    (hst : computeBranches S sol = .ok st) :
    (∀ p sub, subAt sol p = some sub →
      ∃ b, b ∈ brs st sub.sp ∧ b.key = .gene p ∧ some b.kind = kindOfEvent (solEvent sub)) ∧
    (∀ t b, b ∈ brs st t → b.kind ≠ .loss →
      ∃ p sub, subAt sol p = some sub ∧ sub.sp = t ∧ b.key = .gene p ∧
        some b.kind = kindOfEvent (solEvent sub)) := by
  obtain ⟨st', ok, _, _, typ, done⟩ := computeBranches_ok (good_of_valid hv hin)
  rw [hst] at ok; cases ok
  have conv : ∀ t b, b ∈ brs st t → b.kind ≠ .loss →
      ∃ p sub, subAt sol p = some sub ∧ sub.sp = t ∧ b.key = .gene p ∧
        some b.kind = kindOfEvent (solEvent sub) := by
    intro t b hb hk
    obtain ⟨p, sub, hsub, h | ⟨_, ht, hkey, hnb⟩⟩ := typ t b hb
    · exact absurd h.1 hk
    · exact ⟨p, sub, hsub, ht.symm, hkey, nodeBranch_kind hnb⟩
  refine ⟨?_, conv⟩
  intro p sub hsub
  have hmem := done p sub hsub
  simp only [keysOf, List.mem_map] at hmem
  obtain ⟨b, hb, hkey⟩ := hmem
  obtain ⟨p', sub', hsub', h | ⟨_, _, hkey', hnb⟩⟩ := typ _ b hb
  · obtain ⟨_, i, a, _, hk, _⟩ := h
    rw [hk] at hkey; cases hkey
  · rw [hkey'] at hkey
    cases hkey
    rw [hsub] at hsub'; cases hsub'
    exact ⟨b, hb, hkey', nodeBranch_kind hnb⟩

/-- Full statement of the loss clause. -/
def C13_losses_statement (S : RTree) (sol : Sol) (st : LState) : Prop :=
  (S.postorder.map fun t => ((brs st t).filter fun b => b.kind == .loss).length).sum
      = evalLossCount sol ∧
  (∀ t b, b ∈ brs st t → b.kind = .loss →
    ∃ q sp f l r i a, subAt sol q = some (.node sp f l r) ∧ childSp (.node sp f l r) i = some a ∧
      b.key = .loss (q ++ [i]) t ∧ t <+: a ∧ t ≠ a ∧ Path.isAnc sp t = true ∧
      (internalEvent sp l.sp r.sp = .spec → t ≠ sp))

/-- **C13, losses** (partial: the location clause — every `FULL_LOSS`
    pseudo-gene belongs to a child lineage `q ++ [i]` of an internal node `q`
    and sits in a species strictly above the child's species `a`, at or below
    the node's species `sp`, strictly below it for a speciation; missing: the
    COUNT `= evalLossCount sol`). -/
theorem C13_losses_partial (S : RTree) (o : OTree) (sol : Sol) (st : LState)
    (hv : Spec.validRec o sol = true) (hin : inTree S sol = true)
    (hst : computeBranches S sol = .ok st) :
    ∀ t b, b ∈ brs st t → b.kind = .loss →
      ∃ q sp f l r i a, subAt sol q = some (.node sp f l r) ∧
        childSp (.node sp f l r) i = some a ∧
        b.key = .loss (q ++ [i]) t ∧ t <+: a ∧ t ≠ a ∧ Path.isAnc sp t = true ∧
        (internalEvent sp l.sp r.sp = .spec → t ≠ sp) := by
  obtain ⟨st', ok, _, _, typ, _⟩ := computeBranches_ok (good_of_valid hv hin)
  rw [hst] at ok; cases ok
  intro t b hb hk
  obtain ⟨p, sub, hsub, ⟨_, i, a, hc, hkey, h1, h2, h3, h4⟩ | ⟨h, _⟩⟩ := typ t b hb
  · cases sub with
    | leaf s f => simp [childSp] at hc
    | node sp f l r =>
      exact ⟨p, sp, f, l, r, i, a, hsub, hc, hkey, h1, h2, h3, fun hE => h4 sp f l r rfl hE⟩
  · exact absurd hk h

/-- **C13, transfers** (full): a transfer node has a `HORIZONTAL_TRANSFER`
    branch in its species whose `right` is the transferred child (the one not
    below the node's species), and that child is an anchor of the species it
    is mapped to — `foreign_layout.anchors[right_gene]` finds it. -/
theorem C13_transfers (S : RTree) (o : OTree) (sol : Sol) (st : LState)
    (hv : Spec.validRec o sol = true) (hin : inTree S sol = true)
    (hst : computeBranches S sol = .ok st)
    (p : Path) (sp : Path) (f : List Nat) (l r : Sol)
    (hp : subAt sol p = some (.node sp f l r)) (hE : internalEvent sp l.sp r.sp = .hgt) :
    let keep := Path.isAnc sp l.sp
    let gf := if keep then p ++ [1] else p ++ [0]
    let sf := if keep then r.sp else l.sp
    ∃ b, b ∈ brs st sp ∧ b.key = .gene p ∧ b.kind = .hgt ∧ b.right = some (.gene gf) ∧
      Key.gene gf ∈ ancs st sf := by
  obtain ⟨st', ok, _, inv, typ, done⟩ := computeBranches_ok (good_of_valid hv hin)
  rw [hst] at ok; cases ok
  intro keep gf sf
  -- the node's own branch
  have hmem := done p _ hp
  simp only [keysOf, List.mem_map, Sol.sp] at hmem
  obtain ⟨b, hb, hkey⟩ := hmem
  have hbt : b.kind = .hgt ∧ ∃ k1, b.left = some k1 ∧
      ((keep = true ∧ k1.lin = p ++ [0] ∧ b.right = some (.gene (p ++ [1]))) ∨
       (keep = false ∧ k1.lin = p ++ [1] ∧ b.right = some (.gene (p ++ [0])))) := by
    obtain ⟨p', sub', hsub', h | ⟨_, _, hkey', hnb⟩⟩ := typ _ b hb
    · obtain ⟨_, i, a, _, hk, _⟩ := h
      rw [hk] at hkey; cases hkey
    · rw [hkey'] at hkey; cases hkey
      rw [hp] at hsub'; cases hsub'
      have h' : NodeBranch sp p (.node sp f l r) b := hnb
      simp only [NodeBranch, hE] at h'
      exact h'
  obtain ⟨hkind, k1, hleft, hside⟩ := hbt
  obtain ⟨hl, hr⟩ := subAt_child hp
  have hgf : subAt sol gf = some (if keep then r else l) := by
    by_cases hk : keep = true <;> simp [gf, hk, hl, hr]
  have hsf : (if keep then r else l).sp = sf := by
    by_cases hk : keep = true <;> simp [sf, hk]
  have hright : b.right = some (.gene gf) := by
    rcases hside with ⟨hk, _, h⟩ | ⟨hk, _, h⟩ <;> simp [gf, hk, h]
  refine ⟨b, hb, hkey, hkind, hright, ?_⟩
  -- the transferred child is never consumed
  have hkeys := done gf _ hgf
  rw [hsf] at hkeys
  apply inv.anch sf _ hkeys
  intro b' hb' hcons
  obtain ⟨j, hj⟩ := inv.cons sf b' hb' _ hcons
  simp only [Key.lin] at hj
  obtain ⟨p', sub', hsub', h | ⟨_, _, hkey', hnb⟩⟩ := typ _ b' hb'
  · simp [consumes, h.1] at hcons
  · have hown : b'.key.owner = p' := by rw [hkey']; rfl
    rw [hown] at hj
    have hpp : p' = p := by
      by_cases hk : keep = true
      · simp only [gf, hk, if_true] at hj
        exact ((List.append_inj' hj rfl).1).symm
      · simp only [gf, hk] at hj
        exact ((List.append_inj' hj rfl).1).symm
    subst hpp
    rw [hp] at hsub'; cases hsub'
    have hb'' : b'.kind = .hgt ∧ ∃ k1, b'.left = some k1 ∧
        ((keep = true ∧ k1.lin = p' ++ [0] ∧ b'.right = some (.gene (p' ++ [1]))) ∨
         (keep = false ∧ k1.lin = p' ++ [1] ∧ b'.right = some (.gene (p' ++ [0])))) := by
      have h' : NodeBranch sp p' (.node sp f l r) b' := hnb
      simp only [NodeBranch, hE] at h'
      exact h'
    obtain ⟨hk', k1', hl', hside'⟩ := hb''
    simp only [consumes, hk', hl', Option.toList, List.mem_singleton] at hcons
    subst hcons
    rcases hside' with ⟨hk, hlin, _⟩ | ⟨hk, hlin, _⟩
    · simp only [gf, hk, if_true, Key.lin] at hlin
      have := List.append_inj' hlin rfl
      simp at this
    · simp only [gf, hk, Key.lin] at hlin
      have := List.append_inj' hlin rfl
      simp at this

/-- Statement kinds of the drawing (not proved): `tikz.render` succeeds and
    emits one event node per object node, one loss marker per `FULL_LOSS`
    branch and one transfer arrow per transfer, pointing to the transferred
    child. -/
def C13_tikz_statement (o : Orientation) (P : Params) (sizes : Key → Size) (S : RTree) (sol : Sol) :
    Prop :=
  ∃ ss, render o P sizes S sol = .ok ss ∧
    (∀ p sub, subAt sol p = some sub →
      (ss.filter fun x => match x with | .event k _ => k == Key.gene p | _ => false).length = 1) ∧
    (ss.filter fun x => match x with | .lossMarker _ => true | _ => false).length
      = evalLossCount sol ∧
    (∀ p sp f l r, subAt sol p = some (.node sp f l r) → internalEvent sp l.sp r.sp = .hgt →
      (ss.filter fun x => match x with
        | .transfer src tgt => src == Key.gene p &&
            tgt == Key.gene (if Path.isAnc sp l.sp then p ++ [1] else p ++ [0])
        | _ => false).length = 1)

/-- The later dictionary look-ups (`layout["branches"][left]["rect"]`,
    `X_layout.anchors[...]`, `layout.branches[...]`) all succeed (not proved;
    this is also `C14_anchors`). -/
def C13_lookups_statement (o : Orientation) (P : Params) (sizes : Key → Size) (S : RTree)
    (sol : Sol) : Prop :=
  S.isBinary = true → ∃ ss, render o P sizes S sol = .ok ss

/-! ### Non-vacuity: a speciation with two losses, a duplication, a transfer -/

def exS : RTree := .node [.node [.node [], .node []], .node []]

/-- root (speciation at the root species) of a duplication in species `0`
    (children in `00` and `0`) and a transfer from species `1` into `00`. -/
def exSol : Sol :=
  .node [] [] (.node [0] [] (.leaf [0, 0] []) (.leaf [0] []))
              (.node [1] [] (.leaf [1] []) (.leaf [0, 0] []))

def exO : OTree :=
  .node (.node (.leaf [0, 0] []) (.leaf [0] [])) (.node (.leaf [1] []) (.leaf [0, 0] []))

example : Spec.validRec exO exSol = true ∧ inTree exS exSol = true := by decide

example : internalEvent [1] [1] [0, 0] = .hgt ∧ internalEvent [0] [0, 0] [0] = .dup ∧
    internalEvent [] [0] [1] = .spec := by decide

end SR.C13
