/-
  C06 (continued) — the ordered clauses without the "root is a permutation of the
  leaf families" conjunct of `Spec.validSol .ordered`.

  `C06_ord` / `C06_total` (`Properties/C06.lean`) assume `Spec.validSol .ordered o sol`, which
  demands `isPermOf sol.fam (families o)`.  The proofs never use that conjunct.  It excludes
  the solutions the ordered solvers write for an input with a PRESCRIBED root order that
  strictly contains the leaf families (the input space of C02's prescribed-root clause,
  `Spec.validSolPre`), whose cost the command-line tool prints as well.  Here the ordered
  clauses are stated for every solution with a valid species mapping, a duplicate-free root
  synteny of which every node's synteny is (transitively) a subsequence, and non-empty leaf
  syntenies — in particular for every `Spec.validSolPre .ordered o (some r) sol`.
-/
import SRVerif.Properties.C06
import SRVerif.Spec.ValidRoot

namespace SR.C06

open SR SR.EventLog

/-- Ordered labelling cost = recount of the lost runs, for ANY duplicate-free root synteny
    (it may hold families that no leaf carries). -/
theorem C06_ord_anyroot (c : Costs) (o : OTree) (sol : Sol)
    (hrec : Spec.validRec o sol = true) (hlab : Spec.validOrdLabels o sol = true)
    (hnd : sol.fam.Nodup) (hne : leafFamsNonempty o = true) :
    labelingCost c .ordered sol = some (nSloss (eventLog .ordered sol) * c.sloss) ∧
      nSloss (eventLog .ordered sol) = segLosses .ordered sol := by
  have hwf := (ordWF_of_valid o sol hrec hlab hne).1
  have := ordLosses_eq sol.fam hnd sol hwf (List.Sublist.refl _)
  rw [C18.C18_complete] at this
  refine ⟨?_, nSloss_eventLog .ordered sol⟩
  simp [labelingCost, this, nSloss_eventLog]

/-- Total cost = recount of the event log, same generality. -/
theorem C06_total_anyroot (c : Costs) (o : OTree) (sol : Sol)
    (hrec : Spec.validRec o sol = true) (hlab : Spec.validOrdLabels o sol = true)
    (hnd : sol.fam.Nodup) (hne : leafFamsNonempty o = true) :
    totalCost c .ordered o sol = recount c (eventLog .ordered sol) := by
  rw [recount_eventLog, ← C06_rec c o sol hrec]
  unfold totalCost
  obtain ⟨h1, h2⟩ := C06_ord_anyroot c o sol hrec hlab hnd hne
  rw [h1, h2]

/-- The instance for a prescribed root order (`Spec.validSolPre`, C02's prescribed-root clause). -/
theorem C06_total_pre (c : Costs) (o : OTree) (r : List Nat) (sol : Sol)
    (h : Spec.validSolPre .ordered o (some r) sol = true) (hne : leafFamsNonempty o = true) :
    totalCost c .ordered o sol = recount c (eventLog .ordered sol) := by
  simp only [Spec.validSolPre, Bool.and_eq_true, beq_iff_eq] at h
  obtain ⟨⟨⟨hrec, hlab⟩, hfam⟩, hlen⟩ := h
  exact C06_total_anyroot c o sol hrec hlab (by rw [hfam]; exact nodup_of_length_dedup r hlen) hne

/-! Non-vacuity: the root `[0,1,2,3,4]` strictly contains the leaf families `{1,3}`; the
    solution is NOT `Spec.validSol .ordered` (so `C06_total` does not apply) but is valid for
    the prescribed root, and its cost is the recount: one speciation + 2 + 2 lost runs. -/
def preO : OTree := .node (.leaf [0, 0] [1]) (.leaf [0, 1] [3])
def preSol : Sol := .node [0] [0, 1, 2, 3, 4] (.leaf [0, 0] [1]) (.leaf [0, 1] [3])
def preC : Costs := { spe := 1, dup := 2, hgt := .fin 3, floss := 5, sloss := 7 }

example : Spec.validSol .ordered preO preSol = false ∧
    Spec.validSolPre .ordered preO (some [0, 1, 2, 3, 4]) preSol = true ∧
    leafFamsNonempty preO = true := by decide
example : totalCost preC .ordered preO preSol = .fin (1 + 4 * 7) := by
  rw [C06_total_pre preC preO [0, 1, 2, 3, 4] preSol (by decide) (by decide)]; decide

end SR.C06
