/-
  C16, table API — the rest of the public behaviour of
  `superrec2.utils.dynamic_programming` (model: `SRVerif/Model/Table.lean`).

  A HISTORY is any list of operations `Op` on one table (assignments of a
  candidate, `update` with a batch, the read-only entry methods, `keys`,
  iteration, `in`, `==`, `combine`, bare indexing), through any chain of keys
  (complete, partial, too long, valid or not): `Table.run`.  All statements are
  for every table shape `ds : List Dim` (any number of `ListDimension` /
  `DictDimension` axes), both merge policies, the three retention policies, any
  tag type, and histories of any length.

  Vocabulary (`Proofs/TableStep.lean`, `Proofs/TableRead.lean`):
  `addr ds ks`        the normalised address of the raw chain of keys `ks` (negative list indices
                      wrapped) or the exception of the first invalid key;
  `writesTo ds a op`  the batch `op` offers to the cell `a` — only `t[ks…] = c` and
                      `t[ks…].update(*b)` through a complete valid chain denoting `a` offer anything;
  `offered ds a ops`  the batches a history offers to `a`, in order;
  `readAll T ks`      what `value() infos() info() is_infinite() len() list(iter())` return through `ks`;
  `C16.writes b`      the batch `b` contains a finite candidate;  `C16.after m r bs` the entry
                      `Entry(m, r)` after the batches `bs` (`Properties/C16.lean`).
-/
import SRVerif.Proofs.TableRead
import SRVerif.Proofs.TableKeys

namespace SR.C16

open SR.DP SR.DP.Table
open SR.Entry (sentinel better)

variable {τ : Type} [DecidableEq τ]

/-- **Reading a cell after any history.**  Through a complete valid chain of keys `ks` denoting
    the cell `a`, every read-only method returns what it returns on the entry `Entry(m, r)` offered
    exactly the batches that the history wrote to THAT cell and that contained a finite candidate
    (`C16_value`, `C16_all`, `C16_any`, `C16_none` then say what that entry holds); if there is no
    such batch the cell reads infinitely bad with no tag.  Writes to other cells, reads, erroring
    operations, proxies: nothing else in the history matters. -/
theorem C16_table_read [Min τ] (ds : List Dim) (m : Merge) (r : Retain) (ops : List (Op τ))
    (ks a : List Key) (hne : ks ≠ []) (hlen : ks.length = ds.length) (ha : addr ds ks = .ok a) :
    let T := ((Table.new ds m r : Table τ).run ops).1
    let bs := (offered ds a ops).filter writes
    readAll T ks = if bs = [] then missingOuts m else entryOuts (after m r bs) := by
  intro T bs
  obtain ⟨hd, hm, hr⟩ := run_shape (Table.new ds m r : Table τ) ops
  have hc := run_cell (Table.new ds m r : Table τ) ops a
  have hd' : T.dims = ds := hd
  have hT : readAll T ks = cellOuts T.merge (getCell T.cells a) :=
    readAll_valid T ks a hne (by rw [hd']; exact hlen) (by rw [hd']; exact ha)
  rw [hT, show T.merge = m from hm, hc]
  show cellOuts m ((offered ds a ops).foldl (Cell.update m r) none) = _
  rw [cell_fold m r none (offered ds a ops)]
  by_cases hb : bs = []
  · rw [if_pos hb, if_pos hb]; rfl
  · rw [if_neg hb, if_neg hb]
    simp only [cellOuts, Option.getD_none, after, Entry.foldl_update]
    rfl

/-- **Frame property.**  Two histories that offer the same batches to the cell `a` give the same
    reads of `a`, whatever else they do (to other cells, through other chains of keys, failing or
    not). -/
theorem C16_table_frame [Min τ] (ds : List Dim) (m : Merge) (r : Retain) (ops ops' : List (Op τ))
    (ks a : List Key) (hne : ks ≠ []) (hlen : ks.length = ds.length) (ha : addr ds ks = .ok a)
    (h : offered ds a ops = offered ds a ops') :
    readAll ((Table.new ds m r : Table τ).run ops).1 ks
      = readAll ((Table.new ds m r : Table τ).run ops').1 ks := by
  have h1 := C16_table_read ds m r ops ks a hne hlen ha
  have h2 := C16_table_read ds m r ops' ks a hne hlen ha
  simp only at h1 h2
  rw [h1, h2, h]

/-- One more operation that offers nothing to `a` does not change the reads of `a`: in
    particular any operation on another cell, any read, any `keys`/`in`/iteration, any failing
    operation. -/
theorem C16_table_frame_step [Min τ] (T : Table τ) (op : Op τ) (ks a : List Key)
    (hne : ks ≠ []) (hlen : ks.length = T.dims.length) (ha : addr T.dims ks = .ok a)
    (h : writesTo T.dims a op = none) :
    readAll (T.step op).1 ks = readAll T ks := by
  have hs := step_ext T op
  rw [readAll_valid T ks a hne hlen ha,
    readAll_valid (T.step op).1 ks a hne (by rw [hs.dims]; exact hlen) (by rw [hs.dims]; exact ha),
    hs.merge, hs.cells]
  simp [opCell, h]

/-- **A never-written cell** (no assignment / `update` through a valid chain denoting it ever
    contained a finite candidate) reads `+∞` (MIN) / `-∞` (MAX), no tags, `info()` is `None`,
    `is_infinite()`, length 0, iterates over nothing. -/
theorem C16_table_unwritten [Min τ] (ds : List Dim) (m : Merge) (r : Retain) (ops : List (Op τ))
    (ks a : List Key) (hne : ks ≠ []) (hlen : ks.length = ds.length) (ha : addr ds ks = .ok a)
    (h : ∀ op ∈ ops, ∀ b, writesTo ds a op = some b → writes b = false) :
    readAll ((Table.new ds m r : Table τ).run ops).1 ks = missingOuts m := by
  have h1 := C16_table_read ds m r ops ks a hne hlen ha
  simp only at h1
  rw [h1, if_pos]
  rw [List.filter_eq_nil_iff]
  intro b hb
  simp only [offered, List.mem_filterMap] at hb
  obtain ⟨op, ho, hw⟩ := hb
  simp [h op ho b hw]

/-- **Errors do not modify the table's cells.**  An operation that raises offers nothing to any
    cell (an operation that offers a batch to a cell returns normally), so after it every cell reads
    as before; its only possible trace is dictionary keys created on the way (`C16_table_keys_sound`). -/
theorem C16_table_error_frame [Min τ] (T : Table τ) (op : Op τ) (e : PyErr)
    (herr : (T.step op).2 = .err e) :
    (∀ a, getCell (T.step op).1.cells a = getCell T.cells a)
    ∧ (T.step op).1.dims = T.dims ∧ (T.step op).1.merge = T.merge ∧ (T.step op).1.retain = T.retain
    ∧ ∀ ks a, ks ≠ [] → ks.length = T.dims.length → addr T.dims ks = .ok a →
        readAll (T.step op).1 ks = readAll T ks := by
  have hw : ∀ a, writesTo T.dims a op = none := by
    intro a
    cases h : writesTo T.dims a op with
    | none => rfl
    | some b => rw [step_write_ok T op a b h] at herr; cases herr
  have hs := step_ext T op
  refine ⟨?_, hs.dims, hs.merge, hs.retain, ?_⟩
  · intro a; rw [hs.cells]; simp [opCell, hw a]
  · intro ks a hne hlen ha
    exact C16_table_frame_step T op ks a hne hlen ha (hw a)

/-- An invalid complete chain of keys makes every read raise the exception of its first invalid
    key (`IndexError` for an out-of-range list index, `TypeError` for a non-integer one). -/
theorem C16_table_read_invalid [Min τ] (T : Table τ) (ks : List Key) (e : PyErr)
    (hne : ks ≠ []) (hlen : ks.length = T.dims.length) (ha : addr T.dims ks = .error e) :
    readAll T ks = List.replicate 6 (.err e) :=
  readAll_invalid T ks hne hlen e ha

/-! ### The value does not depend on the retention policy -/

/-- **Policy-freeness of the value**: `ALL`, `ANY` and `NONE` entries fed the same history have
    the same value. -/
theorem C16_value_policy_free (m : Merge) (r r' : Retain) (bs : List (List (Cand τ))) :
    (after m r bs).value = (after m r' bs).value := by
  unfold after
  rw [Entry.foldl_update, Entry.foldl_update]
  exact value_update_congr (Entry.init m r) (Entry.init m r') rfl rfl _

/-- The single tag kept under `ANY` is one of the tags kept under `ALL` by the same history. -/
theorem C16_any_subset_all (m : Merge) (bs : List (List (Cand τ))) :
    ∀ t ∈ (after m .any bs).infos, t ∈ (after m .all bs).infos := by
  intro t ht
  obtain ⟨_, hsound, _⟩ := C16_any m bs
  obtain ⟨c, hc, h1, h2⟩ := hsound t ht
  rw [C16_value_policy_free m .any .all bs] at h2
  exact ((C16_all m bs).1 t).mpr ⟨c, hc, h1, h2⟩

/-- Tables with different retention policies that went through the same history return the same
    `value()` and `is_infinite()` for every cell. -/
theorem C16_table_value_policy_free [Min τ] (ds : List Dim) (m : Merge) (r r' : Retain) (ops : List (Op τ))
    (ks a : List Key) (hne : ks ≠ []) (hlen : ks.length = ds.length) (ha : addr ds ks = .ok a) :
    let T := ((Table.new ds m r : Table τ).run ops).1
    let T' := ((Table.new ds m r' : Table τ).run ops).1
    (T.step (.value ks)).2 = (T'.step (.value ks)).2 ∧ (T.step (.isInf ks)).2 = (T'.step (.isInf ks)).2 := by
  intro T T'
  have h1 := C16_table_read ds m r ops ks a hne hlen ha
  have h2 := C16_table_read ds m r' ops ks a hne hlen ha
  simp only at h1 h2
  have hv := C16_value_policy_free m r r' ((offered ds a ops).filter writes)
  unfold readAll at h1 h2
  by_cases hb : (offered ds a ops).filter writes = []
  · rw [if_pos hb] at h1 h2
    simp only [missingOuts, List.cons.injEq] at h1 h2
    exact ⟨h1.1.trans h2.1.symm, h1.2.2.2.1.trans h2.2.2.2.1.symm⟩
  · rw [if_neg hb] at h1 h2
    simp only [entryOuts, List.cons.injEq] at h1 h2
    refine ⟨h1.1.trans (Eq.trans ?_ h2.1.symm), h1.2.2.2.1.trans (Eq.trans ?_ h2.2.2.2.1.symm)⟩
    · rw [hv]
    · simp only [isInfinite, hv]

/-! ### Iteration -/

/-- **`iter(entry)`** yields exactly one candidate per retained tag, each carrying the entry's
    value and that tag. -/
theorem C16_iter (e : Entry τ) :
    (iter e).length = e.infos.length
    ∧ (∀ c ∈ iter e, c.value = e.value ∧ ∃ t ∈ e.infos, c.info = some t)
    ∧ (∀ t, t ∈ e.infos ↔ ({ value := e.value, info := some t } : Cand τ) ∈ iter e)
    ∧ (iter e).map (·.info) = e.infos.map some := by
  refine ⟨length_iter e, ?_, ?_, iter_infos e⟩
  · intro c hc
    obtain ⟨t, ht, rfl⟩ := (mem_iter e c).mp hc
    exact ⟨rfl, t, ht, rfl⟩
  · intro t
    rw [mem_iter]
    constructor
    · intro ht; exact ⟨t, ht, rfl⟩
    · rintro ⟨u, hu, h⟩
      injection h with _ h2
      injection h2 with h2
      rw [h2]; exact hu

theorem better_sentinel {m : Merge} {v : ExtInt} (h : better m (sentinel m) v = false) : v = sentinel m := by
  cases m <;> cases v <;> simp_all [better, sentinel, ExtInt.lt]

/-- **Forwarding `*entry`** (what `Entry.combine` callers and the decoders do: `dst.update(*src)`):
    a fresh `ALL` entry offered `iter(e)` holds `e`'s value and exactly `e`'s tags — provided `e`
    retains at least one tag; an entry without tags forwards NOTHING (its value is lost). -/
theorem C16_iter_forward (m : Merge) (e : Entry τ) :
    let d := after m .all [iter e]
    (e.infos ≠ [] → d.value = e.value ∧ ∀ t, t ∈ d.infos ↔ t ∈ e.infos)
    ∧ (e.infos = [] → d.value = sentinel m ∧ d.infos = []) := by
  intro d
  obtain ⟨hatt, hopt, _⟩ := C16_value m .all [iter e]
  obtain ⟨hall, _⟩ := C16_all m [iter e]
  simp only [List.flatten_cons, List.flatten_nil, List.append_nil] at hatt hopt hall
  constructor
  · intro hne
    have hv : d.value = e.value := by
      rcases hatt with h | ⟨c, hc, h⟩
      · obtain ⟨t, ht⟩ := List.exists_mem_of_ne_nil _ hne
        have := hopt ⟨e.value, some t⟩ ((mem_iter e _).mpr ⟨t, ht, rfl⟩)
        simp only at this
        rw [show (after m .all [iter e]).value = sentinel m from h] at this
        rw [show d.value = sentinel m from h]
        exact (better_sentinel this).symm
      · obtain ⟨t, _, rfl⟩ := (mem_iter e c).mp hc
        exact h.symm
    refine ⟨hv, ?_⟩
    intro t
    rw [hall t]
    constructor
    · rintro ⟨c, hc, h1, _⟩
      obtain ⟨u, hu, rfl⟩ := (mem_iter e c).mp hc
      simp only at h1
      injection h1 with h1
      rw [← h1]; exact hu
    · intro ht
      exact ⟨⟨e.value, some t⟩, (mem_iter e _).mpr ⟨t, ht, rfl⟩, rfl, hv.symm⟩
  · intro hnil
    have : iter e = [] := by simp [iter, hnil]
    show (after m .all [iter e]).value = sentinel m ∧ (after m .all [iter e]).infos = []
    rw [this]
    simp [after, Entry.update, Entry.init, sentinel]

/-! ### `combine` with a combinator that may reject -/

/-- **A combinator that returns `None`** on some pair of retained tags makes `combine` raise
    (`AttributeError`); one that returns a candidate on every pair gives `Entry.combine`, to which
    `C16_combine` applies (optimum over the pairs of retained tags). -/
theorem C16_combine_opt {σ : Type} [DecidableEq σ] (a b : Entry τ)
    (f : ExtInt → τ → ExtInt → τ → Option (Cand σ)) :
    (combineOpt a b f = .error .attributeError ↔
      ∃ x ∈ a.infos, ∃ y ∈ b.infos, f a.value x b.value y = none)
    ∧ (∀ g : ExtInt → τ → ExtInt → τ → Cand σ,
        (∀ x ∈ a.infos, ∀ y ∈ b.infos, f a.value x b.value y = some (g a.value x b.value y)) →
        combineOpt a b f = .ok (Entry.combine a b g)) :=
  ⟨combineOpt_none a b f, fun g h => combineOpt_total a b f g h⟩

/-- **A combinator that rejects pairs by an infinitely bad value** (what the solvers' combinators do
    when an event has infinite cost): the combined value is the optimum over the ACCEPTED pairs of
    retained tags (the sentinel if there is none), and when it is not the sentinel the tags under
    `ALL` are exactly the tags of the optimal accepted pairs. -/
theorem C16_combine_reject {σ : Type} [DecidableEq σ] (a b : Entry τ)
    (acc : τ → τ → Bool) (h : ExtInt → τ → ExtInt → τ → Cand σ) (tag : τ → τ → Option σ) :
    let g : ExtInt → τ → ExtInt → τ → Cand σ := fun va x vb y =>
      if acc x y then h va x vb y else { value := sentinel a.merge, info := tag x y }
    let e := Entry.combine a b g
    (e.value = sentinel a.merge ∨
        ∃ x ∈ a.infos, ∃ y ∈ b.infos, acc x y = true ∧ (h a.value x b.value y).value = e.value)
    ∧ (∀ x ∈ a.infos, ∀ y ∈ b.infos, acc x y = true →
        better a.merge e.value (h a.value x b.value y).value = false)
    ∧ (a.retain = .all → e.value ≠ sentinel a.merge → ∀ t, t ∈ e.infos ↔
        ∃ x ∈ a.infos, ∃ y ∈ b.infos, acc x y = true ∧
          (h a.value x b.value y).info = some t ∧ (h a.value x b.value y).value = e.value) := by
  intro g e
  obtain ⟨h1, h2, h3, _⟩ := C16_combine a b g
  refine ⟨?_, ?_, ?_⟩
  · rcases h1 with h1 | ⟨x, hx, y, hy, hv⟩
    · exact Or.inl h1
    · by_cases hacc : acc x y = true
      · right; exact ⟨x, hx, y, hy, hacc, by simpa [g, hacc] using hv⟩
      · left
        have : (g a.value x b.value y).value = sentinel a.merge := by simp [g, hacc]
        rw [← hv, this]
  · intro x hx y hy hacc
    have := h2 x hx y hy
    simpa [g, hacc] using this
  · intro hall hne t
    rw [h3 hall t]
    constructor
    · rintro ⟨x, hx, y, hy, hi, hv⟩
      by_cases hacc : acc x y = true
      · exact ⟨x, hx, y, hy, hacc, by simpa [g, hacc] using hi, by simpa [g, hacc] using hv⟩
      · exfalso
        apply hne
        have : (g a.value x b.value y).value = sentinel a.merge := by simp [g, hacc]
        rw [← hv, this]
    · rintro ⟨x, hx, y, hy, hacc, hi, hv⟩
      exact ⟨x, hx, y, hy, by simpa [g, hacc] using hi, by simpa [g, hacc] using hv⟩

omit [DecidableEq τ] in
/-- Under `NONE` (and whenever one of the entries has no tag) `combine` sees no pair at all: the
    result is a fresh entry, whatever the two values. -/
theorem C16_combine_untagged {σ : Type} [DecidableEq σ] (a b : Entry τ)
    (f : ExtInt → τ → ExtInt → τ → Cand σ) (h : a.infos = [] ∨ b.infos = []) :
    Entry.combine a b f = Entry.init a.merge a.retain := by
  unfold Entry.combine
  rcases h with h | h
  · simp [h, Entry.update]
  · have : a.infos.flatMap (fun x => b.infos.map (fun y => (x, y))) = [] := by
      rw [h]; induction a.infos <;> simp_all
    simp [this, Entry.update]

/-! ### `info()`, `==` -/

/-- `info()` is `None` exactly when there is no tag, and otherwise the least retained tag. -/
theorem C16_info [Min τ] [LE τ] [Std.IsLinearOrder τ] [Std.LawfulOrderMin τ] (e : Entry τ) :
    (info e = none ↔ e.infos = []) ∧ ∀ t, info e = some t ↔ t ∈ e.infos ∧ ∀ u ∈ e.infos, t ≤ u :=
  ⟨info_eq_none e, info_eq_some e⟩

/-- `entry == other` compares the value and the SET of tags, nothing else (not the policies). -/
theorem C16_eq (a : Entry τ) (v : ExtInt) (infos : List τ) :
    eqv a v infos = true ↔ a.value = v ∧ ∀ t, t ∈ a.infos ↔ t ∈ infos :=
  eqv_iff a v infos

/-! ### `keys()`, iteration, `in` -/

/-- **Only addressed keys are reported.**  Below a chain `pre` leading to a `DictDimension`,
    `keys()`, iteration and `in` agree, and every key `k` they report was ADDRESSED by some operation
    of the history: an operation mentions a chain of keys one of whose valid prefixes denotes
    `pre…[k]`.  In particular a cell whose keys no operation ever mentioned is not reported, and
    neither is a cell that was only offered all-infinite batches by assignment
    (`C16_table_keys_infinite_write`).  NOTE the converse of "never written": merely READING
    `t[…][k].value()` creates the key (`C16_table_keys_read_creates`), because the axes are
    `defaultdict`s. -/
theorem C16_table_keys_sound [Min τ] (ds : List Dim) (m : Merge) (r : Retain) (ops : List (Op τ))
    (pre a : List Key) (hs : pre.length < ds.length) (ha : addr ds pre = .ok a)
    (hd : ds[pre.length]? = some .dict) :
    let T := ((Table.new ds m r : Table τ).run ops).1
    ∃ l, (T.step (.keys pre)).2 = .keys l ∧ (T.step (.iter pre)).2 = .keys l
      ∧ (∀ k, (T.step (.contains pre k)).2 = .bool (decide (k ∈ l)))
      ∧ ∀ k ∈ l, ∃ op ∈ ops, ∃ path ∈ opPaths op, ∃ n, n < path.length ∧
          addr ds (path.take (n + 1)) = .ok (a ++ [k]) := by
  intro T
  obtain ⟨hdim, _, _⟩ := run_shape (Table.new ds m r : Table τ) ops
  have hdim' : T.dims = ds := hdim
  obtain ⟨l, h1, h2, h3, h4⟩ := keys_dict T pre a (by rw [hdim']; exact hs) (by rw [hdim']; exact ha)
    (by rw [hdim']; exact hd)
  refine ⟨l, h1, h2, h3, ?_⟩
  intro k hk
  have hk' := (h4 k).mp hk
  obtain ⟨l', ht, hl'⟩ := run_touched (Table.new ds m r : Table τ) ops
  rw [show T.touched = _ from ht] at hk'
  simp only [Table.new, List.nil_append] at hk'
  obtain ⟨op, hop, hv⟩ := hl' _ hk'
  simp only [opVisits, List.mem_flatMap] at hv
  obtain ⟨path, hpath, hp⟩ := hv
  obtain ⟨n, hn, _, han⟩ := visited_sound _ path _ hp
  exact ⟨op, hop, path, hpath, n, hn, han⟩

/-- An assignment / `update` whose candidates are all infinite does not even create the keys:
    it changes nothing at all (`EntryProxy.update` returns before looking at the table), also
    when its keys are out of range. -/
theorem C16_table_keys_infinite_write [Min τ] (T : Table τ) (pre : List Key) (k : Key) (c : Cand τ)
    (hl : pre.length + 1 = T.dims.length) (hc : c.value.isInfinite = true) :
    T.step (.set pre k c) = (T, .unit) := by
  have hs : pre.length < T.dims.length := by omega
  simp [step, index_short T pre hs, setitem, hl, updateAt, hc]

/-- Below a chain leading to a `ListDimension(n)` the keys are `0 … n-1`, always. -/
theorem C16_table_keys_list [Min τ] (T : Table τ) (pre a : List Key) (n : Nat) (hs : pre.length < T.dims.length)
    (ha : addr T.dims pre = .ok a) (hd : T.dims[pre.length]? = some (.list n)) :
    (T.step (.keys pre)).2 = .keys ((List.range n).map (fun i => Key.int (i : Nat)))
    ∧ (T.step (.iter pre)).2 = .keys ((List.range n).map (fun i => Key.int (i : Nat)))
    ∧ ∀ k, (T.step (.contains pre k)).2 = .bool (decide (∃ i, i < n ∧ k = Key.int (i : Nat))) :=
  keys_list T pre a n hs ha hd

/-- **Written cells are reported.**  Once a batch with a finite candidate has been written to the
    cell `a`, then after any further history, on every `DictDimension` axis `n` the key `a[n]` is
    reported by `keys()` / iteration / `in` below any chain `pre` denoting `a[:n]`. -/
theorem C16_table_keys_written [Min τ] (ds : List Dim) (m : Merge) (r : Retain)
    (ops1 ops2 : List (Op τ)) (op : Op τ) (a : List Key) (b : List (Cand τ))
    (hw : writesTo ds a op = some b) (hfin : writes b = true)
    (n : Nat) (hd : ds[n]? = some .dict) (pre : List Key) (hpl : pre.length = n)
    (hpre : addr ds pre = .ok (a.take n)) :
    let T := ((Table.new ds m r : Table τ).run (ops1 ++ op :: ops2)).1
    ∃ l k, (T.step (.keys pre)).2 = .keys l ∧ a[n]? = some k ∧ k ∈ l
      ∧ (T.step (.contains pre k)).2 = .bool true := by
  intro T
  have hn : n < ds.length := by
    rcases Nat.lt_or_ge n ds.length with h | h
    · exact h
    · rw [List.getElem?_eq_none h] at hd; cases hd
  -- the table just before `op`, just after, and at the end
  obtain ⟨hd1, _, _⟩ := run_shape (Table.new ds m r : Table τ) ops1
  have hT : T = (((((Table.new ds m r : Table τ).run ops1).1).step op).1.run ops2).1 := by
    show ((Table.new ds m r : Table τ).run (ops1 ++ op :: ops2)).1 = _
    rw [run_append, run_cons]
  obtain ⟨hdT, _, _⟩ := run_shape (Table.new ds m r : Table τ) (ops1 ++ op :: ops2)
  have hdT' : T.dims = ds := hdT
  let T1 := ((Table.new ds m r : Table τ).run ops1).1
  have hd1' : T1.dims = ds := hd1
  obtain ⟨ks, _, hak, hkl, htouch⟩ := step_write_touched T1 op a b (by rw [hd1']; exact hw) hfin
  rw [hd1'] at hak hkl htouch
  have hal : a.length = ds.length := by rw [(addr_length ds ks a hak).1, hkl]
  -- the prefix `a[:n+1]` is visited by the write, hence exists afterwards and for ever
  have hvis : a.take (n + 1) ∈ visited ds ks :=
    visited_complete ds ks _ n (by omega) hd (addr_take ds ks a (n + 1) hak (by omega))
  have hT1 : a.take (n + 1) ∈ T.touched := by
    rw [hT]; exact run_touched_mono _ ops2 _ (htouch _ hvis)
  obtain ⟨l, h1, _, h3, h4⟩ := keys_dict T pre (a.take n) (by rw [hdT', hpl]; exact hn)
    (by rw [hdT']; exact hpre) (by rw [hdT', hpl]; exact hd)
  have hk : a[n]? = some (a[n]'(by omega)) := List.getElem?_eq_getElem (by omega)
  have hmem : a[n]'(by omega) ∈ l := by
    rw [h4, ← List.take_succ_eq_append_getElem (by omega)]; exact hT1
  exact ⟨l, a[n]'(by omega), h1, hk, hmem, by rw [h3]; simp [hmem]⟩

/-- **`keys()` is append-only.**  Whatever happens next, the keys listed below a dictionary prefix
    stay listed, in the same order, new ones being appended (creation order of the `defaultdict`). -/
theorem C16_table_keys_monotone [Min τ] (T : Table τ) (ops : List (Op τ)) (pre a : List Key)
    (hs : pre.length < T.dims.length) (ha : addr T.dims pre = .ok a) (hd : T.dims[pre.length]? = some .dict) :
    ∃ l l', (T.step (.keys pre)).2 = .keys l ∧ ((T.run ops).1.step (.keys pre)).2 = .keys (l ++ l') :=
  keys_prefix T ops pre a hs ha hd

/-- **Reading creates keys.**  After `t[ks…].value()` through a valid complete chain — on a cell
    that may never have been written — every dictionary key on the way exists: `keys()` then reports
    the cell although it still reads infinitely bad (`C16_table_frame_step`).  (The solvers iterate
    over `table[…]` and only then read, so this cannot add work for them, but "a never-written cell
    is not reported by keys()" is NOT a property of this module; "a never-addressed cell is not
    reported" is, `C16_table_keys_sound`.) -/
theorem C16_table_keys_read_creates [Min τ] (T : Table τ) (ks a : List Key) (hne : ks ≠ [])
    (hlen : ks.length = T.dims.length) (ha : addr T.dims ks = .ok a)
    (n : Nat) (hd : T.dims[n]? = some .dict) :
    let T' := (T.step (.value ks)).1
    ∃ l k, (T'.step (.keys (ks.take n))).2 = .keys l ∧ a[n]? = some k ∧ k ∈ l := by
  intro T'
  have hs := step_ext T (.value ks)
  have hdT' : T'.dims = T.dims := hs.dims
  have hn : n < T.dims.length := by
    rcases Nat.lt_or_ge n T.dims.length with h | h
    · exact h
    · rw [List.getElem?_eq_none h] at hd; cases hd
  have hal : a.length = T.dims.length := by rw [(addr_length _ ks a ha).1, hlen]
  have hvis : a.take (n + 1) ∈ visited T.dims ks :=
    visited_complete _ ks _ n (by omega) hd (addr_take _ ks a (n + 1) ha (by omega))
  have ht := step_value_touched T ks a hne hlen ha _ hvis
  obtain ⟨l, h1, _, _, h4⟩ := keys_dict T' (ks.take n) (a.take n)
    (by rw [hdT']; simp; omega) (by rw [hdT']; exact addr_take _ ks a n ha (by omega))
    (by rw [hdT']; simpa [Nat.min_eq_left (by omega : n ≤ ks.length)] using hd)
  refine ⟨l, a[n]'(by omega), h1, List.getElem?_eq_getElem (by omega), ?_⟩
  rw [h4, ← List.take_succ_eq_append_getElem (by omega)]
  exact ht

/-! ### Non-vacuity -/

section examples

/-- A 2-axis table `[DictDimension(), ListDimension(2)]`, MIN / ALL, Nat tags. -/
def exT : Table Nat := Table.new [.dict, .list 2] .min .all

/-- writes to two cells (one through a negative index), an all-infinite assignment to a third, a
    failing assignment, a partial-index assignment, reads in between -/
def exOps : List (Op Nat) :=
  [ .set [.sym 0] (.int 1) ⟨.fin 2, some 1⟩,
    .value [.sym 1, .int 0],
    .set [.sym 0] (.int (-1)) ⟨.fin 1, some 2⟩,
    .update [.sym 1, .int 0] [⟨.fin 1, some 3⟩, ⟨.fin 1, none⟩, ⟨.fin 1, some 4⟩],
    .set [.sym 2] (.int 0) ⟨.posInf, some 5⟩,
    .set [.sym 3] (.int 7) ⟨.fin 0, some 6⟩,
    .set [] (.sym 0) ⟨.fin 0, some 7⟩,
    .update [.sym 0, .int 1] [⟨.fin 1, some 8⟩] ]

example : addr exT.dims [.sym 0, .int (-1)] = .ok [.sym 0, .int 1] := by rfl
example : (offered exT.dims [.sym 0, .int 1] exOps).filter writes
    = [[⟨.fin 2, some 1⟩], [⟨.fin 1, some 2⟩], [⟨.fin 1, some 8⟩]] := by rfl
example : readAll (exT.run exOps).1 [.sym 0, .int 1]
    = [.value (.fin 1), .infos [2, 8], .info (some 2), .bool false, .nat 2,
       .cands [⟨.fin 1, some 2⟩, ⟨.fin 1, some 8⟩]] := by rfl
example : readAll (exT.run exOps).1 [.sym 2, .int 0] = missingOuts .min := by rfl
example : (exT.run exOps).2.map (fun o => match o with | .err e => some e | _ => none)
    = [none, none, none, none, none, some .indexError, some .typeError, none] := by rfl
example : readAll (exT.run exOps).1 [.sym 0, .int 2] = List.replicate 6 (.err .indexError) := by rfl
-- keys: `s0`, `s1` written (and `s1` read before), `s3` created by the failing assignment, `s2`
-- (only offered an infinite candidate) absent; then reading `s2` creates it
example : ((exT.run exOps).1.step (.keys [])).2 = .keys [.sym 0, .sym 1, .sym 3] := by rfl
example : ((exT.run exOps).1.step (.contains [] (.sym 2))).2 = .bool false := by rfl
example : ((exT.run (exOps ++ [.value [.sym 2, .int 0]])).1.step (.keys [])).2
    = .keys [.sym 0, .sym 1, .sym 3, .sym 2] := by rfl
example : ((exT.run exOps).1.step (.keys [.sym 0])).2 = .keys [.int 0, .int 1] := by rfl
example : (after .min .any [[⟨.fin 1, some 3⟩, ⟨.fin 1, some 4⟩]] : Entry Nat).infos = [3]
    ∧ (after .min .all [[⟨.fin 1, some 3⟩, ⟨.fin 1, some 4⟩]] : Entry Nat).infos = [3, 4] := by decide
example : combineOpt (after .min .all [[⟨.fin 1, some 1⟩, ⟨.fin 1, some 2⟩]] : Entry Nat)
      (after .min .all [[⟨.fin 2, some 1⟩]])
      (fun va x vb y => if x = y then none else some ⟨va + vb, some (x * 10 + y)⟩)
    = .error .attributeError := by rfl
example : (Entry.combine (after .min .all [[⟨.fin 1, some 1⟩, ⟨.fin 1, some 2⟩]] : Entry Nat)
      (after .min .all [[⟨.fin 2, some 1⟩]])
      (fun va x vb y => if x != y then ⟨va + vb, some (x * 10 + y)⟩ else ⟨.posInf, some 0⟩)).infos = [21] := by
  decide

end examples

end SR.C16
