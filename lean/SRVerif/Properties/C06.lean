/-
  C06 — The cost evaluator implements the documented event model.

  Model: `SRVerif/Model/Rec.lean` (`internalEvent`/`nodeEvent` = `node_event`,
  `recCost` = `_cost_rec`, `labelingCost` = `_ordered_labeling_cost` /
  `_unordered_labeling_cost`, `totalCost` = `cost`).
  Specification: `SRVerif/Spec/EventLog.lean` — an explicit event log built by
  *walking* species paths and counting lost runs on synteny *sequences* / sets,
  with no distance, no LCA and no bitmask; `recount` sums the unit costs of the
  records.

  All statements are for arbitrary trees, arbitrary syntenies and arbitrary
  non-negative unit costs (the transfer cost possibly infinite); there is NO
  coherence hypothesis on the costs.
-/
import SRVerif.Proofs.EventLogLabel

namespace SR.C06

open SR SR.EventLog

/-! ### A running example (non-vacuity of the hypotheses)

Species tree `((A,B),C)`: `A = [0,0]`, `B = [0,1]`, `C = [1]`.  The object tree
has a speciation at its root, a duplication in `(A,B)` whose two copies both
end up in `A`, and a transfer from `C` to `B`. -/

def exO : OTree :=
  .node (.node (.leaf [0, 0] [1, 3]) (.leaf [0, 0] [2])) (.node (.leaf [1] [1]) (.leaf [0, 1] [2]))

def exSol : Sol :=
  .node [] [1, 2, 3]
    (.node [0] [1, 2, 3] (.leaf [0, 0] [1, 3]) (.leaf [0, 0] [2]))
    (.node [1] [1, 2] (.leaf [1] [1]) (.leaf [0, 1] [2]))

/-- An unordered labelling of the same reconciliation (family 3 is gained at
    the first leaf). -/
def exSolU : Sol :=
  .node [] [1, 2]
    (.node [0] [1, 2] (.leaf [0, 0] [1, 3]) (.leaf [0, 0] [2]))
    (.node [1] [1, 2] (.leaf [1] [1]) (.leaf [0, 1] [2]))

def exCosts : Costs := { spe := 5, dup := 3, hgt := .fin 7, floss := 2, sloss := 1 }
/-- An incoherent cost vector with an infinite transfer cost. -/
def exCostsInf : Costs := { spe := 9, dup := 0, hgt := .inf, floss := 0, sloss := 4 }

example : Spec.validSol .ordered exO exSol = true := by decide
example : Spec.validSol .plain exO exSol = true := by decide
example : leafFamsNonempty exO = true := by decide
example : kinds exSol = [.spec, .dup, .hgt] := by decide
example : recLog exSol
    = [.spec [], .dup [0], .floss [0], .floss [0], .hgt [1]] := by decide
example : nSloss (eventLog .ordered exSol) = 3 ∧ nSloss (eventLog .unordered exSol) = 3 := by
  decide

/-! ### Events -/

/-- `node_event` of an internal node is the first-principles classification of
    the specification, for every triple of species (valid or not): speciation
    iff the two children are reached from the node's species through two
    different child branches, duplication iff both are below-or-at it otherwise,
    transfer iff exactly one is below-or-at it and the other is not strictly
    above it, invalid otherwise. -/
theorem C06_event (s a b : Path) : internalEvent s a b = (classify s a b).toEvent :=
  internalEvent_eq_classify s a b

example : internalEvent [0] [0, 0] [0, 1] = .spec ∧ classify [0] [0, 0] [0, 1] = .spec := by decide
example : internalEvent [0] [0, 0, 1] [0, 0] = .dup ∧ classify [0] [0, 0, 1] [0, 0] = .dup := by
  decide
example : internalEvent [0] [1] [0] = .hgt ∧ classify [0] [1] [0] = .hgt := by decide
example : internalEvent [0] [] [0] = .invalid ∧ classify [0] [] [0] = .invalid := by decide

/-- For a valid reconciliation the reported event of every internal node (in
    pre-order) is the specification's, and none is invalid; the event reported
    at the root against the input tree is the first of them. -/
theorem C06_events (o : OTree) (sol : Sol) (h : Spec.validRec o sol = true) :
    internalEvents sol = (kinds sol).map Kind.toEvent ∧ (∀ k ∈ kinds sol, k ≠ .invalid) ∧
      (∀ ol or s f l r, o = .node ol or → sol = .node s f l r →
        nodeEvent o sol = (classify s l.sp r.sp).toEvent) := by
  refine ⟨internalEvents_eq sol, kinds_valid sol (allEvents_of_validRec o sol h), ?_⟩
  rintro ol or s f l r rfl rfl
  exact internalEvent_eq_classify s l.sp r.sp

example : Spec.validRec exO exSol = true ∧ internalEvents exSol = [.spec, .dup, .hgt] := by decide

/-- The leaf sentinel: a leaf reports `LEAF` exactly when it sits in its given
    species. -/
theorem C06_event_leaf (given s : Path) (f g : List Nat) :
    nodeEvent (.leaf given f) (.leaf s g) = (if s = given then .leaf else .invalid) := by
  simp [nodeEvent]

/-! ### Reconciliation cost -/

/-- The reconciliation cost of a valid reconciliation is the recount of the
    reconciliation part of the log: one unit cost per `spec`/`dup`/`hgt`
    record and one full-loss cost per species crossed by a vertical branch. -/
theorem C06_rec (c : Costs) (o : OTree) (sol : Sol) (h : Spec.validRec o sol = true) :
    recCost c o sol = recount c (recLog sol) :=
  recCost_eq_recount c o sol h

/-- … spelled out: `spe·#S + dup·#D + floss·#FL + hgt·#T` with the counts read
    off the log (`hgt·0 = 0` even when the transfer cost is infinite). -/
theorem C06_rec_counts (c : Costs) (o : OTree) (sol : Sol) (h : Spec.validRec o sol = true) :
    recCost c o sol =
      .fin (c.spe * nSpec (recLog sol) + c.dup * nDup (recLog sol)
            + c.floss * nFloss (recLog sol))
        + times (nHgt (recLog sol)) c.hgt := by
  have hinv : nInvalid (recLog sol) = 0 :=
    nInvalid_eventLog .plain sol (allEvents_of_validRec o sol h)
  rw [C06_rec c o sol h, recount_eq_linearForm, linearForm_valid c _ hinv]
  have : nSloss (recLog sol) = 0 := by
    have := nSloss_eventLog .plain sol
    have h0 : ∀ t : Sol, segLosses .plain t = 0 := by
      intro t; induction t with
      | leaf => rfl
      | node s f l r ihl ihr => simp [segLosses, nodeLosses, ihl, ihr]
    rw [h0] at this
    exact this
  rw [this]
  simp

example : recCost exCosts exO exSol = .fin (5 * 1 + 3 * 1 + 2 * 2 + 7 * 1) := by
  rw [C06_rec_counts exCosts exO exSol (by decide)]; decide
example : recCost exCostsInf exO exSol = .inf := by
  rw [C06_rec_counts exCostsInf exO exSol (by decide)]; decide

/-! ### Labelling cost -/

/-- Ordered model: for a valid ordered labelling (every child synteny a
    subsequence of its parent's, duplicate-free root, non-empty leaf
    syntenies) the labelling cost is the segmental-loss cost times the number
    of `sloss` records, which are counted on the *sequences*: maximal runs of
    consecutive parent families absent from the child, runs at the ends not
    charged to the partial copy; the partial copy is the cheaper choice at a
    duplication and the transferred child at a transfer. -/
theorem C06_ord (c : Costs) (o : OTree) (sol : Sol) (h : Spec.validSol .ordered o sol = true)
    (hne : leafFamsNonempty o = true) :
    labelingCost c .ordered sol = some (nSloss (eventLog .ordered sol) * c.sloss) ∧
      nSloss (eventLog .ordered sol) = segLosses .ordered sol := by
  simp only [Spec.validSol, Bool.and_eq_true, beq_iff_eq] at h
  obtain ⟨hrec, ⟨hlab, _⟩, hlen⟩ := h
  have hnd := nodup_of_length_dedup sol.fam hlen
  have hwf := (ordWF_of_valid o sol hrec hlab hne).1
  have := ordLosses_eq sol.fam hnd sol hwf (List.Sublist.refl _)
  rw [C18.C18_complete] at this
  refine ⟨?_, nSloss_eventLog .ordered sol⟩
  simp [labelingCost, this, nSloss_eventLog]

example : labelingCost exCosts .ordered exSol = some (3 * 1) := by
  rw [(C06_ord exCosts exO exSol (by decide) (by decide)).1]; decide

/-- Unordered model: the labelling cost is the segmental-loss cost times the
    number of `sloss` records: one per charged branch whose child lacks a family
    of the parent; speciation charges both branches, duplication the cheaper
    one, transfer the conserved child only.  (Only the validity of the species
    mapping is needed.) -/
theorem C06_unord (c : Costs) (o : OTree) (sol : Sol) (h : Spec.validRec o sol = true) :
    labelingCost c .unordered sol = some (nSloss (eventLog .unordered sol) * c.sloss) ∧
      nSloss (eventLog .unordered sol) = segLosses .unordered sol := by
  refine ⟨?_, nSloss_eventLog .unordered sol⟩
  simp [labelingCost, unordLosses_eq sol (allEvents_of_validRec o sol h), nSloss_eventLog]

example : labelingCost exCostsInf .unordered exSol = some (3 * 4) := by
  rw [(C06_unord exCostsInf exO exSol (by decide)).1]; decide

/-! ### Total cost -/

/-- The total cost of a valid solution — unlabelled, ordered or unordered — is
    the recount of its event log. -/
theorem C06_total (c : Costs) (mode : LabelMode) (o : OTree) (sol : Sol) (h : Valid mode o sol) :
    totalCost c mode o sol = recount c (eventLog mode sol) := by
  have hrec := validRec_of_valid h
  rw [recount_eventLog, ← C06_rec c o sol hrec]
  unfold totalCost
  cases mode with
  | plain =>
    have h0 : ∀ t : Sol, segLosses .plain t = 0 := by
      intro t; induction t with
      | leaf => rfl
      | node s f l r ihl ihr => simp [segLosses, nodeLosses, ihl, ihr]
    simp [labelingCost, h0]
  | ordered =>
    obtain ⟨h1, h2⟩ := C06_ord c o sol h.1 (h.2 rfl)
    rw [h1, h2]
  | unordered =>
    obtain ⟨h1, h2⟩ := C06_unord c o sol hrec
    rw [h1, h2]

/-- … spelled out as the linear form of §6.5:
    `spe·#S + dup·#D + floss·#FL + sloss·#SL + hgt·#T`. -/
theorem C06_total_counts (c : Costs) (mode : LabelMode) (o : OTree) (sol : Sol)
    (h : Valid mode o sol) :
    totalCost c mode o sol =
      .fin (c.spe * nSpec (eventLog mode sol) + c.dup * nDup (eventLog mode sol)
            + c.floss * nFloss (eventLog mode sol) + c.sloss * nSloss (eventLog mode sol))
        + times (nHgt (eventLog mode sol)) c.hgt := by
  rw [C06_total c mode o sol h, recount_eq_linearForm,
    linearForm_valid c _
      (nInvalid_eventLog mode sol (allEvents_of_validRec o sol (validRec_of_valid h)))]

example : Valid .ordered exO exSol := ⟨by decide, fun _ => by decide⟩
example : Valid .plain exO exSol := ⟨by decide, fun h => by cases h⟩
example : Valid .unordered exO exSolU := ⟨by decide, fun h => by cases h⟩
example : totalCost exCostsInf .unordered exO exSolU = .inf := by
  rw [C06_total_counts exCostsInf .unordered exO exSolU ⟨by decide, fun h => by cases h⟩]; decide
example : totalCost exCosts .unordered exO exSolU
    = .fin (5 * 1 + 3 * 1 + 2 * 2 + 1 * 2 + 7 * 1) := by
  rw [C06_total_counts exCosts .unordered exO exSolU ⟨by decide, fun h => by cases h⟩]; decide

example : totalCost exCosts .ordered exO exSol = .fin (5 * 1 + 3 * 1 + 2 * 2 + 1 * 3 + 7 * 1) := by
  rw [C06_total_counts exCosts .ordered exO exSol ⟨by decide, fun _ => by decide⟩]; decide

/-! ### Linearity (used by C09) -/

/-- Scaling every unit cost by `k` scales the cost of a fixed valid solution
    by `k`. -/
theorem C06_linear_scale (k : Nat) (c : Costs) (mode : LabelMode) (o : OTree) (sol : Sol)
    (h : Valid mode o sol) :
    totalCost (scaleCosts k c) mode o sol = Cost.scale k (totalCost c mode o sol) := by
  rw [C06_total _ mode o sol h, C06_total _ mode o sol h, recount_scale]

/-- The cost of a fixed valid solution is monotone in every unit cost. -/
theorem C06_linear_mono (c d : Costs) (mode : LabelMode) (o : OTree) (sol : Sol)
    (h : Valid mode o sol) (hcd : leCosts c d) :
    Cost.le (totalCost c mode o sol) (totalCost d mode o sol) = true := by
  rw [C06_total _ mode o sol h, C06_total _ mode o sol h]
  exact recount_mono hcd _

/-- The recount of any log is additive, homogeneous and monotone, and equals
    its linear form: the algebra behind the two corollaries above. -/
theorem C06_recount_linear (c : Costs) (log₁ log₂ : List Ev) (k : Nat) :
    recount c (log₁ ++ log₂) = recount c log₁ + recount c log₂ ∧
      recount (scaleCosts k c) log₁ = Cost.scale k (recount c log₁) ∧
      recount c log₁ = linearForm c log₁ :=
  ⟨recount_append c log₁ log₂, recount_scale k c log₁, recount_eq_linearForm c log₁⟩

example : leCosts exCosts { exCosts with hgt := .inf, floss := 3 } := by
  refine ⟨?_, ?_, ?_, ?_, ?_⟩ <;> decide

end SR.C06
