/-
  C10 — The algorithms agree with each other where their models coincide.
-/
import SRVerif.Proofs.Cost
import SRVerif.Spec.Opt

namespace SR.C10

open SR

/-- Full statement: on the same input, extended ≤ base, unordered ≤ ordered,
    thl ≤ lca (equality when transfers are forbidden); with a single family
    everywhere the three optima coincide and the base variants equal lca. -/
def C10_statement : Prop :=
  ∀ (c : Costs) (S : RTree) (o : OTree), c.spe + 2 * c.sloss ≤ c.dup + 2 * c.floss →
    (∀ a ∈ spfs c S false o none, ∀ b ∈ spfs c S true o none,
        Cost.le (totalCost c .ordered o a) (totalCost c .ordered o b) = true) ∧
    (∀ a ∈ uspfs c S false o, ∀ b ∈ uspfs c S true o,
        Cost.le (totalCost c .unordered o a) (totalCost c .unordered o b) = true) ∧
    (∀ a ∈ uspfs c S false o, ∀ b ∈ spfs c S false o none,
        Cost.le (totalCost c .unordered o a) (totalCost c .ordered o b) = true) ∧
    (∀ a ∈ thl c S o, Cost.le (totalCost c .plain o a) (recCost c o (lcaSol o)) = true)

/-- Enlarging the candidate set of a result entry can only lower the cost of
    what it keeps: the mechanism behind "extended ≤ base" at the level of the
    result entry (the base variants decode a subset of placements). -/
theorem C10_rank_mono (c : Costs) (mode : LabelMode) (o : OTree) (small big : List Sol)
    (hsub : ∀ s ∈ small, s ∈ big) (a b : Sol)
    (ha : a ∈ rankByCost c mode o big) (hb : b ∈ rankByCost c mode o small) :
    Cost.le (totalCost c mode o a) (totalCost c mode o b) = true := by
  rw [mem_rankByCost] at ha hb
  exact ha.2 b (hsub b hb.1)

/-- Whatever is valid and offered to the result entry bounds the result from
    above — e.g. the LCA reconciliation bounds `thl` once it is among the
    decoded candidates. -/
theorem C10_rank_le_candidate (c : Costs) (mode : LabelMode) (o : OTree) (cands : List Sol)
    (a x : Sol) (ha : a ∈ rankByCost c mode o cands) (hx : x ∈ cands) :
    Cost.le (totalCost c mode o a) (totalCost c mode o x) = true :=
  ((mem_rankByCost c mode o cands a).mp ha).2 x hx

example : rankByCost { spe := 0, dup := 1, hgt := .fin 1, floss := 1, sloss := 1 } .plain
    (.leaf [] []) [.leaf [] []] = [.leaf [] []] := by decide

end SR.C10
