/-
  C02 — the CODE-STRUCTURED model of the ordered solvers refines to the label-DP model.

  `Model/SpfsCode.lean` transliterates `superrec2/compute/super_reconciliation.py`
  (`_compute_spfs_entry` with its five role entries, the `subseq_segment_dist` calls and the
  `< 0` test before scaling, the six `combine` calls, the table of `Entry`s with
  `ChildrenAssignment` TAGS keyed by (object node, species, mask), `_decode_spfs_table`
  following the tags, `toposort_all(_make_prec_graph(…))`, the result entry ranked by
  `output.cost()`).  `Model/Solvers.lean` (`spfs`) is the instance at bitmask labels of the
  generic label DP, which stores decoded solutions and takes the root orders by specification;
  every C02 / C04 / C05 / C09 / C10 theorem is about `spfs`.  This file proves, for unbounded
  inputs and EVERY cost vector (no coherence assumption):

  * `C02_code_orders_none` / `_prescribed`   the root orderings tried are `rootOrders`
      (C19: `toposort_all(_make_prec_graph(leaf_syntenies))` raises nothing and enumerates
      exactly the permutations of the families having every leaf synteny as a subsequence);
  * `C02_code_cells`        cell by cell, for every object node: `table[obj][s][m]` is
      instantiated iff `dpTable (ordAlg c)` has the cell `(s, m)`, with the same value;
  * `C02_code_cells_functional`  one entry per key;
  * `C02_code_tags`         the tags of an entry are exactly the pairs of child states of the
      DP candidates attaining the DP value (what `entry` dedups and decodes);
  * `C02_code_decode`       `_decode_spfs_table` from `(s, m)` yields exactly the solutions
      stored in the DP cell `(s, m)` (through `ordSol`), nothing where there is no cell;
  * `C02_code_refines` (+ `_none`, `_prescribed`)   `spfsCode c S base o pre` succeeds and has
      the same members as `spfs c S base o pre`, each once;
  * corollaries `C02_code_full`, `C02_code_ext_exact`, `C02_code_base_exact`: `C02_full`,
      `C02_ext_exact`, `C02_base_exact` restated for `spfsCode`.

  Guards of the refinement: the leaf species are nodes of `S`; every leaf synteny is a non-empty
  subsequence of every root order tried (automatic without a prescribed order when the leaf
  syntenies are non-empty); for a single-leaf input the leaf synteny has distinct families (the
  code takes the leaf synteny itself as root ordering; `C02_code_leaf_dup` shows the guard is
  needed).  The retention policy is ALL.
-/
import SRVerif.Proofs.SpfsCodeTop
import SRVerif.Properties.C02Spec

namespace SR.C02

open SR Cost SpfsCode

/-! ### Root orderings -/

/-- With a prescribed root order (or a root synteny given in the input) it is the only one tried. -/
theorem C02_code_orders_prescribed (o : OTree) (r : List Nat) :
    rootOrderings o (some r) = .ok (rootOrders o (some r)) := rfl

/-- Without one, `toposort_all(_make_prec_graph(leaf_syntenies))` (or, for a single leaf, the
    leaf synteny) raises nothing and lists exactly `rootOrders o none`, each order once. -/
theorem C02_code_orders_none (o : OTree) (hne : ∀ f ∈ leafSyntenies o, f ≠ [])
    (hleaf : ∀ sp f, o = .leaf sp f → f.Nodup) :
    ∃ os, rootOrderings o none = .ok os ∧ os.Nodup ∧
      ∀ order, order ∈ os ↔ order ∈ rootOrders o none := by
  cases o with
  | node l r => exact rootOrderings_none l r hne
  | leaf sp f =>
    refine ⟨[f], rfl, by simp, ?_⟩
    intro order
    constructor
    · intro h
      simp only [List.mem_singleton] at h
      subst h
      have hnd := hleaf sp order rfl
      simp only [rootOrders, List.mem_filter, List.all_eq_true, leafSyntenies, List.mem_singleton,
        forall_eq, isSublist_iff, List.Sublist.refl, and_true]
      apply Spec.mem_permutations_of_perm
      simp [families, leafSyntenies, dedup_of_nodup order hnd]
    · intro h
      rw [Spec.rootOrders_leaf h]; simp

/-! ### The table, cell by cell -/

section table

variable (c : Costs) (S : RTree) (base : Bool) (order : List Nat) (o : OTree)

/-- The tables of the children of an object node are the children of its table: every object
    node's dict is the root cell list of `computeTable` on its subtree (with `isRoot = false`). -/
theorem C02_code_subtables (ret : Retain) (isRoot : Bool) (l r : OTree) :
    ∃ cells, computeTable c S base ret order isRoot (.node l r) =
      .node cells (computeTable c S base ret order false l) (computeTable c S base ret order false r) :=
  ⟨_, computeTable_node c S base order ret isRoot l r⟩

/-- **Cell-by-cell equality of keys and values** with `dpTable (ordAlg c)`: for every object
    (sub)tree, `table[obj][s][m]` is instantiated with value `v` iff the label DP has the cell
    `(s, m)` with cost `v`. -/
theorem C02_code_cells (hS : ∀ p ∈ leafSpecies o, S.isNode p = true) (hlv : LeavesOk order o)
    (keep isRoot : Bool) (s : Path) (m : Nat) (v : ExtInt) :
    (∃ cc ∈ (computeTable c S base .all order isRoot o).cells,
        cc.sp = s ∧ cc.syn = m ∧ cc.entry.value = v) ↔
    (∃ d ∈ dpTable (ordAlg c) c S keep (annOrd S base order isRoot o),
        d.sp = s ∧ d.lab = m ∧ d.cost.toExt = v) := by
  have h := table_rel c S base order o hS hlv keep isRoot
  constructor
  · rintro ⟨cc, hcc, rfl, rfl, rfl⟩
    obtain ⟨d, hd, h1, h2, h3⟩ := h.fwd cc hcc
    exact ⟨d, hd, h1.symm, h2.symm, h3.symm⟩
  · rintro ⟨d, hd, rfl, rfl, rfl⟩
    obtain ⟨cc, hcc, h1, h2, h3⟩ := h.bwd d hd
    exact ⟨cc, hcc, h1, h2, h3⟩

/-- Every instantiated entry is finite (and non-negative). -/
theorem C02_code_cells_finite (hS : ∀ p ∈ leafSpecies o, S.isNode p = true)
    (hlv : LeavesOk order o) (isRoot : Bool) :
    ∀ cc ∈ (computeTable c S base .all order isRoot o).cells,
      ∃ n : Nat, cc.entry.value = .fin (n : Int) := by
  intro cc hcc
  have h := table_rel c S base order o hS hlv false isRoot
  obtain ⟨d, hd, _, _, h3⟩ := h.fwd cc hcc
  obtain ⟨n, hn⟩ := ne_inf_iff.mp (h.fin d hd)
  exact ⟨n, by rw [h3, hn]; rfl⟩

/-- One entry per key `(species, mask)` in the dict of an object node. -/
theorem C02_code_cells_functional (ret : Retain) (isRoot : Bool) :
    ∀ cc ∈ (computeTable c S base ret order isRoot o).cells,
    ∀ cc' ∈ (computeTable c S base ret order isRoot o).cells,
      cc.sp = cc'.sp → cc.syn = cc'.syn → cc.entry = cc'.entry := by
  intro cc hcc cc' hcc' h1 h2
  cases o with
  | leaf sp f =>
    simp only [computeTable, Tab.cells] at hcc hcc'
    obtain ⟨e, he, rfl⟩ := mem_mkCells.mp hcc
    obtain ⟨e', he', rfl⟩ := mem_mkCells.mp hcc'
    exact Option.some.inj (he.symm.trans he')
  | node l r =>
    obtain ⟨_, _, he⟩ := (mem_cells_node c S base order ret isRoot l r cc).mp hcc
    obtain ⟨_, _, he'⟩ := (mem_cells_node c S base order ret isRoot l r cc').mp hcc'
    have e1 : computeEntry c S ret cc.sp cc.syn (computeTable c S base ret order false l).cells
        (computeTable c S base ret order false r).cells =
        computeEntry c S ret cc'.sp cc'.syn (computeTable c S base ret order false l).cells
        (computeTable c S base ret order false r).cells := by simp only [h1, h2]
    exact Option.some.inj (he.symm.trans (e1.trans he'))

/-- **Tags.**  The tags retained in `table[obj][s][m]` of an internal object node are exactly
    the pairs of child states `((species, mask), (species, mask))` of the label-DP candidates
    attaining the DP value of the cell — the pairs that `entry` dedups and decodes. -/
theorem C02_code_tags (l r : OTree) (hS : ∀ p ∈ leafSpecies (.node l r), S.isNode p = true)
    (hlv : LeavesOk order (.node l r)) (keep isRoot : Bool) :
    ∀ cc ∈ (computeTable c S base .all order isRoot (.node l r)).cells, ∀ t : CAsg,
      t ∈ cc.entry.infos ↔
        (best (ordAlg c) c S (nodeAnn S base order isRoot l r) cc.sp cc.syn
            (annOrd S base order false l).data (annOrd S base order false r).data
            (dpTable (ordAlg c) c S keep (annOrd S base order false l))
            (dpTable (ordAlg c) c S keep (annOrd S base order false r)), t) ∈
          cands (ordAlg c) c S (nodeAnn S base order isRoot l r) cc.sp cc.syn
            (annOrd S base order false l).data (annOrd S base order false r).data
            (dpTable (ordAlg c) c S keep (annOrd S base order false l))
            (dpTable (ordAlg c) c S keep (annOrd S base order false r)) := by
  intro cc hcc t
  obtain ⟨_, _, he⟩ := (mem_cells_node c S base order .all isRoot l r cc).mp hcc
  have hL := table_rel c S base order l (fun p hp => hS p (by simp [leafSpecies, hp])) hlv.1 keep false
  have hR := table_rel c S base order r (fun p hp => hS p (by simp [leafSpecies, hp])) hlv.2 keep false
  exact ((computeEntry_rel c S (nodeAnn S base order isRoot l r) (annOrd S base order false l).data
    (annOrd S base order false r).data cc.sp cc.syn hL hR).2 _ he).2 t

/-- **Decoding.**  `_decode_spfs_table` started at `(s, m)` yields exactly the solutions stored
    in the label-DP cell `(s, m)` (sequences resolved by `ordSol`), and nothing where the DP has
    no such cell. -/
theorem C02_code_decode (hS : ∀ p ∈ leafSpecies o, S.isNode p = true) (hlv : LeavesOk order o)
    (isRoot : Bool) (s : Path) (m : Nat) (sol : Sol) :
    sol ∈ decodeTable order (computeTable c S base .all order isRoot o) s m ↔
      ∃ d ∈ dpTable (ordAlg c) c S true (annOrd S base order isRoot o),
        d.sp = s ∧ d.lab = m ∧ ∃ ls ∈ d.sols, ordSol order ls = sol :=
  decode_rel c S base order o hS hlv isRoot s m sol

end table

/-! ### The solver -/

section solver

variable (c : Costs) (S : RTree) (base : Bool) (o : OTree)

/-- **Refinement.**  When the root orderings tried are those of `rootOrders` and every leaf
    synteny is a non-empty subsequence of each of them, the code-structured model returns
    exactly the members of `spfs c S base o pre`, each once. -/
theorem C02_code_refines (pre : Option (List Nat))
    (hS : ∀ p ∈ leafSpecies o, S.isNode p = true)
    (hlv : ∀ order ∈ rootOrders o pre, LeavesOk order o)
    (horders : ∃ os, rootOrderings o pre = .ok os ∧ ∀ order, order ∈ os ↔ order ∈ rootOrders o pre) :
    ∃ res, spfsCode c S base o pre = .ok res ∧
      (∀ sol, sol ∈ res ↔ sol ∈ spfs c S base o pre) ∧ res.Nodup := by
  obtain ⟨os, hos, hmem⟩ := horders
  have hlv' : ∀ order ∈ os, LeavesOk order o := fun order h => hlv order ((hmem order).mp h)
  refine ⟨(results c S base .all o os).infos, by simp only [spfsCode, SpfsCode.spfs, hos],
    ?_, (mem_results c S base o os (.leaf [] [])).2⟩
  intro sol
  rw [(mem_results c S base o os sol).1, mem_spfs]
  simp only [mem_decoded c S base o os hS hlv']
  constructor
  · rintro ⟨⟨order, ho, d, hd, ls, hls, rfl⟩, hmin⟩
    refine ⟨⟨order, (hmem order).mp ho, d, hd, ls, hls, rfl⟩, ?_⟩
    intro order' ho' d' hd' ls' hls'
    exact hmin _ ⟨order', (hmem order').mpr ho', d', hd', ls', hls', rfl⟩
  · rintro ⟨⟨order, ho, d, hd, ls, hls, rfl⟩, hmin⟩
    refine ⟨⟨order, (hmem order).mpr ho, d, hd, ls, hls, rfl⟩, ?_⟩
    rintro sol' ⟨order', ho', d', hd', ls', hls', rfl⟩
    exact hmin order' ((hmem order').mp ho') d' hd' ls' hls'

/-- Without a prescribed root order: leaf species in `S`, non-empty leaf syntenies (distinct
    families when the input is a single leaf). -/
theorem C02_code_refines_none (hS : ∀ p ∈ leafSpecies o, S.isNode p = true)
    (hne : ∀ f ∈ leafSyntenies o, f ≠ []) (hleaf : ∀ sp f, o = .leaf sp f → f.Nodup) :
    ∃ res, spfsCode c S base o none = .ok res ∧
      (∀ sol, sol ∈ res ↔ sol ∈ spfs c S base o none) ∧ res.Nodup := by
  obtain ⟨os, hos, _, hmem⟩ := C02_code_orders_none o hne hleaf
  exact C02_code_refines c S base o none hS (fun order h => (rootOrders_ok o hne order h).2)
    ⟨os, hos, hmem⟩

/-- With a prescribed root order that is a common supersequence of the non-empty leaf
    syntenies. -/
theorem C02_code_refines_prescribed (r : List Nat) (hS : ∀ p ∈ leafSpecies o, S.isNode p = true)
    (h : ∀ f ∈ leafSyntenies o, f ≠ [] ∧ f.Sublist r) :
    ∃ res, spfsCode c S base o (some r) = .ok res ∧
      (∀ sol, sol ∈ res ↔ sol ∈ spfs c S base o (some r)) ∧ res.Nodup := by
  refine C02_code_refines c S base o (some r) hS ?_ ⟨_, rfl, fun _ => Iff.rfl⟩
  intro order ho
  simp only [rootOrders, List.mem_singleton] at ho
  subst ho
  exact leavesOk_of_all _ o h

/-! ### C02 for the code-structured model -/

/-- **C02 (`C02_full`) for the code-structured model**, both solvers: for a binary species tree
    containing the leaf species, non-empty leaf syntenies and coherent costs, the solver raises
    nothing, and every returned solution is a valid ordered super-reconciliation whose cost is
    at most the optimum over all species mappings, root orders and labellings. -/
theorem C02_code_full (hb : S.isBinary = true) (hS : ∀ p ∈ leafSps o, S.isNode p = true)
    (hne : ∀ f ∈ leafSyns o, f ≠ []) (hleaf : ∀ sp f, o = .leaf sp f → f.Nodup)
    (hcoh : c.spe + 2 * c.sloss ≤ c.dup + 2 * c.floss) :
    ∃ res, spfsCode c S base o none = .ok res ∧
      ∀ sol ∈ res,
        Spec.validSol .ordered o sol = true ∧
        Cost.le (totalCost c .ordered o sol) (Spec.optimum c S .ordered base false o none).1 = true := by
  have hS' : ∀ p ∈ leafSpecies o, S.isNode p = true := by rwa [leafSps_eq] at hS
  have hne' : ∀ f ∈ leafSyntenies o, f ≠ [] := by rwa [leafSyns_eq] at hne
  obtain ⟨res, hres, hmem, _⟩ := C02_code_refines_none c S base o hS' hne' hleaf
  exact ⟨res, hres, fun sol h => C02_full c S o base hb hS hne hcoh sol ((hmem sol).mp h)⟩

/-- **C02 + C05, extended solver, exact form, for the code-structured model**: it returns
    exactly the valid ordered super-reconciliations of minimum (finite) evaluated cost among
    all valid ones, each once. -/
theorem C02_code_ext_exact (hne : ∀ f ∈ leafSyntenies o, f ≠ [])
    (hleaf : ∀ sp f, o = .leaf sp f → f.Nodup)
    (hb : S.isBinary = true) (hS : ∀ p ∈ leafSpecies o, S.isNode p = true)
    (hcoh : c.spe + 2 * c.sloss ≤ c.dup + 2 * c.floss) :
    ∃ res, spfsCode c S false o none = .ok res ∧
      (∀ sol, sol ∈ res ↔
        Spec.validSol .ordered o sol = true ∧ totalCost c .ordered o sol ≠ .inf ∧
        ∀ sol', Spec.validSol .ordered o sol' = true →
          Cost.le (totalCost c .ordered o sol) (totalCost c .ordered o sol') = true) ∧
      res.Nodup := by
  obtain ⟨res, hres, hmem, hnd⟩ := C02_code_refines_none c S false o hS hne hleaf
  exact ⟨res, hres, fun sol => (hmem sol).trans ((C02_ext_exact c S o hne hb hS hcoh).1 sol), hnd⟩

/-- The same for the base solver, among the solutions that use the LCA species mapping. -/
theorem C02_code_base_exact (hne : ∀ f ∈ leafSyntenies o, f ≠ [])
    (hleaf : ∀ sp f, o = .leaf sp f → f.Nodup)
    (hb : S.isBinary = true) (hS : ∀ p ∈ leafSpecies o, S.isNode p = true)
    (hcoh : c.spe + 2 * c.sloss ≤ c.dup + 2 * c.floss) :
    ∃ res, spfsCode c S true o none = .ok res ∧
      (∀ sol, sol ∈ res ↔
        Spec.validSol .ordered o sol = true ∧ Spec.sameMapping sol (lcaSol o) = true ∧
        totalCost c .ordered o sol ≠ .inf ∧
        ∀ sol', Spec.validSol .ordered o sol' = true → Spec.sameMapping sol' (lcaSol o) = true →
          Cost.le (totalCost c .ordered o sol) (totalCost c .ordered o sol') = true) ∧
      res.Nodup := by
  obtain ⟨res, hres, hmem, hnd⟩ := C02_code_refines_none c S true o hS hne hleaf
  exact ⟨res, hres, fun sol => (hmem sol).trans ((C02_base_exact c S o hne hb hS hcoh).1 sol), hnd⟩

/-- When no gene order is compatible with all leaves the code-structured model returns the
    empty set (not an error, not an invalid solution). -/
theorem C02_code_empty (l r : OTree) (hne : ∀ f ∈ leafSyntenies (.node l r), f ≠ [])
    (h : rootOrders (.node l r) none = []) : spfsCode c S base (.node l r) none = .ok [] := by
  obtain ⟨os, hos, _, hmem⟩ := rootOrderings_none l r hne
  have : os = [] := List.eq_nil_iff_forall_not_mem.mpr fun x hx => by
    have := (hmem x).mp hx; rw [h] at this; cases this
  subst this
  simp only [spfsCode, SpfsCode.spfs, hos, results, List.foldl_nil, Entry.init]

end solver

/-! ### Non-vacuity -/

/-- `ab` / `b` under `(A,B)`, unit costs: the guards hold; the code-structured model succeeds
    with one solution (extended) resp. one (base), the same as `spfs`; the table of the root has
    three instantiated entries, all at the complete mask. -/
example :
    let c : Costs := { spe := 1, dup := 1, hgt := .fin 1, floss := 1, sloss := 1 }
    let S : RTree := .node [.node [], .node []]
    let o : OTree := .node (.leaf [0] [1, 2]) (.leaf [1] [2])
    (∀ p ∈ leafSpecies o, S.isNode p = true) ∧ (∀ f ∈ leafSyntenies o, f ≠ []) ∧
    spfsCode c S false o none = .ok (spfs c S false o none) ∧
    spfsCode c S true o none = .ok (spfs c S true o none) ∧
    (spfs c S false o none).length = 1 ∧
    ((computeTable c S false .all [1, 2] true o).cells.map (fun d => (d.sp, d.syn))) =
      [([0], 3), ([1], 3), ([], 3)] ∧
    ((computeTable c S false .all [1, 2] true o).cells.map (fun d => d.entry.value)) =
      [.fin 1, .fin 2, .fin 2] ∧
    ((computeTable c S false .all [1, 2] true o).cells.map (fun d => d.entry.infos)) =
      [[(([0], 3), ([1], 2))], [(([0], 3), ([1], 2))], [(([0], 3), ([1], 2))]] := by
  decide +kernel

/-- Two compatible root orders (`a` / `b`): both are tried (C19), four solutions. -/
example :
    let c : Costs := { spe := 1, dup := 1, hgt := .fin 1, floss := 1, sloss := 1 }
    let S : RTree := .node [.node [], .node []]
    let o : OTree := .node (.leaf [0] [1]) (.leaf [1] [2])
    rootOrderings o none = .ok [[1, 2], [2, 1]] ∧
    (∃ res, spfsCode c S false o none = .ok res ∧ res.length = 4 ∧
      (∀ sol ∈ res, sol ∈ spfs c S false o none) ∧ (∀ sol ∈ spfs c S false o none, sol ∈ res)) := by
  refine ⟨by decide +kernel, _, rfl, ?_⟩
  decide +kernel

/-- Inconsistent leaf orders `ab` / `ba`: no root order, empty result, no error. -/
example :
    spfsCode { spe := 1, dup := 1, hgt := .fin 1, floss := 1, sloss := 1 }
      (.node [.node [], .node []]) false (.node (.leaf [0] [0, 1]) (.leaf [1] [1, 0])) none = .ok [] := by
  decide +kernel

/-- The guard on single-leaf inputs is needed: for the leaf synteny `aa` the code takes `aa` itself
    as root ordering and returns the leaf, while no permutation of the families contains `aa`. -/
theorem C02_code_leaf_dup :
    spfsCode { spe := 1, dup := 1, hgt := .fin 1, floss := 1, sloss := 1 } (.node []) false
        (.leaf [] [1, 1]) none = .ok [.leaf [] [1, 1]] ∧
    spfs { spe := 1, dup := 1, hgt := .fin 1, floss := 1, sloss := 1 } (.node []) false
        (.leaf [] [1, 1]) none = [] := by
  decide +kernel

/-- An empty leaf synteny makes `_make_prec_graph` raise (`leaf_synteny[-1]`). -/
example : spfsCode { spe := 1, dup := 1, hgt := .fin 1, floss := 1, sloss := 1 }
    (.node [.node [], .node []]) false (.node (.leaf [0] []) (.leaf [1] [1])) none =
      .error .indexError := by
  decide +kernel

end SR.C02
