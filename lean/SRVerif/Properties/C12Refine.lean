/-
  C12 ∘ C08 — node names on the command-line path for a MULTIFURCATING input:

      read_input → label_internal → ReconciliationInput.binarize()
                 → (each refinement written to Newick and re-parsed)
                 → label_internal again (`_spfs` / `_uspfs`) → output.

  Models composed here, all unchanged: `Cli.labelTree` (= `label_internal` on one tree,
  `Model/Cli.lean`, property C12), `Bin.binarize` (`Model/Binarize.lean`, property C08),
  `Newick.write` / `Newick.readNT` (`Model/Newick.lean`, property C11).  The statement
  is per tree and generic in the prefix: `"O"` for the object tree, `"S"` for the
  species tree (`Cli.labelInternal` applies `labelTree "O"` / `labelTree "S"`).

  Vocabulary (`Proofs/CliRefineTree.lean`): `lvs t` the leaf names of a name tree;
  `cn t` its nodes in pre-order as pairs (clade, name), the clade being the list of leaf
  names below the node — a node is identified by its clade up to `List.Perm`;
  `given t` the names that are neither empty nor `NoName`.

  The two models use different trees (`Ser.NT`: name, colour, children; `Bin.NTree` /
  `BinT`: leaf ids and annotation codes).  The bridge (`Proofs/CliRefineBridge.lean`) is
  a decoding `Dec` (what each leaf id and each annotation code stands for; the empty
  annotation of a new node is the empty name) with `decN` / `decB : coded tree → NT`.
  * `C12_refine_code`: for ANY code `(tN, d)` of the labelled tree (`decN d tN = t₁`) and
    any re-parse `r` that keeps given names and keeps unnamed nodes unnamed.
  * `C12_refine_cli`: for the canonical code (`encode`, `decOf`: pre-order indices —
    `C12_refine_encode` shows it is a code and lies in `binarize`'s domain) and the
    re-parse of the Newick model: it SUCCEEDS and what it returns is used.  The re-parse
    is not the identity here: the writer prints the empty name of a new node as `NoName`
    (`C12_refine_reparse`); `label_internal` treats both as unnamed.

  * `C12_refine_cli_full`: the same with the colours (`ColourClauses`: every colour stays
    on the node with its clade, new nodes have none) and with uniqueness (no two nodes of
    the output have the same clade).  `C12_refine_input`: both trees of an input.

  Proofs: `Proofs/CliRefineTree.lean` (clades, relabelling), `CliRefineBridge.lean` (codes;
  what `binarize` keeps, from `binarize_sound` of C08 plus a multiset statement on the given
  names), `CliRefineCompose.lean`, `CliRefineNewick.lean`, `CliRefineEnc.lean`,
  `CliRefineUnique.lean`, `CliRefineColour.lean`.

  Clauses (`Clauses`), for every tree of any arity ≥ 2 and any nesting:
  (1) all names of the output tree are pairwise distinct, none empty, none `NoName`;
  (2) every node of the input is found in the output with the same clade and the name
      it has after the FIRST labelling (which are the input's names where given) — so
      user names are untouched and first-round `O#`/`S#` names are kept;
  (3) every other node of the output is called `prefix ++ k`, a name used nowhere in the
      labelled input;
  (4) the output is binary with the leaves of the input.
-/
import SRVerif.Proofs.CliRefineColour

namespace SR.C12

open SR.Ser SR.Cli SR.Bin

/-- The clauses, for the input tree `t`, the tree `t₁` after the first labelling and an
    output tree `b₁` (a refinement after the second labelling). -/
def Clauses (pfx : String) (t t₁ b₁ : NT) : Prop :=
  -- (1)
  (b₁.names.Nodup ∧ ∀ x ∈ b₁.names, x ≠ "" ∧ x ≠ "NoName") ∧
  -- (2): the first labelling keeps every clade in place and renames as `label_internal` does
  ((cn t₁).map (·.1) = (cn t).map (·.1) ∧ t₁.names = labelNames pfx t.names) ∧
  -- … every node of the labelled input is in the output, same clade, same name
  (∀ x ∈ cn t₁, ∃ y ∈ cn b₁, y.1.Perm x.1 ∧ y.2 = x.2) ∧
  -- … in particular every node the user named
  (∀ x ∈ cn t, x.2 ≠ "" → x.2 ≠ "NoName" → ∃ y ∈ cn b₁, y.1.Perm x.1 ∧ y.2 = x.2) ∧
  -- (3)
  (∀ y ∈ cn b₁, (∀ x ∈ cn t₁, ¬ y.1.Perm x.1) →
    ∃ k : Nat, y.2 = pfx ++ toString k ∧ pfx ++ toString k ∉ t₁.names) ∧
  -- (4)
  (isBin b₁ = true ∧ (lvs b₁).Perm (lvs t))

theorem isUnnamed_eq_false_iff (x : String) : isUnnamed x = false ↔ x ≠ "" ∧ x ≠ "NoName" := by
  simp [isUnnamed]

theorem clauses_of_refined {pfx : String} {t t₁ b₁ : NT} (h : Refined pfx t t₁ b₁) :
    Clauses pfx t t₁ b₁ :=
  ⟨⟨h.nodup, fun x hx => (isUnnamed_eq_false_iff x).mp (h.named x hx)⟩,
   ⟨h.first_clades, h.first_names⟩, h.kept,
   fun x hx h1 h2 => h.user x hx ((isUnnamed_eq_false_iff _).mpr ⟨h1, h2⟩),
   h.fresh, h.binary, h.leaves⟩

/-- The composition for any code of the labelled tree.

    `t`: the input tree; its leaves are named and its given names (leaves and ancestors
    together) are pairwise distinct.  `(tN, d)`: a code of `labelTree pfx t` in the domain
    of `binarize` (every internal node has at least two children).  `b`: ANY member of
    `binarize tN`.  `r`: what re-parsing `decB d b` gives, only known to keep given names
    and to keep unnamed nodes unnamed.  Then `labelTree pfx r` satisfies the clauses. -/
theorem C12_refine_code (pfx : String) (t : NT)
    (hleaf : ∀ x ∈ lvs t, isUnnamed x = false) (hg : (given t).Nodup)
    (d : Dec) (tN : NTree) (hwfN : tN.WF = true) (henc : decN d tN = labelTree pfx t)
    (b : BinT) (hb : b ∈ binarize tN) (r : NT) (hr : Relab Same (decB d b) r) :
    Clauses pfx t (labelTree pfx t) (labelTree pfx r) :=
  clauses_of_refined (refine_compose pfx t hleaf hg d tN hwfN henc b hb r hr)

/-- … in particular when re-parsing is the identity. -/
theorem C12_refine_code_id (pfx : String) (t : NT)
    (hleaf : ∀ x ∈ lvs t, isUnnamed x = false) (hg : (given t).Nodup)
    (d : Dec) (tN : NTree) (hwfN : tN.WF = true) (henc : decN d tN = labelTree pfx t)
    (b : BinT) (hb : b ∈ binarize tN) :
    Clauses pfx t (labelTree pfx t) (labelTree pfx (decB d b)) :=
  C12_refine_code pfx t hleaf hg d tN hwfN henc b hb _ (Relab.refl Same.refl _)

/-- Every name tree has a code: the canonical one decodes to the tree, and it is in the
    domain of `binarize` when every node has no child or at least two. -/
theorem C12_refine_encode (t : NT) :
    decN (decOf t) (encode t) = t ∧ (wf2 t = true → (encode t).WF = true) :=
  ⟨decN_encode t, wf_encode t⟩

/-- The Newick re-parse of a tree whose names are safe or EMPTY (a refinement: the new
    nodes have the empty name): it succeeds, and gives the tree with every empty name
    replaced by `NoName` — for `label_internal`, the same tree. -/
theorem C12_refine_reparse (t : NT) (h : safeTreeE t = true) :
    Newick.readNT (Newick.write t) = .ok (fixEmpty t) ∧ Relab Same t (fixEmpty t) :=
  ⟨reparse t h, relab_fixEmpty t⟩

/-- The composition as `reconcile` runs it on one tree.

    `t`: any name tree in which every node has no child or at least two (any arity, any
    nesting), whose names are Newick-safe or empty (`safeTreeE`: no `:;(),[]=` TAB LF CR,
    no white space at an end), whose leaves are named and whose given names are pairwise
    distinct; the prefix is a word (letters, digits, `_`; `"O"`, `"S"`).
    For EVERY refinement `b` listed by `binarize` for the labelled tree: writing it and
    reading it back succeeds with some tree `r`, and `labelTree pfx r` — the tree the
    solutions are written with — satisfies the clauses. -/
theorem C12_refine_cli (pfx : String) (hpfx : pfx.toList.all NT.safeChar = true) (t : NT)
    (hwf : wf2 t = true) (hsafe : safeTreeE t = true)
    (hleaf : ∀ x ∈ lvs t, isUnnamed x = false) (hg : (given t).Nodup)
    (b : BinT) (hb : b ∈ binarize (encode (labelTree pfx t))) :
    ∃ r, Newick.readNT (Newick.write (decB (decOf (labelTree pfx t)) b)) = .ok r ∧
      Clauses pfx t (labelTree pfx t) (labelTree pfx r) := by
  obtain ⟨r, h1, h2⟩ := refine_cli pfx hpfx t hwf hsafe hleaf hg b hb
  exact ⟨r, h1, clauses_of_refined h2⟩

/-- The colour clauses (C08: a refinement keeps every clade "with its name and colour"):
    `cc` lists the nodes in pre-order as (clade, colour). -/
def ColourClauses (t t₁ b₁ : NT) : Prop :=
  -- the first labelling leaves clades and colours where they are
  cc t₁ = cc t ∧
  -- every node of the input is found in the output with the same clade and colour (or none)
  (∀ x ∈ cc t, ∃ y ∈ cc b₁, y.1.Perm x.1 ∧ y.2 = x.2) ∧
  -- every coloured node of the output is a node of the input: the new nodes have no colour
  (∀ y ∈ cc b₁, y.2 ≠ none → ∃ x ∈ cc t, y.1.Perm x.1 ∧ y.2 = x.2)

/-- `C12_refine_cli` together with the colours and with the fact that a clade identifies a
    node of the output: two nodes of the output with the same clade are the same node
    (so "the node with the clade of this input node", which clauses (2) and (3) speak
    about, is well defined; it is also the only node carrying its name, by (1)). -/
theorem C12_refine_cli_full (pfx : String) (hpfx : pfx.toList.all NT.safeChar = true) (t : NT)
    (hwf : wf2 t = true) (hsafe : safeTreeE t = true)
    (hleaf : ∀ x ∈ lvs t, isUnnamed x = false) (hg : (given t).Nodup)
    (b : BinT) (hb : b ∈ binarize (encode (labelTree pfx t))) :
    ∃ r, Newick.readNT (Newick.write (decB (decOf (labelTree pfx t)) b)) = .ok r ∧
      Clauses pfx t (labelTree pfx t) (labelTree pfx r) ∧
      ColourClauses t (labelTree pfx t) (labelTree pfx r) ∧
      (cn (labelTree pfx r)).Pairwise (fun x y => ¬ x.1.Perm y.1) ∧
      (∀ x ∈ cn (labelTree pfx r), ∀ y ∈ cn (labelTree pfx r), x.1.Perm y.1 → x = y) := by
  obtain ⟨r, h1, h2, h3, h4⟩ := refine_cli_full pfx hpfx t hwf hsafe hleaf hg b hb
  exact ⟨r, h1, clauses_of_refined h2, ⟨h3.first, h3.kept, h3.from_input⟩, h4,
    fun x hx y hy hp => clade_unique h4 hx hy hp⟩

/-- The colours for any code of the labelled tree (as `C12_refine_code`). -/
theorem C12_refine_code_colours (pfx : String) (t : NT)
    (hleaf : ∀ x ∈ lvs t, isUnnamed x = false)
    (d : Dec) (tN : NTree) (hwfN : tN.WF = true) (henc : decN d tN = labelTree pfx t)
    (b : BinT) (hb : b ∈ binarize tN) (r : NT) (hr : Relab Same (decB d b) r) :
    ColourClauses t (labelTree pfx t) (labelTree pfx r) :=
  let h := refine_colours pfx t hleaf d tN hwfN henc b hb r hr
  ⟨h.first, h.kept, h.from_input⟩

/-- Both trees of an input, as `ReconciliationInput.label_internal` / `.binarize()` treat
    them: the object tree with prefix `O`, the species tree with prefix `S`, every pair of
    refinements (the product that `binarize()` enumerates), each re-parsed, the pair
    labelled again by `label_internal`. -/
theorem C12_refine_input (x : RecInput)
    (hwfO : wf2 x.objectTree = true) (hsafeO : safeTreeE x.objectTree = true)
    (hleafO : ∀ n ∈ lvs x.objectTree, isUnnamed n = false) (hgO : (given x.objectTree).Nodup)
    (hwfS : wf2 x.speciesTree = true) (hsafeS : safeTreeE x.speciesTree = true)
    (hleafS : ∀ n ∈ lvs x.speciesTree, isUnnamed n = false) (hgS : (given x.speciesTree).Nodup)
    (bO : BinT) (hbO : bO ∈ binarize (encode (labelInternal x).objectTree))
    (bS : BinT) (hbS : bS ∈ binarize (encode (labelInternal x).speciesTree)) :
    ∃ rO rS,
      Newick.readNT (Newick.write (decB (decOf (labelInternal x).objectTree) bO)) = .ok rO ∧
      Newick.readNT (Newick.write (decB (decOf (labelInternal x).speciesTree) bS)) = .ok rS ∧
      Clauses "O" x.objectTree (labelInternal x).objectTree
        (labelInternal { x with objectTree := rO, speciesTree := rS }).objectTree ∧
      Clauses "S" x.speciesTree (labelInternal x).speciesTree
        (labelInternal { x with objectTree := rO, speciesTree := rS }).speciesTree := by
  obtain ⟨rO, h1, h2⟩ := C12_refine_cli "O" (by decide) x.objectTree hwfO hsafeO hleafO hgO bO hbO
  obtain ⟨rS, h3, h4⟩ := C12_refine_cli "S" (by decide) x.speciesTree hwfS hsafeS hleafS hgS bS hbS
  exact ⟨rO, rS, h1, h3, h2, h4⟩

/-- The step (a) on its own: the second `label_internal` keeps every name present after
    the first, on the node with the same clade, in every refinement. -/
theorem C12_refine_keeps (pfx : String) (hpfx : pfx.toList.all NT.safeChar = true) (t : NT)
    (hwf : wf2 t = true) (hsafe : safeTreeE t = true)
    (hleaf : ∀ x ∈ lvs t, isUnnamed x = false) (hg : (given t).Nodup)
    (b : BinT) (hb : b ∈ binarize (encode (labelTree pfx t))) :
    ∃ r, Newick.readNT (Newick.write (decB (decOf (labelTree pfx t)) b)) = .ok r ∧
      ∀ x ∈ cn (labelTree pfx t), ∃ y ∈ cn (labelTree pfx r), y.1.Perm x.1 ∧ y.2 = x.2 := by
  obtain ⟨r, h1, h2⟩ := C12_refine_cli pfx hpfx t hwf hsafe hleaf hg b hb
  exact ⟨r, h1, h2.2.2.1⟩

/-- A generated name is never empty or `NoName`, whatever the prefix (it ends with a
    digit): the second pass cannot mistake a first-round name for an unnamed node. -/
theorem C12_refine_generated_named (pfx : String) (k : Nat) :
    isUnnamed (mkName pfx k) = false :=
  isUnnamed_mkName' pfx k

/-! ### Non-vacuity

`(a_1, (b_1, c_1, d_1)[color=red], (e_1, f_1)O1)`: the root and one trichotomy are
unnamed, the user's `O1` looks like a generated name.  First labelling: root `O0`, the
trichotomy `O2` (`O1` is taken).  3 · 3 = 9 refinements, two new nodes each, named `O3`
and `O4` by the second labelling.  (The same nine trees are what the real
`label_internal` / `binarize` / `label_internal` produce for this input.) -/

def exT : NT :=
  .node "" none [.node "a_1" none [],
    .node "" (some "red") [.node "b_1" none [], .node "c_1" none [], .node "d_1" none []],
    .node "O1" none [.node "e_1" none [], .node "f_1" none []]]

/-- The hypotheses of `C12_refine_cli` hold of it. -/
example : "O".toList.all NT.safeChar = true ∧ wf2 exT = true ∧ safeTreeE exT = true
    ∧ (∀ x ∈ lvs exT, isUnnamed x = false) ∧ (given exT).Nodup := by decide

example : (labelTree "O" exT).names = ["O0", "a_1", "O2", "b_1", "c_1", "d_1", "O1", "e_1", "f_1"] := by
  decide

example : (binarize (encode (labelTree "O" exT))).length = 9 := by decide

/-- The first refinement: as coded tree, as written (new nodes `NoName`), as output. -/
def exB : BinT :=
  .node (some 0) (.leaf 1)
    (.node none (.node (some 2) (.leaf 3) (.node none (.leaf 4) (.leaf 5)))
      (.node (some 6) (.leaf 7) (.leaf 8)))

example : (binarize (encode (labelTree "O" exT))).head? = some exB := by decide

example : Newick.write (decB (decOf (labelTree "O" exT)) exB)
    = "(a_1,((b_1,(c_1,d_1)NoName)O2[&&NHX:color=red],(e_1,f_1)O1)NoName)O0;" := by decide

example : cn (labelTree "O" (fixEmpty (decB (decOf (labelTree "O" exT)) exB)))
    = [(["a_1", "b_1", "c_1", "d_1", "e_1", "f_1"], "O0"), (["a_1"], "a_1"),
       (["b_1", "c_1", "d_1", "e_1", "f_1"], "O3"), (["b_1", "c_1", "d_1"], "O2"),
       (["b_1"], "b_1"), (["c_1", "d_1"], "O4"), (["c_1"], "c_1"), (["d_1"], "d_1"),
       (["e_1", "f_1"], "O1"), (["e_1"], "e_1"), (["f_1"], "f_1")] := by decide

example : cc (labelTree "O" (fixEmpty (decB (decOf (labelTree "O" exT)) exB)))
    = [(["a_1", "b_1", "c_1", "d_1", "e_1", "f_1"], none), (["a_1"], none),
       (["b_1", "c_1", "d_1", "e_1", "f_1"], none), (["b_1", "c_1", "d_1"], some "red"),
       (["b_1"], none), (["c_1", "d_1"], none), (["c_1"], none), (["d_1"], none),
       (["e_1", "f_1"], none), (["e_1"], none), (["f_1"], none)] := by decide

/-- The theorem applied to it. -/
example : ∃ r, Newick.readNT (Newick.write (decB (decOf (labelTree "O" exT)) exB)) = .ok r ∧
    Clauses "O" exT (labelTree "O" exT) (labelTree "O" r) :=
  C12_refine_cli "O" (by decide) exT (by decide) (by decide) (by decide) (by decide) exB (by decide)

example : ∃ r, Newick.readNT (Newick.write (decB (decOf (labelTree "O" exT)) exB)) = .ok r ∧
    Clauses "O" exT (labelTree "O" exT) (labelTree "O" r) ∧
    ColourClauses exT (labelTree "O" exT) (labelTree "O" r) ∧
    (cn (labelTree "O" r)).Pairwise (fun x y => ¬ x.1.Perm y.1) ∧
    (∀ x ∈ cn (labelTree "O" r), ∀ y ∈ cn (labelTree "O" r), x.1.Perm y.1 → x = y) :=
  C12_refine_cli_full "O" (by decide) exT (by decide) (by decide) (by decide) (by decide) exB
    (by decide)

/-- The hypotheses are needed: with two nodes given the same name the output has
    colliding names (nothing renames a given name). -/
example :
    let t : NT := .node "X" none [.node "a" none [], .node "X" none [.node "b" none [], .node "c" none []]]
    ¬ (given t).Nodup ∧ ¬ (labelTree "O" t).names.Nodup := by decide

end SR.C12
