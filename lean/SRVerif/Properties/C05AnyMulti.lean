/-
  C05, policy ANY, the multifurcation loop of `_spfs` / `_uspfs`
  (`sreconcile_{base,extended}_spfs`, `usreconcile_{base,extended}_uspfs` on an input with
  polytomies).

  Model (`Model/AnyMulti.lean`): the code creates ONE result entry before the loop over
  `rec_input.binarize()`; each refined input builds its tables under the given policy and
  offers every decoded output to that entry.  Under ANY a refined input therefore offers
  one output per finite root cell (`spfsCandsAny`, `uspfsCandsAny`: the lists ranked by
  `spfsAny`, `uspfsAny` of `Model/LabelDPAny.lean`), and the entry keeps one of minimum
  evaluated cost among everything offered by all pairs of refinements
  (`spfsMultiAny`, `uspfsMultiAny` = `rankOutsAny pick …`).  All theorems hold for EVERY
  valid table `Picker` `P` and every valid selection function `pick` of the result entry,
  hence for every order in which candidates may be offered.

  For `X ∈ {spfs, uspfs}` (`base` and extended):
  * `C05_any_card_multi_X`       at most one output (no hypothesis);
  * `C05_any_empty_iff_multi_X`  the ANY result is empty iff the ALL result `XMulti` is empty
                                 (no hypothesis on costs or trees);
  * `C05_any_total_multi_X`      hence exactly one output whenever the ALL result is not empty
                                 (for `uspfs` on a well-formed input: always);
  * `C05_any_mem_multi_X`        the ANY output is a member of the ALL result `XMulti`
                                 (`C08_opt_X`), inside the coherent region of `X`, on a
                                 well-formed input (`InputOk`);
  * `C05_any_same_cost_multi_X`  and has the cost of every ALL output;
  * `C05_any_opt_multi_X`        extended solver: it refers to a pair of binary refinements
                                 with the original leaf data, its solution is a valid optimal
                                 solution of that binary input, of finite cost, and its cost
                                 is THE optimum over all pairs of binary refinements of both
                                 trees (`C08_opt_refinements_X`).
  `…_nested_X`: the same for the variant in which every refined input is first solved to
  the end under ANY (`spfsAny` / `uspfsAny`, own result entry) and the single outputs are
  offered to an outer entry under ANY.

  Guards as in C05Any / C08Opt: ordered `spe + 2·sloss ≤ dup + 2·floss`, non-empty leaf
  syntenies, root orders not prescribed (or `OrdersOk` on every pair: `…_of_orders`);
  unordered `spe + sloss ≤ dup + 2·floss`.  Outside the coherent region membership can
  fail already for a binary input (`C05_any_incoherent_witness`).
-/
import SRVerif.Proofs.AnyMulti
import SRVerif.Properties.C05AnyUn
import SRVerif.Properties.C08OptUn

namespace SR.C05

open SR SR.Bin Cost

/-- `multiCands` is empty iff every pair of refinements offers nothing. -/
theorem multiCands_eq_nil {tO tS : NTree} {data : LeafData} {cands : RTree → OTree → List Sol} :
    multiCands tO tS data cands = [] ↔
      ∀ bO ∈ binarize tO, ∀ bS ∈ binarize tS, cands (shape bS.toN) (toOTree data bS bO) = [] := by
  constructor
  · intro h bO hbO bS hbS
    apply List.eq_nil_iff_forall_not_mem.mpr
    intro s hs
    have : ({ sTree := bS, oTree := bO, sol := s } : Out) ∈ multiCands tO tS data cands :=
      mem_multiCands.mpr ⟨hbO, hbS, hs⟩
    rw [h] at this; cases this
  · intro h
    apply List.eq_nil_iff_forall_not_mem.mpr
    intro y hy
    obtain ⟨hO, hS, hs⟩ := mem_multiCands.mp hy
    rw [h _ hO _ hS] at hs; cases hs

theorem multiCands_nil_congr {tO tS : NTree} {data : LeafData}
    {ca cl : RTree → OTree → List Sol}
    (h : ∀ bO ∈ binarize tO, ∀ bS ∈ binarize tS,
      (ca (shape bS.toN) (toOTree data bS bO) = [] ↔ cl (shape bS.toN) (toOTree data bS bO) = [])) :
    multiCands tO tS data ca = [] ↔ multiCands tO tS data cl = [] := by
  rw [multiCands_eq_nil, multiCands_eq_nil]
  constructor
  · intro h' bO hbO bS hbS; exact (h bO hbO bS hbS).mp (h' bO hbO bS hbS)
  · intro h' bO hbO bS hbS; exact (h bO hbO bS hbS).mpr (h' bO hbO bS hbS)

/-- From "exactly the members of a one-element-or-empty list" to its length. -/
theorem length_eq_one_of {α : Type} {l : List α} (h1 : l.length ≤ 1) (h2 : l ≠ []) : l.length = 1 := by
  cases l with
  | nil => exact absurd rfl h2
  | cons x xs => simp at h1; simp [h1]

/-! ### `sreconcile_{base,extended}_spfs` -/

section spfs

variable (P : Picker Nat) (hP : P.Ok) (pick : List Out → Option Out) (hp : PickOk pick)
  (c : Costs) (base : Bool) (tO tS : NTree) (data : LeafData) (pre : Option (List Nat))

/-- At most one output. -/
theorem C05_any_card_multi_spfs : (spfsMultiAny P pick c base tO tS data pre).length ≤ 1 :=
  rankOutsAny_length_le _ _ _ _ _

theorem C05_any_card_multi_nested_spfs :
    (spfsMultiAnyNested P pick c base tO tS data pre).length ≤ 1 :=
  rankOutsAny_length_le _ _ _ _ _

include hP in
/-- One refined input offers nothing under ANY iff it offers nothing under ALL. -/
theorem spfsCandsAny_nil_iff (S : RTree) (o : OTree) :
    spfsCandsAny P c S base o pre = [] ↔ spfsCands c S base o pre = [] :=
  repG_nil_iff (spfs_hcl c S base o pre) (spfs_repG P hP c S base o pre)

include hP in
theorem spfs_covers (S : RTree) (o : OTree) (hord : C02.OrdersOk o pre) (hb : S.isBinary = true)
    (hS : ∀ p ∈ leafSpecies o, S.isNode p = true)
    (hcoh : c.spe + 2 * c.sloss ≤ c.dup + 2 * c.floss) :
    Covers c .ordered o (spfsCandsAny P c S base o pre) (spfsCands c S base o pre) :=
  covers_of_rep (spfs_hcl c S base o pre) (spfs_repG P hP c S base o pre)
    (spfs_uniform c S base o pre hord hb hS hcoh)

include hP in
theorem spfs_covers_nested (S : RTree) (o : OTree) (hord : C02.OrdersOk o pre)
    (hb : S.isBinary = true) (hS : ∀ p ∈ leafSpecies o, S.isNode p = true)
    (hcoh : c.spe + 2 * c.sloss ≤ c.dup + 2 * c.floss) :
    Covers c .ordered o (spfsAny P c S base o pre) (spfsCands c S base o pre) := by
  apply covers_of_ranked
  · intro s hs
    rw [← spfs_eq_rank]
    exact C05_any_mem_spfs P hP c S base o pre hord hb hS hcoh s hs
  · intro hne h
    have := (C05_any_empty_iff_spfs P hP c S base o pre).mp h
    rw [spfs_eq_rank] at this
    exact hne ((C05_empty_iff c .ordered o _).mp this)

include hP hp

/-- **Empty results coincide** (no hypothesis on the costs or on the trees). -/
theorem C05_any_empty_iff_multi_spfs :
    spfsMultiAny P pick c base tO tS data pre = [] ↔ spfsMulti c base tO tS data pre = [] := by
  unfold spfsMultiAny spfsMulti
  rw [rankOutsAny_eq_nil_iff pick c .ordered data hp, rankOuts_nil_iff]
  exact multiCands_nil_congr (fun bO _ bS _ => spfsCandsAny_nil_iff P hP c base pre _ _)

theorem C05_any_empty_iff_multi_nested_spfs :
    spfsMultiAnyNested P pick c base tO tS data pre = [] ↔ spfsMulti c base tO tS data pre = [] := by
  unfold spfsMultiAnyNested spfsMulti
  rw [rankOutsAny_eq_nil_iff pick c .ordered data hp, rankOuts_nil_iff]
  refine multiCands_nil_congr (fun bO _ bS _ => ?_)
  rw [C05_any_empty_iff_spfs P hP c _ base _ pre, spfs_eq_rank, C05_empty_iff]

/-- Exactly one output whenever the ALL result is not empty. -/
theorem C05_any_total_multi_spfs (hne : spfsMulti c base tO tS data pre ≠ []) :
    (spfsMultiAny P pick c base tO tS data pre).length = 1 :=
  length_eq_one_of (C05_any_card_multi_spfs P pick c base tO tS data pre)
    (fun h => hne ((C05_any_empty_iff_multi_spfs P hP pick hp c base tO tS data pre).mp h))

/-- Membership, given the guards of C05Any on every pair of `binarize × binarize`. -/
theorem C05_any_mem_multi_spfs_of_orders
    (hord : ∀ bO ∈ binarize tO, ∀ bS ∈ binarize tS, C02.OrdersOk (toOTree data bS bO) pre)
    (hok : C08.InputOk tO tS data) (hcoh : c.spe + 2 * c.sloss ≤ c.dup + 2 * c.floss) :
    ∀ x ∈ spfsMultiAny P pick c base tO tS data pre, x ∈ spfsMulti c base tO tS data pre := by
  intro x hx
  apply rank_multi_any_sub c .ordered tO tS data _ _ _ (rankOutsAny_sub pick c .ordered data hp hx)
  intro bO hbO bS hbS
  obtain ⟨_, _, _, _, _, _, hb, hS⟩ :=
    C08.C08_refers_of_mem hok (x := { sTree := bS, oTree := bO, sol := .leaf [] [] }) hbO hbS
  exact spfs_covers P hP c base pre _ _ (hord bO hbO bS hbS) hb hS hcoh

theorem C05_any_mem_multi_nested_spfs_of_orders
    (hord : ∀ bO ∈ binarize tO, ∀ bS ∈ binarize tS, C02.OrdersOk (toOTree data bS bO) pre)
    (hok : C08.InputOk tO tS data) (hcoh : c.spe + 2 * c.sloss ≤ c.dup + 2 * c.floss) :
    ∀ x ∈ spfsMultiAnyNested P pick c base tO tS data pre, x ∈ spfsMulti c base tO tS data pre := by
  intro x hx
  apply rank_multi_any_sub c .ordered tO tS data _ _ _ (rankOutsAny_sub pick c .ordered data hp hx)
  intro bO hbO bS hbS
  obtain ⟨_, _, _, _, _, _, hb, hS⟩ :=
    C08.C08_refers_of_mem hok (x := { sTree := bS, oTree := bO, sol := .leaf [] [] }) hbO hbS
  exact spfs_covers_nested P hP c base pre _ _ (hord bO hbO bS hbS) hb hS hcoh

end spfs

section spfs_none

variable (P : Picker Nat) (hP : P.Ok) (pick : List Out → Option Out) (hp : PickOk pick)
  (c : Costs) (base : Bool) (tO tS : NTree) (data : LeafData)

/-- Non-empty leaf syntenies give `OrdersOk` on every pair of refinements. -/
theorem orders_ok_of_ne (hok : C08.InputOk tO tS data) (hne : ∀ i ∈ tO.leaves, (data i).2 ≠ []) :
    ∀ bO ∈ binarize tO, ∀ bS ∈ binarize tS, C02.OrdersOk (toOTree data bS bO) none :=
  fun _ hbO _ hbS => C02.C02_orders_ok _ (C08.C08_guards_of_mem tO tS data hok hne hbO hbS).1

include hP hp

/-- **C05 (`any` ∈ `all`) through the multifurcation loop, ordered solvers**: on a
    well-formed input with non-empty leaf syntenies, inside the coherent region, the single
    output kept under ANY is one of the outputs kept under ALL — whatever the order in which
    the tables and the result entry are offered their candidates. -/
theorem C05_any_mem_multi_spfs (hok : C08.InputOk tO tS data)
    (hne : ∀ i ∈ tO.leaves, (data i).2 ≠ [])
    (hcoh : c.spe + 2 * c.sloss ≤ c.dup + 2 * c.floss) :
    ∀ x ∈ spfsMultiAny P pick c base tO tS data none, x ∈ spfsMulti c base tO tS data none :=
  C05_any_mem_multi_spfs_of_orders P hP pick hp c base tO tS data none
    (orders_ok_of_ne tO tS data hok hne) hok hcoh

theorem C05_any_mem_multi_nested_spfs (hok : C08.InputOk tO tS data)
    (hne : ∀ i ∈ tO.leaves, (data i).2 ≠ [])
    (hcoh : c.spe + 2 * c.sloss ≤ c.dup + 2 * c.floss) :
    ∀ x ∈ spfsMultiAnyNested P pick c base tO tS data none, x ∈ spfsMulti c base tO tS data none :=
  C05_any_mem_multi_nested_spfs_of_orders P hP pick hp c base tO tS data none
    (orders_ok_of_ne tO tS data hok hne) hok hcoh

/-- Both policies agree on the cost. -/
theorem C05_any_same_cost_multi_spfs (hok : C08.InputOk tO tS data)
    (hne : ∀ i ∈ tO.leaves, (data i).2 ≠ [])
    (hcoh : c.spe + 2 * c.sloss ≤ c.dup + 2 * c.floss) :
    ∀ x ∈ spfsMultiAny P pick c base tO tS data none, ∀ y ∈ spfsMulti c base tO tS data none,
      x.cost c .ordered data = y.cost c .ordered data :=
  fun x hx _ hy => rankOuts_same_cost c .ordered data _
    (C05_any_mem_multi_spfs P hP pick hp c base tO tS data hok hne hcoh x hx) hy

theorem C05_any_same_cost_multi_nested_spfs (hok : C08.InputOk tO tS data)
    (hne : ∀ i ∈ tO.leaves, (data i).2 ≠ [])
    (hcoh : c.spe + 2 * c.sloss ≤ c.dup + 2 * c.floss) :
    ∀ x ∈ spfsMultiAnyNested P pick c base tO tS data none,
      ∀ y ∈ spfsMulti c base tO tS data none, x.cost c .ordered data = y.cost c .ordered data :=
  fun x hx _ hy => rankOuts_same_cost c .ordered data _
    (C05_any_mem_multi_nested_spfs P hP pick hp c base tO tS data hok hne hcoh x hx) hy

/-- **The single ANY output of the extended ordered solver is an optimum over all binary
    refinements**: it refers to a pair of binary refinements (keeping clades, names,
    colours) with the original leaf data, carries a valid optimal solution of that binary
    input, of finite cost, and its cost is the minimum over ALL pairs of binary refinements
    (specification sense, any child order) of the optimum of the binary input. -/
theorem C05_any_opt_multi_spfs (hok : C08.InputOk tO tS data)
    (hne : ∀ i ∈ tO.leaves, (data i).2 ≠ [])
    (hcoh : c.spe + 2 * c.sloss ≤ c.dup + 2 * c.floss) :
    ∀ x ∈ spfsMultiAny P pick c false tO tS data none,
      C08.Refers tO tS data x ∧
      C09.IsOptimal c .ordered (toOTree data x.sTree x.oTree) x.sol ∧
      x.cost c .ordered data ≠ .inf ∧
      C08.IsRefinementOptimum c .ordered tO tS data (x.cost c .ordered data) :=
  fun x hx => C08.C08_opt_refinements_spfs c tO tS data hok hne hcoh x
    (C05_any_mem_multi_spfs P hP pick hp c false tO tS data hok hne hcoh x hx)

end spfs_none

/-! ### `usreconcile_{base,extended}_uspfs` -/

section uspfs

variable (P : Picker Kind) (hP : P.Ok) (pick : List Out → Option Out) (hp : PickOk pick)
  (c : Costs) (base : Bool) (tO tS : NTree) (data : LeafData)

theorem C05_any_card_multi_uspfs : (uspfsMultiAny P pick c base tO tS data).length ≤ 1 :=
  rankOutsAny_length_le _ _ _ _ _

theorem C05_any_card_multi_nested_uspfs :
    (uspfsMultiAnyNested P pick c base tO tS data).length ≤ 1 :=
  rankOutsAny_length_le _ _ _ _ _

include hP in
theorem uspfsCandsAny_nil_iff (S : RTree) (o : OTree) :
    uspfsCandsAny P c S base o = [] ↔ uspfsCands c S base o = [] :=
  repG_nil_iff (uspfs_hcl c S base o) (uspfs_repG P hP c S base o)

include hP in
theorem uspfs_covers (S : RTree) (o : OTree) (hb : S.isBinary = true)
    (hS : ∀ p ∈ leafSpecies o, S.isNode p = true)
    (hcoh : c.spe + c.sloss ≤ c.dup + 2 * c.floss) :
    Covers c .unordered o (uspfsCandsAny P c S base o) (uspfsCands c S base o) :=
  covers_of_rep (uspfs_hcl c S base o) (uspfs_repG P hP c S base o)
    (uspfs_uniform c S base o (C03.C03_kinds_faithful_all c S base o) hb hS hcoh)

include hP in
theorem uspfs_covers_nested (S : RTree) (o : OTree) (hb : S.isBinary = true)
    (hS : ∀ p ∈ leafSpecies o, S.isNode p = true)
    (hcoh : c.spe + c.sloss ≤ c.dup + 2 * c.floss) :
    Covers c .unordered o (uspfsAny P c S base o) (uspfsCands c S base o) := by
  apply covers_of_ranked
  · intro s hs
    rw [← uspfs_eq_rank]
    exact C05_any_mem_uspfs_partial P hP c S base o (C03.C03_kinds_faithful_all c S base o)
      hb hS hcoh s hs
  · intro hne h
    have := (C05_any_empty_iff_uspfs P hP c S base o).mp h
    rw [uspfs_eq_rank] at this
    exact hne ((C05_empty_iff c .unordered o _).mp this)

include hP hp

/-- **Empty results coincide** (no hypothesis on the costs or on the trees). -/
theorem C05_any_empty_iff_multi_uspfs :
    uspfsMultiAny P pick c base tO tS data = [] ↔ uspfsMulti c base tO tS data = [] := by
  unfold uspfsMultiAny uspfsMulti
  rw [rankOutsAny_eq_nil_iff pick c .unordered data hp, rankOuts_nil_iff]
  exact multiCands_nil_congr (fun bO _ bS _ => uspfsCandsAny_nil_iff P hP c base _ _)

theorem C05_any_empty_iff_multi_nested_uspfs :
    uspfsMultiAnyNested P pick c base tO tS data = [] ↔ uspfsMulti c base tO tS data = [] := by
  unfold uspfsMultiAnyNested uspfsMulti
  rw [rankOutsAny_eq_nil_iff pick c .unordered data hp, rankOuts_nil_iff]
  refine multiCands_nil_congr (fun bO _ bS _ => ?_)
  rw [C05_any_empty_iff_uspfs P hP c _ base _, uspfs_eq_rank, C05_empty_iff]

/-- Exactly one output whenever the ALL result is not empty. -/
theorem C05_any_total_multi_uspfs_of_ne (hne : uspfsMulti c base tO tS data ≠ []) :
    (uspfsMultiAny P pick c base tO tS data).length = 1 :=
  length_eq_one_of (C05_any_card_multi_uspfs P pick c base tO tS data)
    (fun h => hne ((C05_any_empty_iff_multi_uspfs P hP pick hp c base tO tS data).mp h))

/-- The extended unordered solver under ANY returns exactly one output on every well-formed
    input (all unit costs). -/
theorem C05_any_total_multi_uspfs (hok : C08.InputOk tO tS data) :
    (uspfsMultiAny P pick c false tO tS data).length = 1 :=
  C05_any_total_multi_uspfs_of_ne P hP pick hp c false tO tS data
    (C08.C08_opt_refinements_uspfs_nonempty c tO tS data hok)

/-- **C05 (`any` ∈ `all`) through the multifurcation loop, unordered solvers.** -/
theorem C05_any_mem_multi_uspfs (hok : C08.InputOk tO tS data)
    (hcoh : c.spe + c.sloss ≤ c.dup + 2 * c.floss) :
    ∀ x ∈ uspfsMultiAny P pick c base tO tS data, x ∈ uspfsMulti c base tO tS data := by
  intro x hx
  apply rank_multi_any_sub c .unordered tO tS data _ _ _
    (rankOutsAny_sub pick c .unordered data hp hx)
  intro bO hbO bS hbS
  obtain ⟨_, _, _, _, _, _, hb, hS⟩ :=
    C08.C08_refers_of_mem hok (x := { sTree := bS, oTree := bO, sol := .leaf [] [] }) hbO hbS
  exact uspfs_covers P hP c base _ _ hb hS hcoh

theorem C05_any_mem_multi_nested_uspfs (hok : C08.InputOk tO tS data)
    (hcoh : c.spe + c.sloss ≤ c.dup + 2 * c.floss) :
    ∀ x ∈ uspfsMultiAnyNested P pick c base tO tS data, x ∈ uspfsMulti c base tO tS data := by
  intro x hx
  apply rank_multi_any_sub c .unordered tO tS data _ _ _
    (rankOutsAny_sub pick c .unordered data hp hx)
  intro bO hbO bS hbS
  obtain ⟨_, _, _, _, _, _, hb, hS⟩ :=
    C08.C08_refers_of_mem hok (x := { sTree := bS, oTree := bO, sol := .leaf [] [] }) hbO hbS
  exact uspfs_covers_nested P hP c base _ _ hb hS hcoh

/-- Both policies agree on the cost. -/
theorem C05_any_same_cost_multi_uspfs (hok : C08.InputOk tO tS data)
    (hcoh : c.spe + c.sloss ≤ c.dup + 2 * c.floss) :
    ∀ x ∈ uspfsMultiAny P pick c base tO tS data, ∀ y ∈ uspfsMulti c base tO tS data,
      x.cost c .unordered data = y.cost c .unordered data :=
  fun x hx _ hy => rankOuts_same_cost c .unordered data _
    (C05_any_mem_multi_uspfs P hP pick hp c base tO tS data hok hcoh x hx) hy

theorem C05_any_same_cost_multi_nested_uspfs (hok : C08.InputOk tO tS data)
    (hcoh : c.spe + c.sloss ≤ c.dup + 2 * c.floss) :
    ∀ x ∈ uspfsMultiAnyNested P pick c base tO tS data, ∀ y ∈ uspfsMulti c base tO tS data,
      x.cost c .unordered data = y.cost c .unordered data :=
  fun x hx _ hy => rankOuts_same_cost c .unordered data _
    (C05_any_mem_multi_nested_uspfs P hP pick hp c base tO tS data hok hcoh x hx) hy

/-- **The single ANY output of the extended unordered solver is an optimum over all binary
    refinements** (see `C05_any_opt_multi_spfs`). -/
theorem C05_any_opt_multi_uspfs (hok : C08.InputOk tO tS data)
    (hcoh : c.spe + c.sloss ≤ c.dup + 2 * c.floss) :
    ∀ x ∈ uspfsMultiAny P pick c false tO tS data,
      C08.Refers tO tS data x ∧
      C09.IsOptimal c .unordered (toOTree data x.sTree x.oTree) x.sol ∧
      x.cost c .unordered data ≠ .inf ∧
      C08.IsRefinementOptimum c .unordered tO tS data (x.cost c .unordered data) :=
  fun x hx => C08.C08_opt_refinements_uspfs c tO tS data hok hcoh x
    (C05_any_mem_multi_uspfs P hP pick hp c false tO tS data hok hcoh x hx)

end uspfs

/-! ### Non-vacuity

  The trichotomy example of `C08Opt.lean` (object tree `(0, 1, 2)`, species tree
  `(10, 11, 12)`, 3 × 3 pairs of refinements, three of optimum 3 and six of optimum 2): the
  ALL result has 6 (ordered) / 14 (unordered) outputs of cost 2; under ANY two valid
  selection rules return two DIFFERENT single members of it. -/

open SR.C08 in
example :
    (∀ i ∈ exO.leaves, (exData i).2 ≠ []) ∧ exC.spe + 2 * exC.sloss ≤ exC.dup + 2 * exC.floss ∧
    (spfsMulti exC false exO exS exData none).length = 6 ∧
    (spfsMultiAny (Picker.first Nat) List.head? exC false exO exS exData none).length = 1 ∧
    (spfsMultiAny (Picker.last Nat) List.getLast? exC false exO exS exData none).length = 1 ∧
    spfsMultiAny (Picker.first Nat) List.head? exC false exO exS exData none ≠
      spfsMultiAny (Picker.last Nat) List.getLast? exC false exO exS exData none ∧
    (∀ x ∈ spfsMultiAny (Picker.first Nat) List.head? exC false exO exS exData none,
      x ∈ spfsMulti exC false exO exS exData none ∧ x.cost exC .ordered exData = .fin 2) ∧
    (∀ x ∈ spfsMultiAnyNested (Picker.last Nat) List.getLast? exC false exO exS exData none,
      x ∈ spfsMulti exC false exO exS exData none) := by
  decide +kernel

open SR.C08 in
example :
    exC.spe + exC.sloss ≤ exC.dup + 2 * exC.floss ∧
    (uspfsMulti exC false exO exS exData).length = 14 ∧
    (uspfsMultiAny (Picker.first Kind) List.head? exC false exO exS exData).length = 1 ∧
    uspfsMultiAny (Picker.first Kind) List.head? exC false exO exS exData ≠
      uspfsMultiAny (Picker.last Kind) List.getLast? exC false exO exS exData ∧
    (∀ x ∈ uspfsMultiAny (Picker.last Kind) List.getLast? exC false exO exS exData,
      x ∈ uspfsMulti exC false exO exS exData ∧ x.cost exC .unordered exData = .fin 2) ∧
    (∀ x ∈ uspfsMultiAnyNested (Picker.first Kind) List.head? exC false exO exS exData,
      x ∈ uspfsMulti exC false exO exS exData) := by
  decide +kernel

end SR.C05
