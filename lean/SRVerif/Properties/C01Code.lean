/-
  C01 for the CODE-STRUCTURED model of `reconcile_thl` (`Model/ThlCode.lean`):
  a transliteration of `_compute_thl_table` (post-order over the object tree, loop
  over the species, one global table of `Entry`s with `MappingInfo` tags),
  `_compute_thl_try_speciation`, `_compute_thl_try_duplication_transfer` (the
  eight aggregate entries, `Entry.combine` with the three combinators),
  `_decode_thl_table` and the result entry of `reconcile_thl`, on top of the C16
  model of `Entry` / `EntryProxy`.

  REFINEMENT (policy ALL, every cost vector, every species tree — binary or not —
  provided the leaf species are species of `S`):

  * `C01_thlCode_table`   every row of the code's table agrees with the label-DP
        table `thlCells` of that object node: an entry exists exactly at the
        species where the label DP has a cell, and its value is the cell's cost;
  * `C01_thlCode_tags`    the tags of an entry of an internal node are exactly the
        tag pairs of the label DP's optimal candidates;
  * `C01_thlCode_decode`  the mappings `_decode_thl_table` generates from a cell are
        exactly the decoded solutions `sols` of the label-DP cell (as sets);
  * `C01_thlCode_refines` `thlCode` and `thl` return the same set of solutions, each
        once, and the value of the result entry is their evaluated cost.

  COROLLARIES: the C01 / C04 / C05 / C10 theorems proved for `thl`
  (`Properties/C01Thl.lean`) hold for `thlCode`:
  `C01_thlCode_optimal`, `C01_thlCode_total`, `C01_thlCode_finite`,
  `C01_thlCode_all`, `C01_thlCode_eq_exhaustive`.
-/
import SRVerif.Proofs.ThlCodeDecode
import SRVerif.Properties.C01Thl

namespace SR.C01

open SR Cost ThlCode

variable (c : Costs) (S : RTree) (o : OTree)

/-- **Cell values.**  For every object node `w` (with subtree `t`) the row `w` of
    `_compute_thl_table` has an instantiated entry exactly at the species of the
    label-DP cells of `t`, holding the cell's cost; every other species reads as an
    `EntryProxy` over `None` (value `inf`). -/
theorem C01_thlCode_table (hS : ∀ p ∈ leafSpecies o, S.isNode p = true) :
    ∀ p ∈ postorderNodes o [],
      (∀ d ∈ thlCells c S true p.2, ∃ e, (computeTable .all c S o).get (p.1, d.sp) = some e ∧
        e.value = d.cost.toExt) ∧
      (∀ s, (∀ d ∈ thlCells c S true p.2, d.sp ≠ s) →
        (computeTable .all c S o).get (p.1, s) = none ∧
        (computeTable .all c S o).value (p.1, s) = .posInf) := by
  intro p hp
  have h := computeTable_ok c S o hS p hp
  refine ⟨fun d hd => ?_, fun s hs => ?_⟩
  · obtain ⟨e, he, hv, _⟩ := h.1 d hd
    exact ⟨e, he, hv⟩
  · have := h.2 s hs
    exact ⟨this, by rw [Table.value, this]; rfl⟩

/-- The same, as a function: the value read at (object node, species) is the cost of
    the label-DP cell of that species (`inf` when there is none). -/
theorem C01_thlCode_value (hS : ∀ p ∈ leafSpecies o, S.isNode p = true) :
    ∀ p ∈ postorderNodes o [], ∀ s,
      (computeTable .all c S o).value (p.1, s) = (cellCost (thlCells c S true p.2) s).toExt :=
  fun p hp s => (computeTable_ok c S o hS p hp).value s

/-- **Tags.**  At an internal object node the retained child assignments
    `MappingInfo(left, right)` of the entry of species `s` are exactly the tag pairs
    of the label DP's candidates attaining the cell value. -/
theorem C01_thlCode_tags (hS : ∀ p ∈ leafSpecies o, S.isNode p = true) :
    ∀ w l r, (w, OTree.node l r) ∈ postorderNodes o [] →
      ∀ d ∈ thlCells c S true (.node l r), ∀ x y,
        (⟨x, y⟩ : MappingInfo) ∈ (computeTable .all c S o).infos (w, d.sp) ↔
          (d.cost, ((x, ()), (y, ()))) ∈
            SR.cands thlAlg c S (allSpecies S) d.sp () (allSpecies S) (allSpecies S)
              (thlCells c S true l) (thlCells c S true r) := by
  intro w l r hp d hd x y
  obtain ⟨e, he, _, ht⟩ := (computeTable_ok c S o hS _ hp).1 d hd
  have : (computeTable .all c S o).infos (w, d.sp) = e.infos := by
    simp [Table.infos, Cell.infos, he]
  rw [this]
  exact ht x y

/-- **Decoding.**  For every object node `w` (subtree `t`) and species `s`,
    `_decode_thl_table(w, s)` generates exactly the solutions stored in the label-DP
    cell of species `s` (nothing when there is no such cell — an unreachable
    species yields no output). -/
theorem C01_thlCode_decode (hS : ∀ p ∈ leafSpecies o, S.isNode p = true) :
    ∀ p ∈ postorderNodes o [], ∀ s sol,
      sol ∈ decode (computeTable .all c S o) p.2 p.1 s ↔
        ∃ d ∈ thlCells c S true p.2, d.sp = s ∧ ∃ ls ∈ d.sols, plainSol p.2 ls = sol := by
  intro p hp
  apply decode_ok c S _ p.2 p.1
  -- the rows of the subtree hanging at `p` are rows of the whole table
  have hsub : ∀ (t : OTree) (v : Path) (q : Path × OTree), q ∈ postorderNodes t v →
      ∀ q' ∈ postorderNodes q.2 q.1, q' ∈ postorderNodes t v := by
    intro t
    induction t with
    | leaf sp f =>
      intro v q hq q' hq'
      simp only [postorderNodes, List.mem_singleton] at hq
      subst hq; exact hq'
    | node l r ihl ihr =>
      intro v q hq q' hq'
      simp only [postorderNodes, List.mem_append, List.mem_singleton] at hq
      rcases hq with (hq | hq) | hq
      · simp only [postorderNodes, List.mem_append]
        exact Or.inl (Or.inl (ihl _ q hq q' hq'))
      · simp only [postorderNodes, List.mem_append]
        exact Or.inl (Or.inr (ihr _ q hq q' hq'))
      · subst hq; exact hq'
  intro q hq
  exact computeTable_ok c S o hS q (hsub o [] p hp q hq)

/-- **Refinement.**  On every input whose leaf species are species of `S`, the
    code-structured model and the label-DP model of `reconcile_thl` return the same
    set of solutions, each once; the value of the result entry is the evaluated
    cost of every returned solution. -/
theorem C01_thlCode_refines (hS : ∀ p ∈ leafSpecies o, S.isNode p = true) :
    (∀ sol, sol ∈ thlCode c S o ↔ sol ∈ thl c S o) ∧
    (thlCode c S o).Nodup ∧
    (∀ sol ∈ thlCode c S o,
      (reconcile .all c S o).value = (totalCost c .plain o sol).toExt) := by
  refine ⟨thlCode_eq_thl c S o hS, (result_spec c S o).2.2, ?_⟩
  intro sol hsol
  rw [totalCost_plain]
  exact (result_spec c S o).2.1 sol hsol

/-- The leaf-species guard cannot be dropped: with an object leaf in a species that
    is not in `S`, the code never visits that species (its loops run over the
    species of `S`) while the label DP's role aggregates see the leaf's cell. -/
theorem C01_thlCode_guard_needed :
    let c : Costs := { spe := 0, dup := 1, hgt := .fin 1, floss := 1, sloss := 1 }
    let S : RTree := .node [.node [], .node []]
    let o : OTree := .node (.leaf [0] []) (.leaf [2] [])
    ¬ (∀ p ∈ leafSpecies o, S.isNode p = true) ∧ thlCode c S o = [] ∧ thl c S o ≠ [] := by
  decide +kernel

/-! ### The C01 / C04 / C05 / C10 theorems, for the code-structured model -/

/-- **C01 for `thlCode`**: inside the coherent region every returned solution is a
    valid reconciliation and no valid reconciliation is cheaper. -/
theorem C01_thlCode_optimal (hb : S.isBinary = true) (hS : ∀ p ∈ leafSpecies o, S.isNode p = true)
    (hcoh : c.spe ≤ c.dup + 2 * c.floss) : ∀ sol ∈ thlCode c S o,
    Spec.validRec o sol = true ∧
    ∀ sol', Spec.validRec o sol' = true → sol' ∈ Spec.allMappings S o →
      Cost.le (totalCost c .plain o sol) (totalCost c .plain o sol') = true :=
  fun sol hsol => C01_thl c S o hb hS hcoh sol ((thlCode_eq_thl c S o hS sol).mp hsol)

/-- **Totality**: `thlCode` returns at least one solution on every well-formed input. -/
theorem C01_thlCode_total (hb : S.isBinary = true) (hS : ∀ p ∈ leafSpecies o, S.isNode p = true) :
    thlCode c S o ≠ [] := by
  obtain ⟨m, hm⟩ := List.exists_mem_of_ne_nil _ (C01_thl_total c S o hb hS)
  intro e
  have := (thlCode_eq_thl c S o hS m).mpr hm
  rw [e] at this; cases this

/-- **C04 for `thlCode`** (all unit costs): every returned solution is a valid,
    complete reconciliation of finite cost. -/
theorem C01_thlCode_finite (hS : ∀ p ∈ leafSpecies o, S.isNode p = true) : ∀ sol ∈ thlCode c S o,
    Spec.validSol .plain o sol = true ∧ sol ∈ Spec.allMappings S o ∧
      totalCost c .plain o sol ≠ .inf :=
  fun sol hsol => C01_thl_finite c S o sol ((thlCode_eq_thl c S o hS sol).mp hsol)

/-- **C05 for `thlCode`**: inside the coherent region the result is exactly the set
    of all valid reconciliations of minimum cost, each once. -/
theorem C01_thlCode_all (hb : S.isBinary = true) (hS : ∀ p ∈ leafSpecies o, S.isNode p = true)
    (hcoh : c.spe ≤ c.dup + 2 * c.floss) :
    (∀ sol, sol ∈ thlCode c S o ↔
      (Spec.validRec o sol = true ∧ sol ∈ Spec.allMappings S o) ∧
      ∀ sol', (Spec.validRec o sol' = true ∧ sol' ∈ Spec.allMappings S o) →
        Cost.le (totalCost c .plain o sol) (totalCost c .plain o sol') = true) ∧
    (thlCode c S o).Nodup := by
  refine ⟨fun sol => ?_, (result_spec c S o).2.2⟩
  rw [thlCode_eq_thl c S o hS sol]
  exact (C01_thl_all c S o hb hS hcoh).1 sol

/-- Inside the coherent region `thlCode` and `reconcile_exhaustive` return the same set. -/
theorem C01_thlCode_eq_exhaustive (hb : S.isBinary = true)
    (hS : ∀ p ∈ leafSpecies o, S.isNode p = true) (hcoh : c.spe ≤ c.dup + 2 * c.floss) :
    ∀ sol, sol ∈ thlCode c S o ↔ sol ∈ exhaustive c o := fun sol => by
  rw [thlCode_eq_thl c S o hS sol]; exact C01_thl_eq_exhaustive c S o hb hS hcoh sol

/-- The value of the result entry is the minimum of the evaluated cost over all
    valid reconciliations (the specification `Spec.allValid`). -/
theorem C01_thlCode_value_opt (hb : S.isBinary = true) (hS : ∀ p ∈ leafSpecies o, S.isNode p = true)
    (hcoh : c.spe ≤ c.dup + 2 * c.floss) :
    (reconcile .all c S o).value =
      (Cost.minList ((Spec.allValid S o).map (totalCost c .plain o))).toExt := by
  obtain ⟨m, hm⟩ := List.exists_mem_of_ne_nil _ (C01_thlCode_total c S o hb hS)
  rw [(C01_thlCode_refines c S o hS).2.2 m hm, ← C01_thl_table_opt c S o hb hS hcoh,
    C01_thl_table_min c S o hb hS hcoh m ((thlCode_eq_thl c S o hS m).mp hm)]

/-! ### Non-vacuity -/

/-- A well-formed coherent input with five co-optimal reconciliations: all the
    hypotheses hold and the code-structured model returns all five, of cost 2. -/
example :
    let c : Costs := { spe := 1, dup := 1, hgt := .fin 1, floss := 1, sloss := 1 }
    let S : RTree := .node [.node [.node [], .node []], .node []]
    let o : OTree := .node (.node (.leaf [0, 0] []) (.leaf [1] [])) (.leaf [0, 1] [])
    S.isBinary = true ∧ (∀ p ∈ leafSpecies o, S.isNode p = true) ∧
    c.spe ≤ c.dup + 2 * c.floss ∧
    (thlCode c S o).map (totalCost c .plain o) = [.fin 2, .fin 2, .fin 2, .fin 2, .fin 2] ∧
    (reconcile .all c S o).value = .fin 2 := by
  decide +kernel

/-- A small table: instantiated entries (object node, species), values and tags, as
    `_compute_thl_table` builds them — the leaf rows first, then the root row in
    post-order of the species. -/
example :
    let c : Costs := { spe := 0, dup := 1, hgt := .fin 1, floss := 1, sloss := 1 }
    let S : RTree := .node [.node [], .node []]
    let o : OTree := .node (.leaf [0] []) (.leaf [1] [])
    (computeTable .all c S o).cells.map (fun ke => (ke.1, ke.2.value, ke.2.infos)) =
      [(([0], [0]), .fin 0, []), (([1], [1]), .fin 0, []),
       (([], [0]), .fin 1, [⟨[0], [1]⟩]), (([], [1]), .fin 1, [⟨[0], [1]⟩]),
       (([], []), .fin 0, [⟨[0], [1]⟩])] := by
  decide +kernel

/-- Unreachable root species (transfers forbidden): only the root species hosts the
    root, the other species decode to nothing, and the policy ANY keeps one solution. -/
example :
    let c : Costs := { spe := 0, dup := 1, hgt := .inf, floss := 1, sloss := 1 }
    let S : RTree := .node [.node [], .node []]
    let o : OTree := .node (.leaf [0] []) (.leaf [1] [])
    (computeTable .all c S o).get ([], [0]) = none ∧
    decode (computeTable .all c S o) o [] [0] = [] ∧
    thlCode c S o = [.node [] [] (.leaf [0] []) (.leaf [1] [])] ∧
    thlCodeAny c S o = [.node [] [] (.leaf [0] []) (.leaf [1] [])] := by
  decide +kernel

end SR.C01
