/-
  C08, unordered extended solver (`usreconcile_extended_uspfs`, SuperDTL) on an input with
  polytomies: the optimum over ALL pairs of binary refinements.  Vocabulary and the
  ordered solver: `Properties/C08Opt.lean`.

  * `C08_unord_oracle_adequate`  (closes the gap between C03 and the specification)
        for a binary input, `Spec.optimum … .unordered` IS the minimum of the evaluated cost
        over ALL valid unordered super-reconciliations (`C09.IsMinCost`): lower bound of
        every valid solution — whatever species mapping and family placement, labels sorted
        or not (`Proofs/BinarizeOptAllUn.lean`) — and attained by a valid solution
        (exchange argument of C03Full);
  * `C08_unord_binary_opt`   hence every solution returned by `uspfs` on a binary input is
        an optimal valid solution (`C09.IsOptimal`);
  * **`C08_opt_refinements_uspfs`**  every output of the multi-solver refers to a pair of
        `binarize tO × binarize tS` (binary refinements keeping clades, names, colours)
        with the original leaf data; its solution is a valid optimal solution of that binary
        input, of finite cost; its cost is THE optimum over all pairs of binary refinements
        (specification sense, any child order) of both trees;
  * `C08_opt_refinements_uspfs_nonempty`  and the result is never empty.

  Guards: `InputOk` (well-formed trees with distinct leaves, leaf species are species
  leaves) and `spe + sloss ≤ dup + 2·floss` (implied by the coherent region).  Leaf
  syntenies may be empty or contain repetitions.

  NOTE (build): this file needs `Proofs/SwapObj.lean` and `Proofs/LcaMapOpt.lean` in the same
  environment; both declare `SR.isAnc_foldl_lcp` and `SR.isAnc_lcpAll`.  The two copies in
  `SwapObj.lean` have to be made `private` (they are used only inside that file).
-/
import SRVerif.Properties.C08Opt
import SRVerif.Properties.C03Full
import SRVerif.Properties.C05Un
import SRVerif.Proofs.BinarizeOptAllUn

namespace SR.C08

open SR SR.Bin

/-- **Adequacy of the unordered oracle**: for a species tree containing the leaf species,
    `Spec.optimum c S .unordered false` is the minimum of `totalCost` over all valid
    unordered solutions. -/
theorem C08_unord_oracle_adequate (c : Costs) (S : RTree) (o : OTree) (keep : Bool)
    (hS : ∀ p ∈ leafSpecies o, S.isNode p = true) :
    C09.IsMinCost c .unordered o (Spec.optimum c S .unordered false keep o none).1 := by
  refine ⟨fun sol hv => optimum_un_le_valid c S o keep hS sol hv, ?_⟩
  by_cases hinf : (Spec.optimum c S .unordered false keep o none).1 = .inf
  · exact Or.inl hinf
  · right
    obtain ⟨md, hmd, σ, hf, hcost⟩ := Spec.optimum_attained c S false .unordered keep o none hinf
    simp only [Spec.modeDatas, List.mem_singleton] at hmd
    subst hmd
    obtain ⟨σ', hcan, hle⟩ := C03.C03_exchange c S false o σ hf (by rw [hcost]; exact hinf)
    rw [hcost] at hle
    exact ⟨σ', hcan.1, Cost.le_antisymm hle (optimum_un_le_valid c S o keep hS σ' hcan.1)⟩

/-- Every solution returned by the unordered extended solver on a binary input is an
    optimal valid solution, of finite cost. -/
theorem C08_unord_binary_opt (c : Costs) (S : RTree) (o : OTree)
    (hb : S.isBinary = true) (hS : ∀ p ∈ leafSpecies o, S.isNode p = true)
    (hcoh : c.spe + c.sloss ≤ c.dup + 2 * c.floss) :
    ∀ sol ∈ uspfs c S false o,
      C09.IsOptimal c .unordered o sol ∧ totalCost c .unordered o sol ≠ .inf := by
  intro sol hsol
  obtain ⟨hv, hfin⟩ := C04.C04_unord c S false o sol hsol
  refine ⟨⟨hv, fun sol' hv' => ?_⟩, hfin⟩
  rw [C03.C03_full_eq c S false o hb hS hcoh sol hsol]
  exact optimum_un_le_valid c S o false hS sol' hv'

/-- **C08, unordered extended solver, optimum over ALL binary refinements.** -/
theorem C08_opt_refinements_uspfs (c : Costs) (tO tS : NTree) (data : LeafData)
    (hok : InputOk tO tS data) (hcoh : c.spe + c.sloss ≤ c.dup + 2 * c.floss) :
    ∀ x ∈ uspfsMulti c false tO tS data,
      Refers tO tS data x ∧
      C09.IsOptimal c .unordered (toOTree data x.sTree x.oTree) x.sol ∧
      x.cost c .unordered data ≠ .inf ∧
      IsRefinementOptimum c .unordered tO tS data (x.cost c .unordered data) := by
  intro x hx
  have hA : ∀ bO ∈ binarize tO, ∀ bS ∈ binarize tS,
      ∀ s ∈ rankByCost c .unordered (toOTree data bS bO)
          (uspfsCands c (shape bS.toN) false (toOTree data bS bO)),
        C09.IsOptimal c .unordered (toOTree data bS bO) s ∧
        totalCost c .unordered (toOTree data bS bO) s ≠ .inf := by
    intro bO hbO bS hbS s hs
    have h := C08_refers_of_mem hok (x := { sTree := bS, oTree := bO, sol := s }) hbO hbS
    obtain ⟨_, _, _, _, _, _, hb, hS⟩ := h
    rw [← uspfs_eq_rank] at hs
    exact C08_unord_binary_opt c _ _ hb hS hcoh s hs
  have hB : ∀ bO ∈ binarize tO, ∀ bS ∈ binarize tS,
      ∀ s', Spec.validSol .unordered (toOTree data bS bO) s' = true →
        totalCost c .unordered (toOTree data bS bO) s' ≠ .inf →
        rankByCost c .unordered (toOTree data bS bO)
          (uspfsCands c (shape bS.toN) false (toOTree data bS bO)) ≠ [] := by
    intro bO hbO bS hbS s' _ _
    have h := C08_refers_of_mem hok (x := { sTree := bS, oTree := bO, sol := s' }) hbO hbS
    obtain ⟨_, _, _, _, _, _, hb, hS⟩ := h
    rw [← uspfs_eq_rank]
    exact C03.C03_uspfs_total c _ false _ hb hS
  have hx' : x ∈ rankOuts c .unordered data
      (multiCands tO tS data (fun S o => uspfsCands c S false o)) := hx
  have hgen := multi_opt_all c .unordered tO tS data (fun S o => uspfsCands c S false o)
    hok.wfO hok.wfS hok.ndO hok.ndS (fun bO hbO bS hbS s hs => (hA bO hbO bS hbS s hs).1) hB x hx'
  obtain ⟨h1, h2, h3⟩ := C08_refinementOptimum_of_multi hok hgen
  exact ⟨h1, h2, (hA _ hgen.1.1 _ hgen.1.2 _ (sol_mem_rankByCost_of_mem_rank_multi hx')).2, h3⟩

/-- The result of the unordered extended solver on a well-formed input is never empty. -/
theorem C08_opt_refinements_uspfs_nonempty (c : Costs) (tO tS : NTree) (data : LeafData)
    (hok : InputOk tO tS data) : uspfsMulti c false tO tS data ≠ [] := by
  -- some pair of refinements exists (the tree itself is refined by a member of `binarize`)
  obtain ⟨bO, hbO⟩ := List.exists_mem_of_ne_nil _ (binarize_ne_nil tO hok.wfO)
  obtain ⟨bS, hbS⟩ := List.exists_mem_of_ne_nil _ (binarize_ne_nil tS hok.wfS)
  have h := C08_refers_of_mem hok (x := { sTree := bS, oTree := bO, sol := .leaf [] [] }) hbO hbS
  obtain ⟨_, _, _, _, _, _, hb, hS⟩ := h
  obtain ⟨s, hs⟩ := List.exists_mem_of_ne_nil _ (C03.C03_uspfs_total c _ false _ hb hS)
  rw [uspfs_eq_rank, mem_rankByCost] at hs
  have hcand : ({ sTree := bS, oTree := bO, sol := s } : Out) ∈
      multiCands tO tS data (fun S o => uspfsCands c S false o) :=
    mem_multiCands.mpr ⟨hbO, hbS, hs.1⟩
  exact rankOuts_ne_nil c .unordered data _ (List.ne_nil_of_mem hcand)

/-! ### Non-vacuity (the example input of `C08Opt.lean`) -/

example : exC.spe + exC.sloss ≤ exC.dup + 2 * exC.floss ∧
    (uspfsMulti exC false exO exS exData).length = 14 ∧
    (∀ x ∈ uspfsMulti exC false exO exS exData, x.cost exC .unordered exData = .fin 2) ∧
    (refinementPairs exO exS).map (fun p =>
      ((uspfs exC (shape p.2.toN) false (toOTree exData p.2 p.1)).map
        (totalCost exC .unordered (toOTree exData p.2 p.1))).head?) =
      [some (.fin 3), some (.fin 3), some (.fin 3), some (.fin 2), some (.fin 2), some (.fin 2),
       some (.fin 2), some (.fin 2), some (.fin 2)] := by
  decide +kernel

example : IsRefinementOptimum exC .unordered exO exS exData (.fin 2) := by
  have hall : ∀ x ∈ uspfsMulti exC false exO exS exData, x.cost exC .unordered exData = .fin 2 := by
    decide +kernel
  obtain ⟨x, hx⟩ := List.exists_mem_of_ne_nil _
    (C08_opt_refinements_uspfs_nonempty exC exO exS exData C08_example_ok)
  have h := (C08_opt_refinements_uspfs exC exO exS exData C08_example_ok (by decide) x hx).2.2.2
  rwa [hall x hx] at h

end SR.C08
