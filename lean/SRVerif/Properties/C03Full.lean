/-
  C03 at full strength: inside the coherent region the unordered solvers (`uspfs`:
  SuperDTL = extended, base) return valid solutions whose evaluated cost is the minimum
  over ALL valid solutions — every species mapping over `S` (the LCA mapping for `base`)
  and EVERY family labelling between required and allowed content, i.e.
  `Spec.optimum … .unordered`, not only the two canonical choices the solver searches.

  * `C03_exchange`     restricting to canonical labellings loses nothing: for every
        solution `σ` in the oracle's solution space (`Spec.Feasible … .unordered`) there is
        a canonical solution `σ'` (`CanonSol`) with `totalCost σ' ≤ specCost σ`
        (Proofs/UnContentExchange.lean: keep the species, relabel by kinds — INHERIT on
        the internal children whose edge was free — contents only shrink and free edges
        stay free);
  * `C03_full`         **`C03_statement` under the property's guards** (`S` binary, leaf
        species nodes of `S`): validity and `totalCost sol ≤ Spec.optimum`;
  * `C03_full_eq`      … and equality: the returned cost IS the oracle's optimum;
  * `C03_statement_needs_binary`  `C03_statement` as written in `C03.lean` (no guard on
        `S`) is FALSE: on a ternary species tree the DP's speciation roles only look at the
        children 0 and 1 of a species, and prunes the true optimum.  The property's
        quantifier says "binary trees"; `C03_guarded_statement` is the corrected statement.

  Depends on `Proofs/OptAdequacy.lean` (work package C02Spec: adequacy of the oracle
  `Spec.optTable` — `Spec.Feasible`, `Spec.specCost`, `Spec.optimum_attained`,
  `Spec.optimum_le`).
-/
import SRVerif.Properties.C03
import SRVerif.Properties.C03Canon
import SRVerif.Proofs.UnContentFeasible

namespace SR.C03

open SR Cost Spec

/-- **The exchange argument**: canonical labellings lose nothing. -/
theorem C03_exchange (c : Costs) (S : RTree) (base : Bool) (o : OTree) (σ : Sol)
    (hf : Feasible S .unordered base o [] o σ) (hfin : specCost c .unordered o [] σ ≠ .inf) :
    ∃ σ', CanonSol S base o σ' ∧
      Cost.le (totalCost c .unordered o σ') (specCost c .unordered o [] σ) = true := by
  let t := annUn S base o [] o
  have adm := adm_exKinds c S base o o [] .lca σ hf
  have hv := valid_exKinds c o σ [] .lca hfin
  have hlab : (exKinds .lca σ).lab = .lca := by cases σ <;> rfl
  refine ⟨unSol t t.data.lcaSet (exKinds .lca σ), ⟨?_, ?_, ?_⟩, ?_⟩
  · simp only [Spec.validSol, Bool.and_eq_true]
    refine ⟨validRec_unSol c S base o o [] _ _ adm hv, ?_⟩
    refine validUn_unSol c S base o o [] _ _ (isSub_root o) adm ?_ ?_
    · intro x hx
      exact required_sub_allowed ((mem_lcaSet S base o o [] (isSub_root o) x).mp hx)
    · intro x hx
      exact Or.inl ((mem_lcaSet S base o o [] (isSub_root o) x).mpr hx)
  · rw [canonicalUn_root o [] t.data.lcaSet]
    exact canonical_unSol c S base o o [] _ _ (isSub_root o) adm (fun _ => hlab)
  · exact spAllowed_unSol c S base o o [] _ _ adm
  · rw [← totalCostU_eq]
    refine exchange_le c S base o o [] t.data.lcaSet .lca σ (isSub_root o) hf ?_
    rw [hlab]
    intro x hx
    exact feasible_required S base o o [] σ (isSub_root o) hf x
      ((mem_lcaSet S base o o [] (isSub_root o) x).mp hx)

/-- `C03_statement` with the guards of the property's quantifier (binary trees, leaves
    mapped into the species tree). -/
def C03_guarded_statement : Prop :=
  ∀ (c : Costs) (S : RTree) (o : OTree) (base : Bool),
    S.isBinary = true → (∀ p ∈ leafSpecies o, S.isNode p = true) →
    c.spe + 2 * c.sloss ≤ c.dup + 2 * c.floss →
    ∀ sol ∈ uspfs c S base o,
      Spec.validSol .unordered o sol = true ∧
      Cost.le (totalCost c .unordered o sol) (Spec.optimum c S .unordered base false o none).1 = true

/-- **C03, full strength** (even for `spe + sloss ≤ dup + 2·floss`). -/
theorem C03_full_le (c : Costs) (S : RTree) (base : Bool) (o : OTree)
    (hb : S.isBinary = true) (hS : ∀ p ∈ leafSpecies o, S.isNode p = true)
    (hcoh : c.spe + c.sloss ≤ c.dup + 2 * c.floss) :
    ∀ sol ∈ uspfs c S base o,
      Spec.validSol .unordered o sol = true ∧
      Cost.le (totalCost c .unordered o sol) (Spec.optimum c S .unordered base false o none).1 = true := by
  intro sol hsol
  refine ⟨(C04.C04_unord c S base o sol hsol).1, ?_⟩
  by_cases hinf : (Spec.optimum c S .unordered base false o none).1 = .inf
  · rw [hinf]; exact Cost.le_inf _
  obtain ⟨md, hmd, σ, hf, hcost⟩ := optimum_attained c S base .unordered false o none hinf
  simp only [modeDatas, List.mem_singleton] at hmd
  subst hmd
  obtain ⟨σ', hcan, hle⟩ := C03_exchange c S base o σ hf (by rw [hcost]; exact hinf)
  rw [hcost] at hle
  exact Cost.le_trans ((C03_canonical_opt c S base o hb hS hcoh sol hsol).2 σ' hcan) hle

theorem C03_full : C03_guarded_statement :=
  fun c S o base hb hS hcoh => C03_full_le c S base o hb hS (by omega)

/-! ### The oracle's optimum is attained by the result -/

/-- Every returned solution lies in the oracle's solution space, with the oracle's cost. -/
theorem C03_result_feasible (c : Costs) (S : RTree) (base : Bool) (o : OTree) :
    ∀ sol ∈ uspfs c S base o,
      Feasible S .unordered base o [] o sol ∧
      specCost c .unordered o [] sol = totalCost c .unordered o sol := by
  intro sol hsol
  have hvalid := (C04.C04_unord c S base o sol hsol).1
  simp only [Spec.validSol, Bool.and_eq_true] at hvalid
  obtain ⟨d, hd, ls, hls, rfl⟩ := C04.mem_uspfs_decoded hsol
  obtain ⟨adm, _, _⟩ := decoded_facts c S base o d hd ls hls
  refine ⟨feasible_unSol c S base o o [] _ ls (isSub_root o) adm ?_ ?_, ?_⟩
  · intro x hx
    exact required_sub_allowed ((mem_lcaSet S base o o [] (isSub_root o) x).mp hx)
  · intro x hx
    exact Or.inl ((mem_lcaSet S base o o [] (isSub_root o) x).mpr hx)
  · rw [specCost_eq_totalCostU c o o [] _ hvalid.2 hvalid.1, totalCostU_eq]

/-- **C03, equality**: the evaluated cost of every returned solution IS the minimum over
    all valid solutions (every species mapping, every labelling between required and
    allowed content). -/
theorem C03_full_eq (c : Costs) (S : RTree) (base : Bool) (o : OTree)
    (hb : S.isBinary = true) (hS : ∀ p ∈ leafSpecies o, S.isNode p = true)
    (hcoh : c.spe + c.sloss ≤ c.dup + 2 * c.floss) :
    ∀ sol ∈ uspfs c S base o,
      totalCost c .unordered o sol = (Spec.optimum c S .unordered base false o none).1 := by
  intro sol hsol
  refine Cost.le_antisymm (C03_full_le c S base o hb hS hcoh sol hsol).2 ?_
  obtain ⟨hf, hcost⟩ := C03_result_feasible c S base o sol hsol
  rw [← hcost]
  exact optimum_le c S base .unordered false o none .unordered (by simp [modeDatas]) sol hf

/-! ### The unguarded statement is false -/

/-- On a TERNARY species tree the extended solver misses the optimum (its speciation
    roles only consider the children 0 and 1 of a species): result 4, optimum 2, inside
    the coherent region.  `C03_statement` needs the guard `S.isBinary`. -/
theorem C03_statement_needs_binary : ¬ C03_statement := by
  intro h
  have := h { spe := 0, dup := 1, hgt := .fin 4, floss := 1, sloss := 1 }
    (.node [.node [], .node [], .node []])
    (.node (.node (.leaf [0] [1]) (.leaf [2] [1])) (.leaf [1] [1])) false (by decide)
  revert this
  decide +kernel

/-! Non-vacuity: an input where a NON-canonical labelling is valid (the inner node may
    hold `{1}`, `{1,2}`; `{1,2}` at the innermost node is canonical only as INHERIT), the
    oracle ranges over more labellings than the solver, and both agree on the optimum. -/
example :
    let c : Costs := { spe := 0, dup := 1, hgt := .fin 1, floss := 1, sloss := 1 }
    let S : RTree := .node [.node [], .node []]
    let o : OTree :=
      .node (.node (.leaf [0] [1, 2]) (.node (.leaf [0] [1]) (.leaf [0] [1]))) (.leaf [1] [1, 2])
    S.isBinary = true ∧ (∀ p ∈ leafSpecies o, S.isNode p = true) ∧
    c.spe + 2 * c.sloss ≤ c.dup + 2 * c.floss ∧
    (Spec.optimum c S .unordered false false o none).1 = .fin 2 ∧
    (uspfs c S false o).map (totalCost c .unordered o) = [.fin 2] ∧
    (Spec.labelSpace .unordered o [0, 1]).length = 2 := by
  decide +kernel

end SR.C03
