/-
  C16 — A dynamic-programming entry holds the optimum and the tags of
  optimal candidates.

  Model: `SRVerif/Model/Entry.lean` (`Entry.update`, `Entry.combine`,
  `Cell.update` = `EntryProxy.update`).  Histories are lists of batches; the
  candidates offered so far are `bs.flatten`.  All statements hold for both
  merge policies (`better m` is `<` for MIN and `>` for MAX) and for arbitrary
  tag types.
-/
import SRVerif.Proofs.Entry

namespace SR.C16

open SR.Entry

variable {τ : Type} [DecidableEq τ]

/-- The entry obtained from a default-initialised entry after a history of
    batches (`Entry(m, r)` followed by `update(*batch)` for each batch). -/
def after (m : Merge) (r : Retain) (bs : List (List (Cand τ))) : Entry τ :=
  bs.foldl Entry.update (Entry.init m r)

theorem after_inv (m : Merge) (r : Retain) (bs : List (List (Cand τ))) :
    Inv m r bs.flatten (after m r bs) := by
  unfold after
  rw [foldl_update]
  simpa using inv_update (inv_init m r) bs.flatten

/-- The value is the optimum of the sentinel and of all values offered so
    far: it is attained, and nothing offered (nor the sentinel) is better. -/
theorem C16_value (m : Merge) (r : Retain) (bs : List (List (Cand τ))) :
    let e := after m r bs
    (e.value = sentinel m ∨ ∃ c ∈ bs.flatten, c.value = e.value)
    ∧ (∀ c ∈ bs.flatten, better m e.value c.value = false)
    ∧ better m e.value (sentinel m) = false :=
  let h := after_inv m r bs
  ⟨h.attained, h.optimal, h.optimalS⟩

/-- Under `all` the tags are exactly the tags of the candidates achieving
    the optimum, each once. -/
theorem C16_all (m : Merge) (bs : List (List (Cand τ))) :
    let e := after m .all bs
    (∀ t, t ∈ e.infos ↔ ∃ c ∈ bs.flatten, c.info = some t ∧ c.value = e.value)
    ∧ e.infos.Nodup :=
  let h := after_inv m .all bs
  ⟨h.all rfl, h.nodup⟩

/-- Under `any` there is at most one tag, it is the tag of an optimal
    candidate, and there is one as soon as some optimal candidate is tagged. -/
theorem C16_any (m : Merge) (bs : List (List (Cand τ))) :
    let e := after m .any bs
    e.infos.length ≤ 1
    ∧ (∀ t ∈ e.infos, ∃ c ∈ bs.flatten, c.info = some t ∧ c.value = e.value)
    ∧ ((∃ c ∈ bs.flatten, c.info.isSome ∧ c.value = e.value) ↔ e.infos ≠ []) := by
  intro e
  have h := after_inv m .any bs
  refine ⟨h.any1 rfl, h.anySound rfl, h.anyComplete rfl, ?_⟩
  intro hne
  cases hi : e.infos with
  | nil => exact absurd hi hne
  | cons t ts =>
    obtain ⟨c, hc, h1, h2⟩ := h.anySound rfl t (by rw [show (after m .any bs).infos = e.infos from rfl, hi]; simp)
    exact ⟨c, hc, by simp [h1], h2⟩

/-- Under `none` no tag is ever kept. -/
theorem C16_none (m : Merge) (bs : List (List (Cand τ))) :
    (after m .none bs).infos = [] :=
  (after_inv m .none bs).none rfl

/-- The candidates formed by `combine`: one per pair of retained tags. -/
def pairCands {σ : Type} (a b : Entry τ) (f : ExtInt → τ → ExtInt → τ → Cand σ) : List (Cand σ) :=
  (a.infos.flatMap (fun x => b.infos.map (fun y => (x, y)))).map
    (fun p => f a.value p.1 b.value p.2)

theorem mem_pairCands {σ : Type} (a b : Entry τ) (f : ExtInt → τ → ExtInt → τ → Cand σ)
    (c : Cand σ) :
    c ∈ pairCands a b f ↔ ∃ x ∈ a.infos, ∃ y ∈ b.infos, c = f a.value x b.value y := by
  unfold pairCands
  simp only [List.mem_map, List.mem_flatMap]
  constructor
  · rintro ⟨⟨x, y⟩, ⟨x', hx', y', hy', hxy⟩, rfl⟩
    cases hxy
    exact ⟨x, hx', y, hy', rfl⟩
  · rintro ⟨x, hx, y, hy, rfl⟩
    exact ⟨(x, y), ⟨x, hx, y, hy, rfl⟩, rfl⟩

/-- Combining two entries yields the optimum over all pairs of their retained
    tags, and (under `all`) exactly the tags of the optimal pairs. -/
theorem C16_combine {σ : Type} [DecidableEq σ] (a b : Entry τ)
    (f : ExtInt → τ → ExtInt → τ → Cand σ) :
    let e := Entry.combine a b f
    (e.value = sentinel a.merge ∨
        ∃ x ∈ a.infos, ∃ y ∈ b.infos, (f a.value x b.value y).value = e.value)
    ∧ (∀ x ∈ a.infos, ∀ y ∈ b.infos,
        better a.merge e.value (f a.value x b.value y).value = false)
    ∧ (a.retain = .all → ∀ t, t ∈ e.infos ↔
        ∃ x ∈ a.infos, ∃ y ∈ b.infos,
          (f a.value x b.value y).info = some t ∧ (f a.value x b.value y).value = e.value)
    ∧ (a.retain = .any → e.infos.length ≤ 1 ∧ ∀ t ∈ e.infos,
        ∃ x ∈ a.infos, ∃ y ∈ b.infos,
          (f a.value x b.value y).info = some t ∧ (f a.value x b.value y).value = e.value) := by
  intro e
  have h : Inv a.merge a.retain (pairCands a b f) e := by
    have := inv_update (inv_init (τ := σ) a.merge a.retain) (pairCands a b f)
    simpa [e, Entry.combine, pairCands] using this
  refine ⟨?_, ?_, ?_, ?_⟩
  · rcases h.attained with h' | ⟨c, hc, h'⟩
    · exact Or.inl h'
    · obtain ⟨x, hx, y, hy, rfl⟩ := (mem_pairCands a b f c).mp hc
      exact Or.inr ⟨x, hx, y, hy, h'⟩
  · intro x hx y hy
    exact h.optimal _ ((mem_pairCands a b f _).mpr ⟨x, hx, y, hy, rfl⟩)
  · intro hra t
    rw [h.all hra t]
    constructor
    · rintro ⟨c, hc, h1, h2⟩
      obtain ⟨x, hx, y, hy, rfl⟩ := (mem_pairCands a b f c).mp hc
      exact ⟨x, hx, y, hy, h1, h2⟩
    · rintro ⟨x, hx, y, hy, h1, h2⟩
      exact ⟨_, (mem_pairCands a b f _).mpr ⟨x, hx, y, hy, rfl⟩, h1, h2⟩
  · intro hra
    refine ⟨h.any1 hra, ?_⟩
    intro t ht
    obtain ⟨c, hc, h1, h2⟩ := h.anySound hra t ht
    obtain ⟨x, hx, y, hy, rfl⟩ := (mem_pairCands a b f c).mp hc
    exact ⟨x, hx, y, hy, h1, h2⟩

/-- The clauses of the property that `C16_combine` leaves out for the combined entry: under `any`
    a tag IS kept as soon as (and only if) an optimal pair is tagged — with `C16_combine`'s
    `length ≤ 1` this is the "exactly one (if any optimal candidate is tagged)" of the property —,
    under `none` no tag is kept, tags are never duplicated, and the result carries the policies of
    the first operand. -/
theorem C16_combine_any_none {σ : Type} [DecidableEq σ] (a b : Entry τ)
    (f : ExtInt → τ → ExtInt → τ → Cand σ) :
    let e := Entry.combine a b f
    (a.retain = .any →
      ((∃ x ∈ a.infos, ∃ y ∈ b.infos,
          (f a.value x b.value y).info.isSome ∧ (f a.value x b.value y).value = e.value) ↔ e.infos ≠ []))
    ∧ (a.retain = .none → e.infos = [])
    ∧ e.infos.Nodup ∧ e.merge = a.merge ∧ e.retain = a.retain := by
  intro e
  have h : Inv a.merge a.retain (pairCands a b f) e := by
    have := inv_update (inv_init (τ := σ) a.merge a.retain) (pairCands a b f)
    simpa [e, Entry.combine, pairCands] using this
  refine ⟨?_, h.none, h.nodup, h.merge, h.retain⟩
  intro hra
  constructor
  · rintro ⟨x, hx, y, hy, h1, h2⟩
    exact h.anyComplete hra ⟨_, (mem_pairCands a b f _).mpr ⟨x, hx, y, hy, rfl⟩, h1, h2⟩
  · intro hne
    obtain ⟨t, ht⟩ := List.exists_mem_of_ne_nil _ hne
    obtain ⟨c, hc, h1, h2⟩ := h.anySound hra t ht
    obtain ⟨x, hx, y, hy, rfl⟩ := (mem_pairCands a b f c).mp hc
    exact ⟨x, hx, y, hy, by simp [h1], h2⟩

/-- Does a batch instantiate the cell behind a proxy? -/
def writes (batch : List (Cand τ)) : Bool := batch.any (fun x => !x.value.isInfinite)

theorem cell_fold (m : Merge) (r : Retain) (c : Cell τ) (bs : List (List (Cand τ))) :
    bs.foldl (Cell.update m r) c =
      if bs.filter writes = [] then c
      else some (Entry.update (c.getD (Entry.init m r)) (bs.filter writes).flatten) := by
  induction bs generalizing c with
  | nil => simp
  | cons b bs ih =>
    simp only [List.foldl_cons, ih]
    by_cases hb : writes b = true
    · have : Cell.update m r c b = some (Entry.update (c.getD (Entry.init m r)) b) := by
        simp only [Cell.update]; rw [if_pos (by simpa [writes] using hb)]
      rw [this]
      simp only [List.filter_cons, hb, if_true, Option.getD_some]
      by_cases hrest : bs.filter writes = []
      · simp [hrest]
      · simp [hrest, update_append]
    · have : Cell.update m r c b = c := by
        simp only [Cell.update]; rw [if_neg (by simpa [writes] using hb)]
      rw [this]
      simp [List.filter_cons, hb]

/-- A cell never written (no batch with a finite candidate) reads as
    infinitely bad with no tags; otherwise it reads as a default-initialised
    entry that was offered exactly the batches that were written. -/
theorem C16_cell (m : Merge) (r : Retain) (bs : List (List (Cand τ))) :
    let c := bs.foldl (Cell.update m r) (none : Cell τ)
    (bs.filter writes = [] → Cell.value m c = sentinel m ∧ Cell.infos c = [])
    ∧ (bs.filter writes ≠ [] →
        Cell.value m c = (after m r (bs.filter writes)).value
        ∧ Cell.infos c = (after m r (bs.filter writes)).infos) := by
  intro c
  have hc : c = _ := cell_fold m r none bs
  constructor
  · intro h
    rw [hc, if_pos h]
    simp [Cell.value, Cell.infos, sentinel]
  · intro h
    rw [hc, if_neg h]
    simp [Cell.value, Cell.infos, after, foldl_update]

/-! Non-vacuity: concrete histories meeting the statements non-trivially. -/

example : (after .min .all [[⟨.fin 2, some 1⟩, ⟨.fin 1, none⟩], [⟨.fin 1, some 2⟩, ⟨.fin 1, some 3⟩]]
    : Entry Nat).infos = [2, 3] := by decide

example : (after .min .all [[⟨.fin 2, some 1⟩, ⟨.fin 1, none⟩]] : Entry Nat).infos = [] := by decide

example : (after .max .any [[⟨.fin 2, some 1⟩], [⟨.fin 2, some 5⟩]] : Entry Nat).infos = [1] := by decide

example : Cell.value .min ([[⟨.posInf, some 1⟩]].foldl (Cell.update .min .all) (none : Cell Nat))
    = .posInf := by decide

-- non-vacuity: an `any` entry CONSTRUCTED with two tags combined with a one-tag entry: two pairs, both
-- optimal and tagged, exactly one tag kept; the same operands under `none` (tags present, so
-- `C16_combine_untagged` does not apply) keep nothing; an untagging combinator keeps nothing under `any`.
example : (Entry.combine ({ value := .fin 1, infos := [1, 2], merge := .min, retain := .any } : Entry Nat)
      (after .min .any [[⟨.fin 2, some 3⟩]])
      (fun va x vb y => ⟨va + vb, some (x * 1000 + y)⟩)).infos = [1003] := by decide
example :
    let e := Entry.combine ({ value := .fin 1, infos := [1, 2], merge := .min, retain := .none } : Entry Nat)
      ({ value := .fin 2, infos := [3], merge := .min, retain := .none } : Entry Nat)
      (fun va x vb y => (⟨va + vb, some (x * 1000 + y)⟩ : Cand Nat))
    e.value = .fin 3 ∧ e.infos = [] := by decide
example : (Entry.combine (after .max .any [[⟨.fin 1, some 1⟩]] : Entry Nat) (after .max .any [[⟨.fin 2, some 3⟩]])
      (fun va _ vb _ => (⟨va + vb, none⟩ : Cand Nat))).infos = [] := by decide

end SR.C16
