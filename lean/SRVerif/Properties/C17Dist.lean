/-
  C17 — the distance query read on parent chains (addition proposed by review D).

  `Path.dist p q = |p| + |q| − 2·|lcp p q|` is the formula the code itself evaluates
  (`level(a) + level(b) − 2·level(lca(a, b))`), so `C17_queries … distance t p q = dist p q`
  alone compares the code with a restatement of itself.  Here the number is tied to parent
  chains: walking up `a` steps from `p` and `b` steps from `q` reaches the SAME node exactly
  when that node is a common ancestor, the deepest such meeting point is `lcp p q`, and
  `dist p q` is the least possible `a + b` — the number of edges of the path between `p` and `q`.
-/
import SRVerif.Properties.C17

namespace SR.C17

open SR.Path SR.Lca

theorem upN_eq_take (n : Nat) (q : Path) : upN n q = q.take (q.length - n) := by
  induction n generalizing q with
  | zero => simp [upN]
  | succ n ih =>
    rw [upN, ih]
    cases q with
    | nil => simp [Path.up]
    | cons a q =>
      simp only [Path.up, Option.getD_some, List.dropLast_eq_take, List.take_take,
        List.length_take, List.length_cons]
      congr 1
      omega

/-- The two parent chains meet at `lcp p q` after `|p| − |lcp|` and `|q| − |lcp|` steps, and
    `dist p q` is the sum of these two numbers of steps. -/
theorem C17_dist_meet (p q : Path) :
    upN (p.length - (lcp p q).length) p = lcp p q ∧
    upN (q.length - (lcp p q).length) q = lcp p q ∧
    dist p q = (p.length - (lcp p q).length) + (q.length - (lcp p q).length) := by
  have h1 := lcp_prefix_left p q
  have h2 := lcp_prefix_right p q
  have l1 := h1.length_le
  have l2 := h2.length_le
  refine ⟨?_, ?_, ?_⟩
  · rw [upN_eq_take]
    have e : p.length - (p.length - (lcp p q).length) = (lcp p q).length := by omega
    rw [e]
    exact (List.prefix_iff_eq_take.1 h1).symm
  · rw [upN_eq_take]
    have e : q.length - (q.length - (lcp p q).length) = (lcp p q).length := by omega
    rw [e]
    exact (List.prefix_iff_eq_take.1 h2).symm
  · unfold dist
    omega

/-- Minimality: whenever `a` steps up from `p` and `b` steps up from `q` reach the same node
    (without walking past the root), `dist p q ≤ a + b`. -/
theorem C17_dist_min (p q : Path) (a b : Nat) (ha : a ≤ p.length) (hb : b ≤ q.length)
    (h : upN a p = upN b q) : dist p q ≤ a + b := by
  rw [upN_eq_take, upN_eq_take] at h
  -- the meeting node is a common prefix, hence a prefix of `lcp p q`
  have hp : p.take (p.length - a) <+: p := List.take_prefix _ _
  have hq : p.take (p.length - a) <+: q := by rw [h]; exact List.take_prefix _ _
  have hanc : p.take (p.length - a) <+: lcp p q := by
    have key : ∀ (s p q : Path), s <+: p → s <+: q → s <+: lcp p q := by
      intro s
      induction s with
      | nil => intro p q _ _; exact List.nil_prefix
      | cons x s ih =>
        intro p q h1 h2
        obtain ⟨p', rfl⟩ := h1
        obtain ⟨q', rfl⟩ := h2
        simp only [List.cons_append, lcp, beq_self_eq_true, if_true]
        exact List.cons_prefix_cons.2 ⟨rfl, ih _ _ (List.prefix_append _ _) (List.prefix_append _ _)⟩
    exact key _ p q hp hq
  have hl := hanc.length_le
  have e1 : (p.take (p.length - a)).length = p.length - a := by simp
  have e2 : (p.take (p.length - a)).length = q.length - b := by rw [h]; simp
  unfold dist
  omega

example : dist [0, 1, 0] [1, 2, 0] = 6 ∧ upN 3 [0, 1, 0] = [] ∧ upN 3 [1, 2, 0] = [] := by decide
example : dist [0, 1, 0] [0, 0] = 3 ∧ upN 2 [0, 1, 0] = [0] ∧ upN 1 [0, 0] = [0] := by decide

end SR.C17
