/-
  C10 — the last conjunct: **the unordered optimum never exceeds the ordered one**, and hence
  the whole guarded statement `C10_guarded_statement` of `C10All.lean`.

  Route (DESIGN 7, C10).  Both solvers are exact with respect to their specification oracle:
  `C02_spfs_subset_optimum` (ordered: the returned cost is `Spec.optimum … .ordered`, the
  minimum over all valid sequence-labelled solutions) and `C03_full_eq` (unordered: the
  returned cost is `Spec.optimum … .unordered`, the minimum over EVERY feasible set
  labelling, canonical or not).  Between the two oracles:

  * `C10_oracle_unordered_le_ordered`  for every input, every cost vector, either variant:
      `Spec.optimum … .unordered ≤ Spec.optimum … .ordered`.  An optimal sequence-labelled
      solution `σ` (root order duplicate-free) induces the set labelling `setSol σ`
      (`Proofs/UnLeOrdSol.lean`: same species; at each node the set of families of the
      sequence, pruned to the families whose gain node is an ancestor-or-self of the node).
      It is feasible for the unordered oracle and node by node no dearer
      (`setSol_main`, `localLoss_le`, `dist_true_pos` via the C18 bridge).  No coherence, no
      binary species tree and no non-emptiness hypothesis is needed at this level.
  * `C10_unordered_le_ordered_gen`   the solver-level inequality for either variant
      (extended vs extended, base vs base) under the guards of C02/C03;
  * `C10_unordered_le_ordered`       = `C10_unordered_le_ordered_statement` (`C10All.lean`);
  * `C10_unordered_le_ordered_base`  the same for the base solvers;
  * `C10_guarded`                    = `C10_guarded_statement`: all four inequalities of the
      property on every guarded input.
-/
import SRVerif.Properties.C10All
import SRVerif.Properties.C02Spec
import SRVerif.Properties.C03Full
import SRVerif.Proofs.UnLeOrdSol

namespace SR.C10

open SR Cost Spec

/-- **Oracle level**: the minimum over all feasible unordered solutions is at most the
    minimum over all feasible ordered solutions (all root orders), for every input, all unit
    costs, either variant. -/
theorem C10_oracle_unordered_le_ordered (c : Costs) (S : RTree) (base keep keep' : Bool)
    (o : OTree) :
    (Spec.optimum c S .unordered base keep o none).1 ≼
      (Spec.optimum c S .ordered base keep' o none).1 := by
  by_cases hinf : (Spec.optimum c S .ordered base keep' o none).1 = .inf
  · rw [hinf]; exact le_inf _
  obtain ⟨md, hmd, σ, hf, hc⟩ := optimum_attained c S base .ordered keep' o none hinf
  simp only [modeDatas, List.mem_map] at hmd
  obtain ⟨order, ho, rfl⟩ := hmd
  have hfin : specCost c (.ordered order) o [] σ ≠ .inf := by rw [hc]; exact hinf
  obtain ⟨_, _, hfam⟩ := C02.valid_of_feasible_root c S o base order ho σ hf hfin
  have hnd : order.Nodup := by
    simp only [rootOrders, List.mem_filter] at ho
    exact (mem_permutations _ _ ho.1).2 (nodup_dedup _)
  obtain ⟨hf', hle, _⟩ := setSol_main c S base o order hnd o [] σ (isSub_root o)
    (by rw [hfam]) hf hfin
  rw [← hc]
  exact le_trans
    (optimum_le c S base .unordered keep o none .unordered (by simp [modeDatas]) _ hf') hle

/-- **Solver level, either variant**: under the guards of the property every solution returned
    by the unordered solver costs at most every solution returned by the ordered solver of the
    same variant. -/
theorem C10_unordered_le_ordered_gen (c : Costs) (S : RTree) (o : OTree) (base : Bool)
    (hb : S.isBinary = true) (hS : ∀ p ∈ leafSpecies o, S.isNode p = true)
    (hne : ∀ f ∈ leafSyntenies o, f ≠ [])
    (hcoh : c.spe + 2 * c.sloss ≤ c.dup + 2 * c.floss) :
    ∀ a ∈ uspfs c S base o, ∀ b ∈ spfs c S base o none,
      Cost.le (totalCost c .unordered o a) (totalCost c .ordered o b) = true := by
  intro a ha b hb'
  rw [C03.C03_full_eq c S base o hb hS (by omega) a ha,
    (C02.C02_spfs_subset_optimum c S o base hne hb hS hcoh b hb').2]
  exact C10_oracle_unordered_le_ordered c S base false true o

/-- **C10, unordered ≤ ordered** (extended solvers): the conjunct left open in `C10All.lean`. -/
theorem C10_unordered_le_ordered : C10_unordered_le_ordered_statement :=
  fun c S o hb hS hne hcoh => C10_unordered_le_ordered_gen c S o false hb hS hne hcoh

/-- The same for the base solvers (LCA species mapping on both sides). -/
theorem C10_unordered_le_ordered_base (c : Costs) (S : RTree) (o : OTree)
    (hb : S.isBinary = true) (hS : ∀ p ∈ leafSpecies o, S.isNode p = true)
    (hne : ∀ f ∈ leafSyntenies o, f ≠ [])
    (hcoh : c.spe + 2 * c.sloss ≤ c.dup + 2 * c.floss) :
    ∀ a ∈ uspfs c S true o, ∀ b ∈ spfs c S true o none,
      Cost.le (totalCost c .unordered o a) (totalCost c .ordered o b) = true :=
  C10_unordered_le_ordered_gen c S o true hb hS hne hcoh

/-- **C10, all four inequalities** on every guarded input. -/
theorem C10_guarded : C10_guarded_statement :=
  C10_guarded_of_unordered_le_ordered C10_unordered_le_ordered

/-! ### Non-vacuity

  On a guarded input both solvers return solutions, the inequality is strict for the
  extended variant (1 < 2) and an equality for the base variant (21 = 21); the set labelling
  induced by the two ordered optima prunes the root `[1, 2]` to `[1]` (family 2 is gained
  below the root) and costs 2 resp. 1 under the unordered oracle. -/
example :
    let c : Costs := { spe := 0, dup := 5, hgt := .fin 1, floss := 5, sloss := 1 }
    let S : RTree := .node [.node [.node [], .node []], .node []]
    let o : OTree := .node (.node (.leaf [0, 0] [1, 2]) (.leaf [1] [2])) (.leaf [0, 1] [1])
    S.isBinary = true ∧ (∀ p ∈ leafSpecies o, S.isNode p = true) ∧
    (∀ f ∈ leafSyntenies o, f ≠ []) ∧ c.spe + 2 * c.sloss ≤ c.dup + 2 * c.floss ∧
    (uspfs c S false o).map (totalCost c .unordered o) = [.fin 1] ∧
    (spfs c S false o none).map (totalCost c .ordered o) = [.fin 2, .fin 2] ∧
    (spfs c S false o none).map (fun b => (setSol o [] b).fam) = [[1], [1]] ∧
    (spfs c S false o none).map (fun b => specCost c .unordered o [] (setSol o [] b))
      = [.fin 2, .fin 1] ∧
    (uspfs c S true o).map (totalCost c .unordered o) = [.fin 21] ∧
    (spfs c S true o none).map (totalCost c .ordered o) = [.fin 21] ∧
    (Spec.optimum c S .unordered false false o none).1 = .fin 1 ∧
    (Spec.optimum c S .ordered false false o none).1 = .fin 2 := by
  decide +kernel

/-- Three families, family 3 gained inside the left subtree: the induced set labelling
    drops it from the root (`[1, 3, 2]` becomes `[1, 2]`); ordered optimum 7, induced set
    labelling 6, unordered optimum 6. -/
example :
    let c : Costs := { spe := 0, dup := 5, hgt := .fin 1, floss := 5, sloss := 1 }
    let S : RTree := .node [.node [.node [], .node []], .node []]
    let o : OTree := .node (.node (.leaf [0, 0] [1, 3, 2]) (.leaf [0, 1] [1, 3]))
      (.node (.leaf [1] [1, 2]) (.leaf [1] [2]))
    S.isBinary = true ∧ (∀ p ∈ leafSpecies o, S.isNode p = true) ∧
    (∀ f ∈ leafSyntenies o, f ≠ []) ∧ c.spe + 2 * c.sloss ≤ c.dup + 2 * c.floss ∧
    (spfs c S false o none).map (fun b => (b.fam, totalCost c .ordered o b, (setSol o [] b).fam,
        specCost c .unordered o [] (setSol o [] b)))
      = [([1, 3, 2], .fin 7, [1, 2], .fin 6), ([1, 3, 2], .fin 7, [1, 2], .fin 6)] ∧
    (uspfs c S false o).map (totalCost c .unordered o) = [.fin 6] := by
  decide +kernel

end SR.C10
