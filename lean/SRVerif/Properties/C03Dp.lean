/-
  UPDATE (build round 2): `C03_kinds_faithful_statement` is PROVED in Properties/C03Kinds.lean; optimality among canonical labellings in C03Canon.lean; the exchange argument and `= Spec.optimum` in C03Full.lean; oracle adequacy in C03Spec.lean.
  (The text below is kept as written in round 1; where it says "missing" / "not proved", see the files above.)

  C03 for the unordered solvers (`uspfs`: base and extended), as far as the label
  DP theory reaches: the table is exact with respect to the GENERIC evaluator
  `labCost (unAlg c)` (per-kind edge charges of `_compute_uspfs_entry`), inside
  `spe + sloss ≤ dup + 2·floss` (implied by the coherent region
  `spe + 2·sloss ≤ dup + 2·floss`).

  * `C03_table_exact`  for every table cell: it decodes to something; its decoded
      solutions are exactly the admissible kind labellings with that root state whose
      generic cost equals the cell value; no admissible labelling with that root
      state is cheaper.
  * `C03_rec_valid`    every returned solution is a valid reconciliation (C04).
  Missing for `C03_partial` of DESIGN §7 (optimum among canonical labellings under
  the REAL evaluator): `C03_kinds_faithful_statement` — for decoded kind labellings
  the per-kind edge charges coincide with the evaluator's subset tests on the
  materialised contents (needs: an INHERIT node always carries a family that no
  descendant's `lcaSet` contains).  `C03_statement` (all labellings between required
  and allowed content) additionally needs the exchange argument of the SuperDTL paper.
-/
import SRVerif.Proofs.LabelDPOrdRoot

namespace SR.C03

open SR Cost

theorem spOk_annUn (c : Costs) (S : RTree) (base : Bool) (whole o : OTree)
    (hS : ∀ p ∈ leafSpecies o, S.isNode p = true) :
    ∀ p, SpOk (unAlg c) S (annUn S base whole p o) := by
  induction o with
  | leaf sp f => intro _; exact hS sp (by simp [leafSpecies])
  | node l r ihl ihr =>
    intro p
    refine ⟨?_, ihl (fun q hq => hS q (by simp [leafSpecies, hq])) _,
      ihr (fun q hq => hS q (by simp [leafSpecies, hq])) _⟩
    intro s hs
    simp only [unAlg] at hs
    cases base with
    | true =>
      simp only [if_true, List.mem_singleton] at hs
      subst hs
      exact lcaSol_sp_isNode S (.node l r) hS
    | false =>
      simp only [Bool.false_eq_true, if_false, List.mem_reverse] at hs
      exact (RTree.mem_preorder_iff s S).mp hs

/-- The unordered table is exact for the generic evaluator. -/
theorem C03_table_exact (c : Costs) (S : RTree) (base : Bool) (o : OTree)
    (hb : S.isBinary = true) (hS : ∀ p ∈ leafSpecies o, S.isNode p = true)
    (hcoh : c.spe + c.sloss ≤ c.dup + 2 * c.floss) :
    let t := annUn S base o [] o
    ∀ d ∈ dpTable (unAlg c) c S true t,
      (∃ ls, ls ∈ d.sols) ∧
      (∀ ls, ls ∈ d.sols ↔
        Adm (unAlg c) t ls ∧ ls.sp = d.sp ∧ ls.lab = d.lab ∧ labCost (unAlg c) c t ls = d.cost) ∧
      (∀ ls, Adm (unAlg c) t ls → ls.sp = d.sp → ls.lab = d.lab →
        Cost.le d.cost (labCost (unAlg c) c t ls) = true) :=
  table_exact (unAlg c) c S (un_slack c) hcoh hb _ (spOk_annUn c S base o o hS [])

/-- Every returned solution is a valid reconciliation of the input (all costs). -/
theorem C03_rec_valid (c : Costs) (S : RTree) (base : Bool) (o : OTree) :
    ∀ sol ∈ uspfs c S base o, Spec.validRec o sol = true :=
  validRec_of_mem_uspfs c S base o

/-- The missing bridge to the real evaluator (not proved). -/
def C03_kinds_faithful_statement : Prop :=
  ∀ (c : Costs) (S : RTree) (base : Bool) (o : OTree),
    S.isBinary = true → (∀ p ∈ leafSpecies o, S.isNode p = true) →
    (∀ f ∈ leafSyntenies o, f ≠ []) →
    let t := annUn S base o [] o
    ∀ d ∈ uspfsCells c S base true o, ∀ ls ∈ d.sols,
      totalCost c .unordered o (unSol t t.data.lcaSet ls) = labCost (unAlg c) c t ls

/-! Non-vacuity -/
example :
    let c : Costs := { spe := 1, dup := 1, hgt := .fin 1, floss := 1, sloss := 1 }
    let S : RTree := .node [.node [], .node []]
    let o : OTree := .node (.leaf [0] [1, 2]) (.leaf [1] [2])
    S.isBinary = true ∧ (∀ p ∈ leafSpecies o, S.isNode p = true) ∧
    c.spe + c.sloss ≤ c.dup + 2 * c.floss ∧
    (dpTable (unAlg c) c S true (annUn S false o [] o)).length = 6 := by
  decide +kernel

end SR.C03
