/-
  C02 — Ordered super-reconciliation returns a minimum-cost labelled
  reconciliation.

  Models: `spfs c S base o prescribed` (`sreconcile_extended_spfs` for
  `base = false`, `sreconcile_base_spfs` for `base = true`), evaluator
  `totalCost … .ordered`.  Specification: `Spec.validSol .ordered`,
  `Spec.optimum … .ordered`.
-/
import SRVerif.Proofs.Cost
import SRVerif.Spec.Opt

namespace SR.C02

open SR

/-- Leaf syntenies of an input (guards below). -/
def leafSyns : OTree → List (List Nat)
  | .leaf _ f => [f]
  | .node l r => leafSyns l ++ leafSyns r

def leafSps : OTree → List Path
  | .leaf sp _ => [sp]
  | .node l r => leafSps l ++ leafSps r

/-- Full statement (both solvers: `base = false` extended, `base = true` LCA
    mapping), for well-formed inputs (binary species tree containing the leaf
    species, non-empty leaf syntenies) inside the coherent region: every
    returned solution is a valid ordered super-reconciliation and its cost is at
    most the optimum over all species mappings, root orders and labellings as
    computed by the specification oracle.  PROVED as `C02_spfs_none` /
    `C02_spfs` in `Properties/C02Dp.lean`; the adequacy of the oracle itself
    (`Spec.optimum` ≤ every valid sequence-labelled solution) is
    `Properties/C02Spec.lean`. -/
def C02_statement : Prop :=
  ∀ (c : Costs) (S : RTree) (o : OTree) (base : Bool),
    S.isBinary = true → (∀ p ∈ leafSps o, S.isNode p = true) →
    (∀ f ∈ leafSyns o, f ≠ []) →
    c.spe + 2 * c.sloss ≤ c.dup + 2 * c.floss →
    ∀ sol ∈ spfs c S base o none,
      Spec.validSol .ordered o sol = true ∧
      Cost.le (totalCost c .ordered o sol) (Spec.optimum c S .ordered base false o none).1 = true

/-- Proved part: the result is exactly the set of decoded table solutions (over
    all root orders) of minimum evaluated cost, each once. -/
theorem C02_rank_partial (c : Costs) (S : RTree) (base : Bool) (o : OTree) (pre : Option (List Nat)) :
    let decoded := (rootOrders o pre).flatMap fun order =>
      (spfsCellsFor c S base true o order).flatMap (fun d => d.sols.map (ordSol order))
    (∀ sol, sol ∈ spfs c S base o pre ↔
      sol ∈ decoded ∧
      ∀ sol' ∈ decoded, Cost.le (totalCost c .ordered o sol) (totalCost c .ordered o sol') = true)
    ∧ (spfs c S base o pre).Nodup :=
  ⟨fun sol => mem_rankByCost c .ordered o _ sol, nodup_rankByCost _ _ _ _⟩

/-- When no gene order is compatible with all leaves, the result is empty. -/
theorem C02_empty (c : Costs) (S : RTree) (base : Bool) (o : OTree)
    (h : rootOrders o none = []) : spfs c S base o none = [] := by
  simp [spfs, h, rankByCost, dedup]

/-! Non-vacuity: inconsistent leaf orders `ab` / `ba` admit no root order. -/
example :
    rootOrders (.node (.leaf [0] [0, 1]) (.leaf [1] [1, 0])) none = [] := by decide

end SR.C02
