/-
  C17 — Ancestry queries on trees are exact.

  Model: `SRVerif/Model/Lca.lean` (`RangeMinQuery` sparse table with `None`
  padding and Python's `min`, `_euler_tour`, first-occurrence index,
  `LowestCommonAncestor.__call__` and the five derived queries, every Python
  exception as an `Except PyErr` value).  Nodes are paths from the root; the
  specification side is `SRVerif/Model/Paths.lean` (`isAnc` = prefix, `lcp` =
  longest common prefix, `level` = length, `dist`).

  All theorems hold for every tree (any arity, any size), every node of it
  and every array; none of them bounds the input.
-/
import SRVerif.Proofs.Lca
import Mathlib.Data.Int.Order.Basic
import Mathlib.Data.Prod.Lex

namespace SR.C17

open SR.Lca SR.Path

/-! ### Range-minimum queries -/

/-- The comparison of a linearly ordered element type (never raises). -/
def ordLt (α : Type) [LinearOrder α] : Lt α := totalLt (fun a b => decide (a < b))

/-- The half-open range `data[start:stop]`. -/
def slice {α : Type} (data : List α) (start stop : Nat) : List α :=
  (data.drop start).take (stop - start)

/-- A query on a non-empty range inside the array returns an element of
    exactly that range which is below every element of it — its minimum;
    neither construction nor query raises. -/
theorem C17_rmq {α : Type} [LinearOrder α] (data : List α) (start stop : Nat)
    (h1 : start < stop) (h2 : stop ≤ data.length) :
    ∃ m, rmq (ordLt α) data start stop = .ok (some m) ∧
      m ∈ slice data start stop ∧ ∀ x ∈ slice data start stop, m ≤ x := by
  have hne : data ≠ [] := by
    intro h
    subst h
    simp at h2
    omega
  obtain ⟨tbl, hb, ht⟩ := build_ok (cmpOK_total data) hne
  obtain ⟨m, hq, hm⟩ := query_ok (cmpOK_total data) ht h1 h2
  have := isMinAt_iff_slice.1 hm
  exact ⟨m, by simp [rmq, ordLt, hb, hq], this.1, this.2⟩

/-- The same in terms of `List.min?`. -/
theorem C17_rmq_min {α : Type} [LinearOrder α] (data : List α) (start stop : Nat)
    (h1 : start < stop) (h2 : stop ≤ data.length) :
    rmq (ordLt α) data start stop = .ok ((slice data start stop).min?) := by
  obtain ⟨m, hq, hmem, hle⟩ := C17_rmq data start stop h1 h2
  rw [hq]
  cases hs : slice data start stop with
  | nil => simp [hs] at hmem
  | cons a l =>
    rw [hs] at hmem hle
    obtain ⟨g1, g2⟩ := foldl_min_spec l a
    rw [List.min?_cons']
    congr 2
    exact le_antisymm (hle _ g1) (g2 m hmem)

/-- More generally, for a comparison that orders the elements by a key into
    a linear order (ties allowed): the answer is a key-minimal element of the
    range. -/
theorem C17_rmq_key {α κ : Type} [LinearOrder κ] (key : α → κ) (lt : α → α → Bool)
    (hlt : ∀ a b, lt a b = decide (key a < key b)) (data : List α) (start stop : Nat)
    (h1 : start < stop) (h2 : stop ≤ data.length) :
    ∃ m, rmq (totalLt lt) data start stop = .ok (some m) ∧
      m ∈ slice data start stop ∧ ∀ x ∈ slice data start stop, key m ≤ key x := by
  have hc : CmpOK key data (totalLt lt) :=
    { ne := fun a b _ => by simp [totalLt, hlt]
      eqmin := fun i w a b ha hb => by
        have h1 : key a ≤ key b :=
          ha.2 _ b hb.1.choose_spec.1 hb.1.choose_spec.2.1 hb.1.choose_spec.2.2
        have : ¬ key b < key a := not_lt.2 h1
        simp [totalLt, hlt, this] }
  have hne : data ≠ [] := by
    intro h
    subst h
    simp at h2
    omega
  obtain ⟨tbl, hb, ht⟩ := build_ok hc hne
  obtain ⟨m, hq, hm⟩ := query_ok hc ht h1 h2
  have := isMinAt_iff_slice.1 hm
  exact ⟨m, by simp [rmq, hb, hq], this.1, this.2⟩

/-- Instance: tuples `(level, id)` of integers under Python's lexicographic
    tuple comparison (the element type `LowestCommonAncestor` would use if
    nodes were numbers). -/
theorem C17_rmq_pairs (data : List (Int × Int)) (start stop : Nat)
    (h1 : start < stop) (h2 : stop ≤ data.length) :
    ∃ m, rmq pairLt data start stop = .ok (some m) ∧ m ∈ slice data start stop ∧
      ∀ x ∈ slice data start stop, m.1 < x.1 ∨ (m.1 = x.1 ∧ m.2 ≤ x.2) := by
  obtain ⟨m, hq, hmem, hle⟩ := C17_rmq_key (κ := Int ×ₗ Int) (fun p => toLex p)
    (fun a b => decide (a.1 < b.1) || (a.1 == b.1 && decide (a.2 < b.2)))
    (by
      intro a b
      rw [Bool.eq_iff_iff]
      simp [Prod.Lex.toLex_lt_toLex])
    data start stop h1 h2
  refine ⟨m, hq, hmem, ?_⟩
  intro x hx
  have := hle x hx
  rw [Prod.Lex.toLex_le_toLex] at this
  exact this

example : rmq pairLt [(1, 2), (0, 3), (0, 1)] 0 3 = .ok (some (0, 1)) := by decide

/-- An empty range (`start ≥ stop`) yields `None`, whatever the bounds. -/
theorem C17_rmq_empty {α : Type} [LinearOrder α] (data : List α) (start stop : Nat)
    (hne : data ≠ []) (h : stop ≤ start) :
    rmq (ordLt α) data start stop = .ok none := by
  obtain ⟨tbl, hb, _⟩ := build_ok (cmpOK_total data) hne
  simp [rmq, ordLt, hb, query_empty tbl h]

example : rmq (ordLt Nat) [3, 1, 5, 3, 4, 7, 6, 1] 2 7 = .ok (some 3) := by decide
example : slice [3, 1, 5, 3, 4, 7, 6, 1] 2 7 = [5, 3, 4, 7, 6] := by decide
example : rmq (ordLt Nat) [3, 1, 5] 2 1 = .ok none := by decide

/-! ### The sparse table over the Euler tour never orders two nodes -/

/-- `(level1, node1) < (level2, node2)` raises exactly when the levels are
    equal and the nodes distinct (Python would evaluate `node1 < node2`). -/
theorem C17_entryLt_raises_iff (a b : TourEntry) :
    (∃ e, entryLt a b = .error e) ↔ (a.1 = b.1 ∧ a.2 ≠ b.2) := by
  unfold entryLt
  by_cases h1 : a.1 = b.1 <;> by_cases h2 : a.2 = b.2 <;> simp [h1, h2]

/-- The precise fact that keeps `TreeNode < TreeNode` from ever being
    evaluated: in every contiguous range of the Euler tour all entries of
    minimal level hold the same node (the two operands of every `min` of the
    sparse table are level-minima of two windows whose union is such a
    range).  Consequently the construction of the table and every in-range
    query succeed: the model propagates the `TypeError` of any comparison it
    performs, so `.ok` means that no comparison raised. -/
theorem C17_no_node_cmp (t : RTree) :
    (∀ start stop a b, a ∈ slice (eulerTour t) start stop → b ∈ slice (eulerTour t) start stop →
      (∀ e ∈ slice (eulerTour t) start stop, a.1 ≤ e.1) →
      (∀ e ∈ slice (eulerTour t) start stop, b.1 ≤ e.1) → a = b) ∧
    (∃ tbl, build entryLt (eulerTour t) = .ok tbl ∧
      ∀ start stop, start < stop → stop ≤ (eulerTour t).length →
        ∃ m, query entryLt tbl start stop = .ok (some m) ∧ m ∈ slice (eulerTour t) start stop ∧
          ∀ e ∈ slice (eulerTour t) start stop, m.1 ≤ e.1) := by
  constructor
  · intro start stop a b ha hb hamin hbmin
    have ha' : IsMinAt Prod.fst (eulerTour t) start (stop - start) a :=
      isMinAt_iff_slice.2 ⟨ha, hamin⟩
    have hb' : IsMinAt Prod.fst (eulerTour t) start (stop - start) b :=
      isMinAt_iff_slice.2 ⟨hb, hbmin⟩
    obtain ⟨u, rfl, hu⟩ := isMinAt_entry ha'
    obtain ⟨v, rfl, hv⟩ := isMinAt_entry hb'
    rw [min_paths_eq (tourPaths_inv t) hu hv]
  · obtain ⟨tbl, hb, ht⟩ := build_ok (cmpOK_tour t) (eulerTour_ne_nil t)
    refine ⟨tbl, hb, ?_⟩
    intro start stop h1 h2
    obtain ⟨m, hq, hm⟩ := query_ok (cmpOK_tour t) ht h1 h2
    have := isMinAt_iff_slice.1 hm
    exact ⟨m, hq, this.1, this.2⟩

/-- The level stored with a node in the tour is the length of its path. -/
theorem C17_tour_level (t : RTree) : ∀ e ∈ eulerTour t, e.1 = e.2.length := by
  intro e he
  rw [eulerTour_eq] at he
  obtain ⟨p, _, rfl⟩ := List.mem_map.1 he
  rfl

/-! ### Lowest common ancestor -/

/-- A tree used in the non-vacuity examples: `((2,(4,5)3)1,(7,8,(10)9)6)0`. -/
def exTree : RTree :=
  .node [.node [.node [], .node [.node [], .node []]],
         .node [.node [], .node [], .node [.node []]]]

/-- For any non-empty list of nodes of the tree, the query returns the
    longest common prefix of all their paths. -/
theorem C17_lca (t : RTree) (p : Path) (ps : List Path)
    (h : ∀ x ∈ p :: ps, t.isNode x = true) :
    lcaQuery t (p :: ps) = .ok (ps.foldl lcp p) :=
  lcaQuery_ok t p ps h

/-- Two nodes: the longest common prefix of the two paths. -/
theorem C17_lca_pair (t : RTree) (p q : Path) (hp : t.isNode p = true) (hq : t.isNode q = true) :
    lcaQuery t [p, q] = .ok (lcp p q) := by
  have := C17_lca t p [q] (by simp [hp, hq])
  simpa using this

/-- Independent reading: the result is a node of the tree, an ancestor of
    every argument, and every common ancestor of the arguments is an ancestor
    of it — the deepest common ancestor. -/
theorem C17_lca_deepest (t : RTree) (p : Path) (ps : List Path)
    (h : ∀ x ∈ p :: ps, t.isNode x = true) :
    ∃ r, lcaQuery t (p :: ps) = .ok r ∧ t.isNode r = true ∧
      (∀ x ∈ p :: ps, isAnc r x = true) ∧
      (∀ a, (∀ x ∈ p :: ps, isAnc a x = true) → isAnc a r = true ∧ a.length ≤ r.length) := by
  refine ⟨ps.foldl lcp p, C17_lca t p ps h, ?_, ?_, ?_⟩
  · have hpre := foldl_lcp_prefix ps p p (by simp)
    have := (lcp_eq_left_iff _ _).2 hpre
    rw [← this, lcp_comm]
    exact isNode_lcp _ (h p (by simp))
  · intro x hx
    exact (isAnc_iff_prefix _ _).2 (foldl_lcp_prefix ps p x hx)
  · intro a ha
    have := prefix_foldl_lcp ps p a (fun x hx => (isAnc_iff_prefix _ _).1 (ha x hx))
    exact ⟨(isAnc_iff_prefix _ _).2 this, this.length_le⟩

/-- No argument: `TypeError`, as documented. -/
theorem C17_lca_empty (t : RTree) : lcaQuery t [] = .error .typeError := by
  obtain ⟨tbl, h1, _⟩ := init_ok t
  simp [lcaQuery, withState, h1, State.call]

example : exTree.isNode [0, 1, 0] = true ∧ exTree.isNode [0, 0] = true ∧
    exTree.isNode [1, 2, 0] = true := by decide
example : lcaQuery exTree [[0, 1, 0], [0, 0]] = .ok [0] := by decide
example : lcaQuery exTree [[0, 1, 0], [1, 2, 0], [0]] = .ok [] := by decide
example : lcp [0, 1, 0] [0, 0] = [0] := by decide

/-! ### Derived queries -/

/-- Ancestor, strict ancestor, comparability, level and distance, computed
    through the sparse table, equal their definitions on paths. -/
theorem C17_queries (t : RTree) (p q : Path) (hp : t.isNode p = true) (hq : t.isNode q = true) :
    isAncestorOf t p q = .ok (isAnc p q) ∧
    isStrictAncestorOf t p q = .ok (isStrictAnc p q) ∧
    isComparable t p q = .ok (comparable p q) ∧
    Lca.level t p = .ok (Path.level p) ∧
    distance t p q = .ok (dist p q : Int) := by
  obtain ⟨tbl, h1, h2⟩ := init_ok t
  simp only [isAncestorOf, isStrictAncestorOf, isComparable, Lca.level, distance, withState, h1]
  exact ⟨isAncestorOf_ok t h2 hp hq, isStrictAncestorOf_ok t h2 hp hq,
    isComparable_ok t h2 hp hq, level_ok t hp, distance_ok t h2 hp hq⟩

/-- `n` steps up the parent chain (`node.up`, staying at the root). -/
def upN : Nat → Path → Path
  | 0, q => q
  | n + 1, q => upN n ((Path.up q).getD [])

/-- The path operations are what they should be on parent chains: `isAnc p q`
    iff `p` is reached from `q` by repeatedly taking the parent. -/
theorem C17_isAnc_parent_chain (p q : Path) : isAnc p q = true ↔ ∃ n, upN n q = p := by
  rw [isAnc_iff_prefix]
  have hup : ∀ (n : Nat) (q : Path), upN n q = q.take (q.length - n) := by
    intro n
    induction n with
    | zero => intro q; simp [upN]
    | succ n ih =>
      intro q
      rw [upN, ih]
      cases q with
      | nil => simp [Path.up]
      | cons a q =>
        simp only [Path.up, Option.getD_some, List.dropLast_eq_take, List.take_take,
          List.length_take, List.length_cons]
        congr 1
        omega
  constructor
  · intro h
    refine ⟨q.length - p.length, ?_⟩
    rw [hup]
    have hl := h.length_le
    rw [List.prefix_iff_eq_take] at h
    have e : q.length - (q.length - p.length) = p.length := by omega
    rw [e]
    exact h.symm
  · rintro ⟨n, rfl⟩
    rw [hup]
    exact List.take_prefix _ _

example : upN 2 [0, 1, 0] = [0] := by decide

example : isAncestorOf exTree [0] [0, 1, 0] = .ok true := by decide
example : isStrictAncestorOf exTree [0] [0] = .ok false := by decide
example : isComparable exTree [0, 1] [1] = .ok false := by decide
example : Lca.level exTree [1, 2, 0] = .ok 3 := by decide
example : distance exTree [0, 1, 0] [1, 2, 0] = .ok 6 := by decide

end SR.C17
