/-
  C09 — the cost clauses transferred to the dynamic-programming solvers through
  their optimality theorems (nothing about the DP is re-proved here).

  * `reconcile_thl` (`thl`), inside the coherent region `spe ≤ dup + 2·floss`, on a
    binary species tree containing the leaf species — from `C01_thl_all`,
    `C01_thl`, `C01_thl_finite`, `C01_thl_table_opt`:
      `C09_scale_thl`  the returned set is unchanged by scaling with `k > 0`, the
                       cost of every returned solution and the optimiser's own
                       table minimum are multiplied by `k`;
      `C09_mono_thl`   nothing returned under dearer costs is cheaper than what is
                       returned under cheaper costs (coherence of the CHEAPER vector
                       only); the table minimum is monotone (both coherent).
  * the ordered solvers (`spfs`, base and extended), inside the coherent region
    `spe + 2·sloss ≤ dup + 2·floss` — from `C02_spfs_opt_masks`,
    `C02_spfs_all_masks`:
      `C09_scale_spfs`, `C09_mono_spfs`.
  Coherence is preserved by scaling (`C09_coherent_scale`, `C09_coherent_scale_ord`),
  so "inside the coherent region before and after the change" is one hypothesis.

  The unordered solvers (`uspfs`) have no end-to-end optimality theorem against the
  evaluator yet (C03); their scaling clause and the monotonicity of the optimisers'
  own table minima are obtained in `C09Dp.lean` from the DP's exactness theorem.
-/
import SRVerif.Properties.C09Costs
import SRVerif.Properties.C01Thl
import SRVerif.Properties.C02Dp

namespace SR.C09

open SR SR.EventLog Cost

/-! ### Coherence is invariant under scaling -/

theorem C09_coherent_scale (k : Nat) (c : Costs) (h : c.spe ≤ c.dup + 2 * c.floss) :
    (Costs.scale k c).spe ≤ (Costs.scale k c).dup + 2 * (Costs.scale k c).floss := by
  show k * c.spe ≤ k * c.dup + 2 * (k * c.floss)
  have := Nat.mul_le_mul_left k h
  rw [Nat.mul_add, Nat.mul_left_comm] at this
  exact this

theorem C09_coherent_scale_ord (k : Nat) (c : Costs)
    (h : c.spe + 2 * c.sloss ≤ c.dup + 2 * c.floss) :
    (Costs.scale k c).spe + 2 * (Costs.scale k c).sloss
      ≤ (Costs.scale k c).dup + 2 * (Costs.scale k c).floss := by
  show k * c.spe + 2 * (k * c.sloss) ≤ k * c.dup + 2 * (k * c.floss)
  have := Nat.mul_le_mul_left k h
  rw [Nat.mul_add, Nat.mul_add, Nat.mul_left_comm, Nat.mul_left_comm k 2] at this
  exact this

/-- … and conversely for `k > 0`: scaling neither enters nor leaves the region. -/
theorem C09_coherent_scale_iff (k : Nat) (hk : 0 < k) (c : Costs) :
    (Costs.scale k c).spe ≤ (Costs.scale k c).dup + 2 * (Costs.scale k c).floss
      ↔ c.spe ≤ c.dup + 2 * c.floss := by
  refine ⟨fun h => ?_, C09_coherent_scale k c⟩
  have h' : k * c.spe ≤ k * (c.dup + 2 * c.floss) := by
    rw [Nat.mul_add, Nat.mul_left_comm]; exact h
  exact Nat.le_of_mul_le_mul_left h' hk

/-! ### `reconcile_thl` -/

/-- **C09 scaling for `reconcile_thl`** (coherent region). -/
theorem C09_scale_thl (c : Costs) (S : RTree) (o : OTree) (hb : S.isBinary = true)
    (hS : ∀ p ∈ leafSpecies o, S.isNode p = true) (hcoh : c.spe ≤ c.dup + 2 * c.floss)
    (k : Nat) (hk : 0 < k) :
    (∀ s, s ∈ thl (Costs.scale k c) S o ↔ s ∈ thl c S o) ∧
    (∀ s ∈ thl c S o,
      totalCost (Costs.scale k c) .plain o s = Cost.scale k (totalCost c .plain o s)) ∧
    thlTableMin (Costs.scale k c) S o = Cost.scale k (thlTableMin c S o) := by
  have hcoh' := C09_coherent_scale k c hcoh
  refine ⟨fun s => ?_, fun s _ => C09_eval_scale k c .plain o s, ?_⟩
  · rw [(C01.C01_thl_all (Costs.scale k c) S o hb hS hcoh').1 s,
      (C01.C01_thl_all c S o hb hS hcoh).1 s]
    simp only [C09_eval_scale_le k hk]
  · rw [C01.C01_thl_table_opt _ S o hb hS hcoh', C01.C01_thl_table_opt c S o hb hS hcoh]
    exact (C09_rank_scale k hk c .plain o (Spec.allValid S o)).2

/-- **C09 monotonicity for `reconcile_thl`**: with the cheaper vector coherent, no
    solution returned under the dearer costs is cheaper than one returned under the
    cheaper costs; with both coherent the optimiser's table minimum is monotone. -/
theorem C09_mono_thl (c c' : Costs) (hcc : leCosts c c') (S : RTree) (o : OTree)
    (hb : S.isBinary = true) (hS : ∀ p ∈ leafSpecies o, S.isNode p = true)
    (hcoh : c.spe ≤ c.dup + 2 * c.floss) :
    (∀ s ∈ thl c S o, ∀ s' ∈ thl c' S o,
      Cost.le (totalCost c .plain o s) (totalCost c' .plain o s') = true) ∧
    (c'.spe ≤ c'.dup + 2 * c'.floss →
      Cost.le (thlTableMin c S o) (thlTableMin c' S o) = true) := by
  constructor
  · intro s hs s' hs'
    obtain ⟨hv', hm', _⟩ := C01.C01_thl_finite c' S o s' hs'
    have hv : Spec.validRec o s' = true := by
      simpa [Spec.validSol] using hv'
    exact Cost.le_trans ((C01.C01_thl c S o hb hS hcoh s hs).2 s' hv hm')
      (C09_eval_mono c c' hcc .plain o s')
  · intro hcoh'
    rw [C01.C01_thl_table_opt c S o hb hS hcoh, C01.C01_thl_table_opt c' S o hb hS hcoh']
    exact (C09_rank_mono c c' hcc .plain o (Spec.allValid S o)).1

/-! Non-vacuity: a coherent, well-formed input with a non-trivial optimum. -/

example : exS.isBinary = true ∧ (∀ p ∈ leafSpecies exO, exS.isNode p = true) ∧
    exC.spe ≤ exC.dup + 2 * exC.floss ∧
    (thl exC exS exO).map (totalCost exC .plain exO) = [.fin 4] ∧
    thl (Costs.scale 3 exC) exS exO = thl exC exS exO ∧
    thlTableMin (Costs.scale 3 exC) exS exO = .fin 12 := by
  decide +kernel

example : leCosts exC exC' ∧ exC'.spe ≤ exC'.dup + 2 * exC'.floss ∧
    thlTableMin exC exS exO = .fin 4 ∧ thlTableMin exC' exS exO = .fin 8 := by
  refine ⟨⟨?_, ?_, ?_, ?_, ?_⟩, ?_⟩ <;> decide +kernel

/-! ### The ordered solvers -/

/-- Admissibility of a mask labelling does not mention the unit costs. -/
theorem C09_adm_costs (c₁ c₂ : Costs) :
    ∀ (t : ATree OrdAnn) (ls : LSol Nat), Adm (ordAlg c₁) t ls → Adm (ordAlg c₂) t ls := by
  intro t
  induction t with
  | leaf a sp => intro ls h; cases ls <;> exact h
  | node a l r ihl ihr =>
    intro ls h
    cases ls with
    | leaf s m => exact h
    | node s m sl sr => exact ⟨h.1, h.2.1, ihl sl h.2.2.1, ihr sr h.2.2.2⟩

/-- What a decoded solution of `spfs` is: an admissible, non-empty mask labelling
    with a complete root, of finite evaluated cost (restating the interior of
    `C02_cell_sound`). -/
theorem C09_spfs_decoded (c : Costs) (S : RTree) (base : Bool) (o : OTree) (pre : Option (List Nat))
    (hord : C02.OrdersOk o pre) (sol : Sol) (h : sol ∈ spfs c S base o pre) :
    ∃ order ∈ rootOrders o pre, ∃ ls, ordSol order ls = sol ∧
      Adm (ordAlg c) (annOrd S base order true o) ls ∧ ls.lab = 2 ^ order.length - 1 ∧ NZ ls ∧
      totalCost c .ordered o sol ≠ .inf := by
  obtain ⟨⟨order, ho, d, hd, ls, hls, rfl⟩, _⟩ := (C02.mem_spfs c S base o pre sol).mp h
  obtain ⟨hdt, hlab⟩ := (C02.mem_spfsCellsFor c S base o).mp hd
  have hX : c.spe + 2 * c.sloss ≤ c.dup + 2 * c.floss + (c.spe + 2 * c.sloss) := by omega
  obtain ⟨adm, _, hl, _, hle⟩ := dp_sound (ordAlg c) c S (ord_slack c) hX _ d hdt ls hls
  have hfin : labCost (ordAlg c) c (annOrd S base order true o) ls ≠ .inf := by
    obtain ⟨n, hn⟩ := ne_inf_iff.mp (dp_finite (ordAlg c) c S true _ hdt)
    rw [hn] at hle
    intro e; rw [e] at hle; simp at hle
  have hnz := nz_of_finite c S base order o (hord order ho).2 true ls adm hfin
  obtain ⟨_, _, _, hfin', _⟩ :=
    C02.C02_cell_sound c S base o (hord order ho).1 (hord order ho).2 d hd ls hls
  exact ⟨order, ho, ls, rfl, adm, by rw [hl, hlab], hnz, hfin'⟩

/-- Two coherent cost vectors that order the evaluated costs of all solutions in the
    same way, and agree on which are finite, give the same `spfs` result (one
    inclusion; used in both directions). -/
theorem C09_spfs_same_order (c₁ c₂ : Costs) (S : RTree) (base : Bool) (o : OTree)
    (pre : Option (List Nat)) (hord : C02.OrdersOk o pre)
    (hb : S.isBinary = true) (hS : ∀ p ∈ leafSpecies o, S.isNode p = true)
    (hcoh₁ : c₁.spe + 2 * c₁.sloss ≤ c₁.dup + 2 * c₁.floss)
    (hcoh₂ : c₂.spe + 2 * c₂.sloss ≤ c₂.dup + 2 * c₂.floss)
    (hle : ∀ s s', Cost.le (totalCost c₁ .ordered o s) (totalCost c₁ .ordered o s')
      = Cost.le (totalCost c₂ .ordered o s) (totalCost c₂ .ordered o s'))
    (hfin : ∀ s, totalCost c₁ .ordered o s ≠ .inf → totalCost c₂ .ordered o s ≠ .inf) :
    ∀ sol ∈ spfs c₁ S base o pre, sol ∈ spfs c₂ S base o pre := by
  intro sol hsol
  obtain ⟨order, ho, ls, rfl, adm, hroot, hnz, hf⟩ := C09_spfs_decoded c₁ S base o pre hord sol hsol
  refine C02.C02_spfs_all_masks c₂ S base o pre hord hb hS hcoh₂ order ho ls
    (C09_adm_costs c₁ c₂ _ _ adm) hroot hnz (hfin _ hf) ?_
  intro order' ho' ls' adm' hroot' hnz'
  rw [← hle]
  exact C02.C02_spfs_opt_masks c₁ S base o pre hord hb hS hcoh₁ _ hsol order' ho' ls'
    (C09_adm_costs c₂ c₁ _ _ adm') hroot' hnz'

/-- **C09 scaling for the ordered solvers** (base and extended; coherent region):
    the returned set is unchanged and the cost of every returned solution is scaled. -/
theorem C09_scale_spfs (c : Costs) (S : RTree) (base : Bool) (o : OTree) (pre : Option (List Nat))
    (hord : C02.OrdersOk o pre) (hb : S.isBinary = true)
    (hS : ∀ p ∈ leafSpecies o, S.isNode p = true)
    (hcoh : c.spe + 2 * c.sloss ≤ c.dup + 2 * c.floss) (k : Nat) (hk : 0 < k) :
    (∀ s, s ∈ spfs (Costs.scale k c) S base o pre ↔ s ∈ spfs c S base o pre) ∧
    ∀ s ∈ spfs c S base o pre,
      totalCost (Costs.scale k c) .ordered o s = Cost.scale k (totalCost c .ordered o s) := by
  have hcoh' := C09_coherent_scale_ord k c hcoh
  refine ⟨fun s => ⟨?_, ?_⟩, fun s _ => C09_eval_scale k c .ordered o s⟩
  · refine C09_spfs_same_order _ c S base o pre hord hb hS hcoh' hcoh
      (fun s s' => C09_eval_scale_le k hk c .ordered o s s') ?_ s
    intro s hf e
    rw [C09_eval_scale, e] at hf
    exact hf rfl
  · refine C09_spfs_same_order c _ S base o pre hord hb hS hcoh hcoh'
      (fun s s' => (C09_eval_scale_le k hk c .ordered o s s').symm) ?_ s
    intro s hf e
    rw [C09_eval_scale] at e
    cases h : totalCost c .ordered o s with
    | inf => exact hf h
    | fin n => rw [h] at e; cases e

/-- **C09 monotonicity for the ordered solvers**: with the cheaper vector coherent,
    no solution returned under the dearer costs is cheaper than one returned under
    the cheaper costs. -/
theorem C09_mono_spfs (c c' : Costs) (hcc : leCosts c c') (S : RTree) (base : Bool) (o : OTree)
    (pre : Option (List Nat)) (hord : C02.OrdersOk o pre) (hb : S.isBinary = true)
    (hS : ∀ p ∈ leafSpecies o, S.isNode p = true)
    (hcoh : c.spe + 2 * c.sloss ≤ c.dup + 2 * c.floss) :
    ∀ s ∈ spfs c S base o pre, ∀ s' ∈ spfs c' S base o pre,
      Cost.le (totalCost c .ordered o s) (totalCost c' .ordered o s') = true := by
  intro s hs s' hs'
  obtain ⟨order', ho', ls', rfl, adm', hroot', hnz', _⟩ :=
    C09_spfs_decoded c' S base o pre hord s' hs'
  exact Cost.le_trans
    (C02.C02_spfs_opt_masks c S base o pre hord hb hS hcoh s hs order' ho' ls'
      (C09_adm_costs c' c _ _ adm') hroot' hnz')
    (C09_eval_mono c c' hcc .ordered o _)

/-! Non-vacuity for the ordered solvers. -/

example : C02.OrdersOk exO none :=
  C02.C02_orders_ok exO (by decide)

example : exC.spe + 2 * exC.sloss ≤ exC.dup + 2 * exC.floss ∧
    (spfs exC exS false exO none).map (totalCost exC .ordered exO) = [.fin 5] ∧
    spfs (Costs.scale 2 exC) exS false exO none = spfs exC exS false exO none ∧
    (spfs (Costs.scale 2 exC) exS false exO none).map
      (totalCost (Costs.scale 2 exC) .ordered exO) = [.fin 10] := by
  decide +kernel

end SR.C09
