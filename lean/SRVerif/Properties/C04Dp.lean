/-
  UPDATE (build round 2): `C04_unord_statement` is PROVED in Properties/C04Un.lean (no guard).
  (The text below is kept as written in round 1; where it says "missing" / "not proved", see the files above.)

  C04 for the solvers built on the label DP (`thl`, `spfs` = base / extended
  ordered, `uspfs` = base / extended unordered): validity of everything that is
  decoded from the table, for ALL unit costs (no coherence restriction, `sloss = 0`
  included) and all inputs (no well-formedness needed for validity).

  * `C04_thl`        the full C04 statement for `reconcile_thl`;
  * `C04_rec_spfs`, `C04_rec_uspfs`  the reconciliation part (same shape as the
    input, every node mapped, leaves in their given species, no INVALID event)
    for the four labelled solvers.
  * `C04_ord`, `C04_ord_prescribed`  the full C04 statement for the ordered solvers
    (leaf syntenies as given, child ⊑ parent, root = every family once, finite cost).
  The unordered labelling part (`validUnLabels`) and finiteness of the evaluated cost
  of the unordered solvers are not proved; full statement `C04_unord_statement`.
-/
import SRVerif.Properties.C04
import SRVerif.Properties.C01Thl
import SRVerif.Proofs.LabelDPInst
import SRVerif.Properties.C02Dp

namespace SR.C04

open SR

/-- C04 for `reconcile_thl`, every cost vector, every input. -/
theorem C04_thl (c : Costs) (S : RTree) (o : OTree) : C04_statement .plain c o (thl c S o) :=
  fun sol h => ⟨(C01.C01_thl_finite c S o sol h).1, (C01.C01_thl_finite c S o sol h).2.2⟩

/-- … and every species used is a species of `S` (the mapping is one of `Spec.allMappings`). -/
theorem C04_thl_species (c : Costs) (S : RTree) (o : OTree) :
    ∀ sol ∈ thl c S o, sol ∈ Spec.allMappings S o :=
  fun sol h => (C01.C01_thl_finite c S o sol h).2.1

/-- Reconciliation part of C04 for `sreconcile_base_spfs` / `sreconcile_extended_spfs`. -/
theorem C04_rec_spfs (c : Costs) (S : RTree) (base : Bool) (o : OTree) (pre : Option (List Nat)) :
    ∀ sol ∈ spfs c S base o pre, Spec.validRec o sol = true :=
  validRec_of_mem_spfs c S base o pre

/-- Reconciliation part of C04 for `usreconcile_base_uspfs` / `usreconcile_extended_uspfs`. -/
theorem C04_rec_uspfs (c : Costs) (S : RTree) (base : Bool) (o : OTree) :
    ∀ sol ∈ uspfs c S base o, Spec.validRec o sol = true :=
  validRec_of_mem_uspfs c S base o

/-- **C04 for the ordered solvers** without a prescribed root order: for every input
    whose leaf syntenies are non-empty, every cost vector (`sloss = 0` included), both
    variants. -/
theorem C04_ord (c : Costs) (S : RTree) (base : Bool) (o : OTree)
    (hne : ∀ f ∈ leafSyntenies o, f ≠ []) : C04_statement .ordered c o (spfs c S base o none) :=
  C02.C02_spfs_valid c S base o none (C02.C02_orders_ok o hne) (C02.C02_orders_perm o)

/-- … and with a prescribed root order that is a duplicate-free arrangement of all
    families having every (non-empty) leaf synteny as a subsequence. -/
theorem C04_ord_prescribed (c : Costs) (S : RTree) (base : Bool) (o : OTree) (r : List Nat)
    (hnd : r.Nodup) (hperm : Spec.isPermOf r (families o) = true)
    (h : ∀ f ∈ leafSyntenies o, f ≠ [] ∧ f.Sublist r) :
    C04_statement .ordered c o (spfs c S base o (some r)) := by
  refine C02.C02_spfs_valid c S base o (some r) (C02.C02_orders_ok_prescribed o r hnd h) ?_
  intro order ho
  simp only [rootOrders, List.mem_singleton] at ho
  subst ho
  exact ⟨hperm, by rw [dedup_of_nodup order hnd]; simp⟩

/-- Full statements for the labelled solvers (`C04_ord_statement` is proved above
    under the input guards — `C04_ord`, `C04_ord_prescribed`; unordered not proved: the label clauses of
    `Spec.validSol` and finiteness of `totalCost` need the bridge between the
    algebra's edge costs and the evaluator's `localOrdLosses` / `localUnordLosses`,
    i.e. `labCost (ordAlg c) … ls = totalCost c .ordered o (ordSol order ls)` for
    decoded `ls`, and the analogous `C03_kinds_faithful`). -/
def C04_ord_statement : Prop :=
  ∀ (c : Costs) (S : RTree) (base : Bool) (o : OTree) (pre : Option (List Nat)),
    C04_statement .ordered c o (spfs c S base o pre)

def C04_unord_statement : Prop :=
  ∀ (c : Costs) (S : RTree) (base : Bool) (o : OTree),
    C04_statement .unordered c o (uspfs c S base o)

/-! Non-vacuity -/

example :
    let c : Costs := { spe := 1, dup := 1, hgt := .fin 1, floss := 1, sloss := 0 }
    let S : RTree := .node [.node [], .node []]
    let o : OTree := .node (.leaf [0] [1, 2]) (.leaf [1] [2])
    spfs c S false o none ≠ [] ∧ uspfs c S false o ≠ [] ∧ thl c S o ≠ [] := by
  decide +kernel

end SR.C04
