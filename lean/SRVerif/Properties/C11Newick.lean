/-
  C11 — the Newick hypothesis of `Properties/C11.lean` discharged on a MODEL of the codec.

  `Model/Newick.lean` models ete3 3.1.3's writer as superrec2 calls it
  (`write(format=8, format_root_node=True, features=["color"])`) and its reader
  (`Tree(s, format=1)`: the nested `split`s, the three regular expressions, NHX
  parsing, both exception classes); `harness/checks/c11_newick.py` compares both,
  byte for byte and node for node, with the real calls made by `to_dict` /
  `from_dict`.  Here:

  * `C11_newick_roundtrip`: for EVERY tree (any arity, unary nodes, any depth,
    single-node trees) whose names and colour values are safe, reading what was
    written gives the tree back — names, child order, the `color` feature on
    exactly the nodes that had it, no branch length, no other feature.
  * "Safe" (`Newick.safeTree`, decidable) is what ete3 really needs, which is more
    liberal than the property's domain: a name is non-empty, has none of
    `: ; ( ) , [ ] = TAB LF CR` and no white space at either end (inner spaces,
    quotes, `&`, non-ASCII letters are fine); a colour has none of those eleven
    characters (it may be empty or begin/end with a space).  The examples at the end show
    that each condition is needed (the writer replaces the eleven characters by `_`
    and writes `NoName` for an empty name, the reader strips the ends).
  * `C11_roundtrip_newick_*`: the four class round trips of `Properties/C11.lean`
    with this codec — no hypothesis on ete3 left, only the correspondence of the
    model with it (tie).
-/
import SRVerif.Properties.C11
import SRVerif.Proofs.NewickCompat

namespace SR.C11

open SR.Ser SR.Newick

/-- The reader of the model, as the `String → Option NT` the class models take. -/
def newickRead (s : String) : Option NT := (Newick.readNT s).toOption

/-- Writing then reading a safely named tree gives exactly the tree: same names,
    same children in the same order, the `color` feature where it was and nowhere
    else, no branch length and no other feature (`RT.ofNT`). -/
theorem C11_newick_roundtrip (t : NT) (h : Newick.safeTree t = true) :
    Newick.read (Newick.write t) = .ok (RT.ofNT t) :=
  Newick.read_write t h

/-- … in terms of what C11 observes (name, colour, children). -/
theorem C11_newick_roundtrip_nt (t : NT) (h : Newick.safeTree t = true) :
    Newick.readNT (Newick.write t) = .ok t :=
  Newick.readNT_write t h

/-- The property's own domain (non-empty words over letters, digits, underscore,
    for names and colours) is safe. -/
theorem C11_newick_words {t : NT} (h : t.SafeNames) : Newick.safeTree t = true :=
  Newick.safeTree_of_SafeNames h

/-- The law that `Properties/C11.lean` assumes of ete3 holds of the model
    (unique names are not even needed). -/
theorem C11_newick_law : NewickLaw Newick.write newickRead :=
  Newick.newickLaw

/-- The written text: ends with `;`, as many `(` as `)`, none of the characters
    the reader deletes (`\n \r \t`), no leading or trailing white space — the
    preliminary tests of `read_newick` pass. -/
theorem C11_newick_written (t : NT) (h : Newick.safeTree t = true) :
    (Newick.write t).toList.getLast? = some ';'
    ∧ (Newick.write t).toList.count '(' = (Newick.write t).toList.count ')'
    ∧ (∀ c ∈ (Newick.write t).toList, c ≠ '\n' ∧ c ≠ '\r' ∧ c ≠ '\t') := by
  have hb : Newick.Bal (Newick.writeNode t ++ [';']) :=
    Newick.bal_append (Newick.bal_writeNode t h)
      ⟨by intro ch hch; simp at hch; subst hch; decide, by decide⟩
  simp only [Newick.write, Newick.writeChars, String.toList_ofList]
  exact ⟨by simp, hb.2, hb.1⟩

/-- Malformed input, missing `;`: `NewickError`. -/
theorem C11_newick_no_semicolon (s : String)
    (h : (Newick.strip s.toList).getLast? ≠ some ';') : Newick.read s = .error .newickError := by
  unfold Newick.read Newick.readChars
  have h1 : ((Newick.strip s.toList).getLast? == some ';') = false := by simpa using h
  have h2 : ((Newick.strip s.toList).getLast? != some ';') = true := by simpa using h
  simp [h1, h2]

/-- Malformed input, unbalanced parentheses: `NewickError`. -/
theorem C11_newick_unbalanced (s : String) (h0 : (Newick.strip s.toList).head? = some '(')
    (h : (Newick.strip s.toList).count '(' ≠ (Newick.strip s.toList).count ')') :
    Newick.read s = .error .newickError := by
  unfold Newick.read Newick.readChars
  simp only [h0, bne_self_eq_false, Bool.false_and, Bool.false_eq_true, if_false, Bool.false_or]
  split
  · rfl
  · unfold Newick.readFromString
    have : ((Newick.strip s.toList).count '(' != (Newick.strip s.toList).count ')') = true := by
      simpa using h
    simp [h0, this]

/-! ### The four classes, with no hypothesis on the codec -/

/-- `ReconciliationInput`. -/
theorem C11_roundtrip_newick_input {x : RecInput} (h : x.WF) :
    RecInput.fromDict newickRead (x.toDict Newick.write) = .ok x :=
  C11_roundtrip_input C11_newick_law h

/-- `SuperReconciliationInput`. -/
theorem C11_roundtrip_newick_super_input {x : SRecInput} (h : x.WF) :
    SRecInput.fromDict newickRead (x.toDict Newick.write) = .ok x.norm
    ∧ x.norm.toDict Newick.write = x.toDict Newick.write :=
  C11_roundtrip_super_input C11_newick_law h

/-- `ReconciliationOutput`. -/
theorem C11_roundtrip_newick_output {x : RecOutput} (h : x.WF) :
    RecOutput.fromDict newickRead (x.toDict Newick.write) = .ok x.norm
    ∧ x.norm.toDict Newick.write = (x.toDict Newick.write).dropLeafSyntenies :=
  C11_roundtrip_output C11_newick_law h

/-- `SuperReconciliationOutput`. -/
theorem C11_roundtrip_newick_super_output {x : SRecOutput} (h : x.WF) :
    SRecOutput.fromDict newickRead (x.toDict Newick.write) = .ok x.norm
    ∧ x.norm.toDict Newick.write = (x.toDict Newick.write).dropLeafSyntenies :=
  C11_roundtrip_super_output C11_newick_law h

/-- Same events and cost after the round trip, for any evaluation that reads the
    listed fields only. -/
theorem C11_same_evaluation_newick {α : Type}
    (eval : RecInput → TreeMapping → SynMapping → Bool → α)
    (hset : ∀ i m s o, eval i m (normSyn s) o = eval i m s o) {x : SRecOutput} (h : x.WF) :
    ∃ y, SRecOutput.fromDict newickRead (x.toDict Newick.write) = .ok y
      ∧ eval y.input.base y.objectSpecies y.syntenies y.ordered
        = eval x.input.base x.objectSpecies x.syntenies x.ordered :=
  C11_same_evaluation eval hset C11_newick_law h

/-! ### Non-vacuity and the boundary of `safeTree` -/

/-- Unary node, polytomy, colours on a leaf, an inner node and the root, names with an
    inner space, a quote, `&`, a non-ASCII letter, a colour that is empty and one with spaces. -/
def exTree : NT :=
  .node "root 1" (some "") [
    .node "u" none [.node "x_1" (some "0000FF") []],
    .node "it's" none [.node "a&b" none [], .node "é" (some " dark red ") [], .node "NoName" none []],
    .node "12" none []]

example : Newick.safeTree exTree = true := by decide

/-- The round trip of this tree, NHX comments included, is an instance of the theorem. -/
example : Newick.readNT (Newick.write exTree) = .ok exTree :=
  C11_newick_roundtrip_nt exTree (by decide)

example : Newick.write exTree
    = "((x_1[&&NHX:color=0000FF])u,(a&b,é[&&NHX:color= dark red ],NoName)it's,12)root 1[&&NHX:color=];" := by
  decide

/-- The README solution of `Properties/C11.lean` is in the domain of the four class theorems. -/
example : exOutput.WF :=
  ⟨⟨⟨by decide, by decide, by decide, by decide, by decide, by decide⟩, by decide⟩,
   by decide, by decide⟩

/-- Each condition of `safeTree` is needed: white space at an end is stripped … -/
example : Newick.readNT (Newick.write (.node "a " none [])) = .ok (.node "a" none []) := by decide

/-- … an empty name is written `NoName` … -/
example : Newick.writeChars (.node "" none [.node "x" none []]) = "(x)NoName;".toList := by decide

/-- … and each of the eleven characters is replaced by `_`, in names and in colours. -/
example : Newick.writeChars (.node "a:b" (some "x=1") []) = "a_b[&&NHX:color=x_1];".toList := by decide

/-- The reader's errors: unbalanced parentheses, missing `;`, an empty leaf are `NewickError`s;
    a text that closes the root too early makes ete3 dereference `None` (`AttributeError`). -/
example : Newick.readNT "((a,b)c;" = .error .newickError := by decide
example : Newick.readNT "(a,b)c" = .error .newickError := by decide
example : Newick.readNT "(a,,b)c;" = .error .newickError := by decide
example : Newick.readNT "(a));(b;" = .error .attributeError := by decide

/-- The reader accepts more than the writer emits: branch lengths, several features, spaces
    (what it builds from such texts is compared with ete3 by the tie; `decide` on computed
    strings is too slow in the kernel to show the tree here). -/
example : (Newick.read "( a:1 , b )c : 2e5 [&&NHX:color=red:k=v:color=tan] ;").isOk = true := by decide

end SR.C11
