/-
  C04 — Every returned solution is a valid, complete (super-)reconciliation.

  `Spec.validSol mode o sol`: `sol` has the shape of the input tree `o`
  (every node is mapped), leaves sit in their given species, no node has the
  event INVALID, and the labelling is admissible for the mode.
-/
import SRVerif.Proofs.Cost
import SRVerif.Proofs.Paths
import SRVerif.Spec.Opt

namespace SR.C04

open SR

/-- Full statement, for the seven algorithms (`sols` = the algorithm's result). -/
def C04_statement (mode : LabelMode) (c : Costs) (o : OTree) (sols : List Sol) : Prop :=
  ∀ sol ∈ sols, Spec.validSol mode o sol = true ∧ totalCost c mode o sol ≠ .inf

theorem lcaSol_sp_leaf (sp : Path) (f : List Nat) : (lcaSol (.leaf sp f)).sp = sp := rfl

/-- The LCA reconciliation is valid for every input. -/
theorem C04_lca (o : OTree) : Spec.validSol .plain o (lcaSol o) = true := by
  have h : Spec.validRec o (lcaSol o) = true := by
    induction o with
    | leaf sp f => simp [lcaSol, Spec.validRec]
    | node l r ihl ihr =>
      simp only [lcaSol, Spec.validRec, Bool.and_eq_true, ihl, ihr, and_true]
      -- the event at the LCA of the children is never INVALID
      generalize (lcaSol l).sp = a
      generalize (lcaSol r).sp = b
      have ha := Path.lcp_isAnc_left a b
      have hb := Path.lcp_isAnc_right a b
      have hsa : Path.isStrictAnc a (Path.lcp a b) = false := by
        cases h : Path.isStrictAnc a (Path.lcp a b)
        · rfl
        · rw [Path.isStrictAnc_iff] at h
          exact absurd (Path.isAnc_antisymm h.1 ha) h.2
      have hsb : Path.isStrictAnc b (Path.lcp a b) = false := by
        cases h : Path.isStrictAnc b (Path.lcp a b)
        · rfl
        · rw [Path.isStrictAnc_iff] at h
          exact absurd (Path.isAnc_antisymm h.1 hb) h.2
      simp only [internalEvent, hsa, hsb, ha, hb, Bool.or_self, Bool.false_eq_true, if_false,
        Bool.and_self, if_true]
      split <;> simp
  simp [Spec.validSol, h]

/-- Every reconciliation kept by a result entry was a decoded candidate: the
    validity of results reduces to the validity of candidates. -/
theorem C04_rank (c : Costs) (mode : LabelMode) (o : OTree) (cands : List Sol)
    (P : Sol → Prop) (h : ∀ s ∈ cands, P s) : ∀ s ∈ rankByCost c mode o cands, P s :=
  fun s hs => h s ((mem_rankByCost c mode o cands s).mp hs).1

/-! Non-vacuity -/
example : Spec.validSol .plain (.node (.leaf [0] []) (.leaf [1] []))
    (lcaSol (.node (.leaf [0] []) (.leaf [1] []))) = true := by decide

end SR.C04
