/-
  C03 — Unordered super-reconciliation (SuperDTL) returns a minimum-cost
  solution.

  Models: `uspfs c S base o` (`usreconcile_extended_uspfs` / `…_base_uspfs`),
  evaluator `totalCost … .unordered`.  Specification: `Spec.validSol
  .unordered`, `Spec.optimum … .unordered` (minimum over EVERY labelling between
  the required and the allowed content, not only the two canonical choices).
-/
import SRVerif.Proofs.Cost
import SRVerif.Spec.Opt

namespace SR.C03

open SR

/-- Full statement: optimal among all valid unordered super-reconciliations. -/
def C03_statement : Prop :=
  ∀ (c : Costs) (S : RTree) (o : OTree) (base : Bool),
    c.spe + 2 * c.sloss ≤ c.dup + 2 * c.floss →
    ∀ sol ∈ uspfs c S base o,
      Spec.validSol .unordered o sol = true ∧
      Cost.le (totalCost c .unordered o sol) (Spec.optimum c S .unordered base false o none).1 = true

/-- Proved part: the result is exactly the set of decoded table solutions of
    minimum evaluated cost, each once. -/
theorem C03_rank_partial (c : Costs) (S : RTree) (base : Bool) (o : OTree) :
    let ann := annUn S base o [] o
    let decoded := (uspfsCells c S base true o).flatMap
      (fun d => d.sols.map (unSol ann ann.data.lcaSet))
    (∀ sol, sol ∈ uspfs c S base o ↔
      sol ∈ decoded ∧
      ∀ sol' ∈ decoded, Cost.le (totalCost c .unordered o sol) (totalCost c .unordered o sol') = true)
    ∧ (uspfs c S base o).Nodup :=
  ⟨fun sol => mem_rankByCost c .unordered o _ sol, nodup_rankByCost _ _ _ _⟩

/-! Non-vacuity (README example: x_1 = g1 g2 g3, x_2 = g1 g3 g4, y_1 = g1..g4; cost 2). -/
example :
    let c : Costs := { spe := 0, dup := 1, hgt := .fin 1, floss := 1, sloss := 1 }
    let S : RTree := .node [.node [], .node []]
    let o : OTree := .node (.node (.leaf [0] [1, 2, 3]) (.leaf [0] [1, 3, 4])) (.leaf [1] [1, 2, 3, 4])
    ((uspfs c S false o).map (totalCost c .unordered o)).all (· == .fin 2) = true
      ∧ (uspfs c S false o) ≠ [] := by decide +kernel

end SR.C03
