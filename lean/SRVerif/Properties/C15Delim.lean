/-
  C15 — "one `\begin{tikzpicture}` / `\end{tikzpicture}`" for the ASSEMBLED TEXT.

  `C15_structure` (Properties/C15.lean) states the clause on the list of blocks that `render`
  joins: no block other than the two delimiter lines EQUALS a delimiter.  Here the clause is
  proved for the text itself, by counting occurrences (`countOcc`, the number of positions at
  which the pattern starts): the text `render` returns contains each delimiter exactly once, the
  opening one first, and everything before, between and after them is delimiter-free.

  What has to be known about the hole fillings is `noD` (`Proofs/TikzDelim.lean`): no `{` right
  after `n` or `d` and no `{` in front — an occurrence of `\begin{tikzpicture}` /
  `\end{tikzpicture}` needs `n{t` / `d{t`, and the regenerated templates are checked
  (`Template.delimFree`, decided by the kernel) never to complete such a triple around a hole.
  * `C15_safe_no_delim`      a safe filling contains neither delimiter;
  * `C15_fillings_safe`      every filling of a hole other than a label hole (coordinates, numbers,
                             lengths, colour names and codes, indices, keywords) is safe;
  * `C15_labels_safe`        every label the layout computes (`leafLabel`, `internalLabel`: escaped
                             names / families, `\textsubscript{…}`, `\\` line breaks, any wrap width)
                             from brace-free names and families is safe; so are the species labels
                             (`C15_speciesLabel_safe`) and `\phantom{-}`;
  * `C15_alphabet_braceFree` the property's alphabet (letters, digits, `_`, `\`) is brace-free;
  * `C15_delims_once`        for every sequence of admissible calls (`CallOK`) with safe text
                             fillings (`CallSafe`): exactly one occurrence of each delimiter;
  * `C15_structure_text`     … and the text is `A ⏎ \begin{tikzpicture} ⏎ B ⏎ \end{tikzpicture} ⏎`
                             with `A` (definitions and colour definitions) and `B` (the body)
                             delimiter-free;
  * `C15_draw_delims_once`, `C15_draw_text_delims_once`   the same for the text drawn from any layout
                             on which the drawing code does not raise (`drawCalls`, `renderText`);
  * `C15_draw_valid_delims`  end to end for the layout of every valid reconciliation;
  * `C15_delim_label_needed` the hypothesis on the labels is needed: `\end{tikzpicture}` is an
                             admissible label for `C15_balanced` (balanced braces) and yields a
                             text with two closing delimiters.
-/
import SRVerif.Properties.C15Label
import SRVerif.Properties.C15DrawValid
import SRVerif.Proofs.TikzDelimDraw

namespace SR.C15

open SR SR.Layout SR.Tikz SR.TikzDraw

/-! ## Fillings -/

/-- **A safe filling contains neither delimiter.** -/
theorem C15_safe_no_delim (f : Str) (h : noD f = true) :
    countOcc beginPicture f = 0 ∧ countOcc endPicture f = 0 := by
  obtain ⟨st', h', _⟩ := drun_of_noD (st := .z) (by decide) h
  exact countOcc_eq_zero_of_drun h'

/-- What `noD` says: the string does not start with `{`, and no `{` follows an `n` or a `d`. -/
theorem C15_safe_meaning (s : Str) :
    noD s = true ↔ s.head? ≠ some '{' ∧ ∀ a b x, s = a ++ x :: '{' :: b → x ≠ 'n' ∧ x ≠ 'd' := by
  have key : ∀ (p : Bool) (s : Str), no2 p s = true ↔
      (p = true → s.head? ≠ some '{') ∧ ∀ a b x, s = a ++ x :: '{' :: b → x ≠ 'n' ∧ x ≠ 'd' := by
    intro p s
    induction s generalizing p with
    | nil =>
      simp only [no2, List.head?_nil, ne_eq, reduceCtorEq, not_false_eq_true, implies_true, true_and,
        true_iff]
      intro a b x h
      have := congrArg List.length h
      simp at this
    | cons c r ih =>
      simp only [no2, Bool.and_eq_true, Bool.not_eq_true', List.head?_cons, ne_eq,
        Option.some.injEq]
      rw [ih]
      constructor
      · rintro ⟨h1, h2, h3⟩
        refine ⟨fun hp e => by subst e; subst hp; simp at h1, ?_⟩
        intro a b x e
        cases a with
        | nil =>
          simp only [List.nil_append, List.cons.injEq] at e
          obtain ⟨rfl, rfl⟩ := e
          have := h2
          by_cases hnd : isND c = true
          · exact absurd rfl (h2 hnd)
          · simp only [isND, Bool.or_eq_true, beq_iff_eq, not_or] at hnd
            exact hnd
        | cons y ys =>
          simp only [List.cons_append, List.cons.injEq] at e
          exact h3 ys b x e.2
      · rintro ⟨h1, h2⟩
        refine ⟨?_, ?_, ?_⟩
        · cases p with
          | false => rfl
          | true =>
            have := h1 rfl
            simp only [Bool.true_and, beq_eq_false_iff_ne, ne_eq]
            exact this
        · intro hnd
          cases r with
          | nil => simp
          | cons d r' =>
            simp only [List.head?_cons]
            intro e
            have e' : d = '{' := Option.some.inj e
            subst e'
            have := h2 [] r' c rfl
            simp only [isND, Bool.or_eq_true, beq_iff_eq] at hnd
            rcases hnd with rfl | rfl
            · exact this.1 rfl
            · exact this.2 rfl
        · intro a b x e
          exact h2 (c :: a) b x (by rw [e]; rfl)
  rw [noD, key]
  simp

/-- **Every filling of a hole that is not a label hole is safe**: coordinates, numbers, TeX
    lengths, colour names, indices, colour codes and the templates' own keywords contain no brace. -/
theorem C15_fillings_safe (k : HoleKind) (f : Str) (hk : Template.holeOK k = true)
    (hl : k ≠ .label) (hf : fillOK k f = true) : noD f = true :=
  noD_of_fillOK hk hl hf

/-- A printed position is safe. -/
theorem C15_coord_safe (p : Pos) : noD (fmtPos p) = true := fmtPos_noD p

/-- The name a colour is referred to by is safe. -/
theorem C15_colorName_safe (i : Nat) : noD (colorName Generated.colorPrefix i) = true := by
  apply noD_of_alnum
  simp only [colorName, List.all_append, Bool.and_eq_true]
  exact ⟨colorPrefix_alnum, natStr_alnum i⟩

/-! ## Labels -/

/-- The property's alphabet for node names and family names. -/
def nameChar (c : Char) : Bool := isAlnum c || c == '_' || c == '\\'

/-- Names over letters, digits, `_` and `\` contain no brace. -/
theorem C15_alphabet_braceFree (s : Str) (h : s.all nameChar = true) : braceFree s = true :=
  braceFree_of_all nameChar (by decide) (by decide) s h

theorem rsplit_braceFree {name sp gene : Str} (h : braceFree name = true)
    (hr : rsplitUnderscore name = some (sp, gene)) :
    braceFree sp = true ∧ braceFree gene = true := by
  simp only [rsplitUnderscore] at hr
  split at hr
  · simp only [Option.some.injEq, Prod.mk.injEq] at hr
    have hall : ∀ c ∈ name, isBrace c = false := by
      simpa [braceFree] using h
    constructor
    · rw [← hr.1]
      simp only [braceFree, List.all_eq_true, Bool.not_eq_true']
      intro c hc
      have := List.mem_of_mem_drop (List.mem_reverse.1 hc)
      exact hall c (List.mem_reverse.1 ((List.dropWhile_sublist _).subset this))
    · rw [← hr.2]
      simp only [braceFree, List.all_eq_true, Bool.not_eq_true']
      intro c hc
      exact hall c (List.mem_reverse.1 ((List.takeWhile_sublist _).subset (List.mem_reverse.1 hc)))
  · cases hr

/-- **Every label of the layout is safe.**  For a brace-free node name and brace-free family
    names, whatever the wrap width and whatever the parent's synteny, the label of a leaf
    (`leafLabel`) and of an internal node (`internalLabel`) contain no `{` except the one after
    `\textsubscript`: no `n{`, no `d{`, no `{` in front. -/
theorem C15_labels_safe (w : Option Nat) (syn par : Option (List Str)) (name : Str)
    (hn : braceFree name = true) (hs : ∀ fams, syn = some fams → ∀ f ∈ fams, braceFree f = true)
    (l : Str) :
    (leafLabel w syn name = some l → noD l = true) ∧
    (internalLabel w syn par = some l → noD l = true) := by
  have hnone : ∀ w', syntenyText w' none = some [] := fun _ => rfl
  constructor
  · intro h
    simp only [leafLabel, Option.map_eq_some_iff] at h
    obtain ⟨text, ht, rfl⟩ := h
    by_cases he : text.isEmpty = true
    · simp only [he, Bool.not_true, Bool.false_eq_true, if_false]
      cases hr : rsplitUnderscore name with
      | none => exact noD_of_braceFree (braceFree_escape _ hn)
      | some p =>
        obtain ⟨sp, gene⟩ := p
        obtain ⟨h1, h2⟩ := rsplit_braceFree hn hr
        show noD (escape sp ++ "\\textsubscript{".toList ++ escape gene ++ ['}']) = true
        exact noD_append (noD_append (noD_append (noD_of_braceFree (braceFree_escape _ h1))
          (by decide)) (noD_of_braceFree (braceFree_escape _ h2))) (by decide)
    · simp only [he, Bool.not_false, if_true]
      cases syn with
      | none => rw [hnone] at ht; cases ht; simp at he
      | some fams =>
        exact noD_of_braceFree (C15_syntenyText_braceFree w fams (hs fams rfl) text ht)
  · intro h
    simp only [internalLabel, Option.map_eq_some_iff] at h
    obtain ⟨text, ht, rfl⟩ := h
    split
    · rfl
    · cases syn with
      | none => rw [hnone] at ht; cases ht; rfl
      | some fams =>
        exact noD_of_braceFree (C15_syntenyText_braceFree w fams (hs fams rfl) text ht)

/-- The same over the property's alphabet. -/
theorem C15_labels_safe_alphabet (w : Option Nat) (syn par : Option (List Str)) (name : Str)
    (hn : name.all nameChar = true)
    (hs : ∀ fams, syn = some fams → ∀ f ∈ fams, f.all nameChar = true) (l : Str) :
    (leafLabel w syn name = some l → noD l = true) ∧
    (internalLabel w syn par = some l → noD l = true) :=
  C15_labels_safe w syn par name (C15_alphabet_braceFree _ hn)
    (fun fams h f hf => C15_alphabet_braceFree _ (hs fams h f hf)) l

/-- Species labels (escaped, wrapped at any width) of brace-free names are safe; so is the
    content forced into an unlabelled transfer node. -/
theorem C15_speciesLabel_safe (w : Option Nat) (name label : Str) (hn : braceFree name = true)
    (h : speciesLabel w name = some label) : noD label = true ∧ noD phantomDash = true :=
  ⟨noD_of_braceFree (speciesLabel_braceFree hn h), phantom_noD⟩

/-! ## The assembled text -/

/-- **Exactly one picture environment in the text.**  For every sequence of drawing calls over
    the statement templates of the source with admissible fillings whose text fillings are safe,
    the text `render` returns contains `\begin{tikzpicture}` exactly once and
    `\end{tikzpicture}` exactly once. -/
theorem C15_delims_once (defs : Str) (calls : List Call) (hd : DefsOK defs)
    (hc : ∀ c ∈ calls, CallOK c) (hs : ∀ c ∈ calls, CallSafe c) :
    let text := Tikz.render Generated.renderSkeleton Generated.layerNames Generated.colorPrefix
      Generated.joiner defs calls
    countOcc beginPicture text = 1 ∧ countOcc endPicture text = 1 :=
  render_delims_once defs calls hd hc hs

theorem intercalate_append_cons (sep : Str) : ∀ (xs : List Str) (y : Str) (ys : List Str),
    xs ≠ [] → List.intercalate sep (xs ++ y :: ys) =
      List.intercalate sep xs ++ sep ++ List.intercalate sep (y :: ys)
  | [], _, _, h => absurd rfl h
  | [x], y, ys, _ => by
    have : List.intercalate sep [x] = x := by simp [List.intercalate]
    rw [this]
    exact intercalate_cons_cons sep x y ys
  | x :: x' :: xs, y, ys, _ => by
    have ih := intercalate_append_cons sep (x' :: xs) y ys (by simp)
    simp only [List.cons_append] at ih ⊢
    rw [intercalate_cons_cons, ih, intercalate_cons_cons]
    simp [List.append_assoc]

/-- **The shape of the text**: definitions and colour definitions (`A`), the opening delimiter on
    its own line, the body (`B`), the closing delimiter on its own line, a final newline; `A` and
    `B` contain no delimiter.  In particular the opening delimiter precedes the closing one and
    every `\definecolor` line precedes the picture. -/
theorem C15_structure_text (defs : Str) (calls : List Call) (hd : DefsOK defs)
    (hc : ∀ c ∈ calls, CallOK c) (hs : ∀ c ∈ calls, CallSafe c) :
    let colors := (resolveCalls [] calls).1
    let out := (resolveCalls [] calls).2
    let A := List.intercalate ['\n']
      ([defs] ++ (enumFrom 0 colors).map (colorDefLine Generated.colorPrefix))
    let B := List.intercalate ['\n'] (bodyBlocks Generated.layerNames Generated.colorPrefix out)
    Tikz.render Generated.renderSkeleton Generated.layerNames Generated.colorPrefix
        Generated.joiner defs calls = A ++ ['\n'] ++ beginPicture ++ ['\n'] ++ B ++ ['\n'] ++ endPicture ++ ['\n']
    ∧ countOcc beginPicture A = 0 ∧ countOcc endPicture A = 0
    ∧ countOcc beginPicture B = 0 ∧ countOcc endPicture B = 0 := by
  intro colors out A B
  obtain ⟨_, _, _, _, n1, n2, e1, e2⟩ := delims_disjoint
  have hfree := block_free defs calls hd hc hs
  simp only at hfree
  have hbody : bodyBlocks Generated.layerNames Generated.colorPrefix out ≠ [] := by
    have hl : Generated.layerNames ≠ [] := by decide
    cases hnames : Generated.layerNames with
    | nil => exact absurd hnames hl
    | cons n ns => simp [bodyBlocks, enumFrom]
  refine ⟨?_, ?_, ?_, ?_, ?_⟩
  · rw [Tikz.render, Generated.joiner_newline, skeleton_std, renderBlocks_std]
    cases hb : bodyBlocks Generated.layerNames Generated.colorPrefix (resolveCalls [] calls).2 with
    | nil => exact absurd hb hbody
    | cons b0 bs =>
      have e : [defs] ++ (enumFrom 0 (resolveCalls [] calls).1).map
            (colorDefLine Generated.colorPrefix) ++ [beginPicture] ++ b0 :: bs ++ [endPicture, []] =
          ([defs] ++ (enumFrom 0 (resolveCalls [] calls).1).map
            (colorDefLine Generated.colorPrefix)) ++ beginPicture :: ((b0 :: bs) ++ [endPicture, []]) := by
        simp [List.append_assoc]
      rw [e, intercalate_append_cons _ _ _ _ (by simp)]
      rw [show beginPicture :: (b0 :: bs ++ [endPicture, []]) =
        [beginPicture] ++ b0 :: (bs ++ [endPicture, []]) by simp]
      rw [intercalate_append_cons _ [beginPicture] _ _ (by simp)]
      rw [show b0 :: (bs ++ [endPicture, []]) = (b0 :: bs) ++ endPicture :: [[]] by simp]
      rw [intercalate_append_cons _ (b0 :: bs) _ _ (by simp)]
      have h1 : List.intercalate ['\n'] [beginPicture] = beginPicture := by simp [List.intercalate]
      have h2 : List.intercalate ['\n'] [endPicture, []] = endPicture ++ ['\n'] := by
        simp [List.intercalate, List.intersperse]
      show _ = A ++ ['\n'] ++ beginPicture ++ ['\n'] ++ B ++ ['\n'] ++ endPicture ++ ['\n']
      simp only [A, B, colors, out, hb, h1, h2, List.append_assoc]
  · show countOcc beginPicture (List.intercalate ['\n'] _) = 0
    rw [countOcc_intercalate n1 e1]
    exact sum_map_eq_zero _ _ (fun b hb => (hfree b (List.mem_append_left _ hb)).1)
  · show countOcc endPicture (List.intercalate ['\n'] _) = 0
    rw [countOcc_intercalate n2 e2]
    exact sum_map_eq_zero _ _ (fun b hb => (hfree b (List.mem_append_left _ hb)).2)
  · show countOcc beginPicture (List.intercalate ['\n'] _) = 0
    rw [countOcc_intercalate n1 e1]
    exact sum_map_eq_zero _ _ (fun b hb => (hfree b (List.mem_append_right _ hb)).1)
  · show countOcc endPicture (List.intercalate ['\n'] _) = 0
    rw [countOcc_intercalate n2 e2]
    exact sum_map_eq_zero _ _ (fun b hb => (hfree b (List.mem_append_right _ hb)).2)

/-! ## Layouts -/

/-- **Exactly one picture environment, for every layout.**  Whatever the layout, the orientation
    and the parameters: if the drawing code does not raise, the decorations are admissible
    (`DecoOK`) and the branch labels are safe (`NamesSafe` — discharged by `C15_labels_safe` for
    the labels the layout computes from brace-free names and families), the assembled text
    contains each delimiter exactly once. -/
theorem C15_draw_delims_once (o : Orientation) (dp : DParams) (deco : Deco) (defs : Str)
    (S : RTree) (spOf : Path → Option Path) (all : List SubLayout) (calls : List DrawCall)
    (hok : DecoOK dp deco) (hn : NamesSafe deco) (hd : DefsOK defs)
    (h : drawCalls o dp deco S spOf all = .ok calls) :
    countOcc beginPicture (assemble defs calls) = 1 ∧
    countOcc endPicture (assemble defs calls) = 1 := by
  apply render_delims_once defs _ hd (C15_draw_admissible o dp deco S spOf all calls hok h)
  intro c hc
  obtain ⟨d, hd', rfl⟩ := List.mem_map.1 hc
  exact drawCalls_safe hok hn h d hd'

/-- The same for `renderText` (`tikz.render(rec, layout, params)`). -/
theorem C15_draw_text_delims_once (o : Orientation) (dp : DParams) (deco : Deco)
    (defsFills : List Str) (S : RTree) (spOf : Path → Option Path) (all : List SubLayout)
    (text : Str) (hok : DecoOK dp deco) (hn : NamesSafe deco)
    (hd : DefsOK (defsText o defsFills))
    (h : renderText o dp deco defsFills S spOf all = .ok text) :
    countOcc beginPicture text = 1 ∧ countOcc endPicture text = 1 := by
  unfold renderText at h
  cases hc : drawCalls o dp deco S spOf all with
  | error e => simp [hc] at h
  | ok calls =>
    simp only [hc, Except.ok.injEq] at h
    subst h
    exact C15_draw_delims_once o dp deco _ S spOf all calls hok hn hd hc

/-- **End to end, for the layout of every valid reconciliation** in a binary species tree, a
    label width other than 0, admissible decorations and safe labels: `layout.compute` returns a
    layout, the drawing code makes its calls without raising, and the assembled text has balanced
    braces and contains `\begin{tikzpicture}` and `\end{tikzpicture}` exactly once each. -/
theorem C15_draw_valid_delims (o : Orientation) (P : Params) (sizes : Key → Size) (dp : DParams)
    (deco : Deco) (defs : Str) (S : RTree) (ot : OTree) (sol : Sol)
    (hv : Spec.validRec ot sol = true) (hin : SR.C13.inTree S sol = true)
    (hb : S.isBinary = true) (hw : dp.labelWidth ≠ some 0) (hok : DecoOK dp deco)
    (hn : NamesSafe deco) (hd : DefsOK defs) :
    ∃ all calls, compute o P sizes S sol = .ok all ∧
      drawCalls o dp deco S (spOfSol sol) all = .ok calls ∧
      isBalanced (assemble defs calls) = true ∧
      countOcc beginPicture (assemble defs calls) = 1 ∧
      countOcc endPicture (assemble defs calls) = 1 := by
  obtain ⟨all, calls, h1, h2, _, _, _, _, _, h8⟩ :=
    C15_draw_valid_all o P sizes dp deco defs S ot sol hv hin hb hw hok hd
  obtain ⟨h9, h10⟩ := C15_draw_delims_once o dp deco defs S (spOfSol sol) all calls hok hn hd h2
  exact ⟨all, calls, h1, h2, h8, h9, h10⟩

/-- The branch labels are labels the layout computes (`_compute_branches`: `leafLabel` for a
    leaf, `internalLabel` for an internal node) from brace-free node names and family names, at
    any wrap width — the property's input space (names over letters, digits, `_`, `\`:
    `C15_alphabet_braceFree`). -/
def LabelsFromLayout (deco : Deco) : Prop :=
  ∀ s k, ∃ (w : Option Nat) (syn par : Option (List Str)) (name : Str),
    braceFree name = true ∧ (∀ fams, syn = some fams → ∀ f ∈ fams, braceFree f = true) ∧
    (leafLabel w syn name = some (deco.name s k) ∨ internalLabel w syn par = some (deco.name s k))

/-- Labels computed by the layout are balanced (`DecoOK.name`) and safe (`NamesSafe`). -/
theorem C15_names_of_labels (deco : Deco) (h : LabelsFromLayout deco) :
    (∀ s k, isBalanced (deco.name s k) = true) ∧ NamesSafe deco := by
  constructor
  · intro s k
    obtain ⟨w, syn, par, name, hn, hs, hl | hl⟩ := h s k
    · exact (C15_labels_balanced w syn par name hn hs _).1 hl
    · exact (C15_labels_balanced w syn par name hn hs _).2 hl
  · intro s k
    obtain ⟨w, syn, par, name, hn, hs, hl | hl⟩ := h s k
    · exact (C15_labels_safe w syn par name hn hs _).1 hl
    · exact (C15_labels_safe w syn par name hn hs _).2 hl

/-- **One picture environment, over the property's input space**: for the layout of every valid
    reconciliation in a binary species tree, drawn with alphanumeric colour codes, brace-free
    species names, a brace-free rounding length, a label width other than 0 and the labels the
    layout computes from brace-free names and families, the text has balanced braces and contains
    each delimiter exactly once. -/
theorem C15_draw_valid_delims_labels (o : Orientation) (P : Params) (sizes : Key → Size)
    (dp : DParams) (deco : Deco) (defs : Str) (S : RTree) (ot : OTree) (sol : Sol)
    (hv : Spec.validRec ot sol = true) (hin : SR.C13.inTree S sol = true)
    (hb : S.isBinary = true) (hw : dp.labelWidth ≠ some 0)
    (hcol : ∀ s k, (deco.color s k).all isAlnum = true)
    (hsp : ∀ s, braceFree (deco.spName s) = true) (hr : braceFree dp.rounding = true)
    (hlab : LabelsFromLayout deco) (hd : DefsOK defs) :
    ∃ all calls, compute o P sizes S sol = .ok all ∧
      drawCalls o dp deco S (spOfSol sol) all = .ok calls ∧
      isBalanced (assemble defs calls) = true ∧
      countOcc beginPicture (assemble defs calls) = 1 ∧
      countOcc endPicture (assemble defs calls) = 1 :=
  C15_draw_valid_delims o P sizes dp deco defs S ot sol hv hin hb hw
    ⟨hcol, (C15_names_of_labels deco hlab).1, hsp, hr⟩ (C15_names_of_labels deco hlab).2 hd

/-! ## The hypothesis on the labels is needed; non-vacuity -/

def exDefsFills : List Str :=
  ["1pt".toList, "1pt".toList, "1pt".toList, "10".toList, "0.5pt".toList, "0.5pt".toList,
   "3".toList, "3".toList, "3".toList, "0.5pt".toList, "8".toList, "8".toList, "8".toList,
   "8".toList, "8".toList, "8".toList, "8".toList]

theorem exDefs_ok : DefsOK (defsText .vertical exDefsFills) :=
  C15_draw_defsOK .vertical exDefsFills (fun _ => by decide +kernel) (fun h => by cases h)

/-- `\end{tikzpicture}` has balanced braces, so it is an admissible label for `C15_balanced`
    (`CallOK`) — but it is not safe, and a speciation node labelled with it yields a text with
    TWO closing delimiters (the opening one still occurs once). -/
theorem C15_delim_label_needed :
    let c : Call := Call.mk 3 Generated.tmpl_stmt_8
      [.color "ff0000".toList, .text "1.5,2".toList, .text endPicture]
    let text := Tikz.render Generated.renderSkeleton Generated.layerNames Generated.colorPrefix
      Generated.joiner (defsText .vertical exDefsFills) [c]
    (3, Generated.tmpl_stmt_8) ∈ Generated.statements ∧
    reqsOK Generated.tmpl_stmt_8.holes c.fills = true ∧ noD endPicture = false ∧
    countOcc beginPicture text = 1 ∧ countOcc endPicture text = 2 := by
  decide +kernel

/-- The example of `C15Draw.lean` (species tree `((A,B),C)`, a speciation, a loss, a transfer,
    label `a\_A`, wrapped species label): hypotheses of `C15_draw_text_delims_once`, and the
    counts evaluated on the 2000+ characters of the text. -/
example : NamesSafe Example.deco := by
  intro s k; simp only [Example.deco]; split <;> decide

example :
    (match renderText .vertical Example.dp Example.deco exDefsFills Example.S
        (spOfSol Example.sol) Example.all with
      | .ok text => countOcc beginPicture text == 1 && countOcc endPicture text == 1
          && decide (2000 < text.length)
      | .error _ => false) = true := by decide +kernel

/-- A leaf name with a subscript and a wrapped synteny label are safe; `countOcc` counts
    overlapping-free occurrences as expected. -/
example :
    leafLabel (some 6) none "E_coli_3".toList = some "E\\_coli\\textsubscript{3}".toList ∧
    noD "E\\_coli\\textsubscript{3}".toList = true ∧
    noD "a\\_1,\\\\b,\\\\c\\_d".toList = true ∧ noD "en{d".toList = false ∧
    noD "{x}".toList = false ∧
    countOcc beginPicture ("x".toList ++ beginPicture ++ "y".toList ++ beginPicture) = 2 := by
  decide

/-- The scan of the templates is not vacuous: the delimiter lines themselves fail it; so does a
    hole entered right after `n{`, and a literal `{t…` right after a hole (the filling may end in
    `n`).  Another environment (`\begin{scope}`) or `\begin` in front of a hole pass. -/
example :
    Template.delimFree Generated.tmpl_line_0 = false ∧
    Template.delimFree Generated.tmpl_line_1 = false ∧
    Template.delimFree [.lit "\\begin{".toList, .hole .label, .lit "}".toList] = false ∧
    Template.delimFree [.hole .label, .lit "{tikzpicture}".toList] = false ∧
    Template.delimFree [.lit "\\begin{scope}".toList, .hole .label, .lit "\\end{scope}".toList] = true ∧
    Template.delimFree [.lit "\\begin".toList, .hole .unit, .lit "}".toList] = true := by
  decide

/-- the example decoration of `C15Draw.lean` consists of labels the layout computes -/
example : LabelsFromLayout Example.deco := by
  intro s k
  simp only [Example.deco]
  split
  · refine ⟨none, some ["a_A".toList], none, [], by decide, ?_, Or.inl (by decide)⟩
    intro fams h f hf
    cases h
    simp only [List.mem_singleton] at hf
    subst hf; decide
  · exact ⟨none, none, none, [], by decide, (by intro f h; cases h), Or.inr (by decide)⟩

/-- names over the alphabet: letters, digits, `_`, `\` -/
example : "tikzpicture_end\\begin".toList.all nameChar = true ∧
    "a{b".toList.all nameChar = false := by decide

end SR.C15
