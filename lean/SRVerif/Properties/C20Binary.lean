/-
  C20 — `DisjointSet.binary()` is exact for ANY iteration order of the set of
  representatives.

  `binary()` calls `_binary(self, list(set(self.find(i) for i in range(n))), None, None)`.
  The model `SR.DS.binary` (and theorem `C20_binary`) fixes the increasing
  order for `list(set(...))`, which is what CPython produces only while the
  representatives are smaller than the set's table size (n ≤ 8).  The theorems
  below remove that dependency: the list handed to `_binary` is an arbitrary
  duplicate-free listing `gs` of the set of representatives, and the
  exactly-once enumeration of the two-block coarsenings holds for every such
  listing.  (Lemmas: `SRVerif/Proofs/DisjointSetBinaryPerm.lean`; the reason is
  that `_binary`'s symmetry breaking `groups[0] < second` / `groups[0] > first`
  keeps, whatever the order, the colouring in which the first element coloured
  `first` is smaller than the first element coloured `second`.)
-/
import SRVerif.Properties.C20
import SRVerif.Proofs.DisjointSetBinaryPerm

namespace SR.C20

open SR SR.DS

/-- `gs` is a possible value of `list(set(d.find(i) for i in range(n)))`: a
    duplicate-free list whose members are exactly the representatives. -/
def RepListing (n : Nat) (d : DS) (gs : List Nat) : Prop :=
  gs.Nodup ∧ ∀ r, r ∈ gs ↔ ∃ i, i < n ∧ (d.find i).2 = r

/-- `binary()` when the set of representatives is iterated in the order `gs`:
    `_binary(partition, gs, None, None)` on the structure left by the finds
    (`SR.DS.binGo` is the model of `_binary`, `allReps` of the finds). -/
def binaryIn (d : DS) (gs : List Nat) : List DS := binGo gs d.allReps.1 none none

theorem C20_binary_listing {n : Nat} {d : DS} {ps : List (Nat × Nat)} (hI : Inv n d ps)
    {gs : List Nat} (h : RepListing n d gs) : Listing d gs := by
  refine ⟨h.1, fun r => (h.2 r).trans ?_⟩
  have hW := hI.wf
  constructor
  · rintro ⟨i, hi, rfl⟩
    exact rep_mem_roots hW (hI.size ▸ hi : i < d.size)
  · intro hr
    exact ⟨r, hI.size ▸ (mem_roots.mp hr).1, rep_of_mem_roots hW hr⟩

/-- **`binary()`, any iteration order.**  After any history (with `ps` the
    united pairs) and for ANY duplicate-free listing `gs` of the set of
    representatives, the members of `binary()` are partitions of the same `n`
    elements that
    * coarsen the current partition and have exactly two blocks;
    * are pairwise different as partitions (no block-swapped duplicate);
    * include every two-block coarsening (every equivalence relation on
      `{0..n-1}` containing the closure of `ps` with exactly two classes);
    * number `2^(k-1) - 1` where `k = groups`.
    `C20_binary` is the instance `gs` = increasing order
    (`C20_binary_model_instance`). -/
theorem C20_binary_any_order (n : Nat) (ops : List Op) (hr : ∀ op, op ∈ ops → op.inRange n)
    (gs : List Nat) (hgs : RepListing n (run n ops) gs) :
    let d := run n ops
    let ps := pairsOf ops
    let res := binaryIn d gs
    (∀ b, b ∈ res → b.size = n ∧ (∀ x y, Conn ps x y → sameClass b x y) ∧
      ∃ u v, u < n ∧ v < n ∧ ¬ sameClass b u v ∧ ∀ x, x < n → sameClass b x u ∨ sameClass b x v) ∧
    res.Pairwise (fun b b' => ∃ x y, x < n ∧ y < n ∧ ¬ (sameClass b x y ↔ sameClass b' x y)) ∧
    (∀ R : Nat → Nat → Prop, (∀ x, x < n → R x x) → (∀ x y, x < n → y < n → R x y → R y x) →
      (∀ x y z, x < n → y < n → z < n → R x y → R y z → R x z) →
      (∀ x y, x < n → y < n → Conn ps x y → R x y) →
      (∃ u v, u < n ∧ v < n ∧ ¬ R u v ∧ ∀ x, x < n → R x u ∨ R x v) →
      ∃ b, b ∈ res ∧ ∀ x y, x < n → y < n → (sameClass b x y ↔ R x y)) ∧
    res.length = 2 ^ (d.groups - 1) - 1 := by
  intro d ps res
  have hI : Inv n d ps := inv_run n ops hr
  have hL : Listing d gs := C20_binary_listing hI hgs
  obtain ⟨h1, h2, h3, h4⟩ := binaryOrd_main hI hL
  have hsc : ∀ b, b ∈ res → ∀ x y, sameClass b x y ↔ Same b x y :=
    fun b hb x y => (same_iff_rep (h1 b hb).1 x y).symm
  refine ⟨?_, ?_, ?_, ?_⟩
  · intro b hb
    obtain ⟨_, hs, hco, u, v, hu, hv, huv, hall⟩ := h1 b hb
    refine ⟨hs, fun x y hc => (hsc b hb x y).mpr (hco x y ((hI.same x y).mpr hc)), u, v, hu, hv, ?_, ?_⟩
    · rw [hsc b hb]; exact huv
    · intro x hx; rw [hsc b hb, hsc b hb]; exact hall x hx
  · refine List.Pairwise.imp_of_mem ?_ h2
    intro b b' hb hb' ⟨x, y, hx, hy, hne⟩
    exact ⟨x, y, hx, hy, by rw [hsc b hb, hsc b' hb']; exact hne⟩
  · intro R hrefl hsymm htrans hco htwo
    obtain ⟨b, hb, hbR⟩ := h3 R hrefl hsymm htrans
      (fun x y hx hy hs => hco x y hx hy ((hI.same x y).mp hs)) htwo
    exact ⟨b, hb, fun x y hx hy => by rw [hsc b hb]; exact hbR x y hx hy⟩
  · show (binaryOrd d gs).length = _
    rw [h4, hI.wf.grp]

/-- Non-vacuity: classes `{0,3} {1} {2} {4}`, representatives iterated in the
    non-monotone order `4, 2, 0, 1`: the seven two-block coarsenings, each once. -/
example : RepListing 5 (run 5 [.unite 0 3]) [4, 2, 0, 1] := by
  refine ⟨by decide, ?_⟩
  have h : ∀ r, r ∈ [4, 2, 0, 1] ↔ r ∈ (List.range 5).map (fun i => ((run 5 [.unite 0 3]).find i).2) := by
    have : (List.range 5).map (fun i => ((run 5 [.unite 0 3]).find i).2) = [0, 1, 2, 0, 4] := by decide
    intro r; rw [this]; simp only [List.mem_cons, List.not_mem_nil, or_false]; omega
  intro r
  rw [h, List.mem_map]
  simp only [List.mem_range]

example : (binaryIn (run 5 [.unite 0 3]) [4, 2, 0, 1]).map (fun b => b.toList.2) =
    [[[0, 1, 2, 3], [4]], [[0, 2, 3], [1, 4]], [[0, 3, 4], [1, 2]], [[0, 1, 3, 4], [2]],
     [[0, 1, 3], [2, 4]], [[0, 3], [1, 2, 4]], [[1], [0, 2, 3, 4]]] := by decide

/-- The model's `binary` (increasing order) is the instance
    `gs = sortedReps`, so `C20_binary` is a special case of
    `C20_binary_any_order`. -/
theorem C20_binary_model_instance (n : Nat) (ops : List Op) (hr : ∀ op, op ∈ ops → op.inRange n) :
    let d := run n ops
    d.binary = binaryIn d d.sortedReps.2 ∧ RepListing n d d.sortedReps.2 := by
  intro d
  have hI : Inv n d (pairsOf ops) := inv_run n ops hr
  have hW := hI.wf
  refine ⟨rfl, (sortedReps_listing hW).1, fun r => ?_⟩
  rw [(sortedReps_eq hW).2.2]
  constructor
  · intro h
    exact ⟨r, hI.size ▸ (mem_roots.mp h).1, rep_of_mem_roots hW h⟩
  · rintro ⟨i, hi, rfl⟩
    exact rep_mem_roots hW (hI.size ▸ hi : i < d.size)

/-- **The result of `binary()` does not depend on the iteration order**, as a
    set of partitions: for two listings of the representatives, every
    partition obtained with one is obtained (exactly once, by
    `C20_binary_any_order`) with the other. -/
theorem C20_binary_order_free (n : Nat) (ops : List Op) (hr : ∀ op, op ∈ ops → op.inRange n)
    (gs gs' : List Nat) (hgs : RepListing n (run n ops) gs) (hgs' : RepListing n (run n ops) gs') :
    ∀ b, b ∈ binaryIn (run n ops) gs → ∃ b', b' ∈ binaryIn (run n ops) gs' ∧
      ∀ x y, x < n → y < n → (sameClass b' x y ↔ sameClass b x y) := by
  intro b hb
  have hI : Inv n (run n ops) (pairsOf ops) := inv_run n ops hr
  obtain ⟨hW, hsize, _, _⟩ := (binaryOrd_main hI (C20_binary_listing hI hgs)).1 b hb
  obtain ⟨h1, _, _, _⟩ := C20_binary_any_order n ops hr gs hgs
  obtain ⟨_, _, h3', _⟩ := C20_binary_any_order n ops hr gs' hgs'
  obtain ⟨_, hco, htwo⟩ := h1 b hb
  apply h3' (fun x y => sameClass b x y)
  · intro x _; rfl
  · intro x y _ _ h; exact h.symm
  · intro x y z _ _ _ h h'; exact h.trans h'
  · intro x y _ _ h; exact hco x y h
  · exact htwo

example : ((binaryIn (run 5 [.unite 0 3]) [1, 0, 4, 2]).map (fun b => b.toList.2)).length = 7 := by decide

end SR.C20
