/-
  C10, clause "the general DTL optimum never exceeds the LCA reconciliation cost,
  with equality when transfers are forbidden" — corollaries of C01 (`thl` returns
  exactly the optimal valid reconciliations) and C07 (the LCA reconciliation is
  valid, and optimal / unique when `hgt = ∞`).

  Guards (those of C01): `S` binary, leaf species are nodes of `S`, and
  `spe ≤ dup + 2·floss` (implied by the coherent region
  `spe + 2·sloss ≤ dup + 2·floss` of the property; `C10_thl_le_lca_coherent`).
  The unguarded `C10_statement` of `C10.lean` is FALSE (`C10_statement_false`:
  the ternary star of `C01_thl_wf_needed`); the guarded clauses are proved here
  (`thl`) and in `C10Ext.lean` (extended ≤ base), `C10Single.lean` (single family).

  (`Properties/C07.lean` cannot be imported next to `C02Dp`/`C03Dp` — `SR.lcaSol_sp_isNode`
  is declared both in `Proofs/LcaMapNodes.lean` and in `Proofs/LabelDPOrdRoot.lean` — so
  `C07_opt` / `C07_unique_plain` are re-derived in `Proofs/C10Lca.lean` from the same
  lemmas of `Proofs/LcaMapOpt.lean`.)
-/
import SRVerif.Properties.C01Thl
import SRVerif.Proofs.C10Lca
import SRVerif.Properties.C10

namespace SR.C10

open SR Cost

theorem lcaSol_mem_allMappings_wf (S : RTree) (o : OTree)
    (hS : ∀ p ∈ leafSpecies o, S.isNode p = true) : lcaSol o ∈ Spec.allMappings S o := by
  have hgen := (mem_generateAll o (lcaSol o)).mp (lcaSol_mem_generateAll o)
  exact mem_allMappings_of_valid S o (lcaSol o) hS hgen.1 hgen.2

variable (c : Costs) (S : RTree) (o : OTree)

/-- **thl ≤ lca.**  On a well-formed input, for `spe ≤ dup + 2·floss`, every solution
    returned by `reconcile_thl` costs (under the evaluator) at most the LCA
    reconciliation. -/
theorem C10_thl_le_lca (hb : S.isBinary = true) (hS : ∀ p ∈ leafSpecies o, S.isNode p = true)
    (hcoh : c.spe ≤ c.dup + 2 * c.floss) :
    ∀ a ∈ thl c S o, Cost.le (totalCost c .plain o a) (recCost c o (lcaSol o)) = true := by
  intro a ha
  have h := (C01.C01_thl c S o hb hS hcoh a ha).2 (lcaSol o) (lcaSol_validRec o)
    (lcaSol_mem_allMappings_wf S o hS)
  rwa [totalCost_plain_eq_recCost c o (lcaSol o)] at h

/-- The same inside the property's coherent region `spe + 2·sloss ≤ dup + 2·floss`
    (the fourth conjunct of `C10_statement`, with the well-formedness guards). -/
theorem C10_thl_le_lca_coherent (hb : S.isBinary = true)
    (hS : ∀ p ∈ leafSpecies o, S.isNode p = true)
    (hcoh : c.spe + 2 * c.sloss ≤ c.dup + 2 * c.floss) :
    ∀ a ∈ thl c S o, Cost.le (totalCost c .plain o a) (recCost c o (lcaSol o)) = true :=
  C10_thl_le_lca c S o hb hS (by omega)

/-- **Equality when transfers are forbidden**: with `hgt = ∞` every solution returned
    by `thl` costs exactly the LCA reconciliation cost (and `thl` returns something:
    `C01_thl_total`). -/
theorem C10_thl_eq_lca_inf (hb : S.isBinary = true) (hS : ∀ p ∈ leafSpecies o, S.isNode p = true)
    (hcoh : c.spe ≤ c.dup + 2 * c.floss) (hh : c.hgt = .inf) :
    thl c S o ≠ [] ∧
    ∀ a ∈ thl c S o, totalCost c .plain o a = recCost c o (lcaSol o) := by
  refine ⟨C01.C01_thl_total c S o hb hS, fun a ha => ?_⟩
  apply Cost.le_antisymm (C10_thl_le_lca c S o hb hS hcoh a ha)
  rw [totalCost_plain_eq_recCost]
  exact lcaSol_opt_inf c hh hcoh o a (C01.C01_thl c S o hb hS hcoh a ha).1

theorem eq_singleton_of_nodup {β : Type} {l : List β} {x : β} (hne : l ≠ []) (hnd : l.Nodup)
    (h : ∀ a ∈ l, a = x) : l = [x] := by
  match l, hne, hnd, h with
  | [a], _, _, h => rw [h a (by simp)]
  | a :: b :: rest, _, hnd, h =>
    exfalso
    have e1 := h a (by simp)
    have e2 := h b (by simp)
    rw [List.nodup_cons] at hnd
    exact hnd.1 (by rw [e1, ← e2]; simp)

/-- With `hgt = ∞` and a positive loss cost, `thl` returns exactly the LCA
    reconciliation (C07 uniqueness + C01 completeness). -/
theorem C10_thl_eq_lca_inf_unique (hb : S.isBinary = true)
    (hS : ∀ p ∈ leafSpecies o, S.isNode p = true)
    (hcoh : c.spe ≤ c.dup + 2 * c.floss) (hh : c.hgt = .inf) (hf : 0 < c.floss) :
    thl c S o = [lcaSol o] := by
  obtain ⟨hne, heq⟩ := C10_thl_eq_lca_inf c S o hb hS hcoh hh
  refine eq_singleton_of_nodup hne (C01.C01_thl_all c S o hb hS hcoh).2 (fun a ha => ?_)
  obtain ⟨_, hm, _⟩ := C01.C01_thl_finite c S o a ha
  have hv := (C01.C01_thl c S o hb hS hcoh a ha).1
  have he := heq a ha
  rw [totalCost_plain_eq_recCost] at he
  exact lcaSol_unique_inf c hh hcoh hf o a hv (famsMatch_of_mem_allMappings S o a hm) he

/-- `C10_statement` as written in `C10.lean` (no well-formedness guard) is false:
    over the ternary star (not a binary species tree) `thl` returns cost 3 while the
    LCA reconciliation costs 2, inside the coherent region. -/
theorem C10_statement_false : ¬ C10_statement := by
  intro h
  have h4 := (h { spe := 0, dup := 0, hgt := .fin 3, floss := 2, sloss := 1 }
    (.node [.node [], .node [], .node []])
    (.node (.node (.leaf [0] []) (.leaf [2] [])) (.leaf [1] [])) (by decide)).2.2.2
  revert h4
  decide +kernel

/-! ### Non-vacuity -/

/-- Finite transfer cost: `thl` is strictly cheaper than LCA on a well-formed coherent input. -/
example :
    let c : Costs := { spe := 0, dup := 5, hgt := .fin 1, floss := 5, sloss := 1 }
    let S : RTree := .node [.node [.node [], .node []], .node []]
    let o : OTree := .node (.node (.leaf [0, 0] []) (.leaf [1] [])) (.leaf [0, 1] [])
    S.isBinary = true ∧ (∀ p ∈ leafSpecies o, S.isNode p = true) ∧
    c.spe + 2 * c.sloss ≤ c.dup + 2 * c.floss ∧
    (thl c S o).map (totalCost c .plain o) = [.fin 1] ∧
    recCost c o (lcaSol o) = .fin 20 := by
  decide +kernel

/-- Infinite transfer cost, positive loss cost: `thl` returns exactly the LCA reconciliation. -/
example :
    let c : Costs := { spe := 0, dup := 2, hgt := .inf, floss := 3, sloss := 1 }
    let S : RTree := .node [.node [.node [], .node []], .node []]
    let o : OTree := .node (.node (.leaf [0, 0] []) (.leaf [1] [])) (.leaf [0, 1] [])
    S.isBinary = true ∧ (∀ p ∈ leafSpecies o, S.isNode p = true) ∧
    c.spe ≤ c.dup + 2 * c.floss ∧ c.hgt = .inf ∧ 0 < c.floss ∧
    thl c S o = [lcaSol o] ∧ recCost c o (lcaSol o) = .fin 11 := by
  decide +kernel

end SR.C10
