/-
  C19 (extension) — `find_cycle` (`superrec2/utils/toposort.py:116-150`),
  and the link "acyclic ↔ toposort succeeds ↔ toposort_all is non-empty".

  Model: `SRVerif/Model/FindCycle.lean` (the code as it exists).
  Specification vocabulary: `SRVerif/Spec/FindCycle.lean` (`Arc`, `Chain`,
  `IsCycle` = closed walk, `Acyclic`, `WalkTo`, `UniqueWalks`).

  OBSERVATION (outside the scope of the listed property, whose anchors stop
  at `toposort_all`).  The natural claim "`find_cycle g` is `None` iff `g` is
  acyclic, and otherwise returns a directed cycle" is FALSE for the code:
  `C19_find_cycle_not_sound` (a DAG is flagged), `C19_find_cycle_not_complete`
  (a cycle not reachable from the first key is missed),
  `C19_find_cycle_not_a_cycle` (on a cyclic graph a list that is no closed
  walk is returned).  What IS true, for every well-formed graph:

  * `None` is returned iff every vertex has at most one walk from the FIRST
    key (`C19_find_cycle_none_iff`) — the search starts only there, and it
    flags any second arrival at a vertex, whether or not it closes a cycle;
  * a returned list is non-empty, duplicate-free, made of vertices
    reachable from the first key, in REVERSE edge order: for consecutive
    `a, b` there is an edge `b → a` (`C19_find_cycle_shape`);
  * it is a genuine cycle (read backwards) iff moreover its first vertex has
    an edge to its last (`C19_find_cycle_genuine`), and then the graph is
    cyclic, `toposort` returns `None` and `toposort_all` `[]`;
  * if `None` is returned, no cycle passes through a vertex reachable from
    the first key (`C19_find_cycle_none_reachable`).

  Fuel: both loops run with `g.length + 1` units and
  `C19_find_cycle_total` shows that no error other than `StopIteration` on
  the empty graph is ever produced.
-/
import SRVerif.Proofs.FindCycleReach
import SRVerif.Properties.C19

namespace SR.C19

open SR.Toposort

/-! ### Acyclicity and the two sorting routines -/

/-- A well-formed graph has a topological ordering iff it has no closed
    walk (self-loops included). -/
theorem C19_acyclic_iff_topo (g : Graph) (hwf : WF g) : Acyclic g ↔ ∃ o, IsTopo g o :=
  acyclic_iff_topo hwf

/-- `toposort` returns an ordering iff the graph is acyclic. -/
theorem C19_acyclic_iff_toposort (g : Graph) (hwf : WF g) :
    Acyclic g ↔ ∃ o, toposort g = .ok (some o) := by
  obtain ⟨r, hr⟩ := (C19_total g hwf).2
  obtain ⟨h1, h2⟩ := C19_one g hwf r hr
  rw [acyclic_iff_topo hwf]
  constructor
  · intro ht
    cases r with
    | none => exact absurd ht (h2.1 rfl)
    | some o => exact ⟨o, hr⟩
  · rintro ⟨o, ho⟩
    rw [hr] at ho
    cases ho
    exact ⟨o, h1 o rfl⟩

/-- `toposort` returns `None` iff the graph has a closed walk. -/
theorem C19_cyclic_iff_toposort_none (g : Graph) (hwf : WF g) :
    (∃ c, IsCycle g c) ↔ toposort g = .ok none := by
  obtain ⟨r, hr⟩ := (C19_total g hwf).2
  have h2 := (C19_one g hwf r hr).2
  rw [← acyclic_iff_topo hwf] at h2
  constructor
  · rintro ⟨c, hc⟩
    rw [hr, h2.2 (fun ha => ha c hc)]
  · intro hn
    rw [hr] at hn
    cases hn
    have := h2.1 rfl
    simpa [Acyclic] using this

/-- `toposort_all` returns a non-empty list iff the graph is acyclic. -/
theorem C19_acyclic_iff_toposort_all (g : Graph) (hwf : WF g) :
    Acyclic g ↔ ∃ os, toposortAll g = .ok os ∧ os ≠ [] := by
  obtain ⟨os, hos⟩ := (C19_total g hwf).1
  rw [acyclic_iff_topo hwf]
  constructor
  · rintro ⟨o, ht⟩
    refine ⟨os, hos, ?_⟩
    intro e
    have := C19_all_complete g hwf os hos o ht
    rw [e] at this
    simp at this
  · rintro ⟨os', hos', hne⟩
    rw [hos] at hos'
    cases hos'
    cases os with
    | nil => exact absurd rfl hne
    | cons o _ => exact ⟨o, C19_all_sound g hwf _ hos o (by simp)⟩

/-- `toposort_all` returns `[]` iff the graph has a closed walk. -/
theorem C19_cyclic_iff_toposort_all_nil (g : Graph) (hwf : WF g) :
    (∃ c, IsCycle g c) ↔ toposortAll g = .ok [] := by
  have h := C19_acyclic_iff_toposort_all g hwf
  obtain ⟨os, hos⟩ := (C19_total g hwf).1
  constructor
  · rintro ⟨c, hc⟩
    cases os with
    | nil => exact hos
    | cons o t => exact absurd (h.2 ⟨_, hos, by simp⟩ c hc) id
  · intro hn
    by_contra hno
    have ha : Acyclic g := fun c hc => hno ⟨c, hc⟩
    obtain ⟨os', hos', hne⟩ := h.1 ha
    rw [hn] at hos'
    cases hos'
    exact hne rfl

/-! ### `find_cycle`: what holds -/

/-- On a well-formed graph `find_cycle` raises exactly when the graph is
    empty (`StopIteration` from `next(iter(graph.keys()))`); in particular
    the fuel of both loops suffices and no `KeyError` occurs. -/
theorem C19_find_cycle_total (g : Graph) (hwf : WF g) :
    (g = [] → findCycle g = .error .stopIteration) ∧ (g ≠ [] → ∃ r, findCycle g = .ok r) := by
  refine ⟨fun h => h ▸ rfl, fun hne => ?_⟩
  cases g with
  | nil => exact absurd rfl hne
  | cons p rest =>
    obtain ⟨i, ss⟩ := p
    obtain ⟨r, hr, _⟩ := findCycle_spec hwf (i := i) (ss := ss) (rest := rest) rfl
    exact ⟨r, hr⟩

/-- **Meaning of `None`.**  With `i` the first key: `find_cycle` returns
    `None` iff every vertex is reached from `i` by at most one walk, i.e. the
    part of the graph reachable from `i` is an out-tree. -/
theorem C19_find_cycle_none_iff (i : Nat) (ss : List Nat) (rest : Graph)
    (hwf : WF ((i, ss) :: rest)) :
    findCycle ((i, ss) :: rest) = .ok none ↔ UniqueWalks ((i, ss) :: rest) i := by
  obtain ⟨r, hr, hiff, _⟩ := findCycle_spec hwf (i := i) (ss := ss) (rest := rest) rfl
  rw [hr]
  constructor
  · intro h; cases h; exact hiff.1 rfl
  · intro h; rw [hiff.2 h]

/-- **Shape of a returned list** (`i` = first key): non-empty, without
    repetition, vertices of the graph reachable from `i`, and for consecutive
    elements `a, b` the graph has the edge `b → a` (reverse edge order). -/
theorem C19_find_cycle_shape (i : Nat) (ss : List Nat) (rest : Graph)
    (hwf : WF ((i, ss) :: rest)) (cyc : List Nat)
    (h : findCycle ((i, ss) :: rest) = .ok (some cyc)) :
    cyc ≠ [] ∧ cyc.Nodup ∧ Chain (fun a b => Arc ((i, ss) :: rest) b a) cyc ∧
      ∀ v ∈ cyc, v ∈ keys ((i, ss) :: rest) ∧ ∃ w, WalkTo ((i, ss) :: rest) i v w := by
  obtain ⟨r, hr, _, hs⟩ := findCycle_spec hwf (i := i) (ss := ss) (rest := rest) rfl
  rw [hr] at h
  cases h
  have := hs cyc rfl
  exact ⟨this.ne, this.nodup, this.chain, fun v hv => ⟨this.keys v hv, this.reach v hv⟩⟩

/-- **Sufficient (and necessary) condition for a genuine cycle.**  The
    returned list read backwards is a closed walk of the graph iff its first
    vertex has an edge to its last vertex; in that case the graph is cyclic,
    `toposort` returns `None` and `toposort_all` returns `[]`. -/
theorem C19_find_cycle_genuine (g : Graph) (hwf : WF g) (a : Nat) (l : List Nat)
    (h : findCycle g = .ok (some (a :: l))) :
    (IsCycle g (a :: l).reverse ↔ Arc g a ((a :: l).getLast (by simp))) ∧
    (IsCycle g (a :: l).reverse →
      ¬ Acyclic g ∧ toposort g = .ok none ∧ toposortAll g = .ok []) := by
  cases g with
  | nil => simp [findCycle] at h
  | cons p rest =>
    obtain ⟨i, ss⟩ := p
    have hsh := C19_find_cycle_shape i ss rest hwf _ h
    refine ⟨⟨closed_of_isCycle_reverse, isCycle_reverse_of_closed hsh.2.2.1⟩, fun hc => ?_⟩
    exact ⟨fun ha => ha _ hc, (C19_cyclic_iff_toposort_none _ hwf).1 ⟨_, hc⟩,
      (C19_cyclic_iff_toposort_all_nil _ hwf).1 ⟨_, hc⟩⟩

/-- If `None` is returned, no closed walk passes through a vertex reachable
    from the first key. -/
theorem C19_find_cycle_none_reachable (i : Nat) (ss : List Nat) (rest : Graph)
    (hwf : WF ((i, ss) :: rest)) (h : findCycle ((i, ss) :: rest) = .ok none)
    (c : List Nat) (hc : IsCycle ((i, ss) :: rest) c) :
    ∀ v ∈ c, ¬ ∃ w, WalkTo ((i, ss) :: rest) i v w := by
  rintro v hv ⟨w, hw⟩
  exact no_reachable_cycle ((C19_find_cycle_none_iff i ss rest hwf).1 h) hc hv hw

/-- The only caller (`_spfs`, after `toposort_all` returned `[]`, prints
    "Family cycle detected: …" iff `find_cycle` returns a list).  In that
    situation the graph does have a closed walk, and: either the warning is
    NOT printed, and then every closed walk avoids all vertices reachable from
    the first key; or it is printed, naming distinct vertices reachable from
    the first key that form a reverse-order path — a genuine cycle iff the
    closing edge exists (`C19_find_cycle_genuine`). -/
theorem C19_find_cycle_caller (i : Nat) (ss : List Nat) (rest : Graph)
    (hwf : WF ((i, ss) :: rest)) (hall : toposortAll ((i, ss) :: rest) = .ok []) :
    (∃ c, IsCycle ((i, ss) :: rest) c) ∧
    ∃ r, findCycle ((i, ss) :: rest) = .ok r ∧
      (r = none → ∀ c, IsCycle ((i, ss) :: rest) c →
        ∀ v ∈ c, ¬ ∃ w, WalkTo ((i, ss) :: rest) i v w) ∧
      (∀ cyc, r = some cyc → cyc ≠ [] ∧ cyc.Nodup ∧
        Chain (fun a b => Arc ((i, ss) :: rest) b a) cyc ∧
        ¬ UniqueWalks ((i, ss) :: rest) i) := by
  refine ⟨(C19_cyclic_iff_toposort_all_nil _ hwf).2 hall, ?_⟩
  obtain ⟨r, hr⟩ := (C19_find_cycle_total _ hwf).2 (by simp)
  refine ⟨r, hr, ?_, ?_⟩
  · intro hn c hc
    subst hn
    exact C19_find_cycle_none_reachable i ss rest hwf hr c hc
  · intro cyc hcyc
    subst hcyc
    have hsh := C19_find_cycle_shape i ss rest hwf cyc hr
    refine ⟨hsh.1, hsh.2.1, hsh.2.2.1, fun hu => ?_⟩
    have := (C19_find_cycle_none_iff i ss rest hwf).2 hu
    rw [hr] at this
    cases this

/-! ### `find_cycle`: what does NOT hold (kernel-checked witnesses) -/

/-- A diamond-shaped DAG. -/
def gDiamond : Graph := [(0, [1, 2]), (1, [3]), (2, [3]), (3, [])]
/-- A self-loop that is not reachable from the first key. -/
def gMissed : Graph := [(0, []), (1, [1])]
/-- A 2-cycle `0 ⇄ 2` plus the edges `0 → 1`, `2 → 1`. -/
def gOpen : Graph := [(0, [1, 2]), (1, []), (2, [1, 0])]

/-- NOT SOUND: a well-formed acyclic graph (it has a topological ordering,
    `toposort` succeeds) on which `find_cycle` returns a "cycle". -/
theorem C19_find_cycle_not_sound :
    WF gDiamond ∧ Acyclic gDiamond ∧ toposort gDiamond = .ok (some [0, 1, 2, 3]) ∧
    findCycle gDiamond = .ok (some [3, 1]) := by
  refine ⟨by decide, isTopo_acyclic (o := [0, 1, 2, 3]) (by decide), by decide, by decide⟩

/-- NOT COMPLETE: a well-formed graph with a closed walk (`toposort` returns
    `None`) on which `find_cycle` returns `None`. -/
theorem C19_find_cycle_not_complete :
    WF gMissed ∧ IsCycle gMissed [1] ∧ toposort gMissed = .ok none ∧
    findCycle gMissed = .ok none := by
  decide

/-- NOT A CYCLE: on a well-formed cyclic graph the returned list is a closed
    walk in neither reading direction (vertex 1 has no successor). -/
theorem C19_find_cycle_not_a_cycle :
    WF gOpen ∧ IsCycle gOpen [0, 2] ∧ findCycle gOpen = .ok (some [1, 2]) ∧
    ¬ IsCycle gOpen [1, 2] ∧ ¬ IsCycle gOpen [2, 1] := by
  decide

/-- Hence the claim "`None` iff acyclic" fails in both directions. -/
theorem C19_find_cycle_none_iff_acyclic_false :
    ¬ (∀ g : Graph, WF g → g ≠ [] → (findCycle g = .ok none → Acyclic g)) ∧
    ¬ (∀ g : Graph, WF g → g ≠ [] → (Acyclic g → findCycle g = .ok none)) := by
  constructor
  · intro h
    exact h gMissed (by decide) (by decide) (by decide) [1] (by decide)
  · intro h
    have := h gDiamond (by decide) (by decide) C19_find_cycle_not_sound.2.1
    exact absurd this (by decide)

/-! ### Non-vacuity and the list convention -/

/-- self-loop: `[v]` -/
example : findCycle [(0, [0])] = .ok (some [0]) ∧ IsCycle [(0, [0])] [0] := by decide
/-- 2-cycle `0 → 1 → 0`: `[0, 1]` -/
example : findCycle [(0, [1]), (1, [0])] = .ok (some [0, 1]) := by decide
/-- 3-cycle `0 → 1 → 2 → 0` is returned as `[0, 2, 1]`: reverse edge order;
    read backwards, `[1, 2, 0]`, it is the closed walk `1 → 2 → 0 → 1`. -/
example : findCycle [(0, [1]), (1, [2]), (2, [0])] = .ok (some [0, 2, 1]) ∧
    IsCycle [(0, [1]), (1, [2]), (2, [0])] [1, 2, 0] ∧
    ¬ IsCycle [(0, [1]), (1, [2]), (2, [0])] [0, 2, 1] := by decide
/-- a cycle with a tail `0 → 1 → 2 → 1` -/
example : findCycle [(0, [1]), (1, [2]), (2, [1])] = .ok (some [1, 2]) ∧
    Arc [(0, [1]), (1, [2]), (2, [1])] 1 2 := by decide
/-- an out-tree: `None`, and walks are unique -/
example : findCycle [(0, [1, 2]), (1, [3]), (2, []), (3, [])] = .ok none := by decide
example : WF [(0, [1, 2]), (1, [3]), (2, []), (3, [])] := by decide
/-- the graph of the repository's own test is acyclic -/
example : Acyclic g6 := isTopo_acyclic (o := [4, 5, 0, 2, 3, 1]) (by decide)
/-- empty graph; successor that is not a key -/
example : findCycle [] = .error .stopIteration := by decide
example : findCycle [(0, [5])] = .error .keyError := by decide

end SR.C19
