/-
  C14 — (a) the geometric clauses of `Properties/C14.lean` with the hypothesis
  `compute … = .ok all` DISCHARGED: for a valid reconciliation on a binary
  species tree `layout.compute` succeeds (`C14_compute_ok`), so the clauses hold
  of "the" layout (`C14_geometry`); (b) the branches of a species lie inside
  the species' box and its anchors on its trunk (`C14_branches_inside`): for
  every species layout `lay` of the output and every branch `fb` of it,

  * `fb.rect` lies inside `lay.rect`; more precisely, across it lies inside the
    trunk with `species_branch_padding` on both sides, and along the sequence
    axis it starts at least `trunk_overhead` after the start of the trunk;
  * `fb.rect` has positive extents and contains the four anchor points of `fb`;
  * every anchor of `lay` lies on the first edge of the trunk (the edge where
    the trunk starts along the sequence axis), `species_branch_padding` away
    from both ends — in particular it is a point of `lay.trunk`.

  Proofs: `SRVerif/Proofs/LayoutAnchorsInside.lean` (VERTICAL path; the
  HORIZONTAL statement is obtained through the mirror theorem).
-/
import SRVerif.Properties.C14Anchors
import SRVerif.Proofs.LayoutAnchorsInside

namespace SR.C14

open SR SR.Layout

/-! ## (a) The geometric clauses, for "the" layout of a valid reconciliation -/

/-- All geometric clauses of C14 at once, with existence of the layout: for a
    valid reconciliation on a binary species tree and numeric parameters as in
    `NumHyps`, `layout.compute` returns a list `all` with one entry per species
    (pre-order), and on it: sibling boxes are separated by `min_subtree_spacing`
    and nested in the parent's box; every trunk lies in its box, flush with its
    start; trunks end `level_spacing + fork` before the boxes of descendants;
    trunks of distinct species are separated. -/
theorem C14_geometry (o : Orientation) (P : Params) (sizes : Key → Size) (S : RTree) (ot : OTree)
    (sol : Sol) (hn : NumHyps P sizes) (hv : Spec.validRec ot sol = true)
    (hin : SR.C13.inTree S sol = true) (hbin : S.isBinary = true) :
    ∃ all, compute o P sizes S sol = .ok all ∧ all.map (·.sp) = S.preorder ∧
      (∀ a b, a ∈ all → b ∈ all → a.sp = b.sp → a = b) ∧
      (∀ par l r, par ∈ all → l ∈ all → r ∈ all → l.sp = par.sp ++ [0] → r.sp = par.sp ++ [1] →
        acrossSep o P.minsp l.rect r.rect ∧
        (¬ ∃ x y, hasPoint l.rect x y ∧ hasPoint r.rect x y) ∧
        inside l.rect par.rect ∧ inside r.rect par.rect) ∧
      (∀ a, a ∈ all → inside a.trunk a.rect ∧ seqFlush o a.trunk a.rect) ∧
      (∀ par d k q, par ∈ all → d ∈ all → d.sp = par.sp ++ k :: q →
        seqSep o (P.level + par.fork) par.trunk d.rect) ∧
      (∀ a b, a ∈ all → b ∈ all → a.sp ≠ b.sp → separated a.trunk b.trunk) := by
  obtain ⟨all, h⟩ := C14_compute_ok o P sizes S ot sol hv hin hbin
  obtain ⟨hpos, hpad, hgsp, hov, hlev, hmin⟩ := hn
  have hn : NumHyps P sizes := ⟨hpos, hpad, hgsp, hov, hlev, hmin⟩
  refine ⟨all, h, C14_species o P sizes S sol all h, C14_species_unique o P sizes S sol all hn h,
    C14_siblings o P sizes S sol all hpos hpad hgsp hov hlev hmin h, ?_,
    C14_trunk_above_children o P sizes S sol all hn h, ?_⟩
  · intro a ha
    obtain ⟨h1, h2, _⟩ := C14_trunk_inside o P sizes S sol all hn h a ha
    exact ⟨h1, h2⟩
  · intro a b ha hb hab
    exact (C14_trunks o P sizes S sol all hpos hpad hgsp hov hlev hmin h a b ha hb hab).1

/-- `C14_species_unique` without the numeric hypotheses: equal `sp` means same
    entry, because the list of species is the duplicate-free pre-order. -/
theorem C14_species_unique_any (o : Orientation) (P : Params) (sizes : Key → Size) (S : RTree)
    (sol : Sol) (all : List SubLayout) (h : compute o P sizes S sol = .ok all) :
    ∀ a b, a ∈ all → b ∈ all → a.sp = b.sp → a = b := by
  have hnd : (all.map (·.sp)).Nodup := by
    rw [C14_species o P sizes S sol all h]; exact RTree.nodup_preorder S
  clear h
  induction all with
  | nil => intro a b ha; cases ha
  | cons x rest ih =>
    simp only [List.map_cons, List.nodup_cons, List.mem_map, not_exists, not_and] at hnd
    intro a b ha hb hab
    rcases List.mem_cons.1 ha with ea | ha' <;> rcases List.mem_cons.1 hb with eb | hb'
    · rw [ea, eb]
    · rw [ea] at hab; exact absurd hab.symm (hnd.1 b hb')
    · rw [eb] at hab; exact absurd hab (hnd.1 a ha')
    · exact ih hnd.2 a b ha' hb' hab

/-! ## (b) Branches inside the species' box, anchors on the trunk -/

/-- `a` lies, along the ACROSS axis, inside the extent of `b`, at least `m`
    away from both ends. -/
def acrossWithin (o : Orientation) (m : Rat) (a b : Rect) : Prop :=
  match o with
  | .vertical => b.x + m ≤ a.x ∧ a.x + a.w + m ≤ b.x + b.w
  | .horizontal => b.y + m ≤ a.y ∧ a.y + a.h + m ≤ b.y + b.h

/-- `a` starts, along the SEQUENCE axis, at least `m` after `b` starts. -/
def seqAfter (o : Orientation) (m : Rat) (a b : Rect) : Prop :=
  match o with
  | .vertical => b.y + m ≤ a.y
  | .horizontal => b.x + m ≤ a.x

/-- `p` lies on the edge of `t` where `t` starts along the sequence axis, at
    least `m` away from both ends of that edge. -/
def onFirstEdge (o : Orientation) (m : Rat) (p : Pos) (t : Rect) : Prop :=
  match o with
  | .vertical => p.y = t.y ∧ t.x + m ≤ p.x ∧ p.x + m ≤ t.x + t.w
  | .horizontal => p.x = t.x ∧ t.y + m ≤ p.y ∧ p.y + m ≤ t.y + t.h

/-- What (b) says about one species layout. -/
def BranchGeom (o : Orientation) (P : Params) (lay : SubLayout) : Prop :=
  (∀ fb ∈ lay.branches,
    inside fb.rect lay.rect ∧ acrossWithin o P.pad fb.rect lay.trunk ∧
    seqAfter o P.overhead fb.rect lay.trunk ∧ 0 < fb.rect.w ∧ 0 < fb.rect.h ∧
    hasPoint fb.rect fb.aParent.x fb.aParent.y ∧ hasPoint fb.rect fb.aLeft.x fb.aLeft.y ∧
    hasPoint fb.rect fb.aRight.x fb.aRight.y ∧ hasPoint fb.rect fb.aChild.x fb.aChild.y) ∧
  (∀ e ∈ lay.anchors, onFirstEdge o P.pad e.2 lay.trunk ∧ hasPoint lay.trunk e.2.x e.2.y)

theorem branchGeom_V {P : Params} {sl : SubLayout} (hI : InsideV P sl) (hpad : 0 ≤ P.pad)
    (hov : 0 ≤ P.overhead)
    (htr : sl.rect.x ≤ sl.trunk.x ∧ sl.trunk.x + sl.trunk.w ≤ sl.rect.x + sl.rect.w ∧
      sl.trunk.y = sl.rect.y ∧ sl.trunk.y + sl.trunk.h ≤ sl.rect.y + sl.rect.h)
    (hth : 0 ≤ sl.trunk.h) : BranchGeom .vertical P sl := by
  obtain ⟨t1, t2, t3, t4⟩ := htr
  refine ⟨?_, ?_⟩
  · intro fb hfb
    have a1 := hI.left fb hfb
    have a2 := hI.right fb hfb
    have a3 := hI.top fb hfb
    have a4 := hI.bottom fb hfb
    obtain ⟨pw, ph, q1, q2, q3, q4⟩ := hI.pts fb hfb
    refine ⟨⟨by linarith, by linarith, by linarith, a4⟩, ⟨a1, a2⟩, a3, pw, ph, q1, q2, q3, q4⟩
  · intro e he
    obtain ⟨b1, b2, b3⟩ := hI.anchors e he
    exact ⟨⟨b1, b2, b3⟩, by linarith, by linarith, by linarith, by linarith⟩

theorem branchGeom_H {P : Params} {sl : SubLayout} (hI : InsideV P sl) (hpad : 0 ≤ P.pad)
    (hov : 0 ≤ P.overhead)
    (htr : sl.rect.x ≤ sl.trunk.x ∧ sl.trunk.x + sl.trunk.w ≤ sl.rect.x + sl.rect.w ∧
      sl.trunk.y = sl.rect.y ∧ sl.trunk.y + sl.trunk.h ≤ sl.rect.y + sl.rect.h)
    (hth : 0 ≤ sl.trunk.h) : BranchGeom .horizontal P sl.tr := by
  obtain ⟨t1, t2, t3, t4⟩ := htr
  refine ⟨?_, ?_⟩
  · intro fb hfb
    simp only [SubLayout.tr, List.mem_map] at hfb
    obtain ⟨fb0, hfb0, rfl⟩ := hfb
    have a1 := hI.left fb0 hfb0
    have a2 := hI.right fb0 hfb0
    have a3 := hI.top fb0 hfb0
    have a4 := hI.bottom fb0 hfb0
    obtain ⟨pw, ph, ⟨c1, c2, c3, c4⟩, ⟨d1, d2, d3, d4⟩, ⟨e1, e2, e3, e4⟩, ⟨f1, f2, f3, f4⟩⟩ :=
      hI.pts fb0 hfb0
    simp only [SubLayout.tr, FBranch.tr, Rect.tr, Pos.tr, inside, acrossWithin, seqAfter, hasPoint]
    refine ⟨⟨by linarith, by linarith, a4, by linarith⟩, ⟨a1, a2⟩, a3, ph, pw,
      ⟨c3, c4, c1, c2⟩, ⟨d3, d4, d1, d2⟩, ⟨e3, e4, e1, e2⟩, ⟨f3, f4, f1, f2⟩⟩
  · intro e he
    simp only [SubLayout.tr, trAnchors, List.mem_map] at he
    obtain ⟨e0, he0, rfl⟩ := he
    obtain ⟨b1, b2, b3⟩ := hI.anchors e0 he0
    simp only [SubLayout.tr, Rect.tr, Pos.tr, onFirstEdge, hasPoint]
    exact ⟨⟨b1, b2, b3⟩, by linarith, by linarith, by linarith, by linarith⟩

/-- **C14, branches inside the species' box** (both orientations). -/
theorem C14_branches_inside (o : Orientation) (P : Params) (sizes : Key → Size) (S : RTree)
    (ot : OTree) (sol : Sol) (hn : NumHyps P sizes) (hv : Spec.validRec ot sol = true)
    (hin : SR.C13.inTree S sol = true) (hbin : S.isBinary = true) :
    ∃ all, compute o P sizes S sol = .ok all ∧ ∀ lay ∈ all, BranchGeom o P lay := by
  obtain ⟨st, _, _, hst, hfin, _, _, _⟩ :=
    render_ok .vertical P sizes hbin (SR.C13.good_of_valid hv hin)
  have hfork : ∀ st', computeBranches S sol = .ok st' → ∀ t b, b ∈ brs st' t →
      (b.kind = .spec ∨ b.kind = .loss) → S.isNode (t ++ [0]) = true := by
    intro st' hst' t b hb hk
    rw [hst] at hst'
    cases hst'
    rcases hk with hk | hk
    · obtain ⟨_, _, _, _, h0, _⟩ := hfin.spec t b hb hk
      exact h0
    · obtain ⟨i, _, _, hnode, _⟩ := hfin.loss t b hb hk
      exact (RTree.binary_child hbin hnode).2.1
  have hy := hn.hyps
  cases o with
  | vertical =>
    obtain ⟨all, h⟩ := C14_compute_ok .vertical P sizes S ot sol hv hin hbin
    refine ⟨all, h, ?_⟩
    intro lay hlay
    have hI := computeV_inside hy h hfork lay hlay
    have hf := computeV_facts hy h
    exact branchGeom_V hI hy.pad hy.overhead (hf.trunkIn lay hlay) (hf.nonneg lay hlay).2.2.2.1
  | horizontal =>
    obtain ⟨allV, h⟩ := C14_compute_ok .vertical P (fun k => (sizes k).swap) S ot sol hv hin hbin
    have hc : compute .horizontal P sizes S sol = .ok (allV.map SubLayout.tr) := by
      show computeH P sizes S sol = _
      rw [computeH_tr]
      have h' : computeV P (fun k => (sizes k).swap) S sol = .ok allV := h
      rw [h']
      rfl
    refine ⟨_, hc, ?_⟩
    intro lay hlay
    obtain ⟨l0, hl0, rfl⟩ := List.mem_map.1 hlay
    have hI := computeV_inside hy.swap h hfork l0 hl0
    have hf := computeV_facts hy.swap h
    exact branchGeom_H hI hy.pad hy.overhead (hf.trunkIn l0 hl0) (hf.nonneg l0 hl0).2.2.2.1

/-! ### Non-vacuity -/

/-- The hypotheses are met (unit sizes, default-like parameters, the example of
    `Properties/C13.lean`), and its layout has 8 branches and 5 anchors in 5 species. -/
example : NumHyps exP exSizes ∧ Spec.validRec SR.C13.exO SR.C13.exSol = true ∧
    SR.C13.inTree SR.C13.exS SR.C13.exSol = true ∧ SR.C13.exS.isBinary = true := by
  refine ⟨⟨fun _ => ⟨?_, ?_⟩, ?_, ?_, ?_, ?_, ?_⟩, by decide, by decide, by decide⟩ <;>
    norm_num [exP, exSizes]

example : ∃ all, compute .vertical exP exSizes SR.C13.exS SR.C13.exSol = .ok all ∧
    (all.map fun l => l.branches.length) = [1, 3, 2, 0, 2] ∧
    (all.map fun l => l.anchors.length) = [1, 1, 2, 0, 1] := ⟨_, rfl, by decide, by decide⟩

end SR.C14
