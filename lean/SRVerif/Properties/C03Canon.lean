/-
  C03 — `C03_partial` of DESIGN §7: inside the coherent region the unordered solvers
  (`uspfs`: SuperDTL = extended, base) return minimum-cost solutions AMONG THE CANONICAL
  LABELLINGS, the cost being the REAL evaluator's (`totalCost c .unordered`).

  Solution space `CanonSol S base o σ`:
    * `Spec.validSol .unordered o σ`   valid reconciliation + valid family placement;
    * `Spec.canonicalUn o [] [] σ`     every internal node holds its required content or
                                       its parent's content plus its own gains;
    * `spAllowed S base o σ`           internal species are nodes of `S` (extended) /
                                       the LCA mapping (base).

  * `C03_canon_bridge`   every canonical solution is the decoding of an admissible kind
        labelling with an LCA root (`kindOf`), whose generic cost is the solution's
        evaluated cost — infinite cases included, no hypothesis on `S` or the costs;
  * `C03_decoded_canon`  every decoded solution is canonical (any input, any costs);
  * `C03_canonical_opt`  **the optimality theorem**: `spe + sloss ≤ dup + 2·floss`
        (implied by the coherent region `spe + 2·sloss ≤ dup + 2·floss`), `S` binary,
        leaf species nodes of `S` ⇒ every returned solution is canonical and no
        canonical solution is cheaper;
  * `C03_canonical_complete`  and every canonical solution of minimum cost is returned;
  * `C03_uspfs_total`    the result is never empty (no coherence needed): the LCA
        mapping with every node of kind LCA has a finite table cell.

  What remains of `C03_statement`: restricting to canonical labellings loses nothing
  (`Spec.optimum … .unordered` ranges over EVERY labelling between required and allowed
  content) — the exchange argument of the SuperDTL paper.
-/
import SRVerif.Properties.C04Un
import SRVerif.Proofs.UnContentCanon

namespace SR.C03

open SR Cost

/-- The solution space the unordered solvers search. -/
def CanonSol (S : RTree) (base : Bool) (o : OTree) (σ : Sol) : Prop :=
  Spec.validSol .unordered o σ = true ∧ Spec.canonicalUn o [] [] σ = true ∧ spAllowed S base o σ

theorem spAllowed_unSol (c : Costs) (S : RTree) (base : Bool) (whole : OTree) :
    ∀ (sub : OTree) (p : Path) (anc : List Nat) (ls : LSol Kind),
      Adm (unAlg c) (annUn S base whole p sub) ls →
      spAllowed S base sub (unSol (annUn S base whole p sub) anc ls) := by
  intro sub
  induction sub with
  | leaf sp f0 =>
    intro p anc ls hadm
    cases ls with
    | node => simp [annUn, Adm] at hadm
    | leaf s k => simp [spAllowed]
  | node l r ihl ihr =>
    intro p anc ls hadm
    have hal := fun s => annUn_allowed (c := c) S base whole p l r s
    rw [annUn_node] at hadm ⊢
    cases ls with
    | leaf => simp [Adm] at hadm
    | node s k x y =>
      simp only [Adm] at hadm
      obtain ⟨hs, _, ax, ay⟩ := hadm
      rw [unSol_node]
      exact ⟨(hal s).mp hs, ihl _ _ x ax, ihr _ _ y ay⟩

/-- At the root the parent's content plays no role. -/
theorem canonicalUn_root (whole : OTree) (anc anc' : List Nat) (σ : Sol) :
    Spec.canonicalUn whole [] anc σ = Spec.canonicalUn whole [] anc' σ := by
  cases σ <;> simp [Spec.canonicalUn]

/-- Every decoded solution is canonical. -/
theorem C03_decoded_canon (c : Costs) (S : RTree) (base : Bool) (o : OTree) :
    let t := annUn S base o [] o
    ∀ d ∈ uspfsCells c S base true o, ∀ ls ∈ d.sols,
      CanonSol S base o (unSol t t.data.lcaSet ls) := by
  intro t d hd ls hls
  obtain ⟨adm, hlab, _⟩ := decoded_facts c S base o d hd ls hls
  have hd' : d ∈ dpTable (unAlg c) c S true t := by
    simp only [uspfsCells, List.mem_filter] at hd; exact hd.1
  have hX : c.spe + c.sloss ≤ c.dup + 2 * c.floss + (c.spe + c.sloss) := by omega
  obtain ⟨_, _, _, hv, _⟩ := dp_sound (unAlg c) c S (un_slack c) hX _ d hd' ls hls
  refine ⟨?_, ?_, spAllowed_unSol c S base o o [] _ ls adm⟩
  · simp only [Spec.validSol, Bool.and_eq_true]
    exact ⟨validRec_unSol c S base o o [] _ ls adm hv,
      (C04.C04_unord_decoded c S base o d hd ls hls).1⟩
  · rw [canonicalUn_root o [] t.data.lcaSet]
    exact canonical_unSol c S base o o [] _ ls (isSub_root o) adm (fun _ => hlab)

/-- **Bridge**: a canonical solution is the decoding of its kind labelling, which is
    admissible, has an LCA root, and whose generic cost is the evaluated cost. -/
theorem C03_canon_bridge (c : Costs) (S : RTree) (base : Bool) (o : OTree) (σ : Sol)
    (h : CanonSol S base o σ) :
    let t := annUn S base o [] o
    Adm (unAlg c) t (kindOf t σ) ∧ (kindOf t σ).lab = .lca ∧ (kindOf t σ).sp = σ.sp ∧
      unSol t t.data.lcaSet (kindOf t σ) = σ ∧
      labCost (unAlg c) c t (kindOf t σ) = totalCost c .unordered o σ := by
  intro t
  obtain ⟨hvalid, hcanon, hsp⟩ := h
  simp only [Spec.validSol, Bool.and_eq_true] at hvalid
  obtain ⟨hrec, hlabels⟩ := hvalid
  obtain ⟨adm, hspk⟩ := adm_kindOf c S base o o [] σ hrec hsp
  have hcanon' : Spec.canonicalUn o [] t.data.lcaSet σ = true := by
    rw [canonicalUn_root o _ []]; exact hcanon
  have hdec := unSol_kindOf S base o o [] t.data.lcaSet σ (isSub_root o) hlabels hcanon'
  have hroot : (kindOf t σ).lab = .lca := by
    cases o with
    | leaf sp f => rfl
    | node l r =>
      cases σ with
      | leaf => simp [Spec.validRec] at hrec
      | node s f x y =>
        have hreq := lcaSet_eq_required S base (.node l r) (.node l r) [] (isSub_root _)
        simp only [Spec.canonicalUn, Bool.and_eq_true, Bool.or_eq_true, beq_iff_eq,
          List.isEmpty_nil, Bool.not_true, Bool.false_and, Bool.false_eq_true, or_false] at hcanon
        show (kindOf (annUn S base (.node l r) [] (.node l r)) (.node s f x y)).lab = .lca
        rw [annUn_node, kindOf_lab_node, if_pos (hcanon.1.1.trans hreq.symm)]
  refine ⟨adm, hroot, hspk, hdec, ?_⟩
  have hedges := edgesFinite_kindOf c S base o o [] t.data.lcaSet σ (isSub_root o) hlabels hcanon'
  have := faithful_gen c S base o o [] t.data.lcaSet (kindOf t σ) (isSub_root o) adm hedges
    (fun e => by rw [hroot] at e; cases e)
  rw [← this, hdec, totalCostU_eq]

/-- **C03, optimal among canonical labellings, real evaluator.** -/
theorem C03_canonical_opt (c : Costs) (S : RTree) (base : Bool) (o : OTree)
    (hb : S.isBinary = true) (hS : ∀ p ∈ leafSpecies o, S.isNode p = true)
    (hcoh : c.spe + c.sloss ≤ c.dup + 2 * c.floss) :
    ∀ sol ∈ uspfs c S base o,
      CanonSol S base o sol ∧
      ∀ σ', CanonSol S base o σ' →
        Cost.le (totalCost c .unordered o sol) (totalCost c .unordered o σ') = true := by
  intro sol hsol
  obtain ⟨hmem, hmin⟩ := (mem_rankByCost c .unordered o _ sol).mp hsol
  obtain ⟨d, hd, ls, hls, rfl⟩ := C04.mem_uspfs_decoded hsol
  refine ⟨C03_decoded_canon c S base o d hd ls hls, ?_⟩
  intro σ' hσ'
  by_cases hfin : totalCost c .unordered o σ' = .inf
  · rw [hfin]; exact Cost.le_inf _
  obtain ⟨adm, hroot, _, _, hcost⟩ := C03_canon_bridge c S base o σ' hσ'
  have hok := spOk_annUn c S base o o hS []
  obtain ⟨d', hd', hsp', hlab', hle⟩ := dp_lower (unAlg c) c S true hb _ hok _ adm
    (by rw [hcost]; exact hfin)
  have hd'' : d' ∈ uspfsCells c S base true o := by
    simp only [uspfsCells, List.mem_filter, beq_iff_eq]
    exact ⟨hd', hlab'.trans hroot⟩
  obtain ⟨ls'', hls''⟩ := dp_nonempty (unAlg c) c S _ d' hd'
  have hval := C03_table_value c S base o hb hS hcoh d' hd'' ls'' hls''
  have h1 := hmin _ (List.mem_flatMap.mpr ⟨d', hd'', List.mem_map.mpr ⟨ls'', hls'', rfl⟩⟩)
  rw [hval] at h1
  rw [hcost] at hle
  exact Cost.le_trans h1 hle

/-- … and every canonical solution of minimum cost is returned (finite cost). -/
theorem C03_canonical_complete (c : Costs) (S : RTree) (base : Bool) (o : OTree)
    (hb : S.isBinary = true) (hS : ∀ p ∈ leafSpecies o, S.isNode p = true)
    (hcoh : c.spe + c.sloss ≤ c.dup + 2 * c.floss)
    (σ : Sol) (hσ : CanonSol S base o σ) (hfin : totalCost c .unordered o σ ≠ .inf)
    (hmin : ∀ σ', CanonSol S base o σ' →
      Cost.le (totalCost c .unordered o σ) (totalCost c .unordered o σ') = true) :
    σ ∈ uspfs c S base o := by
  obtain ⟨adm, hroot, _, hdec, hcost⟩ := C03_canon_bridge c S base o σ hσ
  have hok := spOk_annUn c S base o o hS []
  obtain ⟨d', hd', hsp', hlab', hle⟩ := dp_lower (unAlg c) c S true hb _ hok _ adm
    (by rw [hcost]; exact hfin)
  have hd'' : d' ∈ uspfsCells c S base true o := by
    simp only [uspfsCells, List.mem_filter, beq_iff_eq]
    exact ⟨hd', hlab'.trans hroot⟩
  obtain ⟨ls'', hls''⟩ := dp_nonempty (unAlg c) c S _ d' hd'
  have hval := C03_table_value c S base o hb hS hcoh d' hd'' ls'' hls''
  have h1 := hmin _ (C03_decoded_canon c S base o d' hd'' ls'' hls'')
  rw [hval, ← hcost] at h1
  have heq : labCost (unAlg c) c (annUn S base o [] o) (kindOf (annUn S base o [] o) σ) = d'.cost :=
    Cost.le_antisymm h1 hle
  have hin := ((C03_table_exact c S base o hb hS hcoh) d' hd').2.1
    (kindOf (annUn S base o [] o) σ) |>.mpr ⟨adm, hsp'.symm, hlab'.symm, heq⟩
  refine (mem_rankByCost c .unordered o _ σ).mpr ⟨?_, ?_⟩
  · exact List.mem_flatMap.mpr ⟨d', hd'', List.mem_map.mpr ⟨_, hin, hdec⟩⟩
  · intro s' hs'
    simp only [List.mem_flatMap, List.mem_map] at hs'
    obtain ⟨e, he, ls', hls', rfl⟩ := hs'
    exact hmin _ (C03_decoded_canon c S base o e he ls' hls')

/-! ### The result is never empty -/

/-- The LCA mapping with every node of kind LCA. -/
def lcaKinds : OTree → LSol Kind
  | .leaf sp _ => .leaf sp .lca
  | .node l r => .node (Path.lcp (lcaKinds l).sp (lcaKinds r).sp) .lca (lcaKinds l) (lcaKinds r)

theorem lcaKinds_sp (o : OTree) : (lcaKinds o).sp = (lcaSol o).sp := by
  induction o with
  | leaf sp f => rfl
  | node l r ihl ihr =>
    show Path.lcp (lcaKinds l).sp (lcaKinds r).sp = Path.lcp (lcaSol l).sp (lcaSol r).sp
    rw [ihl, ihr]

theorem lcaKinds_lab (o : OTree) : (lcaKinds o).lab = .lca := by
  cases o <;> rfl

theorem lcaKinds_ok (c : Costs) (S : RTree) (base : Bool) (whole : OTree) :
    ∀ (sub : OTree) (p : Path), (∀ q ∈ leafSpecies sub, S.isNode q = true) →
      Adm (unAlg c) (annUn S base whole p sub) (lcaKinds sub) ∧
      labCost (unAlg c) c (annUn S base whole p sub) (lcaKinds sub) ≠ .inf := by
  intro sub
  induction sub with
  | leaf sp f => intro p _; simp [annUn, lcaKinds, Adm, labCost, unAlg]
  | node l r ihl ihr =>
    intro p hS
    obtain ⟨al, fl⟩ := ihl (p ++ [0]) (fun q hq => hS q (by simp [leafSpecies, hq]))
    obtain ⟨ar, fr⟩ := ihr (p ++ [1]) (fun q hq => hS q (by simp [leafSpecies, hq]))
    have hal := annUn_allowed (c := c) S base whole p l r
      (Path.lcp (lcaKinds l).sp (lcaKinds r).sp)
    rw [annUn_node]
    generalize (annUn S base whole p (.node l r)).data = a at *
    constructor
    · refine ⟨hal.mpr ?_, by simp [unAlg], al, ar⟩
      cases base with
      | true => simp only [if_true, lcaKinds_sp, lcaSol, Sol.sp]
      | false =>
        simp only [Bool.false_eq_true, if_false, lcaKinds_sp]
        exact lcaSol_sp_isNode S (.node l r) hS
    · simp only [lcaKinds, labCost, genLocal, lcaKinds_lab]
      obtain ⟨nl, hnl⟩ := ne_inf_iff.mp fl
      obtain ⟨nr, hnr⟩ := ne_inf_iff.mp fr
      have e1 : ∀ ca : UnAnn, ∃ n, (unAlg c).conserv a .lca ca .lca = .fin n := by
        intro ca; simp only [unAlg]; split <;> exact ⟨_, rfl⟩
      have e2 : ∀ ca : UnAnn, (unAlg c).segment a .lca ca .lca = .fin 0 := fun _ => rfl
      obtain ⟨n1, h1⟩ := e1 (annUn S base whole (p ++ [0]) l).data
      obtain ⟨n2, h2⟩ := e1 (annUn S base whole (p ++ [1]) r).data
      rw [h1, h2, e2, e2, gl_shift, hnl, hnr]
      rcases internalEvent_lcp (lcaKinds l).sp (lcaKinds r).sp with h | h <;>
        simp [h, localRecCost]

/-- The unordered solvers always return something. -/
theorem C03_uspfs_total (c : Costs) (S : RTree) (base : Bool) (o : OTree)
    (hb : S.isBinary = true) (hS : ∀ p ∈ leafSpecies o, S.isNode p = true) :
    uspfs c S base o ≠ [] := by
  obtain ⟨adm, hfin⟩ := lcaKinds_ok c S base o o [] hS
  have hok := spOk_annUn c S base o o hS []
  obtain ⟨d, hd, _, hlab, _⟩ := dp_lower (unAlg c) c S true hb _ hok _ adm hfin
  obtain ⟨ls, hls⟩ := dp_nonempty (unAlg c) c S _ d hd
  unfold uspfs
  apply rankByCost_ne_nil
  intro hnil
  have hd' : d ∈ uspfsCells c S base true o := by
    simp only [uspfsCells, List.mem_filter, beq_iff_eq]
    exact ⟨hd, hlab.trans (lcaKinds_lab o)⟩
  have : unSol (annUn S base o [] o) (annUn S base o [] o).data.lcaSet ls ∈
      (uspfsCells c S base true o).flatMap
        (fun d => d.sols.map (unSol (annUn S base o [] o) (annUn S base o [] o).data.lcaSet)) :=
    List.mem_flatMap.mpr ⟨d, hd', List.mem_map.mpr ⟨ls, hls, rfl⟩⟩
  rw [hnil] at this
  cases this

/-! Non-vacuity: two canonical solutions of an input with an INHERIT choice; the one
    the solver returns at `sloss = 1` is the cheaper. -/
example :
    let c : Costs := { spe := 0, dup := 1, hgt := .fin 1, floss := 1, sloss := 1 }
    let S : RTree := .node [.node [], .node []]
    let o : OTree :=
      .node (.node (.leaf [0] [1, 2]) (.node (.leaf [0] [1]) (.leaf [0] [1]))) (.leaf [1] [1, 2])
    let σ1 : Sol := .node [] [1, 2]
      (.node [0] [1, 2] (.leaf [0] [1, 2]) (.node [0] [1] (.leaf [0] [1]) (.leaf [0] [1])))
      (.leaf [1] [1, 2])
    let σ2 : Sol := .node [] [1, 2]
      (.node [0] [1, 2] (.leaf [0] [1, 2]) (.node [0] [1, 2] (.leaf [0] [1]) (.leaf [0] [1])))
      (.leaf [1] [1, 2])
    S.isBinary = true ∧ (∀ p ∈ leafSpecies o, S.isNode p = true) ∧
    c.spe + c.sloss ≤ c.dup + 2 * c.floss ∧
    Spec.validSol .unordered o σ1 = true ∧ Spec.canonicalUn o [] [] σ1 = true ∧
    Spec.validSol .unordered o σ2 = true ∧ Spec.canonicalUn o [] [] σ2 = true ∧
    totalCost c .unordered o σ1 = .fin 2 ∧ totalCost c .unordered o σ2 = .fin 3 ∧
    uspfs c S false o = [σ1] := by
  decide +kernel

end SR.C03
