/-
  C05 for the unordered solvers (`uspfs`: SuperDTL = extended, base): under the policy
  `all` the result is EXACTLY the set of canonical solutions of minimum evaluated cost,
  each once — `C05_all_statement` at the solution space `C03.CanonSol` (valid
  reconciliation, valid family placement, canonical labelling, species of `S` / the LCA
  mapping), which is the solution space C05 names for the unordered solvers (DESIGN §7).

  Guards: `S` binary, leaf species nodes of `S`, `spe + sloss ≤ dup + 2·floss` (implied
  by the coherent region `spe + 2·sloss ≤ dup + 2·floss`).

  * `C05_unord_all`        `σ ∈ uspfs ↔ canonical ∧ no canonical solution is cheaper`; Nodup;
  * `C05_unord_nonempty`   the result is never empty (no coherence needed);
  * `C05_unord_same_cost`  all members have the same evaluated cost, and it is the table
                           minimum `uspfsTableMin`;
  * `C05_unord_any`        a one-element sublist of the `all` result (what the policy
                           `any` returns, by C16_any + the tie of the check) is a
                           canonical optimum.
-/
import SRVerif.Properties.C05
import SRVerif.Properties.C03Canon

namespace SR.C05

open SR Cost

/-- **C05, unordered solvers**: `all` = exactly the canonical optimal set, each once. -/
theorem C05_unord_all (c : Costs) (S : RTree) (base : Bool) (o : OTree)
    (hb : S.isBinary = true) (hS : ∀ p ∈ leafSpecies o, S.isNode p = true)
    (hcoh : c.spe + c.sloss ≤ c.dup + 2 * c.floss) :
    C05_all_statement (uspfs c S base o) c .unordered o (C03.CanonSol S base o) := by
  refine ⟨?_, nodup_rankByCost _ _ _ _⟩
  intro sol
  constructor
  · exact C03.C03_canonical_opt c S base o hb hS hcoh sol
  · rintro ⟨hcan, hmin⟩
    -- some returned solution exists, is canonical and has finite cost: so has `sol`
    obtain ⟨m, hm⟩ := List.exists_mem_of_ne_nil _ (C03.C03_uspfs_total c S base o hb hS)
    have hmcan := (C03.C03_canonical_opt c S base o hb hS hcoh m hm).1
    have hmfin := C04.C04_unord_finite c S base o m hm
    have hle := hmin m hmcan
    have hfin : totalCost c .unordered o sol ≠ .inf := by
      intro e
      rw [e] at hle
      exact hmfin ((inf_le _).mp hle)
    exact C03.C03_canonical_complete c S base o hb hS hcoh sol hcan hfin hmin

/-- The result is never empty. -/
theorem C05_unord_nonempty (c : Costs) (S : RTree) (base : Bool) (o : OTree)
    (hb : S.isBinary = true) (hS : ∀ p ∈ leafSpecies o, S.isNode p = true) :
    uspfs c S base o ≠ [] :=
  C03.C03_uspfs_total c S base o hb hS

/-- All members have the same evaluated cost: the table minimum. -/
theorem C05_unord_same_cost (c : Costs) (S : RTree) (base : Bool) (o : OTree)
    (hb : S.isBinary = true) (hS : ∀ p ∈ leafSpecies o, S.isNode p = true)
    (hcoh : c.spe + c.sloss ≤ c.dup + 2 * c.floss) :
    ∀ sol ∈ uspfs c S base o, totalCost c .unordered o sol = uspfsTableMin c S base o :=
  C03.C03_result_cost c S base o hb hS hcoh

/-- Whatever single member of the `all` result the policy `any` keeps is a canonical
    optimum. -/
theorem C05_unord_any (c : Costs) (S : RTree) (base : Bool) (o : OTree)
    (hb : S.isBinary = true) (hS : ∀ p ∈ leafSpecies o, S.isNode p = true)
    (hcoh : c.spe + c.sloss ≤ c.dup + 2 * c.floss) (σ : Sol) (h : σ ∈ uspfs c S base o) :
    C03.CanonSol S base o σ ∧ ∀ σ', C03.CanonSol S base o σ' →
      Cost.le (totalCost c .unordered o σ) (totalCost c .unordered o σ') = true :=
  C03.C03_canonical_opt c S base o hb hS hcoh σ h

/-! Non-vacuity: with `sloss = 0` the two canonical labellings of the inner node tie and
    both are returned; the solution space is not a singleton. -/
example :
    let c : Costs := { spe := 0, dup := 1, hgt := .fin 1, floss := 1, sloss := 0 }
    let S : RTree := .node [.node [], .node []]
    let o : OTree :=
      .node (.node (.leaf [0] [1, 2]) (.node (.leaf [0] [1]) (.leaf [0] [1]))) (.leaf [1] [1, 2])
    S.isBinary = true ∧ (∀ p ∈ leafSpecies o, S.isNode p = true) ∧
    c.spe + c.sloss ≤ c.dup + 2 * c.floss ∧
    (uspfs c S false o).length = 2 ∧
    (uspfs c S false o).all (fun σ => Spec.canonicalUn o [] [] σ) = true := by
  decide +kernel

end SR.C05
