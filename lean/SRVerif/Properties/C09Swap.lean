/-
  C09 (child swaps) — "The minimum cost and the set of optimal solutions are
  unchanged by reordering the children of any node of either tree."

  Everything is stated at the level of the SPECIFICATION: valid solutions
  (`Spec.validSol`, per mode) and the evaluator `totalCost`; `IsOptimal` /
  `IsMinCost` below are "valid and no valid solution is cheaper" / "the minimum
  over the valid solutions".  The statements are then transferred to the solvers
  `exhaustive` and `thl` through their optimality theorems (C01).

  Object-child swap (`OTree.swapAt p`, `OTree.mirror`, induced `Sol.swapAt p`,
  `Sol.mirror`; helpers in `Proofs/SwapObj.lean`):
  * `C09_swap_obj_cost`      cost preserved, ALL modes, all solutions (valid or not);
  * `C09_swap_obj_valid`     validity preserved, ALL modes (for the unordered mode the gain
                             nodes of the families move with the swap: `Path.flipPos`);
  * `C09_swap_obj_invol`     involution;
  * `C09_swap_obj`           optimal solutions correspond, minimum equal, ALL modes;
  * `C09_swap_obj_exh`, `C09_swap_obj_thl`  the two plain solvers;
  * `C09_mirror_obj…`        the same for the full mirror image.

  Species-child swap (`Path.swapAt p i j` on species, `RTree.swapAt`; helpers in
  `Proofs/SwapSp.lean`): ALL THREE modes in full —
  * `C09_swap_sp_paths`   the relabelling preserves `isAnc`, `isStrictAnc`, `comparable`,
                          `dist`, commutes with `lcp`, is injective and an involution;
  * `C09_swap_sp_cost`, `C09_swap_sp_valid`, `C09_swap_sp_invol`;
  * `C09_swap_sp`         optimal solutions correspond, minimum equal (all modes);
  * `C09_swap_sp_exh`, `C09_swap_sp_thl`, `C09_swap_sp_nodes`.
-/
import SRVerif.Proofs.SwapObj
import SRVerif.Proofs.SwapSp
import SRVerif.Properties.C01Enum
import SRVerif.Properties.C01Thl

namespace SR.C09

open SR

/-- `sol` is a valid solution of `o` (mode `mode`) of minimum evaluated cost. -/
def IsOptimal (c : Costs) (mode : LabelMode) (o : OTree) : Sol → Prop :=
  IsOptimalFor (fun s => Spec.validSol mode o s = true) (totalCost c mode o)

/-- `m` is the minimum evaluated cost over the valid solutions of `o`. -/
def IsMinCost (c : Costs) (mode : LabelMode) (o : OTree) : Cost → Prop :=
  IsMinCostFor (fun s => Spec.validSol mode o s = true) (totalCost c mode o)

/-- Membership in `reconcile_exhaustive`'s result, as an optimum (C01). -/
theorem mem_exhaustive_iff (c : Costs) (o : OTree) (sol : Sol) :
    sol ∈ exhaustive c o ↔
      IsOptimalFor (fun s => Spec.validRec o s = true ∧ plainLabels o s = true)
        (totalCost c .plain o) sol := by
  rw [C01.C01_exh_iff]
  exact ⟨fun ⟨h, hm⟩ => ⟨h, fun s' hs' => hm s' hs'.1 hs'.2⟩,
    fun ⟨h, hm⟩ => ⟨h, fun s' h1 h2 => hm s' ⟨h1, h2⟩⟩⟩

/-- Membership in `reconcile_thl`'s result, as an optimum (C01/C05), for a
    well-formed input inside the coherent region. -/
theorem mem_thl_iff (c : Costs) (S : RTree) (o : OTree) (hb : S.isBinary = true)
    (hS : ∀ p ∈ leafSpecies o, S.isNode p = true) (hcoh : c.spe ≤ c.dup + 2 * c.floss) (sol : Sol) :
    sol ∈ thl c S o ↔
      IsOptimalFor (fun s => Spec.validRec o s = true ∧ s ∈ Spec.allMappings S o)
        (totalCost c .plain o) sol :=
  (C01.C01_thl_all c S o hb hS hcoh).1 sol

/-! ## Object-child swap -/

/-- The evaluated cost does not see the order of the children of an object node:
    every mode, every cost vector, every solution. -/
theorem C09_swap_obj_cost (c : Costs) (mode : LabelMode) (p : Path) (o : OTree) (sol : Sol) :
    totalCost c mode (o.swapAt p) (sol.swapAt p) = totalCost c mode o sol := by
  rw [OTree.swapAt_eq_flip, Sol.swapAt_eq_flip]; exact totalCost_flip c mode o sol _

theorem C09_mirror_obj_cost (c : Costs) (mode : LabelMode) (o : OTree) (sol : Sol) :
    totalCost c mode o.mirror sol.mirror = totalCost c mode o sol := by
  rw [OTree.mirror_eq_flip, Sol.mirror_eq_flip]; exact totalCost_flip c mode o sol _

/-- Validity is preserved (all three modes). -/
theorem C09_swap_obj_valid (mode : LabelMode) (p : Path) (o : OTree)
    (sol : Sol) : Spec.validSol mode (o.swapAt p) (sol.swapAt p) = Spec.validSol mode o sol := by
  rw [OTree.swapAt_eq_flip, Sol.swapAt_eq_flip]
  exact validSol_flip mode o sol _

theorem C09_mirror_obj_valid (mode : LabelMode) (o : OTree)
    (sol : Sol) : Spec.validSol mode o.mirror sol.mirror = Spec.validSol mode o sol := by
  rw [OTree.mirror_eq_flip, Sol.mirror_eq_flip]
  exact validSol_flip mode o sol _

/-- The swap is an involution on inputs and on solutions. -/
theorem C09_swap_obj_invol (p : Path) (o : OTree) (sol : Sol) :
    (o.swapAt p).swapAt p = o ∧ (sol.swapAt p).swapAt p = sol :=
  ⟨OTree.swapAt_swapAt p o, Sol.swapAt_swapAt p sol⟩

theorem C09_mirror_obj_invol (o : OTree) (sol : Sol) :
    o.mirror.mirror = o ∧ sol.mirror.mirror = sol :=
  ⟨OTree.mirror_mirror o, Sol.mirror_mirror sol⟩

/-- **C09, object-child swap** (all three modes): `Sol.swapAt p` is a bijection
    between the optimal solutions of `o` and of `o.swapAt p`, and the two inputs
    have the same minimum cost. -/
theorem C09_swap_obj (c : Costs) (mode : LabelMode) (p : Path) (o : OTree) :
    (∀ sol, IsOptimal c mode o sol ↔ IsOptimal c mode (o.swapAt p) (sol.swapAt p)) ∧
    (∀ m, IsMinCost c mode o m ↔ IsMinCost c mode (o.swapAt p) m) :=
  transport_bij (Sol.swapAt p) (Sol.swapAt p)
    (fun s => by rw [C09_swap_obj_valid mode])
    (fun s => C09_swap_obj_cost c mode p o s) (Sol.swapAt_swapAt p)

theorem C09_mirror_obj (c : Costs) (mode : LabelMode) (o : OTree) :
    (∀ sol, IsOptimal c mode o sol ↔ IsOptimal c mode o.mirror sol.mirror) ∧
    (∀ m, IsMinCost c mode o m ↔ IsMinCost c mode o.mirror m) :=
  transport_bij Sol.mirror Sol.mirror
    (fun s => by rw [C09_mirror_obj_valid mode])
    (fun s => C09_mirror_obj_cost c mode o s) Sol.mirror_mirror

/-- `reconcile_exhaustive` commutes with the swap. -/
theorem C09_swap_obj_exh (c : Costs) (p : Path) (o : OTree) (sol : Sol) :
    sol ∈ exhaustive c o ↔ sol.swapAt p ∈ exhaustive c (o.swapAt p) := by
  rw [mem_exhaustive_iff, mem_exhaustive_iff]
  refine isOptimalFor_transport (Sol.swapAt p) (Sol.swapAt p) (fun s => ?_)
    (fun s => C09_swap_obj_cost c .plain p o s) (Sol.swapAt_swapAt p) sol
  simp only [OTree.swapAt_eq_flip, Sol.swapAt_eq_flip, validRec_flip, plainLabels_flip]

theorem C09_mirror_obj_exh (c : Costs) (o : OTree) (sol : Sol) :
    sol ∈ exhaustive c o ↔ sol.mirror ∈ exhaustive c o.mirror := by
  rw [mem_exhaustive_iff, mem_exhaustive_iff]
  refine isOptimalFor_transport Sol.mirror Sol.mirror (fun s => ?_)
    (fun s => C09_mirror_obj_cost c .plain o s) Sol.mirror_mirror sol
  simp only [OTree.mirror_eq_flip, Sol.mirror_eq_flip, validRec_flip, plainLabels_flip]

/-- `reconcile_thl` commutes with the swap (well-formed input, coherent costs). -/
theorem C09_swap_obj_thl (c : Costs) (S : RTree) (p : Path) (o : OTree) (hb : S.isBinary = true)
    (hS : ∀ q ∈ leafSpecies o, S.isNode q = true) (hcoh : c.spe ≤ c.dup + 2 * c.floss) (sol : Sol) :
    sol ∈ thl c S o ↔ sol.swapAt p ∈ thl c S (o.swapAt p) := by
  have hS' : ∀ q ∈ leafSpecies (o.swapAt p), S.isNode q = true := by
    intro q hq
    rw [OTree.swapAt_eq_flip] at hq
    exact hS q ((leafSpecies_flip_perm o _).mem_iff.mp hq)
  rw [mem_thl_iff c S o hb hS hcoh, mem_thl_iff c S _ hb hS' hcoh]
  refine isOptimalFor_transport (Sol.swapAt p) (Sol.swapAt p) (fun s => ?_)
    (fun s => C09_swap_obj_cost c .plain p o s) (Sol.swapAt_swapAt p) sol
  have e : Spec.validRec (o.swapAt p) (s.swapAt p) = Spec.validRec o s := by
    rw [OTree.swapAt_eq_flip, Sol.swapAt_eq_flip]; exact validRec_flip o s _
  rw [e]
  constructor
  · rintro ⟨h1, h2⟩
    refine ⟨h1, ?_⟩
    have := mem_allMappings_flip S (o.swapAt p) (s.swapAt p) (fun q => q == p) h2
    rwa [← OTree.swapAt_eq_flip, ← Sol.swapAt_eq_flip, OTree.swapAt_swapAt,
      Sol.swapAt_swapAt] at this
  · rintro ⟨h1, h2⟩
    refine ⟨h1, ?_⟩
    rw [OTree.swapAt_eq_flip, Sol.swapAt_eq_flip]
    exact mem_allMappings_flip S o s _ h2

/-! ## Species-child swap -/

/-- The relabelling of species induced by exchanging the children `i`, `j` of the
    species node `p` preserves every query the models make on species, and is an
    injective involution. -/
theorem C09_swap_sp_paths (p : Path) (i j : Nat) :
    let φ := Path.swapAt p i j
    (∀ a b, Path.isAnc (φ a) (φ b) = Path.isAnc a b) ∧
    (∀ a b, Path.isStrictAnc (φ a) (φ b) = Path.isStrictAnc a b) ∧
    (∀ a b, Path.comparable (φ a) (φ b) = Path.comparable a b) ∧
    (∀ a b, Path.lcp (φ a) (φ b) = φ (Path.lcp a b)) ∧
    (∀ a b, Path.dist (φ a) (φ b) = Path.dist a b) ∧
    (∀ a, (φ a).length = a.length) ∧
    (∀ s a b, internalEvent (φ s) (φ a) (φ b) = internalEvent s a b) ∧
    (∀ c s a b, localRecCost c (φ s) (φ a) (φ b) = localRecCost c s a b) ∧
    (∀ a b, φ a = φ b → a = b) ∧ (∀ a, φ (φ a) = a) ∧
    (∀ q, φ (p ++ i :: q) = p ++ j :: q) ∧ (∀ q, φ (p ++ j :: q) = p ++ i :: q) ∧
    (∀ q, Path.isStrictAnc p q = false → φ q = q) := by
  intro φ
  have h := Path.swapAt_emb p i j
  exact ⟨h.isAnc, h.isStrictAnc, h.comparable, h.lcp, h.dist, Path.relabelAt_len _ p,
    h.internalEvent, h.localRecCost, h.inj, Path.swapAt_invol p i j, Path.swapAt_left p i j,
    Path.swapAt_right p i j, Path.relabelAt_of_not_below _ p⟩

/-- The evaluated cost is invariant (all modes, all solutions). -/
theorem C09_swap_sp_cost (c : Costs) (mode : LabelMode) (p : Path) (i j : Nat) (o : OTree)
    (sol : Sol) :
    totalCost c mode (o.mapSp (Path.swapAt p i j)) (sol.mapSp (Path.swapAt p i j)) =
      totalCost c mode o sol :=
  totalCost_mapSp (Path.swapAt_emb p i j) c mode o sol

/-- Validity is invariant (all three modes). -/
theorem C09_swap_sp_valid (mode : LabelMode) (p : Path) (i j : Nat) (o : OTree) (sol : Sol) :
    Spec.validSol mode (o.mapSp (Path.swapAt p i j)) (sol.mapSp (Path.swapAt p i j)) =
      Spec.validSol mode o sol :=
  validSol_mapSp (Path.swapAt_emb p i j) mode o sol

theorem C09_swap_sp_invol (p : Path) (i j : Nat) (o : OTree) (sol : Sol) :
    (o.mapSp (Path.swapAt p i j)).mapSp (Path.swapAt p i j) = o ∧
    (sol.mapSp (Path.swapAt p i j)).mapSp (Path.swapAt p i j) = sol :=
  ⟨by rw [OTree.mapSp_mapSp]; exact OTree.mapSp_id' _ (Path.swapAt_invol p i j) o,
   by rw [Sol.mapSp_mapSp]; exact Sol.mapSp_id' _ (Path.swapAt_invol p i j) sol⟩

/-- **C09, species-child swap** (all modes): relabelling is a bijection between
    the optimal solutions of the two presentations, and the minimum is equal. -/
theorem C09_swap_sp (c : Costs) (mode : LabelMode) (p : Path) (i j : Nat) (o : OTree) :
    (∀ sol, IsOptimal c mode o sol ↔
      IsOptimal c mode (o.mapSp (Path.swapAt p i j)) (sol.mapSp (Path.swapAt p i j))) ∧
    (∀ m, IsMinCost c mode o m ↔ IsMinCost c mode (o.mapSp (Path.swapAt p i j)) m) :=
  transport_bij (Sol.mapSp (Path.swapAt p i j)) (Sol.mapSp (Path.swapAt p i j))
    (fun s => by rw [C09_swap_sp_valid])
    (fun s => C09_swap_sp_cost c mode p i j o s)
    (fun s => (C09_swap_sp_invol p i j o s).2)

/-- The species tree with the two child subtrees exchanged has exactly the
    relabelled nodes, and is binary iff the original is. -/
theorem C09_swap_sp_nodes (S : RTree) (p : Path) (i j : Nat) (hi : i < S.arityAt p)
    (hj : j < S.arityAt p) :
    (∀ q, (S.swapAt p i j).isNode (Path.swapAt p i j q) = S.isNode q) ∧
    (S.swapAt p i j).isBinary = S.isBinary :=
  ⟨RTree.isNode_swapAt p S i j hi hj, RTree.isBinary_swapAt S p i j⟩

/-- `reconcile_exhaustive` commutes with the relabelling. -/
theorem C09_swap_sp_exh (c : Costs) (p : Path) (i j : Nat) (o : OTree) (sol : Sol) :
    sol ∈ exhaustive c o ↔
      sol.mapSp (Path.swapAt p i j) ∈ exhaustive c (o.mapSp (Path.swapAt p i j)) := by
  rw [mem_exhaustive_iff, mem_exhaustive_iff]
  refine isOptimalFor_transport (Sol.mapSp (Path.swapAt p i j)) (Sol.mapSp (Path.swapAt p i j))
    (fun s => ?_) (fun s => C09_swap_sp_cost c .plain p i j o s)
    (fun s => (C09_swap_sp_invol p i j o s).2) sol
  rw [validRec_mapSp (Path.swapAt_emb p i j), plainLabels_mapSp]

/-- `reconcile_thl` over the swapped species tree returns the relabelled
    solutions (well-formed input, coherent costs). -/
theorem C09_swap_sp_thl (c : Costs) (S : RTree) (p : Path) (i j : Nat) (o : OTree)
    (hi : i < S.arityAt p) (hj : j < S.arityAt p) (hb : S.isBinary = true)
    (hS : ∀ q ∈ leafSpecies o, S.isNode q = true) (hcoh : c.spe ≤ c.dup + 2 * c.floss) (sol : Sol) :
    sol ∈ thl c S o ↔
      sol.mapSp (Path.swapAt p i j) ∈
        thl c (S.swapAt p i j) (o.mapSp (Path.swapAt p i j)) := by
  have hn := RTree.isNode_swapAt p S i j hi hj
  have hb' : (S.swapAt p i j).isBinary = true := by rw [RTree.isBinary_swapAt]; exact hb
  have hS' : ∀ q ∈ leafSpecies (o.mapSp (Path.swapAt p i j)), (S.swapAt p i j).isNode q = true := by
    intro q hq
    rw [leafSpecies_mapSp] at hq
    obtain ⟨r, hr, rfl⟩ := List.mem_map.mp hq
    rw [hn]; exact hS r hr
  rw [mem_thl_iff c S o hb hS hcoh, mem_thl_iff c _ _ hb' hS' hcoh]
  refine isOptimalFor_transport (Sol.mapSp (Path.swapAt p i j)) (Sol.mapSp (Path.swapAt p i j))
    (fun s => ?_) (fun s => C09_swap_sp_cost c .plain p i j o s)
    (fun s => (C09_swap_sp_invol p i j o s).2) sol
  rw [validRec_mapSp (Path.swapAt_emb p i j)]
  constructor
  · rintro ⟨h1, h2⟩
    refine ⟨h1, ?_⟩
    have := mem_allMappings_mapSp (Path.swapAt p i j) (S.swapAt p i j) S
      (fun q hq => by rw [← hn, Path.swapAt_invol]; exact hq) _ _ h2
    rwa [(C09_swap_sp_invol p i j o s).1, (C09_swap_sp_invol p i j o s).2] at this
  · rintro ⟨h1, h2⟩
    exact ⟨h1, mem_allMappings_mapSp _ S _ (fun q hq => by rw [hn]; exact hq) o s h2⟩

/-! ## Non-vacuity -/

/-- Test data: `((x@00 [1,2], y@01 [2]), z@1 [1])` on `((A,B),C)`; an optimal
    solution with a transfer. -/
def swS : RTree := .node [.node [.node [], .node []], .node []]
def swO : OTree := .node (.node (.leaf [0, 0] [1, 2]) (.leaf [1] [2])) (.leaf [0, 1] [1])
def swC : Costs := { spe := 1, dup := 1, hgt := .fin 1, floss := 1, sloss := 1 }

-- The swaps really change input and solutions, and the solver results correspond.
example :
    swO.swapAt [0] = .node (.node (.leaf [1] [2]) (.leaf [0, 0] [1, 2])) (.leaf [0, 1] [1]) ∧
    swO.mirror = .node (.leaf [0, 1] [1]) (.node (.leaf [1] [2]) (.leaf [0, 0] [1, 2])) ∧
    (exhaustive swC swO).length = 5 ∧
    (exhaustive swC (swO.swapAt [0])) ≠ exhaustive swC swO ∧
    (∀ s ∈ exhaustive swC swO, s.swapAt [0] ∈ exhaustive swC (swO.swapAt [0])) ∧
    (∀ s ∈ exhaustive swC swO, s.mirror ∈ exhaustive swC swO.mirror) := by
  decide +kernel

-- Species swap at the node `[0]` (children A and B): inputs, tree and results move.
example :
    swO.mapSp (Path.swapAt [0] 0 1) =
      .node (.node (.leaf [0, 1] [1, 2]) (.leaf [1] [2])) (.leaf [0, 0] [1]) ∧
    (swS.swapAt [] 0 1).preorder = [[], [0], [1], [1, 0], [1, 1]] ∧
    swS.isBinary = true ∧ (∀ q ∈ leafSpecies swO, swS.isNode q = true) ∧
    swC.spe ≤ swC.dup + 2 * swC.floss ∧ 0 < swS.arityAt [0] ∧ 1 < swS.arityAt [0] ∧
    (thl swC swS swO).length = 5 ∧
    (∀ s ∈ thl swC swS swO,
      s.mapSp (Path.swapAt [0] 0 1) ∈ thl swC (swS.swapAt [0] 0 1) (swO.mapSp (Path.swapAt [0] 0 1))) := by
  decide +kernel

-- Ordered mode: a valid labelled solution stays valid with the same cost.
example :
    let sol : Sol := .node [] [1, 2] (.node [0] [1, 2] (.leaf [0, 0] [1, 2]) (.leaf [1] [2]))
      (.leaf [0, 1] [1])
    Spec.validSol .ordered swO sol = true ∧
    Spec.validSol .ordered (swO.swapAt []) (sol.swapAt []) = true ∧
    totalCost swC .ordered swO sol = .fin 6 ∧
    totalCost swC .ordered (swO.swapAt []) (sol.swapAt []) = .fin 6 ∧
    totalCost swC .unordered swO.mirror sol.mirror = totalCost swC .unordered swO sol := by
  decide +kernel

-- Unordered mode: a valid set-labelled solution stays valid with the same cost after a swap
-- below the root and after the full mirror (the gain node of family 2 moves from position
-- `[0]` to position `[1]` under the mirror).
example :
    let sol : Sol := .node [] [1] (.node [0] [1, 2] (.leaf [0, 0] [1, 2]) (.leaf [1] [2]))
      (.leaf [0, 1] [1])
    Spec.validSol .unordered swO sol = true ∧
    Spec.validSol .unordered (swO.swapAt [0]) (sol.swapAt [0]) = true ∧
    Spec.validSol .unordered swO.mirror sol.mirror = true ∧
    gainsAt swO [0] = [2] ∧ gainsAt swO.mirror [1] = [2] ∧ gainsAt swO.mirror [0] = [] ∧
    totalCost swC .unordered swO.mirror sol.mirror = totalCost swC .unordered swO sol ∧
    totalCost swC .unordered swO sol ≠ .inf := by
  decide +kernel

end SR.C09
