/-
  C15 / C13: the drawing model on the layout of a VALID reconciliation — unconditional.

  `C15_draw_valid` (Properties/C15Draw.lean) is conditional on `C14_anchors_statement`
  (no failing look-up on a valid reconciliation), which is now the theorem `SR.C14.C14_anchors`
  (Properties/C14Anchors.lean).  This file discharges the hypothesis.
-/
import SRVerif.Properties.C15Draw
import SRVerif.Properties.C14Anchors

namespace SR.C15

open SR SR.Layout SR.Tikz SR.TikzDraw

/-- End to end, for every valid reconciliation in a binary species tree (any size), a label width
    other than 0 and admissible decorations: `layout.compute` returns a layout, the drawing code
    (`render`'s species loop, `_tikz_draw_fork`, `_tikz_draw_branches`) makes its calls without
    raising, the calls contain — besides plain paths — exactly one event node per non-loss branch,
    one loss marker per `FULL_LOSS` branch and one arrow per transfer branch, every call
    instantiates a generated statement template admissibly, and the assembled text has balanced
    braces. -/
theorem C15_draw_valid_all (o : Orientation) (P : Params) (sizes : Key → Size) (dp : DParams)
    (deco : Deco) (defs : Str) (S : RTree) (ot : OTree) (sol : Sol)
    (hv : Spec.validRec ot sol = true) (hin : SR.C13.inTree S sol = true)
    (hb : S.isBinary = true) (hw : dp.labelWidth ≠ some 0) (hok : DecoOK dp deco)
    (hd : DefsOK defs) :
    ∃ all calls, compute o P sizes S sol = .ok all ∧
      drawCalls o dp deco S (spOfSol sol) all = .ok calls ∧
      marks (kinds calls) = all.flatMap (fun lay => lay.branches.flatMap expected) ∧
      (kinds calls).countP isEvent = nEvents (all.flatMap (·.branches)) ∧
      (kinds calls).countP isLossMarker = nLosses (all.flatMap (·.branches)) ∧
      (kinds calls).countP isTransfer = nTransfers (all.flatMap (·.branches)) ∧
      (∀ c ∈ calls.map DrawCall.toCall, CallOK c) ∧
      isBalanced (assemble defs calls) = true :=
  C15_draw_valid o P sizes dp deco defs S ot sol (SR.C14.C14_anchors o P sizes S ot sol)
    hv hin hb hw hok hd

end SR.C15
