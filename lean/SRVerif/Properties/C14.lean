/-
  UPDATE (build round 2): `C14_anchors_statement` is PROVED in Properties/C14Anchors.lean (with `C14_anchor_keys`, `C14_anchors_order`); branches-inside in C14Inside.lean.
  (The text below is kept as written in round 1; where it says "missing" / "not proved", see the files above.)

  C14 — Geometry of `layout.compute`: sibling species boxes are disjoint and
  nested in their parent's box, the HORIZONTAL layout is the mirror image of
  the VERTICAL one, and trunks of distinct species do not overlap.

  Model: `SRVerif/Model/Layout.lean`, part 2 (`stepV/H`, `layoutBranchesV/H`,
  `trunkDimsV/H`, `sizesV/H`, `finishV/H`, `placeV/H`, `computeV/H`,
  `compute`), exact rational coordinates.  The two orientations are
  transcribed separately from the two branches of every
  `if params.orientation == …` of `_layout_branches` / `_layout_subtrees`.

  Proofs: `SRVerif/Proofs/LayoutMirror.lean` (transposition `tr` and one
  mirror lemma per phase), `SRVerif/Proofs/LayoutGeom.lean` (invariants of
  the VERTICAL path; the HORIZONTAL results follow through the mirror
  theorem).  The transposition operators `Pos.tr`, `Rect.tr`, `Size.swap`,
  `FBranch.tr`, `SubLayout.tr` are defined in `LayoutMirror.lean` (they are
  needed by the phase lemmas); their defining equations are restated below.

  All theorems are about the OUTPUT LIST of `compute` (species are identified
  by `SubLayout.sp`, and `C14_species` / `C14_species_unique` say that the list
  has exactly one entry per species of the tree, in pre-order), for species
  trees of any size and arbitrary reconciliations; error cases included
  (`C14_mirror`) or excluded by the hypothesis `compute … = .ok all`.
-/
import SRVerif.Proofs.LayoutGeom
import SRVerif.Properties.C13
import Mathlib.Tactic.NormNum

namespace SR.C14

open SR SR.Layout

/-! ## Vocabulary -/

/-- `a` lies inside `b` (closed rectangles). -/
def inside (a b : Rect) : Prop :=
  b.x ≤ a.x ∧ b.y ≤ a.y ∧ a.x + a.w ≤ b.x + b.w ∧ a.y + a.h ≤ b.y + b.h

/-- `(x, y)` is a point of the closed rectangle `r`. -/
def hasPoint (r : Rect) (x y : Rat) : Prop :=
  r.x ≤ x ∧ x ≤ r.x + r.w ∧ r.y ≤ y ∧ y ≤ r.y + r.h

/-- `(x, y)` is an interior point of `r`. -/
def hasInteriorPoint (r : Rect) (x y : Rat) : Prop :=
  r.x < x ∧ x < r.x + r.w ∧ r.y < y ∧ y < r.y + r.h

/-- `a` ends at least `m` before `b` starts, along the ACROSS axis (the axis
    along which sibling species are laid out: x when VERTICAL, y when
    HORIZONTAL). -/
def acrossSep (o : Orientation) (m : Rat) (a b : Rect) : Prop :=
  match o with
  | .vertical => a.x + a.w + m ≤ b.x
  | .horizontal => a.y + a.h + m ≤ b.y

/-- `a` ends at least `m` before `b` starts, along the SEQUENCE axis (root to
    leaves: y when VERTICAL, x when HORIZONTAL). -/
def seqSep (o : Orientation) (m : Rat) (a b : Rect) : Prop :=
  match o with
  | .vertical => a.y + a.h + m ≤ b.y
  | .horizontal => a.x + a.w + m ≤ b.x

/-- `a` starts on the same line as `b` along the SEQUENCE axis. -/
def seqFlush (o : Orientation) (a b : Rect) : Prop :=
  match o with
  | .vertical => a.y = b.y
  | .horizontal => a.x = b.x

/-- Two rectangles separated along one of the two axes. -/
def separated (a b : Rect) : Prop :=
  a.x + a.w ≤ b.x ∨ b.x + b.w ≤ a.x ∨ a.y + a.h ≤ b.y ∨ b.y + b.h ≤ a.y

/-- The numeric hypotheses: measured sizes positive, spacing parameters
    non-negative, minimal subtree spacing positive. -/
def NumHyps (P : Params) (sizes : Key → Size) : Prop :=
  (∀ k, 0 < (sizes k).w ∧ 0 < (sizes k).h) ∧ 0 ≤ P.pad ∧ 0 ≤ P.gsp ∧ 0 ≤ P.overhead ∧
    0 ≤ P.level ∧ 0 < P.minsp

/-- The hypotheses are satisfiable (default-like parameters, unit sizes). -/
example : NumHyps ⟨4, 5, 10, 12, 4⟩ (fun _ => ⟨1, 1⟩) := by
  refine ⟨fun _ => ⟨?_, ?_⟩, ?_, ?_, ?_, ?_, ?_⟩ <;> norm_num

theorem NumHyps.hyps {P : Params} {sizes : Key → Size} (h : NumHyps P sizes) : Hyps P sizes :=
  ⟨h.1, h.2.1, h.2.2.1, h.2.2.2.1, h.2.2.2.2.1, h.2.2.2.2.2⟩

/-- Separated closed rectangles with a positive gap have no common point. -/
theorem no_common_point_of_acrossSep {o : Orientation} {m : Rat} {a b : Rect} (hm : 0 < m)
    (h : acrossSep o m a b) : ¬ ∃ x y, hasPoint a x y ∧ hasPoint b x y := by
  rintro ⟨x, y, ⟨_, h2, _, h4⟩, ⟨h5, _, h7, _⟩⟩
  cases o <;> simp only [acrossSep] at h <;> linarith

/-- Separated rectangles have no common interior point. -/
theorem no_common_interior_of_separated {a b : Rect} (h : separated a b) :
    ¬ ∃ x y, hasInteriorPoint a x y ∧ hasInteriorPoint b x y := by
  rintro ⟨x, y, ⟨h1, h2, h3, h4⟩, ⟨h5, h6, h7, h8⟩⟩
  rcases h with h | h | h | h <;> linarith

/-- A rectangle of positive size has an interior point (so
    `¬ ∃ common interior point` is a real constraint). -/
example : hasInteriorPoint ⟨0, 0, 2, 2⟩ 1 1 := by
  refine ⟨?_, ?_, ?_, ?_⟩ <;> norm_num

/-! ## A concrete instance (non-vacuity of `compute … = .ok all`) -/

/-- Species tree `((,),)`: five species. -/
def exS : RTree := .node [.node [.node [], .node []], .node []]

/-- A speciation at the root whose right child is an extant gene of species
    `[1]` and whose left child is a duplication in species `[0]` with two
    genes in `[0,0]` (so there are full losses in `[0,1]`). -/
def exSol : Sol :=
  .node [] [] (.node [0] [] (.leaf [0, 0] []) (.leaf [0, 0] [])) (.leaf [1] [])

def exP : Params := ⟨4, 5, 10, 12, 4⟩
def exSizes : Key → Size := fun _ => ⟨1, 1⟩

example : NumHyps exP exSizes := by
  refine ⟨fun _ => ⟨?_, ?_⟩, ?_, ?_, ?_, ?_, ?_⟩ <;> norm_num [exP, exSizes]

/-- On this instance `compute` succeeds in both orientations and lists the
    five species; `[]` and `[0]` are internal species whose children
    `[0], [1]` and `[0,0], [0,1]` are in the list, so the hypotheses of
    `C14_siblings`, `C14_trunk_above_children` and `C14_trunks` are met by
    actual entries. -/
example : ∃ all, compute .vertical exP exSizes exS exSol = .ok all ∧
    all.map (·.sp) = [[], [0], [0, 0], [0, 1], [1]] := ⟨_, rfl, by decide⟩

example : ∃ all, compute .horizontal exP exSizes exS exSol = .ok all ∧
    all.map (·.sp) = [[], [0], [0, 0], [0, 1], [1]] := ⟨_, rfl, by decide⟩

/-- … and the premises of `C14_siblings` are met by entries of the list. -/
example : ∃ all, compute .vertical exP exSizes exS exSol = .ok all ∧
    ∃ par ∈ all, ∃ l ∈ all, ∃ r ∈ all, l.sp = par.sp ++ [0] ∧ r.sp = par.sp ++ [1] := by
  refine ⟨_, rfl, ?_⟩
  decide

/-! ## The list of species -/

/-- `compute` returns one `SubLayout` per species of the tree, in pre-order. -/
theorem C14_species (o : Orientation) (P : Params) (sizes : Key → Size) (S : RTree) (sol : Sol)
    (all : List SubLayout) (h : compute o P sizes S sol = .ok all) :
    all.map (·.sp) = S.preorder := by
  cases o
  · exact computeV_species h
  · exact computeH_species h

/-- Equal `sp` means same entry (under the numeric hypotheses). -/
theorem C14_species_unique (o : Orientation) (P : Params) (sizes : Key → Size) (S : RTree)
    (sol : Sol) (all : List SubLayout) (hn : NumHyps P sizes)
    (h : compute o P sizes S sol = .ok all) :
    ∀ a b, a ∈ all → b ∈ all → a.sp = b.sp → a = b := by
  cases o
  · exact (computeV_facts hn.hyps h).unique
  · intro a b ha hb hab
    have := (computeH_facts hn.hyps h).unique a.tr b.tr (List.mem_map_of_mem ha)
      (List.mem_map_of_mem hb) hab
    rw [← SubLayout.tr_tr a, ← SubLayout.tr_tr b, this]

/-! ## (1) Sibling boxes -/

/-- For every internal species `par` with children `l` (index 0) and `r`
    (index 1): the boxes of `l` and `r` are separated by at least
    `min_subtree_spacing` along the across-axis — hence have no common point,
    boundary included — and both lie inside the box of `par`. -/
theorem C14_siblings (o : Orientation) (P : Params) (sizes : Key → Size) (S : RTree) (sol : Sol)
    (all : List SubLayout)
    (hpos : ∀ k, 0 < (sizes k).w ∧ 0 < (sizes k).h)
    (hpad : 0 ≤ P.pad) (hgsp : 0 ≤ P.gsp) (hov : 0 ≤ P.overhead) (hlev : 0 ≤ P.level)
    (hmin : 0 < P.minsp)
    (h : compute o P sizes S sol = .ok all) :
    ∀ par l r, par ∈ all → l ∈ all → r ∈ all → l.sp = par.sp ++ [0] → r.sp = par.sp ++ [1] →
      acrossSep o P.minsp l.rect r.rect ∧
      (¬ ∃ x y, hasPoint l.rect x y ∧ hasPoint r.rect x y) ∧
      inside l.rect par.rect ∧ inside r.rect par.rect := by
  have hy : Hyps P sizes := ⟨hpos, hpad, hgsp, hov, hlev, hmin⟩
  intro par l r hp hl hr hl' hr'
  have key : acrossSep o P.minsp l.rect r.rect ∧ inside l.rect par.rect ∧
      inside r.rect par.rect := by
    cases o
    · exact (computeV_facts hy h).siblings par l r hp hl hr hl' hr'
    · obtain ⟨h1, ⟨a1, a2, a3, a4⟩, ⟨b1, b2, b3, b4⟩⟩ :=
        (computeH_facts hy h).siblings par.tr l.tr r.tr (List.mem_map_of_mem hp)
          (List.mem_map_of_mem hl) (List.mem_map_of_mem hr) hl' hr'
      exact ⟨h1, ⟨a2, a1, a4, a3⟩, ⟨b2, b1, b4, b3⟩⟩
  exact ⟨key.1, no_common_point_of_acrossSep hmin key.1, key.2.1, key.2.2⟩

/-! ## (2) Mirror -/

example (x y : Rat) : Pos.tr ⟨x, y⟩ = ⟨y, x⟩ := rfl
example (x y w h : Rat) : Rect.tr ⟨x, y, w, h⟩ = ⟨y, x, h, w⟩ := rfl
example (w h : Rat) : Size.swap ⟨w, h⟩ = ⟨h, w⟩ := rfl
example (b : FBranch) : b.tr = ⟨b.key, b.kind, b.left, b.right, b.rect.tr, b.aParent.tr,
    b.aLeft.tr, b.aRight.tr, b.aChild.tr⟩ := rfl
example (l : SubLayout) : l.tr = ⟨l.sp, l.rect.tr, l.trunk.tr, l.fork,
    l.anchors.map (fun e => (e.1, e.2.tr)), l.branches.map FBranch.tr⟩ := rfl

/-- The HORIZONTAL layout is the transposed VERTICAL layout of the same
    reconciliation with the measured sizes exchanged — errors included, no
    hypothesis on sizes or parameters. -/
theorem C14_mirror (P : Params) (sizes : Key → Size) (S : RTree) (sol : Sol) :
    computeH P sizes S sol =
      (computeV P (fun k => (sizes k).swap) S sol).map (List.map SubLayout.tr) :=
  computeH_tr P sizes S sol

/-- The same, through `compute`. -/
theorem C14_mirror_compute (P : Params) (sizes : Key → Size) (S : RTree) (sol : Sol) :
    compute .horizontal P sizes S sol =
      (compute .vertical P (fun k => (sizes k).swap) S sol).map (List.map SubLayout.tr) :=
  computeH_tr P sizes S sol

/-- Conversely (transposition is an involution). -/
theorem C14_mirror_compute_conv (P : Params) (sizes : Key → Size) (S : RTree) (sol : Sol) :
    compute .vertical P sizes S sol =
      (compute .horizontal P (fun k => (sizes k).swap) S sol).map (List.map SubLayout.tr) := by
  rw [C14_mirror_compute]
  simp only [Size.swap_swap]
  show computeV P sizes S sol =
    Except.map (List.map SubLayout.tr) (Except.map (List.map SubLayout.tr) (computeV P sizes S sol))
  cases computeV P sizes S sol with
  | error e => rfl
  | ok all =>
    simp only [Except.map_ok', List.map_map, Except.ok.injEq]
    conv => lhs; rw [← List.map_id all]
    apply List.map_congr_left
    intro e _
    exact (SubLayout.tr_tr e).symm

/-! ## (3) Trunks -/

/-- Every trunk lies inside the box of its species, starts on the box's first
    edge along the sequence axis, and all extents are non-negative. -/
theorem C14_trunk_inside (o : Orientation) (P : Params) (sizes : Key → Size) (S : RTree)
    (sol : Sol) (all : List SubLayout) (hn : NumHyps P sizes)
    (h : compute o P sizes S sol = .ok all) :
    ∀ a, a ∈ all → inside a.trunk a.rect ∧ seqFlush o a.trunk a.rect ∧
      0 ≤ a.rect.w ∧ 0 ≤ a.rect.h ∧ 0 ≤ a.trunk.w ∧ 0 ≤ a.trunk.h ∧ 0 ≤ a.fork := by
  intro a ha
  cases o
  · obtain ⟨t1, t2, t3, t4⟩ := (computeV_facts hn.hyps h).trunkIn a ha
    obtain ⟨n1, n2, n3, n4, n5⟩ := (computeV_facts hn.hyps h).nonneg a ha
    exact ⟨⟨t1, le_of_eq t3.symm, t2, t4⟩, t3, n1, n2, n3, n4, n5⟩
  · obtain ⟨t1, t2, t3, t4⟩ := (computeH_facts hn.hyps h).trunkIn a.tr (List.mem_map_of_mem ha)
    obtain ⟨n1, n2, n3, n4, n5⟩ := (computeH_facts hn.hyps h).nonneg a.tr (List.mem_map_of_mem ha)
    exact ⟨⟨le_of_eq t3.symm, t1, t4, t2⟩, t3, n2, n1, n4, n3, n5⟩

/-- A species' trunk ends, along the sequence axis, at least
    `level_spacing + fork thickness` before the box of every proper
    descendant `d` (in particular of its two children) starts. -/
theorem C14_trunk_above_children (o : Orientation) (P : Params) (sizes : Key → Size) (S : RTree)
    (sol : Sol) (all : List SubLayout) (hn : NumHyps P sizes)
    (h : compute o P sizes S sol = .ok all) :
    ∀ par d k q, par ∈ all → d ∈ all → d.sp = par.sp ++ k :: q →
      seqSep o (P.level + par.fork) par.trunk d.rect := by
  intro par d k q hp hd hsp
  cases o
  · have := (computeV_facts hn.hyps h).trunkAbove par d k q hp hd hsp
    simp only [seqSep]
    linarith
  · have := (computeH_facts hn.hyps h).trunkAbove par.tr d.tr k q (List.mem_map_of_mem hp)
      (List.mem_map_of_mem hd) hsp
    simp only [seqSep]
    simp only [SubLayout.tr, Rect.tr] at this
    linarith

/-- Trunks of two distinct species are separated along one of the axes, hence
    have no common interior point (full statement). -/
theorem C14_trunks (o : Orientation) (P : Params) (sizes : Key → Size) (S : RTree) (sol : Sol)
    (all : List SubLayout)
    (hpos : ∀ k, 0 < (sizes k).w ∧ 0 < (sizes k).h)
    (hpad : 0 ≤ P.pad) (hgsp : 0 ≤ P.gsp) (hov : 0 ≤ P.overhead) (hlev : 0 ≤ P.level)
    (hmin : 0 < P.minsp)
    (h : compute o P sizes S sol = .ok all) :
    ∀ a b, a ∈ all → b ∈ all → a.sp ≠ b.sp →
      separated a.trunk b.trunk ∧
      ¬ ∃ x y, hasInteriorPoint a.trunk x y ∧ hasInteriorPoint b.trunk x y := by
  have hy : Hyps P sizes := ⟨hpos, hpad, hgsp, hov, hlev, hmin⟩
  intro a b ha hb hab
  have key : separated a.trunk b.trunk := by
    cases o
    · exact (computeV_facts hy h).trunks a b ha hb hab
    · rcases (computeH_facts hy h).trunks a.tr b.tr (List.mem_map_of_mem ha)
        (List.mem_map_of_mem hb) hab with h1 | h1 | h1 | h1
      · exact .inr (.inr (.inl h1))
      · exact .inr (.inr (.inr h1))
      · exact .inl h1
      · exact .inr (.inl h1)
  exact ⟨key, no_common_interior_of_separated key⟩

/-! ## Anchors -/

/-- Full statement of the anchor clause: every dictionary look-up made while
    laying out the branches (`layout["branches"][left]["rect"]`) and while
    drawing (`X_layout.anchors[...]`, `layout.branches[...]`) succeeds, i.e.
    the model of `tikz.render ∘ layout.compute` returns `.ok`.  NOT proved in
    full (decided on every generated input by `harness/checks/c14.py`). -/
def C14_anchors_statement (o : Orientation) (P : Params) (sizes : Key → Size) (S : RTree)
    (ot : OTree) (sol : Sol) : Prop :=
  Spec.validRec ot sol = true → SR.C13.inTree S sol = true → S.isBinary = true →
    ∃ ss, render o P sizes S sol = .ok ss

/-- **C14, anchors** (partial).  Proved: on a valid reconciliation
    `_compute_branches` never fails — in particular every
    `anchor_nodes.remove(k)` finds `k` — and the end point of every transfer
    arrow, `foreign_layout.anchors[right_gene]`, is an anchor of the species
    the transferred child is mapped to (it is never removed from
    `anchor_nodes`).  Missing: that the keys referenced by duplication /
    transfer branches occur EARLIER in the same species' branch list (so that
    `_layout_branches` finds their `rect`), and that the kept child of a loss
    or speciation branch is still an anchor of the child species at the end. -/
theorem C14_anchors_partial (S : RTree) (ot : OTree) (sol : Sol)
    (hv : Spec.validRec ot sol = true) (hin : SR.C13.inTree S sol = true) :
    ∃ st, computeBranches S sol = .ok st ∧
      ∀ p sp f l r, subAt sol p = some (.node sp f l r) → internalEvent sp l.sp r.sp = .hgt →
        ∃ b, b ∈ brs st sp ∧ b.key = .gene p ∧
          b.right = some (.gene (if Path.isAnc sp l.sp then p ++ [1] else p ++ [0])) ∧
          Key.gene (if Path.isAnc sp l.sp then p ++ [1] else p ++ [0]) ∈
            ancs st (if Path.isAnc sp l.sp then r.sp else l.sp) := by
  obtain ⟨st, hst, _⟩ := SR.C13.C13_no_keyerror S ot sol hv hin
  refine ⟨st, hst, ?_⟩
  intro p sp f l r hp hE
  obtain ⟨b, hb, hk, _, hr, ha⟩ := SR.C13.C13_transfers S ot sol st hv hin hst p sp f l r hp hE
  exact ⟨b, hb, hk, hr, ha⟩

example : Spec.validRec SR.C13.exO SR.C13.exSol = true ∧ SR.C13.inTree SR.C13.exS SR.C13.exSol = true := by
  decide

end SR.C14
