/-
  C09 — the cost clauses: "multiplying every unit cost by k multiplies the
  minimum by k and keeps the optimal set, and raising one unit cost never
  lowers the minimum".

  * `C09_scale : C09_scale_statement`, `C09_mono : C09_mono_statement` — the two
    statements of `C09.lean`, verbatim, about the specification's optimum
    `Spec.optimum` (minimum over ALL valid solutions by the plain tree recursion
    over the evaluator's local cost), for every mode (plain, ordered,
    unordered), every input, NO coherence hypothesis.
  * `C09_scale_opt`, `C09_mono_opt` — the same for every variant of the oracle
    (`base`, `keep`, prescribed root order); the optimal set is the same LIST.
  * `C09_scale_table`, `C09_mono_table` — cell level.
  * `C09_eval_scale`, `C09_eval_mono` — the evaluator `totalCost` is homogeneous
    and monotone in the cost vector for EVERY solution (valid or not; scaling
    even for `k = 0`).
  * `C09_rank_scale`, `C09_rank_mono` — hence any solver whose result is "the
    arg-min of the evaluated cost over a candidate set that does not depend on
    the costs" (`rankByCost`) returns the same set after scaling, its minimum is
    scaled, and its minimum is monotone; `C09_scale_exh`, `C09_mono_exh` are the
    instances for `reconcile_exhaustive`.
  The transfer to the DP solvers through their optimality theorems is in
  `C09Transfer.lean`.

  Helper lemmas: `Proofs/OptScale.lean`, `Proofs/OptMono.lean`.
-/
import SRVerif.Properties.C09
import SRVerif.Proofs.OptMono

namespace SR.C09

open SR SR.EventLog

/-- `Costs.scale` of `C09.lean` is `scaleCosts` of the evaluator's specification. -/
theorem C09_scale_eq (k : Nat) (c : Costs) : Costs.scale k c = scaleCosts k c := rfl

/-- Pointwise order on cost vectors, as spelled out in `C09_mono_statement`. -/
theorem C09_leCosts_iff (c c' : Costs) :
    leCosts c c' ↔ (c.spe ≤ c'.spe ∧ c.dup ≤ c'.dup ∧ Cost.le c.hgt c'.hgt = true ∧
      c.floss ≤ c'.floss ∧ c.sloss ≤ c'.sloss) := Iff.rfl

/-! ### Running example -/

def exC : Costs := { spe := 1, dup := 2, hgt := .fin 3, floss := 1, sloss := 1 }
/-- Dearer: duplication, transfer (now impossible) and segmental loss raised. -/
def exC' : Costs := { spe := 1, dup := 4, hgt := .inf, floss := 1, sloss := 2 }
def exS : RTree := .node [.node [.node [], .node []], .node []]
def exO : OTree := .node (.node (.leaf [0, 0] [1, 2]) (.leaf [1] [2])) (.leaf [0, 1] [1])

/-! ### The specification's optimum -/

/-- **Scaling, cell level.**  With every unit cost multiplied by `k > 0`, the
    table of the oracle has the same cells (species, label, optimal solutions)
    and every value is multiplied by `k`. -/
theorem C09_scale_table (c : Costs) (S : RTree) (md : Spec.ModeData) (base keep : Bool)
    (whole : OTree) (p : Path) (o : OTree) (k : Nat) (hk : 0 < k) :
    Spec.optTable (Costs.scale k c) S md base keep whole p o
      = (Spec.optTable c S md base keep whole p o).map
          (fun d => { d with cost := Cost.scale k d.cost }) :=
  Spec.optTable_scale hk c S md base keep whole p o

/-- **Scaling, all variants of the oracle**: the optimum is multiplied by `k` and
    the optimal set is unchanged (as a list). -/
theorem C09_scale_opt (c : Costs) (S : RTree) (mode : LabelMode) (base keep : Bool) (o : OTree)
    (pre : Option (List Nat)) (k : Nat) (hk : 0 < k) :
    (Spec.optimum (Costs.scale k c) S mode base keep o pre).1
        = Cost.scale k (Spec.optimum c S mode base keep o pre).1 ∧
    (Spec.optimum (Costs.scale k c) S mode base keep o pre).2
        = (Spec.optimum c S mode base keep o pre).2 := by
  rw [C09_scale_eq, Spec.optimum_scale hk]
  exact ⟨rfl, rfl⟩

/-- **C09, scaling clause** (`C09_scale_statement` of `C09.lean`, verbatim). -/
theorem C09_scale : C09_scale_statement := by
  intro c S mode o k hk
  obtain ⟨h1, h2⟩ := C09_scale_opt c S mode false true o none k hk
  exact ⟨h1, fun s => by rw [h2]⟩

-- non-vacuity: a non-trivial optimum (one speciation, one transfer: 1 + 3) is
-- multiplied by 3, and the optimal set is non-empty and the same
example : (Spec.optimum exC exS .plain false true exO none).1 = .fin 4 ∧
    (Spec.optimum (Costs.scale 3 exC) exS .plain false true exO none).1 = .fin 12 ∧
    (Spec.optimum exC exS .plain false true exO none).2.length = 1 ∧
    (Spec.optimum (Costs.scale 3 exC) exS .plain false true exO none).2
      = (Spec.optimum exC exS .plain false true exO none).2 := by
  decide +kernel

example : (Spec.optimum exC exS .ordered false true exO none).1 = .fin 5 ∧
    (Spec.optimum (Costs.scale 2 exC) exS .ordered false true exO none).1 = .fin 10 ∧
    (Spec.optimum exC exS .unordered false true exO none).1 = .fin 4 ∧
    (Spec.optimum (Costs.scale 2 exC) exS .unordered false true exO none).1 = .fin 8 := by
  decide +kernel

/-- `k > 0` is necessary: with `k = 0` every valid solution becomes optimal. -/
theorem C09_scale_zero_witness :
    (Spec.optimum (Costs.scale 0 exC) exS .plain false true exO none).2.length
      ≠ (Spec.optimum exC exS .plain false true exO none).2.length := by
  decide +kernel

/-- **Monotonicity, cell level**: every cell present under the dearer costs is
    present under the cheaper ones with a value that is no larger.  (The converse
    presence fails: a cell can become infinite — be dropped — when the transfer
    cost is raised to `inf`.) -/
theorem C09_mono_table (c c' : Costs) (hcc : leCosts c c') (S : RTree) (md : Spec.ModeData)
    (base keep keep' : Bool) (whole : OTree) (p : Path) (o : OTree) :
    ∀ d' ∈ Spec.optTable c' S md base keep' whole p o,
      ∃ d ∈ Spec.optTable c S md base keep whole p o,
        d.sp = d'.sp ∧ d.fam = d'.fam ∧ Cost.le d.cost d'.cost = true :=
  Spec.optTable_mono hcc S md base keep keep' whole p o

/-- **Monotonicity, all variants of the oracle.** -/
theorem C09_mono_opt (c c' : Costs) (hcc : leCosts c c') (S : RTree) (mode : LabelMode)
    (base keep keep' : Bool) (o : OTree) (pre : Option (List Nat)) :
    Cost.le (Spec.optimum c S mode base keep o pre).1 (Spec.optimum c' S mode base keep' o pre).1
      = true :=
  Spec.optimum_mono hcc S mode base keep keep' o pre

/-- **C09, monotonicity clause** (`C09_mono_statement` of `C09.lean`, verbatim). -/
theorem C09_mono : C09_mono_statement := by
  intro c c' S mode o h1 h2 h3 h4 h5
  exact C09_mono_opt c c' ⟨h1, h2, h3, h4, h5⟩ S mode false false false o none

-- non-vacuity: a strictly dearer vector with a strictly larger optimum
-- (the transfer is no longer possible), and cells that disappear
example : leCosts exC exC' ∧
    (Spec.optimum exC exS .plain false false exO none).1 = .fin 4 ∧
    (Spec.optimum exC' exS .plain false false exO none).1 = .fin 8 ∧
    (Spec.optimum exC exS .unordered false false exO none).1 = .fin 4 ∧
    (Spec.optimum exC' exS .unordered false false exO none).1 = .fin 10 ∧
    (Spec.optTable exC' exS .plain false false exO [] exO).length
      < (Spec.optTable exC exS .plain false false exO [] exO).length := by
  refine ⟨⟨?_, ?_, ?_, ?_, ?_⟩, ?_⟩ <;> decide +kernel

/-! ### The evaluator -/

/-- **The evaluated cost of ANY solution is homogeneous in the cost vector** (no
    validity hypothesis, every `k`). -/
theorem C09_eval_scale (k : Nat) (c : Costs) (mode : LabelMode) (o : OTree) (sol : Sol) :
    totalCost (Costs.scale k c) mode o sol = Cost.scale k (totalCost c mode o sol) :=
  totalCost_scale k c mode o sol

/-- **The evaluated cost of ANY solution is monotone in every unit cost.** -/
theorem C09_eval_mono (c c' : Costs) (hcc : leCosts c c') (mode : LabelMode) (o : OTree)
    (sol : Sol) : Cost.le (totalCost c mode o sol) (totalCost c' mode o sol) = true :=
  totalCost_mono hcc mode o sol

example : totalCost exC .plain exO
      (.node [] [] (.node [0, 0] [] (.leaf [0, 0] []) (.leaf [1] [])) (.leaf [0, 1] [])) = .fin 9 ∧
    totalCost (Costs.scale 7 exC) .plain exO
      (.node [] [] (.node [0, 0] [] (.leaf [0, 0] []) (.leaf [1] [])) (.leaf [0, 1] [])) = .fin 63 ∧
    totalCost exC' .plain exO
      (.node [] [] (.node [0, 0] [] (.leaf [0, 0] []) (.leaf [1] [])) (.leaf [0, 1] [])) = .inf := by
  decide +kernel

/-! ### Solvers that rank a cost-independent candidate set by evaluated cost -/

/-- Comparisons of evaluated costs are unchanged by scaling with `k > 0`. -/
theorem C09_eval_scale_le (k : Nat) (hk : 0 < k) (c : Costs) (mode : LabelMode) (o : OTree)
    (s s' : Sol) :
    Cost.le (totalCost (Costs.scale k c) mode o s) (totalCost (Costs.scale k c) mode o s')
      = Cost.le (totalCost c mode o s) (totalCost c mode o s') := by
  rw [C09_eval_scale, C09_eval_scale, Cost.scale_le hk]

/-- **Scaling for arg-min solvers**: over a fixed candidate list, the result entry
    after scaling has the same members, and the minimum evaluated cost is scaled. -/
theorem C09_rank_scale (k : Nat) (hk : 0 < k) (c : Costs) (mode : LabelMode) (o : OTree)
    (cands : List Sol) :
    (∀ s, s ∈ rankByCost (Costs.scale k c) mode o cands ↔ s ∈ rankByCost c mode o cands) ∧
    Cost.minList (cands.map (totalCost (Costs.scale k c) mode o))
      = Cost.scale k (Cost.minList (cands.map (totalCost c mode o))) := by
  constructor
  · intro s
    simp only [mem_rankByCost, C09_eval_scale_le k hk]
  · rw [← Cost.scale_minList hk, List.map_map]
    exact congrArg Cost.minList (List.map_congr_left (fun s _ => C09_eval_scale k c mode o s))

/-- **Monotonicity for arg-min solvers**: over a fixed candidate list, the minimum
    evaluated cost is monotone in the cost vector; so is the cost of the returned
    solutions. -/
theorem C09_rank_mono (c c' : Costs) (hcc : leCosts c c') (mode : LabelMode) (o : OTree)
    (cands : List Sol) :
    Cost.le (Cost.minList (cands.map (totalCost c mode o)))
        (Cost.minList (cands.map (totalCost c' mode o))) = true ∧
    ∀ s ∈ rankByCost c mode o cands, ∀ s' ∈ rankByCost c' mode o cands,
      Cost.le (totalCost c mode o s) (totalCost c' mode o s') = true := by
  constructor
  · rcases Cost.minList_mem_or_inf (cands.map (totalCost c' mode o)) with h | h
    · rw [h]; exact Cost.le_inf _
    · obtain ⟨s, hs, e⟩ := List.mem_map.mp h
      rw [← e]
      exact Cost.le_trans (Cost.minList_le (List.mem_map.mpr ⟨s, hs, rfl⟩))
        (C09_eval_mono c c' hcc mode o s)
  · intro s hs s' hs'
    rw [mem_rankByCost] at hs hs'
    exact Cost.le_trans (hs.2 s' hs'.1) (C09_eval_mono c c' hcc mode o s')

/-- **C09 scaling for `reconcile_exhaustive`** (all unit costs, no coherence): the
    returned set is unchanged and the cost of each returned solution is scaled. -/
theorem C09_scale_exh (k : Nat) (hk : 0 < k) (c : Costs) (o : OTree) :
    (∀ s, s ∈ exhaustive (Costs.scale k c) o ↔ s ∈ exhaustive c o) ∧
    ∀ s ∈ exhaustive c o,
      totalCost (Costs.scale k c) .plain o s = Cost.scale k (totalCost c .plain o s) :=
  ⟨(C09_rank_scale k hk c .plain o (generateAll o)).1,
    fun s _ => C09_eval_scale k c .plain o s⟩

/-- **C09 monotonicity for `reconcile_exhaustive`**: no solution returned under the
    dearer costs is cheaper than a solution returned under the cheaper costs. -/
theorem C09_mono_exh (c c' : Costs) (hcc : leCosts c c') (o : OTree) :
    ∀ s ∈ exhaustive c o, ∀ s' ∈ exhaustive c' o,
      Cost.le (totalCost c .plain o s) (totalCost c' .plain o s') = true :=
  (C09_rank_mono c c' hcc .plain o (generateAll o)).2

example : (exhaustive exC exO).map (totalCost exC .plain exO) = [.fin 4] ∧
    exhaustive (Costs.scale 5 exC) exO = exhaustive exC exO ∧
    (exhaustive exC' exO).map (totalCost exC' .plain exO) = [.fin 8] := by
  decide +kernel

end SR.C09
