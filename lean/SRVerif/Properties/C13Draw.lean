/-
  C13, drawing clause, at the level of the drawing calls / generated TikZ statements.

  `C13_tikz_statement` (Properties/C13.lean) speaks about the statement-KIND model `Layout.render`.
  `C13_tikz_draw` transports it to the drawing-call model `TikzDraw.drawCalls` (which names the
  generated statement template and the fillings of every statement of the text): whenever the
  statement-kind clause holds for a reconciliation, the drawing code does not raise on its layout
  and the calls it makes contain exactly one event-node statement per object node, as many loss
  markers as the evaluator counts losses, and one arrow per transfer, pointing at the transferred
  child.  (`C15_draw_kinds` is the underlying equality of the two models, errors included.)
-/
import SRVerif.Properties.C13
import SRVerif.Properties.C15Draw

namespace SR.C13

open SR SR.Layout SR.TikzDraw

/-- **C13, drawing clause, for the drawing calls.**  For a binary species tree and a species-label
    width other than 0 (for which `textwrap` raises): if `C13_tikz_statement` holds, then
    `layout.compute` succeeds, `tikz.render` makes its drawing calls without raising, and among the
    statement kinds of those calls (`C15_draw_stmtOf`: `\node[extant gene=…`, `\node[speciation=…`,
    `\node[duplication=…`, `\node[horizontal gene transfer=…` owned by the node's branch) there is
    exactly one event node per object node, exactly `evalLossCount sol` loss markers
    (`\node[loss=…`) and, per transfer node, exactly one arrow (`\path[transfer branch=…`) whose
    target is the transferred child. -/
theorem C13_tikz_draw (o : Orientation) (P : Params) (sizes : Key → Size) (dp : DParams)
    (deco : Deco) (S : RTree) (sol : Sol) (hb : S.isBinary = true) (hw : dp.labelWidth ≠ some 0)
    (h : C13_tikz_statement o P sizes S sol) :
    ∃ all calls, compute o P sizes S sol = .ok all ∧
      drawCalls o dp deco S (spOfSol sol) all = .ok calls ∧
      (∀ p sub, subAt sol p = some sub →
        ((kinds calls).filter fun x => match x with
          | .event k _ => k == Key.gene p | _ => false).length = 1) ∧
      ((kinds calls).filter fun x => match x with | .lossMarker _ => true | _ => false).length
        = evalLossCount sol ∧
      (∀ p sp f l r, subAt sol p = some (.node sp f l r) → internalEvent sp l.sp r.sp = .hgt →
        ((kinds calls).filter fun x => match x with
          | .transfer src tgt => src == Key.gene p &&
              tgt == Key.gene (if Path.isAnc sp l.sp then p ++ [1] else p ++ [0])
          | _ => false).length = 1) := by
  obtain ⟨ss, hr, h1, h2, h3⟩ := h
  rw [SR.C15.C15_draw_kinds o P sizes dp deco S sol hb hw] at hr
  cases hc : compute o P sizes S sol with
  | error e => simp [hc] at hr
  | ok all =>
    simp only [hc] at hr
    cases hd : drawCalls o dp deco S (spOfSol sol) all with
    | error e => simp [hd] at hr
    | ok calls =>
      simp only [hd, mapE_ok, Except.ok.injEq] at hr
      subst hr
      exact ⟨all, calls, rfl, hd, h1, h2, h3⟩

/-- Conversely, what the drawing calls show is what the statement-kind model shows: a proof of the
    three clauses for `drawCalls` gives `C13_tikz_statement`. -/
theorem C13_tikz_of_draw (o : Orientation) (P : Params) (sizes : Key → Size) (dp : DParams)
    (deco : Deco) (S : RTree) (sol : Sol) (hb : S.isBinary = true) (hw : dp.labelWidth ≠ some 0)
    (all : List SubLayout) (calls : List DrawCall) (hc : compute o P sizes S sol = .ok all)
    (hd : drawCalls o dp deco S (spOfSol sol) all = .ok calls)
    (h1 : ∀ p sub, subAt sol p = some sub →
        ((kinds calls).filter fun x => match x with
          | .event k _ => k == Key.gene p | _ => false).length = 1)
    (h2 : ((kinds calls).filter fun x => match x with | .lossMarker _ => true | _ => false).length
        = evalLossCount sol)
    (h3 : ∀ p sp f l r, subAt sol p = some (.node sp f l r) → internalEvent sp l.sp r.sp = .hgt →
        ((kinds calls).filter fun x => match x with
          | .transfer src tgt => src == Key.gene p &&
              tgt == Key.gene (if Path.isAnc sp l.sp then p ++ [1] else p ++ [0])
          | _ => false).length = 1) :
    C13_tikz_statement o P sizes S sol := by
  refine ⟨kinds calls, ?_, h1, h2, h3⟩
  rw [SR.C15.C15_draw_kinds o P sizes dp deco S sol hb hw, hc]
  simp only [hd, mapE_ok]

/-- Non-vacuity: on the example of `Properties/C13.lean` the drawing calls exist and carry one
    event node per object node (7), the evaluator's number of loss markers and one arrow. -/
example :
    (match compute .vertical ⟨4, 5, 10, 12, 4⟩ (fun _ => ⟨8, 8⟩) exS exSol with
     | .ok all =>
       match drawCalls .vertical ⟨1, 3, "4pt".toList, some 21⟩
           ⟨fun _ _ => [], fun _ _ => "000000".toList, fun _ => "A_b".toList⟩ exS (spOfSol exSol) all with
       | .ok calls => ((kinds calls).countP isEvent, (kinds calls).countP isLossMarker,
                       (kinds calls).countP isTransfer)
       | .error _ => (0, 0, 0)
     | .error _ => (0, 0, 0)) = (7, evalLossCount exSol, 1) := by decide +kernel

end SR.C13
