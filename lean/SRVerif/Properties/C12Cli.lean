/-
  C12 (extension) — the glue of `cli/reconcile.py` and `cli/draw.py`.

  Model: `SRVerif/Model/CliGlue.lean` (on top of `Model/Cli.lean`).

  * `C12_read_input`        what `read_input` reads from the document, which class it
                            builds, the costs it installs, the names after `label_internal`.
  * `C12_eval_cost`         the option language: every expression tree is the parse of its
                            fully parenthesised token string; literals and `float('inf')`;
                            Python's evaluation order; `+` is the `+` of the cost model.
                            (Operator precedence and the lexer are tied to Python by the
                            harness, not by a theorem: Python's grammar is not modelled.)
  * `C12_cost_args`         defaults, last occurrence wins, first exception in argv order.
  * `C12_one_object_per_result`  the output text is one line per result, in order.
  * `C12_status`            exit status, what is printed on stderr, nothing written on failure.
  * `C12_cost_line`         composition with C05 / C11: the printed minimum cost is the
                            evaluated cost of EVERY written object after read-back.
  * `C12_all_superset_any`  `--solutions all` writes every line `--solutions any` writes.
  * `C12_draw`              kind of output, orientation, status.

  Interface hypotheses of the two compositions (they connect models of different
  types — `Sol` of the solvers, `SRecOutput` of the serialiser — and json, which is not
  modelled): `emb : Sol → SRecOutput` with `ev (emb s) = totalCost c mode o s`
  (C06 is about `totalCost`), `parse (render d) = some d`, `NewickLaw write read`.
  These hypotheses are DISCHARGED in `Properties/C12Bridge.lean` (concrete embedding of
  `Model/SolOutput.lean`; only `parse (render d) = some d` for JSON text remains there).
-/
import SRVerif.Proofs.CliGlue
import SRVerif.Properties.C12
import SRVerif.Properties.C11
import SRVerif.Properties.C05AnyUn

namespace SR.C12

open SR SR.Ser SR.Cli

/-! ### `read_input` -/

/-- `read_input` on the parsed document `doc` with the evaluated cost options
    `argCosts`, when it succeeds:
    * `object_tree` and `species_tree` are string keys of the document, read by the Newick
      reader into `ot`, `st`;
    * the trees of the input are `label_internal` of them (`O#` / `S#`);
    * the costs are the command line's (`dict(…)` of the pairs), whatever the file says;
    * the class is `SuperReconciliationInput` iff the key `leaf_syntenies` is present, and
      then the leaf syntenies are the parsed value of that key;
    * without `leaf_object_species` the leaf assignment is `get_species_mapping(ot, st)`,
      otherwise the parsed value of that key. -/
theorem C12_read_input (read : String → Option NT) (doc : List (String × JV)) (argCosts : CostValues)
    (inp : AnyInput) (h : readDoc read doc argCosts = .ok inp) :
    ∃ ots sts ot st,
      doc.lookup "object_tree" = some (.str ots) ∧ read ots = some ot ∧
      doc.lookup "species_tree" = some (.str sts) ∧ read sts = some st ∧
      inp.base.objectTree = labelTree "O" ot ∧ inp.base.speciesTree = labelTree "S" st ∧
      inp.base.costs = Dict.ofList argCosts ∧
      (AnyInput.kind inp = InputKind.super ↔ (doc.lookup "leaf_syntenies").isSome) ∧
      (doc.lookup "leaf_object_species" = none →
        inp.base.leafObjectSpecies = getSpeciesMapping ot st) ∧
      (∀ v, doc.lookup "leaf_object_species" = some v → ∃ l, v.asStrMap = some l ∧
        parseTreeMapping ot st l = .ok inp.base.leafObjectSpecies) ∧
      (∀ v, doc.lookup "leaf_syntenies" = some v → ∃ l i, v.asSynMap = some l ∧ inp = .super i ∧
        parseSynMapping ot l = .ok i.leafSyntenies) := by
  unfold readDoc at h
  simp only [bind, Except.bind] at h
  cases hd : docToDict read doc with
  | error e => simp [hd] at h
  | ok d =>
    simp only [hd] at h
    have hin := liftSer_ok h
    obtain ⟨k1, _, k2, _, _, k3, k4, k5, k6⟩ := docToDict_ok hd
    obtain ⟨ot, st, r1, r2, t1, t2, t3, t4, t5, t6, t7⟩ := readInput_ok hin
    refine ⟨d.object_tree, d.species_tree, ot, st, k1, r1, k2, r2, t1, t2, t3, ?_, ?_, ?_, ?_⟩
    · rw [t4]
      cases hl : doc.lookup "leaf_syntenies" with
      | none => simp [k5.2 hl]
      | some v =>
        simp only [Option.isSome_some, iff_true]
        intro hn
        rw [k5.1 hn] at hl
        simp at hl
    · intro hn
      exact t5 (k3.2 hn)
    · intro v hv
      cases hl : d.leaf_object_species with
      | none => rw [k3.1 hl] at hv; simp at hv
      | some l => exact ⟨l, (k4 v hv).trans hl, t6 l hl⟩
    · intro v hv
      cases hl : d.leaf_syntenies with
      | none => rw [k5.1 hl] at hv; simp at hv
      | some l =>
        obtain ⟨i, hi, hp⟩ := t7 l hl
        exact ⟨l, i, (k6 v hv).trans hl, hi, hp⟩

/-- Keys: a missing `object_tree` is a `KeyError`; so is a missing `species_tree` once the
    object tree has been read; every key other than the four documented ones — `costs`
    included — is ignored. -/
theorem C12_read_input_keys (read : String → Option NT) (doc doc' : List (String × JV))
    (argCosts : CostValues) :
    (doc.lookup "object_tree" = none → readDoc read doc argCosts = .error (.ser .keyError)) ∧
    (∀ ots ot, doc.lookup "object_tree" = some (.str ots) → read ots = some ot →
      doc.lookup "species_tree" = none → readDoc read doc argCosts = .error (.ser .keyError)) ∧
    ((∀ k ∈ ["object_tree", "species_tree", "leaf_object_species", "leaf_syntenies"],
        doc'.lookup k = doc.lookup k) →
      readDoc read doc' argCosts = readDoc read doc argCosts) := by
  refine ⟨fun h => ?_, fun ots ot h1 h2 h3 => ?_, fun h => ?_⟩
  · simp [readDoc, docToDict, docStr, h, bind, Except.bind]
  · simp [readDoc, docToDict, docStr, h1, h2, h3, bind, Except.bind, JV.asStr, readTree, liftSer]
  · have a := h "object_tree" (by simp)
    have b := h "species_tree" (by simp)
    have c := h "leaf_object_species" (by simp)
    have e := h "leaf_syntenies" (by simp)
    simp only [readDoc, docToDict, docStr, docOpt, a, b, c, e]

/-- With pairwise distinct given names, the trees an algorithm receives are uniquely named
    (hypothesis of C11), given names untouched (C12_label). -/
theorem C12_read_input_names (read : String → Option NT) (doc : List (String × JV))
    (argCosts : CostValues) (inp : AnyInput) (h : readDoc read doc argCosts = .ok inp)
    (hg : ∀ k s t, doc.lookup k = some (.str s) → read s = some t →
      (t.names.filter (fun nm => !isUnnamed nm)).Nodup) :
    inp.base.objectTree.UniqueNames ∧ inp.base.speciesTree.UniqueNames := by
  obtain ⟨ots, sts, ot, st, k1, r1, k2, r2, t1, t2, _⟩ := C12_read_input read doc argCosts inp h
  rw [t1, t2]
  exact ⟨(C12_label_tree "O" ot (hg _ _ _ k1 r1)).2, (C12_label_tree "S" st (hg _ _ _ k2 r2)).2⟩

/-! ### `eval_cost` and the cost options -/

/-- The option language.
    1. Round trip: every expression tree is the parse of its fully parenthesised token
       string (`showT`: atoms, `-(e)`, `+(e)`, `((a) op (b))`).
    2. Python's evaluation order: the left operand is evaluated first and its exception
       wins; a name is a `NameError`; only `//` raises (`ZeroDivisionError`, by integer zero,
       whatever the dividend).
    3. On costs (non-negative integers and `float('inf')`) `+` is the `+` of the cost model
       and `//` is the floor division of the integers. -/
theorem C12_eval_cost :
    (∀ e : CExpr, parseGo (showT e) [] [] true = .ok e) ∧
    (∀ (o : BinOp) (a b : CExpr), (∀ v, a.eval ≠ .val v) → (CExpr.bin o a b).eval = a.eval) ∧
    (∀ (o : BinOp) (a b : CExpr) (x : Val), a.eval = .val x → (∀ v, b.eval ≠ .val v) →
      (CExpr.bin o a b).eval = b.eval) ∧
    (∀ s, (CExpr.name s).eval = .nameError) ∧
    (∀ a : Val, a.fdiv (.int 0) = .zeroDivision) ∧
    (∀ (a b : Val) (x y : Cost), a.toCost = some x → b.toCost = some y →
      (a.add b).toCost = some (x + y)) ∧
    (∀ a b : Int, b ≠ 0 → Val.fdiv (.int a) (.int b) = .val (.int (Int.fdiv a b))) := by
  refine ⟨parseGo_showT, ?_, ?_, fun _ => rfl, ?_, fun a b x y => toCost_add, fdiv_int⟩
  · intro o a b h
    cases ha : a.eval with
    | val v => exact absurd ha (h v)
    | _ => simp [CExpr.eval, ha]
  · intro o a b x ha h
    cases hb : b.eval with
    | val v => exact absurd hb (h v)
    | _ => simp [CExpr.eval, ha, hb]
  · intro a; cases a <;> rfl

/-- `args.cost_*`: without options the defaults of `get_default_cost()`, in the order of
    `cost_events`; the LAST occurrence of an option wins; an option whose expression
    raises makes the whole command fail with the exception of the FIRST such option in
    argv order. -/
theorem C12_cost_args :
    costArgs [] = .ok [(.node "SPECIATION", .int 0), (.node "DUPLICATION", .int 1),
      (.node "HORIZONTAL_TRANSFER", .int 1), (.edge "FULL_LOSS", .int 1),
      (.edge "SEGMENTAL_LOSS", .int 1)] ∧
    ((costArgs []).toOption.bind costValues = some defaultCost) ∧
    (costArgs [("dup", "1"), ("hgt", "float('inf')"), ("dup", "2+3")]).toOption.bind costValues
      = some [(.node "SPECIATION", .fin 0), (.node "DUPLICATION", .fin 5),
        (.node "HORIZONTAL_TRANSFER", .inf), (.edge "FULL_LOSS", .fin 1),
        (.edge "SEGMENTAL_LOSS", .fin 1)] ∧
    costArgs [("dup", "1//0"), ("spe", "zz")] = .error .zeroDivision ∧
    costArgs [("spe", "zz"), ("dup", "1//0")] = .error .nameError ∧
    costArgs [("hgt", "inf")] = .error .nameError ∧
    (∀ (k s : String) (r : List (String × String)) (e : EvalRes), evalCost s = e →
      (∀ v, e ≠ .val v) → costArgs ((k, s) :: r) = .error e) := by
  refine ⟨by decide, by decide, by decide, by decide, by decide, by decide, ?_⟩
  intro k s r e he hv
  cases e with
  | val v => exact absurd rfl (hv v)
  | _ => simp [costArgs, evalOpts, he]

/-! ### `dump_results`, `reconcile` -/

/-- `dump_results` writes one line per result, in the order of the result list: when no
    encoding contains a newline (`json.dump` without `indent` never emits one), the
    newline-terminated lines of the output text are exactly the encodings, in order. -/
theorem C12_one_object_per_result {ρ : Type} (enc : ρ → String) (results : List ρ)
    (hnl : ∀ r ∈ results, '\n' ∉ (enc r).toList) :
    termLines (dumpResults enc results).toList = results.map (fun r => (enc r).toList) := by
  rw [dumpResults_toList]
  have := termLines_flatten (results.map (fun r => (enc r).toList)) (by
    intro l hl
    obtain ⟨r, hr, rfl⟩ := List.mem_map.mp hl
    exact hnl r hr)
  simpa [List.map_map, Function.comp_def] using this

/-- `reconcile` once the input is read (`r` = dispatch of `call_algorithm`, `results` = what
    the algorithm returns if called):
    * the status is 1 iff the dispatch is an error or no result is returned (0 otherwise;
      2 is argparse's refusal);
    * "Minimum cost: <cost of results[0]>" is printed iff the algorithm ran and returned
      something, and then it is the last line of stderr;
    * nothing is written unless the status is 0, and then `dump_results` of all results;
    * it agrees with `reconcileOutcome` of `Model/Cli.lean`. -/
theorem C12_status {ρ : Type} (algo : String) (r : CallResult) (results : List ρ)
    (cost : ρ → Cost) (enc : ρ → String) (hr : r ≠ .rejected) :
    let run := reconcileRun algo r results cost enc
    (run.status = 1 ↔ (r = .errorNeedsSyntenies ∨ r = .unsupportedSignature ∨ results = [])) ∧
    (run.status = 0 ∨ run.status = 1) ∧
    ((∃ c, minCostText c ∈ run.stderr) ↔ ((∃ w p, r = .run w p) ∧ results ≠ [])) ∧
    (∀ w p x rest, r = .run w p → results = x :: rest →
      run.stderr.getLast? = some (minCostText (cost x)) ∧ run.stdout = dumpResults enc results) ∧
    (run.status ≠ 0 → run.stdout = "") ∧
    (run.status = (reconcileOutcome r results enc).1) ∧
    (r = .errorNeedsSyntenies → run = ⟨1, [errorText algo], ""⟩) := by
  have hmin : ∀ (a : String) (c : Cost), minCostText c ≠ warnText a ∧ minCostText c ≠ errorText a := by
    intro a c
    constructor <;>
    · intro h
      have := congrArg (fun s => s.toList.head?) h
      simp [minCostText, warnText, errorText, String.toList_append] at this
  intro run
  cases r with
  | rejected => exact absurd rfl hr
  | errorNeedsSyntenies =>
    refine ⟨?_, ?_, ?_, ?_, ?_, ?_, ?_⟩
    · simp [run, reconcileRun]
    · simp [run, reconcileRun]
    · constructor
      · rintro ⟨c, hc⟩
        simp only [run, reconcileRun, List.mem_singleton] at hc
        exact absurd hc (hmin algo c).2
      · rintro ⟨⟨w, p, h⟩, _⟩; cases h
    · intro w p x rest h; cases h
    · simp [run, reconcileRun]
    · simp [run, reconcileRun, reconcileOutcome]
    · intro _; rfl
  | unsupportedSignature =>
    refine ⟨?_, ?_, ?_, ?_, ?_, ?_, ?_⟩
    · simp [run, reconcileRun]
    · simp [run, reconcileRun]
    · constructor
      · rintro ⟨c, hc⟩
        simp [run, reconcileRun] at hc
      · rintro ⟨⟨w, p, h⟩, _⟩; cases h
    · intro w p x rest h; cases h
    · simp [run, reconcileRun]
    · simp [run, reconcileRun, reconcileOutcome]
    · intro h; cases h
  | run w p =>
    cases results with
    | nil =>
      refine ⟨?_, ?_, ?_, ?_, ?_, ?_, ?_⟩
      · simp [run, reconcileRun]
      · simp [run, reconcileRun]
      · constructor
        · rintro ⟨c, hc⟩
          cases w
          · simp [run, reconcileRun] at hc
          · simp only [run, reconcileRun, if_true, List.mem_singleton] at hc
            exact absurd hc (hmin algo c).1
        · rintro ⟨_, h⟩; exact absurd rfl h
      · intro w' p' x rest _ h; cases h
      · simp [run, reconcileRun]
      · simp [run, reconcileRun, reconcileOutcome]
      · intro h; cases h
    | cons x rest =>
      refine ⟨?_, ?_, ?_, ?_, ?_, ?_, ?_⟩
      · simp [run, reconcileRun]
      · simp [run, reconcileRun]
      · constructor
        · intro _; exact ⟨⟨w, p, rfl⟩, by simp⟩
        · intro _; exact ⟨cost x, by simp [run, reconcileRun]⟩
      · intro w' p' x' rest' _ h
        simp only [List.cons.injEq] at h
        obtain ⟨rfl, rfl⟩ := h
        exact ⟨by simp [run, reconcileRun], by simp [run, reconcileRun]⟩
      · simp [run, reconcileRun]
      · simp [run, reconcileRun, reconcileOutcome]
      · intro h; cases h

/-! ### The printed cost is the cost of every written object -/

section composition

variable {write : NT → String} {read : String → Option NT}

/-- **`C12_cost_line`.**  The algorithm returns solutions `results ≠ []` that all belong to
    the optimal set `rankByCost c mode o cands` (policy ALL: `results` IS that set; policy
    ANY: C05Any).  `emb` turns a solution into the serialisable output object, whose
    evaluated cost (`ev`, invariant under the normalisation of set-valued syntenies that
    the JSON form performs, as in `C11_same_evaluation`) is the `totalCost` of the solution.
    Then the run has status 0, its last stderr line is "Minimum cost: k" with `k` the cost
    of the first result, the output text is one line per result, and EVERY line parses
    back (`json.loads`, then `from_dict`) to an object whose evaluated cost is `k`. -/
theorem C12_cost_line (hN : NewickLaw write read)
    (render : OutputDict → String) (parse : String → Option OutputDict)
    (hjson : ∀ d, parse (render d) = some d)
    (ev : RecInput → TreeMapping → SynMapping → Bool → Cost)
    (hset : ∀ i m s b, ev i m (normSyn s) b = ev i m s b)
    (c : Costs) (mode : LabelMode) (o : OTree) (cands : List Sol) (emb : Sol → SRecOutput)
    (results : List Sol) (hres : ∀ s ∈ results, s ∈ rankByCost c mode o cands)
    (hne : results ≠ [])
    (hwf : ∀ s ∈ results, (emb s).WF)
    (hev : ∀ s ∈ results, ev (emb s).input.base (emb s).objectSpecies (emb s).syntenies
      (emb s).ordered = totalCost c mode o s)
    (algo : String) (w : Bool) (p : Option String) :
    let cost := fun x : SRecOutput => ev x.input.base x.objectSpecies x.syntenies x.ordered
    let enc := fun x : SRecOutput => render (x.toDict write)
    let run := reconcileRun algo (.run w p) (results.map emb) cost enc
    ∃ k : Cost, run.status = 0 ∧ run.stderr.getLast? = some (minCostText k) ∧
      run.stdout = dumpResults enc (results.map emb) ∧
      (∀ s ∈ results, totalCost c mode o s = k) ∧
      ∀ ℓ ∈ (results.map emb).map enc, ∃ d y, parse ℓ = some d ∧
        SRecOutput.fromDict read d = .ok y ∧ cost y = k := by
  intro cost enc run
  cases hr : results with
  | nil => exact absurd hr hne
  | cons s0 rest =>
    have hs0 : s0 ∈ results := by rw [hr]; simp
    have hsame : ∀ s ∈ results, totalCost c mode o s = totalCost c mode o s0 := fun s hs =>
      C05.C05_same_cost c mode o cands s s0 (hres s hs) (hres s0 hs0)
    refine ⟨totalCost c mode o s0, ?_, ?_, ?_, by rw [← hr]; exact hsame, ?_⟩
    · simp [run, reconcileRun, hr]
    · have : cost (emb s0) = totalCost c mode o s0 := hev s0 hs0
      simp [run, reconcileRun, hr, this]
    · simp [run, reconcileRun, hr]
    · intro ℓ hℓ
      rw [← hr] at hℓ
      simp only [List.map_map, List.mem_map, Function.comp_apply] at hℓ
      obtain ⟨s, hs, rfl⟩ := hℓ
      obtain ⟨y, hy, hcost⟩ := C11.C11_same_evaluation ev hset hN (hwf s hs)
      exact ⟨(emb s).toDict write, y, hjson _, hy, by
        show ev y.input.base y.objectSpecies y.syntenies y.ordered = _
        rw [hcost, hev s hs, hsame s hs]⟩

/-- Instance for the policy ALL of any solver of `Model/Solvers.lean` (`exhaustive`, `thl`,
    `spfs`, `uspfs` are `rankByCost` of their candidates by definition). -/
theorem C12_cost_line_all (hN : NewickLaw write read)
    (render : OutputDict → String) (parse : String → Option OutputDict)
    (hjson : ∀ d, parse (render d) = some d)
    (ev : RecInput → TreeMapping → SynMapping → Bool → Cost)
    (hset : ∀ i m s b, ev i m (normSyn s) b = ev i m s b)
    (c : Costs) (S : RTree) (o : OTree) (emb : Sol → SRecOutput)
    (hne : thl c S o ≠ [])
    (hwf : ∀ s ∈ thl c S o, (emb s).WF)
    (hev : ∀ s ∈ thl c S o, ev (emb s).input.base (emb s).objectSpecies (emb s).syntenies
      (emb s).ordered = totalCost c .plain o s) :
    let cost := fun x : SRecOutput => ev x.input.base x.objectSpecies x.syntenies x.ordered
    let enc := fun x : SRecOutput => render (x.toDict write)
    let run := reconcileRun "thl" (dispatch "thl" .plain "all") ((thl c S o).map emb) cost enc
    ∃ k : Cost, run.status = 0 ∧ run.stderr.getLast? = some (minCostText k) ∧
      ∀ ℓ ∈ ((thl c S o).map emb).map enc, ∃ d y, parse ℓ = some d ∧
        SRecOutput.fromDict read d = .ok y ∧ cost y = k := by
  have hd : dispatch "thl" .plain "all" = .run false (some "ALL") := by decide
  rw [hd]
  obtain ⟨k, h1, h2, _, _, h5⟩ := C12_cost_line hN render parse hjson ev hset c .plain o _ emb
    (thl c S o) (fun s hs => hs) hne hwf hev "thl" false (some "ALL")
  exact ⟨k, h1, h2, h5⟩

/-- Instance for the policy ANY of `reconcile_thl`, for every selection rule `P` (every
    order in which the code may offer candidates), inside the coherent region. -/
theorem C12_cost_line_any_thl (hN : NewickLaw write read)
    (render : OutputDict → String) (parse : String → Option OutputDict)
    (hjson : ∀ d, parse (render d) = some d)
    (ev : RecInput → TreeMapping → SynMapping → Bool → Cost)
    (hset : ∀ i m s b, ev i m (normSyn s) b = ev i m s b)
    (P : Picker Unit) (hP : P.Ok) (c : Costs) (S : RTree) (o : OTree)
    (hb : S.isBinary = true) (hS : ∀ p ∈ leafSpecies o, S.isNode p = true)
    (hcoh : c.spe ≤ c.dup + 2 * c.floss) (emb : Sol → SRecOutput)
    (hwf : ∀ s ∈ thlAny P c S o, (emb s).WF)
    (hev : ∀ s ∈ thlAny P c S o, ev (emb s).input.base (emb s).objectSpecies (emb s).syntenies
      (emb s).ordered = totalCost c .plain o s) :
    let cost := fun x : SRecOutput => ev x.input.base x.objectSpecies x.syntenies x.ordered
    let enc := fun x : SRecOutput => render (x.toDict write)
    let run := reconcileRun "thl" (dispatch "thl" .plain "any") ((thlAny P c S o).map emb) cost enc
    ∃ k : Cost, run.status = 0 ∧ run.stderr.getLast? = some (minCostText k) ∧
      (∀ s' ∈ thl c S o, totalCost c .plain o s' = k) ∧
      ∀ ℓ ∈ ((thlAny P c S o).map emb).map enc, ∃ d y, parse ℓ = some d ∧
        SRecOutput.fromDict read d = .ok y ∧ cost y = k := by
  have hd : dispatch "thl" .plain "any" = .run false (some "ANY") := by decide
  rw [hd]
  have hne : thlAny P c S o ≠ [] := by
    intro h
    have := C05.C05_any_total_thl P hP c S o hb hS
    rw [h] at this
    simp at this
  have hmem := C05.C05_any_mem_thl P hP c S o hb hS hcoh
  obtain ⟨k, h1, h2, _, h4, h5⟩ := C12_cost_line hN render parse hjson ev hset c .plain o _ emb
    (thlAny P c S o) hmem hne hwf hev "thl" false (some "ANY")
  refine ⟨k, h1, h2, ?_, h5⟩
  intro s' hs'
  cases hl : thlAny P c S o with
  | nil => exact absurd hl hne
  | cons s0 _ =>
    have hs0 : s0 ∈ thlAny P c S o := by rw [hl]; simp
    rw [← h4 s0 hs0]
    exact (C05.C05_any_same_cost_thl P hP c S o hb hS hcoh s0 hs0 s' hs').symm

end composition

/-! ### `all` ⊇ `any` -/

/-- If every ANY result is an ALL result, every line written under `--solutions any` is
    written under `--solutions all`. -/
theorem C12_lines_mono {ρ σ : Type} (enc : ρ → σ) (any all : List ρ) (h : ∀ s ∈ any, s ∈ all) :
    ∀ ℓ ∈ any.map enc, ℓ ∈ all.map enc := by
  intro ℓ hℓ
  obtain ⟨s, hs, rfl⟩ := List.mem_map.mp hℓ
  exact List.mem_map.mpr ⟨s, h s hs, rfl⟩

/-- **`C12_all_superset_any`** (from C05Any), for the three families of table-driven
    solvers, for every selection rule (every offering order), inside each family's coherent
    region, on well-formed binary inputs. -/
theorem C12_all_superset_any {ρ : Type} (emb : Sol → ρ) (enc : ρ → String) (c : Costs) (S : RTree)
    (o : OTree) (hb : S.isBinary = true) (hS : ∀ p ∈ leafSpecies o, S.isNode p = true) :
    (∀ (P : Picker Unit), P.Ok → c.spe ≤ c.dup + 2 * c.floss →
      ∀ ℓ ∈ ((thlAny P c S o).map emb).map enc, ℓ ∈ ((thl c S o).map emb).map enc) ∧
    (∀ (P : Picker Nat), P.Ok → ∀ (base : Bool) (pre : Option (List Nat)), C02.OrdersOk o pre →
      c.spe + 2 * c.sloss ≤ c.dup + 2 * c.floss →
      ∀ ℓ ∈ ((spfsAny P c S base o pre).map emb).map enc, ℓ ∈ ((spfs c S base o pre).map emb).map enc) ∧
    (∀ (P : Picker Kind), P.Ok → ∀ (base : Bool), (∀ f ∈ leafSyntenies o, f ≠ []) →
      c.spe + c.sloss ≤ c.dup + 2 * c.floss →
      ∀ ℓ ∈ ((uspfsAny P c S base o).map emb).map enc, ℓ ∈ ((uspfs c S base o).map emb).map enc) := by
  refine ⟨fun P hP hcoh => ?_, fun P hP base pre hord hcoh => ?_, fun P hP base hne hcoh => ?_⟩
  · exact C12_lines_mono enc _ _ (C12_lines_mono emb _ _ (C05.C05_any_mem_thl P hP c S o hb hS hcoh))
  · exact C12_lines_mono enc _ _
      (C12_lines_mono emb _ _ (C05.C05_any_mem_spfs P hP c S base o pre hord hb hS hcoh))
  · exact C12_lines_mono enc _ _
      (C12_lines_mono emb _ _ (C05.C05_any_mem_uspfs P hP c S base o hb hS hne hcoh))

/-! ### `draw` -/

/-- `draw`: the class is chosen on the presence of `syntenies` (`drawRead`, `Model/Cli.lean`);
    the orientation defaults to `HORIZONTAL` and is the upper-cased option otherwise; an
    explicit TYPE wins over the file name; without it stdout and `*.tex` give TikZ, `*.pdf`
    gives a PDF, anything else is an error with status 1; TikZ output always succeeds, PDF
    output fails exactly when XeLaTeX fails. -/
theorem C12_draw :
    (∀ (read : String → Option NT) (d : OutputDict), d.syntenies = none →
      drawRead read d = (RecOutput.fromDict read d).map AnyOutput.plain) ∧
    (∀ (read : String → Option NT) (d : OutputDict) l, d.syntenies = some l →
      drawRead read d = (SRecOutput.fromDict read d).map AnyOutput.super) ∧
    drawOrientation none = some "HORIZONTAL" ∧
    drawOrientation (some "vertical") = some "VERTICAL" ∧
    drawOrientation (some "horizontal") = some "HORIZONTAL" ∧
    drawOrientation (some "diagonal") = none ∧
    (∀ t name, drawOutputType (some t) name = some t) ∧
    drawOutputType none "-" = some .tikz ∧
    (∀ name : String, name.endsWith ".tex" = true → drawOutputType none name = some .tikz) ∧
    (∀ name : String, name ≠ "-" → name.endsWith ".tex" = false → name.endsWith ".pdf" = true →
      drawOutputType none name = some .pdf) ∧
    (∀ name : String, name ≠ "-" → name.endsWith ".tex" = false → name.endsWith ".pdf" = false →
      drawOutputType none name = none ∧ ∀ b, drawStatus none name b = 1) ∧
    (∀ given name b, drawOutputType given name = some .tikz → drawStatus given name b = 0) ∧
    (∀ given name b, drawOutputType given name = some .pdf →
      drawStatus given name b = if b then 0 else 1) := by
  refine ⟨?_, ?_, by decide, by decide, by decide, by decide, fun _ _ => rfl, by decide, ?_, ?_, ?_,
    ?_, ?_⟩
  · intro read d h
    simp only [drawRead, h]
    cases RecOutput.fromDict read d <;> rfl
  · intro read d l h
    simp only [drawRead, h]
    cases SRecOutput.fromDict read d <;> rfl
  · intro name h; simp [drawOutputType, h]
  · intro name h1 h2 h3; simp [drawOutputType, h1, h2, h3]
  · intro name h1 h2 h3
    have : drawOutputType none name = none := by simp [drawOutputType, h1, h2, h3]
    exact ⟨this, fun b => by simp [drawStatus, this]⟩
  · intro given name b h; simp [drawStatus, h]
  · intro given name b h; simp [drawStatus, h]

/-! ### Non-vacuity -/

example : evalCost "2 * (3 + 4) // 5 - -1" = .val (.int 3) := by decide
example : evalCost " float ( 'inf' ) * 2" = .val .pinf := by decide
example : evalCost "0 * float('inf')" = .val .nan := by decide
example : evalCost "-7//2" = .val (.int (-4)) := by decide
example : evalCost "1//0 + zz" = .zeroDivision ∧ evalCost "zz + 1//0" = .nameError := by decide
example : evalCost "01" = .syntaxError ∧ evalCost "1 +" = .syntaxError ∧ evalCost "" = .syntaxError := by
  decide
example : evalCost "2**3" = .outside ∧ evalCost "5//float('inf')" = .outside ∧ evalCost "()" = .outside := by
  decide
example : showT (.bin .mul (.lit 2) (.neg (.lit 3)))
    = [.lpar, .lpar, .int 2, .rpar, .star, .lpar, .minus, .lpar, .int 3, .rpar, .rpar, .rpar] := by
  decide

def exOt : NT := .node "" none [.node "x_1" none [], .node "Y_2" none []]
def exSt : NT := .node "" none [.node "X" none [], .node "y" none []]
def exRead : String → Option NT := fun s => if s = "O" then some exOt else if s = "S" then some exSt else none
def exDoc : List (String × JV) := [("species_tree", .str "S"), ("costs", .num 5), ("object_tree", .str "O"),
  ("leaf_syntenies", .obj [("x_1", .arr [.str "a", .str "b"])])]

/-- A document without names on the ancestors, without `leaf_object_species`, with a
    `costs` key that is ignored; the reader is a stub knowing two strings. -/
example :
    ((readDoc exRead exDoc defaultCost).toOption.map (fun i => decide (AnyInput.kind i = .super))) = some true ∧
    ((readDoc exRead exDoc defaultCost).toOption.map (fun i => i.base.objectTree.names))
      = some ["O0", "x_1", "Y_2"] ∧
    ((readDoc exRead exDoc defaultCost).toOption.map (fun i => i.base.speciesTree.names))
      = some ["S0", "X", "y"] ∧
    ((readDoc exRead exDoc defaultCost).toOption.map (fun i => i.base.leafObjectSpecies))
      = some [([0], [0]), ([1], [1])] ∧
    ((readDoc exRead exDoc defaultCost).toOption.map (fun i => i.base.costs)) = some defaultCost := by
  decide

example : (reconcileRun "lca" (dispatch "lca" .super "any") [7] (fun _ => Cost.fin 4) toString)
    = ⟨0, [warnText "lca", "Minimum cost: 4"], "7\n"⟩ := by decide
example : (reconcileRun "superdtl" (dispatch "superdtl" .plain "all") [7] (fun _ => Cost.fin 4) toString)
    = ⟨1, [errorText "superdtl"], ""⟩ := by decide
example : termLines "{\"a\": 1}\n{\"a\": 2}\n".toList = ["{\"a\": 1}".toList, "{\"a\": 2}".toList] := by decide

end SR.C12
