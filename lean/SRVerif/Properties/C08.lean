/-
  UPDATE (build round 2): completeness of `binarize` for arbitrary nesting is PROVED in Properties/C08Complete.lean; the optimum over all spec-level refinements in C08Opt.lean / C08OptUn.lean.
  (The text below is kept as written in round 1; where it says "missing" / "not proved", see the files above.)

  C08 — Polytomies are resolved by exploring every binary refinement exactly
  once.

  Model: `SRVerif/Model/Binarize.lean` (`graft`, `arrange` = `arrange_leaves`,
  `binarize`, the outer loop `spfsMulti` / `uspfsMulti` of `_spfs` / `_uspfs`
  over `ReconciliationInput.binarize()`).  Specification:
  `SRVerif/Spec/Refine.lean` (`IsRefinement`, `KeepsAnn`, equality up to child
  order `BTree.Equiv` / `BinT.Equiv`, `dfact`, `refCount`).

  All theorems are for trees of any size and arity.  `t.WF` = every internal
  node has at least two children; distinctness of the leaves is assumed where
  "exactly once" is claimed (with repeated leaf ids two different
  arrangements can be the same tree).

  Clause by clause:
  * enumerator at one node (`arrange`): count, soundness, exactly-once —
    full (`C08_graft_count`, `C08_arrange_count`, `C08_arrange_sound`,
    `C08_arrange_complete_nodup`);
  * the `ignore` / topology-id mechanism of `graft` is faithful to opaque
    items for disjoint leaf sets — full (`C08_ignore_faithful`);
  * enumerator on a tree (`binarize`): soundness incl. names/colours, count,
    no refinement twice — full (`C08_binarize_sound`, `C08_binarize_count`,
    `C08_binarize_nodup`); every refinement is produced —
    `C08_binarize_complete_statement`, proved for a single polytomy whose
    children are leaves (`C08_binarize_complete_partial`);
  * solvers: the result over a multifurcating input is the arg-min over the
    candidates of all pairs of refinements, and each returned solution is a
    solution the binary solver returns for the (binary, clade-, name- and
    colour-preserving) refinement it refers to — `C08_opt_spfs`,
    `C08_opt_uspfs`, `C08_opt_refers`.
-/
import SRVerif.Proofs.BinarizeUniq
import SRVerif.Proofs.BinarizeOpt

namespace SR.C08

open SR SR.Bin

/-! ### One node: `graft` and `arrange_leaves` -/

/-- `graft` yields one tree per node of the arrangement: `2n − 1` for `n` items. -/
theorem C08_graft_count {α : Type} (x : α) (t : BTree α) : (graft x t).length = 2 * t.size - 1 :=
  length_graft x t

example : (graft 9 (BTree.node (.item 1) (.node (.item 2) (.item 3)))).length = 5 := by decide

/-- Every graft contains exactly the old items and the new one. -/
theorem C08_graft_sound {α : Type} (x : α) (t g : BTree α) (h : g ∈ graft x t) :
    g.items.Perm (x :: t.items) :=
  (mem_graft.mp h).items_perm

/-- `arrange_leaves` on `k ≥ 1` items yields `(2k−3)‼` trees (1, 1, 3, 15, 105, …). -/
theorem C08_arrange_count {α : Type} (xs : List α) (hne : xs ≠ []) :
    (arrange xs).length = Spec.dfact (2 * xs.length - 3) :=
  length_arrange xs hne

example : (arrange [1, 2, 3, 4]).length = 15 ∧ Spec.dfact (2 * 4 - 3) = 15 := by decide
example : (arrange ([] : List Nat)) = [] := rfl

/-- Every arrangement is a binary tree (by type) whose items are exactly the given ones. -/
theorem C08_arrange_sound {α : Type} (xs : List α) (s : BTree α) (h : s ∈ arrange xs) :
    s.items.Perm xs :=
  items_arrange h

/-- For distinct items, every binary tree over exactly the items `xs` is equal
    up to child order to exactly one member of `arrange xs`: some member is
    equivalent to it, and no two members (at different positions of the list)
    are equivalent to each other. -/
theorem C08_arrange_complete_nodup {α : Type} (xs : List α) (hnd : xs.Nodup) :
    (∀ u : BTree α, u.items.Perm xs → ∃ s ∈ arrange xs, BTree.Equiv s u) ∧
    (arrange xs).Pairwise (fun s s' => ¬ BTree.Equiv s s') :=
  ⟨fun u hu => arrange_complete xs u hu, pairwise_arrange xs hnd⟩

/-- The same with uniqueness spelled out. -/
theorem C08_arrange_exactly_one {α : Type} (xs : List α) (hnd : xs.Nodup) (u : BTree α)
    (hu : u.items.Perm xs) :
    ∃ s ∈ arrange xs, BTree.Equiv s u ∧ ∀ s' ∈ arrange xs, BTree.Equiv s' u → s' = s := by
  obtain ⟨s, hs, he⟩ := arrange_complete xs u hu
  exact ⟨s, hs, he, fun s' hs' he' =>
    eq_of_equiv_of_pairwise (pairwise_arrange xs hnd) hs' hs (he'.trans he.symm)⟩

example : BTree.Equiv (BTree.node (.node (.item 3) (.item 1)) (.item 2))
    (BTree.node (.item 2) (.node (.item 1) (.item 3))) :=
  .swap (.swap (.item 3) (.item 1)) (.item 2)

/-- The topology-id mechanism: `graft` run on the actual tree with the
    `ignore` set that `arrange_leaves` passes (the leaf sets of the items being
    arranged) produces exactly the item-level grafts — it stops at every item
    and at no node above two items — provided the items have pairwise disjoint
    leaf sets (distinct leaf names). -/
theorem C08_ignore_faithful (x : BinT) (S : BTree BinT)
    (hnd : (S.items.flatMap BinT.leaves).Nodup) :
    graftIgn (S.items.map BinT.leaves) x (subst S) = (graft x S).map subst :=
  graftIgn_subst x S (disjFam_of_nodup hnd) S (fun _ h => h) (disjFam_of_nodup hnd)

example : graftIgn [[1, 2], [3]] (.leaf 9) (.node none (.node (some 5) (.leaf 1) (.leaf 2)) (.leaf 3))
    = (graft (BinT.leaf 9) (BTree.node (.item (.node (some 5) (.leaf 1) (.leaf 2))) (.item (.leaf 3)))).map subst := by
  decide

/-! ### A whole tree: `binarize` -/

/-- Every member of `binarize t` is a binary refinement of `t` that keeps the
    names and colours: it is binary, has the leaves of `t`, every internal
    node of `t` is found with the same clade and the same annotation, and no
    other node is annotated. -/
theorem C08_binarize_sound (t : NTree) (hwf : t.WF = true) (b : BinT) (hb : b ∈ binarize t) :
    Spec.IsRefinement b.toN t ∧ Spec.KeepsAnn b.toN t := by
  obtain ⟨h1, h2, h3⟩ := binarize_sound t hwf b hb
  refine ⟨⟨BinT.isBinary_toN b, ?_, ?_⟩, ?_, ?_⟩
  · rw [BinT.leaves_toN]; exact h1
  · intro c hc
    obtain ⟨c', hc', hp, _⟩ := h2 c hc
    exact ⟨c', by rw [BinT.inner_toN]; exact hc', hp⟩
  · intro c hc
    obtain ⟨c', hc', hp⟩ := h2 c hc
    exact ⟨c', by rw [BinT.inner_toN]; exact hc', hp⟩
  · intro c' hc' hne
    rw [BinT.inner_toN] at hc'
    exact h3 c' hc' hne

/-- The executable specification used by the harness (`c08_is_refinement`)
    is the propositional one. -/
theorem C08_spec_executable (b t : NTree) :
    (Spec.isRefinementB b t = true ↔ Spec.IsRefinement b t) ∧
    (Spec.keepsAnnB b t = true ↔ Spec.KeepsAnn b t) :=
  ⟨isRefinementB_iff b t, keepsAnnB_iff b t⟩

/-- The number of members is the product over the internal nodes of `(2k−3)‼`. -/
theorem C08_binarize_count (t : NTree) (hwf : t.WF = true) :
    (binarize t).length = Spec.refCount t :=
  length_binarize t hwf

/-- No refinement is produced twice: no two members of `binarize t` have the
    same topology up to child order. -/
theorem C08_binarize_nodup (t : NTree) (hwf : t.WF = true) (hnd : t.leaves.Nodup) :
    (binarize t).Pairwise (fun b b' => ¬ BinT.Equiv b b') :=
  binarize_pairwise t hwf hnd

/-- The tree of `tests/utils/test_trees.py::test_binarize`, `(((A,B),(C,D,E,F)P,G),H)`:
    15 · 3 = 45 refinements. -/
def exampleTree : NTree :=
  .node none [.node none [.node none [.leaf 0, .leaf 1],
    .node (some 4) [.leaf 2, .leaf 3, .leaf 4, .leaf 5], .leaf 6], .leaf 7]

example : exampleTree.WF = true ∧ exampleTree.leaves.Nodup ∧ (binarize exampleTree).length = 45 ∧
    Spec.refCount exampleTree = 45 := by decide

/-- Full statement of "every binary refinement is produced": every binary tree
    that refines `t` is, up to child order, a member of `binarize t`. -/
def C08_binarize_complete_statement : Prop :=
  ∀ (t : NTree), t.WF = true → t.leaves.Nodup →
    ∀ b : BinT, Spec.IsRefinement b.toN t → ∃ u ∈ binarize t, BinT.Equiv u b

/-- PARTIAL: the statement for a single polytomy whose children are leaves (a
    star tree), where it is exactly the completeness of `arrange_leaves`.
    Missing for the general case: the decomposition of an arbitrary refinement
    `b` along the clades of the children of the root (the subtrees of `b`
    carrying those clades are disjoint, cover `b`, and what lies above them is
    an arrangement of them) — a laminarity argument that has not been
    formalised.  Together with `C08_binarize_nodup` and `C08_binarize_count`
    the gap is: "the number of refinements of `t` up to child order is
    `refCount t`", which is what the harness checks exhaustively against an
    independent generator on all tree shapes up to 6 leaves. -/
theorem C08_binarize_complete_partial (a : Option Nat) (ids : List Nat)
    (b : BinT) (hb : b.leaves.Perm ids) :
    ∃ u ∈ binarize (.node a (ids.map NTree.leaf)), BinT.Equiv u b := by
  -- `b` as an arrangement of its own leaves
  let σ : BTree BinT := b.skel.map BinT.leaf
  have hσ : σ.items.Perm (ids.map BinT.leaf) := by
    show (b.skel.map BinT.leaf).items.Perm _
    rw [BTree.items_map, BinT.items_skel]; exact hb.map _
  obtain ⟨s, hs, he⟩ := arrange_complete (ids.map BinT.leaf) σ hσ
  refine ⟨(subst s).setAnn a, mem_binarize_node.mpr ⟨_, ?_, s, hs, rfl⟩, ?_⟩
  · rw [binarizeChildren_leaves]; simp
  · unfold BinT.Equiv
    rw [skel_F]
    have h := equiv_join_map BinT.skel he
    have hj : join (σ.map BinT.skel) = b.skel := by
      show join ((b.skel.map BinT.leaf).map BinT.skel) = b.skel
      have : ∀ t : BTree Nat, (t.map BinT.leaf).map BinT.skel = t.map BTree.item := by
        intro t
        induction t with
        | item i => rfl
        | node l r ihl ihr => simp [BTree.map, ihl, ihr]
      rw [this, join_map_item]
    rwa [hj] at h

example : ∃ u ∈ binarize (.node (some 1) [.leaf 0, .leaf 1, .leaf 2]),
    BinT.Equiv u (.node none (.node none (.leaf 2) (.leaf 0)) (.leaf 1)) :=
  C08_binarize_complete_partial (some 1) [0, 1, 2] _ (by decide)

/-! ### The extended solvers on a multifurcating input -/

/-- `sreconcile_extended_spfs` (`base = false`) / `sreconcile_base_spfs` on a
    multifurcating input return exactly the arg-minima of the evaluated cost
    over the candidates of all pairs (object refinement, species refinement),
    each once. -/
theorem C08_opt_spfs (c : Costs) (base : Bool) (tO tS : NTree) (data : LeafData)
    (pre : Option (List Nat)) :
    (∀ x : Out, x ∈ spfsMulti c base tO tS data pre ↔
      (x.oTree ∈ binarize tO ∧ x.sTree ∈ binarize tS ∧
        x.sol ∈ spfsCands c (shape x.sTree.toN) base (toOTree data x.sTree x.oTree) pre) ∧
      ∀ bO ∈ binarize tO, ∀ bS ∈ binarize tS,
        ∀ s ∈ spfsCands c (shape bS.toN) base (toOTree data bS bO) pre,
          Cost.le (x.cost c .ordered data) (totalCost c .ordered (toOTree data bS bO) s) = true) ∧
    (spfsMulti c base tO tS data pre).Nodup :=
  ⟨fun x => mem_rank_multi c .ordered tO tS data _ x, nodup_rankOuts _ _ _ _⟩

/-- The same for `usreconcile_extended_uspfs` / `usreconcile_base_uspfs`. -/
theorem C08_opt_uspfs (c : Costs) (base : Bool) (tO tS : NTree) (data : LeafData) :
    (∀ x : Out, x ∈ uspfsMulti c base tO tS data ↔
      (x.oTree ∈ binarize tO ∧ x.sTree ∈ binarize tS ∧
        x.sol ∈ uspfsCands c (shape x.sTree.toN) base (toOTree data x.sTree x.oTree)) ∧
      ∀ bO ∈ binarize tO, ∀ bS ∈ binarize tS,
        ∀ s ∈ uspfsCands c (shape bS.toN) base (toOTree data bS bO),
          Cost.le (x.cost c .unordered data) (totalCost c .unordered (toOTree data bS bO) s) = true) ∧
    (uspfsMulti c base tO tS data).Nodup :=
  ⟨fun x => mem_rank_multi c .unordered tO tS data _ x, nodup_rankOuts _ _ _ _⟩

/-- Every returned solution refers to a pair of binary refinements that keep
    every clade, name and colour of the original trees, and it is one of the
    solutions the binary solver (`spfs` / `uspfs` of `Model/Solvers.lean`)
    returns for that refined input; its cost is at most the cost of whatever
    the binary solver returns for any other pair of refinements.  (That the
    binary solver's result is the optimum of a binary input is C02 / C03.) -/
theorem C08_opt_refers (c : Costs) (base : Bool) (tO tS : NTree) (data : LeafData)
    (pre : Option (List Nat)) (hO : tO.WF = true) (hS : tS.WF = true) :
    (∀ x ∈ spfsMulti c base tO tS data pre,
      (Spec.IsRefinement x.oTree.toN tO ∧ Spec.KeepsAnn x.oTree.toN tO) ∧
      (Spec.IsRefinement x.sTree.toN tS ∧ Spec.KeepsAnn x.sTree.toN tS) ∧
      x.sol ∈ spfs c (shape x.sTree.toN) base (toOTree data x.sTree x.oTree) pre ∧
      ∀ bO ∈ binarize tO, ∀ bS ∈ binarize tS,
        ∀ s ∈ spfs c (shape bS.toN) base (toOTree data bS bO) pre,
          Cost.le (x.cost c .ordered data) (totalCost c .ordered (toOTree data bS bO) s) = true) ∧
    (∀ x ∈ uspfsMulti c base tO tS data,
      (Spec.IsRefinement x.oTree.toN tO ∧ Spec.KeepsAnn x.oTree.toN tO) ∧
      (Spec.IsRefinement x.sTree.toN tS ∧ Spec.KeepsAnn x.sTree.toN tS) ∧
      x.sol ∈ uspfs c (shape x.sTree.toN) base (toOTree data x.sTree x.oTree) ∧
      ∀ bO ∈ binarize tO, ∀ bS ∈ binarize tS,
        ∀ s ∈ uspfs c (shape bS.toN) base (toOTree data bS bO),
          Cost.le (x.cost c .unordered data) (totalCost c .unordered (toOTree data bS bO) s) = true) := by
  constructor
  · intro x hx
    have hx' : x ∈ rankOuts c .ordered data
        (multiCands tO tS data (fun S o => spfsCands c S base o pre)) := hx
    obtain ⟨⟨h1, h2, _⟩, hmin⟩ := (mem_rank_multi c .ordered tO tS data _ x).mp hx'
    refine ⟨C08_binarize_sound tO hO _ h1, C08_binarize_sound tS hS _ h2, ?_, ?_⟩
    · rw [spfs_eq_rank]; exact sol_mem_rankByCost_of_mem_rank_multi hx'
    · intro bO hbO bS hbS s hs
      rw [spfs_eq_rank, mem_rankByCost] at hs
      exact hmin bO hbO bS hbS s hs.1
  · intro x hx
    have hx' : x ∈ rankOuts c .unordered data
        (multiCands tO tS data (fun S o => uspfsCands c S base o)) := hx
    obtain ⟨⟨h1, h2, _⟩, hmin⟩ := (mem_rank_multi c .unordered tO tS data _ x).mp hx'
    refine ⟨C08_binarize_sound tO hO _ h1, C08_binarize_sound tS hS _ h2, ?_, ?_⟩
    · rw [uspfs_eq_rank]; exact sol_mem_rankByCost_of_mem_rank_multi hx'
    · intro bO hbO bS hbS s hs
      rw [uspfs_eq_rank, mem_rankByCost] at hs
      exact hmin bO hbO bS hbS s hs.1

end SR.C08
