/-
  C10, clause "when every leaf carries the same single gene family, the ordered,
  unordered and plain DTL optima coincide and the base variants equal the LCA
  reconciliation cost" — ORDERED solvers (the unordered ones are in `C10SingleUn.lean`).

  Input: every leaf synteny is `[f]` for one fixed family `f`
  (`∀ g ∈ leafSyntenies o, g = [f]`), `S` binary, leaf species nodes of `S`, costs in
  the coherent region.  Then (no prescribed root order):
  * `C10_single_family_ordered`       `sreconcile_extended_spfs` returns something; every
      returned solution has labelling cost 0 and its evaluated total cost equals the
      evaluated cost of every solution returned by `reconcile_thl` (the plain DTL optimum,
      C01);
  * `C10_single_family_ordered_base`  `sreconcile_base_spfs` returns something; every
      returned solution has labelling cost 0 and total cost = cost of the LCA
      reconciliation (no coherence needed).
-/
import SRVerif.Proofs.C10Single
import SRVerif.Properties.C01Thl
import SRVerif.Properties.C10Ext

namespace SR.C10

open SR Cost

variable (c : Costs) (S : RTree) (o : OTree) (f : Nat)

/-- What the ordered variants decode when there is a single family: all masks are 1,
    the labelling costs nothing, the evaluated total cost is the plain generic cost of
    the species mapping. -/
theorem spfs_single_decoded (base : Bool) (hsf : SingleFam f o) :
    ∀ d ∈ spfsCellsFor c S base true o [f], ∀ ls ∈ d.sols,
      ls.All (· = 1) ∧ ls.Valid ∧ Adm (ordAlg c) (annOrd S base [f] true o) ls ∧
      totalCost c .ordered o (ordSol [f] ls) = labCost thlAlg c (annPlain S o) ls.forget ∧
      labelingCost c .ordered (ordSol [f] ls) = some 0 := by
  intro d hd ls hls
  obtain ⟨hd, hlab⟩ := (C02.mem_spfsCellsFor c S base o).mp hd
  have hX : c.spe + 2 * c.sloss ≤ c.dup + 2 * c.floss + (c.spe + 2 * c.sloss) := by omega
  obtain ⟨adm, _, hl, hval, hle⟩ := dp_sound (ordAlg c) c S (ord_slack c) hX _ d hd ls hls
  have hfin : labCost (ordAlg c) c (annOrd S base [f] true o) ls ≠ .inf := by
    obtain ⟨n, hn⟩ := ne_inf_iff.mp (dp_finite (ordAlg c) c S true _ hd)
    rw [hn] at hle
    intro e; rw [e] at hle; simp at hle
  have hnz := nz_of_finite c S base [f] o (leavesOk_single hsf) true ls adm hfin
  have hfit := fits_of_adm c S base [f] o true ls adm
  have hone := allOne_of_fits_nz ls hfit hnz
  have hnd : [f].Nodup := by simp
  have hroot : ls.lab = 2 ^ [f].length - 1 := by rw [hl, hlab]
  refine ⟨hone, hval, adm, ?_, ?_⟩
  · rw [totalCost_ordSol c S base hnd o ls adm hnz hroot, labCost_ord_allOne c S base [f] o true ls hone]
  · have hfam : (ordSol [f] ls).fam = [f] := by
      rw [ordSol_fam, hone.lab]
      simp [subseqFromMask]
    simp only [labelingCost, hfam]
    rw [ordLosses_ordSol hnd ls _ hfit (by rw [hone.lab]; rfl), ordLossesM_allOne ls hone hval]
    simp

/-- A finite admissible labelling with complete root mask makes the solver return something. -/
theorem spfs_ne_nil_of_adm (base : Bool) (pre : Option (List Nat)) (hb : S.isBinary = true)
    (hS : ∀ p ∈ leafSpecies o, S.isNode p = true) {order : List Nat}
    (ho : order ∈ rootOrders o pre) (ls : LSol Nat)
    (adm : Adm (ordAlg c) (annOrd S base order true o) ls) (hroot : ls.lab = 2 ^ order.length - 1)
    (hfin : labCost (ordAlg c) c (annOrd S base order true o) ls ≠ .inf) :
    spfs c S base o pre ≠ [] := by
  obtain ⟨d', hd', _, hlab', _⟩ := dp_lower (ordAlg c) c S true hb _
    (spOk_annOrd c S base order o hS true) ls adm hfin
  have hd'' : d' ∈ spfsCellsFor c S base true o order :=
    (C02.mem_spfsCellsFor c S base o).mpr ⟨hd', by rw [hlab', hroot]⟩
  obtain ⟨ls', hls'⟩ := dp_nonempty (ordAlg c) c S _ d' hd'
  unfold spfs
  apply rankByCost_ne_nil
  intro e
  have : ordSol order ls' ∈ (rootOrders o pre).flatMap fun order =>
      (spfsCellsFor c S base true o order).flatMap (fun d => d.sols.map (ordSol order)) :=
    List.mem_flatMap.mpr ⟨order, ho, List.mem_flatMap.mpr ⟨d', hd'', List.mem_map.mpr ⟨ls', hls', rfl⟩⟩⟩
  rw [e] at this; cases this

/-- **Single family, base ordered solver = LCA cost.** -/
theorem C10_single_family_ordered_base (hsf : ∀ g ∈ leafSyntenies o, g = [f])
    (hb : S.isBinary = true) (hS : ∀ p ∈ leafSpecies o, S.isNode p = true) :
    spfs c S true o none ≠ [] ∧
    ∀ b ∈ spfs c S true o none,
      labelingCost c .ordered b = some 0 ∧
      totalCost c .ordered o b = recCost c o (lcaSol o) := by
  rw [← singleFam_iff] at hsf
  have hro := rootOrders_single hsf
  have hgen := (mem_generateAll o (lcaSol o)).mp (lcaSol_mem_generateAll o)
  have hmem := mem_allMappings_of_valid S o (lcaSol o) hS hgen.1 hgen.2
  obtain ⟨admT, eT⟩ := adm_toLSol S o (lcaSol o) hmem
  have hcostT : labCost thlAlg c (annPlain S o) (toLSol (lcaSol o)) = recCost c o (lcaSol o) := by
    rw [labCost_thl c S o _ admT, eT]
  constructor
  · have adm := adm_ord_base_lift c S f o hsf true
    refine spfs_ne_nil_of_adm c S o true none hb hS (order := [f]) (by rw [hro]; simp) _ adm
      (by simp) ?_
    rw [labCost_ord_allOne c S true [f] o true _ (LSol.all_lift (P := (· = 1)) rfl _), LSol.forget_lift, hcostT]
    obtain ⟨n, hn⟩ := totalCost_lcaSol_fin c o
    rw [totalCost_plain] at hn
    rw [hn]; simp
  · intro b hb'
    obtain ⟨⟨order, ho, d, hd, ls, hls, rfl⟩, _⟩ := (C02.mem_spfs c S true o none b).mp hb'
    rw [hro, List.mem_singleton] at ho
    subst ho
    obtain ⟨_, _, adm, hcost, hlabel⟩ := spfs_single_decoded c S o f true hsf d hd ls hls
    refine ⟨hlabel, ?_⟩
    rw [hcost, adm_ord_base_forget c S [f] o true ls adm, hcostT]

/-- **Single family, extended ordered solver = plain DTL optimum.** -/
theorem C10_single_family_ordered (hsf : ∀ g ∈ leafSyntenies o, g = [f])
    (hb : S.isBinary = true) (hS : ∀ p ∈ leafSpecies o, S.isNode p = true)
    (hcoh : c.spe + 2 * c.sloss ≤ c.dup + 2 * c.floss) :
    spfs c S false o none ≠ [] ∧
    ∀ a ∈ spfs c S false o none,
      labelingCost c .ordered a = some 0 ∧
      ∀ t ∈ thl c S o, totalCost c .ordered o a = totalCost c .plain o t := by
  have hsf0 := hsf
  rw [← singleFam_iff] at hsf
  have hro := rootOrders_single hsf
  have hord : C02.OrdersOk o none :=
    C02.C02_orders_ok o (fun g hg => by rw [hsf0 g hg]; simp)
  have hcoh' : c.spe ≤ c.dup + 2 * c.floss := by omega
  constructor
  · exact (C10_ext_le_base_ordered c S o none hord hb hS hcoh).2
      (C10_single_family_ordered_base c S o f hsf0 hb hS).1
  · intro a ha
    obtain ⟨⟨order, ho, d, hd, ls, hls, rfl⟩, _⟩ := (C02.mem_spfs c S false o none a).mp ha
    have ho' := ho
    rw [hro, List.mem_singleton] at ho
    subst ho
    obtain ⟨_, hval, adm, hcost, hlabel⟩ := spfs_single_decoded c S o f false hsf d hd ls hls
    refine ⟨hlabel, fun t ht => ?_⟩
    apply Cost.le_antisymm
    · -- the optimum of the plain model, lifted to the mask 1, is a labelling the solver beats
      obtain ⟨⟨d0, hd0, ls0, hls0, rfl⟩, _⟩ := (C01.mem_thl c S o t).mp ht
      have hX : c.spe + 0 ≤ c.dup + 2 * c.floss + c.spe := by omega
      obtain ⟨adm0, _⟩ := dp_sound thlAlg c S thl_slack hX (annPlain S o) d0 hd0 ls0 hls0
      have admL := adm_ord_lift c S f o hsf true ls0 adm0
      have hone : (LSol.lift 1 ls0).All (· = 1) := LSol.all_lift (P := (· = 1)) rfl _
      have hnz := nz_of_allOne _ hone
      have h := C02.C02_spfs_opt_masks c S false o none hord hb hS hcoh _ ha [f] ho'
        (LSol.lift 1 ls0) admL (by simp) hnz
      rw [totalCost_ordSol c S false (by simp) o _ admL hnz (by simp),
        labCost_ord_allOne c S false [f] o true _ hone, LSol.forget_lift,
        labCost_thl c S o ls0 adm0] at h
      rw [totalCost_plain]; exact h
    · -- the species mapping of a returned solution is a valid reconciliation
      have admF := adm_ord_forget c S [f] o true ls adm
      rw [hcost, labCost_thl c S o _ admF, ← totalCost_plain]
      exact (C01.C01_thl c S o hb hS hcoh' t ht).2 _
        (validRec_plainSol S o _ admF ((LSol.forget_valid ls).mpr hval))
        (plainSol_mem_allMappings S o _ admF)

/-- Hence, with a single family, extended ordered ≤ … is an equality chain; in particular
    base ordered ≥ extended ordered = thl, and with `hgt = ∞` all four coincide with LCA
    (`C10_thl_eq_lca_inf` in `C10Thm.lean`). -/
theorem C10_single_family_ordered_same_cost (hsf : ∀ g ∈ leafSyntenies o, g = [f])
    (hb : S.isBinary = true) (hS : ∀ p ∈ leafSpecies o, S.isNode p = true)
    (hcoh : c.spe + 2 * c.sloss ≤ c.dup + 2 * c.floss) :
    ∀ a ∈ spfs c S false o none, ∀ t ∈ thl c S o,
      totalCost c .ordered o a = totalCost c .plain o t :=
  fun a ha => ((C10_single_family_ordered c S o f hsf hb hS hcoh).2 a ha).2

/-! ### Non-vacuity -/

example :
    let c : Costs := { spe := 0, dup := 5, hgt := .fin 1, floss := 5, sloss := 1 }
    let S : RTree := .node [.node [.node [], .node []], .node []]
    let o : OTree := .node (.node (.leaf [0, 0] [7]) (.leaf [1] [7])) (.leaf [0, 1] [7])
    S.isBinary = true ∧ (∀ p ∈ leafSpecies o, S.isNode p = true) ∧
    (∀ g ∈ leafSyntenies o, g = [7]) ∧ c.spe + 2 * c.sloss ≤ c.dup + 2 * c.floss ∧
    (spfs c S false o none).map (totalCost c .ordered o) = [.fin 1] ∧
    (thl c S o).map (totalCost c .plain o) = [.fin 1] ∧
    (spfs c S true o none).map (totalCost c .ordered o) = [.fin 20] ∧
    recCost c o (lcaSol o) = .fin 20 := by
  decide +kernel

end SR.C10
