/-
  C14 — anchors: every dictionary look-up that `_layout_branches` and
  `_tikz_draw_branches` perform succeeds, for every valid reconciliation on a
  binary species tree (any size), in both orientations, for ANY node sizes and
  drawing parameters (no numeric hypothesis).

  The models (`SRVerif/Model/Layout.lean`) do not totalise the look-ups: a
  missing key is `Except.error .key` (`rectOf`, `anchorIn`, `branchIn`,
  `slLookup`, `spOfSol`), a failed `assert left_layout is not None` is
  `.error .value`.  So `render … = .ok ss` says that every look-up found its key.
  `C14_anchors` proves `C14_anchors_statement` of `Properties/C14.lean`;
  `C14_anchor_keys` restates the same fact without the `Except` plumbing, key
  by key, on the output list of `layout.compute`, and `C14_anchors_order` is
  the `_layout_branches` part (the `rect` of a referenced branch has been
  computed BEFORE it is read).

  Proofs: `SRVerif/Proofs/LayoutAnchorsState.lean` (invariant `J` of
  `_compute_branches`: `OrdOK`, `Linked`), `LayoutAnchorsGene.lean` (preserved
  by every step), `LayoutAnchorsFinal.lean` (`FinalOK`: the referenced keys are
  still anchors at the end), `LayoutAnchorsLayout.lean` (`compute` succeeds and
  keeps the keys: `Struct`), `LayoutAnchorsDraw.lean` (`drawAll` succeeds).
-/
import SRVerif.Properties.C14
import SRVerif.Proofs.LayoutAnchorsDraw

namespace SR.C14

open SR SR.Layout

/-- **C14, anchors** (full): `tikz.render(rec, layout.compute(rec, params), params)`
    performs no failing look-up. -/
theorem C14_anchors (o : Orientation) (P : Params) (sizes : Key → Size) (S : RTree) (ot : OTree)
    (sol : Sol) : C14_anchors_statement o P sizes S ot sol := by
  intro hv hin hbin
  obtain ⟨_, _, ss, _, _, _, _, h⟩ := render_ok o P sizes hbin (SR.C13.good_of_valid hv hin)
  exact ⟨ss, h⟩

/-- `layout.compute` alone never fails either. -/
theorem C14_compute_ok (o : Orientation) (P : Params) (sizes : Key → Size) (S : RTree) (ot : OTree)
    (sol : Sol) (hv : Spec.validRec ot sol = true) (hin : SR.C13.inTree S sol = true)
    (hbin : S.isBinary = true) : ∃ all, compute o P sizes S sol = .ok all := by
  obtain ⟨_, all, _, _, _, h, _, _⟩ := render_ok o P sizes hbin (SR.C13.good_of_valid hv hin)
  exact ⟨all, h⟩

/-- The keys of the anchors of a finished species layout. -/
def anchorKeys (l : SubLayout) : List Key := l.anchors.map (·.1)

/-- The keys of the branches of a finished species layout. -/
def branchKeys (l : List FBranch) : List Key := l.map (·.key)

/-- **C14, anchors, key by key.**  On the output `all` of `layout.compute`,
    for every species layout `lay` and every branch `fb` of it:
    * duplication: `left`, `right` are keys of branches of the same species
      (`layout.branches[left]`, `layout.branches[right]`);
    * transfer: `left` is a branch of the same species, `right` is an object
      node `gf`, `mapping[gf] = sf` exists, `sf` has a layout `fl` and
      `gf` is one of its anchors (`foreign_layout.anchors[right_gene]`);
    * speciation: both child species have a layout and `left` / `right` are
      anchors of the left / right child layout;
    * loss: the kept child is on side `i ∈ {0, 1}`, stored in `left` (`i = 0`,
      and then `right` is `None`) or `right` (`i = 1`), the child species
      `lay.sp ++ [i]` has a layout and the kept key is one of its anchors. -/
theorem C14_anchor_keys (o : Orientation) (P : Params) (sizes : Key → Size) (S : RTree)
    (ot : OTree) (sol : Sol) (hv : Spec.validRec ot sol = true)
    (hin : SR.C13.inTree S sol = true) (hbin : S.isBinary = true) :
    ∃ all, compute o P sizes S sol = .ok all ∧
      ∀ lay ∈ all, ∀ fb ∈ lay.branches,
        (fb.kind = .dup → ∃ k1 k2, fb.left = some k1 ∧ fb.right = some k2 ∧
          k1 ∈ branchKeys lay.branches ∧ k2 ∈ branchKeys lay.branches) ∧
        (fb.kind = .hgt → ∃ k1 gf sf fl, fb.left = some k1 ∧ k1 ∈ branchKeys lay.branches ∧
          fb.right = some (.gene gf) ∧ spOfSol sol gf = some sf ∧ slLookup all sf = some fl ∧
          Key.gene gf ∈ anchorKeys fl) ∧
        (fb.kind = .spec → ∃ k1 k2 l r, fb.left = some k1 ∧ fb.right = some k2 ∧
          slLookup all (lay.sp ++ [0]) = some l ∧ k1 ∈ anchorKeys l ∧
          slLookup all (lay.sp ++ [1]) = some r ∧ k2 ∈ anchorKeys r) ∧
        (fb.kind = .loss → ∃ i k c, (i = 0 ∨ i = 1) ∧
          fb.left = (if i = 0 then some k else none) ∧
          fb.right = (if i = 1 then some k else none) ∧
          slLookup all (lay.sp ++ [i]) = some c ∧ k ∈ anchorKeys c) := by
  obtain ⟨st, all, _, _, hfin, hall, hstr, _⟩ :=
    render_ok o P sizes hbin (SR.C13.good_of_valid hv hin)
  refine ⟨all, hall, ?_⟩
  intro lay hlay fb hfb
  obtain ⟨hkeys, hmem, _⟩ := hstr.keys hlay
  have hb := hmem fb hfb
  refine ⟨?_, ?_, ?_, ?_⟩
  · intro hk
    have hn := needs_of_mem (hfin.ord lay.sp) hb
    simp only [Needs, show fb.toBranch.kind = .dup from hk] at hn
    obtain ⟨k1, k2, hleft, hright, h1, h2⟩ := hn
    rw [← hkeys] at h1 h2
    exact ⟨k1, k2, hleft, hright, h1, h2⟩
  · intro hk
    have hn := needs_of_mem (hfin.ord lay.sp) hb
    simp only [Needs, show fb.toBranch.kind = .hgt from hk] at hn
    obtain ⟨k1, hleft, h1⟩ := hn
    rw [← hkeys] at h1
    obtain ⟨gf, sf, hright, hsp, hnsf, a1, a2⟩ := hfin.hgt _ _ hb hk
    obtain ⟨fl, e, hfl⟩ := anchor_lookup hstr hnsf a1 a2
    exact ⟨k1, gf, sf, fl, hleft, h1, hright, hsp, e, (hasKey_iff _ _).1 hfl⟩
  · intro hk
    obtain ⟨k1, k2, hleft, hright, hn0, a1, a2, b1, b2⟩ := hfin.spec _ _ hb hk
    obtain ⟨_, _, hn1, _⟩ := RTree.binary_child hbin hn0
    obtain ⟨l, e1, hl⟩ := anchor_lookup hstr hn0 a1 a2
    obtain ⟨r, e2, hr⟩ := anchor_lookup hstr hn1 b1 b2
    exact ⟨k1, k2, l, r, hleft, hright, e1, (hasKey_iff _ _).1 hl, e2, (hasKey_iff _ _).1 hr⟩
  · intro hk
    obtain ⟨i, k, hi, hnode, hleft, hright, h1, h2⟩ := hfin.loss _ _ hb hk
    obtain ⟨c, e, hc⟩ := anchor_lookup hstr hnode h1 h2
    exact ⟨i, k, c, hi, hleft, hright, e, (hasKey_iff _ _).1 hc⟩

/-- **C14, anchors, order** (`_layout_branches`): in the branch list of every
    species, a duplication / transfer branch comes AFTER the branches whose
    `rect` it reads (`layout["branches"][branch["left"]]["rect"]` has been
    assigned in an earlier iteration of the same loop). -/
theorem C14_anchors_order (o : Orientation) (P : Params) (sizes : Key → Size) (S : RTree)
    (ot : OTree) (sol : Sol) (hv : Spec.validRec ot sol = true)
    (hin : SR.C13.inTree S sol = true) (hbin : S.isBinary = true) :
    ∃ all, compute o P sizes S sol = .ok all ∧
      ∀ lay ∈ all, ∀ pre fb post, lay.branches = pre ++ fb :: post →
        (fb.kind = .dup → ∃ k1 k2, fb.left = some k1 ∧ fb.right = some k2 ∧
          k1 ∈ branchKeys pre ∧ k2 ∈ branchKeys pre) ∧
        (fb.kind = .hgt → ∃ k1, fb.left = some k1 ∧ k1 ∈ branchKeys pre) := by
  obtain ⟨st, all, _, _, hfin, hall, hstr, _⟩ :=
    render_ok o P sizes hbin (SR.C13.good_of_valid hv hin)
  refine ⟨all, hall, ?_⟩
  intro lay hlay pre fb post hsplit
  obtain ⟨x, hx, _, hb⟩ := hstr.each lay hlay
  have hord := hfin.ord lay.sp
  rw [brs_of_getSp hx, ← hb, hsplit, List.map_append, List.map_cons] at hord
  have hn := hord _ _ _ rfl
  have hpre : keysOf (pre.map FBranch.toBranch) = branchKeys pre := by
    simp only [keysOf, branchKeys, List.map_map]; rfl
  rw [hpre] at hn
  refine ⟨?_, ?_⟩
  · intro hk
    simp only [Needs, show fb.toBranch.kind = .dup from hk] at hn
    exact hn
  · intro hk
    simp only [Needs, show fb.toBranch.kind = .hgt from hk] at hn
    exact hn

/-! ### Non-vacuity and sharpness -/

/-- The hypotheses are met by the example of `Properties/C13.lean`
    (a speciation with losses, a duplication and a transfer), whose species
    tree `((,),)` is binary. -/
example : Spec.validRec SR.C13.exO SR.C13.exSol = true ∧
    SR.C13.inTree SR.C13.exS SR.C13.exSol = true ∧ SR.C13.exS.isBinary = true := by decide

/-- … and on it the drawing consists of 19 statements (both orientations). -/
example : (render .vertical exP exSizes SR.C13.exS SR.C13.exSol).toOption.map List.length
    = some 19 := by decide

example : (render .horizontal exP exSizes SR.C13.exS SR.C13.exSol).toOption.map List.length
    = some 19 := by decide

/-- `render` is not always `.ok`: with a leaf mapped outside the species tree
    (`inTree` fails; every event is still valid) the loss branch inserted in
    the leaf species `[0,0]` finds no child layout (`assert … is not None`). -/
def badSol : Sol := .node [] [] (.leaf [0, 0, 0] []) (.leaf [1] [])

example : Spec.validRec (.node (.leaf [0, 0, 0] []) (.leaf [1] [])) badSol = true ∧
    SR.C13.inTree SR.C13.exS badSol = false ∧
    render .vertical exP exSizes SR.C13.exS badSol = .error .value := by decide

/-- Remark on `SR.C13.C13_lookups_statement` (the same clause, stated in
    `Properties/C13.lean` WITHOUT the validity hypotheses): as written it is
    false — `badSol` on the binary tree `exS` is a counterexample; with the
    hypotheses `validRec` and `inTree` it is `C14_anchors`. -/
example : ¬ SR.C13.C13_lookups_statement .vertical exP exSizes SR.C13.exS badSol := by
  intro h
  obtain ⟨ss, hss⟩ := h (by decide)
  have : render .vertical exP exSizes SR.C13.exS badSol = .error .value := by decide
  rw [this] at hss
  cases hss

/-- … and on a non-binary species tree `layout.compute` fails
    (`left_species, right_species = children`). -/
example : SR.C13.inTree (.node [.node [], .node [], .node []])
      (.node [] [] (.leaf [0] []) (.leaf [2] [])) = true ∧
    render .vertical exP exSizes (.node [.node [], .node [], .node []])
      (.node [] [] (.leaf [0] []) (.leaf [2] [])) = .error .value := by decide

end SR.C14
