/-
  C13 — the drawing: `tikz.render ∘ layout.compute` succeeds on every valid
  reconciliation in a binary species tree (every dictionary look-up of
  `_layout_branches`, `_layout_subtrees` and `_tikz_draw_branches` finds its
  key), for both orientations, and the emitted statements contain exactly one
  event node per object node, one loss marker per full loss counted by the
  evaluator and one transfer arrow per transfer, ending at the transferred
  child.

  `C13_lookups : C13_lookups_statement` and `C13_tikz : C13_tikz_statement`
  (both stated in `Properties/C13.lean`), in full.  `C13_lookups` is also
  C14's `C14_anchors_statement`.

  Proof route: `Proofs/BranchesOrder` (children of duplication / transfer
  branches are EARLIER branches of the same species), `BranchesWire` (the kept
  child of a loss / speciation branch and the transferred child are still
  anchors of the expected species), `BranchesLayout` (`layout.compute`
  succeeds and its output is the state, both orientations), `BranchesDraw`
  (`render` succeeds; its statements, `\path`s aside, are a function of the
  branches), `BranchesCount`.
-/
import SRVerif.Properties.C13Full
import SRVerif.Proofs.BranchesCount

namespace SR.C13

open SR SR.Layout

/-- **C13 / C14, look-ups** (full): on a valid reconciliation whose species
    are nodes of a binary species tree, `tikz.render(rec, layout.compute(rec,
    params), params)` raises no `KeyError` / `AssertionError`, whatever the
    node sizes, the parameters and the orientation. -/
theorem C13_lookups (o : Orientation) (P : Params) (sizes : Key → Size) (S : RTree) (ot : OTree)
    (sol : Sol) (hv : Spec.validRec ot sol = true) (hin : inTree S sol = true) :
    C13_lookups_statement o P sizes S sol := by
  intro hbin
  obtain ⟨st, hst, _⟩ := C13_no_keyerror S ot sol hv hin
  obtain ⟨ss, h, _⟩ := render_succeeds o P sizes (good_of_valid hv hin) hbin hst
  exact ⟨ss, h⟩

/-- **C13, drawing** (full): the drawing succeeds and contains exactly one
    event node per object node, `evalLossCount` loss markers, and for every
    transfer node exactly one arrow from it to the transferred child. -/
theorem C13_tikz (o : Orientation) (P : Params) (sizes : Key → Size) (S : RTree) (ot : OTree)
    (sol : Sol) (hv : Spec.validRec ot sol = true) (hin : inTree S sol = true)
    (hbin : S.isBinary = true) : C13_tikz_statement o P sizes S sol := by
  obtain ⟨st, hst, hkeys⟩ := C13_no_keyerror S ot sol hv hin
  have hgood := good_of_valid hv hin
  obtain ⟨ss, hr, hperm⟩ := render_succeeds o P sizes hgood hbin hst
  obtain ⟨_, _, _, typ, _⟩ := computeBranches_ok hgood
  have wire := computeBranches_wiring hgood hbin hst
  -- facts about every branch of the state
  have hloss : ∀ b ∈ allBranches S st, b.kind = .loss → ∀ p, b.key ≠ .gene p := by
    intro b hb hk p
    obtain ⟨t, _, hbt⟩ := mem_allBranches.1 hb
    obtain ⟨q, _, _, _, _, i, _, _, _, hkey, _⟩ := C13_losses_partial S ot sol st hv hin hst t b hbt hk
    rw [hkey]; simp
  have hhgt : ∀ b ∈ allBranches S st, b.kind = .hgt → ∃ t, b.right = some t := by
    intro b hb hk
    obtain ⟨t, _, hbt⟩ := mem_allBranches.1 hb
    obtain ⟨g, _, hright, _⟩ := wire.hgt t b hbt hk
    exact ⟨_, hright⟩
  have hone : ∀ p sub, subAt sol p = some sub →
      ((allBranches S st).filter fun b => b.key = .gene p).length = 1 := by
    intro p sub hp
    have := C13_nodes_unique S ot sol st hv hin hst p sub hp
    rwa [← List.filter_flatMap] at this
  have hnd : ((allBranches S st).map (·.key)).Nodup := by
    have := C13_keys_nodup S sol st hst
    simpa [allBranches, keysOf, List.map_flatMap] using this
  refine ⟨ss, hr, ?_, ?_, ?_⟩
  · -- one event node per object node
    intro p sub hp
    refine (congrArg List.length (List.filter_congr (q := isEventOf (.gene p)) ?_)).trans ?_
    · intro x _; cases x <;> rfl
    refine Eq.trans ?_ (hone p sub hp)
    rw [length_filter_of_perm (hperm _ rfl)]
    apply sum_indicator
    intro b hb
    by_cases hk : b.kind = .loss
    · rw [count_event_loss _ _ hk, if_neg (hloss b hb hk p)]
    · exact count_event _ _ hk (hhgt b hb)
  · -- one loss marker per full loss
    refine (congrArg List.length (List.filter_congr (q := isLossMarker) ?_)).trans ?_
    · intro x _; cases x <;> rfl
    rw [length_filter_of_perm (hperm _ rfl), sum_indicator_kind _ (fun b _ => count_lossMarker b),
      ← (C13_losses S ot sol st hv hin hst).1]
    simp [allBranches, List.filter_flatMap, List.length_flatMap]
  · -- one arrow per transfer, ending at the transferred child
    intro p sp f l r hp hE
    obtain ⟨b0, hb0, hkey0, hkind0, hright0, _⟩ :=
      C13_transfers S ot sol st hv hin hst p sp f l r hp hE
    have hb0' : b0 ∈ allBranches S st := by
      refine mem_allBranches.2 ⟨sp, ?_, hb0⟩
      rw [← hkeys]
      cases hx : getSp st sp with
      | none => simp [brs, hx] at hb0
      | some x => exact (getSp_isSome_iff st sp).1 (by simp [hx])
    refine (congrArg List.length (List.filter_congr
      (q := isTransfer (.gene p) (.gene (if Path.isAnc sp l.sp then p ++ [1] else p ++ [0]))) ?_)).trans ?_
    · intro x _; cases x <;> rfl
    refine Eq.trans ?_ (hone p _ hp)
    rw [length_filter_of_perm (hperm _ rfl)]
    apply sum_indicator
    intro b hb
    by_cases hk : b.key = .gene p
    · have : b = b0 := List.inj_on_of_nodup_map hnd hb hb0' (hk.trans hkey0.symm)
      subst this
      rw [if_pos hk]
      apply count_transfer_eq _ _ _ hk hkind0
      exact hright0
    · rw [if_neg hk]
      exact count_transfer_ne _ _ _ hk

/-! ### Non-vacuity -/

def exP : Params := ⟨4, 5, 10, 12, 4⟩
def exSizes : Key → Size := fun _ => ⟨1, 1⟩

example : Spec.validRec exO exSol = true ∧ inTree exS exSol = true ∧ exS.isBinary = true := by decide

/-- The running example (speciation, duplication with one loss, transfer),
    vertical: the statement kinds emitted, `\path`s dropped. -/
example : (match render .vertical exP exSizes exS exSol with
    | .ok ss => ss.filter (· ≠ Stmt.path)
    | .error _ => []) =
    [.event (.gene []) .spec,
     .event (.gene [0, 1]) .leaf, .lossMarker (.loss [0, 0] [0]), .event (.gene [0]) .dup,
     .event (.gene [0, 0]) .leaf, .event (.gene [1, 1]) .leaf,
     .event (.gene [1, 0]) .leaf, .transfer (.gene [1]) (.gene [1, 1]), .event (.gene [1]) .hgt] := by
  decide +kernel

end SR.C13
