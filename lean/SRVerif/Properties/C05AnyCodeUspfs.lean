/-
  C05, the policy ANY of the CODE-STRUCTURED model of the unordered solvers
  (`Model/UspfsCode.lean`: `UspfsCode.uspfsCodePol .any` =
  `usreconcile_{base,extended}_uspfs(…, ANY)`), against THE SAME model under ALL
  (`uspfsCode` = `uspfsCodePol .all`, which `C03_code_refines` ties to the label-DP model
  `uspfs`).  For all inputs:

  * `C05_code_any_table_uspfs`   at every (object node, species, kind) the two threaded
        tables are instantiated together, hold the SAME VALUE, the ANY entry keeps at most
        one tag, which is one of the ALL tags, and keeps one when ALL does;
  * `C05_code_any_decode_uspfs`  the outputs decoded from the ANY table are decoded from the
        ALL table, and an ALL cell that decodes to something has an ANY decoding;
  * `C05_code_any_card_uspfs`, `C05_code_any_empty_iff_uspfs`, `C05_code_any_total_uspfs`
        at most one solution; none iff the ALL result is empty; exactly one otherwise (no
        hypothesis on the costs, the species tree, the leaves);
  * `C05_code_any_mem_uspfs_of_uniform`   membership and equal result values, provided the
        evaluated cost is constant on the decodings of each root cell of the ALL table;
  * `C05_code_any_mem_uspfs`, `C05_code_any_same_cost_uspfs`, `C05_code_any_opt_uspfs`
        inside the coherent region `spe + sloss ≤ dup + 2·floss`, binary species tree, leaf
        species in `S` (the hypotheses of `C05_any_mem_uspfs`; the guard on empty leaf
        syntenies is not needed, `C03_kinds_faithful_all`): the ANY solution is one of the
        ALL solutions of the same code — hence of `uspfs` — with the same cost, which is
        the optimum of the specification.
-/
import SRVerif.Proofs.AnyCodeUspfs
import SRVerif.Properties.C03Code
import SRVerif.Properties.C05AnyUn

namespace SR.C05

open SR Cost AnyCode UspfsCode

variable (c : Costs) (S : RTree) (base : Bool) (o : OTree)

/-- **The two tables**, at every object node `q` (any path: outside the object tree both
    tables are empty), species and kind. -/
theorem C05_code_any_table_uspfs (q : Path) (tq : ATree UnAnn)
    (hq : subAt (annCode S base o [] o) q = some tq) (s : Path) (k : Kind) :
    let cA := cellAt (codeTable .any c S base o) q s k
    let cL := cellAt (codeTable .all c S base o) q s k
    (cA = none ↔ cL = none) ∧ Cell.value .min cA = Cell.value .min cL ∧
    (Cell.infos cA).length ≤ 1 ∧ (∀ t ∈ Cell.infos cA, t ∈ Cell.infos cL) ∧
    (Cell.infos cL ≠ [] → Cell.infos cA ≠ []) := by
  intro cA cL
  have hA : cA = cellSpecR .any c S tq s k := by
    have := codeTable_holds .any c S base o q tq hq s k
    rwa [List.nil_append] at this
  have hL : cL = cellSpecR .all c S tq s k := by
    have := codeTable_holds .all c S base o q tq hq s k
    rwa [List.nil_append] at this
  have h := cellSpec_rel c S tq s k
  rw [← hA, ← hL] at h
  refine ⟨h.isNone, h.value, ?_, h.infos_sub, ?_⟩
  · generalize cA = a at h
    generalize cL = l at h
    cases h with
    | none => simp [Cell.infos]
    | some iA iL hr => exact (Inv.anySub iA iL hr).le1
  · generalize cA = a at h
    generalize cL = l at h
    cases h with
    | none => exact id
    | some iA iL hr => exact (Inv.anySub iA iL hr).nonempty

/-- **Decoding**, from the root cell of every root species. -/
theorem C05_code_any_decode_uspfs (s : Path) :
    (∀ sol ∈ decodeRoot .any c S base o s, sol ∈ decodeRoot .all c S base o s) ∧
    (decodeRoot .all c S base o s ≠ [] → decodeRoot .any c S base o s ≠ []) :=
  root_decodings c S base o s

/-- **At most one solution** (all inputs). -/
theorem C05_code_any_card_uspfs : (uspfsCodePol .any c S base o).length ≤ 1 :=
  (resultEntry_rel c S base o).1

/-- **Empty results coincide** (all inputs, all unit costs). -/
theorem C05_code_any_empty_iff_uspfs : uspfsCodePol .any c S base o = [] ↔ uspfsCode c S base o = [] :=
  (resultEntry_rel c S base o).2.1

/-- **Exactly one solution** whenever the ALL result is not empty. -/
theorem C05_code_any_total_uspfs (hne : uspfsCode c S base o ≠ []) :
    (uspfsCodePol .any c S base o).length = 1 := by
  have h1 : uspfsCodePol .any c S base o ≠ [] :=
    fun h => hne ((C05_code_any_empty_iff_uspfs c S base o).mp h)
  have h2 := C05_code_any_card_uspfs c S base o
  cases hl : uspfsCodePol .any c S base o with
  | nil => exact absurd hl h1
  | cons x xs => rw [hl] at h2; simp at h2; simp [h2]

/-- The evaluated cost is constant on the decodings of each root cell of the ALL table. -/
def UniformUspfs (c : Costs) (S : RTree) (base : Bool) (o : OTree) : Prop :=
  ∀ s ∈ levelOrder S, ∀ x ∈ decodeRoot .all c S base o s, ∀ y ∈ decodeRoot .all c S base o s,
    totalCost c .unordered o x = totalCost c .unordered o y

/-- Membership and equal values, under the exact hypothesis. -/
theorem C05_code_any_mem_uspfs_of_uniform (hu : UniformUspfs c S base o) :
    (resultEntry .any c S base o).value = (resultEntry .all c S base o).value ∧
    ∀ sol ∈ uspfsCodePol .any c S base o, sol ∈ uspfsCode c S base o :=
  (resultEntry_rel c S base o).2.2 hu

/-- Inside the coherent region the table value is the evaluated cost of every decoding. -/
theorem uniformUspfs (hb : S.isBinary = true) (hS : ∀ p ∈ leafSpecies o, S.isNode p = true)
    (hcoh : c.spe + c.sloss ≤ c.dup + 2 * c.floss) : UniformUspfs c S base o := by
  intro s _ x hx y hy
  have hok := C03.spOk_annUn c S base o o hS []
  have hsim := annCode_sim S base o o []
  have hdec := fun sol => decode_iff c S _ _ _ hsim hok [] (codeTable_ok c S base o) s .lca
    (annCode S base o [] o).data.lcaSet sol
  obtain ⟨d, hd, lx, hlx, rfl⟩ := (hdec x).mp hx
  obtain ⟨d', hd', ly, hly, rfl⟩ := (hdec y).mp hy
  rw [hd] at hd'
  simp only [Option.some.injEq] at hd'
  subst hd'
  obtain ⟨hmem, htag⟩ := findCell_some hd
  have hcell : d ∈ uspfsCells c S base true o := by
    simp only [uspfsCells, List.mem_filter, beq_iff_eq]
    exact ⟨hmem, (cellTag_eq.mp htag).2⟩
  have hg : d.sols.map (unSol (annUn S base o [] o) (annUn S base o [] o).data.lcaSet) ∈
      uspfsGroups c S base o := List.mem_map.mpr ⟨d, hcell, rfl⟩
  rw [hsim.data.1]
  exact uspfs_uniform c S base o (C03.C03_kinds_faithful_all c S base o) hb hS hcoh _ hg
    _ (List.mem_map.mpr ⟨lx, hlx, rfl⟩) _ (List.mem_map.mpr ⟨ly, hly, rfl⟩)

/-- **C05 (`any` ∈ `all`) for the code-structured unordered solvers**, inside the coherent
    region: the solution returned under ANY is one of those returned under ALL by the same
    code — hence by the label-DP model. -/
theorem C05_code_any_mem_uspfs (hb : S.isBinary = true) (hS : ∀ p ∈ leafSpecies o, S.isNode p = true)
    (hcoh : c.spe + c.sloss ≤ c.dup + 2 * c.floss) :
    ∀ sol ∈ uspfsCodePol .any c S base o, sol ∈ uspfsCode c S base o ∧ sol ∈ uspfs c S base o := by
  intro sol hsol
  have h := (C05_code_any_mem_uspfs_of_uniform c S base o (uniformUspfs c S base o hb hS hcoh)).2 sol hsol
  exact ⟨h, (C03.C03_code_refines c S base o hS sol).mp h⟩

/-- Both policies agree on the cost. -/
theorem C05_code_any_same_cost_uspfs (hb : S.isBinary = true)
    (hS : ∀ p ∈ leafSpecies o, S.isNode p = true) (hcoh : c.spe + c.sloss ≤ c.dup + 2 * c.floss) :
    (resultEntry .any c S base o).value = (resultEntry .all c S base o).value ∧
    ∀ sol ∈ uspfsCodePol .any c S base o, ∀ sol' ∈ uspfsCode c S base o,
      totalCost c .unordered o sol = totalCost c .unordered o sol' := by
  refine ⟨(C05_code_any_mem_uspfs_of_uniform c S base o (uniformUspfs c S base o hb hS hcoh)).1, ?_⟩
  intro sol hsol sol' hsol'
  rw [C03.C03_code_table_min c S base o hb hS hcoh sol
      (C05_code_any_mem_uspfs c S base o hb hS hcoh sol hsol).1,
    C03.C03_code_table_min c S base o hb hS hcoh sol' hsol']

/-- Hence the ANY run returns exactly one solution, whose evaluated cost is the minimum over
    all valid unordered super-reconciliations (`C03_code_full_eq`). -/
theorem C05_code_any_opt_uspfs (hb : S.isBinary = true) (hS : ∀ p ∈ leafSpecies o, S.isNode p = true)
    (hcoh : c.spe + c.sloss ≤ c.dup + 2 * c.floss) :
    (uspfsCodePol .any c S base o).length = 1 ∧
    ∀ sol ∈ uspfsCodePol .any c S base o,
      totalCost c .unordered o sol = (Spec.optimum c S .unordered base false o none).1 :=
  ⟨C05_code_any_total_uspfs c S base o (C03.C03_code_nonempty c S base o hb hS),
    fun sol h => C03.C03_code_full_eq c S base o hb hS hcoh sol
      (C05_code_any_mem_uspfs c S base o hb hS hcoh sol h).1⟩

/-! ### Non-vacuity -/

/-- An input with an INHERIT node in the optimum and a tie (`sloss = 0`): two ALL solutions,
    the ANY run returns one of them; the entry of object node `[0]` at species `[0]`, kind LCA,
    holds two tags under ALL and one under ANY, with the same value. -/
example :
    let c : Costs := { spe := 0, dup := 1, hgt := .fin 1, floss := 1, sloss := 0 }
    let S : RTree := .node [.node [], .node []]
    let o : OTree :=
      .node (.node (.leaf [0] [1, 2]) (.node (.leaf [0] [1]) (.leaf [0] [1]))) (.leaf [1] [1, 2])
    S.isBinary = true ∧ (∀ p ∈ leafSpecies o, S.isNode p = true) ∧
    c.spe + c.sloss ≤ c.dup + 2 * c.floss ∧
    (uspfsCode c S false o).length = 2 ∧ (uspfsCodePol .any c S false o).length = 1 ∧
    (∀ sol ∈ uspfsCodePol .any c S false o, sol ∈ uspfsCode c S false o) ∧
    (Cell.infos (cellAt (codeTable .all c S false o) [0] [0] .lca)).length = 2 ∧
    (Cell.infos (cellAt (codeTable .any c S false o) [0] [0] .lca)).length = 1 ∧
    Cell.value .min (cellAt (codeTable .any c S false o) [0] [0] .lca) =
      Cell.value .min (cellAt (codeTable .all c S false o) [0] [0] .lca) := by
  decide +kernel

/-- A leaf mapped outside the species tree: both results are empty. -/
example :
    let c : Costs := { spe := 0, dup := 1, hgt := .fin 1, floss := 1, sloss := 1 }
    uspfsCode c (.node []) false (.node (.leaf [5] [1]) (.leaf [5] [1])) = [] ∧
    uspfsCodePol .any c (.node []) false (.node (.leaf [5] [1]) (.leaf [5] [1])) = [] := by
  decide +kernel

end SR.C05
