/-
  C02 — adequacy of the specification oracle `Spec.optimum … .ordered` with respect to
  every valid SEQUENCE-labelled solution, and the end-to-end optimality of the ordered
  solvers `spfs` (`sreconcile_extended_spfs`, `sreconcile_base_spfs`).

  A valid solution (`Spec.validSol .ordered o sol`): shape of `o`, leaves in their given
  species with their given syntenies, no INVALID event, every child synteny a subsequence
  (`isSublist`) of its parent's, root synteny a duplicate-free arrangement of
  `families o`.  Its cost is the evaluator's `totalCost c .ordered o sol`
  (`_cost_rec` + `sloss · _ordered_labeling_cost`).

  Oracle (`Spec/Opt.lean`): for each root order, the tree recursion "minimum over the
  states (species, synteny) of both children of the evaluator's local cost".

  Proved here, for unbounded inputs, all unit costs (no coherence hypothesis is needed
  for the oracle: it shares nothing with the optimiser):
  * `C02_valid_iff_rootOrder`  a solution is valid iff events and labels are valid and its
      root synteny is one of `rootOrders o none`;
  * `C02_oracle_le` (a)        the oracle's optimum is at most the cost of every valid
      solution (species tree containing the leaf species); `C02_oracle_le_base` the same for
      `base` among the solutions that use the LCA mapping; `C02_oracle_le_gen` the general
      form (any prescribed root order, either variant);
  * `C02_oracle_attained`      a finite optimum is the cost of a valid solution: with (a),
      `optimum.1` IS the minimum over all valid solutions;
  * `C02_oracle_sols_sound` (b) every member of the oracle's optimal set is a valid
      solution whose cost is the optimum;
  * `C02_oracle_sols_complete` (c) every valid solution whose (finite) cost is the optimum
      is a member; `C02_oracle_sols`, `C02_oracle_sols_base`: the optimal set exactly;
  * `C02_ext_optimal`, `C02_base_optimal`  END TO END, inside the coherent region and for
      well-formed inputs: every solution returned by `spfs` is valid and no valid solution
      (species mapping, root order, sequence labelling all arbitrary; LCA mapping for `base`)
      is cheaper;
  * `C02_base_mapping`         every solution returned by the base solver uses the LCA mapping;
  * `C02_spfs_subset_optimum`, `C02_optimum_subset_spfs`, `C02_spfs_eq_optimum`  the solver
      (policy ALL) returns exactly the oracle's optimal set (C05 for the ordered solvers);
      the `⊇` half carries `C02_spfs_all_masks` (completeness among mask labellings) over to
      sequence labellings through `maskSol` (`Proofs/OptAdequacyMask.lean`, C18 round trips);
  * `C02_ext_exact`, `C02_base_exact`  hence: `spfs` returns exactly the valid solutions of
      minimum finite evaluated cost among all valid solutions (LCA-mapped ones for `base`),
      each once.
  * `C02_full`  the statement `C02_statement` of `Properties/C02.lean`.
  Guards of the end-to-end theorems (those of `C02Dp.lean`): binary species tree containing
  the leaf species, non-empty leaf syntenies, `spe + 2·sloss ≤ dup + 2·floss` (F-COHERENCE).
  No prescribed root order in the end-to-end theorems (`C02_oracle_le_gen` /
  `C02_oracle_le_prescribed` cover the oracle with a prescribed order).
-/
import SRVerif.Properties.C02
import SRVerif.Properties.C02Dp
import SRVerif.Proofs.OptAdequacyMask

namespace SR.C02

open SR Cost Spec

/-- (bridge) A valid solution's root synteny is necessarily one of the root orders. -/
theorem C02_valid_iff_rootOrder (o : OTree) (sol : Sol) :
    Spec.validSol .ordered o sol = true ↔
      Spec.validRec o sol = true ∧ Spec.validOrdLabels o sol = true ∧
        sol.fam ∈ rootOrders o none :=
  validSol_iff_rootOrder o sol

/-- The oracle's cost of a solution with valid events and labels whose root synteny is
    `order` is the evaluator's total cost. -/
theorem specCost_eq_totalCost (c : Costs) (o : OTree) (sol : Sol)
    (hv : Spec.validRec o sol = true) (hl : Spec.validOrdLabels o sol = true) :
    specCost c (.ordered sol.fam) o [] sol = totalCost c .ordered o sol := by
  rw [specCost_ordered c sol.fam o o [] sol hv hl, totalCost_eq_ordEval]

variable (c : Costs) (S : RTree) (o : OTree)

/-- **(a), general form**: for either variant and any (prescribed or not) set of root
    orders, the oracle's optimum is at most the evaluated cost of every solution with
    valid events, valid labels, allowed species and a root synteny among the root orders. -/
theorem C02_oracle_le_gen (base keep : Bool) (pre : Option (List Nat)) (sol : Sol)
    (hv : Spec.validRec o sol = true) (hl : Spec.validOrdLabels o sol = true)
    (ho : sol.fam ∈ rootOrders o pre) (hs : SpeciesOk S base o sol) :
    Cost.le (Spec.optimum c S .ordered base keep o pre).1 (totalCost c .ordered o sol) = true := by
  rw [← specCost_eq_totalCost c o sol hv hl]
  apply optimum_le c S base .ordered keep o pre (.ordered sol.fam)
  · simp only [modeDatas, List.mem_map]; exact ⟨_, ho, rfl⟩
  · exact feasible_of_valid S base sol.fam o o [] sol hv hl hs (by simp)

/-- **(a)** The oracle's optimum is a lower bound of the cost of EVERY valid
    sequence-labelled solution (any species mapping, any root order, any labelling). -/
theorem C02_oracle_le (keep : Bool) (hS : ∀ p ∈ leafSpecies o, S.isNode p = true) (sol : Sol)
    (hv : Spec.validSol .ordered o sol = true) :
    Cost.le (Spec.optimum c S .ordered false keep o none).1 (totalCost c .ordered o sol) = true := by
  obtain ⟨hv, hl, ho⟩ := (validSol_iff_rootOrder o sol).mp hv
  exact C02_oracle_le_gen c S o false keep none sol hv hl ho (speciesOk_of_valid S o sol hS hv)

/-- **(a), base**: among the valid solutions whose species mapping is the LCA mapping. -/
theorem C02_oracle_le_base (keep : Bool) (sol : Sol)
    (hv : Spec.validSol .ordered o sol = true) (hm : sameMapping sol (lcaSol o) = true) :
    Cost.le (Spec.optimum c S .ordered true keep o none).1 (totalCost c .ordered o sol) = true := by
  obtain ⟨hv, hl, ho⟩ := (validSol_iff_rootOrder o sol).mp hv
  exact C02_oracle_le_gen c S o true keep none sol hv hl ho ((speciesOk_base_iff S o sol hv).mpr hm)

/-- What a feasible solution of finite cost of the oracle is, without a prescribed order. -/
theorem valid_of_feasible_root (base : Bool) (order : List Nat) (ho : order ∈ rootOrders o none)
    (sol : Sol) (hf : Feasible S (.ordered order) base o [] o sol)
    (hfin : specCost c (.ordered order) o [] sol ≠ .inf) :
    Spec.validSol .ordered o sol = true ∧ SpeciesOk S base o sol ∧ sol.fam = order := by
  obtain ⟨hv, hl, hs⟩ := valid_of_feasible c S base order o o [] sol hf hfin
  have hfam : sol.fam = order := by
    cases o with
    | node l r => exact feasible_root_fam hf
    | leaf sp f =>
      cases sol with
      | node s g sl sr => simp [Feasible] at hf
      | leaf s g =>
        simp only [Feasible, leafLabel] at hf
        rw [rootOrders_leaf ho]; exact hf.2
  exact ⟨(validSol_iff_rootOrder o sol).mpr ⟨hv, hl, by rw [hfam]; exact ho⟩, hs, hfam⟩

/-- **The optimum is attained**: a finite oracle optimum is the cost of a valid solution
    (with allowed species).  Together with (a): `optimum.1` is the minimum of `totalCost`
    over all valid solutions. -/
theorem C02_oracle_attained (base keep : Bool)
    (h : (Spec.optimum c S .ordered base keep o none).1 ≠ .inf) :
    ∃ sol, Spec.validSol .ordered o sol = true ∧ SpeciesOk S base o sol ∧
      totalCost c .ordered o sol = (Spec.optimum c S .ordered base keep o none).1 := by
  obtain ⟨md, hmd, sol, hf, hc⟩ := optimum_attained c S base .ordered keep o none h
  simp only [modeDatas, List.mem_map] at hmd
  obtain ⟨order, ho, rfl⟩ := hmd
  obtain ⟨hv, hs, hfam⟩ := valid_of_feasible_root c S o base order ho sol hf (by rw [hc]; exact h)
  refine ⟨sol, hv, hs, ?_⟩
  obtain ⟨hv', hl', _⟩ := (validSol_iff_rootOrder o sol).mp hv
  rw [← specCost_eq_totalCost c o sol hv' hl', hfam, hc]

/-- **(b)** Every member of the oracle's optimal set is a valid solution (with allowed
    species) whose evaluated cost is the — finite — optimum. -/
theorem C02_oracle_sols_sound (base : Bool) (sol : Sol)
    (h : sol ∈ (Spec.optimum c S .ordered base true o none).2) :
    Spec.validSol .ordered o sol = true ∧ SpeciesOk S base o sol ∧
      totalCost c .ordered o sol = (Spec.optimum c S .ordered base true o none).1 ∧
      totalCost c .ordered o sol ≠ .inf := by
  obtain ⟨md, hmd, hf, hc, hfin⟩ := (mem_optimum_sols c S base .ordered o none sol).mp h
  simp only [modeDatas, List.mem_map] at hmd
  obtain ⟨order, ho, rfl⟩ := hmd
  obtain ⟨hv, hs, hfam⟩ := valid_of_feasible_root c S o base order ho sol hf (by rw [hc]; exact hfin)
  obtain ⟨hv', hl', _⟩ := (validSol_iff_rootOrder o sol).mp hv
  have hcost : totalCost c .ordered o sol = (Spec.optimum c S .ordered base true o none).1 := by
    rw [← specCost_eq_totalCost c o sol hv' hl', hfam, hc]
  exact ⟨hv, hs, hcost, by rw [hcost]; exact hfin⟩

/-- **(c), general form**: a valid solution with allowed species whose evaluated cost is the
    finite optimum belongs to the oracle's optimal set. -/
theorem C02_oracle_sols_complete_gen (base : Bool) (sol : Sol)
    (hv : Spec.validSol .ordered o sol = true) (hs : SpeciesOk S base o sol)
    (hc : totalCost c .ordered o sol = (Spec.optimum c S .ordered base true o none).1)
    (hfin : totalCost c .ordered o sol ≠ .inf) :
    sol ∈ (Spec.optimum c S .ordered base true o none).2 := by
  obtain ⟨hv, hl, ho⟩ := (validSol_iff_rootOrder o sol).mp hv
  refine (mem_optimum_sols c S base .ordered o none sol).mpr ⟨.ordered sol.fam, ?_, ?_, ?_, ?_⟩
  · simp only [modeDatas, List.mem_map]; exact ⟨_, ho, rfl⟩
  · exact feasible_of_valid S base sol.fam o o [] sol hv hl hs (by simp)
  · rw [specCost_eq_totalCost c o sol hv hl, hc]
  · rw [← hc]; exact hfin

/-- **(c)** Every valid solution whose (finite) cost equals the optimum is in the set. -/
theorem C02_oracle_sols_complete (hS : ∀ p ∈ leafSpecies o, S.isNode p = true) (sol : Sol)
    (hv : Spec.validSol .ordered o sol = true)
    (hc : totalCost c .ordered o sol = (Spec.optimum c S .ordered false true o none).1)
    (hfin : totalCost c .ordered o sol ≠ .inf) :
    sol ∈ (Spec.optimum c S .ordered false true o none).2 :=
  C02_oracle_sols_complete_gen c S o false sol hv
    (speciesOk_of_valid S o sol hS ((validSol_iff_rootOrder o sol).mp hv).1) hc hfin

/-- **(b) + (c)**: the oracle's optimal set is exactly the set of valid solutions of minimum
    (finite) evaluated cost, each once. -/
theorem C02_oracle_sols (hS : ∀ p ∈ leafSpecies o, S.isNode p = true) (sol : Sol) :
    sol ∈ (Spec.optimum c S .ordered false true o none).2 ↔
      Spec.validSol .ordered o sol = true ∧ totalCost c .ordered o sol ≠ .inf ∧
      ∀ sol', Spec.validSol .ordered o sol' = true →
        Cost.le (totalCost c .ordered o sol) (totalCost c .ordered o sol') = true := by
  constructor
  · intro h
    obtain ⟨hv, _, hc, hfin⟩ := C02_oracle_sols_sound c S o false sol h
    refine ⟨hv, hfin, fun sol' hv' => ?_⟩
    rw [hc]; exact C02_oracle_le c S o true hS sol' hv'
  · rintro ⟨hv, hfin, hmin⟩
    refine C02_oracle_sols_complete c S o hS sol hv (le_antisymm ?_ ?_) hfin
    · by_cases hinf : (Spec.optimum c S .ordered false true o none).1 = .inf
      · rw [hinf]; exact le_inf _
      · obtain ⟨sol', hv', _, hc'⟩ := C02_oracle_attained c S o false true hinf
        rw [← hc']; exact hmin sol' hv'
    · exact C02_oracle_le c S o true hS sol hv

theorem C02_oracle_sols_nodup (base keep : Bool) :
    (Spec.optimum c S .ordered base keep o none).2.Nodup := nodup_optimum_sols c S base _ _ _ _

/-- **(b) + (c), base**: the optimal set among the solutions that use the LCA mapping. -/
theorem C02_oracle_sols_base (sol : Sol) :
    sol ∈ (Spec.optimum c S .ordered true true o none).2 ↔
      Spec.validSol .ordered o sol = true ∧ sameMapping sol (lcaSol o) = true ∧
      totalCost c .ordered o sol ≠ .inf ∧
      ∀ sol', Spec.validSol .ordered o sol' = true → sameMapping sol' (lcaSol o) = true →
        Cost.le (totalCost c .ordered o sol) (totalCost c .ordered o sol') = true := by
  constructor
  · intro h
    obtain ⟨hv, hs, hc, hfin⟩ := C02_oracle_sols_sound c S o true sol h
    refine ⟨hv, (speciesOk_base_iff S o sol ((validSol_iff_rootOrder o sol).mp hv).1).mp hs, hfin,
      fun sol' hv' hm' => ?_⟩
    rw [hc]; exact C02_oracle_le_base c S o true sol' hv' hm'
  · rintro ⟨hv, hm, hfin, hmin⟩
    have hs := (speciesOk_base_iff S o sol ((validSol_iff_rootOrder o sol).mp hv).1).mpr hm
    refine C02_oracle_sols_complete_gen c S o true sol hv hs (le_antisymm ?_ ?_) hfin
    · by_cases hinf : (Spec.optimum c S .ordered true true o none).1 = .inf
      · rw [hinf]; exact le_inf _
      · obtain ⟨sol', hv', hs', hc'⟩ := C02_oracle_attained c S o true true hinf
        rw [← hc']
        exact hmin sol' hv'
          ((speciesOk_base_iff S o sol' ((validSol_iff_rootOrder o sol').mp hv').1).mp hs')
    · exact C02_oracle_le_base c S o true sol hv hm

/-- With a prescribed root order `r`: the oracle's optimum is a lower bound of the cost of
    every solution with valid events and labels whose root synteny is `r`. -/
theorem C02_oracle_le_prescribed (keep : Bool) (r : List Nat)
    (hS : ∀ p ∈ leafSpecies o, S.isNode p = true) (sol : Sol)
    (hv : Spec.validRec o sol = true) (hl : Spec.validOrdLabels o sol = true) (hr : sol.fam = r) :
    Cost.le (Spec.optimum c S .ordered false keep o (some r)).1 (totalCost c .ordered o sol) = true :=
  C02_oracle_le_gen c S o false keep (some r) sol hv hl (by simp [rootOrders, hr])
    (speciesOk_of_valid S o sol hS hv)

/-! ### End to end -/

/-- **C02, extended solver, end to end.**  For a binary species tree containing the leaf
    species, non-empty leaf syntenies and coherent costs: every solution returned by
    `sreconcile_extended_spfs` is a valid ordered super-reconciliation, and no valid
    solution — whatever its species mapping, root gene order and synteny labelling — has
    a smaller evaluated cost. -/
theorem C02_ext_optimal (hne : ∀ f ∈ leafSyntenies o, f ≠ [])
    (hb : S.isBinary = true) (hS : ∀ p ∈ leafSpecies o, S.isNode p = true)
    (hcoh : c.spe + 2 * c.sloss ≤ c.dup + 2 * c.floss) :
    ∀ sol ∈ spfs c S false o none,
      Spec.validSol .ordered o sol = true ∧
      ∀ sol', Spec.validSol .ordered o sol' = true →
        Cost.le (totalCost c .ordered o sol) (totalCost c .ordered o sol') = true := by
  intro sol hsol
  obtain ⟨hv, hle⟩ := C02_spfs_none c S false o hne hb hS hcoh sol hsol
  exact ⟨hv, fun sol' hv' => le_trans hle (C02_oracle_le c S o false hS sol' hv')⟩

/-- Decoded solutions of the `base` table use the LCA mapping. -/
theorem speciesOk_ordSol (order : List Nat) : ∀ (t : OTree) (isRoot : Bool) (ls : LSol Nat),
    Adm (ordAlg c) (annOrd S true order isRoot t) ls → SpeciesOk S true t (ordSol order ls) := by
  intro t
  induction t with
  | leaf sp f => intro _ ls _; cases ls <;> simp [SpeciesOk]
  | node l r ihl ihr =>
    intro isRoot ls h
    cases ls with
    | leaf => simp [annOrd, Adm] at h
    | node s m x y =>
      simp only [annOrd, Adm] at h
      simp only [ordSol, SpeciesOk]
      refine ⟨?_, ihl false x h.2.2.1, ihr false y h.2.2.2⟩
      simpa [speciesSpace, ordAlg] using h.1

/-- Every solution returned by the `base` solver uses the LCA species mapping. -/
theorem C02_base_mapping (hne : ∀ f ∈ leafSyntenies o, f ≠ []) :
    ∀ sol ∈ spfs c S true o none, sameMapping sol (lcaSol o) = true := by
  intro sol hsol
  obtain ⟨⟨order, ho, d, hd, ls, hls, rfl⟩, _⟩ := (mem_spfs c S true o none sol).mp hsol
  have hord := C02_orders_ok o hne order ho
  obtain ⟨hv, _⟩ := C02_cell_sound c S true o hord.1 hord.2 d hd ls hls
  obtain ⟨hd', _⟩ := (mem_spfsCellsFor c S true o).mp hd
  have hX : c.spe + 2 * c.sloss ≤ c.dup + 2 * c.floss + (c.spe + 2 * c.sloss) := by omega
  obtain ⟨adm, _⟩ := dp_sound (ordAlg c) c S (ord_slack c) hX _ d hd' ls hls
  exact (speciesOk_base_iff S o _ hv).mp (speciesOk_ordSol c S order o true ls adm)

/-- **C02, base solver, end to end.**  Under the same guards every solution returned by
    `sreconcile_base_spfs` is valid, uses the LCA species mapping, and no valid solution
    that uses the LCA mapping (any root order, any labelling) is cheaper. -/
theorem C02_base_optimal (hne : ∀ f ∈ leafSyntenies o, f ≠ [])
    (hb : S.isBinary = true) (hS : ∀ p ∈ leafSpecies o, S.isNode p = true)
    (hcoh : c.spe + 2 * c.sloss ≤ c.dup + 2 * c.floss) :
    ∀ sol ∈ spfs c S true o none,
      Spec.validSol .ordered o sol = true ∧ sameMapping sol (lcaSol o) = true ∧
      ∀ sol', Spec.validSol .ordered o sol' = true → sameMapping sol' (lcaSol o) = true →
        Cost.le (totalCost c .ordered o sol) (totalCost c .ordered o sol') = true := by
  intro sol hsol
  obtain ⟨hv, hle⟩ := C02_spfs_none c S true o hne hb hS hcoh sol hsol
  exact ⟨hv, C02_base_mapping c S o hne sol hsol,
    fun sol' hv' hm' => le_trans hle (C02_oracle_le_base c S o false sol' hv' hm')⟩

/-- **C05 (⊆) for the ordered solvers**: every returned solution is a member of the
    specification's optimal set, and its cost is the specification's optimum. -/
theorem C02_spfs_subset_optimum (base : Bool) (hne : ∀ f ∈ leafSyntenies o, f ≠ [])
    (hb : S.isBinary = true) (hS : ∀ p ∈ leafSpecies o, S.isNode p = true)
    (hcoh : c.spe + 2 * c.sloss ≤ c.dup + 2 * c.floss) :
    ∀ sol ∈ spfs c S base o none,
      sol ∈ (Spec.optimum c S .ordered base true o none).2 ∧
      totalCost c .ordered o sol = (Spec.optimum c S .ordered base true o none).1 := by
  intro sol hsol
  have hord := C02_orders_ok o hne
  obtain ⟨hv, hfin⟩ := C02_spfs_valid c S base o none hord (C02_orders_perm o) sol hsol
  have hle := C02_spfs_le_optimum c S base o none hord hb hS hcoh true sol hsol
  have hs : SpeciesOk S base o sol := by
    cases base with
    | false => exact speciesOk_of_valid S o sol hS ((validSol_iff_rootOrder o sol).mp hv).1
    | true =>
      exact (speciesOk_base_iff S o sol ((validSol_iff_rootOrder o sol).mp hv).1).mpr
        (C02_base_mapping c S o hne sol hsol)
  obtain ⟨hv', hl', ho'⟩ := (validSol_iff_rootOrder o sol).mp hv
  have hc : totalCost c .ordered o sol = (Spec.optimum c S .ordered base true o none).1 :=
    le_antisymm hle (C02_oracle_le_gen c S o base true none sol hv' hl' ho' hs)
  exact ⟨C02_oracle_sols_complete_gen c S o base sol hv hs hc hfin, hc⟩

/-! ### The statement of `C02.lean` -/

theorem leafSps_eq (o : OTree) : leafSps o = leafSpecies o := by
  induction o with
  | leaf sp f => rfl
  | node l r ihl ihr => simp [leafSps, leafSpecies, ihl, ihr]

theorem leafSyns_eq (o : OTree) : leafSyns o = leafSyntenies o := by
  induction o with
  | leaf sp f => rfl
  | node l r ihl ihr => simp [leafSyns, leafSyntenies, ihl, ihr]

/-- **C02** as stated in `Properties/C02.lean` (both solvers, cost at most the oracle's
    optimum) — where, by `C02_oracle_le` / `C02_oracle_attained`, the oracle's optimum IS the
    minimum over all valid solutions (`C02_ext_optimal`, `C02_base_optimal`). -/
theorem C02_full : C02_statement := by
  intro c S o base hb hS hne hcoh
  rw [leafSps_eq] at hS
  rw [leafSyns_eq] at hne
  exact C02_spfs_none c S base o hne hb hS hcoh

/-! ### The solver returns exactly the specification's optimal set -/

/-- Decoded table solutions are valid solutions with allowed species. -/
theorem decoded_valid (base : Bool) (hne : ∀ f ∈ leafSyntenies o, f ≠ [])
    (hS : ∀ p ∈ leafSpecies o, S.isNode p = true)
    {order : List Nat} (ho : order ∈ rootOrders o none) :
    ∀ d ∈ spfsCellsFor c S base true o order, ∀ ls ∈ d.sols,
      Spec.validRec o (ordSol order ls) = true ∧ Spec.validOrdLabels o (ordSol order ls) = true ∧
      (ordSol order ls).fam ∈ rootOrders o none ∧ SpeciesOk S base o (ordSol order ls) := by
  intro d hd ls hls
  have hord := C02_orders_ok o hne order ho
  obtain ⟨hv, hfam, _⟩ := C02_cell_sound c S base o hord.1 hord.2 d hd ls hls
  have hl := C02_cell_labels c S base o hord.2 d hd ls hls
  refine ⟨hv, hl, by rw [hfam]; exact ho, ?_⟩
  cases base with
  | false => exact speciesOk_of_valid S o _ hS hv
  | true =>
    obtain ⟨hd', _⟩ := (mem_spfsCellsFor c S true o).mp hd
    have hX : c.spe + 2 * c.sloss ≤ c.dup + 2 * c.floss + (c.spe + 2 * c.sloss) := by omega
    obtain ⟨adm, _⟩ := dp_sound (ordAlg c) c S (ord_slack c) hX _ d hd' ls hls
    exact speciesOk_ordSol c S order o true ls adm

/-- The oracle's optimum is at most the evaluated cost of every admissible non-empty mask
    labelling (coherent region): such a labelling is dominated by a decoded table solution,
    which is a valid sequence-labelled solution. -/
theorem optimum_le_masks (base keep : Bool) (hne : ∀ f ∈ leafSyntenies o, f ≠ [])
    (hb : S.isBinary = true) (hS : ∀ p ∈ leafSpecies o, S.isNode p = true)
    (hcoh : c.spe + 2 * c.sloss ≤ c.dup + 2 * c.floss) :
    ∀ order ∈ rootOrders o none, ∀ ls,
      Adm (ordAlg c) (annOrd S base order true o) ls → ls.lab = 2 ^ order.length - 1 → NZ ls →
      Cost.le (Spec.optimum c S .ordered base keep o none).1
        (totalCost c .ordered o (ordSol order ls)) = true := by
  intro order ho ls adm hroot hnz
  have hord := C02_orders_ok o hne order ho
  rw [totalCost_ordSol c S base hord.1 o ls adm hnz hroot]
  by_cases hfin : labCost (ordAlg c) c (annOrd S base order true o) ls = .inf
  · rw [hfin]; exact le_inf _
  · obtain ⟨d, hd, _, hlab, hle⟩ := dp_lower (ordAlg c) c S true hb _
      (spOk_annOrd c S base order o hS true) ls adm hfin
    have hd' : d ∈ spfsCellsFor c S base true o order :=
      (mem_spfsCellsFor c S base o).mpr ⟨hd, by rw [hlab, hroot]⟩
    obtain ⟨ls', hls'⟩ := dp_nonempty (ordAlg c) c S _ d hd
    obtain ⟨_, _, _, _, hle'⟩ := C02_cell_sound c S base o hord.1 hord.2 d hd' ls' hls'
    obtain ⟨hv, hl, hfam, hs⟩ := decoded_valid c S o base hne hS ho d hd' ls' hls'
    exact le_trans (C02_oracle_le_gen c S o base keep none _ hv hl hfam hs)
      (le_trans (hle' hcoh) hle)

/-- **C05 (⊇) for the ordered solvers**: every member of the specification's optimal set
    is returned. -/
theorem C02_optimum_subset_spfs (base : Bool) (hne : ∀ f ∈ leafSyntenies o, f ≠ [])
    (hb : S.isBinary = true) (hS : ∀ p ∈ leafSpecies o, S.isNode p = true)
    (hcoh : c.spe + 2 * c.sloss ≤ c.dup + 2 * c.floss) :
    ∀ sol ∈ (Spec.optimum c S .ordered base true o none).2, sol ∈ spfs c S base o none := by
  intro sol hsol
  obtain ⟨hv, hs, hc, hfin⟩ := C02_oracle_sols_sound c S o base sol hsol
  obtain ⟨hv', hl', ho'⟩ := (validSol_iff_rootOrder o sol).mp hv
  have hsub : AllSub sol.fam sol := allSub_of_valid sol.fam o sol hl' (List.Sublist.refl _)
  have hrt := ordSol_maskSol sol.fam sol hsub
  have hadm := adm_maskSol c S base sol.fam o true sol hv' hl' hs (fun _ => rfl)
  have hroot : (maskSol sol.fam sol).lab = 2 ^ sol.fam.length - 1 := by
    rw [maskSol_lab, SubseqProofs.mask_self]; rfl
  have hnz := nz_maskSol sol.fam sol hsub (noEmpty_of_valid o sol hl' hne)
  have := C02_spfs_all_masks c S base o none (C02_orders_ok o hne) hb hS hcoh sol.fam ho'
    (maskSol sol.fam sol) hadm hroot hnz (by rw [hrt]; exact hfin) (by
      intro order' ho'' ls' adm' hroot' hnz'
      rw [hrt, hc]
      exact optimum_le_masks c S o base true hne hb hS hcoh order' ho'' ls' adm' hroot' hnz')
  rwa [hrt] at this

/-- **C05 for the ordered solvers** (policy ALL), both variants: inside the coherent region
    and for well-formed inputs the solver returns exactly the specification's optimal set. -/
theorem C02_spfs_eq_optimum (base : Bool) (hne : ∀ f ∈ leafSyntenies o, f ≠ [])
    (hb : S.isBinary = true) (hS : ∀ p ∈ leafSpecies o, S.isNode p = true)
    (hcoh : c.spe + 2 * c.sloss ≤ c.dup + 2 * c.floss) (sol : Sol) :
    sol ∈ spfs c S base o none ↔ sol ∈ (Spec.optimum c S .ordered base true o none).2 :=
  ⟨fun h => (C02_spfs_subset_optimum c S o base hne hb hS hcoh sol h).1,
   C02_optimum_subset_spfs c S o base hne hb hS hcoh sol⟩

/-- **C02 + C05, extended solver, exact form**: `sreconcile_extended_spfs` (policy ALL)
    returns exactly the valid ordered super-reconciliations of minimum (finite) evaluated
    cost among all valid ones, each once. -/
theorem C02_ext_exact (hne : ∀ f ∈ leafSyntenies o, f ≠ [])
    (hb : S.isBinary = true) (hS : ∀ p ∈ leafSpecies o, S.isNode p = true)
    (hcoh : c.spe + 2 * c.sloss ≤ c.dup + 2 * c.floss) :
    (∀ sol, sol ∈ spfs c S false o none ↔
      Spec.validSol .ordered o sol = true ∧ totalCost c .ordered o sol ≠ .inf ∧
      ∀ sol', Spec.validSol .ordered o sol' = true →
        Cost.le (totalCost c .ordered o sol) (totalCost c .ordered o sol') = true) ∧
    (spfs c S false o none).Nodup :=
  ⟨fun sol => (C02_spfs_eq_optimum c S o false hne hb hS hcoh sol).trans (C02_oracle_sols c S o hS sol),
   by unfold spfs; exact nodup_rankByCost _ _ _ _⟩

/-- **C02 + C05, base solver, exact form**: the same among the solutions that use the LCA
    species mapping. -/
theorem C02_base_exact (hne : ∀ f ∈ leafSyntenies o, f ≠ [])
    (hb : S.isBinary = true) (hS : ∀ p ∈ leafSpecies o, S.isNode p = true)
    (hcoh : c.spe + 2 * c.sloss ≤ c.dup + 2 * c.floss) :
    (∀ sol, sol ∈ spfs c S true o none ↔
      Spec.validSol .ordered o sol = true ∧ sameMapping sol (lcaSol o) = true ∧
      totalCost c .ordered o sol ≠ .inf ∧
      ∀ sol', Spec.validSol .ordered o sol' = true → sameMapping sol' (lcaSol o) = true →
        Cost.le (totalCost c .ordered o sol) (totalCost c .ordered o sol') = true) ∧
    (spfs c S true o none).Nodup :=
  ⟨fun sol => (C02_spfs_eq_optimum c S o true hne hb hS hcoh sol).trans (C02_oracle_sols_base c S o sol),
   by unfold spfs; exact nodup_rankByCost _ _ _ _⟩

/-! ### Non-vacuity -/

/-- A well-formed coherent input (`ab` / `b` under `(A,B)`): guards hold, the solver
    returns a solution, a valid solution other than the returned one exists (so the
    universally quantified comparison is not vacuous), and the oracle's optimal set is
    non-empty with a finite optimum. -/
example :
    let c : Costs := { spe := 1, dup := 1, hgt := .fin 1, floss := 1, sloss := 1 }
    let S : RTree := .node [.node [], .node []]
    let o : OTree := .node (.leaf [0] [1, 2]) (.leaf [1] [2])
    let other : Sol := .node [] [1, 2] (.leaf [0] [1, 2]) (.leaf [1] [2])
    S.isBinary = true ∧ (∀ p ∈ leafSpecies o, S.isNode p = true) ∧
    (∀ f ∈ leafSyntenies o, f ≠ []) ∧ c.spe + 2 * c.sloss ≤ c.dup + 2 * c.floss ∧
    (spfs c S false o none).length = 1 ∧ (spfs c S true o none).length = 1 ∧
    Spec.validSol .ordered o other = true ∧ other ∉ spfs c S false o none ∧
    sameMapping other (lcaSol o) = true ∧ other ∈ spfs c S true o none ∧
    (Spec.optimum c S .ordered false true o none).1 = .fin 1 ∧
    (Spec.optimum c S .ordered true true o none).1 = .fin 2 ∧
    (Spec.optimum c S .ordered false true o none).2 = spfs c S false o none := by
  decide +kernel

/-- Two compatible root orders (`a` / `b`): the solver returns four optimal solutions
    (two species × two root orders), exactly the oracle's optimal set; the base solver
    the two LCA-mapped ones, of higher cost. -/
example :
    let c : Costs := { spe := 1, dup := 1, hgt := .fin 1, floss := 1, sloss := 1 }
    let S : RTree := .node [.node [], .node []]
    let o : OTree := .node (.leaf [0] [1]) (.leaf [1] [2])
    rootOrders o none = [[1, 2], [2, 1]] ∧
    (spfs c S false o none).length = 4 ∧
    (Spec.optimum c S .ordered false true o none).1 = .fin 2 ∧
    (∀ sol ∈ spfs c S false o none, sol ∈ (Spec.optimum c S .ordered false true o none).2) ∧
    (∀ sol ∈ (Spec.optimum c S .ordered false true o none).2, sol ∈ spfs c S false o none) ∧
    (spfs c S true o none).length = 2 ∧
    (Spec.optimum c S .ordered true true o none).1 = .fin 3 ∧
    (∀ sol ∈ (Spec.optimum c S .ordered true true o none).2, sol ∈ spfs c S true o none) := by
  decide +kernel

end SR.C02
