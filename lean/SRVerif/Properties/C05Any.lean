/-
  UPDATE (build round 2): the bridge `C03_kinds_faithful_statement` is PROVED (Properties/C03Kinds.lean); the unconditional unordered theorems are in Properties/C05AnyUn.lean.
  (The text below is kept as written in round 1; where it says "missing" / "not proved", see the files above.)

  C05, the policy ANY end to end.

  `Model/LabelDPAny.lean` models `RetentionPolicy.ANY` through the whole of each
  solver (`thlAny`, `spfsAny`, `uspfsAny`): every role aggregate, every table
  cell and the result entry keep ONE tag, chosen by selection functions
  (`Picker`) among the tags the policy ALL would keep.  Every theorem below
  holds for EVERY valid `Picker` (`P.Ok`: a member is returned, failure only on
  the empty list), hence for every order in which the code may offer candidates;
  the code's own rule "first optimal candidate wins" is `Picker.first`
  (`Agg.foldl_updateAny`).

  For each solver `X ∈ {thl, spfs, uspfs}` (spfs/uspfs: `base` and extended):
  * `C05_any_card_X`       at most one solution is returned — exactly one as soon
                           as any table cell of the root is finite;
  * `C05_any_empty_iff_X`  the ANY result is empty iff the ALL result is empty
                           (no hypothesis on the costs);
  * `C05_any_reach_X`      the ANY result belongs to `reachAny` of the ALL groups
                           (no hypothesis on the costs): it is decoded from some
                           finite root cell `d` of the ALL table and no other root
                           cell consists only of outputs that beat it;
  * `C05_any_mem_X`        it is a member of the ALL result, and
  * `C05_any_same_cost_X`  its evaluated cost is the cost of every ALL solution,
                           PROVIDED the evaluated cost is constant on the outputs of
                           each root cell (`Uniform`).  This is exactly what is needed:
                           under ANY a root cell contributes ONE of the solutions it
                           decodes to under ALL, and the result entry ranks these
                           representatives by EVALUATED cost, whereas the table ranks by
                           table value.
  `Uniform` is discharged from `table value = evaluated cost`:
    thl  — inside the coherent region `spe ≤ dup + 2·floss` (`C01_thl_cell_exact`);
    spfs — inside `spe + 2·sloss ≤ dup + 2·floss` (`C02_cell_sound` + `table_exact`);
    uspfs — `…_partial`: from `table_exact` and the bridge
            `C03_kinds_faithful_statement` of `C03Dp.lean`, which is not proved; the
            theorem takes the bridge for the input at hand as a hypothesis.
  `C05_any_incoherent_witness`: outside the coherent region the hypothesis is
  needed — for `thl`, with the code's own choice rule (`Picker.first`), the ANY
  solution has cost 7 while all eight ALL solutions have cost 6 (and the real
  `reconcile_thl` returns precisely that solution: facet of F-COHERENCE).
  `C05_reach_eq_all_*`: under `Uniform` the reachable set IS the ALL result.
-/
import SRVerif.Proofs.LabelDPAnyRank
import SRVerif.Properties.C01Thl
import SRVerif.Properties.C02Dp
import SRVerif.Properties.C03Dp
import SRVerif.Properties.C05

namespace SR.C05

open SR Cost

/-! ### `reconcile_thl` -/

section thl

variable (P : Picker Unit) (hP : P.Ok) (c : Costs) (S : RTree) (o : OTree)

theorem thl_hcl (s : Sol) :
    s ∈ (thlCells c S true o).flatMap (fun d => d.sols.map (plainSol o)) ↔
      ∃ g ∈ thlGroups c S o, s ∈ g := mem_flatMap_groups

include hP in
theorem thl_repG :
    RepG ((thlCellsAny P c S o).flatMap (fun d => d.sols.map (plainSol o))) (thlGroups c S o) :=
  (dpTableAny_rep P hP thlAlg c S (annPlain S o)).repG (plainSol o)

/-- Table value = evaluated cost makes the evaluated cost constant on each cell. -/
theorem thl_uniform (hb : S.isBinary = true) (hS : ∀ p ∈ leafSpecies o, S.isNode p = true)
    (hcoh : c.spe ≤ c.dup + 2 * c.floss) :
    Uniform (totalCost c .plain o) (thlGroups c S o) := by
  intro g hg x hx y hy
  obtain ⟨d, hd, rfl⟩ := List.mem_map.mp hg
  obtain ⟨lx, hlx, rfl⟩ := List.mem_map.mp hx
  obtain ⟨ly, hly, rfl⟩ := List.mem_map.mp hy
  obtain ⟨hex, _, _⟩ := C01.C01_thl_cell_exact c S o hb hS hcoh d hd
  rw [totalCost_plain, totalCost_plain, hex lx hlx, hex ly hly]

/-- At most one solution. -/
theorem C05_any_card_thl : (thlAny P c S o).length ≤ 1 := rankAny_length_le _ _ _ _ _

include hP

/-- Empty results coincide (all unit costs). -/
theorem C05_any_empty_iff_thl : thlAny P c S o = [] ↔ thl c S o = [] :=
  rankAny_nil_iff P.sol c .plain o hP.sol (thl_hcl c S o) (thl_repG P hP c S o)

/-- Well-formed input: exactly one solution (all unit costs). -/
theorem C05_any_total_thl (hb : S.isBinary = true)
    (hS : ∀ p ∈ leafSpecies o, S.isNode p = true) : (thlAny P c S o).length = 1 := by
  apply rankAny_length_eq P.sol c .plain o hP.sol
  intro h
  have := (repG_nil_iff (thl_hcl c S o) (thl_repG P hP c S o)).mp h
  apply C01.C01_thl_total c S o hb hS
  show rankByCost c .plain o _ = []
  rw [this]; simp [rankByCost, dedup]

/-- The ANY result is reachable (all unit costs). -/
theorem C05_any_reach_thl : ∀ s ∈ thlAny P c S o,
    s ∈ reachAny (totalCost c .plain o) (thlGroups c S o) :=
  fun _ h => rankAny_reach P.sol c .plain o hP.sol (thl_repG P hP c S o) h

/-- Membership, under the exact hypothesis. -/
theorem C05_any_mem_thl_of_uniform (hu : Uniform (totalCost c .plain o) (thlGroups c S o)) :
    ∀ s ∈ thlAny P c S o, s ∈ thl c S o :=
  fun _ h => rankAny_mem_all P.sol c .plain o hP.sol (thl_hcl c S o) (thl_repG P hP c S o) hu h

/-- **C05 (`any` ∈ `all`) for `thl`**: inside the coherent region, on a well-formed
    input, whatever the order in which candidates are offered. -/
theorem C05_any_mem_thl (hb : S.isBinary = true) (hS : ∀ p ∈ leafSpecies o, S.isNode p = true)
    (hcoh : c.spe ≤ c.dup + 2 * c.floss) : ∀ s ∈ thlAny P c S o, s ∈ thl c S o :=
  C05_any_mem_thl_of_uniform P hP c S o (thl_uniform c S o hb hS hcoh)

/-- Both policies agree on the cost. -/
theorem C05_any_same_cost_thl (hb : S.isBinary = true)
    (hS : ∀ p ∈ leafSpecies o, S.isNode p = true) (hcoh : c.spe ≤ c.dup + 2 * c.floss) :
    ∀ s ∈ thlAny P c S o, ∀ s' ∈ thl c S o,
      totalCost c .plain o s = totalCost c .plain o s' :=
  fun s h s' h' => C05_same_cost c .plain o _ s s' (C05_any_mem_thl P hP c S o hb hS hcoh s h) h'

/-- Hence the single ANY solution is a minimum-cost valid reconciliation. -/
theorem C05_any_opt_thl (hb : S.isBinary = true) (hS : ∀ p ∈ leafSpecies o, S.isNode p = true)
    (hcoh : c.spe ≤ c.dup + 2 * c.floss) : ∀ s ∈ thlAny P c S o,
    Spec.validRec o s = true ∧
    ∀ s', Spec.validRec o s' = true → s' ∈ Spec.allMappings S o →
      Cost.le (totalCost c .plain o s) (totalCost c .plain o s') = true :=
  fun s h => C01.C01_thl c S o hb hS hcoh s (C05_any_mem_thl P hP c S o hb hS hcoh s h)

omit hP in
/-- Under `Uniform` the reachable set is exactly the ALL result. -/
theorem C05_reach_eq_all_thl (hb : S.isBinary = true)
    (hS : ∀ p ∈ leafSpecies o, S.isNode p = true) (hcoh : c.spe ≤ c.dup + 2 * c.floss) (s : Sol) :
    s ∈ reachAny (totalCost c .plain o) (thlGroups c S o) ↔ s ∈ thl c S o :=
  reachAny_eq_all c .plain o (thl_hcl c S o)
    (thl_repG (Picker.first Unit) (Picker.first_ok Unit) c S o) (thl_uniform c S o hb hS hcoh) s

end thl

/-! ### `sreconcile_{base,extended}_spfs` -/

section spfs

variable (P : Picker Nat) (hP : P.Ok) (c : Costs) (S : RTree) (base : Bool) (o : OTree)
  (pre : Option (List Nat))

theorem spfs_hcl (s : Sol) :
    s ∈ ((rootOrders o pre).flatMap fun order =>
      (spfsCellsFor c S base true o order).flatMap (fun d => d.sols.map (ordSol order))) ↔
      ∃ g ∈ spfsGroups c S base o pre, s ∈ g := by
  constructor
  · intro h
    obtain ⟨order, ho, hs⟩ := List.mem_flatMap.mp h
    obtain ⟨g, hg, hsg⟩ := mem_flatMap_groups.mp hs
    exact ⟨g, List.mem_flatMap.mpr ⟨order, ho, hg⟩, hsg⟩
  · rintro ⟨g, hg, hsg⟩
    obtain ⟨order, ho, hg⟩ := List.mem_flatMap.mp hg
    exact List.mem_flatMap.mpr ⟨order, ho, mem_flatMap_groups.mpr ⟨g, hg, hsg⟩⟩

include hP in
theorem spfs_repG :
    RepG ((rootOrders o pre).flatMap fun order =>
      (spfsCellsForAny P c S base o order).flatMap (fun d => d.sols.map (ordSol order)))
      (spfsGroups c S base o pre) := by
  apply RepG.flatMap
  intro order _
  exact ((dpTableAny_rep P hP (ordAlg c) c S (annOrd S base order true o)).filter_lab
    (fun l => l == 2 ^ order.length - 1)).repG (ordSol order)

theorem spfs_uniform (hord : C02.OrdersOk o pre) (hb : S.isBinary = true)
    (hS : ∀ p ∈ leafSpecies o, S.isNode p = true)
    (hcoh : c.spe + 2 * c.sloss ≤ c.dup + 2 * c.floss) :
    Uniform (totalCost c .ordered o) (spfsGroups c S base o pre) := by
  apply Uniform.flatMap
  intro order ho g hg x hx y hy
  obtain ⟨d, hd, rfl⟩ := List.mem_map.mp hg
  obtain ⟨lx, hlx, rfl⟩ := List.mem_map.mp hx
  obtain ⟨ly, hly, rfl⟩ := List.mem_map.mp hy
  obtain ⟨_, _, ex, _⟩ := C02.C02_cell_sound c S base o (hord order ho).1 (hord order ho).2 d hd lx hlx
  obtain ⟨_, _, ey, _⟩ := C02.C02_cell_sound c S base o (hord order ho).1 (hord order ho).2 d hd ly hly
  have hd' := ((C02.mem_spfsCellsFor c S base o).mp hd).1
  obtain ⟨_, hiff, _⟩ := table_exact (ordAlg c) c S (ord_slack c) hcoh hb _
    (spOk_annOrd c S base order o hS true) d hd'
  rw [ex, ey, ((hiff lx).mp hlx).2.2.2, ((hiff ly).mp hly).2.2.2]

theorem C05_any_card_spfs : (spfsAny P c S base o pre).length ≤ 1 := rankAny_length_le _ _ _ _ _

include hP

theorem C05_any_empty_iff_spfs : spfsAny P c S base o pre = [] ↔ spfs c S base o pre = [] :=
  rankAny_nil_iff P.sol c .ordered o hP.sol (spfs_hcl c S base o pre) (spfs_repG P hP c S base o pre)

theorem C05_any_reach_spfs : ∀ s ∈ spfsAny P c S base o pre,
    s ∈ reachAny (totalCost c .ordered o) (spfsGroups c S base o pre) :=
  fun _ h => rankAny_reach P.sol c .ordered o hP.sol (spfs_repG P hP c S base o pre) h

theorem C05_any_mem_spfs_of_uniform
    (hu : Uniform (totalCost c .ordered o) (spfsGroups c S base o pre)) :
    ∀ s ∈ spfsAny P c S base o pre, s ∈ spfs c S base o pre :=
  fun _ h => rankAny_mem_all P.sol c .ordered o hP.sol (spfs_hcl c S base o pre)
    (spfs_repG P hP c S base o pre) hu h

/-- **C05 (`any` ∈ `all`) for the ordered solvers**, inside the coherent region. -/
theorem C05_any_mem_spfs (hord : C02.OrdersOk o pre) (hb : S.isBinary = true)
    (hS : ∀ p ∈ leafSpecies o, S.isNode p = true)
    (hcoh : c.spe + 2 * c.sloss ≤ c.dup + 2 * c.floss) :
    ∀ s ∈ spfsAny P c S base o pre, s ∈ spfs c S base o pre :=
  C05_any_mem_spfs_of_uniform P hP c S base o pre (spfs_uniform c S base o pre hord hb hS hcoh)

theorem C05_any_same_cost_spfs (hord : C02.OrdersOk o pre) (hb : S.isBinary = true)
    (hS : ∀ p ∈ leafSpecies o, S.isNode p = true)
    (hcoh : c.spe + 2 * c.sloss ≤ c.dup + 2 * c.floss) :
    ∀ s ∈ spfsAny P c S base o pre, ∀ s' ∈ spfs c S base o pre,
      totalCost c .ordered o s = totalCost c .ordered o s' :=
  fun s h s' h' => C05_same_cost c .ordered o _ s s'
    (C05_any_mem_spfs P hP c S base o pre hord hb hS hcoh s h) h'

/-- Exactly one solution whenever the ALL result is not empty. -/
theorem C05_any_total_spfs
    (hne : spfs c S base o pre ≠ []) : (spfsAny P c S base o pre).length = 1 := by
  have h1 : spfsAny P c S base o pre ≠ [] :=
    fun h => hne ((C05_any_empty_iff_spfs P hP c S base o pre).mp h)
  have h2 := C05_any_card_spfs P c S base o pre
  cases hl : spfsAny P c S base o pre with
  | nil => exact absurd hl h1
  | cons x xs => rw [hl] at h2; simp at h2; simp [h2]

omit hP in
theorem C05_reach_eq_all_spfs (hord : C02.OrdersOk o pre) (hb : S.isBinary = true)
    (hS : ∀ p ∈ leafSpecies o, S.isNode p = true)
    (hcoh : c.spe + 2 * c.sloss ≤ c.dup + 2 * c.floss) (s : Sol) :
    s ∈ reachAny (totalCost c .ordered o) (spfsGroups c S base o pre) ↔ s ∈ spfs c S base o pre :=
  reachAny_eq_all c .ordered o (spfs_hcl c S base o pre)
    (spfs_repG (Picker.first Nat) (Picker.first_ok Nat) c S base o pre)
    (spfs_uniform c S base o pre hord hb hS hcoh) s

end spfs

/-! ### `usreconcile_{base,extended}_uspfs` -/

section uspfs

variable (P : Picker Kind) (hP : P.Ok) (c : Costs) (S : RTree) (base : Bool) (o : OTree)

theorem uspfs_hcl (s : Sol) :
    s ∈ (uspfsCells c S base true o).flatMap
      (fun d => d.sols.map (unSol (annUn S base o [] o) (annUn S base o [] o).data.lcaSet)) ↔
      ∃ g ∈ uspfsGroups c S base o, s ∈ g := mem_flatMap_groups

include hP in
theorem uspfs_repG :
    RepG ((uspfsCellsAny P c S base o).flatMap
      (fun d => d.sols.map (unSol (annUn S base o [] o) (annUn S base o [] o).data.lcaSet)))
      (uspfsGroups c S base o) :=
  ((dpTableAny_rep P hP (unAlg c) c S (annUn S base o [] o)).filter_lab
    (fun l => l == Kind.lca)).repG _

/-- The bridge of `C03_kinds_faithful_statement`, for one input: the evaluator
    charges a decoded kind labelling what the DP charged. -/
def KindsFaithfulAt (c : Costs) (S : RTree) (base : Bool) (o : OTree) : Prop :=
  let t := annUn S base o [] o
  ∀ d ∈ uspfsCells c S base true o, ∀ ls ∈ d.sols,
    totalCost c .unordered o (unSol t t.data.lcaSet ls) = labCost (unAlg c) c t ls

theorem uspfs_uniform (hfaith : KindsFaithfulAt c S base o) (hb : S.isBinary = true)
    (hS : ∀ p ∈ leafSpecies o, S.isNode p = true)
    (hcoh : c.spe + c.sloss ≤ c.dup + 2 * c.floss) :
    Uniform (totalCost c .unordered o) (uspfsGroups c S base o) := by
  intro g hg x hx y hy
  obtain ⟨d, hd, rfl⟩ := List.mem_map.mp hg
  obtain ⟨lx, hlx, rfl⟩ := List.mem_map.mp hx
  obtain ⟨ly, hly, rfl⟩ := List.mem_map.mp hy
  have hd' : d ∈ dpTable (unAlg c) c S true (annUn S base o [] o) :=
    (List.mem_filter.mp hd).1
  obtain ⟨_, hiff, _⟩ := C03.C03_table_exact c S base o hb hS hcoh d hd'
  rw [hfaith d hd lx hlx, hfaith d hd ly hly, ((hiff lx).mp hlx).2.2.2, ((hiff ly).mp hly).2.2.2]

theorem C05_any_card_uspfs : (uspfsAny P c S base o).length ≤ 1 := rankAny_length_le _ _ _ _ _

include hP

theorem C05_any_empty_iff_uspfs : uspfsAny P c S base o = [] ↔ uspfs c S base o = [] :=
  rankAny_nil_iff P.sol c .unordered o hP.sol (uspfs_hcl c S base o) (uspfs_repG P hP c S base o)

theorem C05_any_reach_uspfs : ∀ s ∈ uspfsAny P c S base o,
    s ∈ reachAny (totalCost c .unordered o) (uspfsGroups c S base o) :=
  fun _ h => rankAny_reach P.sol c .unordered o hP.sol (uspfs_repG P hP c S base o) h

/-- Exactly one solution whenever the ALL result is not empty. -/
theorem C05_any_total_uspfs (hne : uspfs c S base o ≠ []) : (uspfsAny P c S base o).length = 1 := by
  have h1 : uspfsAny P c S base o ≠ [] :=
    fun h => hne ((C05_any_empty_iff_uspfs P hP c S base o).mp h)
  have h2 := C05_any_card_uspfs P c S base o
  cases hl : uspfsAny P c S base o with
  | nil => exact absurd hl h1
  | cons x xs => rw [hl] at h2; simp at h2; simp [h2]

/-- Membership under the exact hypothesis (fully proved). -/
theorem C05_any_mem_uspfs_of_uniform
    (hu : Uniform (totalCost c .unordered o) (uspfsGroups c S base o)) :
    ∀ s ∈ uspfsAny P c S base o, s ∈ uspfs c S base o :=
  fun _ h => rankAny_mem_all P.sol c .unordered o hP.sol (uspfs_hcl c S base o)
    (uspfs_repG P hP c S base o) hu h

/-- The intended statement for the unordered solvers. -/
def C05_any_mem_uspfs_statement : Prop :=
  ∀ (P : Picker Kind), P.Ok → ∀ (c : Costs) (S : RTree) (base : Bool) (o : OTree),
    S.isBinary = true → (∀ p ∈ leafSpecies o, S.isNode p = true) →
    (∀ f ∈ leafSyntenies o, f ≠ []) → c.spe + c.sloss ≤ c.dup + 2 * c.floss →
    ∀ s ∈ uspfsAny P c S base o, s ∈ uspfs c S base o

/-- **Partial**: `any` ∈ `all` for the unordered solvers, GIVEN the bridge between
    the DP's per-kind charges and the evaluator on the input at hand.  Missing for
    `C05_any_mem_uspfs_statement`: `C03_kinds_faithful_statement` (`C03Dp.lean`). -/
theorem C05_any_mem_uspfs_partial (hfaith : KindsFaithfulAt c S base o) (hb : S.isBinary = true)
    (hS : ∀ p ∈ leafSpecies o, S.isNode p = true)
    (hcoh : c.spe + c.sloss ≤ c.dup + 2 * c.floss) :
    ∀ s ∈ uspfsAny P c S base o, s ∈ uspfs c S base o :=
  C05_any_mem_uspfs_of_uniform P hP c S base o (uspfs_uniform c S base o hfaith hb hS hcoh)

theorem C05_any_same_cost_uspfs_partial (hfaith : KindsFaithfulAt c S base o)
    (hb : S.isBinary = true) (hS : ∀ p ∈ leafSpecies o, S.isNode p = true)
    (hcoh : c.spe + c.sloss ≤ c.dup + 2 * c.floss) :
    ∀ s ∈ uspfsAny P c S base o, ∀ s' ∈ uspfs c S base o,
      totalCost c .unordered o s = totalCost c .unordered o s' :=
  fun s h s' h' => C05_same_cost c .unordered o _ s s'
    (C05_any_mem_uspfs_partial P hP c S base o hfaith hb hS hcoh s h) h'

omit hP in
/-- The bridge statement of `C03Dp.lean` gives the hypothesis for every input. -/
theorem C05_any_mem_uspfs_of_bridge (hbridge : C03.C03_kinds_faithful_statement) :
    C05_any_mem_uspfs_statement := by
  intro P hP c S base o hb hS hne hcoh
  exact C05_any_mem_uspfs_partial P hP c S base o (hbridge c S base o hb hS hne) hb hS hcoh

end uspfs

/-! ### The hypothesis is needed; the code's rule is an instance -/

/-- Outside the coherent region `any ∈ all` and `same cost` FAIL for `thl`, with
    the code's own rule (first optimal candidate): the ANY solution costs 7, the
    eight ALL solutions cost 6 — and it is reachable (`C05_any_reach_thl`).  The
    real `reconcile_thl(…, ANY)` returns exactly this solution on this input. -/
theorem C05_any_incoherent_witness :
    let c : Costs := { spe := 3, dup := 0, hgt := .fin 2, floss := 1, sloss := 0 }
    let S : RTree := .node [.node [.node [], .node []], .node [.node [], .node []]]
    let o : OTree := .node (.node (.leaf [0, 1] []) (.leaf [0, 0] []))
      (.node (.leaf [1, 1] []) (.leaf [1, 0] []))
    let any : Sol := .node [0, 0] [] (.node [0, 0] [] (.leaf [0, 1] []) (.leaf [0, 0] []))
      (.node [1] [] (.leaf [1, 1] []) (.leaf [1, 0] []))
    S.isBinary = true ∧ (∀ p ∈ leafSpecies o, S.isNode p = true) ∧
    ¬ c.spe ≤ c.dup + 2 * c.floss ∧
    thlAny (Picker.first Unit) c S o = [any] ∧ any ∉ thl c S o ∧
    totalCost c .plain o any = .fin 7 ∧
    (thl c S o).map (totalCost c .plain o) = List.replicate 8 (.fin 6) := by
  decide +kernel

/-- The rule of the code (`Entry.update` under ANY, `Agg.updateAny`) is the
    selection function `head?`: a valid `Picker`. -/
theorem C05_any_first_is_code {τ : Type} [DecidableEq τ] (xs : List (Cost × τ)) :
    xs.foldl (fun e p => e.updateAny p.1 p.2) Agg.empty = (Agg.ofList xs).any List.head? ∧
    (Picker.first Unit).Ok ∧ (Picker.first Nat).Ok ∧ (Picker.first Kind).Ok :=
  ⟨Agg.ofList_updateAny xs, Picker.first_ok _, Picker.first_ok _, Picker.first_ok _⟩

/-! ### Non-vacuity -/

/-- A coherent well-formed input with five co-optimal reconciliations: two valid
    pickers return two DIFFERENT members of the ALL result. -/
example :
    let c : Costs := { spe := 1, dup := 1, hgt := .fin 1, floss := 1, sloss := 1 }
    let S : RTree := .node [.node [.node [], .node []], .node []]
    let o : OTree := .node (.node (.leaf [0, 0] []) (.leaf [1] [])) (.leaf [0, 1] [])
    S.isBinary = true ∧ (∀ p ∈ leafSpecies o, S.isNode p = true) ∧
    c.spe ≤ c.dup + 2 * c.floss ∧ (thl c S o).length = 5 ∧
    (thlAny (Picker.first Unit) c S o).length = 1 ∧
    (thlAny (Picker.last Unit) c S o).length = 1 ∧
    thlAny (Picker.first Unit) c S o ≠ thlAny (Picker.last Unit) c S o ∧
    (∀ s ∈ thlAny (Picker.first Unit) c S o, s ∈ thl c S o) ∧
    (∀ s ∈ thlAny (Picker.last Unit) c S o, s ∈ thl c S o) := by
  decide +kernel

/-- Ordered: two root orders, ties; the ANY result is one member. -/
example :
    let c : Costs := { spe := 0, dup := 1, hgt := .fin 1, floss := 1, sloss := 1 }
    let S : RTree := .node [.node [], .node []]
    let o : OTree := .node (.leaf [0] [0]) (.leaf [1] [1])
    c.spe + 2 * c.sloss ≤ c.dup + 2 * c.floss ∧
    2 ≤ (spfs c S false o none).length ∧
    (spfsAny (Picker.first Nat) c S false o none).length = 1 ∧
    (∀ s ∈ spfsAny (Picker.last Nat) c S false o none, s ∈ spfs c S false o none) := by
  decide +kernel

/-- Unordered: the ANY result is one member of the ALL result. -/
example :
    let c : Costs := { spe := 1, dup := 1, hgt := .fin 1, floss := 1, sloss := 1 }
    let S : RTree := .node [.node [], .node []]
    let o : OTree := .node (.leaf [0] [1, 2]) (.leaf [1] [2])
    c.spe + c.sloss ≤ c.dup + 2 * c.floss ∧
    (uspfsAny (Picker.first Kind) c S false o).length = 1 ∧
    (∀ s ∈ uspfsAny (Picker.first Kind) c S false o, s ∈ uspfs c S false o) ∧
    (∀ s ∈ uspfsAny (Picker.last Kind) c S false o, s ∈ uspfs c S false o) := by
  decide +kernel

end SR.C05
