/-
  C10, clause "extended ≤ base" for the UNORDERED solvers at the level of EVALUATED
  costs, unconditionally — via the bridge between the DP's per-kind edge charges and the
  cost evaluator on the materialised contents (`Proofs/C10UnBridge.lean`), which also
  settles the statement left open in `C03Dp.lean`:

  * `C10_kinds_faithful`        = `C03.C03_kinds_faithful_statement` (verbatim): on every
      solution decoded from a root cell, `totalCost … .unordered` of the materialised
      solution equals the generic cost `labCost (unAlg c)`.  (In fact for EVERY admissible
      kind labelling of finite generic cost with LCA root, with no guard on the input:
      `C10_un_bridge`.)
  * `C10_ext_le_base_unordered` FULL: every solution returned by `superdtl`
      (`uspfs … false`) costs, under the evaluator, at most every solution returned by the
      base variant, and `superdtl` returns something whenever the base variant does.
  * `C10_uspfs_cost_eq_table`   every returned solution's evaluated cost is the value of
      the root cell it was decoded from, and is at most every root cell value (so the
      optimiser's table minimum is the evaluated cost of what it returns).
  Guards: `S` binary, leaf species nodes of `S`, `spe + sloss ≤ dup + 2·floss`
  (implied by the coherent region).
-/
import SRVerif.Proofs.C10UnBridge
import SRVerif.Properties.C10Ext

namespace SR.C10

open SR Cost

/-- The bridge, for every admissible labelling of finite generic cost with LCA root. -/
theorem C10_un_bridge (c : Costs) (S : RTree) (base : Bool) (o : OTree) (ls : LSol Kind)
    (adm : Adm (unAlg c) (annUn S base o [] o) ls) (hroot : ls.lab = .lca)
    (hfin : labCost (unAlg c) c (annUn S base o [] o) ls ≠ .inf) :
    totalCost c .unordered o (unSol (annUn S base o [] o) (annUn S base o [] o).data.lcaSet ls) =
      labCost (unAlg c) c (annUn S base o [] o) ls :=
  un_bridge_root c S base o ls adm hroot hfin

/-- On decoded solutions (any costs, any input). -/
theorem C10_un_decoded (c : Costs) (S : RTree) (base : Bool) (o : OTree) :
    ∀ d ∈ uspfsCells c S base true o, ∀ ls ∈ d.sols,
      totalCost c .unordered o
          (unSol (annUn S base o [] o) (annUn S base o [] o).data.lcaSet ls) =
        labCost (unAlg c) c (annUn S base o [] o) ls := by
  intro d hd ls hls
  obtain ⟨hd, hlab⟩ := (mem_uspfsCells c S o).mp hd
  have hX : c.spe + c.sloss ≤ c.dup + 2 * c.floss + (c.spe + c.sloss) := by omega
  obtain ⟨adm, _, hl, _, hle⟩ := dp_sound (unAlg c) c S (un_slack c) hX _ d hd ls hls
  have hfin : labCost (unAlg c) c (annUn S base o [] o) ls ≠ .inf := by
    obtain ⟨n, hn⟩ := ne_inf_iff.mp (dp_finite (unAlg c) c S true _ hd)
    rw [hn] at hle
    intro e; rw [e] at hle; simp at hle
  exact un_bridge_root c S base o ls adm (by rw [hl, hlab]) hfin

/-- **The statement left open by C03** (`C03_kinds_faithful_statement`), proved. -/
theorem C10_kinds_faithful : C03.C03_kinds_faithful_statement := by
  intro c S base o _ _ _
  exact C10_un_decoded c S base o

variable (c : Costs) (S : RTree) (o : OTree)

/-- **Extended ≤ base, unordered, evaluated costs** (second conjunct of `C10_statement`,
    with the guards it needs), and non-emptiness. -/
theorem C10_ext_le_base_unordered (hb : S.isBinary = true)
    (hS : ∀ p ∈ leafSpecies o, S.isNode p = true)
    (hcoh : c.spe + c.sloss ≤ c.dup + 2 * c.floss) :
    (∀ a ∈ uspfs c S false o, ∀ b ∈ uspfs c S true o,
      Cost.le (totalCost c .unordered o a) (totalCost c .unordered o b) = true) ∧
    (uspfs c S true o ≠ [] → uspfs c S false o ≠ []) := by
  refine ⟨C10_ext_le_base_unordered_of_bridge c S o hb hS hcoh ?_ ?_,
    (C10_ext_le_base_unordered_table c S o hb hS hcoh).2⟩
  · intro d hd ls hls
    rw [C10_un_decoded c S false o d hd ls hls]; exact le_refl _
  · intro d hd ls hls
    rw [C10_un_decoded c S true o d hd ls hls]; exact le_refl _

/-- Inside the property's coherent region. -/
theorem C10_ext_le_base_unordered_coherent (hb : S.isBinary = true)
    (hS : ∀ p ∈ leafSpecies o, S.isNode p = true)
    (hcoh : c.spe + 2 * c.sloss ≤ c.dup + 2 * c.floss) :
    ∀ a ∈ uspfs c S false o, ∀ b ∈ uspfs c S true o,
      Cost.le (totalCost c .unordered o a) (totalCost c .unordered o b) = true :=
  (C10_ext_le_base_unordered c S o hb hS (by omega)).1

/-- The evaluated cost of a returned solution is the value of the root cell it was
    decoded from and is at most the value of every root cell: the optimiser's belief
    (`uspfsTableMin`) is the evaluated cost of what it returns.  Both variants. -/
theorem C10_uspfs_cost_eq_table (base : Bool) (hb : S.isBinary = true)
    (hS : ∀ p ∈ leafSpecies o, S.isNode p = true)
    (hcoh : c.spe + c.sloss ≤ c.dup + 2 * c.floss) :
    ∀ a ∈ uspfs c S base o,
      (∃ d ∈ uspfsCells c S base true o, totalCost c .unordered o a = d.cost) ∧
      ∀ d' ∈ uspfsCells c S base true o, Cost.le (totalCost c .unordered o a) d'.cost = true := by
  intro a ha
  obtain ⟨⟨d, hd, ls, hls, rfl⟩, hmin⟩ := (mem_uspfs c S o base _).mp ha
  have exact := fun d (hd : d ∈ uspfsCells c S base true o) =>
    C03.C03_table_exact c S base o hb hS hcoh d ((mem_uspfsCells c S o).mp hd).1
  constructor
  · refine ⟨d, hd, ?_⟩
    rw [C10_un_decoded c S base o d hd ls hls]
    exact (((exact d hd).2.1 ls).mp hls).2.2.2
  · intro d' hd'
    obtain ⟨⟨ls', hls'⟩, hex, _⟩ := exact d' hd'
    have := hmin d' hd' ls' hls'
    rwa [C10_un_decoded c S base o d' hd' ls' hls', ((hex ls').mp hls').2.2.2] at this

/-! ### Non-vacuity -/

/-- A well-formed coherent input with two families on which INHERIT labels are used,
    the extended solver is strictly cheaper than the base one, and the evaluated costs
    are the table minima. -/
example :
    let c : Costs := { spe := 0, dup := 5, hgt := .fin 1, floss := 5, sloss := 1 }
    let S : RTree := .node [.node [.node [], .node []], .node []]
    let o : OTree := .node (.node (.leaf [0, 0] [1, 2]) (.leaf [1] [2])) (.leaf [0, 1] [1])
    S.isBinary = true ∧ (∀ p ∈ leafSpecies o, S.isNode p = true) ∧
    c.spe + c.sloss ≤ c.dup + 2 * c.floss ∧
    (uspfs c S false o).map (totalCost c .unordered o) = [.fin 1] ∧
    (uspfs c S true o).map (totalCost c .unordered o) = [.fin 21] ∧
    uspfsTableMin c S false o = .fin 1 ∧ uspfsTableMin c S true o = .fin 21 := by
  decide +kernel

end SR.C10
