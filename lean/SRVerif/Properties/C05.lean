/-
  C05 — ALL returns exactly the optimal solutions, ANY returns one of them.

  The policy `all` is what the solver models compute; `any` returns one member
  (first tag kept by `Entry.update`, C16_any).  The statements below are about
  the result entry shared by every solver (`rankByCost`): given the candidates
  decoded from the table, the result is exactly the arg-minimum set of the
  evaluated cost, duplicate-free, and all its members have the same cost.
-/
import SRVerif.Proofs.Cost
import SRVerif.Spec.Opt

namespace SR.C05

open SR

/-- Full statement for a solver `f` with solution space `Valid`: the result is
    exactly the set of valid solutions of minimum cost, each once. -/
def C05_all_statement (f : List Sol) (c : Costs) (mode : LabelMode) (o : OTree)
    (Valid : Sol → Prop) : Prop :=
  (∀ sol, sol ∈ f ↔ Valid sol ∧ ∀ sol', Valid sol' →
      Cost.le (totalCost c mode o sol) (totalCost c mode o sol') = true) ∧ f.Nodup

/-- All members of a result have the same evaluated cost. -/
theorem C05_same_cost (c : Costs) (mode : LabelMode) (o : OTree) (cands : List Sol)
    (s s' : Sol) (h : s ∈ rankByCost c mode o cands) (h' : s' ∈ rankByCost c mode o cands) :
    totalCost c mode o s = totalCost c mode o s' := by
  rw [mem_rankByCost] at h h'
  exact Cost.le_antisymm (h.2 s' h'.1) (h'.2 s h.1)

/-- The result is duplicate-free and is exactly the arg-minimum set of the candidates. -/
theorem C05_argmin (c : Costs) (mode : LabelMode) (o : OTree) (cands : List Sol) :
    (∀ s, s ∈ rankByCost c mode o cands ↔
      s ∈ cands ∧ ∀ s' ∈ cands, Cost.le (totalCost c mode o s) (totalCost c mode o s') = true)
    ∧ (rankByCost c mode o cands).Nodup :=
  ⟨fun s => mem_rankByCost c mode o cands s, nodup_rankByCost _ _ _ _⟩

/-- The result is empty only if there is no candidate at all. -/
theorem C05_empty_iff (c : Costs) (mode : LabelMode) (o : OTree) (cands : List Sol) :
    rankByCost c mode o cands = [] ↔ cands = [] := by
  constructor
  · intro h
    cases hc : cands with
    | nil => rfl
    | cons x xs =>
      exfalso
      -- some candidate attains the minimum
      have hne : cands ≠ [] := by simp [hc]
      obtain ⟨m, hm, hmin⟩ : ∃ m ∈ cands, ∀ s' ∈ cands,
          Cost.le (totalCost c mode o m) (totalCost c mode o s') = true := by
        clear h hc
        induction cands with
        | nil => exact absurd rfl hne
        | cons y ys ih =>
          by_cases hys : ys = []
          · subst hys; exact ⟨y, by simp, by intro s' hs'; simp at hs'; subst hs'; exact Cost.le_refl _⟩
          · obtain ⟨m, hm, hmin⟩ := ih hys
            rcases Cost.le_total (totalCost c mode o y) (totalCost c mode o m) with hle | hle
            · refine ⟨y, by simp, ?_⟩
              intro s' hs'
              rcases List.mem_cons.mp hs' with h1 | h1
              · subst h1; exact Cost.le_refl _
              · exact Cost.le_trans hle (hmin s' h1)
            · refine ⟨m, by simp [hm], ?_⟩
              intro s' hs'
              rcases List.mem_cons.mp hs' with h1 | h1
              · subst h1; exact hle
              · exact hmin s' h1
      have : m ∈ rankByCost c mode o cands := (mem_rankByCost c mode o cands m).mpr ⟨hm, hmin⟩
      rw [h] at this; cases this
  · intro h; subst h; simp [rankByCost, dedup]

end SR.C05
