/-
  C02 with a PRESCRIBED root order — "…all root gene orders compatible with the leaves (or
  the prescribed root order)…", the prescribed root synteny being any duplicate-free common
  supersequence of the leaf syntenies, possibly a STRICT one holding families that no leaf
  carries.

  `Properties/C02Spec.lean` proves oracle adequacy and the end-to-end theorems for
  `prescribed = none` only, where validity (`Spec.validSol .ordered`) asks the root synteny to
  be a permutation of `families o` (`C02_orders_perm`, `isPermOf`, `validSol_iff_rootOrder`).
  Under a prescribed order `r` validity is `Spec.validSolPre .ordered o (some r)`
  (`Spec/ValidRoot.lean`): valid events, leaf syntenies as given, child ⊑ parent, root synteny
  `= r`, `r` duplicate-free.  The permutation lemmas are replaced by `r ⊇ families o`, `r.Nodup`
  (`C02_prescribed_sup`; `Proofs/OptAdequacyPre.lean`) — nothing here asks `r ⊆ families o`.
  (The mask-level theory of `C02Dp.lean` / `LabelDPOrd*.lean` never used the permutation
  property: it needs `OrdersOk` = `order.Nodup ∧ LeavesOk order o` only.)

  Guards.  `PreOk o r`: `r` duplicate-free and every leaf synteny a non-empty subsequence of
  `r`.  End to end additionally those of `C02Dp`: binary species tree containing the leaf
  species, `spe + 2·sloss ≤ dup + 2·floss`.

  (a) ORACLE ADEQUACY (no coherence, no binarity needed; the oracle shares nothing with the
      optimiser):
  * `C02_oracle_le_pre`, `C02_oracle_le_pre_base`   `Spec.optimum … (some r)` is at most the
      evaluated cost of every solution valid under `r` (LCA-mapped ones for `base`);
  * `C02_oracle_attained_pre`   a finite optimum is the cost of a solution valid under `r`
      (guard `hleaf`: for a SINGLE-LEAF input `r` is the leaf's synteny — the oracle's leaf
      cell ignores the root order; `C02_oracle_leaf_strict` shows the guard is needed; in the
      code the prescribed order of a single-leaf input IS the leaf synteny, so the excluded
      case is not reachable);
  * `C02_oracle_min_pre`        hence `optimum.1` IS the minimum of `totalCost` over the
      solutions valid under `r`, and it is `∞` iff none has finite cost;
  * `C02_oracle_sols_pre`, `C02_oracle_sols_pre_base`, `C02_oracle_sols_nodup_pre`
      `optimum.2` = exactly the solutions valid under `r` of minimum finite cost, each once.
  (b) END TO END (`spfs`, policy ALL; coherent region) — no single-leaf guard:
  * `C02_spfs_valid_pre`        every returned solution is valid under `r`, of finite cost
      (all unit costs);
  * `C02_base_mapping_pre`      the base solver returns LCA-mapped solutions;
  * `C02_spfs_eq_optimum_pre`   `spfs … (some r)` = the oracle's optimal set;
  * `C02_ext_exact_prescribed`, `C02_base_exact_prescribed`   `σ ∈ spfs c S base o (some r)` iff
      `σ` is valid under `r`, of finite cost, and no solution valid under `r` (any species
      mapping — LCA mapping for `base` —, any sequence labelling) is cheaper; `Nodup`;
  * `C02_ext_optimal_prescribed`, `C02_base_optimal_prescribed`  the `C02_ext_optimal` form;
  * `C02_code_ext_exact_prescribed`, `C02_code_base_exact_prescribed`   the same for the
      code-structured model `spfsCode` (through `C02_code_refines_prescribed`).
  * `C02_prescribed_perm`       when `r` is a permutation of the families, "valid under `r`"
      is `Spec.validSol` with root synteny `r` (link with `C02_ext_exact`).
  Non-vacuity: leaves `a`, `b`, `ab`, prescribed root `a x b` with `x` carried by no leaf: the
  optimum (4) keeps `x` at the inner node, where it is lost together with a neighbour as one
  run; dropping `x` at once costs 5.  `spfs`, `spfsCode` and the oracle all find 4.
-/
import SRVerif.Properties.C02Code
import SRVerif.Proofs.OptAdequacyPre

namespace SR.C02

open SR Cost Spec

/-- The prescribed root order qualifies: duplicate-free, every leaf synteny a non-empty
    subsequence of it.  (It may hold families that no leaf carries.) -/
def PreOk (o : OTree) (r : List Nat) : Prop :=
  r.Nodup ∧ ∀ f ∈ leafSyntenies o, f ≠ [] ∧ f.Sublist r

theorem PreOk.ordersOk {o : OTree} {r : List Nat} (h : PreOk o r) : OrdersOk o (some r) :=
  C02_orders_ok_prescribed o r h.1 h.2

theorem PreOk.ne {o : OTree} {r : List Nat} (h : PreOk o r) : ∀ f ∈ leafSyntenies o, f ≠ [] :=
  fun f hf => (h.2 f hf).1

/-- What replaces `C02_orders_perm` under a prescribed order: `r ⊇ families o`, `r.Nodup`. -/
theorem C02_prescribed_sup (o : OTree) (r : List Nat) (h : PreOk o r) :
    ∀ order ∈ rootOrders o (some r), order.Nodup ∧ ∀ x ∈ families o, x ∈ order := by
  intro order ho
  simp only [rootOrders, List.mem_singleton] at ho
  subst ho
  exact ⟨h.1, families_subset_of_sup o order (fun f hf => (h.2 f hf).2)⟩

/-- The guards are those of any solution valid under `r`: if one exists (leaf syntenies
    non-empty), `PreOk o r` holds. -/
theorem C02_preOk_of_valid (o : OTree) (r : List Nat) (hne : ∀ f ∈ leafSyntenies o, f ≠ [])
    (sol : Sol) (hv : Spec.validSolPre .ordered o (some r) sol = true) : PreOk o r := by
  obtain ⟨hnd, hsup, _⟩ := validPre_root_sup o r sol hv
  exact ⟨hnd, fun f hf => ⟨hne f hf, hsup f hf⟩⟩

/-- When the prescribed order is a permutation of the families, validity under it is
    `Spec.validSol` with that root synteny. -/
theorem C02_prescribed_perm (o : OTree) (r : List Nat) (hsub : ∀ x ∈ r, x ∈ families o) (sol : Sol) :
    Spec.validSolPre .ordered o (some r) sol = true ↔
      Spec.validSol .ordered o sol = true ∧ sol.fam = r :=
  validSolPre_iff_validSol o r sol hsub

variable (c : Costs) (S : RTree) (o : OTree) (r : List Nat)

/-! ### (a) Oracle adequacy under a prescribed root order -/

/-- Species of a solution valid under `r`, extended variant. -/
theorem speciesOk_of_validPre (hS : ∀ p ∈ leafSpecies o, S.isNode p = true) (sol : Sol)
    (hv : Spec.validSolPre .ordered o (some r) sol = true) : SpeciesOk S false o sol :=
  speciesOk_of_valid S o sol hS ((validSolPre_iff o r sol).mp hv).1

/-- Species of a solution valid under `r`, base variant. -/
theorem speciesOk_base_iff_pre (sol : Sol)
    (hv : Spec.validSolPre .ordered o (some r) sol = true) :
    SpeciesOk S true o sol ↔ sameMapping sol (lcaSol o) = true :=
  speciesOk_base_iff S o sol ((validSolPre_iff o r sol).mp hv).1

/-- **(a), lower bound, general form** (either variant). -/
theorem C02_oracle_le_pre_gen (base keep : Bool) (sol : Sol)
    (hv : Spec.validSolPre .ordered o (some r) sol = true) (hs : SpeciesOk S base o sol) :
    Cost.le (Spec.optimum c S .ordered base keep o (some r)).1 (totalCost c .ordered o sol) = true := by
  obtain ⟨hvr, hl, hfam, _⟩ := (validSolPre_iff o r sol).mp hv
  exact C02_oracle_le_gen c S o base keep (some r) sol hvr hl (by simp [rootOrders, hfam]) hs

/-- **(a)** With a prescribed root order `r` the oracle's optimum is a lower bound of the cost
    of EVERY solution valid under `r` (any species mapping, any sequence labelling). -/
theorem C02_oracle_le_pre (keep : Bool) (hS : ∀ p ∈ leafSpecies o, S.isNode p = true) (sol : Sol)
    (hv : Spec.validSolPre .ordered o (some r) sol = true) :
    Cost.le (Spec.optimum c S .ordered false keep o (some r)).1 (totalCost c .ordered o sol) = true :=
  C02_oracle_le_pre_gen c S o r false keep sol hv (speciesOk_of_validPre S o r hS sol hv)

/-- **(a), base**: among the solutions valid under `r` that use the LCA mapping. -/
theorem C02_oracle_le_pre_base (keep : Bool) (sol : Sol)
    (hv : Spec.validSolPre .ordered o (some r) sol = true)
    (hm : sameMapping sol (lcaSol o) = true) :
    Cost.le (Spec.optimum c S .ordered true keep o (some r)).1 (totalCost c .ordered o sol) = true :=
  C02_oracle_le_pre_gen c S o r true keep sol hv ((speciesOk_base_iff_pre S o r sol hv).mpr hm)

/-- **The optimum is attained**: a finite oracle optimum is the cost of a solution valid
    under `r` (with allowed species). -/
theorem C02_oracle_attained_pre (base keep : Bool) (hnd : r.Nodup)
    (hleaf : ∀ sp f, o = .leaf sp f → r = f)
    (h : (Spec.optimum c S .ordered base keep o (some r)).1 ≠ .inf) :
    ∃ sol, Spec.validSolPre .ordered o (some r) sol = true ∧ SpeciesOk S base o sol ∧
      totalCost c .ordered o sol = (Spec.optimum c S .ordered base keep o (some r)).1 := by
  obtain ⟨md, hmd, sol, hf, hc⟩ := optimum_attained c S base .ordered keep o (some r) h
  simp only [modeDatas, rootOrders, List.map_cons, List.map_nil, List.mem_singleton] at hmd
  subst hmd
  obtain ⟨hv, hs⟩ := valid_of_feasible_pre c S base o r hnd hleaf sol hf (by rw [hc]; exact h)
  exact ⟨sol, hv, hs, by rw [← specCost_eq_totalCost_pre c o r sol hv, hc]⟩

/-- **(b)** Every member of the oracle's optimal set is valid under `r` (with allowed
    species) and its evaluated cost is the — finite — optimum. -/
theorem C02_oracle_sols_sound_pre (base : Bool) (hnd : r.Nodup)
    (hleaf : ∀ sp f, o = .leaf sp f → r = f) (sol : Sol)
    (h : sol ∈ (Spec.optimum c S .ordered base true o (some r)).2) :
    Spec.validSolPre .ordered o (some r) sol = true ∧ SpeciesOk S base o sol ∧
      totalCost c .ordered o sol = (Spec.optimum c S .ordered base true o (some r)).1 ∧
      totalCost c .ordered o sol ≠ .inf := by
  obtain ⟨md, hmd, hf, hc, hfin⟩ := (mem_optimum_sols c S base .ordered o (some r) sol).mp h
  simp only [modeDatas, rootOrders, List.map_cons, List.map_nil, List.mem_singleton] at hmd
  subst hmd
  obtain ⟨hv, hs⟩ := valid_of_feasible_pre c S base o r hnd hleaf sol hf (by rw [hc]; exact hfin)
  have hcost : totalCost c .ordered o sol = (Spec.optimum c S .ordered base true o (some r)).1 := by
    rw [← specCost_eq_totalCost_pre c o r sol hv, hc]
  exact ⟨hv, hs, hcost, by rw [hcost]; exact hfin⟩

/-- **(c)** A solution valid under `r` with allowed species whose evaluated cost is the finite
    optimum belongs to the oracle's optimal set. -/
theorem C02_oracle_sols_complete_pre (base : Bool) (sol : Sol)
    (hv : Spec.validSolPre .ordered o (some r) sol = true) (hs : SpeciesOk S base o sol)
    (hc : totalCost c .ordered o sol = (Spec.optimum c S .ordered base true o (some r)).1)
    (hfin : totalCost c .ordered o sol ≠ .inf) :
    sol ∈ (Spec.optimum c S .ordered base true o (some r)).2 := by
  refine (mem_optimum_sols c S base .ordered o (some r) sol).mpr ⟨.ordered r, ?_, ?_, ?_, ?_⟩
  · simp [modeDatas, rootOrders]
  · exact feasible_of_validPre S base o r sol hv hs
  · rw [specCost_eq_totalCost_pre c o r sol hv, hc]
  · rw [← hc]; exact hfin

/-- **(a), the oracle's optimum IS the minimum** of the evaluated cost over all solutions valid
    under the prescribed root order `r`: a lower bound of all of them, attained when finite, and
    infinite exactly when no valid solution has finite cost. -/
theorem C02_oracle_min_pre (keep : Bool) (hnd : r.Nodup) (hleaf : ∀ sp f, o = .leaf sp f → r = f)
    (hS : ∀ p ∈ leafSpecies o, S.isNode p = true) :
    (∀ sol, Spec.validSolPre .ordered o (some r) sol = true →
      Cost.le (Spec.optimum c S .ordered false keep o (some r)).1 (totalCost c .ordered o sol) = true) ∧
    ((Spec.optimum c S .ordered false keep o (some r)).1 ≠ .inf →
      ∃ sol, Spec.validSolPre .ordered o (some r) sol = true ∧
        totalCost c .ordered o sol = (Spec.optimum c S .ordered false keep o (some r)).1) ∧
    ((Spec.optimum c S .ordered false keep o (some r)).1 = .inf ↔
      ∀ sol, Spec.validSolPre .ordered o (some r) sol = true → totalCost c .ordered o sol = .inf) := by
  refine ⟨fun sol hv => C02_oracle_le_pre c S o r keep hS sol hv, ?_, ?_, ?_⟩
  · intro h
    obtain ⟨sol, hv, _, hc⟩ := C02_oracle_attained_pre c S o r false keep hnd hleaf h
    exact ⟨sol, hv, hc⟩
  · intro h sol hv
    have := C02_oracle_le_pre c S o r keep hS sol hv
    rw [h] at this
    exact (inf_le _).mp this
  · intro h
    by_contra hfin
    obtain ⟨sol, hv, _, hc⟩ := C02_oracle_attained_pre c S o r false keep hnd hleaf hfin
    exact hfin (by rw [← hc]; exact h sol hv)

/-- The same for `base`, among the solutions that use the LCA species mapping. -/
theorem C02_oracle_min_pre_base (keep : Bool) (hnd : r.Nodup)
    (hleaf : ∀ sp f, o = .leaf sp f → r = f) :
    (∀ sol, Spec.validSolPre .ordered o (some r) sol = true → sameMapping sol (lcaSol o) = true →
      Cost.le (Spec.optimum c S .ordered true keep o (some r)).1 (totalCost c .ordered o sol) = true) ∧
    ((Spec.optimum c S .ordered true keep o (some r)).1 ≠ .inf →
      ∃ sol, Spec.validSolPre .ordered o (some r) sol = true ∧ sameMapping sol (lcaSol o) = true ∧
        totalCost c .ordered o sol = (Spec.optimum c S .ordered true keep o (some r)).1) := by
  refine ⟨fun sol hv hm => C02_oracle_le_pre_base c S o r keep sol hv hm, ?_⟩
  intro h
  obtain ⟨sol, hv, hs, hc⟩ := C02_oracle_attained_pre c S o r true keep hnd hleaf h
  exact ⟨sol, hv, (speciesOk_base_iff_pre S o r sol hv).mp hs, hc⟩

/-- **(b) + (c)**: under a prescribed root order `r` the oracle's optimal set is exactly the set
    of solutions valid under `r` of minimum (finite) evaluated cost. -/
theorem C02_oracle_sols_pre (hnd : r.Nodup) (hleaf : ∀ sp f, o = .leaf sp f → r = f)
    (hS : ∀ p ∈ leafSpecies o, S.isNode p = true) (sol : Sol) :
    sol ∈ (Spec.optimum c S .ordered false true o (some r)).2 ↔
      Spec.validSolPre .ordered o (some r) sol = true ∧ totalCost c .ordered o sol ≠ .inf ∧
      ∀ sol', Spec.validSolPre .ordered o (some r) sol' = true →
        Cost.le (totalCost c .ordered o sol) (totalCost c .ordered o sol') = true := by
  constructor
  · intro h
    obtain ⟨hv, _, hc, hfin⟩ := C02_oracle_sols_sound_pre c S o r false hnd hleaf sol h
    refine ⟨hv, hfin, fun sol' hv' => ?_⟩
    rw [hc]; exact C02_oracle_le_pre c S o r true hS sol' hv'
  · rintro ⟨hv, hfin, hmin⟩
    refine C02_oracle_sols_complete_pre c S o r false sol hv (speciesOk_of_validPre S o r hS sol hv)
      (le_antisymm ?_ ?_) hfin
    · by_cases hinf : (Spec.optimum c S .ordered false true o (some r)).1 = .inf
      · rw [hinf]; exact le_inf _
      · obtain ⟨sol', hv', _, hc'⟩ := C02_oracle_attained_pre c S o r false true hnd hleaf hinf
        rw [← hc']; exact hmin sol' hv'
    · exact C02_oracle_le_pre c S o r true hS sol hv

/-- **(b) + (c), base**: the optimal set among the solutions that use the LCA mapping. -/
theorem C02_oracle_sols_pre_base (hnd : r.Nodup) (hleaf : ∀ sp f, o = .leaf sp f → r = f)
    (sol : Sol) :
    sol ∈ (Spec.optimum c S .ordered true true o (some r)).2 ↔
      Spec.validSolPre .ordered o (some r) sol = true ∧ sameMapping sol (lcaSol o) = true ∧
      totalCost c .ordered o sol ≠ .inf ∧
      ∀ sol', Spec.validSolPre .ordered o (some r) sol' = true →
        sameMapping sol' (lcaSol o) = true →
        Cost.le (totalCost c .ordered o sol) (totalCost c .ordered o sol') = true := by
  constructor
  · intro h
    obtain ⟨hv, hs, hc, hfin⟩ := C02_oracle_sols_sound_pre c S o r true hnd hleaf sol h
    refine ⟨hv, (speciesOk_base_iff_pre S o r sol hv).mp hs, hfin, fun sol' hv' hm' => ?_⟩
    rw [hc]; exact C02_oracle_le_pre_base c S o r true sol' hv' hm'
  · rintro ⟨hv, hm, hfin, hmin⟩
    have hs := (speciesOk_base_iff_pre S o r sol hv).mpr hm
    refine C02_oracle_sols_complete_pre c S o r true sol hv hs (le_antisymm ?_ ?_) hfin
    · by_cases hinf : (Spec.optimum c S .ordered true true o (some r)).1 = .inf
      · rw [hinf]; exact le_inf _
      · obtain ⟨sol', hv', hs', hc'⟩ := C02_oracle_attained_pre c S o r true true hnd hleaf hinf
        rw [← hc']
        exact hmin sol' hv' ((speciesOk_base_iff_pre S o r sol' hv').mp hs')
    · exact C02_oracle_le_pre_base c S o r true sol hv hm

theorem C02_oracle_sols_nodup_pre (base keep : Bool) :
    (Spec.optimum c S .ordered base keep o (some r)).2.Nodup := nodup_optimum_sols c S base _ _ _ _

/-- The single-leaf guard of `C02_oracle_attained_pre` is needed: for the single leaf `a` and the
    prescribed order `a x` the oracle reports optimum 0 with the leaf as its solution, while no
    solution is valid under `a x` (the root IS the leaf, whose synteny is `a`); the solver
    rightly returns nothing. -/
theorem C02_oracle_leaf_strict :
    let c : Costs := { spe := 1, dup := 1, hgt := .fin 1, floss := 1, sloss := 1 }
    let S : RTree := .node [.node [], .node []]
    let o : OTree := .leaf [0] [1]
    PreOk o [1, 9] ∧
    Spec.optimum c S .ordered false true o (some [1, 9]) = (.fin 0, [.leaf [0] [1]]) ∧
    (∀ sol, Spec.validSolPre .ordered o (some [1, 9]) sol = false) ∧
    spfs c S false o (some [1, 9]) = [] := by
  refine ⟨⟨by decide, by decide⟩, by decide +kernel, ?_, by decide +kernel⟩
  intro sol
  cases h : Spec.validSolPre .ordered (.leaf [0] [1]) (some [1, 9]) sol with
  | false => rfl
  | true => exact absurd (root_eq_of_validPre _ _ sol h [0] [1] rfl) (by decide)

/-! ### (b) End to end -/

/-- **C04 under a prescribed root order**: every solution returned by `spfs` (either variant)
    is valid under `r` and has a finite evaluated cost — all unit costs. -/
theorem C02_spfs_valid_pre (base : Bool) (hr : PreOk o r) :
    ∀ sol ∈ spfs c S base o (some r),
      Spec.validSolPre .ordered o (some r) sol = true ∧ totalCost c .ordered o sol ≠ .inf := by
  intro sol hsol
  obtain ⟨⟨order, ho, d, hd, ls, hls, rfl⟩, _⟩ := (mem_spfs c S base o (some r) _).mp hsol
  have hord := hr.ordersOk order ho
  obtain ⟨hv, hfam, _, hfin, _⟩ := C02_cell_sound c S base o hord.1 hord.2 d hd ls hls
  have hl := C02_cell_labels c S base o hord.2 d hd ls hls
  simp only [rootOrders, List.mem_singleton] at ho
  subst ho
  exact ⟨(validSolPre_iff o order _).mpr ⟨hv, hl, hfam, hr.1⟩, hfin⟩

/-- Decoded table solutions are valid under the order they were computed for, with allowed
    species (any set of root orders satisfying `OrdersOk`). -/
theorem decoded_valid_gen (base : Bool) (hS : ∀ p ∈ leafSpecies o, S.isNode p = true)
    {order : List Nat} (hnd : order.Nodup) (hlv : LeavesOk order o) :
    ∀ d ∈ spfsCellsFor c S base true o order, ∀ ls ∈ d.sols,
      Spec.validSolPre .ordered o (some order) (ordSol order ls) = true ∧
      SpeciesOk S base o (ordSol order ls) := by
  intro d hd ls hls
  obtain ⟨hv, hfam, _⟩ := C02_cell_sound c S base o hnd hlv d hd ls hls
  have hl := C02_cell_labels c S base o hlv d hd ls hls
  refine ⟨(validSolPre_iff o order _).mpr ⟨hv, hl, hfam, hnd⟩, ?_⟩
  cases base with
  | false => exact speciesOk_of_valid S o _ hS hv
  | true =>
    obtain ⟨hd', _⟩ := (mem_spfsCellsFor c S true o).mp hd
    have hX : c.spe + 2 * c.sloss ≤ c.dup + 2 * c.floss + (c.spe + 2 * c.sloss) := by omega
    obtain ⟨adm, _⟩ := dp_sound (ordAlg c) c S (ord_slack c) hX _ d hd' ls hls
    exact speciesOk_ordSol c S order o true ls adm

/-- Every solution returned by the `base` solver uses the LCA species mapping. -/
theorem C02_base_mapping_pre (hr : PreOk o r) :
    ∀ sol ∈ spfs c S true o (some r), sameMapping sol (lcaSol o) = true := by
  intro sol hsol
  obtain ⟨⟨order, ho, d, hd, ls, hls, rfl⟩, _⟩ := (mem_spfs c S true o (some r) sol).mp hsol
  have hord := hr.ordersOk order ho
  obtain ⟨hv, _⟩ := C02_cell_sound c S true o hord.1 hord.2 d hd ls hls
  obtain ⟨hd', _⟩ := (mem_spfsCellsFor c S true o).mp hd
  have hX : c.spe + 2 * c.sloss ≤ c.dup + 2 * c.floss + (c.spe + 2 * c.sloss) := by omega
  obtain ⟨adm, _⟩ := dp_sound (ordAlg c) c S (ord_slack c) hX _ d hd' ls hls
  exact (speciesOk_base_iff S o _ hv).mp (speciesOk_ordSol c S order o true ls adm)

/-- The species of a returned solution are allowed ones. -/
theorem speciesOk_spfs_pre (base : Bool) (hr : PreOk o r)
    (hS : ∀ p ∈ leafSpecies o, S.isNode p = true) :
    ∀ sol ∈ spfs c S base o (some r), SpeciesOk S base o sol := by
  intro sol hsol
  obtain ⟨hv, _⟩ := C02_spfs_valid_pre c S o r base hr sol hsol
  cases base with
  | false => exact speciesOk_of_validPre S o r hS sol hv
  | true => exact (speciesOk_base_iff_pre S o r sol hv).mpr (C02_base_mapping_pre c S o r hr sol hsol)

/-- **C05 (⊆) under a prescribed root order**: every returned solution is a member of the
    specification's optimal set and its cost is the specification's optimum. -/
theorem C02_spfs_subset_optimum_pre (base : Bool) (hr : PreOk o r)
    (hb : S.isBinary = true) (hS : ∀ p ∈ leafSpecies o, S.isNode p = true)
    (hcoh : c.spe + 2 * c.sloss ≤ c.dup + 2 * c.floss) :
    ∀ sol ∈ spfs c S base o (some r),
      sol ∈ (Spec.optimum c S .ordered base true o (some r)).2 ∧
      totalCost c .ordered o sol = (Spec.optimum c S .ordered base true o (some r)).1 := by
  intro sol hsol
  obtain ⟨hv, hfin⟩ := C02_spfs_valid_pre c S o r base hr sol hsol
  have hle := C02_spfs_le_optimum c S base o (some r) hr.ordersOk hb hS hcoh true sol hsol
  have hs := speciesOk_spfs_pre c S o r base hr hS sol hsol
  have hc : totalCost c .ordered o sol = (Spec.optimum c S .ordered base true o (some r)).1 :=
    le_antisymm hle (C02_oracle_le_pre_gen c S o r base true sol hv hs)
  exact ⟨C02_oracle_sols_complete_pre c S o r base sol hv hs hc hfin, hc⟩

/-- The oracle's optimum is at most the evaluated cost of every admissible non-empty mask
    labelling relative to `r` (coherent region). -/
theorem optimum_le_masks_pre (base keep : Bool) (hr : PreOk o r)
    (hb : S.isBinary = true) (hS : ∀ p ∈ leafSpecies o, S.isNode p = true)
    (hcoh : c.spe + 2 * c.sloss ≤ c.dup + 2 * c.floss) :
    ∀ ls, Adm (ordAlg c) (annOrd S base r true o) ls → ls.lab = 2 ^ r.length - 1 → NZ ls →
      Cost.le (Spec.optimum c S .ordered base keep o (some r)).1
        (totalCost c .ordered o (ordSol r ls)) = true := by
  intro ls adm hroot hnz
  have hlv : LeavesOk r o := leavesOk_of_all r o hr.2
  rw [totalCost_ordSol c S base hr.1 o ls adm hnz hroot]
  by_cases hfin : labCost (ordAlg c) c (annOrd S base r true o) ls = .inf
  · rw [hfin]; exact le_inf _
  · obtain ⟨d, hd, _, hlab, hle⟩ := dp_lower (ordAlg c) c S true hb _
      (spOk_annOrd c S base r o hS true) ls adm hfin
    have hd' : d ∈ spfsCellsFor c S base true o r :=
      (mem_spfsCellsFor c S base o).mpr ⟨hd, by rw [hlab, hroot]⟩
    obtain ⟨ls', hls'⟩ := dp_nonempty (ordAlg c) c S _ d hd
    obtain ⟨_, _, _, _, hle'⟩ := C02_cell_sound c S base o hr.1 hlv d hd' ls' hls'
    obtain ⟨hv, hs⟩ := decoded_valid_gen c S o base hS hr.1 hlv d hd' ls' hls'
    exact le_trans (C02_oracle_le_pre_gen c S o r base keep _ hv hs) (le_trans (hle' hcoh) hle)

/-- **C05 (⊇) under a prescribed root order**: every member of the specification's optimal
    set is returned. -/
theorem C02_optimum_subset_spfs_pre (base : Bool) (hr : PreOk o r)
    (hleaf : ∀ sp f, o = .leaf sp f → r = f)
    (hb : S.isBinary = true) (hS : ∀ p ∈ leafSpecies o, S.isNode p = true)
    (hcoh : c.spe + 2 * c.sloss ≤ c.dup + 2 * c.floss) :
    ∀ sol ∈ (Spec.optimum c S .ordered base true o (some r)).2, sol ∈ spfs c S base o (some r) := by
  intro sol hsol
  obtain ⟨hv, hs, hc, hfin⟩ := C02_oracle_sols_sound_pre c S o r base hr.1 hleaf sol hsol
  obtain ⟨hadm, hroot, hnz, hrt⟩ := maskSol_of_validPre c S base o r hr.ne sol hv hs
  have := C02_spfs_all_masks c S base o (some r) hr.ordersOk hb hS hcoh r (by simp [rootOrders])
    (maskSol r sol) hadm hroot hnz (by rw [hrt]; exact hfin) (by
      intro order' ho' ls' adm' hroot' hnz'
      simp only [rootOrders, List.mem_singleton] at ho'
      subst ho'
      rw [hrt, hc]
      exact optimum_le_masks_pre c S o order' base true hr hb hS hcoh ls' adm' hroot' hnz')
  rwa [hrt] at this

/-- **C05 under a prescribed root order** (policy ALL), both variants: the solver returns
    exactly the specification's optimal set. -/
theorem C02_spfs_eq_optimum_pre (base : Bool) (hr : PreOk o r)
    (hleaf : ∀ sp f, o = .leaf sp f → r = f)
    (hb : S.isBinary = true) (hS : ∀ p ∈ leafSpecies o, S.isNode p = true)
    (hcoh : c.spe + 2 * c.sloss ≤ c.dup + 2 * c.floss) (sol : Sol) :
    sol ∈ spfs c S base o (some r) ↔ sol ∈ (Spec.optimum c S .ordered base true o (some r)).2 :=
  ⟨fun h => (C02_spfs_subset_optimum_pre c S o r base hr hb hS hcoh sol h).1,
   C02_optimum_subset_spfs_pre c S o r base hr hleaf hb hS hcoh sol⟩

/-- Membership in `spfs … (some r)` or validity under `r` forces the single-leaf guard. -/
theorem hleaf_of_mem_spfs (base : Bool) (hr : PreOk o r) (sol : Sol)
    (h : sol ∈ spfs c S base o (some r)) : ∀ sp f, o = .leaf sp f → r = f :=
  root_eq_of_validPre o r sol (C02_spfs_valid_pre c S o r base hr sol h).1

/-- **C02 + C05 with a prescribed root order, extended solver, exact form**:
    `sreconcile_extended_spfs` (policy ALL) run with the prescribed root order `r` — any
    duplicate-free common supersequence of the non-empty leaf syntenies, possibly holding
    families no leaf carries — returns exactly the solutions valid under `r` of minimum
    (finite) evaluated cost among all solutions valid under `r` (any species mapping, any
    sequence labelling), each once. -/
theorem C02_ext_exact_prescribed (hr : PreOk o r)
    (hb : S.isBinary = true) (hS : ∀ p ∈ leafSpecies o, S.isNode p = true)
    (hcoh : c.spe + 2 * c.sloss ≤ c.dup + 2 * c.floss) :
    (∀ sol, sol ∈ spfs c S false o (some r) ↔
      Spec.validSolPre .ordered o (some r) sol = true ∧ totalCost c .ordered o sol ≠ .inf ∧
      ∀ sol', Spec.validSolPre .ordered o (some r) sol' = true →
        Cost.le (totalCost c .ordered o sol) (totalCost c .ordered o sol') = true) ∧
    (spfs c S false o (some r)).Nodup := by
  refine ⟨fun sol => ⟨fun h => ?_, fun h => ?_⟩, by unfold spfs; exact nodup_rankByCost _ _ _ _⟩
  · have hleaf := hleaf_of_mem_spfs c S o r false hr sol h
    exact (C02_oracle_sols_pre c S o r hr.1 hleaf hS sol).mp
      ((C02_spfs_eq_optimum_pre c S o r false hr hleaf hb hS hcoh sol).mp h)
  · have hleaf := root_eq_of_validPre o r sol h.1
    exact (C02_spfs_eq_optimum_pre c S o r false hr hleaf hb hS hcoh sol).mpr
      ((C02_oracle_sols_pre c S o r hr.1 hleaf hS sol).mpr h)

/-- **C02 + C05 with a prescribed root order, base solver, exact form**: the same among the
    solutions that use the LCA species mapping. -/
theorem C02_base_exact_prescribed (hr : PreOk o r)
    (hb : S.isBinary = true) (hS : ∀ p ∈ leafSpecies o, S.isNode p = true)
    (hcoh : c.spe + 2 * c.sloss ≤ c.dup + 2 * c.floss) :
    (∀ sol, sol ∈ spfs c S true o (some r) ↔
      Spec.validSolPre .ordered o (some r) sol = true ∧ sameMapping sol (lcaSol o) = true ∧
      totalCost c .ordered o sol ≠ .inf ∧
      ∀ sol', Spec.validSolPre .ordered o (some r) sol' = true →
        sameMapping sol' (lcaSol o) = true →
        Cost.le (totalCost c .ordered o sol) (totalCost c .ordered o sol') = true) ∧
    (spfs c S true o (some r)).Nodup := by
  refine ⟨fun sol => ⟨fun h => ?_, fun h => ?_⟩, by unfold spfs; exact nodup_rankByCost _ _ _ _⟩
  · have hleaf := hleaf_of_mem_spfs c S o r true hr sol h
    exact (C02_oracle_sols_pre_base c S o r hr.1 hleaf sol).mp
      ((C02_spfs_eq_optimum_pre c S o r true hr hleaf hb hS hcoh sol).mp h)
  · have hleaf := root_eq_of_validPre o r sol h.1
    exact (C02_spfs_eq_optimum_pre c S o r true hr hleaf hb hS hcoh sol).mpr
      ((C02_oracle_sols_pre_base c S o r hr.1 hleaf sol).mpr h)

/-- **C02 with a prescribed root order, extended solver** (the form of `C02_ext_optimal`): every
    returned solution is valid under `r` and no solution valid under `r` is cheaper. -/
theorem C02_ext_optimal_prescribed (hr : PreOk o r)
    (hb : S.isBinary = true) (hS : ∀ p ∈ leafSpecies o, S.isNode p = true)
    (hcoh : c.spe + 2 * c.sloss ≤ c.dup + 2 * c.floss) :
    ∀ sol ∈ spfs c S false o (some r),
      Spec.validSolPre .ordered o (some r) sol = true ∧
      ∀ sol', Spec.validSolPre .ordered o (some r) sol' = true →
        Cost.le (totalCost c .ordered o sol) (totalCost c .ordered o sol') = true := by
  intro sol h
  obtain ⟨hv, _, hmin⟩ := ((C02_ext_exact_prescribed c S o r hr hb hS hcoh).1 sol).mp h
  exact ⟨hv, hmin⟩

/-- **C02 with a prescribed root order, base solver** (the form of `C02_base_optimal`). -/
theorem C02_base_optimal_prescribed (hr : PreOk o r)
    (hb : S.isBinary = true) (hS : ∀ p ∈ leafSpecies o, S.isNode p = true)
    (hcoh : c.spe + 2 * c.sloss ≤ c.dup + 2 * c.floss) :
    ∀ sol ∈ spfs c S true o (some r),
      Spec.validSolPre .ordered o (some r) sol = true ∧ sameMapping sol (lcaSol o) = true ∧
      ∀ sol', Spec.validSolPre .ordered o (some r) sol' = true →
        sameMapping sol' (lcaSol o) = true →
        Cost.le (totalCost c .ordered o sol) (totalCost c .ordered o sol') = true := by
  intro sol h
  obtain ⟨hv, hm, _, hmin⟩ := ((C02_base_exact_prescribed c S o r hr hb hS hcoh).1 sol).mp h
  exact ⟨hv, hm, hmin⟩

/-- The returned cost is the oracle's optimum, which is finite iff something is returned. -/
theorem C02_spfs_cost_pre (base : Bool) (hr : PreOk o r)
    (hb : S.isBinary = true) (hS : ∀ p ∈ leafSpecies o, S.isNode p = true)
    (hcoh : c.spe + 2 * c.sloss ≤ c.dup + 2 * c.floss) :
    ∀ sol ∈ spfs c S base o (some r),
      totalCost c .ordered o sol = (Spec.optimum c S .ordered base true o (some r)).1 :=
  fun sol h => (C02_spfs_subset_optimum_pre c S o r base hr hb hS hcoh sol h).2

/-! ### The code-structured model (`Model/SpfsCode.lean`) -/

open SpfsCode in
/-- **Extended solver, code-structured model, prescribed root order**: `spfsCode` raises
    nothing and returns exactly the solutions valid under `r` of minimum finite cost, each once. -/
theorem C02_code_ext_exact_prescribed (hr : PreOk o r)
    (hb : S.isBinary = true) (hS : ∀ p ∈ leafSpecies o, S.isNode p = true)
    (hcoh : c.spe + 2 * c.sloss ≤ c.dup + 2 * c.floss) :
    ∃ res, spfsCode c S false o (some r) = .ok res ∧
      (∀ sol, sol ∈ res ↔
        Spec.validSolPre .ordered o (some r) sol = true ∧ totalCost c .ordered o sol ≠ .inf ∧
        ∀ sol', Spec.validSolPre .ordered o (some r) sol' = true →
          Cost.le (totalCost c .ordered o sol) (totalCost c .ordered o sol') = true) ∧
      res.Nodup := by
  obtain ⟨res, hres, hmem, hnd⟩ := C02_code_refines_prescribed c S false o r hS hr.2
  exact ⟨res, hres,
    fun sol => (hmem sol).trans ((C02_ext_exact_prescribed c S o r hr hb hS hcoh).1 sol), hnd⟩

open SpfsCode in
/-- **Base solver, code-structured model, prescribed root order.** -/
theorem C02_code_base_exact_prescribed (hr : PreOk o r)
    (hb : S.isBinary = true) (hS : ∀ p ∈ leafSpecies o, S.isNode p = true)
    (hcoh : c.spe + 2 * c.sloss ≤ c.dup + 2 * c.floss) :
    ∃ res, spfsCode c S true o (some r) = .ok res ∧
      (∀ sol, sol ∈ res ↔
        Spec.validSolPre .ordered o (some r) sol = true ∧ sameMapping sol (lcaSol o) = true ∧
        totalCost c .ordered o sol ≠ .inf ∧
        ∀ sol', Spec.validSolPre .ordered o (some r) sol' = true →
          sameMapping sol' (lcaSol o) = true →
          Cost.le (totalCost c .ordered o sol) (totalCost c .ordered o sol') = true) ∧
      res.Nodup := by
  obtain ⟨res, hres, hmem, hnd⟩ := C02_code_refines_prescribed c S true o r hS hr.2
  exact ⟨res, hres,
    fun sol => (hmem sol).trans ((C02_base_exact_prescribed c S o r hr hb hS hcoh).1 sol), hnd⟩

/-! ### Non-vacuity -/

/-- Leaves `a`, `b`, `ab` (`((a_A, b_B), ab_A)` under `(A,B)`, unit costs), prescribed root
    `a x b` where NO leaf carries `x` (`a = 1, x = 9, b = 2`): a strict supersequence, not a
    permutation of the families.  The guards hold.  The optimum is 4 and every optimal
    solution keeps `x` at the inner node (synteny `a x b` there), where it is lost together
    with a neighbour as ONE run towards `a` and towards `b`; the valid solution `alt` that
    drops `x` at once (inner node `a b`) costs 5 and is not returned.  `spfs`, the
    code-structured model and the oracle agree: 4 optimal solutions (extended), 1 (base, cost
    6).  `best` is not valid in the sense of `Spec.validSol` (its root holds `x`), so these
    theorems are not instances of those of `C02Spec.lean`; without a prescribed order the
    optimum is 3. -/
example :
    let c : Costs := { spe := 1, dup := 1, hgt := .fin 1, floss := 1, sloss := 1 }
    let S : RTree := .node [.node [], .node []]
    let o : OTree := .node (.node (.leaf [0] [1]) (.leaf [1] [2])) (.leaf [0] [1, 2])
    let r : List Nat := [1, 9, 2]
    let best : Sol :=
      .node [0] [1, 9, 2] (.node [1] [1, 9, 2] (.leaf [0] [1]) (.leaf [1] [2])) (.leaf [0] [1, 2])
    let alt : Sol :=
      .node [0] [1, 9, 2] (.node [1] [1, 2] (.leaf [0] [1]) (.leaf [1] [2])) (.leaf [0] [1, 2])
    S.isBinary = true ∧ (∀ p ∈ leafSpecies o, S.isNode p = true) ∧
    c.spe + 2 * c.sloss ≤ c.dup + 2 * c.floss ∧
    families o = [1, 2] ∧ 9 ∉ families o ∧
    Spec.validSolPre .ordered o (some r) best = true ∧ Spec.validSol .ordered o best = false ∧
    Spec.validSolPre .ordered o (some r) alt = true ∧
    totalCost c .ordered o best = .fin 4 ∧ totalCost c .ordered o alt = .fin 5 ∧
    best ∈ spfs c S false o (some r) ∧ alt ∉ spfs c S false o (some r) ∧
    (spfs c S false o (some r)).length = 4 ∧
    (spfs c S false o (some r)).map (fun sol => match sol with | .node _ f l _ => (f, l.fam) | _ => ([], [])) =
      [(r, r), (r, r), (r, r), (r, r)] ∧
    (Spec.optimum c S .ordered false true o (some r)).1 = .fin 4 ∧
    (∀ sol ∈ (Spec.optimum c S .ordered false true o (some r)).2, sol ∈ spfs c S false o (some r)) ∧
    (∀ sol ∈ spfs c S false o (some r), sol ∈ (Spec.optimum c S .ordered false true o (some r)).2) ∧
    (∃ res, spfsCode c S false o (some r) = .ok res ∧ res.length = 4 ∧
      ∀ sol ∈ res, sol ∈ spfs c S false o (some r)) ∧
    (spfs c S true o (some r)).map (totalCost c .ordered o) = [.fin 6] ∧
    (Spec.optimum c S .ordered true true o (some r)).1 = .fin 6 ∧
    (Spec.optimum c S .ordered false true o none).1 = .fin 3 := by
  refine ⟨by decide, by decide, by decide, by decide +kernel, by decide +kernel, by decide +kernel,
    by decide +kernel, by decide +kernel, by decide +kernel, by decide +kernel, by decide +kernel,
    by decide +kernel, by decide +kernel, by decide +kernel, by decide +kernel, by decide +kernel,
    by decide +kernel, ⟨_, rfl, by decide +kernel, by decide +kernel⟩, by decide +kernel,
    by decide +kernel, by decide +kernel⟩

/-- The guard `PreOk` of the example (stated apart: `Sublist` is decided by instance search). -/
example : PreOk (.node (.node (.leaf [0] [1]) (.leaf [1] [2])) (.leaf [0] [1, 2])) [1, 9, 2] :=
  ⟨by decide, by decide⟩

/-- A prescribed order that IS a permutation of the families (`ab` / `b`, root `a b`): the
    prescribed theorems give back the solutions of `C02_ext_exact` with that root order. -/
example :
    let c : Costs := { spe := 1, dup := 1, hgt := .fin 1, floss := 1, sloss := 1 }
    let S : RTree := .node [.node [], .node []]
    let o : OTree := .node (.leaf [0] [1, 2]) (.leaf [1] [2])
    (∀ x ∈ [1, 2], x ∈ families o) ∧
    spfs c S false o (some [1, 2]) = spfs c S false o none ∧
    (spfs c S false o none).length = 1 := by
  decide +kernel

end SR.C02
