/-
  C19 — Topological orderings are enumerated completely and without
  repetition: the clauses of `Properties/C19.lean`, restated for the functions
  that `harness/translate_py.py` GENERATES from the text of
  `superrec2/utils/toposort.py` on every run
  (`SRVerif/Generated/TopoPy.lean`, namespace `SR.Gen.Topo`: `toposort` with its
  loops, the recursive helper `_toposort_all_bt`, `toposort_all`; `find_cycle`
  is not part of C19 and is not translated).

  The bridge is `SRVerif/Generated/TopoPyEquiv.lean` (`gen_*`, proved in
  `SRVerif/Proofs/TopoPyEquiv.lean` and `TopoPyEquivAll.lean`), at node type `Nat`:
  * `toposort` iterates a deque, a dict and the caller's sets only: the
    generated function is EQUAL to the hand-written model's (result and
    exception) on every graph with pairwise different keys;
  * `toposort_all` iterates the Python sets `starts` / `next_starts`, whose
    iteration order Python does not specify: the generated function takes that
    order as the parameter `ord` (applied to the elements in insertion order),
    and every theorem below holds for EVERY order (`Py.SetOrder ord`: the
    elements, each once).  The hand-written model fixes one order; the generated
    result is a permutation of the model's (`C19_code_tie`), and the clauses are
    proved for the generated code directly from the model's invariant lemmas.

  A graph is the association list of its items in dict insertion order, each
  successor SET listed in the order Python iterates it (any listing: the
  theorems quantify over all well-formed `g`).  `WF g`: pairwise different
  keys, duplicate-free successor lists, every successor is a key.

  This module is built and audited only when the translator tie is available
  (`"translator_tie": "ok (sha256 …)"` in the evidence).

  Recorded scope of the translation: nodes are values with decidable equality
  (hashing is not modelled: sets and dicts are insertion-ordered lists);
  the iteration order of a set is a function of its elements in insertion
  order (CPython's also depends on deleted entries: every such function is
  covered, a dependence on the history beyond that list is not); value
  semantics (the translator rejects sources in which a list / dict could be
  changed while reachable through two references; which returned objects are
  IDENTICAL to which is not modelled); the recursion depth of
  `_toposort_all_bt` is not bounded by CPython's recursion limit.
-/
import SRVerif.Generated.TopoPyEquiv

namespace SR.C19

open SR SR.Toposort SR.TopoPyProofs

/-! ### The tie itself -/

/-- The generated `toposort` computes exactly what the hand-written model
    computes (result and exception) on every graph with pairwise different keys
    on which the model does not run out of fuel (never, on a well-formed or a
    malformed graph), and the generated `toposort_all` returns, for every
    iteration order of its sets, a permutation of the model's result on every
    well-formed graph. -/
theorem C19_code_tie :
    (∀ g : Graph, (keys g).Nodup → Toposort.toposort g ≠ .error .fuel →
      Gen.Topo.toposort g = conv (Toposort.toposort g)) ∧
    (∀ ord, Py.SetOrder ord → ∀ g : Graph, WF g →
      ∃ os ms, Gen.Topo.toposort_all ord g = .ok os ∧ toposortAll g = .ok ms ∧ os.Perm ms) :=
  ⟨fun _ hk hf => Gen.Topo.gen_toposort_eq_model hk hf,
   fun _ hord _ hwf => Gen.Topo.gen_toposort_all_perm_model hord hwf⟩

theorem code_toposort_of_wf {g : Graph} (hwf : WF g) :
    ∃ r, Gen.Topo.toposort g = .ok r ∧ Toposort.toposort g = .ok r := by
  obtain ⟨r, h, _⟩ := toposort_spec hwf
  refine ⟨r, ?_, h⟩
  rw [Gen.Topo.gen_toposort_eq_model hwf.1 (by rw [h]; simp), h]
  rfl

/-! ### `toposort_all`, generated -/

/-- On well-formed graphs neither generated routine raises (no `KeyError`, no
    `ValueError` from `deque.remove`, no `IndexError` from `popleft`), and the
    declared fuel of the `while` loop and of the recursion suffices (never the
    marker `Diverged`) — for every iteration order of the sets. -/
theorem C19_code_total (ord : List Nat → List Nat) (hord : Py.SetOrder ord) (g : Graph) (hwf : WF g) :
    (∃ os, Gen.Topo.toposort_all ord g = .ok os) ∧ (∃ r, Gen.Topo.toposort g = .ok r) := by
  obtain ⟨os, h, _⟩ := Gen.Topo.gen_toposort_all_spec hord hwf
  obtain ⟨r, h', _⟩ := code_toposort_of_wf hwf
  exact ⟨⟨os, h⟩, ⟨r, h'⟩⟩

/-- Every ordering returned by the generated `toposort_all` is a topological ordering. -/
theorem C19_code_all_sound (ord : List Nat → List Nat) (hord : Py.SetOrder ord) (g : Graph) (hwf : WF g)
    (os : List (List Nat)) (h : Gen.Topo.toposort_all ord g = .ok os) : ∀ o ∈ os, IsTopo g o := by
  obtain ⟨os', h', _, hm⟩ := Gen.Topo.gen_toposort_all_spec hord hwf
  rw [h] at h'; cases h'
  exact fun o ho => (hm o).1 ho

/-- Every topological ordering is returned by the generated `toposort_all`. -/
theorem C19_code_all_complete (ord : List Nat → List Nat) (hord : Py.SetOrder ord) (g : Graph) (hwf : WF g)
    (os : List (List Nat)) (h : Gen.Topo.toposort_all ord g = .ok os) : ∀ o, IsTopo g o → o ∈ os := by
  obtain ⟨os', h', _, hm⟩ := Gen.Topo.gen_toposort_all_spec hord hwf
  rw [h] at h'; cases h'
  exact fun o ho => (hm o).2 ho

/-- No ordering is returned twice. -/
theorem C19_code_all_nodup (ord : List Nat → List Nat) (hord : Py.SetOrder ord) (g : Graph) (hwf : WF g)
    (os : List (List Nat)) (h : Gen.Topo.toposort_all ord g = .ok os) : os.Nodup := by
  obtain ⟨os', h', hn, _⟩ := Gen.Topo.gen_toposort_all_spec hord hwf
  rw [h] at h'; cases h'
  exact hn

/-- **Exactly the topological orderings, each once**: the number of times an
    arrangement `o` occurs in the result is 1 if `o` is a topological ordering
    of `g` and 0 otherwise. -/
theorem C19_code_all_each_once (ord : List Nat → List Nat) (hord : Py.SetOrder ord) (g : Graph)
    (hwf : WF g) (os : List (List Nat)) (h : Gen.Topo.toposort_all ord g = .ok os) (o : List Nat) :
    os.count o = if IsTopo g o then 1 else 0 := by
  have hn := C19_code_all_nodup ord hord g hwf os h
  split
  · rename_i ht
    exact List.count_eq_one_of_mem hn (C19_code_all_complete ord hord g hwf os h o ht)
  · rename_i ht
    exact List.count_eq_zero_of_not_mem (fun hm => ht (C19_code_all_sound ord hord g hwf os h o hm))

/-- A graph without topological ordering (one with a directed cycle, or a
    self-loop) yields the empty list. -/
theorem C19_code_all_cyclic (ord : List Nat → List Nat) (hord : Py.SetOrder ord) (g : Graph) (hwf : WF g)
    (hno : ¬ ∃ o, IsTopo g o) : Gen.Topo.toposort_all ord g = .ok [] := by
  obtain ⟨os, h, _, hm⟩ := Gen.Topo.gen_toposort_all_spec hord hwf
  cases os with
  | nil => exact h
  | cons o _ => exact absurd ⟨o, (hm o).1 (by simp)⟩ hno

/-- The result does not depend on the iteration order of the sets, up to the
    order of the list: two runs under two orders return permutations of each
    other (and of the hand-written model's result). -/
theorem C19_code_all_order_free (ord ord' : List Nat → List Nat) (hord : Py.SetOrder ord)
    (hord' : Py.SetOrder ord') (g : Graph) (hwf : WF g) :
    ∃ os os', Gen.Topo.toposort_all ord g = .ok os ∧ Gen.Topo.toposort_all ord' g = .ok os' ∧
      os.Perm os' := by
  obtain ⟨os, h, hn, hm⟩ := Gen.Topo.gen_toposort_all_spec hord hwf
  obtain ⟨os', h', hn', hm'⟩ := Gen.Topo.gen_toposort_all_spec hord' hwf
  exact ⟨os, os', h, h', (List.perm_ext_iff_of_nodup hn hn').2 (fun o => (hm o).trans (hm' o).symm)⟩

/-! ### `toposort`, generated -/

/-- The generated `toposort` returns a topological ordering if and only if one
    exists (and `None` otherwise). -/
theorem C19_code_one (g : Graph) (hwf : WF g) (r : Option (List Nat))
    (h : Gen.Topo.toposort g = .ok r) :
    (∀ o, r = some o → IsTopo g o) ∧ (r = none ↔ ¬ ∃ o, IsTopo g o) := by
  obtain ⟨r', hg, hm⟩ := code_toposort_of_wf hwf
  rw [h] at hg; cases hg
  obtain ⟨r'', h', h1, h2⟩ := toposort_spec hwf
  rw [hm] at h'; cases h'
  exact ⟨h1, h2⟩

/-! ### Malformed graphs -/

/-- When some successor is not a key, both generated routines raise `KeyError`. -/
theorem C19_code_malformed (ord : List Nat → List Nat) (g : Graph) (hk : (keys g).Nodup)
    (hbad : ∃ p ∈ g, ∃ v ∈ p.2, v ∉ keys g) :
    Gen.Topo.toposort_all ord g = .error .KeyError ∧ Gen.Topo.toposort g = .error .KeyError := by
  refine ⟨Gen.Topo.gen_toposort_all_malformed ord hk hbad, ?_⟩
  have hm := (malformed_keyError hk hbad).2
  rw [Gen.Topo.gen_toposort_eq_model hk (by rw [hm]; simp), hm]
  rfl

/-- **`KeyError` exactly on malformed graphs**: on a dict of successor sets
    (pairwise different keys, duplicate-free successor listings) each generated
    routine raises — and then it is `KeyError` — if and only if some successor
    is not a key. -/
theorem C19_code_keyerror_iff (ord : List Nat → List Nat) (hord : Py.SetOrder ord) (g : Graph)
    (hk : (keys g).Nodup) (hs : ∀ p ∈ g, p.2.Nodup) :
    ((∃ e, Gen.Topo.toposort_all ord g = .error e) ↔ ∃ p ∈ g, ∃ v ∈ p.2, v ∉ keys g) ∧
    ((∃ e, Gen.Topo.toposort g = .error e) ↔ ∃ p ∈ g, ∃ v ∈ p.2, v ∉ keys g) ∧
    (∀ e, Gen.Topo.toposort_all ord g = .error e → e = .KeyError) ∧
    (∀ e, Gen.Topo.toposort g = .error e → e = .KeyError) := by
  by_cases hbad : ∃ p ∈ g, ∃ v ∈ p.2, v ∉ keys g
  · obtain ⟨h1, h2⟩ := C19_code_malformed ord g hk hbad
    refine ⟨⟨fun _ => hbad, fun _ => ⟨_, h1⟩⟩, ⟨fun _ => hbad, fun _ => ⟨_, h2⟩⟩, ?_, ?_⟩
    · intro e he; rw [h1] at he; cases he; rfl
    · intro e he; rw [h2] at he; cases he; rfl
  · have hwf : WF g := by
      refine ⟨hk, fun p hp => ⟨hs p hp, fun v hv => ?_⟩⟩
      by_contra hn
      exact hbad ⟨p, hp, v, hv, hn⟩
    obtain ⟨⟨os, h1⟩, ⟨r, h2⟩⟩ := C19_code_total ord hord g hwf
    refine ⟨⟨?_, fun h => absurd h hbad⟩, ⟨?_, fun h => absurd h hbad⟩, ?_, ?_⟩
    · rintro ⟨e, he⟩; rw [h1] at he; cases he
    · rintro ⟨e, he⟩; rw [h2] at he; cases he
    · intro e he; rw [h1] at he; cases he
    · intro e he; rw [h2] at he; cases he

/-! ### Non-vacuity -/

/-- The graph of the repository's own test. -/
def g6c : Graph := [(0, []), (1, []), (2, [3]), (3, [1]), (4, [0, 1]), (5, [0, 2])]

example : WF g6c := by decide
example : Py.SetOrder (fun l => l.reverse) := fun l _ => List.reverse_perm l
example : Py.SetOrder (fun l => l) := fun l _ => List.Perm.refl l
example : Py.sameResult (Gen.Topo.toposort g6c) (.ok (some [4, 5, 0, 2, 3, 1])) = true := by decide
/-- two orders, two listings of the same three orderings -/
example : Py.sameResult (Gen.Topo.toposort_all (fun l => l) [(0, [1]), (1, []), (2, [])])
    (.ok [[0, 2, 1], [0, 1, 2], [2, 0, 1]]) = true := by decide
example : Py.sameResult (Gen.Topo.toposort_all (fun l => l.reverse) [(0, [1]), (1, []), (2, [])])
    (.ok [[2, 0, 1], [0, 1, 2], [0, 2, 1]]) = true := by decide
/-- a cycle, and a self-loop: well-formed, no ordering -/
example : WF [(0, [1]), (1, [2]), (2, [0])] ∧
    Py.sameResult (Gen.Topo.toposort_all (fun l => l) [(0, [1]), (1, [2]), (2, [0])]) (.ok []) = true := by
  decide
example : WF [(0, [0]), (1, [])] ∧
    Py.sameResult (Gen.Topo.toposort [(0, [0]), (1, [])]) (.ok none) = true := by decide
/-- a successor that is not a key -/
example : Py.sameResult (Gen.Topo.toposort_all (fun l => l) [(0, [1]), (1, [7])]) (.error .KeyError) = true := by
  decide
example : Py.sameResult (Gen.Topo.toposort [(0, [1]), (1, [7])]) (.error .KeyError) = true := by decide

end SR.C19
