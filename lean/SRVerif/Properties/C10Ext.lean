/-
  C10, clause "the optimum of an extended solver never exceeds that of its base
  variant" (`sreconcile_extended_spfs` vs `sreconcile_base_spfs`, `superdtl` vs
  `usreconcile_base_uspfs`).

  The base variants run the same table code with the species of every internal node
  restricted to its LCA image.  The decoded candidate set of the base table is NOT a
  subset of the extended table's (each cell keeps only its arg-minima), so the
  inequality goes through optimality: a base solution is an admissible labelling for
  the extended variant (`adm_annOrd_ext`, `adm_annUn_ext`), and the extended result
  is optimal among admissible labellings (C02 `C02_spfs_opt_masks`; C03 `table_exact`).

  * `C10_ext_le_base_ordered`  FULL, evaluated costs (`totalCost … .ordered`), any
      prescribed root order; plus base non-empty ⇒ extended non-empty.
  * `C10_ext_le_base_unordered_table`  FULL at the level of the optimiser's own
      table minima (`uspfsTableMin`), plus base non-empty ⇒ extended non-empty.
  * `C10_ext_le_base_unordered_of_bridge`  evaluated costs, from the two halves of the
      bridge between the per-kind edge charges and the evaluator (evaluator ≤ charges on
      the solutions decoded by the extended variant, charges ≤ evaluator on those decoded
      by the base variant); `C10_ext_le_base_unordered_of_faithful` derives it from
      `C03_kinds_faithful_statement` verbatim.  The bridge itself is proved in
      `Proofs/C10UnBridge.lean`, and `Properties/C10Un.lean` concludes
      `C10_ext_le_base_unordered` (FULL, evaluated costs, unconditional).
  Guards: `S` binary, leaf species nodes of `S`, coherent region; ordered: every root
  order tried is duplicate-free and has every leaf synteny as a non-empty subsequence
  (`C02.OrdersOk`, automatic for non-empty leaf syntenies without a prescribed order).
-/
import SRVerif.Proofs.C10Base
import SRVerif.Proofs.LabelDPKeep
import SRVerif.Properties.C02Dp
import SRVerif.Properties.C03Dp
import SRVerif.Properties.C10

namespace SR.C10

open SR Cost

variable (c : Costs) (S : RTree) (o : OTree)

/-! ### Ordered -/

/-- A solution decoded by an ordered variant, as an admissible labelling of the
    EXTENDED variant with finite generic cost. -/
theorem spfs_decoded_ext (base : Bool) {order : List Nat} (hlv : LeavesOk order o)
    (hS : ∀ p ∈ leafSpecies o, S.isNode p = true) :
    ∀ d ∈ spfsCellsFor c S base true o order, ∀ ls ∈ d.sols,
      Adm (ordAlg c) (annOrd S false order true o) ls ∧ ls.lab = 2 ^ order.length - 1 ∧ NZ ls ∧
      labCost (ordAlg c) c (annOrd S false order true o) ls ≠ .inf := by
  intro d hd ls hls
  obtain ⟨hd, hlab⟩ := (C02.mem_spfsCellsFor c S base o).mp hd
  have hX : c.spe + 2 * c.sloss ≤ c.dup + 2 * c.floss + (c.spe + 2 * c.sloss) := by omega
  obtain ⟨adm, _, hl, _, hle⟩ := dp_sound (ordAlg c) c S (ord_slack c) hX _ d hd ls hls
  have hfin : labCost (ordAlg c) c (annOrd S base order true o) ls ≠ .inf := by
    obtain ⟨n, hn⟩ := ne_inf_iff.mp (dp_finite (ordAlg c) c S true _ hd)
    rw [hn] at hle
    intro e; rw [e] at hle; simp at hle
  have hnz := nz_of_finite c S base order o hlv true ls adm hfin
  refine ⟨?_, by rw [hl, hlab], hnz, by rw [labCost_annOrd_base c S false base]; exact hfin⟩
  cases base with
  | false => exact adm
  | true => exact adm_annOrd_ext c S order o hS true ls adm

/-- **Extended ≤ base, ordered**: every solution returned by the extended solver costs
    (under the evaluator) at most every solution returned by the base solver, and the
    extended solver returns something whenever the base solver does. -/
theorem C10_ext_le_base_ordered (pre : Option (List Nat)) (hord : C02.OrdersOk o pre)
    (hb : S.isBinary = true) (hS : ∀ p ∈ leafSpecies o, S.isNode p = true)
    (hcoh : c.spe + 2 * c.sloss ≤ c.dup + 2 * c.floss) :
    (∀ a ∈ spfs c S false o pre, ∀ b ∈ spfs c S true o pre,
      Cost.le (totalCost c .ordered o a) (totalCost c .ordered o b) = true) ∧
    (spfs c S true o pre ≠ [] → spfs c S false o pre ≠ []) := by
  constructor
  · intro a ha b hb'
    obtain ⟨⟨order, ho, d, hd, ls, hls, rfl⟩, _⟩ := (C02.mem_spfs c S true o pre b).mp hb'
    obtain ⟨adm, hroot, hnz, _⟩ := spfs_decoded_ext c S o true (hord order ho).2 hS d hd ls hls
    exact C02.C02_spfs_opt_masks c S false o pre hord hb hS hcoh a ha order ho ls adm hroot hnz
  · intro hne
    obtain ⟨b, hb'⟩ := List.exists_mem_of_ne_nil _ hne
    obtain ⟨⟨order, ho, d, hd, ls, hls, rfl⟩, _⟩ := (C02.mem_spfs c S true o pre b).mp hb'
    obtain ⟨adm, hroot, _, hfin⟩ := spfs_decoded_ext c S o true (hord order ho).2 hS d hd ls hls
    obtain ⟨d', hd', _, hlab', _⟩ := dp_lower (ordAlg c) c S true hb _
      (spOk_annOrd c S false order o hS true) ls adm hfin
    have hd'' : d' ∈ spfsCellsFor c S false true o order :=
      (C02.mem_spfsCellsFor c S false o).mpr ⟨hd', by rw [hlab', hroot]⟩
    obtain ⟨ls', hls'⟩ := dp_nonempty (ordAlg c) c S _ d' hd'
    unfold spfs
    apply rankByCost_ne_nil
    intro e
    have : ordSol order ls' ∈ (rootOrders o pre).flatMap fun order =>
        (spfsCellsFor c S false true o order).flatMap (fun d => d.sols.map (ordSol order)) :=
      List.mem_flatMap.mpr ⟨order, ho, List.mem_flatMap.mpr ⟨d', hd'', List.mem_map.mpr ⟨ls', hls', rfl⟩⟩⟩
    rw [e] at this; cases this

/-- The instance of the first conjunct of `C10_statement` (no prescribed order), with
    the guards it needs. -/
theorem C10_ext_le_base_ordered_none (hne : ∀ f ∈ leafSyntenies o, f ≠ [])
    (hb : S.isBinary = true) (hS : ∀ p ∈ leafSpecies o, S.isNode p = true)
    (hcoh : c.spe + 2 * c.sloss ≤ c.dup + 2 * c.floss) :
    ∀ a ∈ spfs c S false o none, ∀ b ∈ spfs c S true o none,
      Cost.le (totalCost c .ordered o a) (totalCost c .ordered o b) = true :=
  (C10_ext_le_base_ordered c S o none (C02.C02_orders_ok o hne) hb hS hcoh).1

/-! ### Unordered -/

theorem mem_uspfsCells {base keep : Bool} {d : DCell Kind} :
    d ∈ uspfsCells c S base keep o ↔
      d ∈ dpTable (unAlg c) c S keep (annUn S base o [] o) ∧ d.lab = .lca := by
  simp [uspfsCells, List.mem_filter]

theorem mem_uspfs (base : Bool) (sol : Sol) :
    sol ∈ uspfs c S base o ↔
      (∃ d ∈ uspfsCells c S base true o, ∃ ls ∈ d.sols,
        unSol (annUn S base o [] o) (annUn S base o [] o).data.lcaSet ls = sol) ∧
      ∀ d' ∈ uspfsCells c S base true o, ∀ ls' ∈ d'.sols,
        Cost.le (totalCost c .unordered o sol) (totalCost c .unordered o
          (unSol (annUn S base o [] o) (annUn S base o [] o).data.lcaSet ls')) = true := by
  unfold uspfs
  simp only [mem_rankByCost, List.mem_flatMap, List.mem_map]
  constructor
  · rintro ⟨⟨d, hd, ls, hls, rfl⟩, hmin⟩
    exact ⟨⟨d, hd, ls, hls, rfl⟩, fun d' hd' ls' hls' => hmin _ ⟨d', hd', ls', hls', rfl⟩⟩
  · rintro ⟨⟨d, hd, ls, hls, rfl⟩, hmin⟩
    refine ⟨⟨d, hd, ls, hls, rfl⟩, ?_⟩
    rintro s' ⟨d', hd', ls', hls', rfl⟩
    exact hmin d' hd' ls' hls'

/-- A labelling decoded by the base variant has, in the extended table, a root cell
    (label LCA) of value at most its generic cost. -/
theorem uspfs_base_covered (hb : S.isBinary = true) (hS : ∀ p ∈ leafSpecies o, S.isNode p = true)
    (hcoh : c.spe + c.sloss ≤ c.dup + 2 * c.floss) (keep : Bool) :
    ∀ d ∈ uspfsCells c S true true o, ∀ ls ∈ d.sols,
      labCost (unAlg c) c (annUn S true o [] o) ls = d.cost ∧
      ∃ d' ∈ uspfsCells c S false keep o,
        d'.cost ≼ labCost (unAlg c) c (annUn S true o [] o) ls := by
  intro d hd ls hls
  obtain ⟨hd, hlab⟩ := (mem_uspfsCells c S o).mp hd
  obtain ⟨_, hex, _⟩ := C03.C03_table_exact c S true o hb hS hcoh d hd
  obtain ⟨adm, _, hl, hcost⟩ := (hex ls).mp hls
  refine ⟨hcost, ?_⟩
  have adm' := adm_annUn_ext c S o o hS [] ls adm
  have hfin : labCost (unAlg c) c (annUn S false o [] o) ls ≠ .inf := by
    rw [labCost_annUn_base c S false true, hcost]
    exact dp_finite (unAlg c) c S true _ hd
  obtain ⟨d', hd', _, hlab', hle⟩ := dp_lower (unAlg c) c S keep hb _
    (C03.spOk_annUn c S false o o hS []) ls adm' hfin
  refine ⟨d', (mem_uspfsCells c S o).mpr ⟨hd', by rw [hlab', hl, hlab]⟩, ?_⟩
  rw [labCost_annUn_base c S true false]; exact hle

/-- **Extended ≤ base, unordered, at the level of the optimiser's tables**: the minimum
    root value of the extended table is at most that of the base table, and the
    extended solver returns something whenever the base solver does. -/
theorem C10_ext_le_base_unordered_table (hb : S.isBinary = true)
    (hS : ∀ p ∈ leafSpecies o, S.isNode p = true)
    (hcoh : c.spe + c.sloss ≤ c.dup + 2 * c.floss) :
    Cost.le (uspfsTableMin c S false o) (uspfsTableMin c S true o) = true ∧
    (uspfs c S true o ≠ [] → uspfs c S false o ≠ []) := by
  constructor
  · unfold uspfsTableMin
    apply le_minList
    intro x hx
    obtain ⟨d0, hd0, rfl⟩ := List.mem_map.mp hx
    -- the same cell of the table with decoding
    obtain ⟨hd0t, hlab0⟩ := (mem_uspfsCells c S o).mp hd0
    have hcore := dpTable_core (unAlg c) c S (annUn S true o [] o)
    have : d0.core ∈ (dpTable (unAlg c) c S true (annUn S true o [] o)).map DCell.core := by
      rw [← hcore]; exact List.mem_map.mpr ⟨d0, hd0t, rfl⟩
    obtain ⟨d, hd, hdc⟩ := List.mem_map.mp this
    simp only [DCell.core, Prod.mk.injEq] at hdc
    have hd' : d ∈ uspfsCells c S true true o :=
      (mem_uspfsCells c S o).mpr ⟨hd, by rw [hdc.2.1, hlab0]⟩
    obtain ⟨ls, hls⟩ := dp_nonempty (unAlg c) c S _ d hd
    obtain ⟨hcost, d', hd'', hle⟩ := uspfs_base_covered c S o hb hS hcoh false d hd' ls hls
    rw [← hdc.2.2, ← hcost]
    exact le_trans (minList_le (List.mem_map.mpr ⟨d', hd'', rfl⟩)) hle
  · intro hne
    obtain ⟨b, hb'⟩ := List.exists_mem_of_ne_nil _ hne
    obtain ⟨⟨d, hd, ls, hls, _⟩, _⟩ := (mem_uspfs c S o true b).mp hb'
    obtain ⟨_, d', hd', _⟩ := uspfs_base_covered c S o hb hS hcoh true d hd ls hls
    obtain ⟨ls', hls'⟩ := dp_nonempty (unAlg c) c S _ d' ((mem_uspfsCells c S o).mp hd').1
    unfold uspfs
    apply rankByCost_ne_nil
    intro e
    have : unSol (annUn S false o [] o) (annUn S false o [] o).data.lcaSet ls' ∈
        (uspfsCells c S false true o).flatMap (fun d => d.sols.map
          (unSol (annUn S false o [] o) (annUn S false o [] o).data.lcaSet)) :=
      List.mem_flatMap.mpr ⟨d', hd', List.mem_map.mpr ⟨ls', hls', rfl⟩⟩
    rw [e] at this; cases this

/-- **Extended ≤ base, unordered, evaluated costs**, from the two halves of the bridge
    `C03_kinds_faithful_statement`:
    `hup`: on solutions decoded by the EXTENDED variant the evaluator charges at most the
    per-kind edge charges; `hlow`: on solutions decoded by the BASE variant the per-kind
    edge charges are at most what the evaluator charges.
    Both hypotheses are discharged in `C10Un.lean` (`C10_ext_le_base_unordered`). -/
theorem C10_ext_le_base_unordered_of_bridge (hb : S.isBinary = true)
    (hS : ∀ p ∈ leafSpecies o, S.isNode p = true)
    (hcoh : c.spe + c.sloss ≤ c.dup + 2 * c.floss)
    (hup : ∀ d ∈ uspfsCells c S false true o, ∀ ls ∈ d.sols,
      totalCost c .unordered o
        (unSol (annUn S false o [] o) (annUn S false o [] o).data.lcaSet ls) ≼
        labCost (unAlg c) c (annUn S false o [] o) ls)
    (hlow : ∀ d ∈ uspfsCells c S true true o, ∀ ls ∈ d.sols,
      labCost (unAlg c) c (annUn S true o [] o) ls ≼
        totalCost c .unordered o
          (unSol (annUn S true o [] o) (annUn S true o [] o).data.lcaSet ls)) :
    ∀ a ∈ uspfs c S false o, ∀ b ∈ uspfs c S true o,
      Cost.le (totalCost c .unordered o a) (totalCost c .unordered o b) = true := by
  intro a ha b hb'
  obtain ⟨_, hmin⟩ := (mem_uspfs c S o false a).mp ha
  obtain ⟨⟨d, hd, ls, hls, rfl⟩, _⟩ := (mem_uspfs c S o true b).mp hb'
  obtain ⟨_, d', hd', hle⟩ := uspfs_base_covered c S o hb hS hcoh true d hd ls hls
  obtain ⟨hd't, _⟩ := (mem_uspfsCells c S o).mp hd'
  obtain ⟨⟨ls', hls'⟩, hex, _⟩ := C03.C03_table_exact c S false o hb hS hcoh d' hd't
  have hc' := ((hex ls').mp hls').2.2.2
  refine le_trans (hmin d' hd' ls' hls') (le_trans (hup d' hd' ls' hls') ?_)
  rw [hc']
  exact le_trans hle (hlow d hd ls hls)

/-- The same, from `C03_kinds_faithful_statement` as stated in `C03Dp.lean`. -/
theorem C10_ext_le_base_unordered_of_faithful (hF : C03.C03_kinds_faithful_statement)
    (hne : ∀ f ∈ leafSyntenies o, f ≠ [])
    (hb : S.isBinary = true) (hS : ∀ p ∈ leafSpecies o, S.isNode p = true)
    (hcoh : c.spe + 2 * c.sloss ≤ c.dup + 2 * c.floss) :
    ∀ a ∈ uspfs c S false o, ∀ b ∈ uspfs c S true o,
      Cost.le (totalCost c .unordered o a) (totalCost c .unordered o b) = true := by
  apply C10_ext_le_base_unordered_of_bridge c S o hb hS (by omega)
  · intro d hd ls hls
    have := hF c S false o hb hS hne d hd ls hls
    rw [this]; exact le_refl _
  · intro d hd ls hls
    have := hF c S true o hb hS hne d hd ls hls
    rw [this]; exact le_refl _

/-! ### Non-vacuity -/

/-- Ordered: a well-formed coherent input on which the extended solver is strictly
    cheaper than the base solver. -/
example :
    let c : Costs := { spe := 0, dup := 5, hgt := .fin 1, floss := 5, sloss := 1 }
    let S : RTree := .node [.node [.node [], .node []], .node []]
    let o : OTree := .node (.node (.leaf [0, 0] [1, 2]) (.leaf [1] [2])) (.leaf [0, 1] [1])
    S.isBinary = true ∧ (∀ p ∈ leafSpecies o, S.isNode p = true) ∧
    (∀ f ∈ leafSyntenies o, f ≠ []) ∧ c.spe + 2 * c.sloss ≤ c.dup + 2 * c.floss ∧
    (spfs c S false o none).map (totalCost c .ordered o) = [.fin 2, .fin 2] ∧
    (spfs c S true o none).map (totalCost c .ordered o) = [.fin 21] := by
  decide +kernel

/-- Unordered: the same input; table minima and evaluated costs. -/
example :
    let c : Costs := { spe := 0, dup := 5, hgt := .fin 1, floss := 5, sloss := 1 }
    let S : RTree := .node [.node [.node [], .node []], .node []]
    let o : OTree := .node (.node (.leaf [0, 0] [1, 2]) (.leaf [1] [2])) (.leaf [0, 1] [1])
    S.isBinary = true ∧ (∀ p ∈ leafSpecies o, S.isNode p = true) ∧
    c.spe + c.sloss ≤ c.dup + 2 * c.floss ∧
    uspfsTableMin c S false o = .fin 1 ∧ uspfsTableMin c S true o = .fin 21 ∧
    (uspfs c S false o).map (totalCost c .unordered o) = [.fin 1] ∧
    (uspfs c S true o).map (totalCost c .unordered o) = [.fin 21] := by
  decide +kernel

end SR.C10
