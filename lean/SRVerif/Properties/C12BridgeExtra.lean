/-
  C12 (bridge), complements found by review H: the two algorithms of the property's
  "all seven algorithms" that `Properties/C12Bridge.lean` / `C12Json.lean` leave without a
  composed statement.

  * `C12_all_superset_any_exh`   `--solutions all` ⊇ `--solutions any` on the written lines for
                                 `exh` (the bridge file states it for `thl`, `*_spfs`, `*_uspfs`
                                 only), every unit-cost vector, every selection rule, no hypothesis
                                 on names or on the encoder.
  * `C12_cost_line_lca` / `C12_cost_line_text_lca`   `reconcile --algorithm lca` (one parameter: the
                                 policy is not passed, both `--solutions` values run the same call):
                                 status 0, the printed cost is the `totalCost` of the LCA
                                 reconciliation, one line, and that line parses to a dictionary read
                                 back as an object of that cost.  (No optimality claim: `lca` prints
                                 the cost of ITS result.)
  * `C12_all_superset_any_lca`   the two policies write the same text.
  * `C12_minCostText_inj`        the printed line determines `k`: the `k` of the conclusions IS the
                                 number printed.
-/
import SRVerif.Properties.C12Json

namespace SR.C12

open SR SR.Ser SR.Cli SR.SolOut SR.C11 SR.Json

theorem C12_all_superset_any_exh (render : OutputDict → String) (nm : Naming) (c : Costs)
    (S : RTree) (o : OTree) (withSyn : Bool) (pick : List Sol → Option Sol) (hp : PickOk pick) :
    let enc := fun s => render ((embPlain nm c S o withSyn s).toDict Newick.write)
    ∀ ℓ ∈ (exhaustiveAny pick c o).map enc, ℓ ∈ (exhaustive c o).map enc :=
  C12_lines_mono _ _ _ (C05.C05_any_mem_exh pick c o hp)

theorem lcaSol_validRec (o : OTree) : Spec.validRec o (lcaSol o) = true := by
  have := C04.C04_lca o
  simp only [Spec.validSol, Bool.and_true] at this
  exact this

theorem lcaSol_mem_rank (c : Costs) (o : OTree) : ∀ s ∈ [lcaSol o], s ∈ rankByCost c .plain o [lcaSol o] := by
  intro s hs
  rw [List.mem_singleton] at hs
  subst hs
  refine (mem_rankByCost c .plain o _ _).mpr ⟨by simp, fun s' hs' => ?_⟩
  rw [List.mem_singleton] at hs'
  subst hs'
  exact Cost.le_refl _

/-- **`C12_cost_line_lca`** — `reconcile --algorithm lca`, either `--solutions` value. -/
theorem C12_cost_line_lca (render : OutputDict → String) {nm : Naming} {S : RTree} {o : OTree}
    (c : Costs) (hnm : nm.Ok S o) (hS : ∀ p ∈ leafSpecies o, S.isNode p = true) (withSyn : Bool)
    (sol : String) (hsol : sol = "any" ∨ sol = "all") :
    let emb := embPlain nm c S o withSyn
    let cost := fun x : RecOutput => evalPlain x.input.base x.objectSpecies
    let enc := fun x : RecOutput => render (x.toDict Newick.write)
    CostLineOK PlainBack c .plain o (rankByCost c .plain o [lcaSol o]) enc ([lcaSol o].map emb)
      (reconcileRun "lca" (dispatch "lca" (kindOf withSyn) sol) ([lcaSol o].map emb) cost enc) := by
  intro emb cost enc
  have hd : dispatch "lca" (kindOf withSyn) sol = .run withSyn none := by
    rcases hsol with rfl | rfl <;> cases withSyn <;> decide
  rw [hd]
  exact C12_cost_line_sols_plain render c hnm hS withSyn [lcaSol o] [lcaSol o]
    (lcaSol_mem_rank c o) (fun s hs => by rw [List.mem_singleton] at hs; subst hs; exact lcaSol_validRec o)
    (by simp) "lca" withSyn none

/-- On the text. -/
theorem C12_cost_line_text_lca {nm : Naming} {S : RTree} {o : OTree}
    (c : Costs) (hnm : nm.Ok S o) (hS : ∀ p ∈ leafSpecies o, S.isNode p = true) (withSyn : Bool)
    (sol : String) (hsol : sol = "any" ∨ sol = "all") :
    let emb := embPlain nm c S o withSyn
    let cost := fun x : RecOutput => evalPlain x.input.base x.objectSpecies
    let toD := fun x : RecOutput => x.toDict Newick.write
    let enc := fun x : RecOutput => renderDict (toD x)
    TextLineOK toD PlainDictBack c .plain o (rankByCost c .plain o [lcaSol o]) ([lcaSol o].map emb)
      (reconcileRun "lca" (dispatch "lca" (kindOf withSyn) sol) ([lcaSol o].map emb) cost enc) := by
  intro emb cost toD enc
  exact C12_text_of_cost_line toD (C12_to_dict_ok_plain _) PlainDictBack _ _ _ _ _ _
    (C12_cost_line_lca renderDict c hnm hS withSyn sol hsol)

/-- `lca` ignores the policy: both runs are the same run. -/
theorem C12_all_superset_any_lca {ρ : Type} (withSyn : Bool) (results : List ρ) (cost : ρ → Cost)
    (enc : ρ → String) :
    reconcileRun "lca" (dispatch "lca" (kindOf withSyn) "any") results cost enc
      = reconcileRun "lca" (dispatch "lca" (kindOf withSyn) "all") results cost enc := by
  cases withSyn <;> rfl

theorem natToString_ne_inf (m : Nat) : toString m ≠ "inf" := by
  intro h
  have hi : 'i' ∈ (Nat.repr m).toList := by
    show 'i' ∈ (toString m).toList
    rw [h]; decide
  have hm : 'i' ∈ Nat.toDigits 10 m := by simpa [Nat.repr] using hi
  exact absurd (Nat.isDigit_of_mem_toDigits (b := 10) (by decide) (by decide) hm) (by decide)

/-- The printed line determines the cost: the `k` of `CostLineOK` / `TextLineOK` is the number
    that is printed, not merely some `k` with the same text. -/
theorem C12_minCostText_inj (a b : Cost) (h : minCostText a = minCostText b) : a = b := by
  have h' : showCost a = showCost b := by
    have := congrArg String.toList h
    simp only [minCostText, String.toList_append] at this
    exact String.toList_inj.mp (List.append_cancel_left this)
  cases a with
  | inf =>
    cases b with
    | inf => rfl
    | fin m => exact absurd h'.symm (natToString_ne_inf m)
  | fin n =>
    cases b with
    | inf => exact absurd h' (natToString_ne_inf n)
    | fin m =>
      simp only [showCost] at h'
      have : n = m := Nat.repr_inj.mp h'
      rw [this]

end SR.C12
