/-
  C09 (presentation) for the LABEL SOLVERS — "the minimum cost and the set of optimal
  solutions are unchanged by reordering the children of any node of either tree [and] by
  adding an outgroup species that carries no object", for

  * `spfs`  (`sreconcile_extended_spfs`, `sreconcile_base_spfs`; ordered syntenies), and
  * `uspfs` (`usreconcile_extended_uspfs` = SuperDTL, `usreconcile_base_uspfs`; unordered),

  as corollaries of the solvers' EXACTNESS theorems (`C02_ext_exact`, `C02_base_exact`;
  `C03_ext_exact`, `C03_base_exact`: the result is exactly the set of valid solutions —
  LCA-mapped for `base`, canonical for `uspfs` — of minimum finite evaluated cost among all
  valid solutions) and of the specification-level theorems of `C09Swap.lean` /
  `C09Outgroup.lean` (validity and cost are invariant under the induced maps).

  For each transformation and each solver (both variants, `base : Bool`):
    1. `sol` is returned for the old input  ⟺  its image is returned for the new input;
    2. every solution returned for the new input has the same evaluated cost as every
       solution returned for the old one (THE RETURNED COST IS INVARIANT);
    3. bijections (swaps, mirror): the new result is a permutation of the image of the old
       result (THE RETURNED SETS CORRESPOND);
       outgroup: a new result that avoids the new root is the embedding of an old result;
       for `floss > 0` (extended) and always (base) the new result set is exactly the
       embedded old one.

  * `C09_swap_obj_spfs`, `C09_mirror_obj_spfs`, `C09_swap_sp_spfs`, `C09_outgroup_spfs`,
    `C09_outgroup_spfs_base`;
  * `C09_swap_obj_uspfs`, `C09_mirror_obj_uspfs`, `C09_swap_sp_uspfs`, `C09_outgroup_uspfs`,
    `C09_outgroup_uspfs_base` — canonicity (`Spec.canonicalUn`) is preserved by all the
    induced maps (`Proofs/SolverTransport.lean`), so the statements are about the full
    returned sets, not only the cost.

  Also, now that the oracle is adequate in every mode (`C02Spec`, `C03Spec`):
  * `optimum_isMinCost`      `Spec.optimum … mode false keep o none` IS the minimum
      evaluated cost over the valid solutions, in all three modes;
  * `C09_swap_obj_optimum_all`, `C09_mirror_obj_optimum_all`, `C09_swap_sp_optimum_all`,
    `C09_outgroup_optimum_all`  the executable oracle's optimum is invariant (all modes;
      `C09Opt.lean` had the plain mode);
  * `C09_mono_uspfs`         monotonicity of the EVALUATED cost of what the unordered
      solvers return (cheaper vector coherent), through `C03_optimal`.

  NOTE on imports: this file needs `Proofs/OptAdequacy.lean` (via C02Spec/C03Spec) together
  with `Proofs/OptScale.lean` (via C09Costs) and `Proofs/SwapObj.lean` together with
  `Proofs/LcaMapOpt.lean`; the name clashes are resolved by renaming
  `Spec.nodeCell`/`Spec.optTable_node` to `Spec.adqNodeCell`/`Spec.optTable_node_adq` in
  `OptAdequacy.lean` and `isAnc_foldl_lcp`/`isAnc_lcpAll` to primed names in `SwapObj.lean`.

  Guards: those of the exactness theorems, for the OLD input only (they are inherited by
  the new one): `S` binary, leaf species nodes of `S`, coherent costs
  (`spe + 2·sloss ≤ dup + 2·floss`; for `uspfs` `spe + sloss ≤ dup + 2·floss` suffices),
  non-empty leaf syntenies for `spfs`; `i, j` children of the species node `p` for the
  species swap.
-/
import SRVerif.Properties.C02Spec
import SRVerif.Properties.C03Spec
import SRVerif.Properties.C09Opt
import SRVerif.Properties.C09Costs
import SRVerif.Proofs.SolverTransport

namespace SR.C09

open SR Spec

/-! ### Abstract transfer along maps of solutions -/

theorem IsOptimalFor.cost_eq {V : Sol → Prop} {cost : Sol → Cost} {a b : Sol}
    (ha : IsOptimalFor V cost a) (hb : IsOptimalFor V cost b) : cost a = cost b :=
  Cost.le_antisymm (ha.2 b hb.1) (hb.2 a ha.1)

/-- Transfer along an embedding `f` with a cost-non-increasing retraction `g` of the valid
    solutions: membership, equality of the returned costs, and members of the new result
    that are images come from the old result. -/
theorem emb_transfer {V V' : Sol → Prop} {cost cost' : Sol → Cost} {L L' : List Sol}
    {P P' : Sol → Prop} (f g : Sol → Sol)
    (hL : ∀ s, s ∈ L ↔ IsOptimalFor V cost s ∧ cost s ≠ .inf ∧ P s)
    (hL' : ∀ s, s ∈ L' ↔ IsOptimalFor V' cost' s ∧ cost' s ≠ .inf ∧ P' s)
    (hv : ∀ s, V' (f s) ↔ V s) (hc : ∀ s, cost' (f s) = cost s) (hP : ∀ s, P' (f s) ↔ P s)
    (hg : ∀ s, V' s → V (g s) ∧ Cost.le (cost (g s)) (cost' s) = true) :
    (∀ s, s ∈ L ↔ f s ∈ L') ∧
    (∀ s ∈ L, ∀ s' ∈ L', cost' s' = cost s) ∧
    (∀ s' ∈ L', f (g s') = s' → g s' ∈ L) := by
  have hiff : ∀ s, s ∈ L ↔ f s ∈ L' := by
    intro s
    rw [hL, hL', hc, hP, isOptimalFor_embed f g hv hc hg]
  refine ⟨hiff, ?_, ?_⟩
  · intro s hs s' hs'
    rw [← hc s]
    exact IsOptimalFor.cost_eq ((hL' s').mp hs').1 ((hL' _).mp ((hiff s).mp hs)).1
  · intro s' hs' e
    rw [hiff, e]; exact hs'

/-- Transfer along a bijection: additionally the new result is a permutation of the
    image of the old one. -/
theorem bij_transfer {V V' : Sol → Prop} {cost cost' : Sol → Cost} {L L' : List Sol}
    {P P' : Sol → Prop} (f g : Sol → Sol)
    (hL : ∀ s, s ∈ L ↔ IsOptimalFor V cost s ∧ cost s ≠ .inf ∧ P s)
    (hL' : ∀ s, s ∈ L' ↔ IsOptimalFor V' cost' s ∧ cost' s ≠ .inf ∧ P' s)
    (hnd : L.Nodup) (hnd' : L'.Nodup)
    (hv : ∀ s, V' (f s) ↔ V s) (hc : ∀ s, cost' (f s) = cost s) (hP : ∀ s, P' (f s) ↔ P s)
    (hfg : ∀ s, f (g s) = s) (hgf : ∀ s, g (f s) = s) :
    (∀ s, s ∈ L ↔ f s ∈ L') ∧
    (∀ s ∈ L, ∀ s' ∈ L', cost' s' = cost s) ∧
    L'.Perm (L.map f) := by
  have hg : ∀ s, V' s → V (g s) ∧ Cost.le (cost (g s)) (cost' s) = true := by
    intro s hs
    have : V (g s) := (hv (g s)).mp (by rw [hfg]; exact hs)
    exact ⟨this, by rw [← hc (g s), hfg]; exact Cost.le_refl _⟩
  obtain ⟨hiff, hcost, hback⟩ := emb_transfer f g hL hL' hv hc hP hg
  refine ⟨hiff, hcost, ?_⟩
  have hinj : Function.Injective f := fun a b e => by rw [← hgf a, ← hgf b, e]
  refine (List.perm_ext_iff_of_nodup hnd' (hnd.map hinj)).mpr (fun s' => ?_)
  rw [List.mem_map]
  constructor
  · intro hs'
    exact ⟨g s', hback s' hs' (hfg s'), hfg s'⟩
  · rintro ⟨s, hs, rfl⟩
    exact (hiff s).mp hs

/-- When every member of the new result is an image, the new result is exactly the image
    of the old one. -/
theorem image_of_retract {L L' : List Sol} (f g : Sol → Sol) (hiff : ∀ s, s ∈ L ↔ f s ∈ L')
    (hret : ∀ s' ∈ L', f (g s') = s') (s' : Sol) : s' ∈ L' ↔ ∃ s ∈ L, f s = s' := by
  constructor
  · intro hs'
    exact ⟨g s', (hiff _).mpr (by rw [hret s' hs']; exact hs'), hret s' hs'⟩
  · rintro ⟨s, hs, rfl⟩
    exact (hiff s).mp hs

/-! ### The solvers' results as optima -/

/-- Valid solutions of `o` — using the LCA species mapping when `base`. -/
def VSol (mode : LabelMode) (base : Bool) (o : OTree) (s : Sol) : Prop :=
  Spec.validSol mode o s = true ∧ (base = true → sameMapping s (lcaSol o) = true)

/-- The guards of the exactness theorems. -/
structure GuardOrd (c : Costs) (S : RTree) (o : OTree) : Prop where
  ne : ∀ f ∈ leafSyntenies o, f ≠ []
  bin : S.isBinary = true
  sp : ∀ p ∈ leafSpecies o, S.isNode p = true
  coh : c.spe + 2 * c.sloss ≤ c.dup + 2 * c.floss

structure GuardUn (c : Costs) (S : RTree) (o : OTree) : Prop where
  bin : S.isBinary = true
  sp : ∀ p ∈ leafSpecies o, S.isNode p = true
  coh : c.spe + c.sloss ≤ c.dup + 2 * c.floss

/-- `spfs` = the valid (LCA-mapped for `base`) solutions of minimum finite cost (C02). -/
theorem mem_spfs_iff {c : Costs} {S : RTree} {o : OTree} (G : GuardOrd c S o) (base : Bool)
    (s : Sol) :
    s ∈ spfs c S base o none ↔
      IsOptimalFor (VSol .ordered base o) (totalCost c .ordered o) s ∧
        totalCost c .ordered o s ≠ .inf ∧ True := by
  cases base with
  | false =>
    rw [(C02.C02_ext_exact c S o G.ne G.bin G.sp G.coh).1 s]
    simp only [IsOptimalFor, VSol, Bool.false_eq_true, false_imp_iff, and_true]
    exact ⟨fun ⟨h1, h2, h3⟩ => ⟨⟨h1, h3⟩, h2⟩, fun ⟨⟨h1, h3⟩, h2⟩ => ⟨h1, h2, h3⟩⟩
  | true =>
    rw [(C02.C02_base_exact c S o G.ne G.bin G.sp G.coh).1 s]
    simp only [IsOptimalFor, VSol, true_imp_iff, and_true]
    exact ⟨fun ⟨h1, h2, h3, h4⟩ => ⟨⟨⟨h1, h2⟩, fun s' h' => h4 s' h'.1 h'.2⟩, h3⟩,
      fun ⟨⟨⟨h1, h2⟩, h4⟩, h3⟩ => ⟨h1, h2, h3, fun s' a b => h4 s' ⟨a, b⟩⟩⟩

/-- `uspfs` = the canonical valid (LCA-mapped for `base`) solutions of minimum finite cost
    among ALL valid (LCA-mapped) solutions (C03). -/
theorem mem_uspfs_iff {c : Costs} {S : RTree} {o : OTree} (G : GuardUn c S o) (base : Bool)
    (s : Sol) :
    s ∈ uspfs c S base o ↔
      IsOptimalFor (VSol .unordered base o) (totalCost c .unordered o) s ∧
        totalCost c .unordered o s ≠ .inf ∧ Spec.canonicalUn o [] [] s = true := by
  cases base with
  | false =>
    rw [(C03.C03_ext_exact c S o G.bin G.sp G.coh).1 s]
    simp only [IsOptimalFor, VSol, Bool.false_eq_true, false_imp_iff, and_true]
    exact ⟨fun ⟨h1, h2, h3, h4⟩ => ⟨⟨h1, h4⟩, h3, h2⟩, fun ⟨⟨h1, h4⟩, h3, h2⟩ => ⟨h1, h2, h3, h4⟩⟩
  | true =>
    rw [(C03.C03_base_exact c S o G.bin G.sp G.coh).1 s]
    simp only [IsOptimalFor, VSol, true_imp_iff]
    exact ⟨fun ⟨h1, h2, h3, h4, h5⟩ => ⟨⟨⟨h1, h2⟩, fun s' h' => h5 s' h'.1 h'.2⟩, h4, h3⟩,
      fun ⟨⟨⟨h1, h2⟩, h5⟩, h4, h3⟩ => ⟨h1, h2, h3, h4, fun s' a b => h5 s' ⟨a, b⟩⟩⟩

theorem nodup_spfs (c : Costs) (S : RTree) (base : Bool) (o : OTree) :
    (spfs c S base o none).Nodup := by unfold spfs; exact nodup_rankByCost _ _ _ _

theorem nodup_uspfs (c : Costs) (S : RTree) (base : Bool) (o : OTree) :
    (uspfs c S base o).Nodup := by unfold uspfs; exact nodup_rankByCost _ _ _ _

/-! ### The guards are inherited -/

theorem GuardOrd.flip {c : Costs} {S : RTree} {o : OTree} (G : GuardOrd c S o) (F : Path → Bool) :
    GuardOrd c S (o.flip F) :=
  ⟨fun f hf => G.ne f ((leafSyntenies_flip_perm o F).mem_iff.mp hf), G.bin,
   fun q hq => G.sp q ((leafSpecies_flip_perm o F).mem_iff.mp hq), G.coh⟩

theorem GuardUn.flip {c : Costs} {S : RTree} {o : OTree} (G : GuardUn c S o) (F : Path → Bool) :
    GuardUn c S (o.flip F) :=
  ⟨G.bin, fun q hq => G.sp q ((leafSpecies_flip_perm o F).mem_iff.mp hq), G.coh⟩

theorem sp_swapAt {S : RTree} {o : OTree} (hS : ∀ q ∈ leafSpecies o, S.isNode q = true)
    (p : Path) (i j : Nat) (hi : i < S.arityAt p) (hj : j < S.arityAt p) :
    ∀ q ∈ leafSpecies (o.mapSp (Path.swapAt p i j)), (S.swapAt p i j).isNode q = true := by
  intro q hq
  rw [leafSpecies_mapSp] at hq
  obtain ⟨r, hr, rfl⟩ := List.mem_map.mp hq
  rw [RTree.isNode_swapAt p S i j hi hj]; exact hS r hr

theorem sp_og {S : RTree} {o : OTree} (hS : ∀ q ∈ leafSpecies o, S.isNode q = true) :
    ∀ q ∈ leafSpecies (o.mapSp Path.og), S.withOutgroup.isNode q = true := by
  intro q hq
  rw [leafSpecies_mapSp] at hq
  obtain ⟨r, hr, rfl⟩ := List.mem_map.mp hq
  rw [RTree.isNode_withOutgroup_og]; exact hS r hr

theorem GuardOrd.swapSp {c : Costs} {S : RTree} {o : OTree} (G : GuardOrd c S o) (p : Path)
    (i j : Nat) (hi : i < S.arityAt p) (hj : j < S.arityAt p) :
    GuardOrd c (S.swapAt p i j) (o.mapSp (Path.swapAt p i j)) :=
  ⟨by rw [leafSyntenies_mapSp]; exact G.ne, by rw [RTree.isBinary_swapAt]; exact G.bin,
   sp_swapAt G.sp p i j hi hj, G.coh⟩

theorem GuardUn.swapSp {c : Costs} {S : RTree} {o : OTree} (G : GuardUn c S o) (p : Path)
    (i j : Nat) (hi : i < S.arityAt p) (hj : j < S.arityAt p) :
    GuardUn c (S.swapAt p i j) (o.mapSp (Path.swapAt p i j)) :=
  ⟨by rw [RTree.isBinary_swapAt]; exact G.bin, sp_swapAt G.sp p i j hi hj, G.coh⟩

theorem GuardOrd.og {c : Costs} {S : RTree} {o : OTree} (G : GuardOrd c S o) :
    GuardOrd c S.withOutgroup (o.mapSp Path.og) :=
  ⟨by rw [leafSyntenies_mapSp]; exact G.ne, by rw [RTree.isBinary_withOutgroup]; exact G.bin,
   sp_og G.sp, G.coh⟩

theorem GuardUn.og {c : Costs} {S : RTree} {o : OTree} (G : GuardUn c S o) :
    GuardUn c S.withOutgroup (o.mapSp Path.og) :=
  ⟨by rw [RTree.isBinary_withOutgroup]; exact G.bin, sp_og G.sp, G.coh⟩

/-! ### `VSol` under the induced maps -/

theorem vsol_flip (mode : LabelMode) (base : Bool) (o : OTree) (F : Path → Bool) (s : Sol) :
    VSol mode base (o.flip F) (s.flip F) ↔ VSol mode base o s := by
  simp only [VSol, validSol_flip, lcaSol_flip, sameMapping_flip]

theorem vsol_mapSp {φ : Path → Path} (h : PathEmb φ) (mode : LabelMode) (base : Bool) (o : OTree)
    (s : Sol) : VSol mode base (o.mapSp φ) (s.mapSp φ) ↔ VSol mode base o s := by
  simp only [VSol, validSol_mapSp h, lcaSol_mapSp h, sameMapping_mapSp h]

/-! ## Object-child swap and mirror -/

/-- **C09, object-child swap, ordered solvers** (both variants): the result for the
    swapped input is the swapped result; the returned cost is the same. -/
theorem C09_swap_obj_spfs (c : Costs) (S : RTree) (base : Bool) (p : Path) (o : OTree)
    (G : GuardOrd c S o) :
    (∀ sol, sol ∈ spfs c S base o none ↔ sol.swapAt p ∈ spfs c S base (o.swapAt p) none) ∧
    (∀ s ∈ spfs c S base o none, ∀ s' ∈ spfs c S base (o.swapAt p) none,
      totalCost c .ordered (o.swapAt p) s' = totalCost c .ordered o s) ∧
    (spfs c S base (o.swapAt p) none).Perm ((spfs c S base o none).map (Sol.swapAt p)) := by
  have G' : GuardOrd c S (o.swapAt p) := by rw [OTree.swapAt_eq_flip]; exact G.flip _
  exact bij_transfer (Sol.swapAt p) (Sol.swapAt p) (mem_spfs_iff G base) (mem_spfs_iff G' base)
    (nodup_spfs _ _ _ _) (nodup_spfs _ _ _ _)
    (fun s => by rw [OTree.swapAt_eq_flip, Sol.swapAt_eq_flip]; exact vsol_flip _ _ _ _ _)
    (fun s => C09_swap_obj_cost c .ordered p o s) (fun _ => Iff.rfl)
    (Sol.swapAt_swapAt p) (Sol.swapAt_swapAt p)

theorem C09_mirror_obj_spfs (c : Costs) (S : RTree) (base : Bool) (o : OTree)
    (G : GuardOrd c S o) :
    (∀ sol, sol ∈ spfs c S base o none ↔ sol.mirror ∈ spfs c S base o.mirror none) ∧
    (∀ s ∈ spfs c S base o none, ∀ s' ∈ spfs c S base o.mirror none,
      totalCost c .ordered o.mirror s' = totalCost c .ordered o s) ∧
    (spfs c S base o.mirror none).Perm ((spfs c S base o none).map Sol.mirror) := by
  have G' : GuardOrd c S o.mirror := by rw [OTree.mirror_eq_flip]; exact G.flip _
  exact bij_transfer Sol.mirror Sol.mirror (mem_spfs_iff G base) (mem_spfs_iff G' base)
    (nodup_spfs _ _ _ _) (nodup_spfs _ _ _ _)
    (fun s => by rw [OTree.mirror_eq_flip, Sol.mirror_eq_flip]; exact vsol_flip _ _ _ _ _)
    (fun s => C09_mirror_obj_cost c .ordered o s) (fun _ => Iff.rfl)
    Sol.mirror_mirror Sol.mirror_mirror

/-- **C09, object-child swap, unordered solvers** (both variants): the full returned sets
    correspond (a canonical labelling stays canonical: required content and gains move
    with the swapped positions). -/
theorem C09_swap_obj_uspfs (c : Costs) (S : RTree) (base : Bool) (p : Path) (o : OTree)
    (G : GuardUn c S o) :
    (∀ sol, sol ∈ uspfs c S base o ↔ sol.swapAt p ∈ uspfs c S base (o.swapAt p)) ∧
    (∀ s ∈ uspfs c S base o, ∀ s' ∈ uspfs c S base (o.swapAt p),
      totalCost c .unordered (o.swapAt p) s' = totalCost c .unordered o s) ∧
    (uspfs c S base (o.swapAt p)).Perm ((uspfs c S base o).map (Sol.swapAt p)) := by
  have G' : GuardUn c S (o.swapAt p) := by rw [OTree.swapAt_eq_flip]; exact G.flip _
  exact bij_transfer (Sol.swapAt p) (Sol.swapAt p) (mem_uspfs_iff G base) (mem_uspfs_iff G' base)
    (nodup_uspfs _ _ _ _) (nodup_uspfs _ _ _ _)
    (fun s => by rw [OTree.swapAt_eq_flip, Sol.swapAt_eq_flip]; exact vsol_flip _ _ _ _ _)
    (fun s => C09_swap_obj_cost c .unordered p o s)
    (fun s => by rw [OTree.swapAt_eq_flip, Sol.swapAt_eq_flip, canonicalUn_flip_root])
    (Sol.swapAt_swapAt p) (Sol.swapAt_swapAt p)

theorem C09_mirror_obj_uspfs (c : Costs) (S : RTree) (base : Bool) (o : OTree)
    (G : GuardUn c S o) :
    (∀ sol, sol ∈ uspfs c S base o ↔ sol.mirror ∈ uspfs c S base o.mirror) ∧
    (∀ s ∈ uspfs c S base o, ∀ s' ∈ uspfs c S base o.mirror,
      totalCost c .unordered o.mirror s' = totalCost c .unordered o s) ∧
    (uspfs c S base o.mirror).Perm ((uspfs c S base o).map Sol.mirror) := by
  have G' : GuardUn c S o.mirror := by rw [OTree.mirror_eq_flip]; exact G.flip _
  exact bij_transfer Sol.mirror Sol.mirror (mem_uspfs_iff G base) (mem_uspfs_iff G' base)
    (nodup_uspfs _ _ _ _) (nodup_uspfs _ _ _ _)
    (fun s => by rw [OTree.mirror_eq_flip, Sol.mirror_eq_flip]; exact vsol_flip _ _ _ _ _)
    (fun s => C09_mirror_obj_cost c .unordered o s)
    (fun s => by rw [OTree.mirror_eq_flip, Sol.mirror_eq_flip, canonicalUn_flip_root])
    Sol.mirror_mirror Sol.mirror_mirror

/-! ## Species-child swap -/

/-- **C09, species-child swap, ordered solvers**: over the species tree with the children
    `i`, `j` of `p` exchanged the solvers return exactly the relabelled solutions. -/
theorem C09_swap_sp_spfs (c : Costs) (S : RTree) (base : Bool) (p : Path) (i j : Nat) (o : OTree)
    (hi : i < S.arityAt p) (hj : j < S.arityAt p) (G : GuardOrd c S o) :
    let φ := Path.swapAt p i j
    (∀ sol, sol ∈ spfs c S base o none ↔
      sol.mapSp φ ∈ spfs c (S.swapAt p i j) base (o.mapSp φ) none) ∧
    (∀ s ∈ spfs c S base o none, ∀ s' ∈ spfs c (S.swapAt p i j) base (o.mapSp φ) none,
      totalCost c .ordered (o.mapSp φ) s' = totalCost c .ordered o s) ∧
    (spfs c (S.swapAt p i j) base (o.mapSp φ) none).Perm
      ((spfs c S base o none).map (Sol.mapSp φ)) := by
  intro φ
  exact bij_transfer (Sol.mapSp φ) (Sol.mapSp φ) (mem_spfs_iff G base)
    (mem_spfs_iff (G.swapSp p i j hi hj) base) (nodup_spfs _ _ _ _) (nodup_spfs _ _ _ _)
    (fun s => vsol_mapSp (Path.swapAt_emb p i j) _ _ _ _)
    (fun s => C09_swap_sp_cost c .ordered p i j o s) (fun _ => Iff.rfl)
    (fun s => (C09_swap_sp_invol p i j o s).2) (fun s => (C09_swap_sp_invol p i j o s).2)

/-- **C09, species-child swap, unordered solvers** (full returned sets). -/
theorem C09_swap_sp_uspfs (c : Costs) (S : RTree) (base : Bool) (p : Path) (i j : Nat) (o : OTree)
    (hi : i < S.arityAt p) (hj : j < S.arityAt p) (G : GuardUn c S o) :
    let φ := Path.swapAt p i j
    (∀ sol, sol ∈ uspfs c S base o ↔ sol.mapSp φ ∈ uspfs c (S.swapAt p i j) base (o.mapSp φ)) ∧
    (∀ s ∈ uspfs c S base o, ∀ s' ∈ uspfs c (S.swapAt p i j) base (o.mapSp φ),
      totalCost c .unordered (o.mapSp φ) s' = totalCost c .unordered o s) ∧
    (uspfs c (S.swapAt p i j) base (o.mapSp φ)).Perm ((uspfs c S base o).map (Sol.mapSp φ)) := by
  intro φ
  exact bij_transfer (Sol.mapSp φ) (Sol.mapSp φ) (mem_uspfs_iff G base)
    (mem_uspfs_iff (G.swapSp p i j hi hj) base) (nodup_uspfs _ _ _ _) (nodup_uspfs _ _ _ _)
    (fun s => vsol_mapSp (Path.swapAt_emb p i j) _ _ _ _)
    (fun s => C09_swap_sp_cost c .unordered p i j o s)
    (fun s => by rw [canonicalUn_mapSp])
    (fun s => (C09_swap_sp_invol p i j o s).2) (fun s => (C09_swap_sp_invol p i j o s).2)

/-! ## Outgroup -/

/-- The retraction of the valid solutions of the input with an outgroup (extended
    variants: projection `unog`, which does not increase the cost inside the coherent
    region). -/
theorem vsol_unog_ext (c : Costs) (mode : LabelMode)
    (hc : c.spe + ogSlack mode * c.sloss ≤ c.dup + 4 * c.floss) (o : OTree) (s : Sol)
    (hs : VSol mode false (o.mapSp Path.og) s) :
    VSol mode false o (s.mapSp Path.unog) ∧
      Cost.le (totalCost c mode o (s.mapSp Path.unog)) (totalCost c mode (o.mapSp Path.og) s)
        = true := by
  obtain ⟨h1, h2⟩ := C09_outgroup_project c mode hc o s hs.1
  exact ⟨⟨h1, fun e => by cases e⟩, h2⟩

/-- Base variants: an LCA-mapped solution of the new input is an embedded solution. -/
theorem og_unog_of_vsol_base (mode : LabelMode) (o : OTree) (s : Sol)
    (hs : VSol mode true (o.mapSp Path.og) s) : (s.mapSp Path.unog).mapSp Path.og = s := by
  have := hs.2 rfl
  rw [lcaSol_mapSp Path.og_emb] at this
  exact og_unog_of_sameMapping s _ this

theorem vsol_unog_base (c : Costs) (mode : LabelMode) (o : OTree) (s : Sol)
    (hs : VSol mode true (o.mapSp Path.og) s) :
    VSol mode true o (s.mapSp Path.unog) ∧
      Cost.le (totalCost c mode o (s.mapSp Path.unog)) (totalCost c mode (o.mapSp Path.og) s)
        = true := by
  have e := og_unog_of_vsol_base mode o s hs
  constructor
  · rw [← vsol_mapSp Path.og_emb, e]; exact hs
  · rw [← (C09_outgroup_embed c mode o (s.mapSp Path.unog)).1, e]; exact Cost.le_refl _

/-- **C09, outgroup, extended ordered solver.**  With a new root and an empty outgroup
    leaf: (1) a solution is returned for the old input iff its embedding is returned for
    the new one; (2) the returned cost is unchanged; (3) a returned solution of the new
    input that avoids the new root is the embedding of a returned solution of the old
    input; (4) for `floss > 0` the new result is exactly the embedded old result. -/
theorem C09_outgroup_spfs (c : Costs) (S : RTree) (o : OTree) (G : GuardOrd c S o) :
    (∀ sol, sol ∈ spfs c S false o none ↔
      sol.mapSp Path.og ∈ spfs c S.withOutgroup false (o.mapSp Path.og) none) ∧
    (∀ s ∈ spfs c S false o none, ∀ s' ∈ spfs c S.withOutgroup false (o.mapSp Path.og) none,
      totalCost c .ordered (o.mapSp Path.og) s' = totalCost c .ordered o s) ∧
    (∀ s' ∈ spfs c S.withOutgroup false (o.mapSp Path.og) none, s'.allSp Path.avoid = true →
      s'.mapSp Path.unog ∈ spfs c S false o none ∧ (s'.mapSp Path.unog).mapSp Path.og = s') ∧
    (0 < c.floss → ∀ s', s' ∈ spfs c S.withOutgroup false (o.mapSp Path.og) none ↔
      ∃ s ∈ spfs c S false o none, s.mapSp Path.og = s') := by
  have hc : c.spe + ogSlack .ordered * c.sloss ≤ c.dup + 4 * c.floss := by
    have := G.coh; simp only [ogSlack]; omega
  have hcoh : c.spe + ogSlack .ordered * c.sloss ≤ c.dup + 2 * c.floss := by
    have := G.coh; simp only [ogSlack]; omega
  obtain ⟨hiff, hcost, hback⟩ := emb_transfer (Sol.mapSp Path.og) (Sol.mapSp Path.unog)
    (mem_spfs_iff G false) (mem_spfs_iff G.og false)
    (fun s => vsol_mapSp Path.og_emb _ _ _ _)
    (fun s => (C09_outgroup_embed c .ordered o s).1) (fun _ => Iff.rfl)
    (vsol_unog_ext c .ordered hc o)
  refine ⟨hiff, hcost, ?_, ?_⟩
  · intro s' hs' havoid
    have e := Sol.og_unog_of_avoid s' havoid
    exact ⟨hback s' hs' e, e⟩
  · intro hfl
    refine image_of_retract _ (Sol.mapSp Path.unog) hiff ?_
    intro s' hs'
    obtain ⟨⟨hv, hmin⟩, hfin, _⟩ := (mem_spfs_iff G.og false s').mp hs'
    exact (C09_outgroup_strict c .ordered hcoh hfl o s'
      ⟨hv.1, fun t ht => hmin t ⟨ht, fun e => by cases e⟩⟩ hfin).2.2

/-- **C09, outgroup, base ordered solver**: the LCA mapping never uses the new root, so
    the new result is exactly the embedded old result (any `floss`). -/
theorem C09_outgroup_spfs_base (c : Costs) (S : RTree) (o : OTree) (G : GuardOrd c S o) :
    (∀ sol, sol ∈ spfs c S true o none ↔
      sol.mapSp Path.og ∈ spfs c S.withOutgroup true (o.mapSp Path.og) none) ∧
    (∀ s ∈ spfs c S true o none, ∀ s' ∈ spfs c S.withOutgroup true (o.mapSp Path.og) none,
      totalCost c .ordered (o.mapSp Path.og) s' = totalCost c .ordered o s) ∧
    (∀ s', s' ∈ spfs c S.withOutgroup true (o.mapSp Path.og) none ↔
      ∃ s ∈ spfs c S true o none, s.mapSp Path.og = s') := by
  obtain ⟨hiff, hcost, _⟩ := emb_transfer (Sol.mapSp Path.og) (Sol.mapSp Path.unog)
    (mem_spfs_iff G true) (mem_spfs_iff G.og true)
    (fun s => vsol_mapSp Path.og_emb _ _ _ _)
    (fun s => (C09_outgroup_embed c .ordered o s).1) (fun _ => Iff.rfl)
    (vsol_unog_base c .ordered o)
  refine ⟨hiff, hcost, image_of_retract _ (Sol.mapSp Path.unog) hiff ?_⟩
  intro s' hs'
  exact og_unog_of_vsol_base .ordered o s' ((mem_spfs_iff G.og true s').mp hs').1.1

/-- **C09, outgroup, SuperDTL** (extended unordered solver): as `C09_outgroup_spfs`, for
    the full returned sets (embedding and projection keep canonicity). -/
theorem C09_outgroup_uspfs (c : Costs) (S : RTree) (o : OTree) (G : GuardUn c S o) :
    (∀ sol, sol ∈ uspfs c S false o ↔
      sol.mapSp Path.og ∈ uspfs c S.withOutgroup false (o.mapSp Path.og)) ∧
    (∀ s ∈ uspfs c S false o, ∀ s' ∈ uspfs c S.withOutgroup false (o.mapSp Path.og),
      totalCost c .unordered (o.mapSp Path.og) s' = totalCost c .unordered o s) ∧
    (∀ s' ∈ uspfs c S.withOutgroup false (o.mapSp Path.og), s'.allSp Path.avoid = true →
      s'.mapSp Path.unog ∈ uspfs c S false o ∧ (s'.mapSp Path.unog).mapSp Path.og = s') ∧
    (0 < c.floss → ∀ s', s' ∈ uspfs c S.withOutgroup false (o.mapSp Path.og) ↔
      ∃ s ∈ uspfs c S false o, s.mapSp Path.og = s') := by
  have hc : c.spe + ogSlack .unordered * c.sloss ≤ c.dup + 4 * c.floss := by
    have := G.coh; simp only [ogSlack]; omega
  have hcoh : c.spe + ogSlack .unordered * c.sloss ≤ c.dup + 2 * c.floss := by
    have := G.coh; simp only [ogSlack]; omega
  obtain ⟨hiff, hcost, hback⟩ := emb_transfer (Sol.mapSp Path.og) (Sol.mapSp Path.unog)
    (mem_uspfs_iff G false) (mem_uspfs_iff G.og false)
    (fun s => vsol_mapSp Path.og_emb _ _ _ _)
    (fun s => (C09_outgroup_embed c .unordered o s).1)
    (fun s => by rw [canonicalUn_mapSp])
    (vsol_unog_ext c .unordered hc o)
  refine ⟨hiff, hcost, ?_, ?_⟩
  · intro s' hs' havoid
    have e := Sol.og_unog_of_avoid s' havoid
    exact ⟨hback s' hs' e, e⟩
  · intro hfl
    refine image_of_retract _ (Sol.mapSp Path.unog) hiff ?_
    intro s' hs'
    obtain ⟨⟨hv, hmin⟩, hfin, _⟩ := (mem_uspfs_iff G.og false s').mp hs'
    exact (C09_outgroup_strict c .unordered hcoh hfl o s'
      ⟨hv.1, fun t ht => hmin t ⟨ht, fun e => by cases e⟩⟩ hfin).2.2

/-- **C09, outgroup, base unordered solver**: the new result is exactly the embedded old
    result (any `floss`). -/
theorem C09_outgroup_uspfs_base (c : Costs) (S : RTree) (o : OTree) (G : GuardUn c S o) :
    (∀ sol, sol ∈ uspfs c S true o ↔
      sol.mapSp Path.og ∈ uspfs c S.withOutgroup true (o.mapSp Path.og)) ∧
    (∀ s ∈ uspfs c S true o, ∀ s' ∈ uspfs c S.withOutgroup true (o.mapSp Path.og),
      totalCost c .unordered (o.mapSp Path.og) s' = totalCost c .unordered o s) ∧
    (∀ s', s' ∈ uspfs c S.withOutgroup true (o.mapSp Path.og) ↔
      ∃ s ∈ uspfs c S true o, s.mapSp Path.og = s') := by
  obtain ⟨hiff, hcost, _⟩ := emb_transfer (Sol.mapSp Path.og) (Sol.mapSp Path.unog)
    (mem_uspfs_iff G true) (mem_uspfs_iff G.og true)
    (fun s => vsol_mapSp Path.og_emb _ _ _ _)
    (fun s => (C09_outgroup_embed c .unordered o s).1)
    (fun s => by rw [canonicalUn_mapSp])
    (vsol_unog_base c .unordered o)
  refine ⟨hiff, hcost, image_of_retract _ (Sol.mapSp Path.unog) hiff ?_⟩
  intro s' hs'
  exact og_unog_of_vsol_base .unordered o s' ((mem_uspfs_iff G.og true s').mp hs').1.1

/-! ## The executable oracle, all modes -/

/-- In every mode the oracle's optimum (extended variant, no prescribed root order) is the
    minimum evaluated cost over the valid solutions (C01/C02/C03 oracle adequacy). -/
theorem optimum_isMinCost (c : Costs) (S : RTree) (mode : LabelMode) (o : OTree) (keep : Bool)
    (hS : ∀ p ∈ leafSpecies o, S.isNode p = true) :
    IsMinCost c mode o (Spec.optimum c S mode false keep o none).1 := by
  cases mode with
  | plain => exact optimum_plain_isMinCost c S o keep none hS
  | ordered =>
    refine ⟨fun sol hv => C02.C02_oracle_le c S o keep hS sol hv, ?_⟩
    by_cases h : (Spec.optimum c S .ordered false keep o none).1 = .inf
    · exact Or.inl h
    · obtain ⟨sol, hv, _, hc⟩ := C02.C02_oracle_attained c S o false keep h
      exact Or.inr ⟨sol, hv, hc⟩
  | unordered =>
    refine ⟨fun sol hv => C03.C03_oracle_le c S o keep hS sol hv, ?_⟩
    by_cases h : (Spec.optimum c S .unordered false keep o none).1 = .inf
    · exact Or.inl h
    · obtain ⟨sol, hv, _, _, hc⟩ := C03.C03_oracle_attained c S o false keep h
      exact Or.inr ⟨sol, hv, hc⟩

/-- Object-child swap: the oracle's optimum is unchanged, every mode. -/
theorem C09_swap_obj_optimum_all (c : Costs) (S : RTree) (mode : LabelMode) (p : Path) (o : OTree)
    (keep : Bool) (hS : ∀ q ∈ leafSpecies o, S.isNode q = true) :
    (Spec.optimum c S mode false keep (o.swapAt p) none).1 =
      (Spec.optimum c S mode false keep o none).1 := by
  have hS' : ∀ q ∈ leafSpecies (o.swapAt p), S.isNode q = true := by
    intro q hq
    rw [OTree.swapAt_eq_flip] at hq
    exact hS q ((leafSpecies_flip_perm o _).mem_iff.mp hq)
  exact IsMinCostFor.unique (optimum_isMinCost c S mode _ keep hS')
    (((C09_swap_obj c mode p o).2 _).mp (optimum_isMinCost c S mode o keep hS))

theorem C09_mirror_obj_optimum_all (c : Costs) (S : RTree) (mode : LabelMode) (o : OTree)
    (keep : Bool) (hS : ∀ q ∈ leafSpecies o, S.isNode q = true) :
    (Spec.optimum c S mode false keep o.mirror none).1 =
      (Spec.optimum c S mode false keep o none).1 := by
  have hS' : ∀ q ∈ leafSpecies o.mirror, S.isNode q = true := by
    intro q hq
    rw [OTree.mirror_eq_flip] at hq
    exact hS q ((leafSpecies_flip_perm o _).mem_iff.mp hq)
  exact IsMinCostFor.unique (optimum_isMinCost c S mode _ keep hS')
    (((C09_mirror_obj c mode o).2 _).mp (optimum_isMinCost c S mode o keep hS))

/-- Species-child swap: the oracle's optimum is unchanged, every mode. -/
theorem C09_swap_sp_optimum_all (c : Costs) (S : RTree) (mode : LabelMode) (p : Path) (i j : Nat)
    (o : OTree) (keep : Bool) (hi : i < S.arityAt p) (hj : j < S.arityAt p)
    (hS : ∀ q ∈ leafSpecies o, S.isNode q = true) :
    (Spec.optimum c (S.swapAt p i j) mode false keep (o.mapSp (Path.swapAt p i j)) none).1 =
      (Spec.optimum c S mode false keep o none).1 :=
  IsMinCostFor.unique (optimum_isMinCost c _ mode _ keep (sp_swapAt hS p i j hi hj))
    (((C09_swap_sp c mode p i j o).2 _).mp (optimum_isMinCost c S mode o keep hS))

/-- Outgroup: the oracle's optimum over the enlarged species tree is unchanged, every mode
    (`spe + k·sloss ≤ dup + 4·floss`, `k = ogSlack mode`). -/
theorem C09_outgroup_optimum_all (c : Costs) (mode : LabelMode)
    (hc : c.spe + ogSlack mode * c.sloss ≤ c.dup + 4 * c.floss) (S : RTree) (o : OTree)
    (keep : Bool) (hS : ∀ q ∈ leafSpecies o, S.isNode q = true) :
    (Spec.optimum c S.withOutgroup mode false keep (o.mapSp Path.og) none).1 =
      (Spec.optimum c S mode false keep o none).1 :=
  IsMinCostFor.unique (optimum_isMinCost c _ mode _ keep (sp_og hS))
    (((C09_outgroup c mode hc o).1 _).mp (optimum_isMinCost c S mode o keep hS))

/-! ## Monotonicity of the evaluated cost returned by the unordered solvers -/

/-- **C09 monotonicity for the unordered solvers** (both variants): with the cheaper
    vector coherent, no solution returned under the dearer costs is cheaper than one
    returned under the cheaper costs — for the EVALUATED cost (`C09Dp.lean` had the
    optimiser's own table minimum). -/
theorem C09_mono_uspfs (c c' : Costs) (hcc : EventLog.leCosts c c') (S : RTree) (base : Bool) (o : OTree)
    (G : GuardUn c S o) :
    ∀ s ∈ uspfs c S base o, ∀ s' ∈ uspfs c' S base o,
      Cost.le (totalCost c .unordered o s) (totalCost c' .unordered o s') = true := by
  intro s hs s' hs'
  obtain ⟨d, hd, ls, hls, rfl⟩ := C04.mem_uspfs_decoded hs'
  obtain ⟨hv, _, hsp⟩ := C03.C03_decoded_canon c' S base o d hd ls hls
  exact Cost.le_trans
    ((C03.C03_optimal c S o base G.bin G.sp G.coh s hs).2 _ hv
      ((speciesOk_iff_spAllowed S base o _).mpr hsp))
    (C09_eval_mono c c' hcc .unordered o _)

/-! ## Non-vacuity -/

def svS : RTree := .node [.node [.node [], .node []], .node []]
def svO : OTree := .node (.node (.leaf [0, 0] [1, 2]) (.leaf [1] [2])) (.leaf [0, 1] [1])
def svC : Costs := { spe := 1, dup := 1, hgt := .fin 1, floss := 1, sloss := 1 }

theorem svGuardOrd : GuardOrd svC svS svO := ⟨by decide, by decide, by decide, by decide⟩
theorem svGuardUn : GuardUn svC svS svO := ⟨by decide, by decide, by decide⟩

-- The guards hold on a non-trivial input; the object swap really changes the input, the
-- ordered results are non-empty and correspond.
example :
    svO.swapAt [0] ≠ svO ∧ (spfs svC svS false svO none).length = 1 ∧
    (spfs svC svS true svO none).length = 1 ∧
    spfs svC svS false (svO.swapAt [0]) none = (spfs svC svS false svO none).map (Sol.swapAt [0]) ∧
    spfs svC svS true svO.mirror none = (spfs svC svS true svO none).map Sol.mirror := by
  decide +kernel

-- Unordered solvers: species swap at the root of `S` and at `[0]`; the results move.
example :
    0 < svS.arityAt [0] ∧ 1 < svS.arityAt [0] ∧ (uspfs svC svS false svO).length = 3 ∧
    svO.mapSp (Path.swapAt [0] 0 1) ≠ svO ∧
    (uspfs svC (svS.swapAt [0] 0 1) false (svO.mapSp (Path.swapAt [0] 0 1))).length = 3 ∧
    (∀ s ∈ uspfs svC svS false svO, s.mapSp (Path.swapAt [0] 0 1) ∈
      uspfs svC (svS.swapAt [0] 0 1) false (svO.mapSp (Path.swapAt [0] 0 1))) ∧
    uspfs svC (svS.swapAt [0] 0 1) false (svO.mapSp (Path.swapAt [0] 0 1)) ≠
      (uspfs svC svS false svO).map (Sol.mapSp (Path.swapAt [0] 0 1)) ∧
    (uspfs svC svS false svO.mirror).length = 3 := by
  decide +kernel

-- Outgroup: `floss > 0`, the new results are exactly the embedded old ones.
example :
    0 < svC.floss ∧
    spfs svC svS.withOutgroup false (svO.mapSp Path.og) none =
      (spfs svC svS false svO none).map (Sol.mapSp Path.og) ∧
    uspfs svC svS.withOutgroup false (svO.mapSp Path.og) =
      (uspfs svC svS false svO).map (Sol.mapSp Path.og) ∧
    uspfs svC svS.withOutgroup true (svO.mapSp Path.og) =
      (uspfs svC svS true svO).map (Sol.mapSp Path.og) := by
  decide +kernel

-- Outgroup with `floss = 0`: the extended solvers return additional co-optimal solutions
-- that use the new root (so clause (4) needs `floss > 0`), with the same cost.
example :
    let c : Costs := { spe := 1, dup := 1, hgt := .fin 1, floss := 0, sloss := 0 }
    let S : RTree := .node [.node [], .node []]
    let o : OTree := .node (.leaf [0] [1]) (.leaf [1] [1])
    GuardUn c S o ∧
    (uspfs c S false o).length < (uspfs c S.withOutgroup false (o.mapSp Path.og)).length ∧
    (uspfs c S false o).map (totalCost c .unordered o) = [.fin 1, .fin 1, .fin 1] ∧
    (∀ s' ∈ uspfs c S.withOutgroup false (o.mapSp Path.og),
      totalCost c .unordered (o.mapSp Path.og) s' = .fin 1) := by
  refine ⟨⟨by decide, by decide, by decide⟩, ?_⟩
  decide +kernel

-- The oracle in the ordered and unordered modes on the four presentations; a dearer cost
-- vector (transfers forbidden) with a strictly larger returned cost.
example :
    (Spec.optimum svC svS .ordered false false svO none).1 = .fin 2 ∧
    (Spec.optimum svC svS .ordered false false (svO.swapAt [0]) none).1 = .fin 2 ∧
    (Spec.optimum svC svS.withOutgroup .ordered false false (svO.mapSp Path.og) none).1 = .fin 2 ∧
    (Spec.optimum svC svS .unordered false false svO none).1 = .fin 2 ∧
    (Spec.optimum svC svS .unordered false false svO.mirror none).1 = .fin 2 ∧
    (Spec.optimum svC (svS.swapAt [0] 0 1) .unordered false false
      (svO.mapSp (Path.swapAt [0] 0 1)) none).1 = .fin 2 ∧
    (∀ mode, svC.spe + ogSlack mode * svC.sloss ≤ svC.dup + 4 * svC.floss) ∧
    EventLog.leCosts svC { svC with hgt := .inf } ∧
    (uspfs svC svS false svO).map (totalCost svC .unordered svO) = [.fin 2, .fin 2, .fin 2] ∧
    (uspfs { svC with hgt := .inf } svS false svO).map
      (totalCost { svC with hgt := .inf } .unordered svO) = [.fin 6] := by
  refine ⟨?_, ?_, ?_, ?_, ?_, ?_, fun mode => by cases mode <;> decide,
    ⟨by decide, by decide, by decide, by decide, by decide⟩, ?_, ?_⟩ <;>
    decide +kernel

end SR.C09
