/-
  C12 (bridge, colours) — the cost-line theorems for COLOURED input trees.

  `Properties/C12Bridge.lean`, `C12BridgeExtra.lean`, `C12Json.lean` speak of the embedding
  `embPlain` / `embSuper`, whose trees carry no NHX `color` feature, while an input file may
  colour any node of `object_tree` / `species_tree` (README "Adding color"; the reader keeps the
  feature, the solvers ignore it, `to_dict` writes it back with `features=["color"]`).  Here the
  embedding takes, next to the `Naming`, a `Colouring` (`scol ocol : Path → Option String`,
  `Model/SolOutputColour.lean`): `embPlainC nm cl …` / `embSuperC nm cl …` are the objects the
  tool builds for an input whose node at path `q` is called `nm.oname q` and coloured
  `cl.ocol q` (`C12_col_trees`, `C12_col_every_tree`: EVERY named coloured tree is one).

  The route is "recolouring commutes with everything" (`Proofs/SolOutputColour.lean`):
  the evaluator never reads a colour (`C12_col_eval_ignores_colours`), well-formedness — the
  domain of the C11 Newick round trip, which already handles colours — is preserved by safe
  colours (`C12_col_emb_wf_*`).  Hence, for EVERY naming `nm.Ok` and EVERY colouring `cl.Ok`
  (each colour present is a non-empty word over `[A-Za-z0-9_]`, e.g. `0000FF`, `red`: the
  alphabet of C11's `SafeNames`; `#0000FF` is NOT covered):

  * `C12_col_cost_line_thl / _exh / _lca / _spfs / _uspfs`   the cost line on dictionaries,
  * `C12_col_cost_line_text_thl / _exh / _lca / _spfs / _uspfs`   on the written text,
  * `C12_col_all_superset_any_thl / _exh / _spfs / _uspfs`   `all ⊇ any` on the written lines
    (no hypothesis on names or colours),
  * `C12_col_blank`   the blank colouring is the uncoloured embedding: the theorems of
    `C12Bridge.lean` are the instance `cl = Colouring.blank`,
  * `C12_col_written_colour`   non-vacuity: the colour IS in the written Newick text.
-/
import SRVerif.Proofs.SolOutputColour
import SRVerif.Properties.C12BridgeExtra

namespace SR.C12

open SR SR.Ser SR.Cli SR.SolOut SR.C11 SR.Json

/-! ### The coloured embedding is the general input tree -/

/-- The trees of the coloured input object: node at path `q` named by `nm`, coloured by `cl`. -/
theorem C12_col_trees (nm : Naming) (cl : Colouring) (c : Costs) (S : RTree) (o : OTree) :
    (embInputC nm cl c S o).objectTree = ntOfC nm.oname cl.ocol o.shape ∧
    (embInputC nm cl c S o).speciesTree = ntOfC nm.sname cl.scol S ∧
    (ntOfC nm.oname cl.ocol o.shape).pre.map tagNT = o.shape.preorder.map (tagPC nm.oname cl.ocol) ∧
    (ntOfC nm.sname cl.scol S).pre.map tagNT = S.preorder.map (tagPC nm.sname cl.scol) :=
  ⟨(embInputC_trees nm cl c S o).1, (embInputC_trees nm cl c S o).2, pre_ntOfC _ _ _, pre_ntOfC _ _ _⟩

/-- Every named coloured tree is `ntOfC` of its own names, colours and shape: no input tree is
    outside the embedding because of its colours (finding 4 of review H closed). -/
theorem C12_col_every_tree (t : NT) : ntOfC (nameFn t) (colFn t) (shapeNT t) = t := ntOfC_self t

/-- The blank colouring is the embedding of `Model/SolOutput.lean`. -/
theorem C12_col_blank (nm : Naming) (c : Costs) (S : RTree) (o : OTree) :
    embInputC nm Colouring.blank c S o = embInput nm c S o ∧ Colouring.blank.Ok S o :=
  ⟨embInputC_blank nm c S o, Colouring.blank_ok S o⟩

/-! ### The interface facts, with colours -/

theorem C12_col_emb_wf_plain {nm : Naming} {cl : Colouring} {S : RTree} {o : OTree} (c : Costs)
    (hnm : nm.Ok S o) (hcl : cl.Ok S o) (hS : ∀ p ∈ leafSpecies o, S.isNode p = true)
    (withSyn : Bool) {s : Sol} (hv : Spec.validRec o s = true) :
    (embPlainC nm cl c S o withSyn s).WF :=
  embPlainC_wf c hnm hcl hS withSyn hv

theorem C12_col_emb_wf_super {nm : Naming} {cl : Colouring} {S : RTree} {o : OTree}
    (arr : List String → List String) (c : Costs) (hnm : nm.Ok S o) (hcl : cl.Ok S o)
    (hS : ∀ p ∈ leafSpecies o, S.isNode p = true) (ordered : Bool) {s : Sol}
    (hv : Spec.validRec o s = true) : (embSuperC nm cl arr c S o ordered s).WF :=
  embSuperC_wf arr c hnm hcl hS ordered hv

/-- The evaluator ignores colours: on ANY parsed structure, recolouring both trees in any way
    (safe or not) leaves the evaluated cost unchanged; the reader `decode` likewise. -/
theorem C12_col_eval_ignores_colours (cl : Colouring) (i : RecInput) (m : TreeMapping) :
    evalPlain (i.recolour cl) m = evalPlain i m ∧
    (∀ syn b, evalSuper (i.recolour cl) m syn b = evalSuper i m syn b) ∧
    ∀ los os famAt col t p, decode los os famAt (recolNT col t) p = decode los os famAt t p :=
  ⟨evalPlain_recolour cl i m, fun syn b => evalSuper_recolour cl i m syn b,
    fun los os famAt col t p => decode_recol los os famAt col t p⟩

theorem C12_col_emb_cost_plain (nm : Naming) (cl : Colouring) (c : Costs) (S : RTree) {o : OTree}
    {s : Sol} (hv : Spec.validRec o s = true) (withSyn : Bool) :
    evalPlain (embPlainC nm cl c S o withSyn s).input.base
        (embPlainC nm cl c S o withSyn s).objectSpecies = totalCost c .plain o s :=
  evalPlain_embC nm cl c S hv withSyn

theorem C12_col_emb_cost_super (nm : Naming) (cl : Colouring)
    (hf : ∀ a b, nm.fname a = nm.fname b → a = b) (arr : List String → List String)
    (harr : ∀ l, (arr l).Perm l) (c : Costs) (S : RTree) {o : OTree} {s : Sol}
    (hv : Spec.validRec o s = true) (ordered : Bool) :
    evalSuper (embSuperC nm cl arr c S o ordered s).input.base
        (embSuperC nm cl arr c S o ordered s).objectSpecies
        (embSuperC nm cl arr c S o ordered s).syntenies (embSuperC nm cl arr c S o ordered s).ordered
      = totalCost c (if ordered then .ordered else .unordered) o s :=
  evalSuper_embC nm cl hf arr harr c S hv ordered

section

variable (render : OutputDict → String)

/-- Plain outputs with colours: any results inside an optimal set, all valid reconciliations. -/
theorem C12_col_cost_line_sols_plain {nm : Naming} {cl : Colouring} {S : RTree} {o : OTree}
    (c : Costs) (hnm : nm.Ok S o) (hcl : cl.Ok S o) (hS : ∀ p ∈ leafSpecies o, S.isNode p = true)
    (withSyn : Bool) (cands results : List Sol)
    (hres : ∀ s ∈ results, s ∈ rankByCost c .plain o cands)
    (hval : ∀ s ∈ results, Spec.validRec o s = true) (hne : results ≠ []) (algo : String)
    (w : Bool) (p : Option String) :
    CostLineOK PlainBack c .plain o (rankByCost c .plain o cands)
      (fun x : RecOutput => render (x.toDict Newick.write))
      (results.map (embPlainC nm cl c S o withSyn))
      (reconcileRun algo (.run w p) (results.map (embPlainC nm cl c S o withSyn))
        (fun x => evalPlain x.input.base x.objectSpecies)
        (fun x => render (x.toDict Newick.write))) := by
  refine C12_cost_line_core _ c .plain o cands results hres hne _ _ _
    (fun s hs => evalPlain_embC nm cl c S (hval s hs) withSyn) (fun s hs => ?_) algo w p
  have hwf := embPlainC_wf c hnm hcl hS withSyn (hval s hs)
  exact ⟨_, (C11_roundtrip_newick_output hwf).1, rfl⟩

/-- Labelled outputs with colours. -/
theorem C12_col_cost_line_sols_super {nm : Naming} {cl : Colouring} {S : RTree} {o : OTree}
    (arr : List String → List String) (harr : ∀ l, (arr l).Perm l) (c : Costs) (hnm : nm.Ok S o)
    (hcl : cl.Ok S o) (hS : ∀ p ∈ leafSpecies o, S.isNode p = true) (ordered : Bool)
    (cands results : List Sol)
    (hres : ∀ s ∈ results,
      s ∈ rankByCost c (if ordered then .ordered else .unordered) o cands)
    (hval : ∀ s ∈ results, Spec.validRec o s = true) (hne : results ≠ []) (algo : String)
    (w : Bool) (p : Option String) :
    CostLineOK SuperBack c (if ordered then .ordered else .unordered) o
      (rankByCost c (if ordered then .ordered else .unordered) o cands)
      (fun x : SRecOutput => render (x.toDict Newick.write))
      (results.map (embSuperC nm cl arr c S o ordered))
      (reconcileRun algo (.run w p) (results.map (embSuperC nm cl arr c S o ordered))
        (fun x => evalSuper x.input.base x.objectSpecies x.syntenies x.ordered)
        (fun x => render (x.toDict Newick.write))) := by
  refine C12_cost_line_core _ c _ o cands results hres hne _ _ _
    (fun s hs => evalSuper_embC nm cl hnm.fInj arr harr c S (hval s hs) ordered) (fun s hs => ?_)
    algo w p
  have hwf := embSuperC_wf arr c hnm hcl hS ordered (hval s hs)
  obtain ⟨y, hy, hc⟩ := C11_same_evaluation_newick evalSuper evalSuper_normSyn hwf
  exact ⟨y, hy, hc⟩

/-- **`C12_col_cost_line_thl`** — `C12_cost_line_thl` for every colouring of the input trees. -/
theorem C12_col_cost_line_thl {nm : Naming} {cl : Colouring} {S : RTree} {o : OTree} (c : Costs)
    (hnm : nm.Ok S o) (hcl : cl.Ok S o) (hb : S.isBinary = true)
    (hS : ∀ p ∈ leafSpecies o, S.isNode p = true) (withSyn : Bool) :
    let emb := embPlainC nm cl c S o withSyn
    let cost := fun x : RecOutput => evalPlain x.input.base x.objectSpecies
    let enc := fun x : RecOutput => render (x.toDict Newick.write)
    CostLineOK PlainBack c .plain o (thl c S o) enc ((thl c S o).map emb)
      (reconcileRun "thl" (dispatch "thl" (kindOf withSyn) "all") ((thl c S o).map emb) cost enc) ∧
    ∀ (P : Picker Unit), P.Ok → c.spe ≤ c.dup + 2 * c.floss →
      CostLineOK PlainBack c .plain o (thl c S o) enc ((thlAny P c S o).map emb)
        (reconcileRun "thl" (dispatch "thl" (kindOf withSyn) "any") ((thlAny P c S o).map emb)
          cost enc) := by
  intro emb cost enc
  have hd1 : dispatch "thl" (kindOf withSyn) "all" = .run withSyn (some "ALL") := by
    cases withSyn <;> decide
  have hd2 : dispatch "thl" (kindOf withSyn) "any" = .run withSyn (some "ANY") := by
    cases withSyn <;> decide
  have hvalid : ∀ s ∈ thl c S o, Spec.validRec o s = true := fun s hs => by
    have := (C04.C04_thl c S o s hs).1
    simp only [Spec.validSol, Bool.and_true] at this
    exact this
  rw [hd1, hd2]
  constructor
  · exact C12_col_cost_line_sols_plain render c hnm hcl hS withSyn _ (thl c S o)
      (fun s hs => hs) hvalid (C01.C01_thl_total c S o hb hS) "thl" withSyn (some "ALL")
  · intro P hP hcoh
    have hmem := C05.C05_any_mem_thl P hP c S o hb hS hcoh
    have hne : thlAny P c S o ≠ [] := by
      intro h
      have := C05.C05_any_total_thl P hP c S o hb hS
      rw [h] at this
      simp at this
    exact C12_col_cost_line_sols_plain render c hnm hcl hS withSyn _ (thlAny P c S o)
      hmem (fun s hs => hvalid s (hmem s hs)) hne "thl" withSyn (some "ANY")

/-- **`C12_col_cost_line_exh`**. -/
theorem C12_col_cost_line_exh {nm : Naming} {cl : Colouring} {S : RTree} {o : OTree} (c : Costs)
    (hnm : nm.Ok S o) (hcl : cl.Ok S o) (hS : ∀ p ∈ leafSpecies o, S.isNode p = true)
    (withSyn : Bool) :
    let emb := embPlainC nm cl c S o withSyn
    let cost := fun x : RecOutput => evalPlain x.input.base x.objectSpecies
    let enc := fun x : RecOutput => render (x.toDict Newick.write)
    CostLineOK PlainBack c .plain o (exhaustive c o) enc ((exhaustive c o).map emb)
      (reconcileRun "exh" (dispatch "exh" (kindOf withSyn) "all") ((exhaustive c o).map emb)
        cost enc) ∧
    ∀ (pick : List Sol → Option Sol), PickOk pick →
      CostLineOK PlainBack c .plain o (exhaustive c o) enc
        ((exhaustiveAny pick c o).map emb)
        (reconcileRun "exh" (dispatch "exh" (kindOf withSyn) "any")
          ((exhaustiveAny pick c o).map emb) cost enc) := by
  intro emb cost enc
  have hd1 : dispatch "exh" (kindOf withSyn) "all" = .run withSyn (some "ALL") := by
    cases withSyn <;> decide
  have hd2 : dispatch "exh" (kindOf withSyn) "any" = .run withSyn (some "ANY") := by
    cases withSyn <;> decide
  have hvalid : ∀ s ∈ exhaustive c o, Spec.validRec o s = true := fun s hs =>
    ((mem_generateAll o s).mp ((mem_rankByCost c .plain o _ s).mp hs).1).1
  have hne : exhaustive c o ≠ [] := C01.C01_exh_nonempty c o
  rw [hd1, hd2]
  constructor
  · exact C12_col_cost_line_sols_plain render c hnm hcl hS withSyn _ (exhaustive c o)
      (fun s hs => hs) hvalid hne "exh" withSyn (some "ALL")
  · intro pick hp
    have hmem := C05.C05_any_mem_exh pick c o hp
    exact C12_col_cost_line_sols_plain render c hnm hcl hS withSyn _ (exhaustiveAny pick c o)
      hmem (fun s hs => hvalid s (hmem s hs))
      (fun e => hne ((C05.C05_any_empty_iff_exh pick c o hp).mp e)) "exh" withSyn (some "ANY")

/-- **`C12_col_cost_line_lca`** — `lca`, either `--solutions` value. -/
theorem C12_col_cost_line_lca {nm : Naming} {cl : Colouring} {S : RTree} {o : OTree}
    (c : Costs) (hnm : nm.Ok S o) (hcl : cl.Ok S o) (hS : ∀ p ∈ leafSpecies o, S.isNode p = true)
    (withSyn : Bool) (sol : String) (hsol : sol = "any" ∨ sol = "all") :
    let emb := embPlainC nm cl c S o withSyn
    let cost := fun x : RecOutput => evalPlain x.input.base x.objectSpecies
    let enc := fun x : RecOutput => render (x.toDict Newick.write)
    CostLineOK PlainBack c .plain o (rankByCost c .plain o [lcaSol o]) enc ([lcaSol o].map emb)
      (reconcileRun "lca" (dispatch "lca" (kindOf withSyn) sol) ([lcaSol o].map emb) cost enc) := by
  intro emb cost enc
  have hd : dispatch "lca" (kindOf withSyn) sol = .run withSyn none := by
    rcases hsol with rfl | rfl <;> cases withSyn <;> decide
  rw [hd]
  exact C12_col_cost_line_sols_plain render c hnm hcl hS withSyn [lcaSol o] [lcaSol o]
    (lcaSol_mem_rank c o)
    (fun s hs => by rw [List.mem_singleton] at hs; subst hs; exact lcaSol_validRec o)
    (by simp) "lca" withSyn none

/-- **`C12_col_cost_line_spfs`**. -/
theorem C12_col_cost_line_spfs {nm : Naming} {cl : Colouring} {S : RTree} {o : OTree} (c : Costs)
    (hnm : nm.Ok S o) (hcl : cl.Ok S o) (hb : S.isBinary = true)
    (hS : ∀ p ∈ leafSpecies o, S.isNode p = true) (base : Bool) (pre : Option (List Nat)) :
    let emb := embSuperC nm cl id c S o true
    let cost := fun x : SRecOutput => evalSuper x.input.base x.objectSpecies x.syntenies x.ordered
    let enc := fun x : SRecOutput => render (x.toDict Newick.write)
    let all := spfs c S base o pre
    let runAll := reconcileRun (spfsName base) (dispatch (spfsName base) .super "all")
      (all.map emb) cost enc
    (all = [] → runAll.status = 1 ∧ runAll.stdout = "") ∧
    (all ≠ [] → CostLineOK SuperBack c .ordered o all enc (all.map emb) runAll) ∧
    ∀ (P : Picker Nat), P.Ok → C02.OrdersOk o pre → c.spe + 2 * c.sloss ≤ c.dup + 2 * c.floss →
      let any := spfsAny P c S base o pre
      let runAny := reconcileRun (spfsName base) (dispatch (spfsName base) .super "any")
        (any.map emb) cost enc
      (any = [] ↔ all = []) ∧ (all = [] → runAny.status = 1 ∧ runAny.stdout = "") ∧
      (all ≠ [] → CostLineOK SuperBack c .ordered o all enc (any.map emb) runAny) := by
  intro emb cost enc all runAll
  have hd1 : dispatch (spfsName base) .super "all" = .run false (some "ALL") := by
    cases base <;> decide
  have hd2 : dispatch (spfsName base) .super "any" = .run false (some "ANY") := by
    cases base <;> decide
  have hvalid : ∀ s ∈ all, Spec.validRec o s = true := C04.C04_rec_spfs c S base o pre
  refine ⟨fun h => ?_, fun h => ?_, fun P hP hord hcoh => ?_⟩
  · simp only [runAll, h, hd1, List.map_nil]
    exact ⟨(C12_empty_run _ _ _ cost enc).1, (C12_empty_run _ _ _ cost enc).2.1⟩
  · simp only [runAll, hd1]
    exact C12_col_cost_line_sols_super render id (fun _ => List.Perm.refl _) c hnm hcl hS true _
      all (fun s hs => hs) hvalid h (spfsName base) false (some "ALL")
  · intro any runAny
    have hmem := C05.C05_any_mem_spfs P hP c S base o pre hord hb hS hcoh
    have hiff := C05.C05_any_empty_iff_spfs P hP c S base o pre
    refine ⟨hiff, fun h => ?_, fun h => ?_⟩
    · simp only [runAny, any, hiff.mpr h, hd2, List.map_nil]
      exact ⟨(C12_empty_run _ _ _ cost enc).1, (C12_empty_run _ _ _ cost enc).2.1⟩
    · simp only [runAny, hd2]
      exact C12_col_cost_line_sols_super render id (fun _ => List.Perm.refl _) c hnm hcl hS true
        _ any hmem (fun s hs => hvalid s (hmem s hs)) (fun e => h (hiff.mp e)) (spfsName base)
        false (some "ANY")

/-- **`C12_col_cost_line_uspfs`**. -/
theorem C12_col_cost_line_uspfs {nm : Naming} {cl : Colouring} {S : RTree} {o : OTree}
    (arr : List String → List String) (harr : ∀ l, (arr l).Perm l) (c : Costs) (hnm : nm.Ok S o)
    (hcl : cl.Ok S o) (hb : S.isBinary = true) (hS : ∀ p ∈ leafSpecies o, S.isNode p = true)
    (base : Bool) :
    let emb := embSuperC nm cl arr c S o false
    let cost := fun x : SRecOutput => evalSuper x.input.base x.objectSpecies x.syntenies x.ordered
    let enc := fun x : SRecOutput => render (x.toDict Newick.write)
    let all := uspfs c S base o
    CostLineOK SuperBack c .unordered o all enc (all.map emb)
      (reconcileRun (uspfsName base) (dispatch (uspfsName base) .super "all") (all.map emb)
        cost enc) ∧
    ∀ (P : Picker Kind), P.Ok → (∀ f ∈ leafSyntenies o, f ≠ []) →
      c.spe + c.sloss ≤ c.dup + 2 * c.floss →
      CostLineOK SuperBack c .unordered o all enc ((uspfsAny P c S base o).map emb)
        (reconcileRun (uspfsName base) (dispatch (uspfsName base) .super "any")
          ((uspfsAny P c S base o).map emb) cost enc) := by
  intro emb cost enc all
  have hd1 : dispatch (uspfsName base) .super "all" = .run false (some "ALL") := by
    cases base <;> decide
  have hd2 : dispatch (uspfsName base) .super "any" = .run false (some "ANY") := by
    cases base <;> decide
  have hvalid : ∀ s ∈ all, Spec.validRec o s = true := C04.C04_rec_uspfs c S base o
  have hne : all ≠ [] := C05.C05_unord_nonempty c S base o hb hS
  rw [hd1, hd2]
  constructor
  · exact C12_col_cost_line_sols_super render arr harr c hnm hcl hS false _ all
      (fun s hs => hs) hvalid hne (uspfsName base) false (some "ALL")
  · intro P hP hnef hcoh
    have hmem := C05.C05_any_mem_uspfs P hP c S base o hb hS hnef hcoh
    have hiff := C05.C05_any_empty_iff_uspfs P hP c S base o
    exact C12_col_cost_line_sols_super render arr harr c hnm hcl hS false _
      (uspfsAny P c S base o) hmem (fun s hs => hvalid s (hmem s hs)) (fun e => hne (hiff.mp e))
      (uspfsName base) false (some "ANY")

end

/-! ### On the written text (`json.dumps`, `json.loads` of `Model/Json.lean`) -/

theorem C12_col_cost_line_text_thl {nm : Naming} {cl : Colouring} {S : RTree} {o : OTree}
    (c : Costs) (hnm : nm.Ok S o) (hcl : cl.Ok S o) (hb : S.isBinary = true)
    (hS : ∀ p ∈ leafSpecies o, S.isNode p = true) (withSyn : Bool) :
    let emb := embPlainC nm cl c S o withSyn
    let cost := fun x : RecOutput => evalPlain x.input.base x.objectSpecies
    let toD := fun x : RecOutput => x.toDict Newick.write
    let enc := fun x : RecOutput => renderDict (toD x)
    TextLineOK toD PlainDictBack c .plain o (thl c S o) ((thl c S o).map emb)
      (reconcileRun "thl" (dispatch "thl" (kindOf withSyn) "all") ((thl c S o).map emb) cost enc) ∧
    ∀ (P : Picker Unit), P.Ok → c.spe ≤ c.dup + 2 * c.floss →
      TextLineOK toD PlainDictBack c .plain o (thl c S o) ((thlAny P c S o).map emb)
        (reconcileRun "thl" (dispatch "thl" (kindOf withSyn) "any") ((thlAny P c S o).map emb)
          cost enc) := by
  intro emb cost toD enc
  obtain ⟨h1, h2⟩ := C12_col_cost_line_thl renderDict c hnm hcl hb hS withSyn
  exact ⟨C12_text_of_cost_line toD (C12_to_dict_ok_plain _) PlainDictBack _ _ _ _ _ _ h1,
    fun P hP hc => C12_text_of_cost_line toD (C12_to_dict_ok_plain _) PlainDictBack _ _ _ _ _ _
      (h2 P hP hc)⟩

theorem C12_col_cost_line_text_exh {nm : Naming} {cl : Colouring} {S : RTree} {o : OTree}
    (c : Costs) (hnm : nm.Ok S o) (hcl : cl.Ok S o) (hS : ∀ p ∈ leafSpecies o, S.isNode p = true)
    (withSyn : Bool) :
    let emb := embPlainC nm cl c S o withSyn
    let cost := fun x : RecOutput => evalPlain x.input.base x.objectSpecies
    let toD := fun x : RecOutput => x.toDict Newick.write
    let enc := fun x : RecOutput => renderDict (toD x)
    TextLineOK toD PlainDictBack c .plain o (exhaustive c o) ((exhaustive c o).map emb)
      (reconcileRun "exh" (dispatch "exh" (kindOf withSyn) "all") ((exhaustive c o).map emb)
        cost enc) ∧
    ∀ (pick : List Sol → Option Sol), PickOk pick →
      TextLineOK toD PlainDictBack c .plain o (exhaustive c o) ((exhaustiveAny pick c o).map emb)
        (reconcileRun "exh" (dispatch "exh" (kindOf withSyn) "any")
          ((exhaustiveAny pick c o).map emb) cost enc) := by
  intro emb cost toD enc
  obtain ⟨h1, h2⟩ := C12_col_cost_line_exh renderDict c hnm hcl hS withSyn
  exact ⟨C12_text_of_cost_line toD (C12_to_dict_ok_plain _) PlainDictBack _ _ _ _ _ _ h1,
    fun pick hp => C12_text_of_cost_line toD (C12_to_dict_ok_plain _) PlainDictBack _ _ _ _ _ _
      (h2 pick hp)⟩

theorem C12_col_cost_line_text_lca {nm : Naming} {cl : Colouring} {S : RTree} {o : OTree}
    (c : Costs) (hnm : nm.Ok S o) (hcl : cl.Ok S o) (hS : ∀ p ∈ leafSpecies o, S.isNode p = true)
    (withSyn : Bool) (sol : String) (hsol : sol = "any" ∨ sol = "all") :
    let emb := embPlainC nm cl c S o withSyn
    let cost := fun x : RecOutput => evalPlain x.input.base x.objectSpecies
    let toD := fun x : RecOutput => x.toDict Newick.write
    let enc := fun x : RecOutput => renderDict (toD x)
    TextLineOK toD PlainDictBack c .plain o (rankByCost c .plain o [lcaSol o]) ([lcaSol o].map emb)
      (reconcileRun "lca" (dispatch "lca" (kindOf withSyn) sol) ([lcaSol o].map emb) cost enc) := by
  intro emb cost toD enc
  exact C12_text_of_cost_line toD (C12_to_dict_ok_plain _) PlainDictBack _ _ _ _ _ _
    (C12_col_cost_line_lca renderDict c hnm hcl hS withSyn sol hsol)

theorem C12_col_cost_line_text_spfs {nm : Naming} {cl : Colouring} {S : RTree} {o : OTree}
    (c : Costs) (hnm : nm.Ok S o) (hcl : cl.Ok S o) (hb : S.isBinary = true)
    (hS : ∀ p ∈ leafSpecies o, S.isNode p = true) (base : Bool) (pre : Option (List Nat)) :
    let emb := embSuperC nm cl id c S o true
    let cost := fun x : SRecOutput => evalSuper x.input.base x.objectSpecies x.syntenies x.ordered
    let toD := fun x : SRecOutput => x.toDict Newick.write
    let enc := fun x : SRecOutput => renderDict (toD x)
    let all := spfs c S base o pre
    let runAll := reconcileRun (spfsName base) (dispatch (spfsName base) .super "all")
      (all.map emb) cost enc
    (all = [] → runAll.status = 1 ∧ runAll.stdout = "") ∧
    (all ≠ [] → TextLineOK toD SuperDictBack c .ordered o all (all.map emb) runAll) ∧
    ∀ (P : Picker Nat), P.Ok → C02.OrdersOk o pre → c.spe + 2 * c.sloss ≤ c.dup + 2 * c.floss →
      let any := spfsAny P c S base o pre
      let runAny := reconcileRun (spfsName base) (dispatch (spfsName base) .super "any")
        (any.map emb) cost enc
      (any = [] ↔ all = []) ∧ (all = [] → runAny.status = 1 ∧ runAny.stdout = "") ∧
      (all ≠ [] → TextLineOK toD SuperDictBack c .ordered o all (any.map emb) runAny) := by
  intro emb cost toD enc all runAll
  obtain ⟨h1, h2, h3⟩ := C12_col_cost_line_spfs renderDict c hnm hcl hb hS base pre
  refine ⟨h1, fun hne => C12_text_of_cost_line toD (C12_to_dict_ok_super _) SuperDictBack _ _ _ _ _ _
    (h2 hne), fun P hP hord hc => ?_⟩
  obtain ⟨g1, g2, g3⟩ := h3 P hP hord hc
  exact ⟨g1, g2, fun hne => C12_text_of_cost_line toD (C12_to_dict_ok_super _) SuperDictBack
    _ _ _ _ _ _ (g3 hne)⟩

theorem C12_col_cost_line_text_uspfs {nm : Naming} {cl : Colouring} {S : RTree} {o : OTree}
    (arr : List String → List String) (harr : ∀ l, (arr l).Perm l) (c : Costs) (hnm : nm.Ok S o)
    (hcl : cl.Ok S o) (hb : S.isBinary = true) (hS : ∀ p ∈ leafSpecies o, S.isNode p = true)
    (base : Bool) :
    let emb := embSuperC nm cl arr c S o false
    let cost := fun x : SRecOutput => evalSuper x.input.base x.objectSpecies x.syntenies x.ordered
    let toD := fun x : SRecOutput => x.toDict Newick.write
    let enc := fun x : SRecOutput => renderDict (toD x)
    let all := uspfs c S base o
    TextLineOK toD SuperDictBack c .unordered o all (all.map emb)
      (reconcileRun (uspfsName base) (dispatch (uspfsName base) .super "all") (all.map emb)
        cost enc) ∧
    ∀ (P : Picker Kind), P.Ok → (∀ f ∈ leafSyntenies o, f ≠ []) →
      c.spe + c.sloss ≤ c.dup + 2 * c.floss →
      TextLineOK toD SuperDictBack c .unordered o all ((uspfsAny P c S base o).map emb)
        (reconcileRun (uspfsName base) (dispatch (uspfsName base) .super "any")
          ((uspfsAny P c S base o).map emb) cost enc) := by
  intro emb cost toD enc all
  obtain ⟨h1, h2⟩ := C12_col_cost_line_uspfs renderDict arr harr c hnm hcl hb hS base
  exact ⟨C12_text_of_cost_line toD (C12_to_dict_ok_super _) SuperDictBack _ _ _ _ _ _ h1,
    fun P hP hne hc => C12_text_of_cost_line toD (C12_to_dict_ok_super _) SuperDictBack
      _ _ _ _ _ _ (h2 P hP hne hc)⟩

/-! ### `--solutions all` ⊇ `--solutions any`, coloured inputs (no hypothesis on names, colours) -/

theorem C12_col_all_superset_any_thl (render : OutputDict → String) (nm : Naming) (cl : Colouring)
    (c : Costs) (S : RTree) (o : OTree) (hb : S.isBinary = true)
    (hS : ∀ p ∈ leafSpecies o, S.isNode p = true) (withSyn : Bool) (P : Picker Unit) (hP : P.Ok)
    (hcoh : c.spe ≤ c.dup + 2 * c.floss) :
    let enc := fun s => render ((embPlainC nm cl c S o withSyn s).toDict Newick.write)
    ∀ ℓ ∈ (thlAny P c S o).map enc, ℓ ∈ (thl c S o).map enc :=
  C12_lines_mono _ _ _ (C05.C05_any_mem_thl P hP c S o hb hS hcoh)

theorem C12_col_all_superset_any_exh (render : OutputDict → String) (nm : Naming) (cl : Colouring)
    (c : Costs) (S : RTree) (o : OTree) (withSyn : Bool) (pick : List Sol → Option Sol)
    (hp : PickOk pick) :
    let enc := fun s => render ((embPlainC nm cl c S o withSyn s).toDict Newick.write)
    ∀ ℓ ∈ (exhaustiveAny pick c o).map enc, ℓ ∈ (exhaustive c o).map enc :=
  C12_lines_mono _ _ _ (C05.C05_any_mem_exh pick c o hp)

theorem C12_col_all_superset_any_spfs (render : OutputDict → String) (nm : Naming) (cl : Colouring)
    (c : Costs) (S : RTree) (o : OTree) (hb : S.isBinary = true)
    (hS : ∀ p ∈ leafSpecies o, S.isNode p = true) (base : Bool) (pre : Option (List Nat))
    (hord : C02.OrdersOk o pre) (P : Picker Nat) (hP : P.Ok)
    (hcoh : c.spe + 2 * c.sloss ≤ c.dup + 2 * c.floss) :
    let enc := fun s => render ((embSuperC nm cl id c S o true s).toDict Newick.write)
    ∀ ℓ ∈ (spfsAny P c S base o pre).map enc, ℓ ∈ (spfs c S base o pre).map enc :=
  C12_lines_mono _ _ _ (C05.C05_any_mem_spfs P hP c S base o pre hord hb hS hcoh)

theorem C12_col_all_superset_any_uspfs (render : OutputDict → String) (nm : Naming) (cl : Colouring)
    (arr : List String → List String) (c : Costs) (S : RTree) (o : OTree)
    (hb : S.isBinary = true) (hS : ∀ p ∈ leafSpecies o, S.isNode p = true) (base : Bool)
    (hne : ∀ f ∈ leafSyntenies o, f ≠ []) (P : Picker Kind) (hP : P.Ok)
    (hcoh : c.spe + c.sloss ≤ c.dup + 2 * c.floss) :
    let enc := fun s => render ((embSuperC nm cl arr c S o false s).toDict Newick.write)
    ∀ ℓ ∈ (uspfsAny P c S base o).map enc, ℓ ∈ (uspfs c S base o).map enc :=
  C12_lines_mono _ _ _ (C05.C05_any_mem_uspfs P hP c S base o hb hS hne hcoh)

/-! ### Non-vacuity -/

/-- Reviewer's example: the node `O0 = (x_1, x_2)` coloured `0000FF`, the species `S1` coloured
    `red`, on the example input of `C12Bridge.lean`. -/
def exColouring : Colouring :=
  { scol := fun p => if p = [1] then some "red" else none
    ocol := fun p => if p = [0] then some "0000FF" else none }

theorem exColouring_ok : exColouring.Ok exS exO where
  sSafe := by decide
  oSafe := by decide

/-- The colour is in the written text: the coloured embedding is NOT the uncoloured one, and the
    Newick string handed to `json.dump` carries `[&&NHX:color=0000FF]` on `O0`. -/
theorem C12_col_written_colour :
    (thl exCosts exS exO).map (fun s =>
      ((embPlainC exNaming exColouring exCosts exS exO true s).toDict Newick.write).input.object_tree)
      = ["((S0_00,(S0_010,S0_011)O01)O0[&&NHX:color=0000FF],S1_1)OR;"] ∧
    (thl exCosts exS exO).map (fun s =>
      ((embPlainC exNaming exColouring exCosts exS exO true s).toDict Newick.write).input.species_tree)
      = ["(S0,S1[&&NHX:color=red])SR;"] := by
  decide +kernel

example (render : OutputDict → String) :
    ∃ k, ∀ x ∈ (thl exCosts exS exO).map (embPlainC exNaming exColouring exCosts exS exO true),
      PlainBack x k := by
  obtain ⟨k, _, _, _, _, h⟩ := (C12_col_cost_line_thl render exCosts exNaming_ok exColouring_ok
    (by decide) (by decide) true).1
  exact ⟨k, h⟩

example (render : OutputDict → String) :
    ∃ k, ∀ x ∈ (uspfs exCosts exS false exO).map
        (embSuperC exNaming exColouring id exCosts exS exO false), SuperBack x k := by
  obtain ⟨k, _, _, _, _, h⟩ := (C12_col_cost_line_uspfs render id
    (fun _ => List.Perm.refl _) exCosts exNaming_ok exColouring_ok (by decide) (by decide) false).1
  exact ⟨k, h⟩

end SR.C12
