/-
  C05, policy ANY, `reconcile_exhaustive`.

  `reconcile_exhaustive` has no table: under ANY the policy reaches only the result entry,
  which is offered every output of `generate_all` with its evaluated cost and keeps ONE of
  minimum cost (`exhaustiveAny`, `Model/AnyMulti.lean`: `rankAny pick … (generateAll o)`).
  Which one depends on the enumeration order, so the theorems hold for EVERY valid
  selection function `pick` (`PickOk`: returns a member, fails only on the empty list);
  the code's own rule — `Entry.update` under MIN / ANY folded over the outputs,
  `exhaustiveAnyCode` — is the instance `List.head?` (`C05_any_exh_code`).

  For EVERY cost vector (no coherence hypothesis: the exhaustive solver ranks by the
  evaluated cost, there is no table value that could disagree with it):
  * `C05_any_card_exh`       at most one output;
  * `C05_any_total_exh`      exactly one (the enumeration is never empty);
  * `C05_any_mem_exh`        it is a member of the ALL result `exhaustive c o`;
  * `C05_any_empty_iff_exh`  the ANY result is empty iff the ALL result is (both never are);
  * `C05_any_same_cost_exh`  it has the cost of every ALL output;
  * `C05_any_opt_exh`        hence it is a valid reconciliation and no valid
                             reconciliation over any species tree is cheaper (`C01_exh`);
  * `C05_any_exh_mem_thl`    inside `thl`'s coherent region it is one of `reconcile_thl`'s
                             ALL outputs, too (`C01_thl_eq_exhaustive`).
-/
import SRVerif.Model.AnyMulti
import SRVerif.Proofs.LabelDPAnyRank
import SRVerif.Properties.C01Enum
import SRVerif.Properties.C01Thl
import SRVerif.Properties.C05

namespace SR.C05

open SR Cost

section exh

variable (pick : List Sol → Option Sol) (c : Costs) (o : OTree)

/-- At most one output. -/
theorem C05_any_card_exh : (exhaustiveAny pick c o).length ≤ 1 :=
  rankAny_length_le _ _ _ _ _

variable (hp : PickOk pick)
include hp

/-- **`any` ∈ `all`** for the exhaustive solver: every cost vector, every offering order. -/
theorem C05_any_mem_exh : ∀ s ∈ exhaustiveAny pick c o, s ∈ exhaustive c o :=
  fun _ h => rankAny_sub pick c .plain o hp h

/-- Empty results coincide. -/
theorem C05_any_empty_iff_exh : exhaustiveAny pick c o = [] ↔ exhaustive c o = [] := by
  unfold exhaustiveAny exhaustive
  rw [rankAny_eq_nil_iff pick c .plain o hp, C05_empty_iff]

/-- Exactly one output: `generate_all` always yields a reconciliation. -/
theorem C05_any_total_exh : (exhaustiveAny pick c o).length = 1 := by
  apply rankAny_length_eq pick c .plain o hp
  intro h
  exact C01.C01_exh_nonempty c o ((C05_empty_iff c .plain o _).mpr h)

/-- Both policies agree on the cost. -/
theorem C05_any_same_cost_exh : ∀ s ∈ exhaustiveAny pick c o, ∀ s' ∈ exhaustive c o,
    totalCost c .plain o s = totalCost c .plain o s' :=
  fun s h s' h' => C05_same_cost c .plain o _ s s' (C05_any_mem_exh pick c o hp s h) h'

/-- Hence the single ANY output is a valid reconciliation of minimum cost — for every
    cost vector and whatever species tree the mappings range over. -/
theorem C05_any_opt_exh (S : RTree) : ∀ s ∈ exhaustiveAny pick c o,
    Spec.validRec o s = true ∧
    ∀ s', Spec.validRec o s' = true → s' ∈ Spec.allMappings S o →
      Cost.le (totalCost c .plain o s) (totalCost c .plain o s') = true :=
  fun s h => C01.C01_exh c S o s (C05_any_mem_exh pick c o hp s h)

end exh

/-- The rule of the code is the selection function `head?`: folding `Entry.update` under
    MIN / ANY over the enumerated outputs (`exhaustiveAnyCode`) keeps at most one output, a
    member of the ALL result, and keeps none only if the ALL result is empty. -/
theorem C05_any_exh_code (c : Costs) (o : OTree) :
    (exhaustiveAnyCode c o).length ≤ 1 ∧
    (∀ s ∈ exhaustiveAnyCode c o, s ∈ exhaustive c o) ∧
    (exhaustiveAnyCode c o = [] ↔ exhaustive c o = []) := by
  have hcode : exhaustiveAnyCode c o =
      ((Agg.ofList ((generateAll o).map (fun s => (totalCost c .plain o s, s)))).tags.head?).toList := by
    unfold exhaustiveAnyCode
    rw [Agg.ofList_updateAny]; rfl
  obtain ⟨_, htags, _⟩ := Agg.ofList_spec ((generateAll o).map (fun s => (totalCost c .plain o s, s)))
  have hmap : ((generateAll o).map (fun s => (totalCost c .plain o s, s))).map (·.1) =
      (generateAll o).map (totalCost c .plain o) := by
    rw [List.map_map]; rfl
  rw [hmap] at htags
  -- the ALL tags are exactly the members of the ALL result
  have hiff : ∀ t, t ∈ (Agg.ofList ((generateAll o).map (fun s => (totalCost c .plain o s, s)))).tags ↔
      t ∈ exhaustive c o := by
    intro t
    rw [htags t]
    simp only [exhaustive, rankByCost, mem_dedup, List.mem_filter, decide_eq_true_eq,
      List.mem_map]
    constructor
    · rintro ⟨p, ⟨s, hs, rfl⟩, rfl, hc⟩; exact ⟨hs, hc⟩
    · rintro ⟨hs, hc⟩; exact ⟨_, ⟨t, hs, rfl⟩, rfl, hc⟩
  rw [hcode]
  refine ⟨by cases List.head? _ <;> simp, ?_, ?_⟩
  · intro s hs
    rw [Option.mem_toList] at hs
    exact (hiff s).mp (List.mem_of_mem_head? hs)
  · constructor
    · intro h
      apply List.eq_nil_iff_forall_not_mem.mpr
      intro t ht
      have ht' := (hiff t).mpr ht
      cases hl : (Agg.ofList ((generateAll o).map (fun s => (totalCost c .plain o s, s)))).tags with
      | nil => rw [hl] at ht'; cases ht'
      | cons x xs => rw [hl] at h; simp at h
    · intro h
      cases hl : (Agg.ofList ((generateAll o).map (fun s => (totalCost c .plain o s, s)))).tags with
      | nil => simp
      | cons x xs =>
        have : x ∈ exhaustive c o := (hiff x).mp (by rw [hl]; simp)
        rw [h] at this; cases this

/-- Inside `reconcile_thl`'s coherent region, on a well-formed input, the single output of
    `reconcile_exhaustive` under ANY is also one of the outputs of `reconcile_thl` under
    ALL (the two ALL results are the same set). -/
theorem C05_any_exh_mem_thl (pick : List Sol → Option Sol) (hp : PickOk pick) (c : Costs)
    (S : RTree) (o : OTree) (hb : S.isBinary = true)
    (hS : ∀ p ∈ leafSpecies o, S.isNode p = true) (hcoh : c.spe ≤ c.dup + 2 * c.floss) :
    ∀ s ∈ exhaustiveAny pick c o, s ∈ thl c S o := by
  intro s hs
  exact (C01.C01_thl_eq_exhaustive c S o hb hS hcoh s).mpr (C05_any_mem_exh pick c o hp s hs)

/-! ### Non-vacuity -/

/-- Five co-optimal reconciliations: two valid selection rules return two DIFFERENT members
    of the ALL result; the code's rule returns the first. -/
example :
    let c : Costs := { spe := 1, dup := 1, hgt := .fin 1, floss := 1, sloss := 1 }
    let o : OTree := .node (.node (.leaf [0, 0] []) (.leaf [1] [])) (.leaf [0, 1] [])
    (exhaustive c o).length = 5 ∧
    (exhaustiveAny List.head? c o).length = 1 ∧ (exhaustiveAny List.getLast? c o).length = 1 ∧
    exhaustiveAny List.head? c o ≠ exhaustiveAny List.getLast? c o ∧
    (∀ s ∈ exhaustiveAny List.head? c o, s ∈ exhaustive c o) ∧
    (∀ s ∈ exhaustiveAny List.getLast? c o, s ∈ exhaustive c o) ∧
    exhaustiveAnyCode c o = exhaustiveAny List.head? c o := by
  decide +kernel

/-- An INCOHERENT cost vector (the F-COHERENCE witness of `C05_any_incoherent_witness`, where
    `reconcile_thl` under ANY returns a non-optimal output): the exhaustive solver under ANY
    still returns a member of its ALL result. -/
example :
    let c : Costs := { spe := 3, dup := 0, hgt := .fin 2, floss := 1, sloss := 0 }
    let o : OTree := .node (.node (.leaf [0, 1] []) (.leaf [0, 0] []))
      (.node (.leaf [1, 1] []) (.leaf [1, 0] []))
    ¬ c.spe ≤ c.dup + 2 * c.floss ∧
    (∀ s ∈ exhaustiveAny List.head? c o, s ∈ exhaustive c o ∧ totalCost c .plain o s = .fin 6) ∧
    (exhaustiveAny List.head? c o).length = 1 := by
  decide +kernel

end SR.C05
