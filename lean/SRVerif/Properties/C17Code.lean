/-
  C17 — Ancestry queries on trees are exact: the range-minimum clauses of
  `Properties/C17.lean`, restated for the functions that `harness/translate_py.py`
  GENERATES from the text of `superrec2/utils/range_min_query.py` on every run
  (`SRVerif/Generated/RmqPy.lean`, namespace `SR.Gen.Rmq`: `_ilog2`, the
  structure `RangeMinQuery` with `RangeMinQuery.__init__` / `RangeMinQuery.__call__`).

  The bridge is `SRVerif/Generated/RmqPyEquiv.lean` (`gen_*_eq_model`, proved for
  all inputs in `SRVerif/Proofs/RmqPyEquiv.lean` by loop invariants over levels
  and positions of the sparse table).  A generated function returns
  `Except Py.Err ρ`; `.error e` means that the Python function raises `e`, so
  `… = .ok v` also says "does not raise" — no `IndexError` from an item
  assignment or a (possibly negative, wrapping) index, no `AssertionError` from
  `assert … is not None`, no `TypeError` from `min` on a `None` cell or from the
  elements' own `<`, and never the marker `OutOfSubset` (`2 ** negative`).

  The element type is opaque: the generated functions take `Element.__lt__` as
  the parameter `lt_ : α → α → Except Py.Err Bool`.  `codeLt α` instantiates it
  with the `<` of a linear order; `liftLt entryLt` with Python's comparison of
  `(level, node)` tuples, which raises when it would have to order two nodes.

  This module is built and audited only when the translator tie is available
  (`"translator_tie": "ok (sha256 …)"` in the evidence); otherwise the check
  falls back to the correspondence of the hand-written model with the running
  code and these theorems are not counted.

  Recorded scope of the translation: `start`, `stop` are Python ints (`Int`);
  the theorems below are about `0 ≤ start`, `stop ≤ len(data)` (natural numbers
  cast to `Int`).  Outside, the generated `__call__` still describes what Python
  does (negative indices wrap around), but nothing is claimed about it.
-/
import SRVerif.Properties.C17
import SRVerif.Generated.RmqPyEquiv

namespace SR.C17

open SR.Lca SR.Py SR.Gen.Rmq SR.RmqBridge

variable {α : Type}

/-! ### The tie itself -/

/-- `<` of a linearly ordered element type as the `lt_` parameter of the
    generated functions: it never raises. -/
def codeLt (α : Type) [LinearOrder α] : α → α → Except Py.Err Bool := liftLt (ordLt α)

theorem C17_code_codeLt [LinearOrder α] (a b : α) : codeLt α a b = .ok (decide (a < b)) := rfl

/-- The generated functions compute exactly what the hand-written model computes,
    exceptions included: `_ilog2` on positive ints; `__init__` builds the model's
    table cell by cell for every list and every comparison (raising ones
    included; the empty list raises `IndexError`); `__call__` on non-negative
    bounds is the model's query on ANY table; construction followed by a query
    is the model's `rmq`. -/
theorem C17_code_tie :
    (∀ n : Nat, 0 < n → _ilog2 (n : Int) = .ok ((Lca.ilog2 n : Nat) : Int)) ∧
    (∀ (lt : Lt α) (data : List α),
      RangeMinQuery.__init__ (liftLt lt) data
        = (match Lca.build lt data with
           | .error e => .error (toPy e)
           | .ok tbl => .ok { sparse_table := tbl })) ∧
    (∀ (lt : Lt α) (self : RangeMinQuery α) (start stop : Nat),
      RangeMinQuery.__call__ (liftLt lt) self (start : Int) (stop : Int)
        = conv (Lca.query lt self.sparse_table start stop)) ∧
    (∀ (lt : Lt α) (data : List α) (start stop : Nat),
      (match RangeMinQuery.__init__ (liftLt lt) data with
       | .error e => .error e
       | .ok self => RangeMinQuery.__call__ (liftLt lt) self (start : Int) (stop : Int))
        = modelRmq lt data start stop) :=
  ⟨gen_ilog2_eq_model, gen_init_eq_model, gen_call_eq_model, gen_rmq_eq_model⟩

/-- Transfer: whenever the model's `rmq` answers (does not raise), so does the
    generated code — construction succeeds and the query on the constructed
    object returns the same answer. -/
theorem C17_code_of_model (lt : Lt α) (data : List α) (start stop : Nat) (r : Option α)
    (h : rmq lt data start stop = .ok r) :
    ∃ self, RangeMinQuery.__init__ (liftLt lt) data = .ok self ∧
      RangeMinQuery.__call__ (liftLt lt) self (start : Int) (stop : Int) = .ok r := by
  unfold rmq at h
  cases hb : Lca.build lt data with
  | error e => simp [hb] at h
  | ok tbl =>
    simp only [hb] at h
    refine ⟨⟨tbl⟩, ?_, ?_⟩
    · rw [gen_init_eq_model, hb]
    · rw [gen_call_eq_model, h]; rfl

example : ∃ self, RangeMinQuery.__init__ (codeLt Nat) [3, 1, 5, 3, 4, 7, 6, 1] = .ok self ∧
    RangeMinQuery.__call__ (codeLt Nat) self 2 7 = .ok (some 3) :=
  C17_code_of_model (ordLt Nat) _ 2 7 _ (by decide)

/-! ### Range-minimum queries -/

/-- A query on a non-empty range inside the array: construction and query do
    not raise, and the answer is an element of exactly `data[start:stop]` that
    is below every element of it — its minimum. -/
theorem C17_code_rmq [LinearOrder α] (data : List α) (start stop : Nat)
    (h1 : start < stop) (h2 : stop ≤ data.length) :
    ∃ self m, RangeMinQuery.__init__ (codeLt α) data = .ok self ∧
      RangeMinQuery.__call__ (codeLt α) self (start : Int) (stop : Int) = .ok (some m) ∧
      m ∈ slice data start stop ∧ ∀ x ∈ slice data start stop, m ≤ x := by
  obtain ⟨m, hq, hm, hle⟩ := C17_rmq data start stop h1 h2
  obtain ⟨self, hi, hc⟩ := C17_code_of_model (ordLt α) data start stop _ hq
  exact ⟨self, m, hi, hc, hm, hle⟩

example : slice [3, 1, 5, 3, 4, 7, 6, 1] 2 7 = [5, 3, 4, 7, 6] := by decide

/-- The same in terms of `List.min?`: the query is the minimum of the slice. -/
theorem C17_code_rmq_min [LinearOrder α] (data : List α) (start stop : Nat)
    (h1 : start < stop) (h2 : stop ≤ data.length) :
    ∃ self, RangeMinQuery.__init__ (codeLt α) data = .ok self ∧
      RangeMinQuery.__call__ (codeLt α) self (start : Int) (stop : Int)
        = .ok ((slice data start stop).min?) :=
  C17_code_of_model (ordLt α) data start stop _ (C17_rmq_min data start stop h1 h2)

example : ∃ self, RangeMinQuery.__init__ (codeLt Nat) [3, 1, 5, 3, 4, 7, 6, 1] = .ok self ∧
    RangeMinQuery.__call__ (codeLt Nat) self 2 7
      = .ok ((slice [3, 1, 5, 3, 4, 7, 6, 1] 2 7).min?) :=
  C17_code_rmq_min _ 2 7 (by decide) (by decide)

/-- An empty range (`start ≥ stop`) yields `None`, whatever the bounds. -/
theorem C17_code_rmq_empty [LinearOrder α] (data : List α) (start stop : Nat)
    (hne : data ≠ []) (h : stop ≤ start) :
    ∃ self, RangeMinQuery.__init__ (codeLt α) data = .ok self ∧
      RangeMinQuery.__call__ (codeLt α) self (start : Int) (stop : Int) = .ok none :=
  C17_code_of_model (ordLt α) data start stop _ (C17_rmq_empty data start stop hne h)

example : ∃ self, RangeMinQuery.__init__ (codeLt Nat) [3, 1, 5] = .ok self ∧
    RangeMinQuery.__call__ (codeLt Nat) self 2 1 = .ok none :=
  C17_code_rmq_empty _ 2 1 (by decide) (by decide)

/-- `None` is returned exactly for the empty ranges: for bounds inside a
    non-empty array the constructed object answers `None` iff `stop ≤ start`. -/
theorem C17_code_rmq_none_iff [LinearOrder α] (data : List α) (start stop : Nat)
    (hne : data ≠ []) (h2 : stop ≤ data.length) :
    ∃ self, RangeMinQuery.__init__ (codeLt α) data = .ok self ∧
      (RangeMinQuery.__call__ (codeLt α) self (start : Int) (stop : Int) = .ok none ↔ stop ≤ start) := by
  by_cases h : stop ≤ start
  · obtain ⟨self, hi, hc⟩ := C17_code_rmq_empty data start stop hne h
    exact ⟨self, hi, by simp [hc, h]⟩
  · obtain ⟨self, m, hi, hc, _⟩ := C17_code_rmq data start stop (by omega) h2
    refine ⟨self, hi, ?_⟩
    rw [hc]
    simp [h]

example : ∃ self, RangeMinQuery.__init__ (codeLt Nat) [3, 1, 5] = .ok self ∧
    (RangeMinQuery.__call__ (codeLt Nat) self 1 3 = .ok none ↔ 3 ≤ 1) :=
  C17_code_rmq_none_iff _ 1 3 (by decide) (by decide)

/-- Recorded behaviour of the code on the empty array: `levels = 0`, the table
    has no row, `self.sparse_table[0] = …` raises `IndexError` (whatever the
    comparison). -/
theorem C17_code_init_empty (lt : Lt α) :
    RangeMinQuery.__init__ (liftLt lt) ([] : List α) = .error .IndexError := by
  rw [gen_init_eq_model]
  rfl

/-- For a comparison that orders the elements by a key into a linear order
    (ties allowed): the answer is a key-minimal element of the range. -/
theorem C17_code_rmq_key {κ : Type} [LinearOrder κ] (key : α → κ) (lt : α → α → Bool)
    (hlt : ∀ a b, lt a b = decide (key a < key b)) (data : List α) (start stop : Nat)
    (h1 : start < stop) (h2 : stop ≤ data.length) :
    ∃ self m, RangeMinQuery.__init__ (liftLt (totalLt lt)) data = .ok self ∧
      RangeMinQuery.__call__ (liftLt (totalLt lt)) self (start : Int) (stop : Int) = .ok (some m) ∧
      m ∈ slice data start stop ∧ ∀ x ∈ slice data start stop, key m ≤ key x := by
  obtain ⟨m, hq, hm, hle⟩ := C17_rmq_key key lt hlt data start stop h1 h2
  obtain ⟨self, hi, hc⟩ := C17_code_of_model (totalLt lt) data start stop _ hq
  exact ⟨self, m, hi, hc, hm, hle⟩

/-- Tuples `(level, id)` of integers under Python's lexicographic comparison. -/
theorem C17_code_rmq_pairs (data : List (Int × Int)) (start stop : Nat)
    (h1 : start < stop) (h2 : stop ≤ data.length) :
    ∃ self m, RangeMinQuery.__init__ (liftLt pairLt) data = .ok self ∧
      RangeMinQuery.__call__ (liftLt pairLt) self (start : Int) (stop : Int) = .ok (some m) ∧
      m ∈ slice data start stop ∧
      ∀ x ∈ slice data start stop, m.1 < x.1 ∨ (m.1 = x.1 ∧ m.2 ≤ x.2) := by
  obtain ⟨m, hq, hm, hle⟩ := C17_rmq_pairs data start stop h1 h2
  obtain ⟨self, hi, hc⟩ := C17_code_of_model pairLt data start stop _ hq
  exact ⟨self, m, hi, hc, hm, hle⟩

example : ∃ self, RangeMinQuery.__init__ (liftLt pairLt) [(1, 2), (0, 3), (0, 1)] = .ok self ∧
    RangeMinQuery.__call__ (liftLt pairLt) self 0 3 = .ok (some (0, 1)) :=
  C17_code_of_model pairLt _ 0 3 _ (by decide)

/-! ### The sparse table over the Euler tour never orders two nodes -/

/-- Python's `(level, node) < (level, node)` as the `lt_` parameter: it raises
    `TypeError` exactly when the levels are equal and the nodes distinct
    (`TreeNode < TreeNode`). -/
theorem C17_code_entryLt_raises_iff (a b : TourEntry) :
    liftLt entryLt a b = .error .TypeError ↔ (a.1 = b.1 ∧ a.2 ≠ b.2) := by
  unfold liftLt entryLt
  by_cases h1 : a.1 = b.1 <;> by_cases h2 : a.2 = b.2 <;> simp [h1, h2, conv, toPy]

/-- The generated constructor run on the Euler tour of ANY tree, with the
    comparison that raises on two distinct nodes of equal level, does not raise
    (the generated code propagates every exception of `lt_`, so `.ok` means no
    such comparison was evaluated), and every in-range query on the constructed
    object returns an entry of the range of minimal level. -/
theorem C17_code_no_node_cmp (t : RTree) :
    ∃ self, RangeMinQuery.__init__ (liftLt entryLt) (eulerTour t) = .ok self ∧
      ∀ start stop : Nat, start < stop → stop ≤ (eulerTour t).length →
        ∃ m, RangeMinQuery.__call__ (liftLt entryLt) self (start : Int) (stop : Int) = .ok (some m) ∧
          m ∈ slice (eulerTour t) start stop ∧ ∀ e ∈ slice (eulerTour t) start stop, m.1 ≤ e.1 := by
  obtain ⟨tbl, hb, hq⟩ := (C17_no_node_cmp t).2
  refine ⟨⟨tbl⟩, by rw [gen_init_eq_model, hb], ?_⟩
  intro start stop h1 h2
  obtain ⟨m, hm, hmem, hmin⟩ := hq start stop h1 h2
  exact ⟨m, by rw [gen_call_eq_model, hm]; rfl, hmem, hmin⟩

example : ∃ self, RangeMinQuery.__init__ (liftLt entryLt) (eulerTour exTree) = .ok self ∧
    RangeMinQuery.__call__ (liftLt entryLt) self 3 12 = .ok (some (0, [])) :=
  C17_code_of_model entryLt _ 3 12 _ (by decide)

end SR.C17
