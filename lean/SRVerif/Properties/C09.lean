/-
  C09 — Results do not depend on presentation and respond sanely to the costs.

  Renaming and re-running are identities in a model that has neither names
  nor state; they are decided by the correspondence (the implementation is run
  on renamed / reordered / repeated variants and each canonical result must be
  the single model result).  The statements below concern what the model can
  carry.
-/
import SRVerif.Proofs.Cost
import SRVerif.Spec.Opt

namespace SR.C09

open SR

/-- Scale every unit cost by `k`. -/
def Costs.scale (k : Nat) (c : Costs) : Costs :=
  { spe := k * c.spe, dup := k * c.dup, hgt := Cost.scale k c.hgt, floss := k * c.floss,
    sloss := k * c.sloss }

/-- Full statement of the cost clauses at the level of the specification's
    optimum: scaling by `k > 0` scales the optimum and keeps the optimal set;
    raising one unit cost never lowers the optimum. -/
def C09_scale_statement : Prop :=
  ∀ (c : Costs) (S : RTree) (mode : LabelMode) (o : OTree) (k : Nat), 0 < k →
    (Spec.optimum (Costs.scale k c) S mode false true o none).1
        = Cost.scale k (Spec.optimum c S mode false true o none).1 ∧
    ∀ s, s ∈ (Spec.optimum (Costs.scale k c) S mode false true o none).2 ↔
         s ∈ (Spec.optimum c S mode false true o none).2

def C09_mono_statement : Prop :=
  ∀ (c c' : Costs) (S : RTree) (mode : LabelMode) (o : OTree),
    c.spe ≤ c'.spe → c.dup ≤ c'.dup → Cost.le c.hgt c'.hgt = true → c.floss ≤ c'.floss →
    c.sloss ≤ c'.sloss →
    Cost.le (Spec.optimum c S mode false false o none).1 (Spec.optimum c' S mode false false o none).1 = true

/-- The result entry is order-free: it depends only on the SET of candidates,
    not on the order in which traversals produce them. -/
theorem C09_rank_order_free (c : Costs) (mode : LabelMode) (o : OTree) (l l' : List Sol)
    (h : ∀ s, s ∈ l ↔ s ∈ l') (s : Sol) :
    s ∈ rankByCost c mode o l ↔ s ∈ rankByCost c mode o l' := by
  simp only [mem_rankByCost]
  constructor
  · rintro ⟨hs, hmin⟩
    exact ⟨(h s).mp hs, fun s' hs' => hmin s' ((h s').mpr hs')⟩
  · rintro ⟨hs, hmin⟩
    exact ⟨(h s).mpr hs, fun s' hs' => hmin s' ((h s').mp hs')⟩

example : C09_rank_order_free = C09_rank_order_free := rfl

end SR.C09
