/-
  C02 / C04 / C05 for the ordered solvers (`spfs`: base and extended), as far as
  the label DP theory reaches.

  Input guards.  `OrdersOk o pre`: every root order tried is duplicate-free and has
  every leaf synteny as a non-empty subsequence (`C02_orders_ok`: automatic without a
  prescribed order when the leaf syntenies are non-empty; with a prescribed order it
  must be a duplicate-free common supersequence).  Species: `S` binary, leaf species
  are nodes of `S`.  Coherent region: `spe + 2·sloss ≤ dup + 2·floss`.

  Proved, for unbounded inputs:
  * `C02_cell_sound`   every solution decoded from a root cell is a valid
      reconciliation whose root synteny is the root order and whose EVALUATED total
      cost (`totalCost … .ordered`, i.e. `_cost_rec` + `_ordered_labeling_cost`) is
      finite — all unit costs, `sloss = 0` included; coherent: it is at most the
      cell value;
  * `C02_spfs_finite`  hence every returned solution is a valid reconciliation of
      finite evaluated cost (C04, reconciliation + cost clauses);
  * `C02_cell_labels`, `C02_spfs_valid`  the label clauses: every returned solution
      satisfies the whole of `Spec.validSol .ordered` (C04 for the ordered solvers);
  * `C02_spfs_opt_masks`  optimality: inside the coherent region no mask labelling
      (any species mapping over `S` — or the LCA mapping for `base` —, any root order
      tried, any masks with non-empty content and complete root) has a smaller
      evaluated total cost than a returned solution;
  * `C02_spfs_all_masks`  completeness (C05): every such labelling of minimum
      evaluated cost is returned.
  * `C02_spfs_le_optimum`, `C02_spfs`, `C02_spfs_none`  = `C02_ext_statement` /
      `C02_base_statement` of `C02.lean` under the input guards: every returned
      solution is valid and costs at most `Spec.optimum` (the oracle: tree recursion
      over SEQUENCE labellings with the evaluator's local cost).
  Not proved: the oracle's own adequacy (`Spec.optimum` ≤ cost of every `validSol`
  solution, DESIGN 6.3 `naive_value`), i.e. the direct statement "no valid
  sequence-labelled solution is cheaper"; `C02_spfs_opt_masks` is that statement for
  mask labellings.  `C02_ext_statement` as written in `C02.lean` has no guards and is
  not provable in that form (non-binary `S`, prescribed orders with repetitions …).
-/
import SRVerif.Proofs.LabelDPOrdOpt

namespace SR.C02

open SR Cost

/-- Every root order tried is duplicate-free and contains every leaf synteny as a
    non-empty subsequence. -/
def OrdersOk (o : OTree) (pre : Option (List Nat)) : Prop :=
  ∀ order ∈ rootOrders o pre, order.Nodup ∧ LeavesOk order o

theorem C02_orders_ok (o : OTree) (hne : ∀ f ∈ leafSyntenies o, f ≠ []) : OrdersOk o none :=
  rootOrders_ok o hne

theorem C02_orders_ok_prescribed (o : OTree) (r : List Nat) (hnd : r.Nodup)
    (h : ∀ f ∈ leafSyntenies o, f ≠ [] ∧ f.Sublist r) : OrdersOk o (some r) :=
  rootOrders_ok_prescribed o r hnd h

variable (c : Costs) (S : RTree) (base : Bool) (o : OTree)

theorem mem_spfsCellsFor {keep : Bool} {order : List Nat} {d : DCell Nat} :
    d ∈ spfsCellsFor c S base keep o order ↔
      d ∈ dpTable (ordAlg c) c S keep (annOrd S base order true o) ∧
        d.lab = 2 ^ order.length - 1 := by
  simp [spfsCellsFor, List.mem_filter]

/-- **Soundness of decoding, against the evaluator.** -/
theorem C02_cell_sound {order : List Nat} (hnd : order.Nodup) (hlv : LeavesOk order o) :
    ∀ d ∈ spfsCellsFor c S base true o order, ∀ ls ∈ d.sols,
      Spec.validRec o (ordSol order ls) = true ∧
      (ordSol order ls).fam = order ∧
      totalCost c .ordered o (ordSol order ls) =
        labCost (ordAlg c) c (annOrd S base order true o) ls ∧
      totalCost c .ordered o (ordSol order ls) ≠ .inf ∧
      (c.spe + 2 * c.sloss ≤ c.dup + 2 * c.floss →
        Cost.le (totalCost c .ordered o (ordSol order ls)) d.cost = true) := by
  intro d hd ls hls
  obtain ⟨hd, hlab⟩ := (mem_spfsCellsFor c S base o).mp hd
  have hX : c.spe + 2 * c.sloss ≤ c.dup + 2 * c.floss + (c.spe + 2 * c.sloss) := by omega
  obtain ⟨adm, _, hl, hv, hle⟩ := dp_sound (ordAlg c) c S (ord_slack c) hX _ d hd ls hls
  have hfin : labCost (ordAlg c) c (annOrd S base order true o) ls ≠ .inf := by
    obtain ⟨n, hn⟩ := ne_inf_iff.mp (dp_finite (ordAlg c) c S true _ hd)
    rw [hn] at hle
    intro e; rw [e] at hle; simp at hle
  have hnz := nz_of_finite c S base order o hlv true ls adm hfin
  have hroot : ls.lab = 2 ^ order.length - 1 := by rw [hl, hlab]
  have hbridge := totalCost_ordSol c S base hnd o ls adm hnz hroot
  refine ⟨validRec_ordSol c S base order o true ls adm hv, ?_, hbridge, by rw [hbridge]; exact hfin, ?_⟩
  · rw [ordSol_fam, hroot]
    have := SubseqProofs.roundtrip_seq order order (List.Sublist.refl _)
    rw [SubseqProofs.mask_self] at this
    unfold subseqComplete at this
    rw [this]; rfl
  · intro hcoh
    have hX0 : c.spe + 2 * c.sloss ≤ c.dup + 2 * c.floss + 0 := by omega
    obtain ⟨_, _, _, _, hle0⟩ := dp_sound (ordAlg c) c S (ord_slack c) hX0 _ d hd ls hls
    rw [hbridge]; simpa using hle0

theorem mem_spfs (pre : Option (List Nat)) (sol : Sol) :
    sol ∈ spfs c S base o pre ↔
      (∃ order ∈ rootOrders o pre, ∃ d ∈ spfsCellsFor c S base true o order, ∃ ls ∈ d.sols,
        ordSol order ls = sol) ∧
      ∀ order' ∈ rootOrders o pre, ∀ d' ∈ spfsCellsFor c S base true o order', ∀ ls' ∈ d'.sols,
        Cost.le (totalCost c .ordered o sol) (totalCost c .ordered o (ordSol order' ls')) = true := by
  unfold spfs
  simp only [mem_rankByCost, List.mem_flatMap, List.mem_map]
  constructor
  · rintro ⟨⟨order, ho, d, hd, ls, hls, rfl⟩, hmin⟩
    exact ⟨⟨order, ho, d, hd, ls, hls, rfl⟩,
      fun order' ho' d' hd' ls' hls' => hmin _ ⟨order', ho', d', hd', ls', hls', rfl⟩⟩
  · rintro ⟨⟨order, ho, d, hd, ls, hls, rfl⟩, hmin⟩
    refine ⟨⟨order, ho, d, hd, ls, hls, rfl⟩, ?_⟩
    rintro s' ⟨order', ho', d', hd', ls', hls', rfl⟩
    exact hmin order' ho' d' hd' ls' hls'

/-- **C04 (reconciliation and cost clauses) for the ordered solvers**: every returned
    solution is a valid reconciliation whose evaluated total cost is finite, and its
    root synteny is one of the root orders — for all unit costs. -/
theorem C02_spfs_finite (pre : Option (List Nat)) (hord : OrdersOk o pre) :
    ∀ sol ∈ spfs c S base o pre,
      Spec.validRec o sol = true ∧ sol.fam ∈ rootOrders o pre ∧
        totalCost c .ordered o sol ≠ .inf := by
  intro sol hsol
  obtain ⟨⟨order, ho, d, hd, ls, hls, rfl⟩, _⟩ := (mem_spfs c S base o pre _).mp hsol
  obtain ⟨hv, hfam, _, hfin, _⟩ :=
    C02_cell_sound c S base o (hord order ho).1 (hord order ho).2 d hd ls hls
  exact ⟨hv, by rw [hfam]; exact ho, hfin⟩

/-- Label clauses of C04 for decoded solutions: leaf syntenies are the input's and
    every child synteny is a subsequence of its parent's. -/
theorem C02_cell_labels {order : List Nat} (hlv : LeavesOk order o) :
    ∀ d ∈ spfsCellsFor c S base true o order, ∀ ls ∈ d.sols,
      Spec.validOrdLabels o (ordSol order ls) = true := by
  intro d hd ls hls
  obtain ⟨hd, _⟩ := (mem_spfsCellsFor c S base o).mp hd
  have hX : c.spe + 2 * c.sloss ≤ c.dup + 2 * c.floss + (c.spe + 2 * c.sloss) := by omega
  obtain ⟨adm, _, _, _, hle⟩ := dp_sound (ordAlg c) c S (ord_slack c) hX _ d hd ls hls
  have hfin : labCost (ordAlg c) c (annOrd S base order true o) ls ≠ .inf := by
    obtain ⟨n, hn⟩ := ne_inf_iff.mp (dp_finite (ordAlg c) c S true _ hd)
    rw [hn] at hle
    intro e; rw [e] at hle; simp at hle
  have hnz := nz_of_finite c S base order o hlv true ls adm hfin
  exact validOrdLabels_ordSol c S base order o hlv true ls adm
    (cont_of_finite c S base order o true ls adm hnz hfin)

/-- **C04 for the ordered solvers** (all unit costs, `sloss = 0` included): every
    returned solution is a valid ordered super-reconciliation (`Spec.validSol .ordered`:
    shape, leaf species, no INVALID event, leaf syntenies as given, child ⊑ parent,
    root = every family once) of finite evaluated cost.  `hperm` is automatic without
    a prescribed root order (`C02_orders_perm`). -/
theorem C02_spfs_valid (pre : Option (List Nat)) (hord : OrdersOk o pre)
    (hperm : ∀ order ∈ rootOrders o pre, Spec.isPermOf order (families o) = true ∧
      (order.length == (dedup order).length) = true) :
    ∀ sol ∈ spfs c S base o pre,
      Spec.validSol .ordered o sol = true ∧ totalCost c .ordered o sol ≠ .inf := by
  intro sol hsol
  obtain ⟨⟨order, ho, d, hd, ls, hls, rfl⟩, _⟩ := (mem_spfs c S base o pre _).mp hsol
  obtain ⟨hv, hfam, _, hfin, _⟩ :=
    C02_cell_sound c S base o (hord order ho).1 (hord order ho).2 d hd ls hls
  have hl := C02_cell_labels c S base o (hord order ho).2 d hd ls hls
  refine ⟨?_, hfin⟩
  simp only [Spec.validSol, hv, hl, hfam, (hperm order ho).1, (hperm order ho).2, Bool.and_self]

theorem C02_orders_perm (o : OTree) : ∀ order ∈ rootOrders o none,
    Spec.isPermOf order (families o) = true ∧ (order.length == (dedup order).length) = true :=
  rootOrders_perm o

/-- **Optimality among mask labellings** (coherent region): no admissible labelling
    — any root order tried, any species mapping allowed by the variant, any
    non-empty masks with a complete root — is cheaper, under the evaluator, than a
    returned solution. -/
theorem C02_spfs_opt_masks (pre : Option (List Nat)) (hord : OrdersOk o pre)
    (hb : S.isBinary = true) (hS : ∀ p ∈ leafSpecies o, S.isNode p = true)
    (hcoh : c.spe + 2 * c.sloss ≤ c.dup + 2 * c.floss) :
    ∀ sol ∈ spfs c S base o pre, ∀ order ∈ rootOrders o pre, ∀ ls,
      Adm (ordAlg c) (annOrd S base order true o) ls → ls.lab = 2 ^ order.length - 1 → NZ ls →
      Cost.le (totalCost c .ordered o sol) (totalCost c .ordered o (ordSol order ls)) = true := by
  intro sol hsol order ho ls adm hroot hnz
  obtain ⟨_, hmin⟩ := (mem_spfs c S base o pre sol).mp hsol
  rw [totalCost_ordSol c S base (hord order ho).1 o ls adm hnz hroot]
  by_cases hfin : labCost (ordAlg c) c (annOrd S base order true o) ls = .inf
  · rw [hfin]; exact le_inf _
  · obtain ⟨d, hd, _, hlab, hle⟩ := dp_lower (ordAlg c) c S true hb _
      (spOk_annOrd c S base order o hS true) ls adm hfin
    have hd' : d ∈ spfsCellsFor c S base true o order :=
      (mem_spfsCellsFor c S base o).mpr ⟨hd, by rw [hlab, hroot]⟩
    obtain ⟨ls', hls'⟩ := dp_nonempty (ordAlg c) c S _ d hd
    obtain ⟨_, _, _, _, hle'⟩ :=
      C02_cell_sound c S base o (hord order ho).1 (hord order ho).2 d hd' ls' hls'
    exact le_trans (hmin order ho d hd' ls' hls') (le_trans (hle' hcoh) hle)

/-- **Against the specification oracle** (`Spec.optimum`: minimum over root orders of
    the tree recursion "minimum over the states of both children of the evaluator's local
    cost", over SEQUENCE labellings): no returned solution costs more than the oracle's
    optimum.  Both variants (`base` restricts oracle and solver to the LCA mapping). -/
theorem C02_spfs_le_optimum (pre : Option (List Nat)) (hord : OrdersOk o pre)
    (hb : S.isBinary = true) (hS : ∀ p ∈ leafSpecies o, S.isNode p = true)
    (hcoh : c.spe + 2 * c.sloss ≤ c.dup + 2 * c.floss) (keep : Bool) :
    ∀ sol ∈ spfs c S base o pre,
      Cost.le (totalCost c .ordered o sol) (Spec.optimum c S .ordered base keep o pre).1 = true := by
  intro sol hsol
  obtain ⟨⟨order0, ho0, d0, hd0, ls0, hls0, hsol0⟩, hmin⟩ := (mem_spfs c S base o pre sol).mp hsol
  simp only [Spec.optimum]
  apply le_minList
  intro x hx
  obtain ⟨oc, hoc, rfl⟩ := List.mem_map.mp hx
  simp only [Spec.modeDatas, List.mem_flatMap, List.mem_map] at hoc
  obtain ⟨md, ⟨order, ho, rfl⟩, hoc⟩ := hoc
  cases o with
  | leaf sp f =>
    -- a single leaf: every solution costs 0
    obtain ⟨_, _, hbr, _, _⟩ :=
      C02_cell_sound c S base _ (hord order0 ho0).1 (hord order0 ho0).2 d0 hd0 ls0 hls0
    obtain ⟨hd0', _⟩ := (mem_spfsCellsFor c S base _).mp hd0
    have hX : c.spe + 2 * c.sloss ≤ c.dup + 2 * c.floss + 0 := by omega
    obtain ⟨adm0, _⟩ := dp_sound (ordAlg c) c S (ord_slack c) hX _ d0 hd0' ls0 hls0
    simp only [Spec.optTable, List.mem_singleton] at hoc
    subst hoc
    rw [← hsol0, hbr]
    cases ls0 with
    | node => simp [annOrd, Adm] at adm0
    | leaf s lab => simp [annOrd, labCost]
  | node l r =>
    obtain ⟨ls, adm, _, hlab, hle⟩ :=
      optTable_covered c S base order (.node l r) keep (.node l r) [] true rfl oc hoc
    by_cases hfin : labCost (ordAlg c) c (annOrd S base order true (.node l r)) ls = .inf
    · rw [hfin] at hle; rw [(inf_le _).mp hle]; exact le_inf _
    · obtain ⟨d, hd, _, hlab', hle'⟩ := dp_lower (ordAlg c) c S true hb _
        (spOk_annOrd c S base order (.node l r) hS true) ls adm hfin
      -- the oracle's root cells carry the whole root order
      have hfam : oc.fam = order := by
        simp only [Spec.optTable, List.mem_flatMap, List.mem_filterMap, Spec.labelSpace,
          List.isEmpty_nil, if_true, List.mem_singleton] at hoc
        obtain ⟨s, _, f, rfl, hsome⟩ := hoc
        split at hsome
        · cases hsome
        · injection hsome with hsome; rw [← hsome]
      have hd' : d ∈ spfsCellsFor c S base true (.node l r) order := by
        refine (mem_spfsCellsFor c S base _).mpr ⟨hd, ?_⟩
        rw [hlab', hlab, hfam, SubseqProofs.mask_self]; rfl
      obtain ⟨ls', hls'⟩ := dp_nonempty (ordAlg c) c S _ d hd
      obtain ⟨_, _, _, _, hle''⟩ :=
        C02_cell_sound c S base _ (hord order ho).1 (hord order ho).2 d hd' ls' hls'
      exact le_trans (hmin order ho d hd' ls' hls') (le_trans (hle'' hcoh) (le_trans hle' hle))

/-- **C02** = `C02_ext_statement` (`base = false`) and `C02_base_statement`
    (`base = true`) of `C02.lean`, with the input guards they need: inside the coherent
    region every returned solution is a valid ordered super-reconciliation and costs no
    more than the specification's optimum. -/
theorem C02_spfs (pre : Option (List Nat)) (hord : OrdersOk o pre)
    (hperm : ∀ order ∈ rootOrders o pre, Spec.isPermOf order (families o) = true ∧
      (order.length == (dedup order).length) = true)
    (hb : S.isBinary = true) (hS : ∀ p ∈ leafSpecies o, S.isNode p = true)
    (hcoh : c.spe + 2 * c.sloss ≤ c.dup + 2 * c.floss) :
    ∀ sol ∈ spfs c S base o pre,
      Spec.validSol .ordered o sol = true ∧
      Cost.le (totalCost c .ordered o sol) (Spec.optimum c S .ordered base false o pre).1 = true :=
  fun sol h => ⟨(C02_spfs_valid c S base o pre hord hperm sol h).1,
    C02_spfs_le_optimum c S base o pre hord hb hS hcoh false sol h⟩

/-- The instance without a prescribed root order: the only guards are a binary species
    tree containing the leaf species and non-empty leaf syntenies. -/
theorem C02_spfs_none (hne : ∀ f ∈ leafSyntenies o, f ≠ [])
    (hb : S.isBinary = true) (hS : ∀ p ∈ leafSpecies o, S.isNode p = true)
    (hcoh : c.spe + 2 * c.sloss ≤ c.dup + 2 * c.floss) :
    ∀ sol ∈ spfs c S base o none,
      Spec.validSol .ordered o sol = true ∧
      Cost.le (totalCost c .ordered o sol) (Spec.optimum c S .ordered base false o none).1 = true :=
  C02_spfs c S base o none (C02_orders_ok o hne) (C02_orders_perm o) hb hS hcoh

/-- **Completeness (C05) among mask labellings**: a labelling as above whose
    evaluated cost is minimal among all of them is returned. -/
theorem C02_spfs_all_masks (pre : Option (List Nat)) (hord : OrdersOk o pre)
    (hb : S.isBinary = true) (hS : ∀ p ∈ leafSpecies o, S.isNode p = true)
    (hcoh : c.spe + 2 * c.sloss ≤ c.dup + 2 * c.floss)
    (order : List Nat) (ho : order ∈ rootOrders o pre) (ls : LSol Nat)
    (adm : Adm (ordAlg c) (annOrd S base order true o) ls)
    (hroot : ls.lab = 2 ^ order.length - 1) (hnz : NZ ls)
    (hfin : totalCost c .ordered o (ordSol order ls) ≠ .inf)
    (hmin : ∀ order' ∈ rootOrders o pre, ∀ ls',
      Adm (ordAlg c) (annOrd S base order' true o) ls' → ls'.lab = 2 ^ order'.length - 1 → NZ ls' →
      Cost.le (totalCost c .ordered o (ordSol order ls))
        (totalCost c .ordered o (ordSol order' ls')) = true) :
    ordSol order ls ∈ spfs c S base o pre := by
  have hbridge := totalCost_ordSol c S base (hord order ho).1 o ls adm hnz hroot
  have hlfin : labCost (ordAlg c) c (annOrd S base order true o) ls ≠ .inf := by
    rw [← hbridge]; exact hfin
  obtain ⟨d, hd, hsp, hlab, hle⟩ := dp_lower (ordAlg c) c S true hb _
    (spOk_annOrd c S base order o hS true) ls adm hlfin
  have hd' : d ∈ spfsCellsFor c S base true o order :=
    (mem_spfsCellsFor c S base o).mpr ⟨hd, by rw [hlab, hroot]⟩
  -- decoded solutions are admissible non-empty labellings, so `ls` is no dearer than them
  have decoded_ok : ∀ order' ∈ rootOrders o pre, ∀ d' ∈ spfsCellsFor c S base true o order',
      ∀ ls' ∈ d'.sols, Cost.le (totalCost c .ordered o (ordSol order ls))
        (totalCost c .ordered o (ordSol order' ls')) = true := by
    intro order' ho' d' hd'' ls' hls'
    obtain ⟨hdt, hlab'⟩ := (mem_spfsCellsFor c S base o).mp hd''
    have hX : c.spe + 2 * c.sloss ≤ c.dup + 2 * c.floss + 0 := by omega
    obtain ⟨adm', _, hl', _, hle'⟩ := dp_sound (ordAlg c) c S (ord_slack c) hX _ d' hdt ls' hls'
    have hfin' : labCost (ordAlg c) c (annOrd S base order' true o) ls' ≠ .inf := by
      obtain ⟨n, hn⟩ := ne_inf_iff.mp (dp_finite (ordAlg c) c S true _ hdt)
      rw [hn] at hle'
      intro e; rw [e] at hle'; simp at hle'
    exact hmin order' ho' ls' adm' (by rw [hl', hlab'])
      (nz_of_finite c S base order' o (hord order' ho').2 true ls' adm' hfin')
  obtain ⟨ls0, hls0⟩ := dp_nonempty (ordAlg c) c S _ d hd
  obtain ⟨_, _, _, _, hle0⟩ :=
    C02_cell_sound c S base o (hord order ho).1 (hord order ho).2 d hd' ls0 hls0
  have hcost : labCost (ordAlg c) c (annOrd S base order true o) ls = d.cost := by
    apply le_antisymm _ hle
    rw [← hbridge]
    exact le_trans (decoded_ok order ho d hd' ls0 hls0) (hle0 hcoh)
  have hin : ls ∈ d.sols :=
    dp_all (ordAlg c) c S hb _ (spOk_annOrd c S base order o hS true) ls adm d hd hsp hlab hcost
  exact (mem_spfs c S base o pre _).mpr ⟨⟨order, ho, d, hd', ls, hin, rfl⟩, decoded_ok⟩

/-! ### Non-vacuity -/

/-- A coherent, well-formed input (`ab` / `b`, `sloss = 0` allowed by the theorems)
    on which the hypotheses hold and the solver returns something. -/
example :
    let c : Costs := { spe := 1, dup := 1, hgt := .fin 1, floss := 1, sloss := 1 }
    let S : RTree := .node [.node [], .node []]
    let o : OTree := .node (.leaf [0] [1, 2]) (.leaf [1] [2])
    S.isBinary = true ∧ (∀ p ∈ leafSpecies o, S.isNode p = true) ∧
    (∀ f ∈ leafSyntenies o, f ≠ []) ∧ c.spe + 2 * c.sloss ≤ c.dup + 2 * c.floss ∧
    rootOrders o none = [[1, 2]] ∧
    (spfs c S false o none).map (totalCost c .ordered o) = [.fin 1] := by
  decide +kernel

end SR.C02
