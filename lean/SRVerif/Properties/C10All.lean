/-
  UPDATE (build round 2): `C10_unordered_le_ordered_statement` and `C10_guarded_statement` are PROVED in Properties/C10UnOrd.lean; non-vacuity of the inequalities in C10Total.lean.
  (The text below is kept as written in round 1; where it says "missing" / "not proved", see the files above.)

  C10 — summary.  `C10_statement` of `C10.lean` has no well-formedness guard and is false
  (`C10_statement_false`, `C10Thm.lean`).  `C10_guarded_statement` is the same statement
  with the guards under which the solvers are specified (binary species tree containing
  the leaf species, non-empty leaf syntenies, coherent costs).

  * `C10_partial`  proves three of its four conjuncts: extended ≤ base (ordered),
      extended ≤ base (unordered), thl ≤ lca.
  * MISSING: `C10_unordered_le_ordered_statement` (unordered optimum ≤ ordered optimum on
      every input).  It needs the SuperDTL theorem — the canonical LCA/INHERIT labellings
      explored by `superdtl` lose nothing against ALL valid set labellings (C03 at full
      strength); the set labelling induced by an ordered optimum is in general not
      canonical.  `C10_guarded_of_unordered_le_ordered` shows it is the only missing piece.
      On single-family inputs it holds with equality (`C10_single_family`,
      `C10_unordered_eq_ordered_single`).
  The remaining clauses of the property are `C10_thl_eq_lca_inf`,
  `C10_thl_eq_lca_inf_unique` (`C10Thm.lean`) and `C10_single_family` (`C10SingleUn.lean`).
-/
import SRVerif.Properties.C10Thm
import SRVerif.Properties.C10Un
import SRVerif.Properties.C10SingleUn

namespace SR.C10

open SR Cost

/-- `C10_statement` with the guards it needs. -/
def C10_guarded_statement : Prop :=
  ∀ (c : Costs) (S : RTree) (o : OTree), S.isBinary = true →
    (∀ p ∈ leafSpecies o, S.isNode p = true) → (∀ f ∈ leafSyntenies o, f ≠ []) →
    c.spe + 2 * c.sloss ≤ c.dup + 2 * c.floss →
    (∀ a ∈ spfs c S false o none, ∀ b ∈ spfs c S true o none,
        Cost.le (totalCost c .ordered o a) (totalCost c .ordered o b) = true) ∧
    (∀ a ∈ uspfs c S false o, ∀ b ∈ uspfs c S true o,
        Cost.le (totalCost c .unordered o a) (totalCost c .unordered o b) = true) ∧
    (∀ a ∈ uspfs c S false o, ∀ b ∈ spfs c S false o none,
        Cost.le (totalCost c .unordered o a) (totalCost c .ordered o b) = true) ∧
    (∀ a ∈ thl c S o, Cost.le (totalCost c .plain o a) (recCost c o (lcaSol o)) = true)

/-- The conjunct that is left open (needs the SuperDTL theorem). -/
def C10_unordered_le_ordered_statement : Prop :=
  ∀ (c : Costs) (S : RTree) (o : OTree), S.isBinary = true →
    (∀ p ∈ leafSpecies o, S.isNode p = true) → (∀ f ∈ leafSyntenies o, f ≠ []) →
    c.spe + 2 * c.sloss ≤ c.dup + 2 * c.floss →
    ∀ a ∈ uspfs c S false o, ∀ b ∈ spfs c S false o none,
      Cost.le (totalCost c .unordered o a) (totalCost c .ordered o b) = true

/-- **C10, inequalities** — everything except `unordered ≤ ordered`. -/
theorem C10_partial (c : Costs) (S : RTree) (o : OTree) (hb : S.isBinary = true)
    (hS : ∀ p ∈ leafSpecies o, S.isNode p = true) (hne : ∀ f ∈ leafSyntenies o, f ≠ [])
    (hcoh : c.spe + 2 * c.sloss ≤ c.dup + 2 * c.floss) :
    (∀ a ∈ spfs c S false o none, ∀ b ∈ spfs c S true o none,
        Cost.le (totalCost c .ordered o a) (totalCost c .ordered o b) = true) ∧
    (∀ a ∈ uspfs c S false o, ∀ b ∈ uspfs c S true o,
        Cost.le (totalCost c .unordered o a) (totalCost c .unordered o b) = true) ∧
    (∀ a ∈ thl c S o, Cost.le (totalCost c .plain o a) (recCost c o (lcaSol o)) = true) :=
  ⟨C10_ext_le_base_ordered_none c S o hne hb hS hcoh,
   C10_ext_le_base_unordered_coherent c S o hb hS hcoh,
   C10_thl_le_lca_coherent c S o hb hS hcoh⟩

/-- `unordered ≤ ordered` is the only missing piece of the guarded statement. -/
theorem C10_guarded_of_unordered_le_ordered (h : C10_unordered_le_ordered_statement) :
    C10_guarded_statement := by
  intro c S o hb hS hne hcoh
  obtain ⟨h1, h2, h4⟩ := C10_partial c S o hb hS hne hcoh
  exact ⟨h1, h2, h c S o hb hS hne hcoh, h4⟩

/-- On single-family inputs the open conjunct holds, with equality. -/
theorem C10_unordered_eq_ordered_single (c : Costs) (S : RTree) (o : OTree) (f : Nat)
    (hsf : ∀ g ∈ leafSyntenies o, g = [f])
    (hb : S.isBinary = true) (hS : ∀ p ∈ leafSpecies o, S.isNode p = true)
    (hcoh : c.spe + 2 * c.sloss ≤ c.dup + 2 * c.floss) :
    ∀ a ∈ uspfs c S false o, ∀ b ∈ spfs c S false o none,
      totalCost c .unordered o a = totalCost c .ordered o b := by
  intro a ha b hb'
  obtain ⟨⟨hne, _⟩, h, _⟩ := C10_single_family c S o f hsf hb hS hcoh
  obtain ⟨t, ht⟩ := List.exists_mem_of_ne_nil _ hne
  rw [((h t ht).2 a ha).2, ((h t ht).1 b hb').2]

/-! ### Non-vacuity: on this guarded input all four inequalities hold, three strictly. -/
example :
    let c : Costs := { spe := 0, dup := 5, hgt := .fin 1, floss := 5, sloss := 1 }
    let S : RTree := .node [.node [.node [], .node []], .node []]
    let o : OTree := .node (.node (.leaf [0, 0] [1, 2]) (.leaf [1] [2])) (.leaf [0, 1] [1])
    S.isBinary = true ∧ (∀ p ∈ leafSpecies o, S.isNode p = true) ∧
    (∀ f ∈ leafSyntenies o, f ≠ []) ∧ c.spe + 2 * c.sloss ≤ c.dup + 2 * c.floss ∧
    (spfs c S false o none).map (totalCost c .ordered o) = [.fin 2, .fin 2] ∧
    (spfs c S true o none).map (totalCost c .ordered o) = [.fin 21] ∧
    (uspfs c S false o).map (totalCost c .unordered o) = [.fin 1] ∧
    (uspfs c S true o).map (totalCost c .unordered o) = [.fin 21] ∧
    (thl c S o).map (totalCost c .plain o) = [.fin 1] ∧
    recCost c o (lcaSol o) = .fin 20 := by
  decide +kernel

end SR.C10
