/-
  C01 (enumerator half) — "The exhaustive enumerator yields every valid
  reconciliation exactly once", and hence `reconcile_exhaustive` returns
  exactly the minimum-cost valid reconciliations.

  Model: `generateAll` / `exhaustive` (`generate_all`, `reconcile_exhaustive`
  of `compute/exhaustive.py`), `placements a b` = the species the loop body
  tries for a node whose children sit at `a` and `b` (`Proofs/Enum.lean`).

  Specification (independent of the enumeration order and of the three-group
  decomposition of the code):
    * `Spec.validRec o sol` — same shape as `o`, leaves at their given
      species, no INVALID event (`node_event` of the cost evaluator);
    * `plainLabels o sol` — the annotations of a plain reconciliation: leaf
      data as in `o`, no synteny at internal nodes;
    * `Spec.allValid S o` — filter of every mapping of the internal nodes to
      nodes of the species tree `S`.
  Species are root paths; a path is a species of `S` iff `S.isNode p`.  The
  enumerator never leaves the ancestors of the leaf species, so its own
  characterisation needs no species tree; the relation with `S` needs exactly
  "every leaf species of `o` is a node of `S`" (the input well-formedness).
-/
import SRVerif.Proofs.Cost
import SRVerif.Proofs.Enum
import SRVerif.Spec.Opt

namespace SR.C01

open SR

/-! ### One node: the placements tried are exactly the valid ones, each once -/

/-- For children placed at `a`, `b`, the loop body of `generate_all` tries a
    species `s` iff the event of the parent at `s` is not INVALID; and it
    tries no species twice. -/
theorem C01_enum_placements (a b : Path) :
    (∀ s, s ∈ placements a b ↔ internalEvent s a b ≠ .invalid) ∧ (placements a b).Nodup :=
  ⟨fun s => mem_placements s a b, nodup_placements a b⟩

/-- Which species those are, by ancestry only: `s` is an ancestor-or-self of
    the LCA of `a`, `b`; or the other child is not an ancestor-or-self of `a`
    and `s` lies on the path from `a` up to, excluding, the LCA; or the same
    with `a`, `b` exchanged. -/
theorem C01_enum_placements_explicit (s a b : Path) :
    s ∈ placements a b ↔
      Path.isAnc s (Path.lcp a b) = true ∨
      (Path.isAnc b a = false ∧ Path.isAnc s a = true ∧ Path.isStrictAnc (Path.lcp a b) s = true) ∨
      (Path.isAnc a b = false ∧ Path.isAnc s b = true ∧ Path.isStrictAnc (Path.lcp a b) s = true) :=
  mem_placements_explicit s a b

/-- The evaluator's validity of one node, by ancestry only. -/
theorem C01_enum_event_valid (s a b : Path) :
    internalEvent s a b ≠ .invalid ↔
      Path.isStrictAnc a s = false ∧ Path.isStrictAnc b s = false ∧
        (Path.isAnc s a = true ∨ Path.isAnc s b = true) :=
  internalEvent_ne_invalid_iff s a b

/-- The recursion of `generate_all` at an internal node. -/
theorem C01_enum_node (l r : OTree) (sol : Sol) :
    sol ∈ generateAll (.node l r) ↔
      ∃ ml ∈ generateAll l, ∃ mr ∈ generateAll r, ∃ s ∈ placements ml.sp mr.sp,
        sol = .node s [] ml mr := by
  rw [generateAll_node]
  simp only [List.mem_flatMap, List.mem_map]
  constructor
  · rintro ⟨ml, hml, mr, hmr, s, hs, rfl⟩; exact ⟨ml, hml, mr, hmr, s, hs, rfl⟩
  · rintro ⟨ml, hml, mr, hmr, s, hs, rfl⟩; exact ⟨ml, hml, mr, hmr, s, hs, rfl⟩

/-! ### The enumerator -/

/-- Soundness: everything enumerated is a valid plain reconciliation of the
    input, and every node sits at an ancestor-or-self of a leaf species below it. -/
theorem C01_enum_sound (o : OTree) : ∀ sol ∈ generateAll o,
    Spec.validRec o sol = true ∧ plainLabels o sol = true ∧
      ∃ p ∈ leafSpecies o, Path.isAnc sol.sp p = true := by
  intro sol h
  have h' := (mem_generateAll o sol).mp h
  exact ⟨h'.1, h'.2, validRec_sp_anc_leaf o sol h'.1⟩

/-- Completeness: every valid plain reconciliation of the input is enumerated. -/
theorem C01_enum_complete (o : OTree) (sol : Sol) (hv : Spec.validRec o sol = true)
    (hp : plainLabels o sol = true) : sol ∈ generateAll o :=
  (mem_generateAll o sol).mpr ⟨hv, hp⟩

/-- Exactly once. -/
theorem C01_enum_nodup (o : OTree) : (generateAll o).Nodup := nodup_generateAll o

/-- "The exhaustive enumerator yields every valid reconciliation exactly once". -/
theorem C01_enum_iff (o : OTree) :
    (∀ sol, sol ∈ generateAll o ↔ Spec.validRec o sol = true ∧ plainLabels o sol = true) ∧
      (generateAll o).Nodup :=
  ⟨mem_generateAll o, nodup_generateAll o⟩

/-- The enumerator never fails to produce something: the LCA reconciliation is
    always among its outputs. -/
theorem C01_enum_nonempty (o : OTree) : lcaSol o ∈ generateAll o ∧ generateAll o ≠ [] := by
  have h := lcaSol_mem_generateAll o
  exact ⟨h, fun he => by rw [he] at h; cases h⟩

/-- Against the species tree: when every leaf species of the input is a node
    of `S`, the enumerator lists exactly `Spec.allValid S o` (the filter of all
    mappings of internal nodes to nodes of `S`), and both are duplicate-free:
    the two lists are permutations of each other. -/
theorem C01_enum_allValid (S : RTree) (o : OTree)
    (hS : ∀ p ∈ leafSpecies o, S.isNode p = true) :
    (∀ sol, sol ∈ generateAll o ↔ sol ∈ Spec.allValid S o) ∧
      (generateAll o).Perm (Spec.allValid S o) := by
  have h := mem_generateAll_iff_allValid S o hS
  exact ⟨h, (List.perm_ext_iff_of_nodup (nodup_generateAll o) (nodup_allValid S o)).mpr h⟩

/-- The statement `C01_enum_statement` of `Properties/C01.lean`, with the guard
    it needs (leaf species are nodes of `S`). -/
theorem C01_enum (S : RTree) (o : OTree) (hS : ∀ p ∈ leafSpecies o, S.isNode p = true) :
    (∀ sol, sol ∈ generateAll o ↔ Spec.validRec o sol = true ∧ sol ∈ Spec.allMappings S o) ∧
      (generateAll o).Nodup := by
  refine ⟨fun sol => ?_, nodup_generateAll o⟩
  rw [mem_generateAll_iff_allValid S o hS, Spec.allValid, List.mem_filter]
  exact And.comm

/-- Without the guard the unguarded statement is false: the enumerator walks
    the ancestors of the leaf species whether or not `S` has them (here `S`
    is a single node and both leaves claim the species `[0]`). -/
theorem C01_enum_guard_needed :
    let S : RTree := .node []
    let o : OTree := .node (.leaf [0] []) (.leaf [0] [])
    let sol : Sol := .node [0] [] (.leaf [0] []) (.leaf [0] [])
    sol ∈ generateAll o ∧ sol ∉ Spec.allMappings S o := by
  decide

/-- Only the direction enumerator → mappings needs the guard: every valid
    mapping over any `S` is enumerated. -/
theorem C01_enum_allValid_subset (S : RTree) (o : OTree) :
    ∀ sol ∈ Spec.allValid S o, sol ∈ generateAll o := by
  intro sol h
  rw [Spec.allValid, List.mem_filter] at h
  exact (mem_generateAll o sol).mpr ⟨h.2, plainLabels_of_mem_allMappings S o sol h.1⟩

/-- The species-tree side: `allSpecies S` lists exactly the nodes of `S`, once. -/
theorem C01_enum_allSpecies (S : RTree) :
    (∀ p, p ∈ allSpecies S ↔ S.isNode p = true) ∧ (allSpecies S).Nodup :=
  ⟨fun p => RTree.mem_preorder_iff p S, RTree.nodup_preorder S⟩

/-! ### `reconcile_exhaustive` -/

/-- `reconcile_exhaustive` (policy ALL) returns exactly the valid plain
    reconciliations of minimum evaluated cost among all valid plain
    reconciliations. -/
theorem C01_exh_iff (c : Costs) (o : OTree) (sol : Sol) :
    sol ∈ exhaustive c o ↔
      (Spec.validRec o sol = true ∧ plainLabels o sol = true) ∧
      ∀ sol', Spec.validRec o sol' = true → plainLabels o sol' = true →
        Cost.le (totalCost c .plain o sol) (totalCost c .plain o sol') = true := by
  rw [exhaustive, mem_rankByCost, mem_generateAll]
  constructor
  · rintro ⟨h, hmin⟩
    exact ⟨h, fun sol' hv hp => hmin sol' ((mem_generateAll o sol').mpr ⟨hv, hp⟩)⟩
  · rintro ⟨h, hmin⟩
    exact ⟨h, fun sol' hs' => by
      have := (mem_generateAll o sol').mp hs'
      exact hmin sol' this.1 this.2⟩

/-- Each optimal reconciliation is returned once. -/
theorem C01_exh_nodup (c : Costs) (o : OTree) : (exhaustive c o).Nodup :=
  nodup_rankByCost _ _ _ _

/-- `reconcile_exhaustive` always returns something. -/
theorem C01_exh_nonempty (c : Costs) (o : OTree) : exhaustive c o ≠ [] := by
  intro h
  -- some enumerated reconciliation attains the minimum
  have key : ∀ cands : List Sol, cands ≠ [] → ∃ m ∈ cands, ∀ s' ∈ cands,
      Cost.le (totalCost c .plain o m) (totalCost c .plain o s') = true := by
    intro cands
    induction cands with
    | nil => intro hne; exact absurd rfl hne
    | cons y ys ih =>
      intro _
      by_cases hys : ys = []
      · subst hys
        exact ⟨y, by simp, by intro s' hs'; simp at hs'; subst hs'; exact Cost.le_refl _⟩
      · obtain ⟨m, hm, hmin⟩ := ih hys
        rcases Cost.le_total (totalCost c .plain o y) (totalCost c .plain o m) with hle | hle
        · refine ⟨y, by simp, ?_⟩
          intro s' hs'
          rcases List.mem_cons.mp hs' with h1 | h1
          · subst h1; exact Cost.le_refl _
          · exact Cost.le_trans hle (hmin s' h1)
        · refine ⟨m, by simp [hm], ?_⟩
          intro s' hs'
          rcases List.mem_cons.mp hs' with h1 | h1
          · subst h1; exact hle
          · exact hmin s' h1
  obtain ⟨m, hm, hmin⟩ := key (generateAll o) (C01_enum_nonempty o).2
  have : m ∈ exhaustive c o := (mem_rankByCost c .plain o (generateAll o) m).mpr ⟨hm, hmin⟩
  rw [h] at this; cases this

/-- The body of `C01_exh_statement` of `Properties/C01.lean`, for every species
    tree `S` (no guard needed in this direction): every returned
    reconciliation is valid and no valid mapping over `S` is cheaper. -/
theorem C01_exh (c : Costs) (S : RTree) (o : OTree) (sol : Sol) (h : sol ∈ exhaustive c o) :
    Spec.validRec o sol = true ∧
    ∀ sol', Spec.validRec o sol' = true → sol' ∈ Spec.allMappings S o →
      Cost.le (totalCost c .plain o sol) (totalCost c .plain o sol') = true := by
  have h' := (C01_exh_iff c o sol).mp h
  exact ⟨h'.1.1, fun sol' hv hm => h'.2 sol' hv (plainLabels_of_mem_allMappings S o sol' hm)⟩

/-- Over a species tree containing the leaf species: `reconcile_exhaustive`
    returns exactly the arg-minima of the evaluated cost over
    `Spec.allValid S o`, each once, and at least one. -/
theorem C01_exh_allValid (c : Costs) (S : RTree) (o : OTree)
    (hS : ∀ p ∈ leafSpecies o, S.isNode p = true) :
    (∀ sol, sol ∈ exhaustive c o ↔
      sol ∈ Spec.allValid S o ∧ ∀ sol' ∈ Spec.allValid S o,
        Cost.le (totalCost c .plain o sol) (totalCost c .plain o sol') = true) ∧
    (exhaustive c o).Nodup ∧ exhaustive c o ≠ [] := by
  refine ⟨fun sol => ?_, C01_exh_nodup c o, C01_exh_nonempty c o⟩
  rw [exhaustive, mem_rankByCost, mem_generateAll_iff_allValid S o hS]
  constructor
  · rintro ⟨h, hmin⟩
    exact ⟨h, fun sol' hs' => hmin sol' ((mem_generateAll_iff_allValid S o hS sol').mpr hs')⟩
  · rintro ⟨h, hmin⟩
    exact ⟨h, fun sol' hs' => hmin sol' ((mem_generateAll_iff_allValid S o hS sol').mp hs')⟩

/-- All returned reconciliations have the same cost. -/
theorem C01_exh_cost (c : Costs) (o : OTree) (sol sol' : Sol)
    (h : sol ∈ exhaustive c o) (h' : sol' ∈ exhaustive c o) :
    totalCost c .plain o sol = totalCost c .plain o sol' := by
  rw [exhaustive, mem_rankByCost] at h h'
  exact Cost.le_antisymm (h.2 sol' h'.1) (h'.2 sol h.1)

/-- The returned cost is finite whatever the unit costs (also with an infinite
    transfer cost): the LCA reconciliation is a finite-cost candidate. -/
theorem C01_exh_finite (c : Costs) (o : OTree) (sol : Sol) (h : sol ∈ exhaustive c o) :
    totalCost c .plain o sol ≠ .inf := by
  rw [exhaustive, mem_rankByCost] at h
  have hle := h.2 (lcaSol o) (lcaSol_mem_generateAll o)
  obtain ⟨n, hn⟩ := totalCost_lcaSol_fin c o
  intro hinf
  rw [hinf, hn] at hle
  simp [Cost.le, Cost.lt] at hle

/-! ### Non-vacuity -/

/-- Input used below: `((x@00, y@01), z@1)` on the species tree `((A,B),C)`;
    leaves carry non-empty data to show it is preserved. -/
def enumExS : RTree := .node [.node [.node [], .node []], .node []]
def enumExO : OTree := .node (.node (.leaf [0, 0] [7]) (.leaf [0, 1] [8])) (.leaf [1] [9])

-- the guard of `C01_enum`, `C01_enum_allValid`, `C01_exh_allValid` holds
example : ∀ p ∈ leafSpecies enumExO, enumExS.isNode p = true := by decide

-- 12 reconciliations are enumerated; they include transfers (a node placed
-- at a leaf species with the other child elsewhere), and the set is not all mappings
example : (generateAll enumExO).length = 12 ∧ (Spec.allMappings enumExS enumExO).length = 25 ∧
    (Spec.allValid enumExS enumExO).length = 12 := by decide +kernel

example : Sol.node [1] [] (.node [0, 0] [] (.leaf [0, 0] [7]) (.leaf [0, 1] [8])) (.leaf [1] [9])
    ∈ generateAll enumExO := by decide +kernel

-- placements: children at 00 and 01 → {0, root, 00, 01}; children at 00 and 1 →
-- {root, 00, 0, 1}; children at 0 and 00 (comparable) → no transfer placement: the
-- walk from 0 is empty and the walk from 00 is skipped (it would put the child
-- at 0 strictly above its parent): {0, root}
example : placements [0, 0] [0, 1] = [[0], [], [0, 0], [0, 1]] ∧
    placements [0, 0] [1] = [[], [0, 0], [0], [1]] ∧
    placements [0] [0, 0] = [[0], []] ∧
    internalEvent [0, 0] [0, 0] [1] = .hgt ∧ internalEvent [0, 0] [0] [0, 0] = .invalid := by
  decide

-- hypotheses of `C01_enum_complete` are satisfiable by a non-LCA reconciliation
example :
    let sol : Sol := .node [] [] (.node [0, 1] [] (.leaf [0, 0] [7]) (.leaf [0, 1] [8])) (.leaf [1] [9])
    Spec.validRec enumExO sol = true ∧ plainLabels enumExO sol = true ∧ sol ≠ lcaSol enumExO := by
  decide

-- `reconcile_exhaustive`: with a cheap transfer two optima, with the default-like
-- costs the LCA reconciliation alone
example :
    (exhaustive { spe := 0, dup := 1, hgt := .fin 1, floss := 1, sloss := 1 } enumExO) = [lcaSol enumExO] ∧
    (exhaustive { spe := 3, dup := 1, hgt := .fin 0, floss := 1, sloss := 1 } enumExO).length = 4 := by
  decide +kernel

-- infinite transfer cost: still a finite optimum
example : (exhaustive { spe := 0, dup := 1, hgt := .inf, floss := 1, sloss := 1 } enumExO).map
    (totalCost { spe := 0, dup := 1, hgt := .inf, floss := 1, sloss := 1 } .plain enumExO) = [.fin 0] := by
  decide +kernel

-- single-node input
example : generateAll (.leaf [1] [3]) = [.leaf [1] [3]] := by decide

end SR.C01
