/-
  C03 for the CODE-STRUCTURED model of the unordered solvers (`uspfsCode`,
  `Model/UspfsCode.lean`): a transliteration of `_compute_uspfs_entry` (role entries,
  `update(…)` calls with the per-kind edge costs, six `combine`s), `_compute_uspfs_table`
  (a table of `Entry`s of `ChildrenAssignment` TAGS keyed by (object node, species, kind),
  threaded through the post-order loop), `_decode_uspfs_table` (contents materialised
  top-down from the tags) and `_uspfs` (result `Entry` ranked by `output.cost()`).

  It REFINES the label-DP model `uspfs` (`Model/Solvers.lean`) about which C03–C05, C09, C10
  are proved, for every input whose leaf species are nodes of the species tree (in Python
  they are `TreeNode`s of that tree by construction; without it the label DP would place
  children at species the code never iterates over):

  * `C03_code_table_values`  cell by cell, at every object node, the value of
        `table[object][species][kind]` is the value of the label DP's cell (`inf` when the
        label DP has no such cell);
  * `C03_code_table_tags`    the tags of an internal entry are exactly the pairs of child
        (species, kind) attaining the value of the label DP's `entry`;
  * `C03_code_decoded`       the outputs decoded from the table over all root species are,
        as a set, the solutions the label DP stores in its root cells, materialised;
  * `C03_code_refines`       `uspfsCode c S base o` and `uspfs c S base o` have the same members;
        `C03_code_nodup`: no output is returned twice.

  Corollaries — the headline theorems restated for the code-structured model:
  `C03_code_full_eq` (= `C03_full_eq`), `C03_code_valid` (= `C04_unord`),
  `C03_code_all` (= `C05_unord_all`), `C03_code_nonempty`, `C03_code_table_min`.
-/
import SRVerif.Proofs.UspfsCodeDecode
import SRVerif.Properties.C03Full
import SRVerif.Properties.C05Un

namespace SR.C03

open SR Cost UspfsCode

/-- **Cell-by-cell equality of the table values**, at every object node `q` (`tq` = the
    annotated subtree there), every species and both kinds. -/
theorem C03_code_table_values (c : Costs) (S : RTree) (base : Bool) (o : OTree)
    (hS : ∀ p ∈ leafSpecies o, S.isNode p = true) (keep : Bool)
    (q : Path) (tq : ATree UnAnn) (hq : subAt (annUn S base o [] o) q = some tq)
    (s : Path) (k : Kind) :
    Cell.value .min (cellAt (codeTable .all c S base o) q s k) =
      Cost.toExt (match findCell (dpTable (unAlg c) c S keep tq) (s, k) with
        | some d => d.cost
        | none => .inf) := by
  have hok := spOk_subAt c S _ (spOk_annUn c S base o o hS []) q tq hq
  obtain ⟨tq', hsim, hrow⟩ := codeTable_row c S base o q tq hq
  rw [hrow]
  exact (cellSpec_rowOk c S keep tq' tq hsim hok).value s k

/-- **The tags of an internal entry**: not instantiated when the label DP has no cell;
    otherwise exactly the pairs of child (species, kind) among the candidates of `entry`
    that attain its value. -/
theorem C03_code_table_tags (c : Costs) (S : RTree) (base : Bool) (o : OTree)
    (hS : ∀ p ∈ leafSpecies o, S.isNode p = true) (keep : Bool)
    (q : Path) (b : UnAnn) (l r : ATree UnAnn)
    (hq : subAt (annUn S base o [] o) q = some (.node b l r)) (s : Path) (k : Kind) :
    (findCell (dpTable (unAlg c) c S keep (.node b l r)) (s, k) = none →
      cellAt (codeTable .all c S base o) q s k = none) ∧
    (∀ d, findCell (dpTable (unAlg c) c S keep (.node b l r)) (s, k) = some d →
      ∀ t, t ∈ Cell.infos (cellAt (codeTable .all c S base o) q s k) ↔
        (d.cost, t) ∈ cands (unAlg c) c S b s k l.data r.data
          (dpTable (unAlg c) c S keep l) (dpTable (unAlg c) c S keep r)) := by
  have hok := spOk_subAt c S _ (spOk_annUn c S base o o hS []) q _ hq
  obtain ⟨tq', hsim, hrow⟩ := codeTable_row c S base o q _ hq
  rw [hrow]
  cases tq' with
  | leaf _ _ => simp [Sim] at hsim
  | node a l' r' =>
    have h := cellSpec_node c S keep a b l' r' l r hsim hok s k
    refine ⟨h.1, ?_⟩
    intro d hd t
    obtain ⟨e, hce, _, ht⟩ := h.2 d hd
    rw [hce]
    simp only [Cell.infos]
    rw [ht t]
    have he : entry (unAlg c) c S keep b s k l.data r.data (dpTable (unAlg c) c S keep l)
        (dpTable (unAlg c) c S keep r) = some d := by
      rw [findCell_dpTable_node] at hd
      split at hd
      · exact hd
      · cases hd
    rw [(entry_eq_some _ _ _ _ _ _ _ _ _ _ he).2.2.1]

/-- **Set equality of the decoded outputs.** -/
theorem C03_code_decoded (c : Costs) (S : RTree) (base : Bool) (o : OTree)
    (hS : ∀ p ∈ leafSpecies o, S.isNode p = true) (sol : Sol) :
    sol ∈ (levelOrder S).flatMap (decodeRoot .all c S base o) ↔
      sol ∈ (uspfsCells c S base true o).flatMap
        (fun d => d.sols.map (unSol (annUn S base o [] o) (annUn S base o [] o).data.lcaSet)) :=
  decoded_iff c S base o (spOk_annUn c S base o o hS []) sol

/-- **Refinement**: the code-structured model and the label-DP model return the same set. -/
theorem C03_code_refines (c : Costs) (S : RTree) (base : Bool) (o : OTree)
    (hS : ∀ p ∈ leafSpecies o, S.isNode p = true) (sol : Sol) :
    sol ∈ uspfsCode c S base o ↔ sol ∈ uspfs c S base o :=
  mem_uspfsCode_iff c S base o (spOk_annUn c S base o o hS []) sol

/-- The result entry holds every output once. -/
theorem C03_code_nodup (c : Costs) (S : RTree) (base : Bool) (o : OTree) :
    (uspfsCode c S base o).Nodup := by
  unfold uspfsCode uspfsCodePol
  rw [resultEntry_eq]
  exact (Entry.inv_update (Entry.inv_init .min .all) _).nodup

/-- The hypothesis of the refinement cannot be dropped: with a leaf mapped outside the
    species tree the label DP still places it, the code never visits that species. -/
theorem C03_code_refines_needs_leaf_species :
    ¬ ∀ (c : Costs) (S : RTree) (base : Bool) (o : OTree) (sol : Sol),
      sol ∈ uspfsCode c S base o ↔ sol ∈ uspfs c S base o := by
  intro h
  have := h { spe := 0, dup := 1, hgt := .fin 1, floss := 1, sloss := 1 } (.node []) false
    (.node (.leaf [5] [1]) (.leaf [5] [1])) (.node [] [1] (.leaf [5] [1]) (.leaf [5] [1]))
  revert this
  decide +kernel

/-! ### The headline theorems, for the code-structured model -/

/-- `C03_full_eq` for `uspfsCode`: the evaluated cost of every returned solution IS the
    minimum over all valid solutions (every species mapping, every labelling between
    required and allowed content). -/
theorem C03_code_full_eq (c : Costs) (S : RTree) (base : Bool) (o : OTree)
    (hb : S.isBinary = true) (hS : ∀ p ∈ leafSpecies o, S.isNode p = true)
    (hcoh : c.spe + c.sloss ≤ c.dup + 2 * c.floss) :
    ∀ sol ∈ uspfsCode c S base o,
      totalCost c .unordered o sol = (Spec.optimum c S .unordered base false o none).1 :=
  fun sol h => C03_full_eq c S base o hb hS hcoh sol ((C03_code_refines c S base o hS sol).mp h)

/-- `C04_unord` for `uspfsCode`: every returned solution is a valid unordered
    super-reconciliation of finite cost (every cost vector, both variants). -/
theorem C03_code_valid (c : Costs) (S : RTree) (base : Bool) (o : OTree)
    (hS : ∀ p ∈ leafSpecies o, S.isNode p = true) :
    C04.C04_statement .unordered c o (uspfsCode c S base o) :=
  fun sol h => C04.C04_unord c S base o sol ((C03_code_refines c S base o hS sol).mp h)

/-- `C05_unord_all` for `uspfsCode`: under ALL the result is EXACTLY the set of canonical
    solutions of minimum evaluated cost, each once. -/
theorem C03_code_all (c : Costs) (S : RTree) (base : Bool) (o : OTree)
    (hb : S.isBinary = true) (hS : ∀ p ∈ leafSpecies o, S.isNode p = true)
    (hcoh : c.spe + c.sloss ≤ c.dup + 2 * c.floss) :
    C05.C05_all_statement (uspfsCode c S base o) c .unordered o (CanonSol S base o) := by
  refine ⟨fun sol => ?_, C03_code_nodup c S base o⟩
  rw [C03_code_refines c S base o hS sol]
  exact (C05.C05_unord_all c S base o hb hS hcoh).1 sol

/-- The result is never empty. -/
theorem C03_code_nonempty (c : Costs) (S : RTree) (base : Bool) (o : OTree)
    (hb : S.isBinary = true) (hS : ∀ p ∈ leafSpecies o, S.isNode p = true) :
    uspfsCode c S base o ≠ [] := by
  obtain ⟨m, hm⟩ := List.exists_mem_of_ne_nil _ (C03_uspfs_total c S base o hb hS)
  intro h
  have := (C03_code_refines c S base o hS m).mpr hm
  rw [h] at this
  cases this

/-- All members have the same evaluated cost: the minimum table value at the root. -/
theorem C03_code_table_min (c : Costs) (S : RTree) (base : Bool) (o : OTree)
    (hb : S.isBinary = true) (hS : ∀ p ∈ leafSpecies o, S.isNode p = true)
    (hcoh : c.spe + c.sloss ≤ c.dup + 2 * c.floss) :
    ∀ sol ∈ uspfsCode c S base o, totalCost c .unordered o sol = uspfsTableMin c S base o :=
  fun sol h =>
    C05.C05_unord_same_cost c S base o hb hS hcoh sol ((C03_code_refines c S base o hS sol).mp h)

/-! Non-vacuity: an input with gains at two depths, an INHERIT node in the optimum and a tie
    (`sloss = 0`): two solutions; the entry of object node `[0]` at species `[0]`, kind LCA,
    holds two tags (right child LCA or INHERIT). -/
example :
    let c : Costs := { spe := 0, dup := 1, hgt := .fin 1, floss := 1, sloss := 0 }
    let S : RTree := .node [.node [], .node []]
    let o : OTree :=
      .node (.node (.leaf [0] [1, 2]) (.node (.leaf [0] [1]) (.leaf [0] [1]))) (.leaf [1] [1, 2])
    S.isBinary = true ∧ (∀ p ∈ leafSpecies o, S.isNode p = true) ∧
    c.spe + c.sloss ≤ c.dup + 2 * c.floss ∧
    (uspfsCode c S false o).length = 2 ∧
    (∀ sol ∈ uspfsCode c S false o, sol ∈ uspfs c S false o) ∧
    Cell.value .min (cellAt (codeTable .all c S false o) [] [] .lca) = .fin 2 ∧
    (Cell.infos (cellAt (codeTable .all c S false o) [0] [0] .lca)).length = 2 ∧
    Cell.value .min (cellAt (codeTable .all c S false o) [0, 1] [0] .inh) = .fin 1 := by
  decide +kernel

end SR.C03
