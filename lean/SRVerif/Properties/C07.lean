/-
  C07 — LCA reconciliation is the unique optimum of the duplication-loss model.

  Setting: transfers forbidden (`c.hgt = Cost.inf`), unit costs with
  `c.spe ≤ c.dup + 2 * c.floss` (true for all `dup, floss ≥ 0` when the
  speciation cost is 0 — the property's "any non-negative duplication and loss
  costs"; the `_spe0` corollaries state exactly that).  All statements are for
  every binary object tree and arbitrary species paths (no size bound, the
  species tree need not be binary).

  "Cost" is the cost evaluator's `recCost` (= `totalCost … .plain`,
  `C07_total_plain`), "valid" is `Spec.validRec` (shape of the input, leaves in
  their given species, no INVALID event).  A solution is compared through its
  species mapping `Sol.eraseFam` (validity does not constrain the synteny
  annotations of a plain reconciliation); for solutions carrying the plain
  annotations (`famsMatch`: what the solvers, `Spec.allMappings` and the
  harness's decoding produce) this is equality of solutions.
-/
import SRVerif.Proofs.LcaMapNodes
import SRVerif.Properties.C04

namespace SR.C07

open SR

/-! ### The mapping is the LCA mapping -/

/-- At every node, `lcaSol` sits at the longest common prefix (`lcpAll`, the
    folded `Path.lcp`) of the species of all leaves below that node. -/
theorem C07_is_lca (o : OTree) : mapsToLca o (lcaSol o) := lcaSol_mapsToLca o

/-- Root instance of `C07_is_lca` (every subtree of `lcaSol o` is the `lcaSol`
    of the corresponding subtree of `o`, by definition). -/
theorem C07_is_lca_root (o : OTree) : (lcaSol o).sp = lcpAll o.leafSpecies :=
  lcaSol_sp_eq_lcpAll o

/-- Independent characterisation: the image is the LOWEST COMMON ANCESTOR of
    the leaf species — its ancestors-or-self are exactly the common
    ancestors-or-self of all leaf species (this determines it uniquely). -/
theorem C07_is_lca_spec (o : OTree) (r : Path) :
    Path.isAnc r (lcaSol o).sp = true ↔ ∀ q ∈ o.leafSpecies, Path.isAnc r q = true :=
  isAnc_lcaSol_sp r o

/-- `lcpAll` itself is the greatest common prefix of a non-empty list. -/
theorem C07_lcpAll_spec (ps : List Path) (h : ps ≠ []) (r : Path) :
    Path.isAnc r (lcpAll ps) = true ↔ ∀ q ∈ ps, Path.isAnc r q = true :=
  isAnc_lcpAll r h

/-! ### Validity -/

/-- The LCA reconciliation is valid, contains no transfer, and its cost is
    finite for EVERY cost vector, also when the transfer cost is infinite. -/
theorem C07_valid (c : Costs) (o : OTree) :
    Spec.validRec o (lcaSol o) = true ∧ Spec.validSol .plain o (lcaSol o) = true ∧
      (lcaSol o).transferFree = true ∧ famsMatch o (lcaSol o) = true ∧
      ∃ n, recCost c o (lcaSol o) = .fin n :=
  ⟨lcaSol_validRec o, C04.C04_lca o, lcaSol_transferFree o, lcaSol_famsMatch o,
   dlCost c (lcaSol o), recCost_of_transferFree c o _ (lcaSol_validRec o) (lcaSol_transferFree o)⟩

/-- In the plain model the total cost is the reconciliation cost. -/
theorem C07_total_plain (c : Costs) (o : OTree) (sol : Sol) :
    totalCost c .plain o sol = recCost c o sol := totalCost_plain_eq_recCost c o sol

/-! ### Optimality -/

/-- Every valid transfer-free reconciliation maps each node to an
    ancestor-or-equal of the LCA image and costs at least as much as the LCA
    reconciliation (whatever the transfer cost). -/
theorem C07_opt_transferFree (c : Costs) (hc : c.spe ≤ c.dup + 2 * c.floss) (o : OTree) (sol : Sol)
    (hv : Spec.validRec o sol = true) (ht : sol.transferFree = true) :
    Path.isAnc sol.sp (lcaSol o).sp = true ∧
      Cost.le (recCost c o (lcaSol o)) (recCost c o sol) = true := by
  obtain ⟨ha, hle⟩ := dl_lower c hc o sol hv ht
  refine ⟨ha, ?_⟩
  rw [recCost_of_transferFree c o _ (lcaSol_validRec o) (lcaSol_transferFree o),
    recCost_of_transferFree c o sol hv ht]
  have := Nat.mul_le_mul_left c.floss (Path.length_le_of_isAnc ha)
  simp only [Cost.le, Cost.lt, Bool.not_eq_true', decide_eq_false_iff_not]
  omega

/-- With transfers forbidden the LCA reconciliation has minimum cost among all
    valid reconciliations. -/
theorem C07_opt (c : Costs) (hh : c.hgt = .inf) (hc : c.spe ≤ c.dup + 2 * c.floss)
    (o : OTree) (sol : Sol) (hv : Spec.validRec o sol = true) :
    Cost.le (recCost c o (lcaSol o)) (recCost c o sol) = true := by
  cases ht : sol.transferFree
  · rw [recCost_of_transfer c hh o sol hv ht]; exact Cost.le_inf _
  · exact (C07_opt_transferFree c hc o sol hv ht).2

/-- The property's setting: speciation cost 0, any duplication and loss costs. -/
theorem C07_opt_spe0 (c : Costs) (hh : c.hgt = .inf) (hs : c.spe = 0)
    (o : OTree) (sol : Sol) (hv : Spec.validRec o sol = true) :
    Cost.le (recCost c o (lcaSol o)) (recCost c o sol) = true :=
  C07_opt c hh (by omega) o sol hv

/-! ### Uniqueness -/

/-- With transfers forbidden and a positive loss cost, a valid reconciliation
    of the same cost as the LCA reconciliation has the same species at every node. -/
theorem C07_unique (c : Costs) (hh : c.hgt = .inf) (hc : c.spe ≤ c.dup + 2 * c.floss)
    (hf : 0 < c.floss) (o : OTree) (sol : Sol) (hv : Spec.validRec o sol = true)
    (heq : recCost c o sol = recCost c o (lcaSol o)) :
    sol.eraseFam = (lcaSol o).eraseFam := by
  have hl := recCost_of_transferFree c o _ (lcaSol_validRec o) (lcaSol_transferFree o)
  cases ht : sol.transferFree
  · rw [recCost_of_transfer c hh o sol hv ht, hl] at heq
    cases heq
  · rw [recCost_of_transferFree c o sol hv ht, hl] at heq
    have heq' : dlCost c sol = dlCost c (lcaSol o) := by injection heq
    obtain ⟨ha, -⟩ := dl_lower c hc o sol hv ht
    have := Nat.mul_le_mul_left c.floss (Path.length_le_of_isAnc ha)
    exact dl_unique c hc hf o sol hv ht (by omega)

/-- Equality of solutions, for solutions carrying the plain annotations. -/
theorem C07_unique_plain (c : Costs) (hh : c.hgt = .inf) (hc : c.spe ≤ c.dup + 2 * c.floss)
    (hf : 0 < c.floss) (o : OTree) (sol : Sol) (hv : Spec.validRec o sol = true)
    (hm : famsMatch o sol = true) (heq : recCost c o sol = recCost c o (lcaSol o)) :
    sol = lcaSol o :=
  eq_of_eraseFam_eq o sol (lcaSol o) hm (lcaSol_famsMatch o) (C07_unique c hh hc hf o sol hv heq)

/-- In the oracle's terms: among all valid mappings into the species tree `S`
    (`Spec.allValid`), only the LCA reconciliation attains the LCA cost. -/
theorem C07_unique_allValid (c : Costs) (hh : c.hgt = .inf) (hc : c.spe ≤ c.dup + 2 * c.floss)
    (hf : 0 < c.floss) (S : RTree) (o : OTree) (sol : Sol) (hm : sol ∈ Spec.allValid S o)
    (heq : recCost c o sol = recCost c o (lcaSol o)) : sol = lcaSol o := by
  simp only [Spec.allValid, List.mem_filter] at hm
  exact C07_unique_plain c hh hc hf o sol hm.2 (famsMatch_of_mem_allMappings S o sol hm.1) heq

/-- The LCA reconciliation is one of the oracle's candidates: when the leaf
    species are nodes of the species tree, so is every LCA image. -/
theorem C07_mem_allValid (S : RTree) (o : OTree) (h : ∀ q ∈ o.leafSpecies, S.isNode q = true) :
    lcaSol o ∈ Spec.allValid S o := lcaSol_mem_allValid S o h

/-- Oracle form of optimality (any loss cost): the LCA reconciliation is a
    minimum-cost member of `Spec.allValid S o`. -/
theorem C07_optimal_mem (c : Costs) (hh : c.hgt = .inf) (hc : c.spe ≤ c.dup + 2 * c.floss)
    (S : RTree) (o : OTree) (h : ∀ q ∈ o.leafSpecies, S.isNode q = true) :
    lcaSol o ∈ Spec.allValid S o ∧
      ∀ s' ∈ Spec.allValid S o, Cost.le (recCost c o (lcaSol o)) (recCost c o s') = true := by
  refine ⟨lcaSol_mem_allValid S o h, fun s' hs' => ?_⟩
  simp only [Spec.allValid, List.mem_filter] at hs'
  exact C07_opt c hh hc o s' hs'.2

/-- Oracle form of uniqueness: for a positive loss cost the set of minimum-cost
    valid mappings into `S` is exactly `{lcaSol o}`. -/
theorem C07_optimal_set (c : Costs) (hh : c.hgt = .inf) (hc : c.spe ≤ c.dup + 2 * c.floss)
    (hf : 0 < c.floss) (S : RTree) (o : OTree) (h : ∀ q ∈ o.leafSpecies, S.isNode q = true)
    (sol : Sol) :
    (sol ∈ Spec.allValid S o ∧
      ∀ s' ∈ Spec.allValid S o, Cost.le (recCost c o sol) (recCost c o s') = true)
      ↔ sol = lcaSol o := by
  constructor
  · rintro ⟨hm, hmin⟩
    have hv : Spec.validRec o sol = true := by
      simp only [Spec.allValid, List.mem_filter] at hm; exact hm.2
    have h1 := hmin _ (lcaSol_mem_allValid S o h)
    have h2 := C07_opt c hh hc o sol hv
    exact C07_unique_allValid c hh hc hf S o sol hm (Cost.le_antisymm h1 h2)
  · rintro rfl
    exact C07_optimal_mem c hh hc S o h

/-- Equivalently: any valid reconciliation with a different species mapping is
    strictly more expensive. -/
theorem C07_strict (c : Costs) (hh : c.hgt = .inf) (hc : c.spe ≤ c.dup + 2 * c.floss)
    (hf : 0 < c.floss) (o : OTree) (sol : Sol) (hv : Spec.validRec o sol = true)
    (hne : sol.eraseFam ≠ (lcaSol o).eraseFam) :
    Cost.lt (recCost c o (lcaSol o)) (recCost c o sol) = true := by
  rcases Cost.trichotomy (recCost c o (lcaSol o)) (recCost c o sol) with h | h | h
  · exact absurd (C07_unique c hh hc hf o sol hv h.symm) hne
  · exact h
  · have := C07_opt c hh hc o sol hv
    simp [Cost.le, h] at this

theorem C07_unique_spe0 (c : Costs) (hh : c.hgt = .inf) (hs : c.spe = 0) (hf : 0 < c.floss)
    (o : OTree) (sol : Sol) (hv : Spec.validRec o sol = true)
    (heq : recCost c o sol = recCost c o (lcaSol o)) :
    sol.eraseFam = (lcaSol o).eraseFam :=
  C07_unique c hh (by omega) hf o sol hv heq

theorem C07_unique_plain_spe0 (c : Costs) (hh : c.hgt = .inf) (hs : c.spe = 0) (hf : 0 < c.floss)
    (o : OTree) (sol : Sol) (hv : Spec.validRec o sol = true) (hm : famsMatch o sol = true)
    (heq : recCost c o sol = recCost c o (lcaSol o)) : sol = lcaSol o :=
  C07_unique_plain c hh (by omega) hf o sol hv hm heq

/-! ### Non-vacuity and sharpness -/

/-- ((A,B),A) in the species tree (A,B): the LCA mapping has one speciation,
    one duplication and one loss. -/
def exO : OTree := .node (.node (.leaf [0] []) (.leaf [1] [])) (.leaf [0] [])
def exC : Costs := { spe := 0, dup := 2, hgt := .inf, floss := 3, sloss := 1 }

example : lcaSol exO = .node [] [] (.node [] [] (.leaf [0] []) (.leaf [1] [])) (.leaf [0] []) := by
  decide
example : mapsToLca exO (lcaSol exO) := C07_is_lca exO
example : recCost exC exO (lcaSol exO) = .fin 5 := by decide
example : exC.hgt = .inf ∧ exC.spe ≤ exC.dup + 2 * exC.floss ∧ 0 < exC.floss := by decide

example : ∀ q ∈ exO.leafSpecies, (RTree.node [.node [], .node []]).isNode q = true := by decide

/-- A valid competitor containing a transfer (the inner node sits in A and
    sends its right child to B): it costs `inf` when transfers are forbidden. -/
def exT : Sol := .node [] [] (.node [0] [] (.leaf [0] []) (.leaf [1] [])) (.leaf [0] [])
example : Spec.validRec exO exT = true ∧ exT.transferFree = false ∧
    recCost exC exO exT = .inf := by decide
example : Cost.le (recCost exC exO (lcaSol exO)) (recCost exC exO exT) = true :=
  C07_opt exC rfl (by decide) exO exT (by decide)

/-- Uniqueness needs a positive loss cost: with `floss = 0` (and `dup = 0`)
    two different valid mappings of ((A1,A2),B) into ((A1,A2),B) tie. -/
def exO2 : OTree := .node (.node (.leaf [0, 0] []) (.leaf [0, 1] [])) (.leaf [1] [])
def exS2 : Sol := .node [] [] (.node [] [] (.leaf [0, 0] []) (.leaf [0, 1] [])) (.leaf [1] [])
def exC0 : Costs := { spe := 0, dup := 0, hgt := .inf, floss := 0, sloss := 1 }
example : Spec.validRec exO2 exS2 = true ∧ exS2 ≠ lcaSol exO2 ∧
    recCost exC0 exO2 exS2 = recCost exC0 exO2 (lcaSol exO2) := by decide

/-- Optimality needs `spe ≤ dup + 2·floss`: outside it, raising a node to turn
    a speciation into a duplication is cheaper. -/
def exCbad : Costs := { spe := 3, dup := 0, hgt := .inf, floss := 1, sloss := 1 }
example : Spec.validRec exO2 exS2 = true ∧
    Cost.lt (recCost exCbad exO2 exS2) (recCost exCbad exO2 (lcaSol exO2)) = true := by decide

end SR.C07
