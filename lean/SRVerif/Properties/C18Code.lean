/-
  C18 — Subsequence masks and segment distances are exact: the theorems of
  `Properties/C18.lean`, restated for the functions that `harness/translate_py.py`
  GENERATES from the text of `superrec2/utils/subsequences.py` on every run
  (`SRVerif/Generated/SubseqPy.lean`, namespace `SR.Gen.Subseq`).

  The bridge is `SRVerif/Generated/SubseqPyEquiv.lean` (`gen_f_eq_model`, one per
  function, proved for all inputs in `SRVerif/Proofs/SubseqPyEquiv.lean`).  A
  generated function returns `Except Py.Err ρ`; `.error e` means that the Python
  function raises `e`, so `… = .ok v` also says "does not raise" (and, for
  `subseq_from_mask`, that its `while` loop terminates within the generated fuel).

  This module is built and audited only when the translator tie is available
  (`"translator_tie": "ok (sha256 …)"` in the evidence); otherwise the check
  falls back to the correspondence of the hand-written model with the running
  code and these theorems are not counted.

  Recorded precondition of the translation: `int` parameters are non-negative
  (`Nat`), sequence elements are compared with `==` only (`DecidableEq α`).
-/
import SRVerif.Properties.C18
import SRVerif.Generated.SubseqPyEquiv

namespace SR.C18

open SR.SubseqSpec SR.SubseqProofs SR.Py
open SR.Gen.Subseq

variable {α : Type} [DecidableEq α]

/-! ### The tie itself -/

/-- The four generated functions compute exactly what the hand-written model
    computes, exceptions included. -/
theorem C18_code_tie :
    (∀ s : List α, subseq_complete s = .ok ((subseqComplete s : Nat) : Int)) ∧
    (∀ child parent : List α, mask_from_subseq child parent = .ok (maskFromSubseq child parent)) ∧
    (∀ (mask : Nat) (parent : List α),
      subseq_from_mask mask parent = Py.ofOption .IndexError (subseqFromMask mask parent)) ∧
    (∀ (child parent : Nat) (edges : Bool),
      subseq_segment_dist child parent edges = .ok (subseqSegmentDist child parent edges)) :=
  ⟨gen_subseq_complete_eq_model, gen_mask_from_subseq_eq_model, gen_subseq_from_mask_eq_model,
    gen_subseq_segment_dist_eq_model⟩

example : mask_from_subseq [2, 3, 6] [1, 2, 3, 4, 5, 6] = .ok 0b100110 := by
  rw [gen_mask_from_subseq_eq_model]; exact congrArg Except.ok (by decide)

/-! ### Round trips -/

/-- Subsequence → mask → subsequence is the identity, and neither step raises. -/
theorem C18_code_roundtrip_seq (child parent : List α) (h : child.Sublist parent) :
    ∃ mask, mask_from_subseq child parent = .ok mask ∧ subseq_from_mask mask parent = .ok child :=
  ⟨maskFromSubseq child parent, gen_mask_from_subseq_eq_model child parent, by
    rw [gen_subseq_from_mask_eq_model, C18_roundtrip_seq child parent h]; rfl⟩

example : ∃ mask, mask_from_subseq [2, 3, 6] [1, 2, 3, 4, 5, 6] = .ok mask ∧
    subseq_from_mask mask [1, 2, 3, 4, 5, 6] = .ok [2, 3, 6] :=
  C18_code_roundtrip_seq _ _ (by decide)

/-- Mask → subsequence → mask is the identity: every mask that fits the parent
    (elements distinct) decodes, without raising, to a subsequence of the parent
    whose mask is the original one. -/
theorem C18_code_roundtrip_mask (mask : Nat) (parent : List α) (hnd : parent.Nodup)
    (h : mask < 2 ^ parent.length) :
    ∃ child, subseq_from_mask mask parent = .ok child ∧ child.Sublist parent ∧
      mask_from_subseq child parent = .ok mask := by
  obtain ⟨child, h1, h2, h3⟩ := C18_roundtrip_mask mask parent hnd h
  refine ⟨child, ?_, h2, ?_⟩
  · rw [gen_subseq_from_mask_eq_model, h1]; rfl
  · rw [gen_mask_from_subseq_eq_model, h3]

example : ∃ child, subseq_from_mask 0b100110 [1, 2, 3, 4, 5, 6] = .ok child ∧
    child.Sublist [1, 2, 3, 4, 5, 6] ∧ mask_from_subseq child [1, 2, 3, 4, 5, 6] = .ok 0b100110 :=
  C18_code_roundtrip_mask _ _ (by decide) (by decide)

/-- `subseq_from_mask` raises — and then it is `IndexError`, never a
    non-terminating loop — exactly on the masks with a set bit beyond the parent. -/
theorem C18_code_from_mask_defined (mask : Nat) (parent : List α) :
    ((∃ child, subseq_from_mask mask parent = .ok child) ↔ mask < 2 ^ parent.length) ∧
    (subseq_from_mask mask parent = .error .IndexError ↔ ¬ mask < 2 ^ parent.length) := by
  rw [gen_subseq_from_mask_eq_model, ← C18_from_mask_defined mask parent]
  cases subseqFromMask mask parent with
  | none => simp [Py.ofOption]
  | some r => simp [Py.ofOption]

example : subseq_from_mask 4 [1, 2] = .error .IndexError :=
  (C18_code_from_mask_defined 4 [1, 2]).2.2 (by decide)

/-- `mask_from_subseq` never raises and its result fits the parent;
    `subseq_complete` never raises and is the mask of the whole sequence. -/
theorem C18_code_mask_lt (child parent : List α) :
    ∃ mask, mask_from_subseq child parent = .ok mask ∧ mask < 2 ^ parent.length ∧
      ∃ full : Nat, subseq_complete parent = .ok (full : Int) ∧ mask ≤ full ∧
        mask_from_subseq parent parent = .ok full :=
  ⟨_, gen_mask_from_subseq_eq_model child parent, (C18_mask_lt child parent).1,
    subseqComplete parent, gen_subseq_complete_eq_model parent, (C18_mask_lt child parent).2, by
      rw [gen_mask_from_subseq_eq_model, C18_complete]⟩

example : ∃ mask, mask_from_subseq [2, 3] [1, 2, 3] = .ok mask ∧ mask < 2 ^ 3 ∧
    ∃ full : Nat, subseq_complete [1, 2, 3] = .ok (full : Int) ∧ mask ≤ full ∧
      mask_from_subseq [1, 2, 3] [1, 2, 3] = .ok full := C18_code_mask_lt [2, 3] [1, 2, 3]

/-- The bits of a generated mask (parent elements distinct). -/
theorem C18_code_mask_bits (child parent : List α) (hnd : parent.Nodup) (h : child.Sublist parent) :
    ∃ mask, mask_from_subseq child parent = .ok mask ∧
      ∀ i, mask.testBit i = true ↔ ∃ x, parent[i]? = some x ∧ x ∈ child :=
  ⟨_, gen_mask_from_subseq_eq_model child parent, C18_mask_bits child parent hnd h⟩

example : ∃ mask, mask_from_subseq [2, 3] [1, 2, 3] = .ok mask ∧
    ∀ i, mask.testBit i = true ↔ ∃ x, [1, 2, 3][i]? = some x ∧ x ∈ [2, 3] :=
  C18_code_mask_bits _ _ (by decide) (by decide)

/-! ### Segment distance -/

/-- For a non-empty child mask the generated `subseq_segment_dist` never raises
    and returns the executable specification: `-1` when the child is not
    contained in the parent, else the number of maximal runs of lost parent
    positions (end runs dropped when `edges = false`). -/
theorem C18_code_dist (child parent : Nat) (edges : Bool) (hc : child ≠ 0) :
    subseq_segment_dist child parent edges = .ok (SubseqSpec.segmentDist child parent edges) := by
  rw [gen_subseq_segment_dist_eq_model, C18_dist child parent edges hc]

/-- The values of the upstream unit tests, for the generated function. -/
example : subseq_segment_dist 0b1100_0010 0b1110_0011 true = .ok 2
    ∧ subseq_segment_dist 0b1100_0010 0b1110_0011 false = .ok 1
    ∧ subseq_segment_dist 0b0100_0010 0b1100_0010 false = .ok 0
    ∧ subseq_segment_dist 0b1010_1010 0b0101_0101 true = .ok (-1) := by
  refine ⟨?_, ?_, ?_, ?_⟩ <;> rw [C18_code_dist _ _ _ (by decide)] <;>
    exact congrArg Except.ok (by decide)

/-- `-1` exactly when the child is not contained in the parent. -/
theorem C18_code_dist_neg (child parent : Nat) (edges : Bool) (hc : child ≠ 0) :
    subseq_segment_dist child parent edges = .ok (-1) ↔ ¬ Contained child parent := by
  rw [gen_subseq_segment_dist_eq_model, ← C18_dist_neg child parent edges hc]
  constructor
  · intro h; injection h
  · intro h; rw [h]

example : subseq_segment_dist 0b111 0b110 true = .ok (-1) :=
  (C18_code_dist_neg _ _ _ (by decide)).2
    (fun h => absurd ((C18_contained_iff_land _ _).1 h) (by decide))

/-- The number of lost runs when the child is contained in the parent. -/
theorem C18_code_dist_runs (child parent : Nat) (edges : Bool) (hc : child ≠ 0)
    (h : Contained child parent) :
    subseq_segment_dist child parent edges
      = .ok ((lostRuns edges (keptPattern child parent) : Nat) : Int) := by
  rw [gen_subseq_segment_dist_eq_model, C18_dist_runs child parent edges hc h]

example : subseq_segment_dist 0b1100_0010 0b1110_0011 true
    = .ok ((lostRuns true (keptPattern 0b1100_0010 0b1110_0011) : Nat) : Int) :=
  C18_code_dist_runs _ _ _ (by decide) ((C18_contained_iff_land _ _).2 (by decide))

/-- Recorded behaviour of the code on the empty child mask (outside the
    property's scope). -/
theorem C18_code_dist_zero (parent : Nat) :
    subseq_segment_dist 0 parent false = .ok (-1) ∧
    subseq_segment_dist 0 parent true = .ok (if parent = 0 then 0 else 1) := by
  rw [gen_subseq_segment_dist_eq_model, gen_subseq_segment_dist_eq_model,
    (C18_dist_zero parent).1, (C18_dist_zero parent).2.1]
  exact ⟨rfl, rfl⟩

example : subseq_segment_dist 0 0b1011 false = .ok (-1) ∧ subseq_segment_dist 0 0b1011 true = .ok 1 :=
  C18_code_dist_zero 0b1011

/-- Bridge to sequences, end to end through the generated functions: for
    `child <+ parent <+ root` (root duplicate-free, child non-empty) the masks
    are computed without raising and their distance is the number of maximal
    runs of consecutive parent elements absent from the child. -/
theorem C18_code_bridge (child parent root : List α) (edges : Bool) (hnd : root.Nodup)
    (hcp : child.Sublist parent) (hpr : parent.Sublist root) (hne : child ≠ []) :
    ∃ cm pm, mask_from_subseq child root = .ok cm ∧ mask_from_subseq parent root = .ok pm ∧
      subseq_segment_dist cm pm edges = .ok ((lostRunsSeq edges child parent : Nat) : Int) :=
  ⟨_, _, gen_mask_from_subseq_eq_model child root, gen_mask_from_subseq_eq_model parent root, by
    rw [gen_subseq_segment_dist_eq_model, C18_bridge child parent root edges hnd hcp hpr hne]⟩

example : ∃ cm pm, mask_from_subseq [2, 6] [1, 2, 3, 4, 5, 6, 7] = .ok cm ∧
    mask_from_subseq [2, 3, 5, 6, 7] [1, 2, 3, 4, 5, 6, 7] = .ok pm ∧
    subseq_segment_dist cm pm false = .ok ((lostRunsSeq false [2, 6] [2, 3, 5, 6, 7] : Nat) : Int) :=
  C18_code_bridge _ _ _ _ (by decide) (by decide) (by decide) (by decide)

end SR.C18
