/-
  C19 — Topological orderings are enumerated completely and without
  repetition.

  Model: `SRVerif/Model/Toposort.lean` (`toposort` = Kahn's algorithm with a
  deque and an in-degree dict, `toposortAll` = `_toposort_all_bt` with
  in-degree decrement/restore and the final length check, `precGraph` =
  `_make_prec_graph`).  Specification: `SRVerif/Spec/Toposort.lean`
  (`IsTopo g o`: `o` lists every vertex once and every edge goes forward;
  `WF g`: distinct keys, successor sets, successors are keys — what
  `Mapping[Node, Set[Node]]` with closed successor sets means).

  All theorems hold for every well-formed graph, of any size.  Fuel: both
  routines are run with `g.length + 1` units of fuel and `C19_total` shows
  that neither `Err.fuel` nor any other error is ever produced.
-/
import SRVerif.Proofs.ToposortPrec

namespace SR.C19

open SR.Toposort

/-- On well-formed graphs neither routine raises (no `KeyError`, no
    `ValueError` from `deque.remove`, and the fuel suffices). -/
theorem C19_total (g : Graph) (hwf : WF g) :
    (∃ os, toposortAll g = .ok os) ∧ (∃ r, toposort g = .ok r) := by
  obtain ⟨os, h, _⟩ := toposortAll_spec hwf
  obtain ⟨r, h', _⟩ := toposort_spec hwf
  exact ⟨⟨os, h⟩, ⟨r, h'⟩⟩

/-- Every ordering returned by `toposort_all` is a topological ordering. -/
theorem C19_all_sound (g : Graph) (hwf : WF g) (os : List (List Nat))
    (h : toposortAll g = .ok os) : ∀ o ∈ os, IsTopo g o := by
  obtain ⟨os', h', _, hm⟩ := toposortAll_spec hwf
  rw [h] at h'; cases h'
  exact fun o ho => (hm o).1 ho

/-- Every topological ordering is returned by `toposort_all`. -/
theorem C19_all_complete (g : Graph) (hwf : WF g) (os : List (List Nat))
    (h : toposortAll g = .ok os) : ∀ o, IsTopo g o → o ∈ os := by
  obtain ⟨os', h', _, hm⟩ := toposortAll_spec hwf
  rw [h] at h'; cases h'
  exact fun o ho => (hm o).2 ho

/-- No ordering is returned twice. -/
theorem C19_all_nodup (g : Graph) (hwf : WF g) (os : List (List Nat))
    (h : toposortAll g = .ok os) : os.Nodup := by
  obtain ⟨os', h', hn, _⟩ := toposortAll_spec hwf
  rw [h] at h'; cases h'
  exact hn

/-- A graph without topological ordering (one with a directed cycle, or a
    self-loop) yields the empty list. -/
theorem C19_all_cyclic (g : Graph) (hwf : WF g) (hno : ¬ ∃ o, IsTopo g o) :
    toposortAll g = .ok [] := by
  obtain ⟨os, h, _, hm⟩ := toposortAll_spec hwf
  cases os with
  | nil => exact h
  | cons o _ => exact absurd ⟨o, (hm o).1 (by simp)⟩ hno

/-- The explicit `len(subresult) != len(graph)` check of the code: the
    backtracking search always produces at least one (possibly partial)
    sequence; the check discards everything as soon as one of them is
    partial, which happens exactly when the graph has no topological
    ordering, and when it passes nothing is discarded. -/
theorem C19_all_length_check (g : Graph) (hwf : WF g) :
    ∃ starts I rs, allInit g = .ok (starts, I) ∧ bt g (g.length + 1) starts I = .ok (rs, I) ∧
      rs ≠ [] ∧
      ((∃ r ∈ rs, r.length ≠ g.length) ↔ ¬ ∃ o, IsTopo g o) ∧
      ((∀ r ∈ rs, r.length = g.length) → toposortAll g = .ok (rs.map List.reverse)) := by
  obtain ⟨starts, I, hinit, hinv⟩ := allInit_spec hwf
  obtain ⟨rs, hbt, hn, hm⟩ := bt_spec hwf (g.length + 1) [] starts I hinv (by simp)
  refine ⟨starts, I, rs, hinit, hbt, ?_, ?_, ?_⟩
  · -- a maximal removal sequence always exists: the one Kahn's loop follows
    obtain ⟨s, _, hg⟩ := kahnLoop_spec hwf (g.length + 1) [] starts I [] hinv (by simp)
    intro e
    have := (hm s.reverse).2 (by simpa using hg)
    rw [e] at this
    simp at this
  · constructor
    · rintro ⟨r, hr, hlen⟩ ⟨o, ht⟩
      have := greedy_full hwf.1 ht ((hm r).1 hr)
      simp at this
      exact hlen this
    · intro hno
      by_contra hall
      simp only [not_exists, not_and, not_not] at hall
      obtain ⟨s, _, hg⟩ := kahnLoop_spec hwf (g.length + 1) [] starts I [] hinv (by simp)
      have hs := (hm s.reverse).2 (by simpa using hg)
      have hlen := hall _ hs
      simp at hlen
      exact hno ⟨s, greedy_full_isTopo hwf.succ_keys hg hlen⟩
  · intro hall
    simp only [toposortAll, hinit, hbt, checkRev_eq]
    rw [if_pos hall]; rfl

/-- `toposort` returns a topological ordering if and only if one exists
    (and `None` otherwise). -/
theorem C19_one (g : Graph) (hwf : WF g) (r : Option (List Nat)) (h : toposort g = .ok r) :
    (∀ o, r = some o → IsTopo g o) ∧ (r = none ↔ ¬ ∃ o, IsTopo g o) := by
  obtain ⟨r', h', h1, h2⟩ := toposort_spec hwf
  rw [h] at h'; cases h'
  exact ⟨h1, h2⟩

/-- Outside the scope of the property (recorded behaviour): when some
    successor is not a key, both routines raise `KeyError`. -/
theorem C19_malformed (g : Graph) (hk : (keys g).Nodup)
    (hbad : ∃ p ∈ g, ∃ v ∈ p.2, v ∉ keys g) :
    toposortAll g = .error .keyError ∧ toposort g = .error .keyError :=
  malformed_keyError hk hbad

/-- `_make_prec_graph` raises (IndexError) exactly when some leaf synteny
    is empty. -/
theorem C19_prec_total (syns : List (List Nat)) :
    (∃ g, precGraph syns = .ok g) ↔ ∀ s ∈ syns, s ≠ [] :=
  precGraph_total syns

/-- The precedence graph is well-formed and its topological orderings are
    exactly the duplicate-free arrangements `o` of the families occurring in
    the leaf syntenies such that every leaf synteny is a subsequence of `o`.
    (No duplicate-freeness of the syntenies is needed: a synteny with a
    repeated family creates a cycle, and is a subsequence of no
    duplicate-free list.) -/
theorem C19_prec (syns : List (List Nat)) (g : Graph) (h : precGraph syns = .ok g) :
    WF g ∧ ∀ o, IsTopo g o ↔
      (o.Nodup ∧ (∀ v, v ∈ o ↔ ∃ s ∈ syns, v ∈ s) ∧ ∀ s ∈ syns, s.Sublist o) :=
  ⟨(precGraph_spec h).1, precGraph_isTopo h⟩

/-- Composition used by the ordered solvers (C02): the root orderings
    `toposort_all(_make_prec_graph(leaf_syntenies))`. -/
theorem C19_prec_orders (syns : List (List Nat)) (hne : ∀ s ∈ syns, s ≠ []) :
    ∃ g os, precGraph syns = .ok g ∧ toposortAll g = .ok os ∧ os.Nodup ∧
      ∀ o, o ∈ os ↔
        (o.Nodup ∧ (∀ v, v ∈ o ↔ ∃ s ∈ syns, v ∈ s) ∧ ∀ s ∈ syns, s.Sublist o) := by
  obtain ⟨g, hg⟩ := (precGraph_total syns).2 hne
  obtain ⟨os, h, hn, hm⟩ := toposortAll_spec (precGraph_spec hg).1
  exact ⟨g, os, hg, h, hn, fun o => (hm o).trans (precGraph_isTopo hg o)⟩

/-! ### Non-vacuity -/

/-- The graph of the repository's own test. -/
def g6 : Graph := [(0, []), (1, []), (2, [3]), (3, [1]), (4, [0, 1]), (5, [0, 2])]

example : WF g6 := by decide
example : IsTopo g6 [4, 5, 0, 2, 3, 1] := by decide
example : toposort g6 = .ok (some [4, 5, 0, 2, 3, 1]) := by decide
example : (toposortAll g6).toOption.map List.length = some 13 := by decide
/-- a cycle, and a self-loop: well-formed, no ordering -/
example : WF [(0, [1]), (1, [2]), (2, [0])] ∧ toposortAll [(0, [1]), (1, [2]), (2, [0])] = .ok [] :=
  by decide
example : WF [(0, [0]), (1, [])] ∧ toposort [(0, [0]), (1, [])] = .ok none := by decide
example : precGraph [[1, 2, 3], [2, 4], [5]] = .ok [(1, [2]), (2, [3, 4]), (3, []), (4, []), (5, [])] :=
  by decide
example : [2, 4].Sublist [5, 1, 2, 4, 3] := by decide
example : toposortAll [(0, [1]), (1, [7])] = .error .keyError := by decide

end SR.C19
