/-
  C10, clause "single family", UNORDERED solvers (`superdtl` = `uspfs … false`,
  `usreconcile_base_uspfs` = `uspfs … true`).

  Input: every leaf synteny is `[f]`, `S` binary, leaf species nodes of `S`, coherent
  costs.  Then every `lcaSet` is `[f]`, `f` is gained at the root only, and
  * `C10_single_family_unordered`       `superdtl` returns something; every returned
      solution has labelling cost 0 and its evaluated total cost equals the evaluated
      cost of every solution returned by `reconcile_thl` (plain DTL optimum);
  * `C10_single_family_unordered_base`  the base variant returns something; every
      returned solution has labelling cost 0 and total cost = LCA reconciliation cost;
  * `C10_single_family`                 the property's clause in one statement: on a
      single-family input the extended ordered, extended unordered and plain DTL
      solvers all return something and all their returned solutions have the same
      evaluated cost; the two base variants return something and all their returned
      solutions cost exactly the LCA reconciliation.
  These are unconditional (the C03 bridge between per-kind charges and the evaluator
  is proved here for the single-family case: all kinds are LCA, all contents `[f]`).
-/
import SRVerif.Proofs.C10SingleUn
import SRVerif.Properties.C10Single

namespace SR.C10

open SR Cost

variable (c : Costs) (S : RTree) (o : OTree) (f : Nat)

/-- What the unordered variants decode when there is a single family. -/
theorem uspfs_single_decoded (base : Bool) (hsf : SingleFam f o) :
    ∀ d ∈ uspfsCells c S base true o, ∀ ls ∈ d.sols,
      let t := annUn S base o [] o
      ls.All (· = .lca) ∧ ls.Valid ∧ Adm (unAlg c) t ls ∧
      labCost (unAlg c) c t ls = labCost thlAlg c (annPlain S o) ls.forget ∧
      totalCost c .unordered o (unSol t t.data.lcaSet ls) = recCost c o (plainSol o ls.forget) ∧
      labelingCost c .unordered (unSol t t.data.lcaSet ls) = some 0 := by
  intro d hd ls hls
  obtain ⟨hd, hlab⟩ := (mem_uspfsCells c S o).mp hd
  have hX : c.spe + c.sloss ≤ c.dup + 2 * c.floss + (c.spe + c.sloss) := by omega
  obtain ⟨adm, _, hl, hval, hle⟩ := dp_sound (unAlg c) c S (un_slack c) hX _ d hd ls hls
  have hfin : labCost (unAlg c) c (annUn S base o [] o) ls ≠ .inf := by
    obtain ⟨n, hn⟩ := ne_inf_iff.mp (dp_finite (unAlg c) c S true _ hd)
    rw [hn] at hle
    intro e; rw [e] at hle; simp at hle
  have hall := allLca_of_finite c S base hsf o hsf [] ls adm (by rw [hl, hlab]) hfin
  have hlosses := unordLosses_allLca c S base hsf o hsf [] (annUn S base o [] o).data.lcaSet ls adm hall hval
  have hlabel : labelingCost c .unordered
      (unSol (annUn S base o [] o) (annUn S base o [] o).data.lcaSet ls) = some 0 := by
    simp [labelingCost, hlosses]
  refine ⟨hall, hval, adm, labCost_un_allLca c S base hsf o hsf [] ls hall, ?_, hlabel⟩
  simp only [totalCost, hlabel]
  rw [recCost_unSol c S base o o [] _ ls adm]
  cases recCost c o (plainSol o ls.forget) <;> rfl

/-- A finite admissible labelling with LCA root makes the solver return something. -/
theorem uspfs_ne_nil_of_adm (base : Bool) (hb : S.isBinary = true)
    (hS : ∀ p ∈ leafSpecies o, S.isNode p = true) (ls : LSol Kind)
    (adm : Adm (unAlg c) (annUn S base o [] o) ls) (hroot : ls.lab = .lca)
    (hfin : labCost (unAlg c) c (annUn S base o [] o) ls ≠ .inf) :
    uspfs c S base o ≠ [] := by
  obtain ⟨d', hd', _, hlab', _⟩ := dp_lower (unAlg c) c S true hb _
    (C03.spOk_annUn c S base o o hS []) ls adm hfin
  have hd'' : d' ∈ uspfsCells c S base true o :=
    (mem_uspfsCells c S o).mpr ⟨hd', by rw [hlab', hroot]⟩
  obtain ⟨ls', hls'⟩ := dp_nonempty (unAlg c) c S _ d' hd'
  unfold uspfs
  apply rankByCost_ne_nil
  intro e
  have : unSol (annUn S base o [] o) (annUn S base o [] o).data.lcaSet ls' ∈
      (uspfsCells c S base true o).flatMap (fun d => d.sols.map
        (unSol (annUn S base o [] o) (annUn S base o [] o).data.lcaSet)) :=
    List.mem_flatMap.mpr ⟨d', hd'', List.mem_map.mpr ⟨ls', hls', rfl⟩⟩
  rw [e] at this; cases this

/-- **Single family, base unordered solver = LCA cost.** -/
theorem C10_single_family_unordered_base (hsf : ∀ g ∈ leafSyntenies o, g = [f])
    (hb : S.isBinary = true) (hS : ∀ p ∈ leafSpecies o, S.isNode p = true) :
    uspfs c S true o ≠ [] ∧
    ∀ b ∈ uspfs c S true o,
      labelingCost c .unordered b = some 0 ∧
      totalCost c .unordered o b = recCost c o (lcaSol o) := by
  rw [← singleFam_iff] at hsf
  have hgen := (mem_generateAll o (lcaSol o)).mp (lcaSol_mem_generateAll o)
  have hmem := mem_allMappings_of_valid S o (lcaSol o) hS hgen.1 hgen.2
  obtain ⟨admT, eT⟩ := adm_toLSol S o (lcaSol o) hmem
  constructor
  · have adm := adm_un_base_lift c S o o []
    refine uspfs_ne_nil_of_adm c S o true hb hS _ adm (by simp) ?_
    rw [labCost_un_allLca c S true hsf o hsf [] _ (LSol.all_lift (P := (· = Kind.lca)) rfl _),
      LSol.forget_lift, labCost_thl c S o _ admT, eT]
    obtain ⟨n, hn⟩ := totalCost_lcaSol_fin c o
    rw [totalCost_plain] at hn
    rw [hn]; simp
  · intro b hb'
    obtain ⟨⟨d, hd, ls, hls, rfl⟩, _⟩ := (mem_uspfs c S o true b).mp hb'
    obtain ⟨_, _, adm, _, hcost, hlabel⟩ := uspfs_single_decoded c S o f true hsf d hd ls hls
    refine ⟨hlabel, ?_⟩
    rw [hcost, adm_un_base_forget c S o o [] ls adm, eT]

/-- **Single family, extended unordered solver (`superdtl`) = plain DTL optimum.** -/
theorem C10_single_family_unordered (hsf : ∀ g ∈ leafSyntenies o, g = [f])
    (hb : S.isBinary = true) (hS : ∀ p ∈ leafSpecies o, S.isNode p = true)
    (hcoh : c.spe + 2 * c.sloss ≤ c.dup + 2 * c.floss) :
    uspfs c S false o ≠ [] ∧
    ∀ a ∈ uspfs c S false o,
      labelingCost c .unordered a = some 0 ∧
      ∀ t ∈ thl c S o, totalCost c .unordered o a = totalCost c .plain o t := by
  have hsf0 := hsf
  rw [← singleFam_iff] at hsf
  have hcoh' : c.spe ≤ c.dup + 2 * c.floss := by omega
  have hcohU : c.spe + c.sloss ≤ c.dup + 2 * c.floss := by omega
  constructor
  · exact (C10_ext_le_base_unordered_table c S o hb hS hcohU).2
      (C10_single_family_unordered_base c S o f hsf0 hb hS).1
  · intro a ha
    obtain ⟨⟨d, hd, ls, hls, rfl⟩, hmin⟩ := (mem_uspfs c S o false a).mp ha
    obtain ⟨_, hval, adm, _, hcost, hlabel⟩ := uspfs_single_decoded c S o f false hsf d hd ls hls
    refine ⟨hlabel, fun t ht => ?_⟩
    apply Cost.le_antisymm
    · -- lift an optimum of the plain model to the all-LCA labelling
      obtain ⟨⟨d0, hd0, ls0, hls0, rfl⟩, _⟩ := (C01.mem_thl c S o t).mp ht
      have hX : c.spe + 0 ≤ c.dup + 2 * c.floss + c.spe := by omega
      obtain ⟨adm0, _⟩ := dp_sound thlAlg c S thl_slack hX (annPlain S o) d0 hd0 ls0 hls0
      have admL := adm_un_lift c S o o [] ls0 adm0
      have hcL : labCost (unAlg c) c (annUn S false o [] o) (LSol.lift .lca ls0) =
          totalCost c .plain o (plainSol o ls0) := by
        rw [labCost_un_allLca c S false hsf o hsf [] _ (LSol.all_lift (P := (· = Kind.lca)) rfl _),
          LSol.forget_lift, labCost_thl c S o ls0 adm0, totalCost_plain]
      have hfinL : labCost (unAlg c) c (annUn S false o [] o) (LSol.lift .lca ls0) ≠ .inf := by
        rw [hcL]; exact (C01.C01_thl_finite c S o _ ht).2.2
      obtain ⟨d', hd', _, hlab', hle'⟩ := dp_lower (unAlg c) c S true hb _
        (C03.spOk_annUn c S false o o hS []) _ admL hfinL
      have hd'' : d' ∈ uspfsCells c S false true o :=
        (mem_uspfsCells c S o).mpr ⟨hd', by rw [hlab']; simp⟩
      obtain ⟨⟨ls', hls'⟩, hex, _⟩ := C03.C03_table_exact c S false o hb hS hcohU d' hd'
      have hc' := ((hex ls').mp hls').2.2.2
      obtain ⟨_, _, adm', hgen', hcost', _⟩ := uspfs_single_decoded c S o f false hsf d' hd'' ls' hls'
      have admF' := adm_un_forget c S o o [] ls' adm'
      have e' : totalCost c .unordered o
          (unSol (annUn S false o [] o) (annUn S false o [] o).data.lcaSet ls') = d'.cost := by
        rw [hcost', ← labCost_thl c S o _ admF', ← hgen', hc']
      refine le_trans (hmin d' hd'' ls' hls') ?_
      rw [e', ← hcL]; exact hle'
    · have admF := adm_un_forget c S o o [] ls adm
      rw [hcost, ← totalCost_plain]
      exact (C01.C01_thl c S o hb hS hcoh' t ht).2 _
        (validRec_plainSol S o _ admF ((LSol.forget_valid ls).mpr hval))
        (plainSol_mem_allMappings S o _ admF)

/-- **C10, single-family clause**: when every leaf carries the same single family,
    (1) the plain DTL, extended ordered and extended unordered solvers all return
    something, every labelling cost is 0, and all returned solutions of the three
    solvers have the same evaluated cost (ordered = unordered = plain optimum);
    (2) both base variants return something and every solution they return costs exactly
    the LCA reconciliation cost. -/
theorem C10_single_family (hsf : ∀ g ∈ leafSyntenies o, g = [f])
    (hb : S.isBinary = true) (hS : ∀ p ∈ leafSpecies o, S.isNode p = true)
    (hcoh : c.spe + 2 * c.sloss ≤ c.dup + 2 * c.floss) :
    (thl c S o ≠ [] ∧ spfs c S false o none ≠ [] ∧ uspfs c S false o ≠ [] ∧
      spfs c S true o none ≠ [] ∧ uspfs c S true o ≠ []) ∧
    (∀ t ∈ thl c S o,
      (∀ a ∈ spfs c S false o none, labelingCost c .ordered a = some 0 ∧
        totalCost c .ordered o a = totalCost c .plain o t) ∧
      (∀ u ∈ uspfs c S false o, labelingCost c .unordered u = some 0 ∧
        totalCost c .unordered o u = totalCost c .plain o t)) ∧
    (∀ b ∈ spfs c S true o none, totalCost c .ordered o b = recCost c o (lcaSol o)) ∧
    (∀ b ∈ uspfs c S true o, totalCost c .unordered o b = recCost c o (lcaSol o)) := by
  have ho := C10_single_family_ordered c S o f hsf hb hS hcoh
  have hu := C10_single_family_unordered c S o f hsf hb hS hcoh
  have hob := C10_single_family_ordered_base c S o f hsf hb hS
  have hub := C10_single_family_unordered_base c S o f hsf hb hS
  refine ⟨⟨C01.C01_thl_total c S o hb hS, ho.1, hu.1, hob.1, hub.1⟩, ?_, ?_, ?_⟩
  · intro t ht
    exact ⟨fun a ha => ⟨(ho.2 a ha).1, (ho.2 a ha).2 t ht⟩,
      fun u hu' => ⟨(hu.2 u hu').1, (hu.2 u hu').2 t ht⟩⟩
  · exact fun b hb' => (hob.2 b hb').2
  · exact fun b hb' => (hub.2 b hb').2

/-! ### Non-vacuity -/

example :
    let c : Costs := { spe := 0, dup := 5, hgt := .fin 1, floss := 5, sloss := 1 }
    let S : RTree := .node [.node [.node [], .node []], .node []]
    let o : OTree := .node (.node (.leaf [0, 0] [7]) (.leaf [1] [7])) (.leaf [0, 1] [7])
    S.isBinary = true ∧ (∀ p ∈ leafSpecies o, S.isNode p = true) ∧
    (∀ g ∈ leafSyntenies o, g = [7]) ∧ c.spe + 2 * c.sloss ≤ c.dup + 2 * c.floss ∧
    (uspfs c S false o).map (totalCost c .unordered o) = [.fin 1] ∧
    (thl c S o).map (totalCost c .plain o) = [.fin 1] ∧
    (uspfs c S true o).map (totalCost c .unordered o) = [.fin 20] ∧
    recCost c o (lcaSol o) = .fin 20 := by
  decide +kernel

end SR.C10
