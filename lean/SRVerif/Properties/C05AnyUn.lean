/-
  C05, policy ANY, unordered solvers: closing `C05_any_mem_uspfs_statement`.

  `Properties/C05Any.lean` proves `any ∈ all` for `uspfs` conditionally on the bridge
  `C03_kinds_faithful_statement` (the DP's per-kind edge charges equal the evaluator's subset
  tests on the materialised contents).  That bridge is now a theorem
  (`Properties/C03Kinds.lean`), so the statement holds unconditionally.
-/
import SRVerif.Properties.C05Any
import SRVerif.Properties.C03Kinds

namespace SR.C05

open SR

/-- ANY returns a member of the ALL result, unordered solvers (base and extended), for every
    selection rule `P` (every offering order), inside `spe + sloss ≤ dup + 2·floss`. -/
theorem C05_any_mem_uspfs : C05_any_mem_uspfs_statement :=
  C05_any_mem_uspfs_of_bridge C03.C03_kinds_faithful

/-- … and therefore has the cost of every ALL solution. -/
theorem C05_any_same_cost_uspfs (P : Picker Kind) (hP : P.Ok) (c : Costs) (S : RTree) (base : Bool)
    (o : OTree) (hb : S.isBinary = true) (hS : ∀ p ∈ leafSpecies o, S.isNode p = true)
    (hne : ∀ f ∈ leafSyntenies o, f ≠ []) (hcoh : c.spe + c.sloss ≤ c.dup + 2 * c.floss) :
    ∀ s ∈ uspfsAny P c S base o, ∀ s' ∈ uspfs c S base o,
      totalCost c .unordered o s = totalCost c .unordered o s' :=
  fun s h s' h' => C05_same_cost c .unordered o _ s s'
    (C05_any_mem_uspfs P hP c S base o hb hS hne hcoh s h) h'

end SR.C05
