/-
  C05, the policy ANY of the CODE-STRUCTURED model of the ordered solvers
  (`Model/SpfsCode.lean`: `SpfsCode.spfs .any` = `sreconcile_{base,extended}_spfs(…, ANY)`),
  against THE SAME model under ALL (`spfsCode` = `SpfsCode.spfs .all`, which
  `C02_code_refines` ties to the label-DP model `spfs`).  For all inputs:

  * `C05_code_any_table_spfs`   for every object (sub)tree and root order the dicts of the
        two tables read the same at every (species, mask): instantiated together, SAME VALUE,
        at most one ANY tag, which is one of the ALL tags, one as soon as ALL has one;
  * `C05_code_any_decode_spfs`  the outputs decoded from the ANY table are decoded from the
        ALL table, and an ALL cell that decodes to something has an ANY decoding;
  * `C05_code_any_error_spfs`   the two runs raise the same errors (the root orderings do not
        depend on the policy);
  * `C05_code_any_card_spfs`, `C05_code_any_empty_iff_spfs`, `C05_code_any_total_spfs`
        at most one solution; none iff the ALL result is empty; exactly one otherwise (no
        hypothesis on the costs, the species tree, the leaves);
  * `C05_code_any_mem_spfs_of_uniform`   membership and equal result values, provided the
        evaluated cost is constant on the decodings of each root cell of the ALL tables;
  * `C05_code_any_mem_spfs` (+ `_none`, `_prescribed`), `C05_code_any_same_cost_spfs`
        inside the coherent region `spe + 2·sloss ≤ dup + 2·floss` (the hypotheses of
        `C05_any_mem_spfs` and the guards of `C02_code_refines`): the ANY solution is one of
        the ALL solutions of the same code — hence of `spfs` — with the same cost.
-/
import SRVerif.Proofs.AnyCodeSpfs
import SRVerif.Properties.C02Code
import SRVerif.Properties.C05Any

namespace SR.C05

open SR Cost AnyCode SpfsCode

section table

variable (c : Costs) (S : RTree) (base : Bool) (order : List Nat) (o : OTree)

/-- **The two tables**, at the dict of any object (sub)tree (`C02_code_subtables`: the dicts
    of the inner object nodes are those of `computeTable` on the subtrees). -/
theorem C05_code_any_table_spfs (isRoot : Bool) (s : Path) (m : Nat) :
    let cA := lookup (computeTable c S base .any order isRoot o).cells s m
    let cL := lookup (computeTable c S base .all order isRoot o).cells s m
    (cA = none ↔ cL = none) ∧ Cell.value .min cA = Cell.value .min cL ∧
    (Cell.infos cA).length ≤ 1 ∧ (∀ t ∈ Cell.infos cA, t ∈ Cell.infos cL) ∧
    (Cell.infos cL ≠ [] → Cell.infos cA ≠ []) := by
  intro cA cL
  have hal := (computeTable_al c S base order o isRoot).cells
  refine ⟨lookup_al_isNone hal s m, lookup_al_value hal s m, ?_, lookup_al_infos hal s m, ?_⟩
  · rcases lookup_al hal s m with ⟨h1, _⟩ | ⟨eA, eL, h1, _, h3⟩
    · show (Cell.infos (lookup _ s m)).length ≤ 1
      rw [h1]; simp [Cell.infos]
    · show (Cell.infos (lookup _ s m)).length ≤ 1
      rw [h1]; exact h3.le1
  · rcases lookup_al hal s m with ⟨h1, h2⟩ | ⟨eA, eL, h1, h2, h3⟩
    · show Cell.infos (lookup _ s m) ≠ [] → Cell.infos (lookup _ s m) ≠ []
      rw [h1, h2]; exact id
    · show Cell.infos (lookup _ s m) ≠ [] → Cell.infos (lookup _ s m) ≠ []
      rw [h1, h2]; exact h3.nonempty

/-- **Decoding.** -/
theorem C05_code_any_decode_spfs (isRoot : Bool) (s : Path) (m : Nat) :
    (∀ sol ∈ decodeTable order (computeTable c S base .any order isRoot o) s m,
      sol ∈ decodeTable order (computeTable c S base .all order isRoot o) s m) ∧
    (decodeTable order (computeTable c S base .all order isRoot o) s m ≠ [] →
      decodeTable order (computeTable c S base .any order isRoot o) s m ≠ []) := by
  have hal := computeTable_al c S base order o isRoot
  refine ⟨decode_sub order hal s m, fun h => ?_⟩
  apply decode_ne_nil c S base .any (by simp) order o isRoot
  intro hn
  exact lookup_ne_none_of_decode order _ _ _ h ((lookup_al_isNone hal.cells _ _).mp hn)

end table

section solver

variable (c : Costs) (S : RTree) (base : Bool) (o : OTree) (pre : Option (List Nat))

/-- The two runs raise the same errors. -/
theorem C05_code_any_error_spfs (e : Toposort.Err) :
    SpfsCode.spfs .any c S base o pre = .error e ↔ spfsCode c S base o pre = .error e := by
  simp only [spfsCode, SpfsCode.spfs]
  cases rootOrderings o pre <;> simp

/-- Both succeed together, with the result entries of the same root orderings. -/
theorem spfs_ok_iff (resA resL : List Sol) :
    SpfsCode.spfs .any c S base o pre = .ok resA ∧ spfsCode c S base o pre = .ok resL ↔
      ∃ os, rootOrderings o pre = .ok os ∧ resA = (results c S base .any o os).infos ∧
        resL = (results c S base .all o os).infos := by
  simp only [spfsCode, SpfsCode.spfs]
  cases rootOrderings o pre with
  | error e => simp
  | ok os =>
    simp only [Except.ok.injEq, exists_eq_left']
    constructor
    · rintro ⟨rfl, rfl⟩; exact ⟨rfl, rfl⟩
    · rintro ⟨rfl, rfl⟩; exact ⟨rfl, rfl⟩

/-- If one run succeeds so does the other. -/
theorem C05_code_any_ok_spfs :
    (∃ resA, SpfsCode.spfs .any c S base o pre = .ok resA) ↔
      (∃ resL, spfsCode c S base o pre = .ok resL) := by
  simp only [spfsCode, SpfsCode.spfs]
  cases rootOrderings o pre <;> simp

/-- **At most one solution** (all inputs). -/
theorem C05_code_any_card_spfs (resA : List Sol)
    (hA : SpfsCode.spfs .any c S base o pre = .ok resA) : resA.length ≤ 1 := by
  obtain ⟨resL, hL⟩ := (C05_code_any_ok_spfs c S base o pre).mp ⟨resA, hA⟩
  obtain ⟨os, _, rfl, _⟩ := (spfs_ok_iff c S base o pre resA resL).mp ⟨hA, hL⟩
  exact (results_rel c S base o os).1

/-- **Empty results coincide** (all inputs, all unit costs). -/
theorem C05_code_any_empty_iff_spfs (resA resL : List Sol)
    (hA : SpfsCode.spfs .any c S base o pre = .ok resA) (hL : spfsCode c S base o pre = .ok resL) :
    resA = [] ↔ resL = [] := by
  obtain ⟨os, _, rfl, rfl⟩ := (spfs_ok_iff c S base o pre resA resL).mp ⟨hA, hL⟩
  exact (results_rel c S base o os).2.1

/-- **Exactly one solution** whenever the ALL result is not empty. -/
theorem C05_code_any_total_spfs (resA resL : List Sol)
    (hA : SpfsCode.spfs .any c S base o pre = .ok resA) (hL : spfsCode c S base o pre = .ok resL)
    (hne : resL ≠ []) : resA.length = 1 := by
  have h1 : resA ≠ [] := fun h => hne ((C05_code_any_empty_iff_spfs c S base o pre resA resL hA hL).mp h)
  have h2 := C05_code_any_card_spfs c S base o pre resA hA
  cases resA with
  | nil => exact absurd rfl h1
  | cons x xs => simp at h2; simp [h2]

/-- The evaluated cost is constant on the decodings of each root cell of the ALL tables. -/
def UniformSpfs (c : Costs) (S : RTree) (base : Bool) (o : OTree) (os : List (List Nat)) : Prop :=
  ∀ order ∈ os, ∀ sp ∈ levelorder S,
    ∀ x ∈ decodeTable order (computeTable c S base .all order true o) sp (subseqComplete order),
    ∀ y ∈ decodeTable order (computeTable c S base .all order true o) sp (subseqComplete order),
      totalCost c .ordered o x = totalCost c .ordered o y

/-- Membership and equal values, under the exact hypothesis. -/
theorem C05_code_any_mem_spfs_of_uniform (os : List (List Nat)) (hos : rootOrderings o pre = .ok os)
    (hu : UniformSpfs c S base o os) :
    ∃ resA resL, SpfsCode.spfs .any c S base o pre = .ok resA ∧
      spfsCode c S base o pre = .ok resL ∧
      (results c S base .any o os).value = (results c S base .all o os).value ∧
      ∀ sol ∈ resA, sol ∈ resL := by
  refine ⟨(results c S base .any o os).infos, (results c S base .all o os).infos,
    by simp only [SpfsCode.spfs, hos], by simp only [spfsCode, SpfsCode.spfs, hos], ?_⟩
  apply (results_rel c S base o os).2.2
  intro k hk x hx y hy
  simp only [rootKeys, List.mem_flatMap, List.mem_map] at hk
  obtain ⟨order, ho, sp, hsp, rfl⟩ := hk
  exact hu order ho sp hsp x hx y hy

/-- Inside the coherent region the table value is the evaluated cost of every decoding. -/
theorem uniformSpfs (os : List (List Nat)) (hos : ∀ order ∈ os, order ∈ rootOrders o pre)
    (hord : C02.OrdersOk o pre) (hb : S.isBinary = true)
    (hS : ∀ p ∈ leafSpecies o, S.isNode p = true)
    (hcoh : c.spe + 2 * c.sloss ≤ c.dup + 2 * c.floss) : UniformSpfs c S base o os := by
  intro order ho sp _ x hx y hy
  have hro := hos order ho
  have hlv := (hord order hro).2
  obtain ⟨d, hd, hsp, hlab, lx, hlx, rfl⟩ :=
    (C02.C02_code_decode c S base order o hS hlv true sp _ x).mp hx
  obtain ⟨d', hd', hsp', hlab', ly, hly, rfl⟩ :=
    (C02.C02_code_decode c S base order o hS hlv true sp _ y).mp hy
  have hdd : d' = d := dp_functional (ordAlg c) c S true _ hd' hd (by rw [hsp', hsp])
    (by rw [hlab', hlab])
  subst hdd
  have hg : d'.sols.map (ordSol order) ∈ spfsGroups c S base o pre := by
    simp only [spfsGroups, List.mem_flatMap, List.mem_map]
    exact ⟨order, hro, d', (C02.mem_spfsCellsFor c S base o).mpr ⟨hd, hlab⟩, rfl⟩
  exact spfs_uniform c S base o pre hord hb hS hcoh _ hg _ (List.mem_map.mpr ⟨lx, hlx, rfl⟩)
    _ (List.mem_map.mpr ⟨ly, hly, rfl⟩)

/-- **C05 (`any` ∈ `all`) for the code-structured ordered solvers**, inside the coherent
    region: the hypotheses of `C05_any_mem_spfs`, and the root orderings tried are those
    of `rootOrders` (the guard of `C02_code_refines`; see `_none` / `_prescribed`). -/
theorem C05_code_any_mem_spfs (hord : C02.OrdersOk o pre) (hb : S.isBinary = true)
    (hS : ∀ p ∈ leafSpecies o, S.isNode p = true)
    (hcoh : c.spe + 2 * c.sloss ≤ c.dup + 2 * c.floss)
    (horders : ∃ os, rootOrderings o pre = .ok os ∧ ∀ order, order ∈ os ↔ order ∈ rootOrders o pre) :
    ∃ resA resL, SpfsCode.spfs .any c S base o pre = .ok resA ∧
      spfsCode c S base o pre = .ok resL ∧ resA.length ≤ 1 ∧ (resA = [] ↔ resL = []) ∧
      ∀ sol ∈ resA, sol ∈ resL ∧ sol ∈ spfs c S base o pre := by
  obtain ⟨os, hos, hmem⟩ := horders
  obtain ⟨resA, resL, hA, hL, _, hsub⟩ := C05_code_any_mem_spfs_of_uniform c S base o pre os hos
    (uniformSpfs c S base o pre os (fun order h => (hmem order).mp h) hord hb hS hcoh)
  obtain ⟨res, hres, hiff, _⟩ := C02.C02_code_refines c S base o pre hS
    (fun order h => (hord order h).2) ⟨os, hos, hmem⟩
  have : res = resL := by rw [hL] at hres; exact (Except.ok.inj hres).symm
  subst this
  exact ⟨resA, res, hA, hL, C05_code_any_card_spfs c S base o pre resA hA,
    C05_code_any_empty_iff_spfs c S base o pre resA res hA hL,
    fun sol h => ⟨hsub sol h, (hiff sol).mp (hsub sol h)⟩⟩

/-- Without a prescribed root order: non-empty leaf syntenies (distinct families when the
    input is a single leaf). -/
theorem C05_code_any_mem_spfs_none (hne : ∀ f ∈ leafSyntenies o, f ≠ [])
    (hleaf : ∀ sp f, o = .leaf sp f → f.Nodup) (hb : S.isBinary = true)
    (hS : ∀ p ∈ leafSpecies o, S.isNode p = true)
    (hcoh : c.spe + 2 * c.sloss ≤ c.dup + 2 * c.floss) :
    ∃ resA resL, SpfsCode.spfs .any c S base o none = .ok resA ∧
      spfsCode c S base o none = .ok resL ∧ resA.length ≤ 1 ∧ (resA = [] ↔ resL = []) ∧
      ∀ sol ∈ resA, sol ∈ resL ∧ sol ∈ spfs c S base o none := by
  obtain ⟨os, hos, _, hmem⟩ := C02.C02_code_orders_none o hne hleaf
  exact C05_code_any_mem_spfs c S base o none (C02.C02_orders_ok o hne) hb hS hcoh ⟨os, hos, hmem⟩

/-- With a prescribed duplicate-free root order containing every (non-empty) leaf synteny. -/
theorem C05_code_any_mem_spfs_prescribed (r : List Nat) (hnd : r.Nodup)
    (h : ∀ f ∈ leafSyntenies o, f ≠ [] ∧ f.Sublist r) (hb : S.isBinary = true)
    (hS : ∀ p ∈ leafSpecies o, S.isNode p = true)
    (hcoh : c.spe + 2 * c.sloss ≤ c.dup + 2 * c.floss) :
    ∃ resA resL, SpfsCode.spfs .any c S base o (some r) = .ok resA ∧
      spfsCode c S base o (some r) = .ok resL ∧ resA.length ≤ 1 ∧ (resA = [] ↔ resL = []) ∧
      ∀ sol ∈ resA, sol ∈ resL ∧ sol ∈ spfs c S base o (some r) :=
  C05_code_any_mem_spfs c S base o (some r) (C02.C02_orders_ok_prescribed o r hnd h) hb hS hcoh
    ⟨_, rfl, fun _ => Iff.rfl⟩

/-- Both policies agree on the cost. -/
theorem C05_code_any_same_cost_spfs (hord : C02.OrdersOk o pre) (hb : S.isBinary = true)
    (hS : ∀ p ∈ leafSpecies o, S.isNode p = true)
    (hcoh : c.spe + 2 * c.sloss ≤ c.dup + 2 * c.floss)
    (horders : ∃ os, rootOrderings o pre = .ok os ∧ ∀ order, order ∈ os ↔ order ∈ rootOrders o pre)
    (resA resL : List Sol) (hA : SpfsCode.spfs .any c S base o pre = .ok resA)
    (hL : spfsCode c S base o pre = .ok resL) :
    ∀ sol ∈ resA, ∀ sol' ∈ resL, totalCost c .ordered o sol = totalCost c .ordered o sol' := by
  obtain ⟨resA', resL', hA', hL', _, _, hmem⟩ :=
    C05_code_any_mem_spfs c S base o pre hord hb hS hcoh horders
  have e1 : resA' = resA := by rw [hA] at hA'; exact (Except.ok.inj hA').symm
  have e2 : resL' = resL := by rw [hL] at hL'; exact (Except.ok.inj hL').symm
  subst e1; subst e2
  obtain ⟨res, hres, hiff, _⟩ := C02.C02_code_refines c S base o pre hS
    (fun order h => (hord order h).2) horders
  have e3 : res = resL' := by rw [hL] at hres; exact (Except.ok.inj hres).symm
  subst e3
  intro sol hsol sol' hsol'
  exact C05_same_cost c .ordered o _ sol sol' ((hiff sol).mp (hmem sol hsol).1) ((hiff sol').mp hsol')

end solver

/-! ### Non-vacuity -/

/-- Two compatible root orders, ties: four ALL solutions, the ANY run returns one of them;
    the guards of `C05_code_any_mem_spfs_none` hold. -/
example :
    let c : Costs := { spe := 0, dup := 1, hgt := .fin 1, floss := 1, sloss := 1 }
    let S : RTree := .node [.node [], .node []]
    let o : OTree := .node (.leaf [0] [0]) (.leaf [1] [1])
    c.spe + 2 * c.sloss ≤ c.dup + 2 * c.floss ∧ S.isBinary = true ∧
    (∀ p ∈ leafSpecies o, S.isNode p = true) ∧ (∀ f ∈ leafSyntenies o, f ≠ []) ∧
    (∃ resA resL, SpfsCode.spfs .any c S false o none = .ok resA ∧
      spfsCode c S false o none = .ok resL ∧ resA.length = 1 ∧ 2 ≤ resL.length ∧
      ∀ s ∈ resA, s ∈ resL) := by
  refine ⟨by decide, by decide, by decide, by decide, _, _, rfl, rfl, ?_⟩
  decide +kernel

/-- Inconsistent leaf orders: both results are empty; an empty leaf synteny: both raise. -/
example :
    let c : Costs := { spe := 1, dup := 1, hgt := .fin 1, floss := 1, sloss := 1 }
    let S : RTree := .node [.node [], .node []]
    SpfsCode.spfs .any c S false (.node (.leaf [0] [0, 1]) (.leaf [1] [1, 0])) none = .ok [] ∧
    spfsCode c S false (.node (.leaf [0] [0, 1]) (.leaf [1] [1, 0])) none = .ok [] ∧
    SpfsCode.spfs .any c S false (.node (.leaf [0] []) (.leaf [1] [1])) none = .error .indexError := by
  decide +kernel

end SR.C05
