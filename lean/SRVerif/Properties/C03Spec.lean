/-
  C03 — adequacy of the specification oracle `Spec.optimum … .unordered` with respect to
  EVERY valid set-labelled solution, and the end-to-end optimality of the unordered
  solvers `uspfs` (`usreconcile_extended_uspfs` = SuperDTL, `usreconcile_base_uspfs`).

  A valid solution (`Spec.validSol .unordered o σ`): shape of `o`, leaves in their given
  species holding their given family sets, no INVALID event, every family of an internal
  node allowed there (its gain node is the node or an ancestor), every family of a child
  held by the parent or gained AT the child.  The family LISTS are arbitrary (any order,
  repetitions allowed).  Its cost is the evaluator's `totalCost c .unordered o σ`
  (`_cost_rec` + `sloss · _unordered_labeling_cost`).

  Oracle (`Spec/Opt.lean`): the tree recursion "minimum over the states (species, family
  set between required and allowed content, as a strictly increasing list) of both
  children of the evaluator's local cost".

  Proved here, for unbounded inputs and all unit costs (no coherence hypothesis for the
  oracle: it shares nothing with the optimiser):
  * `C03_norm`               sorting and deduplicating every internal label
      (`Spec.normSol`) keeps validity, species and the evaluated cost; the result is
      `Spec.Normal`;
  * `C03_valid_required`     every node of a valid solution holds its REQUIRED content
      (families below it that are not gained strictly below it) — a consequence of
      validity, not part of its definition;
  * `C03_oracle_le` (a)      the oracle's optimum is at most the cost of every valid solution
      (species tree containing the leaf species); `C03_oracle_le_base` for `base` among the
      solutions that use the LCA mapping; `C03_oracle_le_gen` the general form;
  * `C03_oracle_attained` (b) a finite optimum is the cost of a valid solution: with (a),
      `optimum.1` IS the minimum over all valid solutions;
  * `C03_oracle_sols_sound`, `C03_oracle_sols_complete`, `C03_oracle_sols`,
    `C03_oracle_sols_base` (c) the oracle's optimal set is exactly the set of NORMAL valid
      solutions of minimum finite cost, each once;
  * `C03_optimal`, `C03_ext_optimal`, `C03_base_optimal`  END TO END, for a binary species
      tree containing the leaf species and `spe + sloss ≤ dup + 2·floss` (implied by the
      coherent region): every solution returned by `uspfs` is valid and no valid solution
      (species mapping and family labelling arbitrary; LCA mapping for `base`) is cheaper;
  * `C03_base_mapping`       the base solver's solutions use the LCA mapping;
  * `C03_uspfs_subset_optimum`, `C03_uspfs_eq_canon_optimum`  the solver (policy ALL)
      returns exactly the CANONICAL members of the oracle's optimal set (C05 for the
      unordered solvers, against the oracle);
  * `C03_ext_exact`, `C03_base_exact`  hence `uspfs` returns exactly the canonical valid
      solutions of minimum finite evaluated cost among ALL valid solutions, each once;
  * `C03_optimum_finite`     under the guards the optimum is finite.
-/
import SRVerif.Properties.C03Full
import SRVerif.Proofs.OptAdequacyUn

namespace SR.C03

open SR Cost Spec

/-! ### Normalisation and required content -/

/-- Sorting and deduplicating every internal family list keeps validity, the species
    mapping and the evaluated cost, and yields strictly increasing labels. -/
theorem C03_norm (c : Costs) (o : OTree) (σ : Sol) (hv : Spec.validSol .unordered o σ = true) :
    Spec.validSol .unordered o (normSol σ) = true ∧ Normal (normSol σ) ∧
    sameMapping (normSol σ) σ = true ∧
    totalCost c .unordered o (normSol σ) = totalCost c .unordered o σ := by
  refine ⟨validSol_un_normSol o σ hv, normal_normSol σ, ?_, totalCost_normSol c o σ⟩
  clear hv
  induction σ with
  | leaf s g => simp [normSol, sameMapping]
  | node s f l r ihl ihr => simp [normSol, sameMapping, ihl, ihr]

/-- Every node of a valid solution holds its required content. -/
theorem C03_valid_required (o : OTree) (σ : Sol) (hv : Spec.validSol .unordered o σ = true) :
    HoldsRequired o [] σ := by
  simp only [Spec.validSol, Bool.and_eq_true] at hv
  exact holdsRequired_of_valid o o [] σ (isSub_root o) hv.2

variable (c : Costs) (S : RTree) (o : OTree)

/-! ### The oracle -/

/-- **(a), general form** (either variant): the oracle's optimum is at most the evaluated
    cost of every valid solution with allowed species. -/
theorem C03_oracle_le_gen (base keep : Bool) (σ : Sol)
    (hv : Spec.validSol .unordered o σ = true) (hs : SpeciesOk S base o σ) :
    Cost.le (Spec.optimum c S .unordered base keep o none).1 (totalCost c .unordered o σ) = true := by
  simp only [Spec.validSol, Bool.and_eq_true] at hv
  exact optimum_un_le_gen c S o base keep none σ hv.1 hv.2 hs

/-- **(a)** The oracle's optimum is a lower bound of the cost of EVERY valid set-labelled
    solution (any species mapping, any family labelling). -/
theorem C03_oracle_le (keep : Bool) (hS : ∀ p ∈ leafSpecies o, S.isNode p = true) (σ : Sol)
    (hv : Spec.validSol .unordered o σ = true) :
    Cost.le (Spec.optimum c S .unordered false keep o none).1 (totalCost c .unordered o σ) = true := by
  have hr : Spec.validRec o σ = true := by
    simp only [Spec.validSol, Bool.and_eq_true] at hv; exact hv.1
  exact C03_oracle_le_gen c S o false keep σ hv (speciesOk_of_valid S o σ hS hr)

/-- **(a), base**: among the valid solutions whose species mapping is the LCA mapping. -/
theorem C03_oracle_le_base (keep : Bool) (σ : Sol)
    (hv : Spec.validSol .unordered o σ = true) (hm : sameMapping σ (lcaSol o) = true) :
    Cost.le (Spec.optimum c S .unordered true keep o none).1 (totalCost c .unordered o σ) = true := by
  have hr : Spec.validRec o σ = true := by
    simp only [Spec.validSol, Bool.and_eq_true] at hv; exact hv.1
  exact C03_oracle_le_gen c S o true keep σ hv ((speciesOk_base_iff S o σ hr).mpr hm)

/-- **(b) The optimum is attained**: a finite oracle optimum is the cost of a valid solution
    (with allowed species, strictly increasing labels). -/
theorem C03_oracle_attained (base keep : Bool)
    (h : (Spec.optimum c S .unordered base keep o none).1 ≠ .inf) :
    ∃ σ, Spec.validSol .unordered o σ = true ∧ SpeciesOk S base o σ ∧ Normal σ ∧
      totalCost c .unordered o σ = (Spec.optimum c S .unordered base keep o none).1 :=
  optimum_un_attained c S o base keep none h

/-- **(c), soundness**: every member of the oracle's optimal set is a valid solution (with
    allowed species and strictly increasing labels) whose cost is the — finite — optimum. -/
theorem C03_oracle_sols_sound (base : Bool) (σ : Sol)
    (h : σ ∈ (Spec.optimum c S .unordered base true o none).2) :
    Spec.validSol .unordered o σ = true ∧ SpeciesOk S base o σ ∧ Normal σ ∧
      totalCost c .unordered o σ = (Spec.optimum c S .unordered base true o none).1 ∧
      totalCost c .unordered o σ ≠ .inf := by
  obtain ⟨hv, hs, hn, hc, hfin⟩ := (mem_optimum_un_sols c S o base none σ).mp h
  exact ⟨hv, hs, hn, hc, by rw [hc]; exact hfin⟩

/-- **(c), completeness, general form**. -/
theorem C03_oracle_sols_complete_gen (base : Bool) (σ : Sol)
    (hv : Spec.validSol .unordered o σ = true) (hs : SpeciesOk S base o σ) (hn : Normal σ)
    (hc : totalCost c .unordered o σ = (Spec.optimum c S .unordered base true o none).1)
    (hfin : totalCost c .unordered o σ ≠ .inf) :
    σ ∈ (Spec.optimum c S .unordered base true o none).2 :=
  (mem_optimum_un_sols c S o base none σ).mpr ⟨hv, hs, hn, hc, by rw [← hc]; exact hfin⟩

/-- **(c), completeness**: every valid solution with strictly increasing labels whose
    (finite) cost is the optimum is a member. -/
theorem C03_oracle_sols_complete (hS : ∀ p ∈ leafSpecies o, S.isNode p = true) (σ : Sol)
    (hv : Spec.validSol .unordered o σ = true) (hn : Normal σ)
    (hc : totalCost c .unordered o σ = (Spec.optimum c S .unordered false true o none).1)
    (hfin : totalCost c .unordered o σ ≠ .inf) :
    σ ∈ (Spec.optimum c S .unordered false true o none).2 := by
  have hr : Spec.validRec o σ = true := by
    simp only [Spec.validSol, Bool.and_eq_true] at hv; exact hv.1
  exact C03_oracle_sols_complete_gen c S o false σ hv (speciesOk_of_valid S o σ hS hr) hn hc hfin

/-- **(c)** The oracle's optimal set is exactly the set of valid solutions with strictly
    increasing labels of minimum (finite) evaluated cost AMONG ALL VALID SOLUTIONS. -/
theorem C03_oracle_sols (hS : ∀ p ∈ leafSpecies o, S.isNode p = true) (σ : Sol) :
    σ ∈ (Spec.optimum c S .unordered false true o none).2 ↔
      Spec.validSol .unordered o σ = true ∧ Normal σ ∧ totalCost c .unordered o σ ≠ .inf ∧
      ∀ σ', Spec.validSol .unordered o σ' = true →
        Cost.le (totalCost c .unordered o σ) (totalCost c .unordered o σ') = true := by
  constructor
  · intro h
    obtain ⟨hv, _, hn, hc, hfin⟩ := C03_oracle_sols_sound c S o false σ h
    refine ⟨hv, hn, hfin, fun σ' hv' => ?_⟩
    rw [hc]; exact C03_oracle_le c S o true hS σ' hv'
  · rintro ⟨hv, hn, hfin, hmin⟩
    refine C03_oracle_sols_complete c S o hS σ hv hn (le_antisymm ?_ ?_) hfin
    · by_cases hinf : (Spec.optimum c S .unordered false true o none).1 = .inf
      · rw [hinf]; exact le_inf _
      · obtain ⟨σ', hv', _, _, hc'⟩ := C03_oracle_attained c S o false true hinf
        rw [← hc']; exact hmin σ' hv'
    · exact C03_oracle_le c S o true hS σ hv

theorem C03_oracle_sols_nodup (base keep : Bool) :
    (Spec.optimum c S .unordered base keep o none).2.Nodup := nodup_optimum_sols c S base _ _ _ _

/-- **(c), base**: the optimal set among the solutions that use the LCA mapping. -/
theorem C03_oracle_sols_base (σ : Sol) :
    σ ∈ (Spec.optimum c S .unordered true true o none).2 ↔
      Spec.validSol .unordered o σ = true ∧ sameMapping σ (lcaSol o) = true ∧ Normal σ ∧
      totalCost c .unordered o σ ≠ .inf ∧
      ∀ σ', Spec.validSol .unordered o σ' = true → sameMapping σ' (lcaSol o) = true →
        Cost.le (totalCost c .unordered o σ) (totalCost c .unordered o σ') = true := by
  have hrec : ∀ τ, Spec.validSol .unordered o τ = true → Spec.validRec o τ = true := by
    intro τ h; simp only [Spec.validSol, Bool.and_eq_true] at h; exact h.1
  constructor
  · intro h
    obtain ⟨hv, hs, hn, hc, hfin⟩ := C03_oracle_sols_sound c S o true σ h
    refine ⟨hv, (speciesOk_base_iff S o σ (hrec σ hv)).mp hs, hn, hfin, fun σ' hv' hm' => ?_⟩
    rw [hc]; exact C03_oracle_le_base c S o true σ' hv' hm'
  · rintro ⟨hv, hm, hn, hfin, hmin⟩
    have hs := (speciesOk_base_iff S o σ (hrec σ hv)).mpr hm
    refine C03_oracle_sols_complete_gen c S o true σ hv hs hn (le_antisymm ?_ ?_) hfin
    · by_cases hinf : (Spec.optimum c S .unordered true true o none).1 = .inf
      · rw [hinf]; exact le_inf _
      · obtain ⟨σ', hv', hs', _, hc'⟩ := C03_oracle_attained c S o true true hinf
        rw [← hc']
        exact hmin σ' hv' ((speciesOk_base_iff S o σ' (hrec σ' hv')).mp hs')
    · exact C03_oracle_le_base c S o true σ hv hm

/-! ### End to end -/

/-- **C03, end to end, both variants.**  For a binary species tree containing the leaf
    species and `spe + sloss ≤ dup + 2·floss`: every solution returned by `uspfs` is a valid
    unordered super-reconciliation, and no valid solution with allowed species (nodes of
    `S`; the LCA species for `base`) — whatever its family labelling — is cheaper. -/
theorem C03_optimal (base : Bool) (hb : S.isBinary = true)
    (hS : ∀ p ∈ leafSpecies o, S.isNode p = true)
    (hcoh : c.spe + c.sloss ≤ c.dup + 2 * c.floss) :
    ∀ σ ∈ uspfs c S base o,
      Spec.validSol .unordered o σ = true ∧
      ∀ σ', Spec.validSol .unordered o σ' = true → SpeciesOk S base o σ' →
        Cost.le (totalCost c .unordered o σ) (totalCost c .unordered o σ') = true := by
  intro σ hσ
  refine ⟨(C04.C04_unord c S base o σ hσ).1, fun σ' hv' hs' => ?_⟩
  rw [C03_full_eq c S base o hb hS hcoh σ hσ]
  exact C03_oracle_le_gen c S o base false σ' hv' hs'

/-- **C03, SuperDTL, end to end**: no valid solution at all is cheaper (every valid
    solution maps into `S`, because the leaf species are nodes of `S`). -/
theorem C03_ext_optimal (hb : S.isBinary = true) (hS : ∀ p ∈ leafSpecies o, S.isNode p = true)
    (hcoh : c.spe + c.sloss ≤ c.dup + 2 * c.floss) :
    ∀ σ ∈ uspfs c S false o,
      Spec.validSol .unordered o σ = true ∧
      ∀ σ', Spec.validSol .unordered o σ' = true →
        Cost.le (totalCost c .unordered o σ) (totalCost c .unordered o σ') = true := by
  intro σ hσ
  obtain ⟨hv, hmin⟩ := C03_optimal c S o false hb hS hcoh σ hσ
  refine ⟨hv, fun σ' hv' => hmin σ' hv' ?_⟩
  have hr : Spec.validRec o σ' = true := by
    simp only [Spec.validSol, Bool.and_eq_true] at hv'; exact hv'.1
  exact speciesOk_of_valid S o σ' hS hr

/-- Every solution returned by the base solver uses the LCA species mapping. -/
theorem C03_base_mapping (hb : S.isBinary = true) (hS : ∀ p ∈ leafSpecies o, S.isNode p = true)
    (hcoh : c.spe + c.sloss ≤ c.dup + 2 * c.floss) :
    ∀ σ ∈ uspfs c S true o, sameMapping σ (lcaSol o) = true := by
  intro σ hσ
  obtain ⟨⟨hv, _, hsp⟩, _⟩ := C03_canonical_opt c S true o hb hS hcoh σ hσ
  have hr : Spec.validRec o σ = true := by
    simp only [Spec.validSol, Bool.and_eq_true] at hv; exact hv.1
  exact (speciesOk_base_iff S o σ hr).mp ((speciesOk_iff_spAllowed S true o σ).mpr hsp)

/-- **C03, base solver, end to end**: valid, LCA-mapped, and no valid LCA-mapped solution
    is cheaper. -/
theorem C03_base_optimal (hb : S.isBinary = true) (hS : ∀ p ∈ leafSpecies o, S.isNode p = true)
    (hcoh : c.spe + c.sloss ≤ c.dup + 2 * c.floss) :
    ∀ σ ∈ uspfs c S true o,
      Spec.validSol .unordered o σ = true ∧ sameMapping σ (lcaSol o) = true ∧
      ∀ σ', Spec.validSol .unordered o σ' = true → sameMapping σ' (lcaSol o) = true →
        Cost.le (totalCost c .unordered o σ) (totalCost c .unordered o σ') = true := by
  intro σ hσ
  obtain ⟨hv, hmin⟩ := C03_optimal c S o true hb hS hcoh σ hσ
  refine ⟨hv, C03_base_mapping c S o hb hS hcoh σ hσ, fun σ' hv' hm' => hmin σ' hv' ?_⟩
  have hr : Spec.validRec o σ' = true := by
    simp only [Spec.validSol, Bool.and_eq_true] at hv'; exact hv'.1
  exact (speciesOk_base_iff S o σ' hr).mpr hm'

/-- Under the guards the oracle's optimum is finite (the solver's result is never empty
    and has finite cost). -/
theorem C03_optimum_finite (base keep : Bool) (hb : S.isBinary = true)
    (hS : ∀ p ∈ leafSpecies o, S.isNode p = true)
    (hcoh : c.spe + c.sloss ≤ c.dup + 2 * c.floss) :
    (Spec.optimum c S .unordered base keep o none).1 ≠ .inf := by
  obtain ⟨m, hm⟩ := List.exists_mem_of_ne_nil _ (C03_uspfs_total c S base o hb hS)
  rw [optimum_fst_keep c S base .unordered keep false o none,
    ← C03_full_eq c S base o hb hS hcoh m hm]
  exact C04.C04_unord_finite c S base o m hm

/-! ### The solver against the oracle's optimal set -/

/-- **C05 (⊆)**: every returned solution is a member of the oracle's optimal set. -/
theorem C03_uspfs_subset_optimum (base : Bool) (hb : S.isBinary = true)
    (hS : ∀ p ∈ leafSpecies o, S.isNode p = true)
    (hcoh : c.spe + c.sloss ≤ c.dup + 2 * c.floss) :
    ∀ σ ∈ uspfs c S base o,
      σ ∈ (Spec.optimum c S .unordered base true o none).2 ∧
      totalCost c .unordered o σ = (Spec.optimum c S .unordered base true o none).1 := by
  intro σ hσ
  obtain ⟨hf, hcost⟩ := C03_result_feasible c S base o σ hσ
  have hc : totalCost c .unordered o σ = (Spec.optimum c S .unordered base true o none).1 := by
    rw [C03_full_eq c S base o hb hS hcoh σ hσ]
    exact optimum_fst_keep c S base .unordered false true o none
  refine ⟨(mem_optimum_sols c S base .unordered o none σ).mpr
    ⟨.unordered, by simp [modeDatas], hf, by rw [hcost, hc], ?_⟩, hc⟩
  rw [← hc]; exact C04.C04_unord_finite c S base o σ hσ

/-- **C05 against the oracle**: the solver (policy ALL) returns exactly the CANONICAL
    members of the oracle's optimal set — the canonical restriction loses optimal
    solutions (non-canonical co-optima exist) but never the optimum. -/
theorem C03_uspfs_eq_canon_optimum (base : Bool) (hb : S.isBinary = true)
    (hS : ∀ p ∈ leafSpecies o, S.isNode p = true)
    (hcoh : c.spe + c.sloss ≤ c.dup + 2 * c.floss) (σ : Sol) :
    σ ∈ uspfs c S base o ↔
      σ ∈ (Spec.optimum c S .unordered base true o none).2 ∧ Spec.canonicalUn o [] [] σ = true := by
  constructor
  · intro hσ
    exact ⟨(C03_uspfs_subset_optimum c S o base hb hS hcoh σ hσ).1,
      (C03_canonical_opt c S base o hb hS hcoh σ hσ).1.2.1⟩
  · rintro ⟨hopt, hcan⟩
    obtain ⟨hv, hs, _, hc, hfin⟩ := C03_oracle_sols_sound c S o base σ hopt
    refine C03_canonical_complete c S base o hb hS hcoh σ
      ⟨hv, hcan, (speciesOk_iff_spAllowed S base o σ).mp hs⟩ hfin ?_
    rintro σ' ⟨hv', _, hs'⟩
    rw [hc]
    exact C03_oracle_le_gen c S o base true σ' hv' ((speciesOk_iff_spAllowed S base o σ').mpr hs')

/-- **C03 + C05, SuperDTL, exact form**: `usreconcile_extended_uspfs` (policy ALL) returns
    exactly the canonical valid solutions of minimum (finite) evaluated cost among ALL
    valid solutions, each once. -/
theorem C03_ext_exact (hb : S.isBinary = true) (hS : ∀ p ∈ leafSpecies o, S.isNode p = true)
    (hcoh : c.spe + c.sloss ≤ c.dup + 2 * c.floss) :
    (∀ σ, σ ∈ uspfs c S false o ↔
      Spec.validSol .unordered o σ = true ∧ Spec.canonicalUn o [] [] σ = true ∧
      totalCost c .unordered o σ ≠ .inf ∧
      ∀ σ', Spec.validSol .unordered o σ' = true →
        Cost.le (totalCost c .unordered o σ) (totalCost c .unordered o σ') = true) ∧
    (uspfs c S false o).Nodup := by
  refine ⟨fun σ => ⟨fun hσ => ?_, ?_⟩, nodup_rankByCost _ _ _ _⟩
  · obtain ⟨hv, hmin⟩ := C03_ext_optimal c S o hb hS hcoh σ hσ
    exact ⟨hv, (C03_canonical_opt c S false o hb hS hcoh σ hσ).1.2.1,
      C04.C04_unord_finite c S false o σ hσ, hmin⟩
  · rintro ⟨hv, hcan, hfin, hmin⟩
    have hr : Spec.validRec o σ = true := by
      simp only [Spec.validSol, Bool.and_eq_true] at hv; exact hv.1
    refine C03_canonical_complete c S false o hb hS hcoh σ
      ⟨hv, hcan, (speciesOk_iff_spAllowed S false o σ).mp (speciesOk_of_valid S o σ hS hr)⟩ hfin ?_
    rintro σ' ⟨hv', _, _⟩
    exact hmin σ' hv'

/-- **C03 + C05, base solver, exact form**: the same among the solutions that use the LCA
    species mapping. -/
theorem C03_base_exact (hb : S.isBinary = true) (hS : ∀ p ∈ leafSpecies o, S.isNode p = true)
    (hcoh : c.spe + c.sloss ≤ c.dup + 2 * c.floss) :
    (∀ σ, σ ∈ uspfs c S true o ↔
      Spec.validSol .unordered o σ = true ∧ sameMapping σ (lcaSol o) = true ∧
      Spec.canonicalUn o [] [] σ = true ∧ totalCost c .unordered o σ ≠ .inf ∧
      ∀ σ', Spec.validSol .unordered o σ' = true → sameMapping σ' (lcaSol o) = true →
        Cost.le (totalCost c .unordered o σ) (totalCost c .unordered o σ') = true) ∧
    (uspfs c S true o).Nodup := by
  have hrec : ∀ τ, Spec.validSol .unordered o τ = true → Spec.validRec o τ = true := by
    intro τ h; simp only [Spec.validSol, Bool.and_eq_true] at h; exact h.1
  refine ⟨fun σ => ⟨fun hσ => ?_, ?_⟩, nodup_rankByCost _ _ _ _⟩
  · obtain ⟨hv, hm, hmin⟩ := C03_base_optimal c S o hb hS hcoh σ hσ
    exact ⟨hv, hm, (C03_canonical_opt c S true o hb hS hcoh σ hσ).1.2.1,
      C04.C04_unord_finite c S true o σ hσ, hmin⟩
  · rintro ⟨hv, hm, hcan, hfin, hmin⟩
    refine C03_canonical_complete c S true o hb hS hcoh σ
      ⟨hv, hcan, (speciesOk_iff_spAllowed S true o σ).mp
        ((speciesOk_base_iff S o σ (hrec σ hv)).mpr hm)⟩ hfin ?_
    rintro σ' ⟨hv', _, hs'⟩
    exact hmin σ' hv' ((speciesOk_base_iff S o σ' (hrec σ' hv')).mp
      ((speciesOk_iff_spAllowed S true o σ').mpr hs'))

/-! ### Non-vacuity -/

/-- A well-formed coherent input on which a VALID solution with unsorted labels containing
    a repetition exists: it is outside the oracle's label space (not a member of the
    optimal set), yet its cost is bounded below by the oracle's optimum — here it attains
    it — and its normalisation is the member the solver returns. -/
example :
    let c : Costs := { spe := 0, dup := 1, hgt := .fin 1, floss := 1, sloss := 1 }
    let S : RTree := .node [.node [], .node []]
    let o : OTree :=
      .node (.node (.leaf [0] [1, 2]) (.node (.leaf [0] [1]) (.leaf [0] [1]))) (.leaf [1] [1, 2])
    let messy : Sol :=
      .node [] [2, 1, 2] (.node [0] [2, 1] (.leaf [0] [1, 2]) (.node [0] [1] (.leaf [0] [1]) (.leaf [0] [1])))
        (.leaf [1] [1, 2])
    S.isBinary = true ∧ (∀ p ∈ leafSpecies o, S.isNode p = true) ∧
    c.spe + c.sloss ≤ c.dup + 2 * c.floss ∧
    Spec.validSol .unordered o messy = true ∧ normSol messy ≠ messy ∧
    messy ∉ (Spec.optimum c S .unordered false true o none).2 ∧
    normSol messy ∈ (Spec.optimum c S .unordered false true o none).2 ∧
    totalCost c .unordered o messy = .fin 2 ∧
    (Spec.optimum c S .unordered false true o none).1 = .fin 2 ∧
    uspfs c S false o = [normSol messy] := by
  decide +kernel

/-- With `sloss = 0` NON-canonical optimal solutions exist (the node above the two `{1}`
    leaves may hold `{1, 2}` or `{1, 3}`, strictly between its required content `{1}` and
    its parent's `{1, 2, 3}`): the oracle's optimal set has four members, the solver returns
    exactly its two canonical ones (`C03_uspfs_eq_canon_optimum`). -/
example :
    let c : Costs := { spe := 0, dup := 1, hgt := .fin 1, floss := 1, sloss := 0 }
    let S : RTree := .node [.node [], .node []]
    let o : OTree :=
      .node (.node (.leaf [0] [1, 2, 3]) (.node (.leaf [0] [1]) (.leaf [0] [1]))) (.leaf [1] [1, 2, 3])
    let nonCanon : Sol :=
      .node [] [1, 2, 3] (.node [0] [1, 2, 3] (.leaf [0] [1, 2, 3])
        (.node [0] [1, 2] (.leaf [0] [1]) (.leaf [0] [1]))) (.leaf [1] [1, 2, 3])
    S.isBinary = true ∧ (∀ p ∈ leafSpecies o, S.isNode p = true) ∧
    c.spe + c.sloss ≤ c.dup + 2 * c.floss ∧
    (Spec.optimum c S .unordered false true o none).1 = .fin 2 ∧
    (Spec.optimum c S .unordered false true o none).2.length = 4 ∧
    nonCanon ∈ (Spec.optimum c S .unordered false true o none).2 ∧
    Spec.canonicalUn o [] [] nonCanon = false ∧ nonCanon ∉ uspfs c S false o ∧
    (uspfs c S false o).length = 2 ∧
    (∀ σ ∈ uspfs c S false o, σ ∈ (Spec.optimum c S .unordered false true o none).2) ∧
    ((Spec.optimum c S .unordered false true o none).2.filter
      (fun σ => Spec.canonicalUn o [] [] σ)).length = 2 := by
  decide +kernel

/-- Base variant: the LCA-mapped optimum is larger than the unrestricted one, the base
    solver attains it, and valid solutions that are not LCA-mapped are cheaper (so the
    restriction to LCA-mapped competitors in `C03_base_optimal` is necessary). -/
example :
    let c : Costs := { spe := 1, dup := 1, hgt := .fin 1, floss := 1, sloss := 1 }
    let S : RTree := .node [.node [.node [], .node []], .node []]
    let o : OTree := .node (.node (.leaf [0, 0] [1, 2]) (.leaf [1] [2])) (.leaf [0, 1] [1])
    S.isBinary = true ∧ (∀ p ∈ leafSpecies o, S.isNode p = true) ∧
    c.spe + c.sloss ≤ c.dup + 2 * c.floss ∧
    (Spec.optimum c S .unordered true true o none).1 = .fin 6 ∧
    (Spec.optimum c S .unordered false true o none).1 = .fin 2 ∧
    (uspfs c S true o).map (totalCost c .unordered o) = [.fin 6] ∧
    (uspfs c S false o).map (totalCost c .unordered o) = [.fin 2, .fin 2, .fin 2] ∧
    (∀ σ ∈ uspfs c S true o, sameMapping σ (lcaSol o) = true) ∧
    (∀ σ ∈ uspfs c S false o, sameMapping σ (lcaSol o) = false) ∧
    (Spec.optimum c S .unordered true true o none).2 = uspfs c S true o := by
  decide +kernel

end SR.C03
