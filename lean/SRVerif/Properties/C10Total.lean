/-
  C10 (continued) — the inequalities of `C10_guarded_statement` are stated as
  `∀ a ∈ result₁, ∀ b ∈ result₂, cost a ≤ cost b`; read alone they hold vacuously when
  `result₁` is empty, although "the optimum of an extended solver never exceeds that of its
  base variant" fails when the extended solver returns nothing where the base variant finds
  a solution.  The non-emptiness facts that exclude this are proved in other modules
  (C01, C03, C10Ext); this file assembles them with `C10_guarded` into one statement:
  whenever the solver on the right-hand side of an inequality returns something, so does
  the solver on the left-hand side (hence both optima are attained and compared).
-/
import SRVerif.Properties.C10UnOrd

namespace SR.C10

open SR Cost

/-- **C10, the four inequalities are never vacuous on the left.**  Under the guards of
    `C10_guarded_statement`: `thl`, `superdtl` and the base unordered solver always return
    something, and the extended ordered solver returns something whenever the base ordered
    solver does (both return nothing exactly when the leaf orders are inconsistent). -/
theorem C10_guarded_total (c : Costs) (S : RTree) (o : OTree) (hb : S.isBinary = true)
    (hS : ∀ p ∈ leafSpecies o, S.isNode p = true) (hne : ∀ f ∈ leafSyntenies o, f ≠ [])
    (hcoh : c.spe + 2 * c.sloss ≤ c.dup + 2 * c.floss) :
    (spfs c S true o none ≠ [] → spfs c S false o none ≠ []) ∧
    uspfs c S false o ≠ [] ∧ uspfs c S true o ≠ [] ∧ thl c S o ≠ [] :=
  ⟨(C10_ext_le_base_ordered c S o none (C02.C02_orders_ok o hne) hb hS hcoh).2,
   C03.C03_uspfs_total c S false o hb hS, C03.C03_uspfs_total c S true o hb hS,
   C01.C01_thl_total c S o hb hS⟩

/-- The guarded statement together with the non-emptiness facts. -/
theorem C10_guarded_nonvacuous :
    C10_guarded_statement ∧
    ∀ (c : Costs) (S : RTree) (o : OTree), S.isBinary = true →
      (∀ p ∈ leafSpecies o, S.isNode p = true) → (∀ f ∈ leafSyntenies o, f ≠ []) →
      c.spe + 2 * c.sloss ≤ c.dup + 2 * c.floss →
      (spfs c S true o none ≠ [] → spfs c S false o none ≠ []) ∧
      uspfs c S false o ≠ [] ∧ uspfs c S true o ≠ [] ∧ thl c S o ≠ [] :=
  ⟨C10_guarded, fun c S o hb hS hne hcoh => C10_guarded_total c S o hb hS hne hcoh⟩

example :
    let c : Costs := { spe := 0, dup := 5, hgt := .fin 1, floss := 5, sloss := 1 }
    let S : RTree := .node [.node [.node [], .node []], .node []]
    let o : OTree := .node (.node (.leaf [0, 0] [1, 2]) (.leaf [1] [2])) (.leaf [0, 1] [1])
    spfs c S true o none ≠ [] ∧ spfs c S false o none ≠ [] := by decide +kernel

end SR.C10
