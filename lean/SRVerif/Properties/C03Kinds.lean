/-
  C03 — the bridge between the unordered DP's own label cost and the REAL evaluator
  (`C03_kinds_faithful_statement` of `Properties/C03Dp.lean`, DESIGN §7 C03).

  For every kind labelling `ls` decoded from a root cell of kind LCA, the evaluated
  cost `totalCost c .unordered o` of the materialised solution
  `unSol t t.data.lcaSet ls` equals the generic cost `labCost (unAlg c) c t ls`, i.e.
  the per-kind edge charges of `_compute_uspfs_entry` coincide with the evaluator's
  subset tests on the materialised contents.

  * `C03_kinds_faithful_all`   the bridge with NO guard at all (any species tree, any
      leaf species, empty / repeated leaf syntenies, any cost vector);
  * `C03_kinds_faithful`       the statement as written in `C03Dp.lean` (its three
      guards are not needed);
  * `C03_kinds_faithful_adm`   the same for ANY admissible kind labelling of finite
      generic cost with an LCA root — not only the decoded ones;
  * `C03_table_value`          inside `spe + sloss ≤ dup + 2·floss` the value of a root
      cell is the evaluated cost of each of its decoded solutions;
  * `C03_result_cost`          … hence every solution returned by `uspfs` has evaluated
      cost `uspfsTableMin` (what the optimiser believes is what the evaluator says).

  The key fact (Proofs/UnContentDecode.lean): a node of kind INHERIT reached through
  finite edges always holds a family that no leaf below it carries (the DP forbids
  LCA → INHERIT when `lcaSet parent ⊆ lcaSet child`, and `lcaSet v` is exactly
  `Spec.requiredContent` — Proofs/UnContent.lean), so its content is never a subset of
  the content of an LCA child.
-/
import SRVerif.Properties.C03Dp
import SRVerif.Proofs.UnContentDecode
import SRVerif.Proofs.LabelDPKeep

namespace SR.C03

open SR Cost

/-- The evaluated cost of a solution whose loss count is defined. -/
theorem totalCost_unordered (c : Costs) (o : OTree) (sol : Sol) {k : Nat}
    (h : unordLosses sol = some k) :
    totalCost c .unordered o sol = recCost c o sol + .fin (k * c.sloss) := by
  simp [totalCost, labelingCost, h]

/-- Bridge for every admissible kind labelling with an LCA root and finite generic cost. -/
theorem C03_kinds_faithful_adm (c : Costs) (S : RTree) (base : Bool) (o : OTree)
    (ls : LSol Kind) (hadm : Adm (unAlg c) (annUn S base o [] o) ls) (hroot : ls.lab = .lca)
    (hfin : labCost (unAlg c) c (annUn S base o [] o) ls ≠ .inf) :
    totalCost c .unordered o (unSol (annUn S base o [] o) (annUn S base o [] o).data.lcaSet ls) =
      labCost (unAlg c) c (annUn S base o [] o) ls := by
  obtain ⟨k, hk, hcost⟩ := faithful_unSol c S base o o [] (annUn S base o [] o).data.lcaSet ls
    (isSub_root o) hadm hfin (fun h => by rw [hroot] at h; cases h)
  rw [totalCost_unordered c o _ hk, hcost]

/-- What decoding guarantees about a root cell of `uspfsCells`. -/
theorem decoded_facts (c : Costs) (S : RTree) (base : Bool) (o : OTree)
    (d : DCell Kind) (hd : d ∈ uspfsCells c S base true o) (ls : LSol Kind) (hls : ls ∈ d.sols) :
    Adm (unAlg c) (annUn S base o [] o) ls ∧ ls.lab = .lca ∧
      labCost (unAlg c) c (annUn S base o [] o) ls ≠ .inf := by
  simp only [uspfsCells, List.mem_filter, beq_iff_eq] at hd
  have hX : c.spe + c.sloss ≤ c.dup + 2 * c.floss + (c.spe + c.sloss) := by omega
  obtain ⟨adm, _, hlab, _, hle⟩ := dp_sound (unAlg c) c S (un_slack c) hX _ d hd.1 ls hls
  refine ⟨adm, hlab.trans hd.2, ?_⟩
  obtain ⟨n, hn⟩ := ne_inf_iff.mp (dp_finite (unAlg c) c S true _ hd.1)
  intro hinf
  rw [hinf, hn] at hle
  simp at hle

/-- **Kinds faithful, unguarded**: for every input and every cost vector, the evaluated
    cost of a decoded solution is the generic cost of its kind labelling. -/
theorem C03_kinds_faithful_all (c : Costs) (S : RTree) (base : Bool) (o : OTree) :
    let t := annUn S base o [] o
    ∀ d ∈ uspfsCells c S base true o, ∀ ls ∈ d.sols,
      totalCost c .unordered o (unSol t t.data.lcaSet ls) = labCost (unAlg c) c t ls := by
  intro t d hd ls hls
  obtain ⟨adm, hlab, hfin⟩ := decoded_facts c S base o d hd ls hls
  exact C03_kinds_faithful_adm c S base o ls adm hlab hfin

/-- **`C03_kinds_faithful_statement`** as stated in `C03Dp.lean`. -/
theorem C03_kinds_faithful : C03_kinds_faithful_statement :=
  fun c S base o _ _ _ => C03_kinds_faithful_all c S base o

/-- Inside the coherent region the value of a root cell IS the evaluated cost of each
    of its decoded solutions. -/
theorem C03_table_value (c : Costs) (S : RTree) (base : Bool) (o : OTree)
    (hb : S.isBinary = true) (hS : ∀ p ∈ leafSpecies o, S.isNode p = true)
    (hcoh : c.spe + c.sloss ≤ c.dup + 2 * c.floss) :
    let t := annUn S base o [] o
    ∀ d ∈ uspfsCells c S base true o, ∀ ls ∈ d.sols,
      totalCost c .unordered o (unSol t t.data.lcaSet ls) = d.cost := by
  intro t d hd ls hls
  rw [C03_kinds_faithful_all c S base o d hd ls hls]
  have hd' : d ∈ dpTable (unAlg c) c S true t := by
    simp only [uspfsCells, List.mem_filter] at hd; exact hd.1
  exact (((C03_table_exact c S base o hb hS hcoh) d hd').2.1 ls).mp hls |>.2.2.2

/-- Inside the coherent region every returned solution has evaluated cost
    `uspfsTableMin`: the optimiser's belief and the evaluator agree on the results. -/
theorem C03_result_cost (c : Costs) (S : RTree) (base : Bool) (o : OTree)
    (hb : S.isBinary = true) (hS : ∀ p ∈ leafSpecies o, S.isNode p = true)
    (hcoh : c.spe + c.sloss ≤ c.dup + 2 * c.floss) :
    ∀ sol ∈ uspfs c S base o, totalCost c .unordered o sol = uspfsTableMin c S base o := by
  intro sol hsol
  obtain ⟨hmem, hmin⟩ := (mem_rankByCost c .unordered o _ sol).mp hsol
  simp only [List.mem_flatMap, List.mem_map] at hmem
  obtain ⟨d, hd, ls, hls, rfl⟩ := hmem
  have hval := C03_table_value c S base o hb hS hcoh
  have hself := hval d hd ls hls
  -- the table minimum over the root cells of kind LCA
  have hcosts : (uspfsCells c S base false o).map (·.cost) =
      (uspfsCells c S base true o).map (·.cost) := by
    have hcore := dpTable_core (unAlg c) c S (annUn S base o [] o)
    simp only [uspfsCells]
    have key : ∀ (L L' : List (DCell Kind)), L.map DCell.core = L'.map DCell.core →
        (L.filter (fun d => d.lab == Kind.lca)).map (·.cost) =
          (L'.filter (fun d => d.lab == Kind.lca)).map (·.cost) := by
      intro L
      induction L with
      | nil => intro L' h; cases L' with
        | nil => rfl
        | cons _ _ => simp at h
      | cons a L ih =>
        intro L' h
        cases L' with
        | nil => simp at h
        | cons a' L' =>
          simp only [List.map_cons, List.cons.injEq, DCell.core, Prod.mk.injEq] at h
          obtain ⟨⟨_, h2, h3⟩, h4⟩ := h
          simp only [List.filter_cons, h2]
          split
          · simp only [List.map_cons, h3, ih L' h4]
          · exact ih L' h4
    exact key _ _ hcore
  unfold uspfsTableMin
  rw [hcosts, hself]
  refine (minList_eq ?_ (Or.inr (List.mem_map.mpr ⟨d, hd, rfl⟩))).symm
  intro v hv
  obtain ⟨d', hd', rfl⟩ := List.mem_map.mp hv
  obtain ⟨ls', hls'⟩ := ((C03_table_exact c S base o hb hS hcoh) d' (by
    simp only [uspfsCells, List.mem_filter] at hd'; exact hd'.1)).1
  have h1 := hmin _ (List.mem_flatMap.mpr ⟨d', hd', List.mem_map.mpr ⟨ls', hls', rfl⟩⟩)
  rw [hself, hval d' hd' ls' hls'] at h1
  exact h1

/-! Non-vacuity: an input (with `sloss = 0`, so that kinds tie) whose root cells decode
    to six kind labellings, one of them with an INHERIT node two levels down, whose
    materialised content `{1, 2}` differs from its `lcaSet = {1}`; the table minimum 2 is
    the evaluated cost of both returned solutions. -/
example :
    let c : Costs := { spe := 0, dup := 1, hgt := .fin 1, floss := 1, sloss := 0 }
    let S : RTree := .node [.node [], .node []]
    let o : OTree :=
      .node (.node (.leaf [0] [1, 2]) (.node (.leaf [0] [1]) (.leaf [0] [1]))) (.leaf [1] [1, 2])
    S.isBinary = true ∧ (∀ p ∈ leafSpecies o, S.isNode p = true) ∧
    c.spe + c.sloss ≤ c.dup + 2 * c.floss ∧
    ((uspfsCells c S false true o).flatMap (·.sols)).length = 6 ∧
    ((uspfsCells c S false true o).flatMap (·.sols)).any
      (fun ls => match ls with
        | .node _ _ (.node _ _ _ (.node _ .inh _ _)) _ => true | _ => false) = true ∧
    uspfsTableMin c S false o = .fin 2 ∧ (uspfs c S false o).length = 2 := by
  decide +kernel

end SR.C03
