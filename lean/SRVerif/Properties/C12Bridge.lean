/-
  C12 (bridge) — the two compositions of `Properties/C12Cli.lean` with their interface
  hypotheses DISCHARGED.

  `C12_cost_line` / `C12_all_superset_any` of `C12Cli.lean` take as hypotheses an embedding
  `emb : Sol → SRecOutput`, `ev (emb s) = totalCost c mode o s`, `(emb s).WF`, `NewickLaw`,
  and the invariance `hset` of the abstract evaluator.  Here:

  * the embedding is DEFINED (`Model/SolOutput.lean`: `embPlain` for `reconcile_thl`, which
    returns `ReconciliationOutput`s, `embSuper` for the labelled solvers) from the input
    `(c, S, o)` and a `Naming` (names of species nodes, object nodes, families);
  * the evaluator is DEFINED on the parsed structure (`evalPlain`, `evalSuper`: `decode` the
    named trees and the mappings, then `totalCost` of `Model/Rec.lean` — the function C06 is
    about); it does not depend on the naming;
  * `C12_emb_wf_*`: under injective safe names (`Naming.Ok`) and for a valid reconciliation
    (C04), the embedded object is in the domain of the C11 round trip;
  * `C12_emb_cost_*`: `ev (emb s) = totalCost c mode o s`;
  * `C12_eval_set_invariant`: `hset`;
  * the Newick law is `C11_newick_law` (the codec of `Model/Newick.lean`).

  Hence `C12_cost_line_thl`, `C12_cost_line_exh`, `C12_cost_line_spfs`, `C12_cost_line_uspfs`:
  for EVERY input in the solvers' guarded input space (binary species tree containing the leaf species; for
  `uspfs` non-empty leaf syntenies), every unit-cost vector under `--solutions all`, the
  coherent region of each family under `--solutions any` (where ANY ∈ ALL is a theorem and
  fails outside: `C05_any_incoherent_witness`), every offering order (`Picker`), every
  injective safe naming: the run has status 0, the last stderr line is `Minimum cost: k`
  with `k` the `totalCost` of the first result (and of every optimal solution), the output
  is one line per result, and EVERY written object — written by `to_dict` with the Newick
  writer, read by `from_dict` with the Newick reader — is an object whose evaluated cost is
  `k`.  `C12_all_superset_any_*`: no hypothesis on names at all.

  JSON.  `Model/Serialize.lean` has no JSON text layer (the dictionary form is a structure),
  so the theorems above are stated on the dictionary handed to `json.dump`: the output text
  is `dump_results` of `render (to_dict x)` for an arbitrary encoder `render`, and every
  written dictionary is read back (`from_dict`) as an object of cost `k` — no hypothesis.
  `C12_cost_line_json` adds the text layer: with the ONLY remaining hypothesis
  `parse (render d) = some d` (Python's `json.loads ∘ json.dumps` on these dictionaries,
  validated by the ties of C11 and C12 on every generated case) every written LINE parses to a
  dictionary that is read back as an object of cost `k`.
-/
import SRVerif.Proofs.SolOutputEval
import SRVerif.Properties.C12Cli
import SRVerif.Properties.C11Newick
import SRVerif.Properties.C04Dp
import SRVerif.Properties.C05Un
import SRVerif.Properties.C05AnyExh

namespace SR.C12

open SR SR.Ser SR.Cli SR.SolOut SR.C11

/-! ### The interface hypotheses, as theorems -/

/-- The plain output built for a valid reconciliation is in the domain of the C11 round
    trip (`withSyn`: the input file had leaf syntenies, which `thl` ignores and keeps). -/
theorem C12_emb_wf_plain {nm : Naming} {S : RTree} {o : OTree} (c : Costs) (hnm : nm.Ok S o)
    (hS : ∀ p ∈ leafSpecies o, S.isNode p = true) (withSyn : Bool) {s : Sol}
    (hv : Spec.validRec o s = true) : (embPlain nm c S o withSyn s).WF :=
  embPlain_wf c hnm hS withSyn hv

/-- The labelled output built for a valid reconciliation is in the domain of the C11 round
    trip, ordered or not, whatever the iteration order `arr` of the sets. -/
theorem C12_emb_wf_super {nm : Naming} {S : RTree} {o : OTree} (arr : List String → List String)
    (c : Costs) (hnm : nm.Ok S o) (hS : ∀ p ∈ leafSpecies o, S.isNode p = true) (ordered : Bool)
    {s : Sol} (hv : Spec.validRec o s = true) : (embSuper nm arr c S o ordered s).WF :=
  embSuper_wf arr c hnm hS ordered hv

/-- `ev (emb s) = totalCost`, plain outputs (no hypothesis on the names: the evaluator
    works on paths). -/
theorem C12_emb_cost_plain (nm : Naming) (c : Costs) (S : RTree) {o : OTree} {s : Sol}
    (hv : Spec.validRec o s = true) (withSyn : Bool) :
    evalPlain (embPlain nm c S o withSyn s).input.base (embPlain nm c S o withSyn s).objectSpecies
      = totalCost c .plain o s :=
  evalPlain_emb nm c S hv withSyn

/-- `ev (emb s) = totalCost`, labelled outputs: distinct families have distinct names. -/
theorem C12_emb_cost_super (nm : Naming) (hf : ∀ a b, nm.fname a = nm.fname b → a = b)
    (arr : List String → List String) (harr : ∀ l, (arr l).Perm l) (c : Costs) (S : RTree)
    {o : OTree} {s : Sol} (hv : Spec.validRec o s = true) (ordered : Bool) :
    evalSuper (embSuper nm arr c S o ordered s).input.base
        (embSuper nm arr c S o ordered s).objectSpecies
        (embSuper nm arr c S o ordered s).syntenies (embSuper nm arr c S o ordered s).ordered
      = totalCost c (if ordered then .ordered else .unordered) o s :=
  evalSuper_emb nm hf arr harr c S hv ordered

/-- The evaluator satisfies the hypothesis of `C11_same_evaluation`. -/
theorem C12_eval_set_invariant (i : RecInput) (m : TreeMapping) (s : SynMapping) (b : Bool) :
    evalSuper i m (normSyn s) b = evalSuper i m s b :=
  evalSuper_normSyn i m s b

/-- The evaluator is the evaluator of `Model/Rec.lean`: on any parsed structure that decodes
    (binary object tree, every node mapped, integer unit costs) it is `totalCost` of what was
    decoded; otherwise `inf`. -/
theorem C12_eval_is_totalCost (mode : LabelMode) (i : RecInput) (m : TreeMapping)
    (famAt : Path → List Nat) :
    (∀ c o t, decodeCosts i.costs = some c →
      decode i.leafObjectSpecies m famAt i.objectTree [] = some (o, t) →
      evalWith mode i m famAt = totalCost c mode o t) ∧
    (decodeCosts i.costs = none → evalWith mode i m famAt = .inf) ∧
    (decode i.leafObjectSpecies m famAt i.objectTree [] = none → evalWith mode i m famAt = .inf) := by
  refine ⟨fun c o t h1 h2 => by simp [evalWith, h1, h2], fun h => by simp [evalWith, h], fun h => ?_⟩
  unfold evalWith
  rw [h]
  cases decodeCosts i.costs <;> rfl

/-! ### What "the cost line is true" means -/

/-- The dictionary `d` is accepted by `ReconciliationOutput.from_dict` (with the Newick reader)
    and `cost()` of the object read is `k`. -/
def PlainDictBack (d : OutputDict) (k : Cost) : Prop :=
  ∃ y, RecOutput.fromDict newickRead d = .ok y ∧ evalPlain y.input.base y.objectSpecies = k

/-- Same for `SuperReconciliationOutput.from_dict`. -/
def SuperDictBack (d : OutputDict) (k : Cost) : Prop :=
  ∃ y, SRecOutput.fromDict newickRead d = .ok y ∧
    evalSuper y.input.base y.objectSpecies y.syntenies y.ordered = k

/-- The written plain object `x` comes back with evaluated cost `k`: the dictionary handed to
    `json.dump` (`to_dict` with the Newick writer) is read back as an object of cost `k`. -/
def PlainBack (x : RecOutput) (k : Cost) : Prop := PlainDictBack (x.toDict Newick.write) k

def SuperBack (x : SRecOutput) (k : Cost) : Prop := SuperDictBack (x.toDict Newick.write) k

/-- The conclusion of the cost-line theorems, for a run that wrote the objects `outs`
    (encoded by `enc`), `opt` being the optimal set of the model (the ALL result): status 0;
    the last stderr line is "Minimum cost: k"; `k` is the `totalCost` of every optimal
    solution; the output text is `dump_results` of the objects; every object comes back
    with cost `k`. -/
def CostLineOK {ρ : Type} (Back : ρ → Cost → Prop) (c : Costs) (mode : LabelMode) (o : OTree)
    (opt : List Sol) (enc : ρ → String) (outs : List ρ) (run : RunOut) : Prop :=
  ∃ k : Cost, run.status = 0 ∧ run.stderr.getLast? = some (minCostText k) ∧
    (∀ s ∈ opt, totalCost c mode o s = k) ∧
    run.stdout = dumpResults enc outs ∧ ∀ x ∈ outs, Back x k

/-- The generic composition: results inside the optimal set, evaluated cost of the embedded
    object = `totalCost`, every embedded object comes back with its own cost. -/
theorem C12_cost_line_core {ρ : Type} (Back : ρ → Cost → Prop) (c : Costs) (mode : LabelMode)
    (o : OTree) (cands results : List Sol)
    (hres : ∀ s ∈ results, s ∈ rankByCost c mode o cands) (hne : results ≠ [])
    (emb : Sol → ρ) (cost : ρ → Cost) (enc : ρ → String)
    (hev : ∀ s ∈ results, cost (emb s) = totalCost c mode o s)
    (hback : ∀ s ∈ results, Back (emb s) (cost (emb s))) (algo : String) (w : Bool)
    (p : Option String) :
    CostLineOK Back c mode o (rankByCost c mode o cands) enc (results.map emb)
      (reconcileRun algo (.run w p) (results.map emb) cost enc) := by
  cases hr : results with
  | nil => exact absurd hr hne
  | cons s0 rest =>
    have hs0 : s0 ∈ results := by rw [hr]; simp
    have hk : ∀ s ∈ rankByCost c mode o cands, totalCost c mode o s = totalCost c mode o s0 :=
      fun s hs => C05.C05_same_cost c mode o cands s s0 hs (hres s0 hs0)
    refine ⟨totalCost c mode o s0, ?_, ?_, hk, ?_, ?_⟩
    · simp [reconcileRun]
    · simp [reconcileRun, hev s0 hs0]
    · simp [reconcileRun]
    · intro x hx
      rw [← hr] at hx
      obtain ⟨s, hs, rfl⟩ := List.mem_map.mp hx
      have := hback s hs
      rwa [hev s hs, hk s (hres s hs)] at this

/-- An empty result: status 1, nothing written, no cost line. -/
theorem C12_empty_run {ρ : Type} (algo : String) (w : Bool) (p : Option String) (cost : ρ → Cost)
    (enc : ρ → String) :
    (reconcileRun algo (.run w p) ([] : List ρ) cost enc).status = 1 ∧
    (reconcileRun algo (.run w p) ([] : List ρ) cost enc).stdout = "" ∧
    ∀ k, minCostText k ∉ (reconcileRun algo (.run w p) ([] : List ρ) cost enc).stderr := by
  have h := C12_status algo (.run w p) ([] : List ρ) cost enc (by simp)
  refine ⟨by simp [reconcileRun], by simp [reconcileRun], fun k hk => ?_⟩
  obtain ⟨_, hne⟩ := h.2.2.1.mp ⟨k, hk⟩
  exact hne rfl

section

variable (render : OutputDict → String)

/-- Plain outputs: any results inside an optimal set, all valid reconciliations. -/
theorem C12_cost_line_sols_plain {nm : Naming} {S : RTree} {o : OTree} (c : Costs)
    (hnm : nm.Ok S o) (hS : ∀ p ∈ leafSpecies o, S.isNode p = true) (withSyn : Bool)
    (cands results : List Sol) (hres : ∀ s ∈ results, s ∈ rankByCost c .plain o cands)
    (hval : ∀ s ∈ results, Spec.validRec o s = true) (hne : results ≠ []) (algo : String)
    (w : Bool) (p : Option String) :
    CostLineOK PlainBack c .plain o (rankByCost c .plain o cands)
      (fun x : RecOutput => render (x.toDict Newick.write))
      (results.map (embPlain nm c S o withSyn))
      (reconcileRun algo (.run w p) (results.map (embPlain nm c S o withSyn))
        (fun x => evalPlain x.input.base x.objectSpecies)
        (fun x => render (x.toDict Newick.write))) := by
  refine C12_cost_line_core _ c .plain o cands results hres hne _ _ _
    (fun s hs => evalPlain_emb nm c S (hval s hs) withSyn) (fun s hs => ?_) algo w p
  have hwf := embPlain_wf c hnm hS withSyn (hval s hs)
  exact ⟨_, (C11_roundtrip_newick_output hwf).1, rfl⟩

/-- Labelled outputs. -/
theorem C12_cost_line_sols_super {nm : Naming} {S : RTree} {o : OTree}
    (arr : List String → List String) (harr : ∀ l, (arr l).Perm l) (c : Costs) (hnm : nm.Ok S o)
    (hS : ∀ p ∈ leafSpecies o, S.isNode p = true) (ordered : Bool) (cands results : List Sol)
    (hres : ∀ s ∈ results,
      s ∈ rankByCost c (if ordered then .ordered else .unordered) o cands)
    (hval : ∀ s ∈ results, Spec.validRec o s = true) (hne : results ≠ []) (algo : String)
    (w : Bool) (p : Option String) :
    CostLineOK SuperBack c (if ordered then .ordered else .unordered) o
      (rankByCost c (if ordered then .ordered else .unordered) o cands)
      (fun x : SRecOutput => render (x.toDict Newick.write))
      (results.map (embSuper nm arr c S o ordered))
      (reconcileRun algo (.run w p) (results.map (embSuper nm arr c S o ordered))
        (fun x => evalSuper x.input.base x.objectSpecies x.syntenies x.ordered)
        (fun x => render (x.toDict Newick.write))) := by
  refine C12_cost_line_core _ c _ o cands results hres hne _ _ _
    (fun s hs => evalSuper_emb nm hnm.fInj arr harr c S (hval s hs) ordered) (fun s hs => ?_)
    algo w p
  have hwf := embSuper_wf arr c hnm hS ordered (hval s hs)
  obtain ⟨y, hy, hc⟩ := C11_same_evaluation_newick evalSuper evalSuper_normSyn hwf
  exact ⟨y, hy, hc⟩

/-! ### `reconcile_thl` -/

/-- The kind of input object: `SuperReconciliationInput` iff the file has `leaf_syntenies`. -/
def kindOf (withSyn : Bool) : InputKind := if withSyn then .super else .plain

/-- **`C12_cost_line_thl`** — `reconcile --algorithm thl`, both policies.  For every unit-cost
    vector, every binary species tree containing the leaf species, every injective safe naming,
    with or without `leaf_syntenies` in the file (`thl` ignores them; a warning is printed):
    under `--solutions all` the cost line is true of every written object; under
    `--solutions any`, for every offering order `P`, inside `spe ≤ dup + 2·floss`, the one
    object written also has the printed cost, which is the cost of every ALL solution. -/
theorem C12_cost_line_thl {nm : Naming} {S : RTree} {o : OTree} (c : Costs) (hnm : nm.Ok S o)
    (hb : S.isBinary = true) (hS : ∀ p ∈ leafSpecies o, S.isNode p = true) (withSyn : Bool) :
    let emb := embPlain nm c S o withSyn
    let cost := fun x : RecOutput => evalPlain x.input.base x.objectSpecies
    let enc := fun x : RecOutput => render (x.toDict Newick.write)
    CostLineOK PlainBack c .plain o (thl c S o) enc ((thl c S o).map emb)
      (reconcileRun "thl" (dispatch "thl" (kindOf withSyn) "all") ((thl c S o).map emb) cost enc) ∧
    ∀ (P : Picker Unit), P.Ok → c.spe ≤ c.dup + 2 * c.floss →
      CostLineOK PlainBack c .plain o (thl c S o) enc ((thlAny P c S o).map emb)
        (reconcileRun "thl" (dispatch "thl" (kindOf withSyn) "any") ((thlAny P c S o).map emb)
          cost enc) := by
  intro emb cost enc
  have hd1 : dispatch "thl" (kindOf withSyn) "all" = .run withSyn (some "ALL") := by
    cases withSyn <;> decide
  have hd2 : dispatch "thl" (kindOf withSyn) "any" = .run withSyn (some "ANY") := by
    cases withSyn <;> decide
  have hvalid : ∀ s ∈ thl c S o, Spec.validRec o s = true := fun s hs => by
    have := (C04.C04_thl c S o s hs).1
    simp only [Spec.validSol, Bool.and_true] at this
    exact this
  rw [hd1, hd2]
  constructor
  · exact C12_cost_line_sols_plain render c hnm hS withSyn _ (thl c S o)
      (fun s hs => hs) hvalid (C01.C01_thl_total c S o hb hS) "thl" withSyn (some "ALL")
  · intro P hP hcoh
    have hmem := C05.C05_any_mem_thl P hP c S o hb hS hcoh
    have hne : thlAny P c S o ≠ [] := by
      intro h
      have := C05.C05_any_total_thl P hP c S o hb hS
      rw [h] at this
      simp at this
    exact C12_cost_line_sols_plain render c hnm hS withSyn _ (thlAny P c S o)
      hmem (fun s hs => hvalid s (hmem s hs)) hne "thl" withSyn (some "ANY")

/-! ### `reconcile_exhaustive` -/

/-- **`C12_cost_line_exh`** — `reconcile --algorithm exh`, both policies, every unit-cost vector
    (no coherence hypothesis: the exhaustive solver ranks by the evaluated cost), every selection
    rule `pick` under `any`.  The species tree need not be binary. -/
theorem C12_cost_line_exh {nm : Naming} {S : RTree} {o : OTree} (c : Costs) (hnm : nm.Ok S o)
    (hS : ∀ p ∈ leafSpecies o, S.isNode p = true) (withSyn : Bool) :
    let emb := embPlain nm c S o withSyn
    let cost := fun x : RecOutput => evalPlain x.input.base x.objectSpecies
    let enc := fun x : RecOutput => render (x.toDict Newick.write)
    CostLineOK PlainBack c .plain o (exhaustive c o) enc ((exhaustive c o).map emb)
      (reconcileRun "exh" (dispatch "exh" (kindOf withSyn) "all") ((exhaustive c o).map emb)
        cost enc) ∧
    ∀ (pick : List Sol → Option Sol), PickOk pick →
      CostLineOK PlainBack c .plain o (exhaustive c o) enc
        ((exhaustiveAny pick c o).map emb)
        (reconcileRun "exh" (dispatch "exh" (kindOf withSyn) "any")
          ((exhaustiveAny pick c o).map emb) cost enc) := by
  intro emb cost enc
  have hd1 : dispatch "exh" (kindOf withSyn) "all" = .run withSyn (some "ALL") := by
    cases withSyn <;> decide
  have hd2 : dispatch "exh" (kindOf withSyn) "any" = .run withSyn (some "ANY") := by
    cases withSyn <;> decide
  have hvalid : ∀ s ∈ exhaustive c o, Spec.validRec o s = true := fun s hs =>
    ((mem_generateAll o s).mp ((mem_rankByCost c .plain o _ s).mp hs).1).1
  have hne : exhaustive c o ≠ [] := C01.C01_exh_nonempty c o
  rw [hd1, hd2]
  constructor
  · exact C12_cost_line_sols_plain render c hnm hS withSyn _ (exhaustive c o)
      (fun s hs => hs) hvalid hne "exh" withSyn (some "ALL")
  · intro pick hp
    have hmem := C05.C05_any_mem_exh pick c o hp
    exact C12_cost_line_sols_plain render c hnm hS withSyn _ (exhaustiveAny pick c o)
      hmem (fun s hs => hvalid s (hmem s hs))
      (fun e => hne ((C05.C05_any_empty_iff_exh pick c o hp).mp e)) "exh" withSyn (some "ANY")

/-! ### `sreconcile_base_spfs` / `sreconcile_extended_spfs` -/

def spfsName (base : Bool) : String := if base then "base_spfs" else "ext_spfs"

/-- **`C12_cost_line_spfs`** — the ordered solvers (`base_spfs`, `ext_spfs`), both policies,
    with or without a prescribed root order.  Under `--solutions all`, for every unit-cost
    vector: if the solver returns nothing (no gene order is compatible with the leaves:
    `C02_empty_iff`) the status is 1 and nothing is written; otherwise the cost line is true of
    every written object.  Under `--solutions any`, for every offering order, inside
    `spe + 2·sloss ≤ dup + 2·floss`, on inputs whose root orders are duplicate-free and contain
    the (non-empty) leaf syntenies (`C02.OrdersOk`; `C02_orders_ok`: always so without a
    prescribed order when the leaf syntenies are not empty): the same, and the printed cost is
    the cost of every ALL solution. -/
theorem C12_cost_line_spfs {nm : Naming} {S : RTree} {o : OTree} (c : Costs) (hnm : nm.Ok S o)
    (hb : S.isBinary = true) (hS : ∀ p ∈ leafSpecies o, S.isNode p = true) (base : Bool)
    (pre : Option (List Nat)) :
    let emb := embSuper nm id c S o true
    let cost := fun x : SRecOutput => evalSuper x.input.base x.objectSpecies x.syntenies x.ordered
    let enc := fun x : SRecOutput => render (x.toDict Newick.write)
    let all := spfs c S base o pre
    let runAll := reconcileRun (spfsName base) (dispatch (spfsName base) .super "all")
      (all.map emb) cost enc
    (all = [] → runAll.status = 1 ∧ runAll.stdout = "") ∧
    (all ≠ [] → CostLineOK SuperBack c .ordered o all enc (all.map emb) runAll) ∧
    ∀ (P : Picker Nat), P.Ok → C02.OrdersOk o pre → c.spe + 2 * c.sloss ≤ c.dup + 2 * c.floss →
      let any := spfsAny P c S base o pre
      let runAny := reconcileRun (spfsName base) (dispatch (spfsName base) .super "any")
        (any.map emb) cost enc
      (any = [] ↔ all = []) ∧ (all = [] → runAny.status = 1 ∧ runAny.stdout = "") ∧
      (all ≠ [] → CostLineOK SuperBack c .ordered o all enc (any.map emb) runAny) := by
  intro emb cost enc all runAll
  have hd1 : dispatch (spfsName base) .super "all" = .run false (some "ALL") := by
    cases base <;> decide
  have hd2 : dispatch (spfsName base) .super "any" = .run false (some "ANY") := by
    cases base <;> decide
  have hvalid : ∀ s ∈ all, Spec.validRec o s = true := C04.C04_rec_spfs c S base o pre
  refine ⟨fun h => ?_, fun h => ?_, fun P hP hord hcoh => ?_⟩
  · simp only [runAll, h, hd1, List.map_nil]
    exact ⟨(C12_empty_run _ _ _ cost enc).1, (C12_empty_run _ _ _ cost enc).2.1⟩
  · simp only [runAll, hd1]
    exact C12_cost_line_sols_super render id (fun _ => List.Perm.refl _) c hnm hS true _
      all (fun s hs => hs) hvalid h (spfsName base) false (some "ALL")
  · intro any runAny
    have hmem := C05.C05_any_mem_spfs P hP c S base o pre hord hb hS hcoh
    have hiff := C05.C05_any_empty_iff_spfs P hP c S base o pre
    refine ⟨hiff, fun h => ?_, fun h => ?_⟩
    · simp only [runAny, any, hiff.mpr h, hd2, List.map_nil]
      exact ⟨(C12_empty_run _ _ _ cost enc).1, (C12_empty_run _ _ _ cost enc).2.1⟩
    · simp only [runAny, hd2]
      exact C12_cost_line_sols_super render id (fun _ => List.Perm.refl _) c hnm hS true
        _ any hmem (fun s hs => hvalid s (hmem s hs)) (fun e => h (hiff.mp e)) (spfsName base)
        false (some "ANY")

/-! ### `usreconcile_base_uspfs` / `usreconcile_extended_uspfs` (`superdtl`) -/

def uspfsName (base : Bool) : String := if base then "base_uspfs" else "superdtl"

/-- **`C12_cost_line_uspfs`** — the unordered solvers (`base_uspfs`, `superdtl`), both policies;
    the syntenies are written as SETS, in any iteration order `arr`.  Under `--solutions all`,
    for every unit-cost vector, the cost line is true of every written object (the result is
    never empty).  Under `--solutions any`, for every offering order, inside
    `spe + sloss ≤ dup + 2·floss`, with non-empty leaf syntenies: the same, and the printed
    cost is the cost of every ALL solution. -/
theorem C12_cost_line_uspfs {nm : Naming} {S : RTree} {o : OTree}
    (arr : List String → List String) (harr : ∀ l, (arr l).Perm l) (c : Costs) (hnm : nm.Ok S o)
    (hb : S.isBinary = true) (hS : ∀ p ∈ leafSpecies o, S.isNode p = true) (base : Bool) :
    let emb := embSuper nm arr c S o false
    let cost := fun x : SRecOutput => evalSuper x.input.base x.objectSpecies x.syntenies x.ordered
    let enc := fun x : SRecOutput => render (x.toDict Newick.write)
    let all := uspfs c S base o
    CostLineOK SuperBack c .unordered o all enc (all.map emb)
      (reconcileRun (uspfsName base) (dispatch (uspfsName base) .super "all") (all.map emb)
        cost enc) ∧
    ∀ (P : Picker Kind), P.Ok → (∀ f ∈ leafSyntenies o, f ≠ []) →
      c.spe + c.sloss ≤ c.dup + 2 * c.floss →
      CostLineOK SuperBack c .unordered o all enc ((uspfsAny P c S base o).map emb)
        (reconcileRun (uspfsName base) (dispatch (uspfsName base) .super "any")
          ((uspfsAny P c S base o).map emb) cost enc) := by
  intro emb cost enc all
  have hd1 : dispatch (uspfsName base) .super "all" = .run false (some "ALL") := by
    cases base <;> decide
  have hd2 : dispatch (uspfsName base) .super "any" = .run false (some "ANY") := by
    cases base <;> decide
  have hvalid : ∀ s ∈ all, Spec.validRec o s = true := C04.C04_rec_uspfs c S base o
  have hne : all ≠ [] := C05.C05_unord_nonempty c S base o hb hS
  rw [hd1, hd2]
  constructor
  · exact C12_cost_line_sols_super render arr harr c hnm hS false _ all
      (fun s hs => hs) hvalid hne (uspfsName base) false (some "ALL")
  · intro P hP hnef hcoh
    have hmem := C05.C05_any_mem_uspfs P hP c S base o hb hS hnef hcoh
    have hiff := C05.C05_any_empty_iff_uspfs P hP c S base o
    exact C12_cost_line_sols_super render arr harr c hnm hS false _
      (uspfsAny P c S base o) hmem (fun s hs => hvalid s (hmem s hs)) (fun e => hne (hiff.mp e))
      (uspfsName base) false (some "ANY")

end

/-! ### The JSON text layer -/

/-- **`C12_cost_line_json`** — from dictionaries to lines.  If `json.loads (json.dumps d) = d`
    (the only hypothesis about JSON; `toD` is `to_dict`), the conclusion of every cost-line theorem
    above holds of the written LINES: each line parses to a dictionary that `from_dict` reads
    back as an object of evaluated cost `k`. -/
theorem C12_cost_line_json {ρ : Type} (toD : ρ → OutputDict) (render : OutputDict → String)
    (parse : String → Option OutputDict) (hjson : ∀ d, parse (render d) = some d)
    (DictBack : OutputDict → Cost → Prop) (c : Costs) (mode : LabelMode) (o : OTree)
    (opt : List Sol) (outs : List ρ) (run : RunOut)
    (h : CostLineOK (fun x k => DictBack (toD x) k) c mode o opt (fun x => render (toD x)) outs run) :
    ∃ k : Cost, run.status = 0 ∧ run.stderr.getLast? = some (minCostText k) ∧
      (∀ s ∈ opt, totalCost c mode o s = k) ∧
      run.stdout = dumpResults (fun x => render (toD x)) outs ∧
      ∀ ℓ ∈ outs.map (fun x => render (toD x)), ∃ d, parse ℓ = some d ∧ DictBack d k := by
  obtain ⟨k, h1, h2, h3, h4, h5⟩ := h
  refine ⟨k, h1, h2, h3, h4, fun ℓ hℓ => ?_⟩
  obtain ⟨x, hx, rfl⟩ := List.mem_map.mp hℓ
  exact ⟨toD x, hjson _, h5 x hx⟩

/-- Instance: `reconcile --algorithm superdtl --solutions all`, the lines. -/
theorem C12_cost_line_uspfs_json (render : OutputDict → String) (parse : String → Option OutputDict)
    (hjson : ∀ d, parse (render d) = some d) {nm : Naming} {S : RTree} {o : OTree}
    (arr : List String → List String) (harr : ∀ l, (arr l).Perm l) (c : Costs) (hnm : nm.Ok S o)
    (hb : S.isBinary = true) (hS : ∀ p ∈ leafSpecies o, S.isNode p = true) (base : Bool) :
    let enc := fun s => render ((embSuper nm arr c S o false s).toDict Newick.write)
    ∃ k : Cost, (∀ s ∈ uspfs c S base o, totalCost c .unordered o s = k) ∧
      ∀ ℓ ∈ (uspfs c S base o).map enc, ∃ d y, parse ℓ = some d ∧
        SRecOutput.fromDict newickRead d = .ok y ∧
        evalSuper y.input.base y.objectSpecies y.syntenies y.ordered = k := by
  intro enc
  obtain ⟨k, _, _, h3, _, h5⟩ := C12_cost_line_json (fun x : SRecOutput => x.toDict Newick.write)
    render parse hjson SuperDictBack c .unordered o _ _ _
    (C12_cost_line_uspfs render arr harr c hnm hb hS base).1
  refine ⟨k, h3, fun ℓ hℓ => ?_⟩
  obtain ⟨d, hd, y, hy, hc⟩ := h5 ℓ (by simpa [List.map_map, Function.comp_def, enc] using hℓ)
  exact ⟨d, y, hd, hy, hc⟩

/-! ### `--solutions all` ⊇ `--solutions any`, on the written lines -/

/-- `thl`: every line written under `any` is written under `all` — same input file, same
    names, whatever they are, whatever the JSON encoder. -/
theorem C12_all_superset_any_thl (render : OutputDict → String) (nm : Naming) (c : Costs)
    (S : RTree) (o : OTree) (hb : S.isBinary = true) (hS : ∀ p ∈ leafSpecies o, S.isNode p = true)
    (withSyn : Bool) (P : Picker Unit) (hP : P.Ok) (hcoh : c.spe ≤ c.dup + 2 * c.floss) :
    let enc := fun s => render ((embPlain nm c S o withSyn s).toDict Newick.write)
    ∀ ℓ ∈ (thlAny P c S o).map enc, ℓ ∈ (thl c S o).map enc :=
  C12_lines_mono _ _ _ (C05.C05_any_mem_thl P hP c S o hb hS hcoh)

theorem C12_all_superset_any_spfs (render : OutputDict → String) (nm : Naming) (c : Costs)
    (S : RTree) (o : OTree) (hb : S.isBinary = true) (hS : ∀ p ∈ leafSpecies o, S.isNode p = true)
    (base : Bool) (pre : Option (List Nat)) (hord : C02.OrdersOk o pre) (P : Picker Nat)
    (hP : P.Ok) (hcoh : c.spe + 2 * c.sloss ≤ c.dup + 2 * c.floss) :
    let enc := fun s => render ((embSuper nm id c S o true s).toDict Newick.write)
    ∀ ℓ ∈ (spfsAny P c S base o pre).map enc, ℓ ∈ (spfs c S base o pre).map enc :=
  C12_lines_mono _ _ _ (C05.C05_any_mem_spfs P hP c S base o pre hord hb hS hcoh)

theorem C12_all_superset_any_uspfs (render : OutputDict → String) (nm : Naming)
    (arr : List String → List String) (c : Costs) (S : RTree) (o : OTree)
    (hb : S.isBinary = true) (hS : ∀ p ∈ leafSpecies o, S.isNode p = true) (base : Bool)
    (hne : ∀ f ∈ leafSyntenies o, f ≠ []) (P : Picker Kind) (hP : P.Ok)
    (hcoh : c.spe + c.sloss ≤ c.dup + 2 * c.floss) :
    let enc := fun s => render ((embSuper nm arr c S o false s).toDict Newick.write)
    ∀ ℓ ∈ (uspfsAny P c S base o).map enc, ℓ ∈ (uspfs c S base o).map enc :=
  C12_lines_mono _ _ _ (C05.C05_any_mem_uspfs P hP c S base o hb hS hne hcoh)

/-- The written dictionary determines the cost: under injective safe names, two solutions
    written as the same dictionary have the same `totalCost` (the species mapping and the
    synteny mapping are read back from the dictionary, and the evaluator runs on what is read). -/
theorem C12_written_determines_cost {nm : Naming} {S : RTree} {o : OTree}
    (arr : List String → List String) (harr : ∀ l, (arr l).Perm l) (c : Costs) (hnm : nm.Ok S o)
    (hS : ∀ p ∈ leafSpecies o, S.isNode p = true) (ordered : Bool) {s s' : Sol}
    (hv : Spec.validRec o s = true) (hv' : Spec.validRec o s' = true)
    (h : (embSuper nm arr c S o ordered s).toDict Newick.write
      = (embSuper nm arr c S o ordered s').toDict Newick.write) :
    totalCost c (if ordered then .ordered else .unordered) o s
      = totalCost c (if ordered then .ordered else .unordered) o s' := by
  obtain ⟨y, hy, hc⟩ := C11_same_evaluation_newick evalSuper evalSuper_normSyn
    (embSuper_wf arr c hnm hS ordered hv)
  obtain ⟨y', hy', hc'⟩ := C11_same_evaluation_newick evalSuper evalSuper_normSyn
    (embSuper_wf arr c hnm hS ordered hv')
  rw [h, hy'] at hy
  cases hy
  rw [← evalSuper_emb nm hnm.fInj arr harr c S hv ordered,
    ← evalSuper_emb nm hnm.fInj arr harr c S hv' ordered, ← hc, ← hc']

/-! ### Non-vacuity -/

/-- Names in the style of `harness/sr.py` (`default_sname`, `default_oname`, `fam_name`) on a
    two-species tree and a four-leaf object tree; families `g`, `gg`, `ggg`, …. -/
def exNaming : Naming :=
  { sname := fun p => if p = [] then "SR" else if p = [0] then "S0" else "S1"
    oname := fun p =>
      if p = [] then "OR" else if p = [0] then "O0" else if p = [0, 0] then "S0_00"
      else if p = [0, 1] then "O01" else if p = [0, 1, 0] then "S0_010"
      else if p = [0, 1, 1] then "S0_011" else "S1_1"
    fname := fun n => String.ofList (List.replicate (n + 1) 'g') }

def exCosts : Costs := { spe := 0, dup := 1, hgt := .fin 1, floss := 1, sloss := 1 }
def exS : RTree := .node [.node [], .node []]
def exO : OTree :=
  .node (.node (.leaf [0] [1, 2]) (.node (.leaf [0] [1]) (.leaf [0] [1]))) (.leaf [1] [1, 2])

theorem exNaming_ok : exNaming.Ok exS exO where
  sInj := by decide
  sSafe := by decide
  oInj := by decide
  oSafe := by decide
  fInj := by
    intro a b h
    have := congrArg (fun s : String => s.toList.length) h
    simpa [exNaming, String.toList_ofList] using this

/-- The guards of the three theorems hold of this input (binary species tree containing the
    leaf species, non-empty leaf syntenies, coherent costs), and the theorems apply. -/
example : exS.isBinary = true ∧ (∀ p ∈ leafSpecies exO, exS.isNode p = true) ∧
    (∀ f ∈ leafSyntenies exO, f ≠ []) ∧ exCosts.spe + 2 * exCosts.sloss ≤ exCosts.dup + 2 * exCosts.floss := by
  decide

/-- The solvers return something on it, and what the bridge says is computed: the evaluated
    cost of the embedded first solution is its `totalCost` (2), for the three models. -/
example :
    (thl exCosts exS exO).map (fun s =>
      evalPlain (embPlain exNaming exCosts exS exO true s).input.base
        (embPlain exNaming exCosts exS exO true s).objectSpecies) = [.fin 2] := by
  decide

example (render : OutputDict → String) :
    ∃ k, ∀ x ∈ (thl exCosts exS exO).map (embPlain exNaming exCosts exS exO true),
      PlainBack x k := by
  obtain ⟨k, _, _, _, _, h⟩ := (C12_cost_line_thl render exCosts exNaming_ok
    (by decide) (by decide) true).1
  exact ⟨k, h⟩

/-- `ext_spfs` with the code's own selection rule under `any`: the guards hold, so either nothing
    is returned under both policies or the single line written has the printed cost. -/
example (render : OutputDict → String) :
    spfs exCosts exS false exO none ≠ [] →
    ∃ k, ∀ x ∈ (spfsAny (Picker.first Nat) exCosts exS false exO none).map
        (embSuper exNaming id exCosts exS exO true), SuperBack x k := by
  intro hne
  obtain ⟨k, _, _, _, _, h⟩ := ((C12_cost_line_spfs render exCosts exNaming_ok
    (by decide) (by decide) false none).2.2 (Picker.first Nat) (Picker.first_ok Nat)
    (C02.C02_orders_ok exO (by decide)) (by decide)).2.2 hne
  exact ⟨k, h⟩

example (render : OutputDict → String) :
    ∃ k, ∀ x ∈ (uspfs exCosts exS false exO).map (embSuper exNaming id exCosts exS exO false),
      SuperBack x k := by
  obtain ⟨k, _, _, _, _, h⟩ := (C12_cost_line_uspfs render id
    (fun _ => List.Perm.refl _) exCosts exNaming_ok (by decide) (by decide) false).1
  exact ⟨k, h⟩

end SR.C12
