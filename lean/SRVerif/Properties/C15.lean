/-
  C15 — Generated TikZ is well-formed and labels are faithful.

  Theorems only (plus non-vacuity examples).  Models: `SRVerif/Model/Tikz.lean`; the templates and the
  assembly order of `render` are the GENERATED values of `SRVerif/Generated/TikzTemplates.lean`, whose
  per-template obligations (`tmpl_*_balanced`, `statements_terminated`, `skeleton_shape`, …) are the
  facts about the source text these theorems rest on.
-/
import SRVerif.Generated.TikzObligations
import SRVerif.Proofs.TikzBraces
import SRVerif.Proofs.TikzEscape
import SRVerif.Proofs.TikzWrap
import SRVerif.Proofs.TikzColor
import SRVerif.Proofs.TikzRender
import SRVerif.Proofs.TikzDoc

namespace SR.C15

open SR.Tikz

/-! ## Braces -/

/-- Inserting a balanced string anywhere into a balanced string keeps it balanced (any position of
    a balanced string has depth ≥ 0, see `C15_balanced_meaning`). -/
theorem C15_insert_balanced (a t b : Str) (hab : isBalanced (a ++ b) = true)
    (ht : isBalanced t = true) : isBalanced (a ++ t ++ b) = true := by
  rw [isBalanced_iff] at hab ⊢
  rw [balAux_insert a t b ht]; exact hab

/-- What `isBalanced` means: total depth zero and no prefix below zero. -/
theorem C15_balanced_meaning (s : Str) :
    isBalanced s = true ↔ (depth s = 0 ∧ ∀ p, p <+: s → 0 ≤ depth p) :=
  isBalanced_spec s

/-- Escaping introduces no brace. -/
theorem C15_escape_braceFree (s : Str) (h : braceFree s = true) : braceFree (escape s) = true :=
  braceFree_escape s h

/-- The label of a leaf without synteny is balanced for brace-free names. -/
theorem C15_leafLabel_balanced (name : Str) (h : braceFree name = true) (l : Str)
    (hl : leafLabel none none name = some l) : isBalanced l = true := by
  simp only [leafLabel, syntenyText, Option.map_some, Option.some.injEq] at hl
  subst hl
  simp only [List.isEmpty_nil, Bool.not_true, Bool.false_eq_true, if_false]
  cases hr : rsplitUnderscore name with
  | none => exact isBalanced_of_braceFree _ (braceFree_escape _ h)
  | some p =>
    obtain ⟨sp, gene⟩ := p
    simp only [rsplitUnderscore] at hr
    split at hr
    · simp only [Option.some.injEq, Prod.mk.injEq] at hr
      have hall : ∀ c ∈ name, isBrace c = false := by
        simpa [braceFree] using h
      have h1 : braceFree sp = true := by
        rw [← hr.1]
        simp only [braceFree, List.all_eq_true, Bool.not_eq_true']
        intro c hc
        have := List.mem_of_mem_drop (List.mem_reverse.1 hc)
        exact hall c (List.mem_reverse.1 ((List.dropWhile_sublist _).subset this))
      have h2 : braceFree gene = true := by
        rw [← hr.2]
        simp only [braceFree, List.all_eq_true, Bool.not_eq_true']
        intro c hc
        exact hall c (List.mem_reverse.1 ((List.takeWhile_sublist _).subset (List.mem_reverse.1 hc)))
      have e1 := isBalanced_of_braceFree _ (braceFree_escape _ h1)
      have e2 := isBalanced_of_braceFree _ (braceFree_escape _ h2)
      have key : isBalanced ("\\textsubscript{".toList ++ escape gene ++ ['}']) = true := by
        rw [isBalanced_iff]
        rw [balAux_insert _ _ _ e2]
        decide
      show isBalanced (escape sp ++ "\\textsubscript{".toList ++ escape gene ++ ['}']) = true
      rw [List.append_assoc, List.append_assoc]
      rw [← List.append_assoc ("\\textsubscript{".toList)]
      exact isBalanced_append _ _ e1 key
    · cases hr

/-- Every statement template of the source, instantiated with admissible fillings, is balanced. -/
theorem C15_statement_balanced (s : Nat × Template) (hs : s ∈ Generated.statements)
    (fills : List Str) (hf : fillsOK s.2.holes fills = true) :
    isBalanced (s.2.instantiate fills) = true := by
  have hb := List.all_eq_true.1 Generated.statements_balanced s hs
  have hh := List.all_eq_true.1 Generated.statements_holes s hs
  exact isBalanced_instantiate s.2 fills hb hh hf

/-- **Balanced braces.**  For every sequence of drawing calls over the statement templates of the
    source, with hole fillings from the stated spaces (coordinates and numbers, brace-free lengths,
    colour codes, balanced labels, the templates' own keywords), the text `render` returns has
    balanced braces. -/
theorem C15_balanced (defs : Str) (calls : List Call) (hd : DefsOK defs)
    (hc : ∀ c ∈ calls, CallOK c) :
    isBalanced (render Generated.renderSkeleton Generated.layerNames Generated.colorPrefix
      Generated.joiner defs calls) = true := by
  rw [render, Generated.joiner_newline, skeleton_std, renderBlocks_std]
  apply isBalanced_intercalate _ _ (by decide)
  intro b hb
  simp only [List.mem_append, List.mem_cons, List.mem_map, List.not_mem_nil, or_false] at hb
  rcases hb with (((hb | ⟨p, hp, rfl⟩) | hb) | hb) | hb
  · subst hb; exact defs_balanced _ hd
  · -- a colour definition line
    have hmem : p.2 ∈ (resolveCalls [] calls).1 := by
      have : ∀ (k : Nat) (l : List Str) (q : Nat × Str), q ∈ enumFrom k l → q.2 ∈ l := by
        intro k l
        induction l generalizing k with
        | nil => intro q hq; cases hq
        | cons x xs ih =>
          intro q hq
          rcases List.mem_cons.1 hq with e' | e'
          · subst e'; simp
          · exact List.mem_cons_of_mem _ (ih _ q e')
      exact this 0 _ p hp
    have hal : p.2.all isAlnum = true := by
      rcases resolveCalls_table_mem [] calls p.2 hmem with h0 | ⟨c, hcm, hx⟩
      · cases h0
      · exact reqsOK_color_alnum _ _ (hc c hcm).2 _ hx
    have h2 : isBalanced p.2 = true :=
      isBalanced_of_braceFree _ (braceFree_of_all _ (by decide) (by decide) _ hal)
    have h1 : isBalanced (colorName Generated.colorPrefix p.1) = true := by
      apply isBalanced_of_braceFree
      apply braceFree_of_all isAlnum (by decide) (by decide)
      simp only [colorName, List.all_append, Bool.and_eq_true]
      exact ⟨colorPrefix_alnum, natStr_alnum _⟩
    simp only [colorDefLine]
    rw [isBalanced_iff, balAux_insert _ _ _ h2]
    rw [show definecolorHead ++ colorName Generated.colorPrefix p.1 ++ definecolorMid ++ ['}']
        = definecolorHead ++ colorName Generated.colorPrefix p.1 ++ (definecolorMid ++ ['}']) by
      simp [List.append_assoc]]
    rw [balAux_insert _ _ _ h1]
    decide
  · subst hb; decide
  · rcases mem_bodyBlocks _ _ _ b hb with ⟨name, hn, rfl⟩ | ⟨o, ho, rfl⟩
    · have := List.all_eq_true.1 layerNames_braceFree name hn
      apply isBalanced_of_braceFree
      simpa [commentLine, braceFree, isBrace] using this
    · obtain ⟨hs, hf⟩ := rcall_fillsOK calls hc o ho
      exact C15_statement_balanced (o.layer, o.tmpl) hs _ hf
  · rcases hb with rfl | rfl <;> decide

/-! ## Structure -/

/-- **One picture environment, terminated statements, colours defined before the picture.**
    The result list of `render` is: the definitions; one `\definecolor{reccolor<i>}{HTML}{<c_i>}`
    line per interned colour `c_0 … c_{n-1}`; `\begin{tikzpicture}`; a body; `\end{tikzpicture}`;
    `""`.  Every block of the body is a `% layer` comment or a statement ending in `;`; no block
    other than the two delimiters equals a delimiter; every colour reference `reccolor<i>` filled
    into a statement has `i < n`, and (`C15_colour_table`) `c_i` is the colour that was requested. -/
theorem C15_structure (defs : Str) (calls : List Call) (hd : DefsOK defs)
    (hc : ∀ c ∈ calls, CallOK c) :
    let colors := (resolveCalls [] calls).1
    let out := (resolveCalls [] calls).2
    let body := bodyBlocks Generated.layerNames Generated.colorPrefix out
    let head := [defs] ++ (enumFrom 0 colors).map (colorDefLine Generated.colorPrefix)
    renderBlocks Generated.renderSkeleton Generated.layerNames Generated.colorPrefix defs calls
        = head ++ [beginPicture] ++ body ++ [endPicture, []]
    ∧ (∀ b ∈ body, (∃ name ∈ Generated.layerNames, b = commentLine name) ∨ b.getLast? = some ';')
    ∧ (∀ b ∈ head ++ body, b ≠ beginPicture ∧ b ≠ endPicture)
    ∧ (∀ o ∈ out, ∀ i, RFill.color i ∈ o.fills → i < colors.length) := by
  intro colors out body head
  have hstmt : ∀ o ∈ out, (o.text Generated.colorPrefix).getLast? = some ';' := by
    intro o ho
    obtain ⟨hs, _⟩ := rcall_fillsOK calls hc o ho
    exact instantiate_getLast _ _ (List.all_eq_true.1 Generated.statements_terminated _ hs)
  have hbody : ∀ b ∈ body,
      (∃ name ∈ Generated.layerNames, b = commentLine name) ∨ b.getLast? = some ';' := by
    intro b hb
    rcases mem_bodyBlocks _ _ _ b hb with h | ⟨o, ho, rfl⟩
    · exact Or.inl h
    · exact Or.inr (hstmt o ho)
  refine ⟨?_, hbody, ?_, resolveCalls_index_lt calls⟩
  · rw [skeleton_std, renderBlocks_std]
  · intro b hb
    have hfirst : ∀ (x : Str) (c : Char), c ≠ '\\' → x.head? = some c →
        x ≠ beginPicture ∧ x ≠ endPicture := by
      intro x c hc hx
      constructor <;> (intro e; subst e; exact hc (Option.some.inj hx).symm)
    have hsecond : ∀ (x : Str) (c : Char), c ≠ 'b' → c ≠ 'e' → x[1]? = some c →
        x ≠ beginPicture ∧ x ≠ endPicture := by
      intro x c h1 h2 hx
      constructor
      · intro e; subst e; exact h1 (Option.some.inj hx).symm
      · intro e; subst e; exact h2 (Option.some.inj hx).symm
    rcases List.mem_append.1 hb with hb | hb
    · rcases List.mem_append.1 hb with hb | hb
      · -- the definitions start with `\c`
        simp only [List.mem_singleton] at hb
        subst hb
        obtain ⟨t, fills, ht, _, rfl⟩ := hd
        have hp : isPrefixOf ['\\', 'c'] (t.instantiate fills) = true := by
          rcases ht with rfl | rfl
          · exact instantiate_startsWith _ _ _ Generated.defs_start.1
          · exact instantiate_startsWith _ _ _ Generated.defs_start.2
        apply hsecond _ 'c' (by decide) (by decide)
        generalize t.instantiate fills = x at hp
        rcases x with _ | ⟨a, _ | ⟨b, r⟩⟩ <;> simp [isPrefixOf] at hp
        simp only [List.getElem?_cons_succ, List.getElem?_cons_zero, Option.some.injEq]
        exact hp.2.symm
      · obtain ⟨p, _, rfl⟩ := List.mem_map.1 hb
        exact hsecond _ 'd' (by decide) (by decide) (by simp [colorDefLine, definecolorHead])
    · rcases hbody b hb with ⟨name, _, rfl⟩ | h
      · exact hfirst _ '%' (by decide) (by simp [commentLine])
      · constructor <;> (intro e; subst e; revert h; decide)

/-- The table of interned colours answers every request: the index handed out for a requested
    colour `h` points at `h`. -/
theorem C15_colour_table (calls : List Call) :
    All₂ (CallRes (resolveCalls [] calls).1) calls (resolveCalls [] calls).2 :=
  (resolveCalls_spec [] calls).2

/-! ## Colours -/

/-- **Colour scoping.**  After the propagation loop every node of the tree carries the colour of
    its nearest coloured ancestor-or-self — the own colour of the longest prefix of its path that
    has one — and none if there is no such ancestor (then `Branch.color`'s default applies). -/
theorem C15_colour (t : CTree) (p : List Bool) (h : (t.sub p).isSome = true) :
    (t.propagate none).colorAt p = CTree.nearestSpec t p ∧
    branchColor t p = (CTree.nearestSpec t p).getD defaultColor := by
  have := CTree.colorAt_propagate t p h
  exact ⟨this, by simp [branchColor, this]⟩

/-- Pseudo-genes (losses) inserted above a gene take the colour of that gene's lineage. -/
theorem C15_colour_loss (t : CTree) (gene : List Bool) (n : Nat)
    (h : (t.sub gene).isSome = true) :
    ∀ c ∈ lossColors t gene n, c = (CTree.nearestSpec t gene).getD defaultColor := by
  intro c hc
  simp only [lossColors, List.mem_replicate] at hc
  rw [hc.2, (C15_colour t gene h).2]

/-! ## Escaping -/

/-- **Escaping.**  `unescape` is a left inverse; the output splits into tokens `\\`, `\_` and
    plain characters with no bare `_` or `\`; in particular every `_` is immediately preceded by
    the backslash opening its token. -/
theorem C15_escape (s : Str) :
    unescape (escape s) = s ∧ wellEscaped (escape s) = true ∧
    ∀ a b, escape s = a ++ '_' :: b → ∃ a', a = a' ++ ['\\'] :=
  ⟨unescape_escape s, wellEscaped_escape s,
    wellEscaped_underscore _ (wellEscaped_escape s)⟩

/-! ## Wrapping -/

/-- **Greedy wrapping**: the words come back in order, no line is empty, joining the lines with
    spaces gives the text back, every line fits the width unless it is a single word. -/
theorem C15_wrap_greedy (width : Nat) (ws : List Word) :
    (wrap width ws).flatten = ws ∧
    (∀ l ∈ wrap width ws, l ≠ []) ∧
    List.intercalate [' '] ((wrap width ws).map lineText) = lineText ws ∧
    (∀ l ∈ wrap width ws, (lineText l).length ≤ width ∨ l.length = 1) := by
  refine ⟨wrap_flatten width ws, wrap_ne_nil width ws, ?_, ?_⟩
  · rw [lineText_join _ (wrap_ne_nil width ws), wrap_flatten]
  · intro l hl
    rw [lineText_length]
    exact wrap_width width ws l hl

/-- **Balanced wrapping** keeps every word in order, has exactly as many lines as greedy wrapping
    at the requested width, and no line exceeds the requested width unless it is a single word. -/
theorem C15_wrap (width : Nat) (ws : List Word) (ls : List Line)
    (h : balancedWrap width ws = some ls) :
    ls.flatten = ws ∧
    List.intercalate [' '] (ls.map lineText) = lineText ws ∧
    ls.length = (wrap width ws).length ∧
    (∀ l ∈ ls, (lineText l).length ≤ width ∨ l.length = 1) := by
  obtain ⟨w', _, hle, rfl, hlen⟩ := balancedWrap_spec width ws ls h
  obtain ⟨h1, _, h3, h4⟩ := C15_wrap_greedy w' ws
  refine ⟨h1, h3, hlen, fun l hl => ?_⟩
  rcases h4 l hl with h5 | h5
  · exact Or.inl (Nat.le_trans h5 hle)
  · exact Or.inr h5

/-- `balanced_wrap` only fails for width 0 (`textwrap` raises). -/
theorem C15_wrap_total (width : Nat) (ws : List Word) (h : 0 < width) :
    ∃ ls, balancedWrap width ws = some ls :=
  Option.isSome_iff_exists.1 (balancedWrap_isSome width ws h)

/-! ## Labels -/

/-- **Labels.**  (1) Without wrapping, the displayed synteny text is the escaped families joined by
    `", "`, in order.  (2) With a wrap width, the displayed lines (separated by the TeX line break)
    read, once joined by spaces, exactly that same text; there are as many as greedy wrapping
    makes, and none exceeds the width unless it is a single word.  (3) An internal node's label is
    empty exactly when its synteny equals its parent's or the text itself is empty; a leaf always
    shows its synteny text when it is non-empty. -/
theorem C15_label (fams : List Str) :
    syntenyText none (some fams) = some (List.intercalate [',', ' '] (fams.map escape))
    ∧ (∀ w text, syntenyText (some w) (some fams) = some text → text ≠ [] →
        ∃ ls : List Line,
          text = List.intercalate texLineBreak (ls.map lineText) ∧
          List.intercalate [' '] (ls.map lineText) = formatSynteny (fams.map escape) ∧
          ls.length = (wrap w (splitSpaces (formatSynteny (fams.map escape)))).length ∧
          ∀ l ∈ ls, (lineText l).length ≤ w ∨ l.length = 1)
    ∧ (∀ w syn par l, internalLabel w syn par = some l →
        (l = [] ↔ (syn = par ∨ syntenyText w syn = some [])))
    ∧ (∀ w syn name text, syntenyText w syn = some text → text ≠ [] →
        leafLabel w syn name = some text) := by
  refine ⟨rfl, ?_, ?_, ?_⟩
  · intro w text h hne
    simp only [syntenyText, formatSyntenyW, balancedWrapText] at h
    split at h
    · simp only [Option.some.injEq] at h; exact absurd h.symm hne
    · simp only [Option.map_eq_some_iff] at h
      obtain ⟨ls, hls, rfl⟩ := h
      obtain ⟨_, h2, h3, h4⟩ := C15_wrap w _ ls hls
      exact ⟨ls, rfl, by rw [h2, lineText_splitSpaces], h3, h4⟩
  · intro w syn par l h
    simp only [internalLabel, Option.map_eq_some_iff] at h
    obtain ⟨text, ht, rfl⟩ := h
    by_cases e : syn = par
    · simp [e]
    · simp only [e, if_false, false_or, ht, Option.some.injEq]
  · intro w syn name text h hne
    simp only [leafLabel, h, Option.map_some, Option.some.injEq]
    cases text with
    | nil => exact absurd rfl hne
    | cons a b => simp

/-! ## Non-vacuity -/

/-- `\node[extant gene={reccolor0}{a\_1}] at (1.5,2) {};` -/
example : fillsOK Generated.tmpl_stmt_3.holes
    ["reccolor0".toList, "a\\_1".toList, "1.5,2".toList] = true := by decide +kernel

example : (3, Generated.tmpl_stmt_3) ∈ Generated.statements := by decide +kernel

example : CallOK (Call.mk 3 Generated.tmpl_stmt_3
    [.color "ff0000".toList, .text "a\\_1".toList, .text "1.5,2".toList]) :=
  ⟨by decide +kernel, by decide +kernel⟩

example : isBalanced "{a}{".toList = false := by decide
example : escape "a_b\\".toList = "a\\_b\\\\".toList := by decide
example : wellEscaped "a_b".toList = false := by decide
example : wrap 5 ["ab".toList, "cd".toList, "efghijk".toList, "l".toList]
    = [["ab".toList, "cd".toList], ["efghijk".toList], ["l".toList]] := by decide
example : balancedWrap 7 ["a".toList, "b".toList, "c".toList, "defg".toList]
    = some [["a".toList, "b".toList, "c".toList], ["defg".toList]] := by decide
/-- nested colours: `((a,b)N[blue],c)M[red]` — `c` is red, `a` is blue -/
example :
    let t := CTree.node (some "red".toList) (.node (some "blue".toList) (.leaf none) (.leaf none)) (.leaf none)
    branchColor t [true] = "red".toList ∧ branchColor t [false, true] = "blue".toList ∧
    branchColor (.leaf none) [] = "000000".toList := by decide
example : internalLabel none (some ["a".toList]) (some ["a".toList]) = some [] := by decide
example : internalLabel none (some ["a_1".toList, "b".toList]) (some ["b".toList])
    = some "a\\_1, b".toList := by decide

end SR.C15
