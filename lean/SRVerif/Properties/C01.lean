/-
  C01 — General DTL reconciliation returns a minimum-cost reconciliation.

  Models: `exhaustive` (`reconcile_exhaustive` over `generateAll`), `thl`
  (`reconcile_thl` = label DP at unit labels, decoded, re-ranked by the
  evaluator), `totalCost … .plain` = `ReconciliationOutput.cost()`.
  Specification: `Spec.validRec` (valid reconciliation), minimum over
  `Spec.allValid`.
-/
import SRVerif.Proofs.Cost
import SRVerif.Spec.Opt

namespace SR.C01

open SR

/-- Species of the leaves of an input tree. -/
def leafSpeciesOf : OTree → List Path
  | .leaf sp _ => [sp]
  | .node l r => leafSpeciesOf l ++ leafSpeciesOf r

/-- The full statement for the enumerator: `generateAll` lists exactly the
    valid reconciliations, each once, provided the leaf species are species of
    `S` (without that guard the statement is false: `C01_enum_guard_needed`).
    PROVED as `C01_enum` / `C01_enum_allValid` in `Properties/C01Enum.lean`. -/
def C01_enum_statement : Prop :=
  ∀ (S : RTree) (o : OTree), (∀ p, p ∈ leafSpeciesOf o → S.isNode p = true) →
    (∀ sol, sol ∈ generateAll o ↔ Spec.validRec o sol = true ∧ sol ∈ Spec.allMappings S o)
    ∧ (generateAll o).Nodup

/-- The full statement for the exhaustive solver.  PROVED verbatim as
    `C01_exh` in `Properties/C01Enum.lean`. -/
def C01_exh_statement : Prop :=
  ∀ (c : Costs) (S : RTree) (o : OTree) (sol : Sol), sol ∈ exhaustive c o →
    Spec.validRec o sol = true ∧
    ∀ sol', Spec.validRec o sol' = true → sol' ∈ Spec.allMappings S o →
      Cost.le (totalCost c .plain o sol) (totalCost c .plain o sol') = true

/-- The full statement for the THL solver, inside the coherent region, for a
    binary species tree containing the leaf species (both guards are necessary:
    `C01_incoherent_witness`, `C01_thl_wf_needed`).  PROVED as `C01_thl`
    (together with `C01_thl_total`, `C01_thl_all`, `C01_thl_eq_exhaustive`) in
    `Properties/C01Thl.lean`. -/
def C01_thl_statement : Prop :=
  ∀ (c : Costs) (S : RTree) (o : OTree), S.isBinary = true →
    (∀ p, p ∈ leafSpeciesOf o → S.isNode p = true) →
    c.spe ≤ c.dup + 2 * c.floss → ∀ sol ∈ thl c S o,
    Spec.validRec o sol = true ∧
    ∀ sol', Spec.validRec o sol' = true → sol' ∈ Spec.allMappings S o →
      Cost.le (totalCost c .plain o sol) (totalCost c .plain o sol') = true

/-- Proved part for `reconcile_exhaustive`: the result is exactly the set of
    enumerated reconciliations of minimum evaluated cost, each once. -/
theorem C01_exh_partial (c : Costs) (o : OTree) :
    (∀ sol, sol ∈ exhaustive c o ↔
      sol ∈ generateAll o ∧
      ∀ sol' ∈ generateAll o, Cost.le (totalCost c .plain o sol) (totalCost c .plain o sol') = true)
    ∧ (exhaustive c o).Nodup :=
  ⟨fun sol => mem_rankByCost c .plain o (generateAll o) sol, nodup_rankByCost _ _ _ _⟩

/-- Proved part for `reconcile_thl`: the result is exactly the set of decoded
    table solutions of minimum *evaluated* cost, each once (the re-ranking
    through the result entry). -/
theorem C01_thl_partial (c : Costs) (S : RTree) (o : OTree) :
    let decoded := (thlCells c S true o).flatMap (fun d => d.sols.map (plainSol o))
    (∀ sol, sol ∈ thl c S o ↔
      sol ∈ decoded ∧
      ∀ sol' ∈ decoded, Cost.le (totalCost c .plain o sol) (totalCost c .plain o sol') = true)
    ∧ (thl c S o).Nodup :=
  ⟨fun sol => mem_rankByCost c .plain o _ sol, nodup_rankByCost _ _ _ _⟩

/-- The coherence hypothesis of `C01_thl_statement` cannot be dropped: on this
    input (the F-COHERENCE witness: `((a,b),c)` on `((A,B),C)`, spe=4, dup=0,
    floss=1, hgt=9) `thl` returns a solution of cost 8 while a valid
    reconciliation of cost 5 exists. -/
theorem C01_incoherent_witness :
    let c : Costs := { spe := 4, dup := 0, hgt := .fin 9, floss := 1, sloss := 1 }
    let S : RTree := .node [.node [.node [], .node []], .node []]
    let o : OTree := .node (.node (.leaf [0, 0] []) (.leaf [0, 1] [])) (.leaf [1] [])
    let better : Sol := .node [] [] (.node [] [] (.leaf [0, 0] []) (.leaf [0, 1] [])) (.leaf [1] [])
    (thl c S o).map (totalCost c .plain o) = [.fin 8] ∧
    Spec.validRec o better = true ∧ totalCost c .plain o better = .fin 5 := by
  decide +kernel

/-! Non-vacuity -/

example :
    let c : Costs := { spe := 0, dup := 1, hgt := .fin 1, floss := 1, sloss := 1 }
    let S : RTree := .node [.node [], .node []]
    let o : OTree := .node (.node (.leaf [0] []) (.leaf [0] [])) (.leaf [1] [])
    (thl c S o).length = 1 ∧ (exhaustive c o) = thl c S o := by
  decide +kernel

end SR.C01
