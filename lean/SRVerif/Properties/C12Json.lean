/-
  C12 (JSON text) — the hypothesis `json.loads (json.dumps d) = d` of `C12_cost_line_json`
  (`Properties/C12Bridge.lean`) REMOVED.

  `Model/Json.lean` models the text layer that `cli/reconcile.py::dump_results` and the readers
  (`json.load` in `cli/util.py`, `cli/draw.py`) use: `render` = `json.dumps` with the default
  options (`ensure_ascii=True`, separators `", "` / `": "`), `parse` = `json.loads`,
  `parseRaw` = `json.loads` keeping the pairs of every object (`object_pairs_hook`), all three
  tied to CPython byte for byte by `harness/checks/c12_json.py`.

  * `C12_json_roundtrip`        `parse (render v) = some v` for EVERY value `v` without repeated
                                 keys (`WFJ`, decidable) — every string: the seven short escapes,
                                 `\uXXXX` for the other control characters and everything beyond
                                 `~`, surrogate pairs above U+FFFF; every integer; `Infinity`,
                                 `-Infinity`; nesting unbounded.  FULL strength: no alphabet
                                 restriction, no size bound.
  * `C12_json_roundtrip_pairs`  with the pairs kept, no hypothesis at all.
  * `C12_json_wf_needed`        `WFJ` is exactly what `parse` needs: on a value with a repeated key
                                 the round trip through `json.loads` fails (a Python `dict` never
                                 has one).
  * `C12_json_one_line`         `render v` contains neither `\n` nor `\r`: one object per line.
  * `C12_json_dict_roundtrip`   the same on the dictionary structure of `Model/Serialize.lean`
                                 (`renderDict` = `json.dumps` of the dictionary with the keys in the
                                 order of `to_dict`; `parseDict` = `json.loads`, then the keys
                                 looked up as `from_dict` does), for every dictionary whose mappings
                                 have no repeated key (`DictOk`), and
    `C12_to_dict_ok_*`          every dictionary written by `to_dict` is such (`Dict.ofList`).
  * `C12_cost_line_text_thl / _exh / _spfs / _uspfs`   the cost-line theorems of `C12Bridge.lean`
                                 on the TEXT, UNCONDITIONAL in the encoder: the output text is
                                 `dump_results` with `json.dumps`, its newline-terminated lines are
                                 the results in order (one per line), and EVERY LINE is parsed by
                                 `json.loads` to a dictionary that `from_dict` (with the Newick
                                 reader of `Model/Newick.lean`) reads back as an object whose
                                 evaluated cost is the printed minimum cost `k`, the `totalCost`
                                 of every optimal solution.
-/
import SRVerif.Proofs.JsonDict
import SRVerif.Properties.C12Bridge

namespace SR.C12

open SR SR.Ser SR.Cli SR.SolOut SR.C11 SR.Json

/-! ### The JSON round trip -/

/-- **`C12_json_roundtrip`** — `json.loads(json.dumps(v)) = v` for every value without repeated
    keys: all strings (escapes included), all integers, both infinities, any nesting. -/
theorem C12_json_roundtrip : ∀ v : JVal, WFJ v → parse (render v) = some v := parse_render

/-- With `object_pairs_hook` (pairs kept as read) nothing is needed. -/
theorem C12_json_roundtrip_pairs : ∀ v : JVal, parseRaw (render v) = some v := parseRaw_render

/-- `WFJ` cannot be dropped for `json.loads`: a repeated key is collapsed (first position, last
    value). -/
theorem C12_json_wf_needed :
    ¬ WFJ (.obj [("a", .int 1), ("b", .null), ("a", .int 2)]) ∧
    parse (render (.obj [("a", .int 1), ("b", .null), ("a", .int 2)]))
      = some (.obj [("a", .int 2), ("b", .null)]) := by
  decide +kernel

/-- **`C12_json_one_line`** — `json.dumps(v)` has no line break, so "one object per line" is
    well defined for `dump_results`. -/
theorem C12_json_one_line (v : JVal) : '\n' ∉ (render v).toList ∧ '\r' ∉ (render v).toList :=
  render_no_newline v

/-- The fuel of the parser is not a restriction: on characters, for every value. -/
theorem C12_json_roundtrip_chars (v : JVal) : parseC (renderV v) = some v := parseC_renderV v

/-! ### On the dictionary structure of `Model/Serialize.lean` -/

/-- **`C12_json_dict_roundtrip`** — `json.loads(json.dumps(d))`, read by key, is `d`, for every
    dictionary structure whose mappings are Python `dict`s. -/
theorem C12_json_dict_roundtrip (d : OutputDict) (h : DictOk d) : parseDict (renderDict d) = some d := by
  simp [parseDict, renderDict, parse_render _ (wf_dictToJ d h), dictOfJ_dictToJ]

/-- With the pairs kept: every dictionary structure. -/
theorem C12_json_dict_roundtrip_pairs (d : OutputDict) :
    (parseRaw (renderDict d)).bind dictOfJ = some d := by
  simp [renderDict, parseRaw_render, dictOfJ_dictToJ]

theorem C12_to_dict_ok_plain (write : NT → String) (x : RecOutput) : DictOk (x.toDict write) :=
  dictOk_recOutput write x

theorem C12_to_dict_ok_super (write : NT → String) (x : SRecOutput) : DictOk (x.toDict write) :=
  dictOk_srecOutput write x

theorem C12_json_dict_one_line (d : OutputDict) : '\n' ∉ (renderDict d).toList :=
  (render_no_newline _).1

/-! ### The cost line, on the text -/

/-- The conclusion of the cost-line theorems read on the OUTPUT TEXT of a run that wrote the
    objects `outs` (`toD` is `to_dict`): status 0; the last stderr line is "Minimum cost: k";
    `k` is the `totalCost` of every optimal solution; the output text is `dump_results` with
    `json.dumps`; its newline-terminated lines are the written objects, in order, one per line;
    and every line is parsed by `json.loads` to a dictionary that comes back (`from_dict`) as an
    object of evaluated cost `k`. -/
def TextLineOK {ρ : Type} (toD : ρ → OutputDict) (DictBack : OutputDict → Cost → Prop) (c : Costs)
    (mode : LabelMode) (o : OTree) (opt : List Sol) (outs : List ρ) (run : RunOut) : Prop :=
  ∃ k : Cost, run.status = 0 ∧ run.stderr.getLast? = some (minCostText k) ∧
    (∀ s ∈ opt, totalCost c mode o s = k) ∧
    run.stdout = dumpResults (fun x => renderDict (toD x)) outs ∧
    termLines run.stdout.toList = outs.map (fun x => (renderDict (toD x)).toList) ∧
    ∀ ℓ ∈ termLines run.stdout.toList, ∃ d, parseDict (String.ofList ℓ) = some d ∧ DictBack d k

/-- From dictionaries to the text: no hypothesis about JSON is left. -/
theorem C12_text_of_cost_line {ρ : Type} (toD : ρ → OutputDict) (hok : ∀ x, DictOk (toD x))
    (DictBack : OutputDict → Cost → Prop) (c : Costs) (mode : LabelMode) (o : OTree)
    (opt : List Sol) (outs : List ρ) (run : RunOut)
    (h : CostLineOK (fun x k => DictBack (toD x) k) c mode o opt (fun x => renderDict (toD x))
      outs run) :
    TextLineOK toD DictBack c mode o opt outs run := by
  obtain ⟨k, h1, h2, h3, h4, h5⟩ := h
  have hl : termLines run.stdout.toList = outs.map (fun x => (renderDict (toD x)).toList) := by
    rw [h4]
    exact C12_one_object_per_result _ outs (fun x _ => C12_json_dict_one_line _)
  refine ⟨k, h1, h2, h3, h4, hl, fun ℓ hℓ => ?_⟩
  rw [hl] at hℓ
  obtain ⟨x, hx, rfl⟩ := List.mem_map.mp hℓ
  exact ⟨toD x, by rw [String.ofList_toList]; exact C12_json_dict_roundtrip _ (hok x), h5 x hx⟩

/-- **`C12_cost_line_text_thl`** — `C12_cost_line_thl` on the written text. -/
theorem C12_cost_line_text_thl {nm : Naming} {S : RTree} {o : OTree} (c : Costs) (hnm : nm.Ok S o)
    (hb : S.isBinary = true) (hS : ∀ p ∈ leafSpecies o, S.isNode p = true) (withSyn : Bool) :
    let emb := embPlain nm c S o withSyn
    let cost := fun x : RecOutput => evalPlain x.input.base x.objectSpecies
    let toD := fun x : RecOutput => x.toDict Newick.write
    let enc := fun x : RecOutput => renderDict (toD x)
    TextLineOK toD PlainDictBack c .plain o (thl c S o) ((thl c S o).map emb)
      (reconcileRun "thl" (dispatch "thl" (kindOf withSyn) "all") ((thl c S o).map emb) cost enc) ∧
    ∀ (P : Picker Unit), P.Ok → c.spe ≤ c.dup + 2 * c.floss →
      TextLineOK toD PlainDictBack c .plain o (thl c S o) ((thlAny P c S o).map emb)
        (reconcileRun "thl" (dispatch "thl" (kindOf withSyn) "any") ((thlAny P c S o).map emb)
          cost enc) := by
  intro emb cost toD enc
  obtain ⟨h1, h2⟩ := C12_cost_line_thl renderDict c hnm hb hS withSyn
  exact ⟨C12_text_of_cost_line toD (C12_to_dict_ok_plain _) PlainDictBack _ _ _ _ _ _ h1,
    fun P hP hc => C12_text_of_cost_line toD (C12_to_dict_ok_plain _) PlainDictBack _ _ _ _ _ _
      (h2 P hP hc)⟩

/-- **`C12_cost_line_text_exh`** — `C12_cost_line_exh` on the written text. -/
theorem C12_cost_line_text_exh {nm : Naming} {S : RTree} {o : OTree} (c : Costs) (hnm : nm.Ok S o)
    (hS : ∀ p ∈ leafSpecies o, S.isNode p = true) (withSyn : Bool) :
    let emb := embPlain nm c S o withSyn
    let cost := fun x : RecOutput => evalPlain x.input.base x.objectSpecies
    let toD := fun x : RecOutput => x.toDict Newick.write
    let enc := fun x : RecOutput => renderDict (toD x)
    TextLineOK toD PlainDictBack c .plain o (exhaustive c o) ((exhaustive c o).map emb)
      (reconcileRun "exh" (dispatch "exh" (kindOf withSyn) "all") ((exhaustive c o).map emb)
        cost enc) ∧
    ∀ (pick : List Sol → Option Sol), PickOk pick →
      TextLineOK toD PlainDictBack c .plain o (exhaustive c o) ((exhaustiveAny pick c o).map emb)
        (reconcileRun "exh" (dispatch "exh" (kindOf withSyn) "any")
          ((exhaustiveAny pick c o).map emb) cost enc) := by
  intro emb cost toD enc
  obtain ⟨h1, h2⟩ := C12_cost_line_exh renderDict c hnm hS withSyn
  exact ⟨C12_text_of_cost_line toD (C12_to_dict_ok_plain _) PlainDictBack _ _ _ _ _ _ h1,
    fun pick hp => C12_text_of_cost_line toD (C12_to_dict_ok_plain _) PlainDictBack _ _ _ _ _ _
      (h2 pick hp)⟩

/-- **`C12_cost_line_text_spfs`** — `C12_cost_line_spfs` on the written text. -/
theorem C12_cost_line_text_spfs {nm : Naming} {S : RTree} {o : OTree} (c : Costs) (hnm : nm.Ok S o)
    (hb : S.isBinary = true) (hS : ∀ p ∈ leafSpecies o, S.isNode p = true) (base : Bool)
    (pre : Option (List Nat)) :
    let emb := embSuper nm id c S o true
    let cost := fun x : SRecOutput => evalSuper x.input.base x.objectSpecies x.syntenies x.ordered
    let toD := fun x : SRecOutput => x.toDict Newick.write
    let enc := fun x : SRecOutput => renderDict (toD x)
    let all := spfs c S base o pre
    let runAll := reconcileRun (spfsName base) (dispatch (spfsName base) .super "all")
      (all.map emb) cost enc
    (all = [] → runAll.status = 1 ∧ runAll.stdout = "") ∧
    (all ≠ [] → TextLineOK toD SuperDictBack c .ordered o all (all.map emb) runAll) ∧
    ∀ (P : Picker Nat), P.Ok → C02.OrdersOk o pre → c.spe + 2 * c.sloss ≤ c.dup + 2 * c.floss →
      let any := spfsAny P c S base o pre
      let runAny := reconcileRun (spfsName base) (dispatch (spfsName base) .super "any")
        (any.map emb) cost enc
      (any = [] ↔ all = []) ∧ (all = [] → runAny.status = 1 ∧ runAny.stdout = "") ∧
      (all ≠ [] → TextLineOK toD SuperDictBack c .ordered o all (any.map emb) runAny) := by
  intro emb cost toD enc all runAll
  obtain ⟨h1, h2, h3⟩ := C12_cost_line_spfs renderDict c hnm hb hS base pre
  refine ⟨h1, fun hne => C12_text_of_cost_line toD (C12_to_dict_ok_super _) SuperDictBack _ _ _ _ _ _
    (h2 hne), fun P hP hord hc => ?_⟩
  obtain ⟨g1, g2, g3⟩ := h3 P hP hord hc
  exact ⟨g1, g2, fun hne => C12_text_of_cost_line toD (C12_to_dict_ok_super _) SuperDictBack
    _ _ _ _ _ _ (g3 hne)⟩

/-- **`C12_cost_line_text_uspfs`** — `C12_cost_line_uspfs` on the written text (the sets written
    in any iteration order `arr`). -/
theorem C12_cost_line_text_uspfs {nm : Naming} {S : RTree} {o : OTree}
    (arr : List String → List String) (harr : ∀ l, (arr l).Perm l) (c : Costs) (hnm : nm.Ok S o)
    (hb : S.isBinary = true) (hS : ∀ p ∈ leafSpecies o, S.isNode p = true) (base : Bool) :
    let emb := embSuper nm arr c S o false
    let cost := fun x : SRecOutput => evalSuper x.input.base x.objectSpecies x.syntenies x.ordered
    let toD := fun x : SRecOutput => x.toDict Newick.write
    let enc := fun x : SRecOutput => renderDict (toD x)
    let all := uspfs c S base o
    TextLineOK toD SuperDictBack c .unordered o all (all.map emb)
      (reconcileRun (uspfsName base) (dispatch (uspfsName base) .super "all") (all.map emb)
        cost enc) ∧
    ∀ (P : Picker Kind), P.Ok → (∀ f ∈ leafSyntenies o, f ≠ []) →
      c.spe + c.sloss ≤ c.dup + 2 * c.floss →
      TextLineOK toD SuperDictBack c .unordered o all ((uspfsAny P c S base o).map emb)
        (reconcileRun (uspfsName base) (dispatch (uspfsName base) .super "any")
          ((uspfsAny P c S base o).map emb) cost enc) := by
  intro emb cost toD enc all
  obtain ⟨h1, h2⟩ := C12_cost_line_uspfs renderDict arr harr c hnm hb hS base
  exact ⟨C12_text_of_cost_line toD (C12_to_dict_ok_super _) SuperDictBack _ _ _ _ _ _ h1,
    fun P hP hne hc => C12_text_of_cost_line toD (C12_to_dict_ok_super _) SuperDictBack
      _ _ _ _ _ _ (h2 P hP hne hc)⟩

/-- `C12_cost_line_uspfs_json` of `C12Bridge.lean` with its hypothesis discharged (`superdtl`
    / `base_uspfs`, `--solutions all`): every written line parses (pairs kept: no condition on the
    dictionary at all) to a dictionary read back with the cost of every optimal solution. -/
theorem C12_cost_line_uspfs_json_inst {nm : Naming} {S : RTree} {o : OTree}
    (arr : List String → List String) (harr : ∀ l, (arr l).Perm l) (c : Costs) (hnm : nm.Ok S o)
    (hb : S.isBinary = true) (hS : ∀ p ∈ leafSpecies o, S.isNode p = true) (base : Bool) :
    let enc := fun s => renderDict ((embSuper nm arr c S o false s).toDict Newick.write)
    ∃ k : Cost, (∀ s ∈ uspfs c S base o, totalCost c .unordered o s = k) ∧
      ∀ ℓ ∈ (uspfs c S base o).map enc, ∃ d y, (parseRaw ℓ).bind dictOfJ = some d ∧
        SRecOutput.fromDict newickRead d = .ok y ∧
        evalSuper y.input.base y.objectSpecies y.syntenies y.ordered = k :=
  C12_cost_line_uspfs_json renderDict (fun s => (parseRaw s).bind dictOfJ)
    C12_json_dict_roundtrip_pairs arr harr c hnm hb hS base

/-! ### Non-vacuity -/

/-- A value with every kind of string escape (quote, backslash, the short escapes, a control
    character, DEL, Latin-1, U+2028, an astral character), big and negative integers, both
    infinities, empty containers, an empty key: rendered as CPython renders it, and read back. -/
def exVal : JVal :=
  .obj [("a\"\\/\n\r\t\x08\x0c\x01\x7fé\u2028😀", .arr [.int 0, .int (-12), .int 1234567890123456789012,
          .inf, .ninf, .null, .bool true, .bool false, .arr [], .obj []]),
        ("", .str ""), ("k", .obj [("k", .arr [.arr [.str "Infinity"]])])]

example : WFJ exVal := by decide +kernel

example : renderV exVal =
    ("{\"a\\\"\\\\/\\n\\r\\t\\b\\f\\u0001\\u007f\\u00e9\\u2028\\ud83d\\ude00\": [0, -12, " ++
     "1234567890123456789012, Infinity, -Infinity, null, true, false, [], {}], \"\": \"\", " ++
     "\"k\": {\"k\": [[\"Infinity\"]]}}").toList := by
  decide +kernel

example : parseC (renderV exVal) = some exVal := by decide +kernel

example : parse (render exVal) = some exVal := C12_json_roundtrip exVal (by decide +kernel)

/-- Whitespace between tokens, upper-case hexadecimal, `\/`: accepted as `json.loads` does. -/
example : parseC " {\n \"a\" :\t[ 1 ,-2,\r\n \"\\u00E9\\/\" ] , \"b\":{ } }\n ".toList
    = some (.obj [("a", .arr [.int 1, .int (-2), .str "é/"]), ("b", .obj [])]) := by
  decide +kernel

/-- Rejected as `json.loads` rejects (or reads as a float / keeps a lone surrogate: outside the
    model): leading zero, trailing comma, a raw control character in a string, a float, a lone
    surrogate, text after the value. -/
example : parseC "[01]".toList = none ∧ parseC "[1,]".toList = none ∧
    parseC "\"a\nb\"".toList = none ∧ parseC "1.5".toList = none ∧
    parseC "\"\\ud800\"".toList = none ∧ parseC "1 2".toList = none := by
  decide +kernel

/-- A real solver dictionary: the line that `reconcile --algorithm superdtl` writes for the
    solution of `C12Bridge.lean`'s example (`to_dict` with the Newick writer, then `json.dumps`;
    on characters — `decide` on computed `String`s is slow in the kernel) … -/
def exLine : List Char :=
  "{\"input\": {\"object_tree\": \"((S0_00,(S0_010,S0_011)O01)O0,S1_1)OR;\", ".toList ++
  "\"species_tree\": \"(S0,S1)SR;\", \"leaf_object_species\": {\"S0_00\": \"S0\", ".toList ++
  "\"S0_010\": \"S0\", \"S0_011\": \"S0\", \"S1_1\": \"S1\"}, \"costs\": {\"SPECIATION\": 0, ".toList ++
  "\"DUPLICATION\": 1, \"HORIZONTAL_TRANSFER\": 1, \"FULL_LOSS\": 1, \"SEGMENTAL_LOSS\": 1}, ".toList ++
  "\"leaf_syntenies\": {\"S0_00\": [\"gg\", \"ggg\"], \"S0_010\": [\"gg\"], \"S0_011\": [\"gg\"], ".toList ++
  "\"S1_1\": [\"gg\", \"ggg\"]}}, \"object_species\": {\"OR\": \"SR\", \"O0\": \"S0\", ".toList ++
  "\"S0_00\": \"S0\", \"O01\": \"S0\", \"S0_010\": \"S0\", \"S0_011\": \"S0\", \"S1_1\": \"S1\"}, ".toList ++
  "\"syntenies\": {\"OR\": [\"gg\", \"ggg\"], \"O0\": [\"gg\", \"ggg\"], \"S0_00\": [\"gg\", \"ggg\"], ".toList ++
  "\"O01\": [\"gg\"], \"S0_010\": [\"gg\"], \"S0_011\": [\"gg\"], \"S1_1\": [\"gg\", \"ggg\"]}, ".toList ++
  "\"ordered\": false}".toList

example :
    (uspfs exCosts exS false exO).map (fun s =>
      renderV (dictToJ ((embSuper exNaming id exCosts exS exO false s).toDict Newick.write)))
    = [exLine] := by
  decide +kernel

/-- … and read back: `json.loads`, then the keys looked up as `from_dict` does. -/
example :
    (uspfs exCosts exS false exO).map (fun s =>
      ((parseC (renderV (dictToJ ((embSuper exNaming id exCosts exS exO false s).toDict
        Newick.write)))).map JVal.norm).bind dictOfJ)
    = (uspfs exCosts exS false exO).map (fun s =>
      some ((embSuper exNaming id exCosts exS exO false s).toDict Newick.write)) := by
  decide +kernel

/-- The text theorems apply to that input: every line written by `reconcile --algorithm thl
    --solutions all` parses to a dictionary read back with the printed cost. -/
example :
    ∃ k, ∀ ℓ ∈ termLines (reconcileRun "thl" (dispatch "thl" (kindOf true) "all")
        ((thl exCosts exS exO).map (embPlain exNaming exCosts exS exO true))
        (fun x : RecOutput => evalPlain x.input.base x.objectSpecies)
        (fun x : RecOutput => renderDict (x.toDict Newick.write))).stdout.toList,
      ∃ d, parseDict (String.ofList ℓ) = some d ∧ PlainDictBack d k := by
  obtain ⟨k, _, _, _, _, _, h⟩ := (C12_cost_line_text_thl exCosts exNaming_ok
    (by decide +kernel) (by decide +kernel) true).1
  exact ⟨k, h⟩

example :
    ∃ k, ∀ x ∈ (uspfs exCosts exS false exO).map (embSuper exNaming id exCosts exS exO false),
      ∃ d, parseDict (renderDict (x.toDict Newick.write)) = some d ∧ SuperDictBack d k := by
  obtain ⟨k, _, _, _, _, hl, h⟩ := (C12_cost_line_text_uspfs id
    (fun _ => List.Perm.refl _) exCosts exNaming_ok (by decide +kernel) (by decide +kernel) false).1
  refine ⟨k, fun x hx => ?_⟩
  have := h (renderDict (x.toDict Newick.write)).toList (by
    rw [hl]; exact List.mem_map.mpr ⟨x, hx, rfl⟩)
  rwa [String.ofList_toList] at this

end SR.C12
