/-
  C13, TikZ clause on the DRAWING CALLS (`Model/TikzDraw.lean`), unconditional:
  `C13_tikz_draw` (Properties/C13Draw.lean) transported along the theorem `C13_tikz`
  (Properties/C13Tikz.lean).
-/
import SRVerif.Properties.C13Draw
import SRVerif.Properties.C13Tikz

namespace SR.C13

open SR SR.Layout SR.TikzDraw

/-- For every valid reconciliation in a binary species tree: the drawing code runs without raising
    and its calls contain exactly one event statement per object node, as many loss markers as the
    evaluator counts full losses, and exactly one arrow per transfer node, ending at the
    transferred child. -/
theorem C13_tikz_draw_valid (o : Orientation) (P : Params) (sizes : Key → Size) (dp : DParams)
    (deco : Deco) (S : RTree) (ot : OTree) (sol : Sol)
    (hv : Spec.validRec ot sol = true) (hin : inTree S sol = true)
    (hb : S.isBinary = true) (hw : dp.labelWidth ≠ some 0) :
    ∃ all calls, compute o P sizes S sol = .ok all ∧
      drawCalls o dp deco S (spOfSol sol) all = .ok calls ∧
      (∀ p sub, subAt sol p = some sub →
        ((kinds calls).filter fun x => match x with
          | .event k _ => k == Key.gene p | _ => false).length = 1) ∧
      ((kinds calls).filter fun x => match x with | .lossMarker _ => true | _ => false).length
        = evalLossCount sol ∧
      (∀ p sp f l r, subAt sol p = some (.node sp f l r) → internalEvent sp l.sp r.sp = .hgt →
        ((kinds calls).filter fun x => match x with
          | .transfer src tgt => src == Key.gene p &&
              tgt == Key.gene (if Path.isAnc sp l.sp then p ++ [1] else p ++ [0])
          | _ => false).length = 1) :=
  C13_tikz_draw o P sizes dp deco S sol hb hw (C13_tikz o P sizes S ot sol hv hin hb)

end SR.C13
