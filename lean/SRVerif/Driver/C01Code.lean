/-
  Driver op for the code-structured model of `reconcile_thl`
  (`Model/ThlCode.lean`):

  * `c01_thlcode` {"S","O","costs","policy": "all"|"any" (default "all")} →
      {"cost": c | null, "sols": [canonical solutions],
       "table": [{"o": <pre-order index of the object node>, "s": "<species path>",
                  "v": <entry value>, "tags": [["<left species>","<right species>"], …]}, …]}
    `table` lists the INSTANTIATED entries of `_compute_thl_table` (an
    `EntryProxy` over `None` is absent), in creation order.
-/
import SRVerif.Driver.Solve
import SRVerif.Model.ThlCode

open Lean

namespace SR.Drv.C01Code

open SR.Drv.Solve SR.ThlCode

/-- Object-node paths in pre-order (the harness numbers `object_tree.traverse("preorder")`). -/
def preorderPaths : OTree → Path → List Path
  | .leaf _ _, v => [v]
  | .node l r, v => v :: (preorderPaths l (v ++ [0]) ++ preorderPaths r (v ++ [1]))

def retainOf (j : Json) : Except String Retain :=
  match j.getObjVal? "policy" with
  | .ok (.str "all") => pure .all
  | .ok (.str "any") => pure .any
  | .ok _ => throw "policy"
  | .error _ => pure .all

def cellJson (pre : List Path) (ke : Key × Entry MappingInfo) : Json :=
  Json.mkObj [
    ("o", toJson (pre.idxOf ke.1.1)),
    ("s", Json.str (pathToString ke.1.2)),
    ("v", extIntToJson ke.2.value),
    ("tags", Json.arr (ke.2.infos.map (fun t =>
      Json.arr #[Json.str (pathToString t.left), Json.str (pathToString t.right)])).toArray)]

/-- op `c01_thlcode`. -/
def thlCodeOp : Handler := fun j => do
  let S ← rtreeOf (← j.getObjVal? "S")
  let o ← otreeOf (← j.getObjVal? "O")
  let c ← costsOf j
  let r ← retainOf j
  let table := computeTable r c S o
  let res := reconcile r c S o
  let pre := preorderPaths o []
  let cost := match res.infos with
    | [] => Json.null
    | _ :: _ => extIntToJson res.value
  pure (Json.mkObj [
    ("cost", cost),
    ("sols", Json.arr (res.infos.map (solToJson false)).toArray),
    ("table", Json.arr (table.cells.map (cellJson pre)).toArray)])

def handlers : List (String × Handler) := [("c01_thlcode", thlCodeOp)]

end SR.Drv.C01Code
