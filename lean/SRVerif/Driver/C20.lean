import SRVerif.Driver.Util
import SRVerif.Model.DisjointSet
import SRVerif.Model.Triples
import SRVerif.Spec.Triples

open Lean

namespace SR.Drv.C20

open SR SR.Tri

/-- Trees are nested JSON arrays with natural-number leaves. -/
def treeOfJson : Nat → Json → Except String LTree
  | 0, _ => throw "tree too deep"
  | fuel + 1, j =>
    match j with
    | .arr a => do pure (.node (← a.toList.mapM (treeOfJson fuel)))
    | x => do pure (.leaf (← x.getNat?))

mutual
  def treeToJson : LTree → Json
    | .leaf a => toJson a
    | .node cs => Json.arr (treesToJson cs).toArray
  def treesToJson : List LTree → List Json
    | [] => []
    | c :: cs => treeToJson c :: treesToJson cs
end

def getTree (j : Json) (k : String) : Except String LTree := do
  treeOfJson 200 (← j.getObjVal? k)

def tripleOf (j : Json) : Except String Triple := do
  match ← natList j with
  | [a, b, c] => pure (a, b, c)
  | _ => throw "triple"

def getTriples (j : Json) (k : String) : Except String (List Triple) := do
  (← getArr j k).toList.mapM tripleOf

def tripleToJson (t : Triple) : Json := natsToJson [t.1, t.2.1, t.2.2]

def natssToJson (l : List (List Nat)) : Json := Json.arr (l.map natsToJson).toArray

def opOf (j : Json) : Except String DS.Op := do
  match ← natList j with
  | [a, b] => pure (.unite a b)
  | [a] => pure (.find a)
  | _ => throw "op"

def opInRange (n : Nat) : DS.Op → Bool
  | .unite a b => a < n && b < n
  | .find a => a < n

def stepOut (acc : DS × List Json) (op : DS.Op) : DS × List Json :=
  match op with
  | .unite a b => let p := acc.1.unite a b; (p.1, acc.2 ++ [toJson p.2])
  | .find a => let p := acc.1.find a; (p.1, acc.2 ++ [toJson p.2])

def errJson (e : String) : Json := Json.mkObj [("err", e)]

/-- op `c20_dsu`: `{n, ops}` with ops `[a,b]` (unite) or `[a]` (find). -/
def dsu : Handler := fun j => do
  let n ← getNat j "n"
  let ops ← (← getArr j "ops").toList.mapM opOf
  if !ops.all (opInRange n) then return errJson "IndexError"
  let p := ops.foldl stepOut (DS.init n, [])
  let d := p.1
  pure (Json.mkObj [("results", Json.arr p.2.toArray), ("groups", toJson d.groups),
    ("parent", natsToJson d.parent), ("rank", natsToJson d.rank),
    ("list", natssToJson d.toList.2), ("reps", natsToJson d.sortedReps.2),
    ("parent_after_list", natsToJson d.toList.1.parent)])

/-- op `c20_binary`: `to_list()` of every member of `binary()`, in order. -/
def binary : Handler := fun j => do
  let n ← getNat j "n"
  let ops ← (← getArr j "ops").toList.mapM opOf
  if !ops.all (opInRange n) then return errJson "IndexError"
  let d := DS.run n ops
  pure (Json.arr ((d.binary.map (fun b => natssToJson b.toList.2)).toArray))

def treeToTriples : Handler := fun j => do
  let t ← getTree j "tree"
  match Tri.treeToTriples t with
  | none => pure Json.null
  | some (ls, trs) =>
    pure (Json.mkObj [("leaves", natsToJson ls), ("triples", Json.arr (trs.map tripleToJson).toArray)])

def optTreeJson : Option LTree → Json
  | none => Json.null
  | some t => treeToJson t

def treeFromTriples : Handler := fun j => do
  let ls ← getNatList j "leaves"
  let trs ← getTriples j "triples"
  match Tri.treeFromTriplesE ls trs with
  | .error e => pure (errJson e)
  | .ok r => pure (Json.mkObj [("tree", optTreeJson r)])

def allTrees : Handler := fun j => do
  let ls ← getNatList j "leaves"
  let trs ← getTriples j "triples"
  match Tri.allTreesFromTriplesE ls trs with
  | .error e => pure (errJson e)
  | .ok r => pure (Json.mkObj [("trees", Json.arr (treesToJson r).toArray)])

def getTrees (j : Json) (k : String) : Except String (List LTree) := do
  (← getArr j k).toList.mapM (treeOfJson 200)

def supertree : Handler := fun j => do
  let ts ← getTrees j "trees"
  match Tri.supertree ts with
  | none => pure (errJson "scope")
  | some r => pure (Json.mkObj [("tree", optTreeJson r)])

def allSupertrees : Handler := fun j => do
  let ts ← getTrees j "trees"
  match Tri.allSupertrees ts with
  | none => pure (errJson "scope")
  | some r => pure (Json.mkObj [("trees", Json.arr (treesToJson r).toArray)])

/-- op `c20_displays`: the specification predicate, for a list of triples. -/
def displays : Handler := fun j => do
  let t ← getTree j "tree"
  let trs ← getTriples j "triples"
  pure (Json.arr (trs.map (fun tr => toJson (Spec.displays t tr))).toArray)

/-- op `c20_clades`: the clades of a tree. -/
def clades : Handler := fun j => do
  let t ← getTree j "tree"
  pure (Json.mkObj [("clades", natssToJson (Spec.clades t)), ("binary", toJson (Spec.binary t)),
                    ("leaves", natsToJson t.leaves)])

/-- op `c20_same`: equality up to child order. -/
def same : Handler := fun j => do
  let t ← getTree j "a"
  let u ← getTree j "b"
  pure (toJson (Spec.sameClades t u))

def handlers : List (String × Handler) :=
  [("c20_dsu", dsu), ("c20_binary", binary), ("c20_tree_to_triples", treeToTriples),
   ("c20_tree_from_triples", treeFromTriples), ("c20_all_trees", allTrees),
   ("c20_supertree", supertree), ("c20_all_supertrees", allSupertrees),
   ("c20_displays", displays), ("c20_clades", clades), ("c20_same", same)]

end SR.Drv.C20
