/-
  Driver op for the code-structured model of the ordered solvers
  (`Model/SpfsCode.lean`):

  * `c02_spfscode` {"S","O","costs","root"?,"algo": "ext_spfs"|"base_spfs",
                    "policy"?: "all"|"any"|"none"}
      -> {"cost": c | null, "sols": [...],
          "tables": [{"order": [...],
                      "cells": [[object preorder index, species path, mask, value,
                                 [[[lsp, lmask], [rsp, rmask]], ...]], ...]}, ...]}
         or {"err": "IndexError" | "KeyError" | ...}
    (cost, solutions) of `_spfs`, and for every root ordering tried the instantiated
    entries of `_compute_spfs_table` with their values and tags.
-/
import SRVerif.Driver.Solve
import SRVerif.Driver.C19
import SRVerif.Model.SpfsCode

open Lean

namespace SR.Drv.C02Code

open SR.Drv.Solve SR.SpfsCode

def retainOf (j : Json) : Except String Retain :=
  match j.getObjVal? "policy" with
  | .ok (.str "all") => pure .all
  | .ok (.str "any") => pure .any
  | .ok (.str "none") => pure .none
  | .ok _ => throw "policy"
  | .error _ => pure .all

def asgJson (a : OAsg) : Json := Json.arr #[Json.str (pathToString a.1), toJson a.2]

def cellJson (idx : Nat) (d : TCell) : Json :=
  Json.arr #[toJson idx, Json.str (pathToString d.sp), toJson d.syn, extIntToJson d.entry.value,
    Json.arr (d.entry.infos.map (fun t => Json.arr #[asgJson t.1, asgJson t.2])).toArray]

def tableJson (order : List Nat) (t : Tab) : Json :=
  let cells := (t.flatten 0).1.flatMap (fun p => p.2.map (cellJson p.1))
  Json.mkObj [("order", natsToJson order), ("cells", Json.arr cells.toArray)]

def spfsCodeOp : Handler := fun j => do
  let S ← rtreeOf (← j.getObjVal? "S")
  let o ← otreeOf (← j.getObjVal? "O")
  let c ← costsOf j
  let root ← rootOf j
  let ret ← retainOf j
  let base ← match ← getStr j "algo" with
    | "ext_spfs" => pure false
    | "base_spfs" => pure true
    | a => throw s!"algo {a}"
  match rootOrderings o root with
  | .error e => pure (C19.errJson e)
  | .ok orders =>
    let sols := (results c S base ret o orders).infos
    let cost := match sols with
      | [] => Json.null
      | s :: _ => costToJson (totalCost c .ordered o s)
    pure (Json.mkObj [
      ("cost", cost),
      ("sols", Json.arr (sols.map (solToJson true)).toArray),
      ("tables", Json.arr (orders.map (fun order =>
        tableJson order (computeTable c S base ret order true o))).toArray)])

def handlers : List (String × Handler) := [("c02_spfscode", spfsCodeOp)]

end SR.Drv.C02Code
