import SRVerif.Driver.Solve
import SRVerif.Model.Layout

open Lean

namespace SR.Drv.C13

open SR.Layout SR.Drv.Solve

def keyToString : Key → String
  | .gene p => "g:" ++ pathToString p
  | .loss g s => "l:" ++ pathToString g ++ ":" ++ pathToString s

def keyOfString (s : String) : Except String Key :=
  match s.splitOn ":" with
  | ["g", p] => pure (.gene (pathOfString p))
  | ["l", g, sp] => pure (.loss (pathOfString g) (pathOfString sp))
  | _ => throw s!"bad key {s}"

def kindName : BKind → String
  | .leaf => "LEAF" | .spec => "SPECIATION" | .dup => "DUPLICATION"
  | .hgt => "HORIZONTAL_TRANSFER" | .loss => "FULL_LOSS"

def errName : LErr → String
  | .key => "KeyError" | .attr => "AttributeError" | .value => "ValueError" | .input => "input"

def optKey : Option Key → Json
  | none => Json.null
  | some k => Json.str (keyToString k)

def branchJson (b : Branch) : Json :=
  Json.mkObj [("key", keyToString b.key), ("kind", kindName b.kind),
              ("left", optKey b.left), ("right", optKey b.right)]

def errJson (e : LErr) : Json := Json.mkObj [("err", errName e)]

/-- op `c13_branches`: `_compute_branches`, per species in creation order. -/
def branches : Handler := fun j => do
  let S ← rtreeOf (← j.getObjVal? "S")
  let sol ← solOf (← j.getObjVal? "sol")
  match computeBranches S sol with
  | .error e => pure (errJson e)
  | .ok st =>
    pure (Json.mkObj [("ok", Json.arr (st.map fun (s, sp) =>
      Json.mkObj [("sp", pathToString s),
                  ("branches", Json.arr (sp.branches.map branchJson).toArray),
                  ("anchors", Json.arr (sp.anchors.map fun k => Json.str (keyToString k)).toArray)]).toArray)])

def ratToString (q : Rat) : String := s!"{q.num}/{q.den}"

def ratJson (q : Rat) : Json := Json.str (ratToString q)

def ratOfJson (j : Json) : Except String Rat :=
  match j with
  | .str s =>
    match s.splitOn "/" with
    | [a, b] =>
      match a.toInt?, b.toNat? with
      | some n, some d => if d = 0 then throw "zero denominator" else pure (mkRat n d)
      | _, _ => throw s!"bad rational {s}"
    | [a] => match a.toInt? with
      | some n => pure (n : Rat)
      | none => throw s!"bad rational {s}"
    | _ => throw s!"bad rational {s}"
  | _ => do pure ((← j.getInt?) : Rat)

def getRat (j : Json) (k : String) : Except String Rat := do ratOfJson (← j.getObjVal? k)

def paramsOf (j : Json) : Except String Params := do
  pure { pad := ← getRat j "pad", gsp := ← getRat j "gsp", overhead := ← getRat j "overhead",
         minsp := ← getRat j "minsp", level := ← getRat j "level" }

def orientationOf (s : String) : Except String Orientation :=
  match s with
  | "V" => pure .vertical | "H" => pure .horizontal | _ => throw "orientation"

/-- Size table: `{"<key>": [w, h], …}`; missing keys measure `Size(0, 0)`. -/
def sizesOf (j : Json) : Except String (Key → Size) := do
  let obj ← j.getObj?
  let tbl ← obj.toList.mapM fun (k, v) => do
    let key ← keyOfString k
    let a ← v.getArr?
    if a.size != 2 then throw "size" else
    pure (key, (⟨← ratOfJson a[0]!, ← ratOfJson a[1]!⟩ : Size))
  pure fun k => (lookupKey tbl k).getD ⟨0, 0⟩

def posJson (p : Pos) : Json := Json.arr #[ratJson p.x, ratJson p.y]

def rectJson (r : Rect) : Json := Json.arr #[ratJson r.x, ratJson r.y, ratJson r.w, ratJson r.h]

def fbranchJson (b : FBranch) : Json :=
  Json.mkObj [("key", keyToString b.key), ("kind", kindName b.kind),
              ("left", optKey b.left), ("right", optKey b.right),
              ("rect", rectJson b.rect), ("anchor_parent", posJson b.aParent),
              ("anchor_left", posJson b.aLeft), ("anchor_right", posJson b.aRight),
              ("anchor_child", posJson b.aChild)]

def subLayoutJson (l : SubLayout) : Json :=
  Json.mkObj [("sp", pathToString l.sp), ("rect", rectJson l.rect), ("trunk", rectJson l.trunk),
              ("fork", ratJson l.fork),
              ("anchors", Json.arr (l.anchors.map fun (k, p) =>
                 Json.arr #[Json.str (keyToString k), posJson p]).toArray),
              ("branches", Json.arr (l.branches.map fbranchJson).toArray)]

/-- op `c14_layout`: `layout.compute`, the `SubtreeLayout`s in pre-order. -/
def layout : Handler := fun j => do
  let S ← rtreeOf (← j.getObjVal? "S")
  let sol ← solOf (← j.getObjVal? "sol")
  let P ← paramsOf (← j.getObjVal? "params")
  let o ← orientationOf (← getStr j "orientation")
  let sizes ← sizesOf (← j.getObjVal? "sizes")
  match compute o P sizes S sol with
  | .error e => pure (errJson e)
  | .ok ls => pure (Json.mkObj [("ok", Json.arr (ls.map subLayoutJson).toArray)])

def stmtJson : Stmt → Json
  | .path => Json.arr #["path"]
  | .event k kind => Json.arr #["event", keyToString k, kindName kind]
  | .lossMarker k => Json.arr #["loss", keyToString k]
  | .transfer s t => Json.arr #["transfer", keyToString s, keyToString t]

/-- op `c13_render`: statement kinds of `_tikz_draw_branches`, in emission order. -/
def renderOp : Handler := fun j => do
  let S ← rtreeOf (← j.getObjVal? "S")
  let sol ← solOf (← j.getObjVal? "sol")
  let o ← orientationOf (← getStr j "orientation")
  -- the statement kinds do not depend on the geometry: unit sizes, default parameters
  let P : Params := { pad := 4, gsp := 5, overhead := 10, minsp := 12, level := 4 }
  match render o P (fun _ => ⟨1, 1⟩) S sol with
  | .error e => pure (errJson e)
  | .ok ss => pure (Json.mkObj [("ok", Json.arr (ss.map stmtJson).toArray)])

/-- op `c13_loss_count`: the evaluator's number of full losses (its own formula). -/
def lossCount : Handler := fun j => do
  let sol ← solOf (← j.getObjVal? "sol")
  pure (toJson (evalLossCount sol))

def handlers : List (String × Handler) :=
  [("c13_branches", branches), ("c14_layout", layout), ("c13_render", renderOp),
   ("c13_loss_count", lossCount)]

end SR.Drv.C13
