import SRVerif.Driver.Util
import SRVerif.Model.Entry

open Lean

namespace SR.Drv.C16

def mergeOf (s : String) : Except String Merge :=
  match s with
  | "min" => pure .min | "max" => pure .max | _ => throw "merge"

def retainOf (s : String) : Except String Retain :=
  match s with
  | "none" => pure .none | "any" => pure .any | "all" => pure .all | _ => throw "retain"

/-- A candidate is `[value, tag]` with tag `null` or a natural number. -/
def candOf (j : Json) : Except String (Cand Nat) := do
  let a ← j.getArr?
  if a.size != 2 then throw "cand"
  let v ← extIntOfJson a[0]!
  let t ← match a[1]! with
    | .null => pure none
    | x => do pure (some (← x.getNat?))
  pure { value := v, info := t }

def batchesOf (j : Json) : Except String (List (List (Cand Nat))) := do
  let bs ← getArr j "batches"
  bs.toList.mapM (fun b => do (← b.getArr?).toList.mapM candOf)

def entryJson (v : ExtInt) (infos : List Nat) : Json :=
  Json.mkObj [("value", extIntToJson v), ("infos", natsToJson infos)]

/-- op `entry`: a standalone entry receiving a history of batches. -/
def entry : Handler := fun j => do
  let m ← mergeOf (← getStr j "merge")
  let r ← retainOf (← getStr j "retain")
  let bs ← batchesOf j
  let e := bs.foldl (fun e b => Entry.update e b) (Entry.init m r : Entry Nat)
  pure (entryJson e.value e.infos)

/-- op `cell`: a table cell behind a proxy receiving a history of batches. -/
def cell : Handler := fun j => do
  let m ← mergeOf (← getStr j "merge")
  let r ← retainOf (← getStr j "retain")
  let bs ← batchesOf j
  let c := bs.foldl (fun c b => Cell.update m r c b) (none : Cell Nat)
  pure (Json.mkObj [("value", extIntToJson (Cell.value m c)),
                    ("infos", natsToJson (Cell.infos c)),
                    ("real", toJson c.isSome)])

/-- Tag pairs are encoded as `a * 1000 + b`. -/
def sumComb (v1 : ExtInt) (t1 : Nat) (v2 : ExtInt) (t2 : Nat) : Cand Nat :=
  { value := v1 + v2, info := some (t1 * 1000 + t2) }

/-- op `combine`: two standalone entries built from histories, then combined
    with the additive combinator. -/
def combine : Handler := fun j => do
  let m ← mergeOf (← getStr j "merge")
  let r ← retainOf (← getStr j "retain")
  let a ← (← getArr j "a").toList.mapM candOf
  let b ← (← getArr j "b").toList.mapM candOf
  let ea := Entry.update (Entry.init m r : Entry Nat) a
  let eb := Entry.update (Entry.init m r : Entry Nat) b
  let e := Entry.combine ea eb sumComb
  pure (entryJson e.value e.infos)

def handlers : List (String × Handler) :=
  [("entry", entry), ("cell", cell), ("combine", combine)]

end SR.Drv.C16
