import SRVerif.Driver.C13
import SRVerif.Driver.C15
import SRVerif.Model.TikzDraw

open Lean

namespace SR.Drv.C15Draw

open SR.Layout SR.Tikz SR.TikzDraw SR.Drv.Solve SR.Drv.C13

def kindOfName (s : String) : Except String BKind :=
  match s with
  | "LEAF" => pure .leaf | "SPECIATION" => pure .spec | "DUPLICATION" => pure .dup
  | "HORIZONTAL_TRANSFER" => pure .hgt | "FULL_LOSS" => pure .loss
  | _ => throw s!"bad kind {s}"

def posOfJson (j : Json) : Except String Pos := do
  let a ← j.getArr?
  if a.size != 2 then throw "pos" else
  pure ⟨← ratOfJson a[0]!, ← ratOfJson a[1]!⟩

def rectOfJson (j : Json) : Except String Rect := do
  let a ← j.getArr?
  if a.size != 4 then throw "rect" else
  pure ⟨← ratOfJson a[0]!, ← ratOfJson a[1]!, ← ratOfJson a[2]!, ← ratOfJson a[3]!⟩

def optKeyOf (j : Json) (k : String) : Except String (Option Key) :=
  match j.getObjVal? k with
  | .ok .null => pure none
  | .ok v => do pure (some (← keyOfString (← v.getStr?)))
  | .error _ => pure none

def fbranchOf (j : Json) : Except String FBranch := do
  pure { key := ← keyOfString (← getStr j "key"), kind := ← kindOfName (← getStr j "kind"),
         left := ← optKeyOf j "left", right := ← optKeyOf j "right",
         rect := ← rectOfJson (← j.getObjVal? "rect"),
         aParent := ← posOfJson (← j.getObjVal? "anchor_parent"),
         aLeft := ← posOfJson (← j.getObjVal? "anchor_left"),
         aRight := ← posOfJson (← j.getObjVal? "anchor_right"),
         aChild := ← posOfJson (← j.getObjVal? "anchor_child") }

/-- One species of the canonical layout, with the names and colours of its branches. -/
def subLayoutOf (j : Json) : Except String (SubLayout × List (Key × Str × Str)) := do
  let sp := pathOfString (← getStr j "sp")
  let anchors ← (← getArr j "anchors").toList.mapM fun a => do
    let p ← a.getArr?
    if p.size != 2 then throw "anchor" else
    pure (← keyOfString (← p[0]!.getStr?), ← posOfJson p[1]!)
  let bs ← (← getArr j "branches").toList.mapM fun b => do
    let fb ← fbranchOf b
    pure (fb, (fb.key, (← getStr b "name").toList, (← getStr b "color").toList))
  pure ({ sp := sp, rect := ← rectOfJson (← j.getObjVal? "rect"),
          trunk := ← rectOfJson (← j.getObjVal? "trunk"), fork := ← getRat j "fork",
          anchors := anchors, branches := bs.map (·.1) }, bs.map (·.2))

def strTable (j : Json) : Except String (List (Path × Str)) := do
  let obj ← j.getObj?
  obj.toList.mapM fun (k, v) => do pure (pathOfString k, (← v.getStr?).toList)

def dparamsOf (j : Json) : Except String DParams := do
  pure { leafSpacing := ← getRat j "leaf_spacing", geneDiameter := ← getRat j "gene_diameter",
         rounding := (← getStr j "rounding").toList, labelWidth := ← C15.optNat j "label_width" }

def fillJson : DFill → Json
  | .coord p => posJson p
  | .text s => C15.str s
  | .color h => Json.mkObj [("c", C15.str h)]

def callJson (c : DrawCall) : Json :=
  Json.mkObj [("t", toJson c.stmt), ("sp", pathToString c.sp), ("owner", optKey c.owner),
              ("target", optKey c.target), ("fills", Json.arr (c.fills.map fillJson).toArray),
              ("stmt", match stmtOf c with
                | none => Json.null
                | some s => stmtJson s)]

/-- op `c15d_draw`: the drawing calls of `tikz.render` on a canonical layout, and the text. -/
def draw : Handler := fun j => do
  let o ← orientationOf (← getStr j "orientation")
  let S ← rtreeOf (← j.getObjVal? "S")
  let dp ← dparamsOf (← j.getObjVal? "params")
  let defsFills ← C15.strList (← j.getObjVal? "defs_fills")
  let spnames ← strTable (← j.getObjVal? "spnames")
  let mapping ← strTable (← j.getObjVal? "mapping")
  let ls ← (← getArr j "layout").toList.mapM subLayoutOf
  let all := ls.map (·.1)
  let decoTbl : List (Path × List (Key × Str × Str)) := ls.map fun (l, d) => (l.sp, d)
  let look (s : Path) (k : Key) : Option (Str × Str) :=
    (lookupSp decoTbl s).bind fun d => lookupKey d k
  let deco : Deco :=
    { name := fun s k => ((look s k).map (·.1)).getD [],
      color := fun s k => ((look s k).map (·.2)).getD defaultColor,
      spName := fun s => (lookupSp spnames s).getD [] }
  let spOf (g : Path) : Option Path := (lookupSp mapping g).map fun s => pathOfString (String.ofList s)
  match drawCalls o dp deco S spOf all with
  | .error e => pure (errJson e)
  | .ok calls =>
    pure (Json.mkObj [("ok", Json.mkObj [
      ("calls", Json.arr (calls.map callJson).toArray),
      ("text", C15.str (assemble (defsText o defsFills) calls))])])

/-- op `c15d_fmt`: `format(Position(x, y), "4")` on exact rationals. -/
def fmt : Handler := fun j => do
  let xs ← (← getArr j "xs").toList.mapM ratOfJson
  pure (Json.arr (xs.map fun q => C15.str (fmtCoord q)).toArray)

def handlers : List (String × Handler) :=
  [("c15d_draw", draw), ("c15d_fmt", fmt)]

end SR.Drv.C15Draw
