import SRVerif.Driver.C11
import SRVerif.Model.Newick

open Lean

namespace SR.Drv.C11Newick

open SR.Ser SR.Newick

mutual
  /-- A tree as read is `{"n": name, "d": branch-length text | null, "f": [[key, value]…], "k": [children]}`. -/
  def rtToJson : RT → Json
    | .node n d fs ks =>
      Json.mkObj [("n", n),
        ("d", match d with | some x => Json.str x | none => Json.null),
        ("f", Json.arr (fs.map (fun x => Json.arr #[Json.str x.1, Json.str x.2])).toArray),
        ("k", Json.arr (rtsToJson ks).toArray)]
  def rtsToJson : List RT → List Json
    | [] => []
    | k :: ks => rtToJson k :: rtsToJson ks
end

mutual
  def ntToJson : NT → Json
    | .node n c ks =>
      Json.mkObj [("n", n), ("c", match c with | some x => Json.str x | none => Json.null),
        ("k", Json.arr (ntsToJson ks).toArray)]
  def ntsToJson : List NT → List Json
    | [] => []
    | k :: ks => ntToJson k :: ntsToJson ks
end

def errName : Err → String
  | .treeError => "TreeError"
  | .keyError => "KeyError"
  | .attributeError => "AttributeError"
  | .newickError => "NewickError"

/-- op `c11n_write`: the string written for a tree, and what the model reads back from it. -/
def writeOp : Handler := fun j => do
  let t ← C11.getTree j "tree"
  let s := Newick.write t
  pure (Json.mkObj [("s", s),
    ("back", match Newick.readNT s with
      | .ok t' => ntToJson t'
      | .error e => Json.mkObj [("err", errName e)]),
    ("same", toJson (match Newick.readNT s with | .ok t' => NT.beq t' t | .error _ => false)),
    ("legacy", toJson (Newick.write t == writeNewick t)),
    ("safe", toJson (safeTree t))])

/-- op `c11n_read`: `Tree(s, format=1)`. -/
def readOp : Handler := fun j => do
  let s ← getStr j "s"
  pure (match Newick.read s with
    | .ok t => Json.mkObj [("ok", rtToJson t)]
    | .error e => Json.mkObj [("err", errName e)])

/-- op `c11n_spaces`: the code points below `hi` that the model takes for white space. -/
def spacesOp : Handler := fun j => do
  let hi ← getNat j "hi"
  pure (natsToJson ((List.range hi).filter (fun n => isSpace (Char.ofNat n))))

/-- op `c11n_float`: does the text match the branch-length expression. -/
def floatOp : Handler := fun j => do
  let l ← C11.strList (← j.getObjVal? "l")
  pure (Json.arr (l.map (fun s => toJson (isFloat s.toList))).toArray)

def handlers : List (String × Handler) :=
  [("c11n_write", writeOp), ("c11n_read", readOp), ("c11n_spaces", spacesOp), ("c11n_float", floatOp)]

end SR.Drv.C11Newick
