import SRVerif.Driver.Util
import SRVerif.Driver.C11
import SRVerif.Driver.C12
import SRVerif.Model.CliGlue
import SRVerif.Model.Newick

open Lean

namespace SR.Drv.C12Cli

open SR.Ser SR.Cli SR.Drv.C11

def valToJson : Val → Json
  | .int n => toJson n
  | .pinf => "inf"
  | .ninf => "-inf"
  | .nan => "nan"

def evalResToJson : EvalRes → Json
  | .val v => Json.mkObj [("val", valToJson v)]
  | .zeroDivision => Json.mkObj [("err", "ZeroDivisionError")]
  | .syntaxError => Json.mkObj [("err", "SyntaxError")]
  | .nameError => Json.mkObj [("err", "NameError")]
  | .outside => Json.mkObj [("outside", true)]

/-- op `c12c_eval_cost`: `eval_cost(expr)`. -/
def evalCostOp : Handler := fun j => do
  let s ← getStr j "expr"
  pure (evalResToJson (evalCost s))

def optsOf (j : Json) : Except String (List (String × String)) := do
  pairsOf (·.getStr?) (·.getStr?) (← j.getObjVal? "opts")

/-- op `c12c_cost_args`: the `costs` dict built by `read_input` from the `--cost-*` options
    (`opts` = `[[suffix, expression], …]` in argv order). -/
def costArgsOp : Handler := fun j => do
  let opts ← optsOf j
  pure (match costArgs opts with
    | .error e => evalResToJson e
    | .ok l => Json.mkObj [("ok", Json.arr (l.map (fun x => pair (eventToJson x.1) (valToJson x.2))).toArray),
        ("unbound", strsToJson unboundNames)])

/-- Transport of a JSON document that keeps the key order: arrays are `{"a": […]}`, objects
    `{"o": [[key, value], …]}`, scalars themselves. -/
def jvOfJsonFuel : Nat → Json → Except String JV
  | 0, _ => throw "document too deep"
  | fuel + 1, j =>
    match j with
    | .null => pure .null
    | .bool b => pure (.bool b)
    | .str s => pure (.str s)
    | .num _ => do pure (.num (← j.getInt?))
    | _ =>
      match j.getObjVal? "a" with
      | .ok a => do pure (.arr (← (← a.getArr?).toList.mapM (jvOfJsonFuel fuel)))
      | .error _ => do
        let o ← j.getObjVal? "o"
        let l ← (← o.getArr?).toList.mapM (fun x => do
          let p ← x.getArr?
          if p.size != 2 then throw "pair"
          pure ((← p[0]!.getStr?), (← jvOfJsonFuel fuel p[1]!)))
        pure (.obj l)

def readModel (s : String) : Option NT := (Newick.readNT s).toOption

def docErrToJson : DocErr → Json
  | .ser e => errToJson e
  | .illTyped => Json.mkObj [("err", "illTyped")]

def anyInputToJson (x : AnyInput) : Json :=
  let b := x.base
  Json.mkObj [
    ("kind", match x with | .plain _ => "plain" | .super _ => "super"),
    ("onames", strsToJson b.objectTree.names),
    ("snames", strsToJson b.speciesTree.names),
    ("leaf", tmToJson b.leafObjectSpecies),
    ("costs", Json.arr (b.costs.map (fun c => pair (eventToJson c.1) (costToJson c.2))).toArray),
    ("syn", match x with
      | .plain _ => Json.null
      | .super i => Json.arr (i.leafSyntenies.map (fun s => pair (pathToJson s.1) (strsToJson s.2.items))).toArray)]

/-- op `c12c_read_input`: `read_input` on the parsed document `doc` (order-keeping transport)
    with the `--cost-*` options `opts`; the Newick reader is the model of `Model/Newick.lean`. -/
def readInputOp : Handler := fun j => do
  let doc ← match ← jvOfJsonFuel 50 (← j.getObjVal? "doc") with
    | .obj l => pure l
    | _ => throw "doc must be an object"
  let opts ← optsOf j
  match costArgs opts with
  | .error e => pure (Json.mkObj [("cost_error", evalResToJson e)])
  | .ok cv =>
    match costValues cv with
    | none => pure (Json.mkObj [("cost_outside", true)])
    | some costs =>
      pure (match readDoc readModel doc costs with
        | .error e => docErrToJson e
        | .ok x => Json.mkObj [("ok", anyInputToJson x)])

/-- op `c12c_reconcile`: what `reconcile` prints and returns once the input is read: `costs`
    are the costs of the results the algorithm returns (in order), each result being encoded
    as its index. -/
def reconcileOp : Handler := fun j => do
  let algo ← getStr j "algo"
  let sup ← getBool j "syntenies"
  let sol ← getStr j "solutions"
  let cs ← (← getArr j "costs").toList.mapM costOfJson
  let r := dispatch algo (if sup then .super else .plain) sol
  let idx := List.range cs.length
  let o := reconcileRun algo r idx (fun i => cs.getD i (.fin 0)) (fun i => toString i)
  pure (Json.mkObj [("status", toJson o.status), ("stderr", strsToJson o.stderr), ("stdout", o.stdout)])

def outTypeOf (j : Json) : Except String (Option OutType) :=
  match j.getObjVal? "type" with
  | .ok (.str "tikz") => pure (some .tikz)
  | .ok (.str "pdf") => pure (some .pdf)
  | .ok .null => pure none
  | .error _ => pure none
  | _ => throw "type"

/-- op `c12c_draw`: the logic of `draw`: class chosen, orientation, kind of output, status. -/
def drawOp : Handler := fun j => do
  let hasSyn ← getBool j "syntenies"
  let orient := match j.getObjVal? "orientation" with
    | .ok (.str s) => some s
    | _ => none
  let given ← outTypeOf j
  let name ← getStr j "name"
  let texOk ← getBool j "tex_ok"
  pure (Json.mkObj [
    ("cls", if hasSyn then "SuperReconciliationOutput" else "ReconciliationOutput"),
    ("orientation", match drawOrientation orient with | some s => Json.str s | none => Json.null),
    ("type", match drawOutputType given name with
      | some .tikz => "tikz" | some .pdf => "pdf" | none => Json.null),
    ("status", toJson (drawStatus given name texOk))])

def handlers : List (String × Handler) :=
  [("c12c_eval_cost", evalCostOp), ("c12c_cost_args", costArgsOp), ("c12c_read_input", readInputOp),
   ("c12c_reconcile", reconcileOp), ("c12c_draw", drawOp)]

end SR.Drv.C12Cli
