import SRVerif.Driver.Util
import SRVerif.Model.Lca

open Lean

namespace SR.Drv.C17

open SR.Lca

/-- JSON tree: the list of its children (a leaf is `[]`).  Fuel bounds the depth. -/
def treeOfJson : Nat → Json → Except String RTree
  | 0, _ => throw "tree too deep"
  | f + 1, j => do
    let a ← j.getArr?
    let cs ← a.toList.mapM (treeOfJson f)
    pure (.node cs)

def getTree (j : Json) : Except String RTree := do
  treeOfJson 100000 (← j.getObjVal? "tree")

def errName : PyErr → String
  | .typeError => "TypeError"
  | .indexError => "IndexError"
  | .assertionError => "AssertionError"
  | .keyError => "KeyError"

def resJson {α : Type} (f : α → Json) : Except PyErr α → Json
  | .ok v => Json.mkObj [("ok", f v)]
  | .error e => Json.mkObj [("err", errName e)]

def optJson {α : Type} (f : α → Json) : Option α → Json
  | none => Json.null
  | some v => f v

def entryJson (e : TourEntry) : Json := Json.arr #[toJson e.1, natsToJson e.2]

def tableJson {α : Type} (f : α → Json) (t : List (List (Option α))) : Json :=
  Json.arr (t.map (fun row => Json.arr (row.map (optJson f)).toArray)).toArray

def rangesOf (j : Json) : Except String (List (Nat × Nat)) := do
  let qs ← getArr j "queries"
  qs.toList.mapM (fun q => do
    let a ← q.getArr?
    if a.size != 2 then throw "range"
    pure (← a[0]!.getNat?, ← a[1]!.getNat?))

def intLt : Lt Int := totalLt (fun a b => decide (a < b))

def pairOfJson (j : Json) : Except String (Int × Int) := do
  let a ← j.getArr?
  if a.size != 2 then throw "pair"
  pure (← a[0]!.getInt?, ← a[1]!.getInt?)

def pairJson (p : Int × Int) : Json := Json.arr #[toJson p.1, toJson p.2]

def rmqWith {α : Type} (lt : Lt α) (f : α → Json) (data : List α) (qs : List (Nat × Nat)) : Json :=
  match build lt data with
  | .error e => Json.mkObj [("err", errName e)]
  | .ok table =>
    Json.mkObj [("table", tableJson f table),
      ("results", Json.arr (qs.map (fun q => resJson (optJson f) (query lt table q.1 q.2))).toArray)]

/-- op `c17_rmq`: `{data:[int…] | [[int,int]…], kind:"int"|"pair", queries:[[start,stop]…]}`:
    the sparse table and the answer (or exception) of every query. -/
def rmqOp : Handler := fun j => do
  let qs ← rangesOf j
  let kind ← getStr j "kind"
  let arr ← getArr j "data"
  if kind == "pair" then
    let data ← arr.toList.mapM pairOfJson
    pure (rmqWith pairLt pairJson data qs)
  else
    let data ← arr.toList.mapM (·.getInt?)
    pure (rmqWith intLt (fun (v : Int) => toJson v) data qs)

def pathsOf (j : Json) : Except String (List Path) := do
  (← j.getArr?).toList.mapM natList

/-- op `c17_tour`: the Euler tour and the sparse table of a tree. -/
def tourOp : Handler := fun j => do
  let t ← getTree j
  pure (match init t with
    | .error e => Json.mkObj [("err", errName e)]
    | .ok s => Json.mkObj [("tour", Json.arr (s.tour.map entryJson).toArray),
                           ("table", tableJson entryJson s.table)])

/-- op `c17_lca`: `{tree, queries:[[path…]…]}`: `lca(*nodes)` for every query. -/
def lcaOp : Handler := fun j => do
  let t ← getTree j
  let qs ← (← getArr j "queries").toList.mapM pathsOf
  pure (match init t with
    | .error e => Json.mkObj [("err", errName e)]
    | .ok s => Json.arr (qs.map (fun q => resJson natsToJson (s.call q))).toArray)

def all5 (s : State) (a b : Path) : Except PyErr Json := do
  let r ← s.call [a, b]
  let anc ← s.isAncestorOf a b
  let strict ← s.isStrictAncestorOf a b
  let cmp ← s.isComparable a b
  let la ← s.level a
  let lb ← s.level b
  let d ← s.distance a b
  pure (Json.mkObj [("lca", natsToJson r), ("anc", toJson anc), ("strict", toJson strict),
    ("cmp", toJson cmp), ("level_a", toJson la), ("level_b", toJson lb), ("dist", toJson d)])

/-- op `c17_queries`: `{tree, pairs:[[a,b]…]}`: the pairwise LCA and the five
    derived queries for every pair. -/
def queriesOp : Handler := fun j => do
  let t ← getTree j
  let ps ← (← getArr j "pairs").toList.mapM (fun p => do
    let l ← pathsOf p
    match l with
    | [a, b] => pure (a, b)
    | _ => throw "pair of paths")
  pure (match init t with
    | .error e => Json.mkObj [("err", errName e)]
    | .ok s => Json.arr (ps.map (fun p => resJson id (all5 s p.1 p.2))).toArray)

def handlers : List (String × Handler) :=
  [("c17_rmq", rmqOp), ("c17_tour", tourOp), ("c17_lca", lcaOp), ("c17_queries", queriesOp)]

end SR.Drv.C17
