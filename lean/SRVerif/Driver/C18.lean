import SRVerif.Driver.Util
import SRVerif.Model.Subseq
import SRVerif.Spec.Subseq

open Lean

namespace SR.Drv.C18

def maskFrom : Handler := fun j => do
  let c ← getNatList j "child"
  let p ← getNatList j "parent"
  pure (toJson (maskFromSubseq c p))

def seqFrom : Handler := fun j => do
  let m ← getNat j "mask"
  let p ← getNatList j "parent"
  match subseqFromMask m p with
  | some r => pure (natsToJson r)
  | none => pure (Json.mkObj [("err", "IndexError")])

def complete : Handler := fun j => do
  let p ← getNatList j "parent"
  pure (toJson (subseqComplete p))

def segDist : Handler := fun j => do
  let c ← getNat j "child"
  let p ← getNat j "parent"
  let e ← getBool j "edges"
  pure (toJson (subseqSegmentDist c p e))

/-- The specification side (`Spec/Subseq.lean`), evaluated independently of
    the model: containment, keep/lost pattern, number of lost runs and the
    prescribed distance. -/
def spec : Handler := fun j => do
  let c ← getNat j "child"
  let p ← getNat j "parent"
  let e ← getBool j "edges"
  let pat := SubseqSpec.keptPattern c p
  pure (Json.mkObj [
    ("contained", toJson (SubseqSpec.containedB c p)),
    ("pattern", Json.arr (pat.map (fun b => toJson (if b then 1 else 0 : Nat))).toArray),
    ("runs", toJson (SubseqSpec.lostRuns e pat)),
    ("dist", toJson (SubseqSpec.segmentDist c p e))])

/-- Lost runs counted on sequences (the bridge statement's right-hand side). -/
def specSeq : Handler := fun j => do
  let c ← getNatList j "child"
  let p ← getNatList j "parent"
  let e ← getBool j "edges"
  pure (toJson (SubseqSpec.lostRunsSeq e c p))

/-- One row of the exhaustive grid: all children below `2 ^ nbits` against one
    parent; model values and specification values side by side. -/
def distRow : Handler := fun j => do
  let p ← getNat j "parent"
  let n ← getNat j "nbits"
  let e ← getBool j "edges"
  let cs := List.range (2 ^ n)
  pure (Json.mkObj [
    ("model", Json.arr (cs.map (fun c => toJson (subseqSegmentDist c p e))).toArray),
    ("spec", Json.arr (cs.map (fun c => toJson (SubseqSpec.segmentDist c p e))).toArray)])

def handlers : List (String × Handler) :=
  [("mask_from", maskFrom), ("seq_from", seqFrom), ("complete", complete), ("seg_dist", segDist),
   ("c18_spec", spec), ("c18_spec_seq", specSeq), ("c18_dist_row", distRow)]

end SR.Drv.C18
