import SRVerif.Driver.Util
import SRVerif.Model.Subseq

open Lean

namespace SR.Drv.C18

def maskFrom : Handler := fun j => do
  let c ← getNatList j "child"
  let p ← getNatList j "parent"
  pure (toJson (maskFromSubseq c p))

def seqFrom : Handler := fun j => do
  let m ← getNat j "mask"
  let p ← getNatList j "parent"
  match subseqFromMask m p with
  | some r => pure (natsToJson r)
  | none => pure (Json.mkObj [("err", "IndexError")])

def complete : Handler := fun j => do
  let p ← getNatList j "parent"
  pure (toJson (subseqComplete p))

def segDist : Handler := fun j => do
  let c ← getNat j "child"
  let p ← getNat j "parent"
  let e ← getBool j "edges"
  pure (toJson (subseqSegmentDist c p e))

def handlers : List (String × Handler) :=
  [("mask_from", maskFrom), ("seq_from", seqFrom), ("complete", complete), ("seg_dist", segDist)]

end SR.Drv.C18
