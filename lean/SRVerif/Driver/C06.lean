/-
  Driver handlers for C06: the specification-side recount of a solution.
-/
import SRVerif.Driver.Util
import SRVerif.Driver.Solve
import SRVerif.Spec.EventLog

open Lean

namespace SR.Drv.C06

open SR.EventLog SR.Drv.Solve

def kindName : SR.EventLog.Kind → String
  | .spec => "SPECIATION" | .dup => "DUPLICATION" | .hgt => "HORIZONTAL_TRANSFER"
  | .invalid => "INVALID"

/-- op `c06_recount`: summary of the event log of a solution: event kinds of
    the internal nodes in pre-order, counts per record kind, species of the
    full-loss records (sorted), and the recounted costs. -/
def recountOp : Handler := fun j => do
  let c ← costsOf j
  let mode ← modeOf (← getStr j "mode")
  let sol ← solOf (← j.getObjVal? "sol")
  let log := eventLog mode sol
  let rlog := recLog sol
  let losses := (lossSpecies log).map pathToString
  pure (Json.mkObj [
    ("kinds", Json.arr ((kinds sol).map (fun k => Json.str (kindName k))).toArray),
    ("spec", toJson (nSpec log)), ("dup", toJson (nDup log)), ("hgt", toJson (nHgt log)),
    ("floss", toJson (nFloss log)), ("sloss", toJson (nSloss log)),
    ("invalid", toJson (nInvalid log)),
    ("loss_species", Json.arr ((losses.toArray.qsort (· < ·)).map Json.str)),
    ("rec", costToJson (recount c rlog)),
    ("label", toJson (nSloss log * c.sloss)),
    ("total", costToJson (recount c log)),
    ("linear", costToJson (linearForm c log))])

def handlers : List (String × Handler) := [("c06_recount", recountOp)]

end SR.Drv.C06
