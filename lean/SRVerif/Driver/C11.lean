import SRVerif.Driver.Util
import SRVerif.Model.Serialize

open Lean

namespace SR.Drv.C11

open SR.Ser

/-- A named tree is `{"n": name, "c": colour | null, "k": [children]}`. -/
def ntOfJsonFuel : Nat → Json → Except String NT
  | 0, _ => throw "tree too deep"
  | fuel + 1, j => do
    let n ← getStr j "n"
    let c ← match j.getObjVal? "c" with
      | .ok (.str s) => pure (some s)
      | _ => pure none
    let ks ← getArr j "k"
    let cs ← ks.toList.mapM (ntOfJsonFuel fuel)
    pure (.node n c cs)

def ntOfJson (j : Json) : Except String NT := ntOfJsonFuel 200 j

def getTree (j : Json) (k : String) : Except String NT := do
  ntOfJson (← j.getObjVal? k)

def pathToJson (p : Path) : Json := natsToJson p

def strsToJson (l : List String) : Json := Json.arr (l.map Json.str).toArray

def strList (j : Json) : Except String (List String) := do
  (← j.getArr?).toList.mapM (·.getStr?)

def errToJson : Err → Json
  | .treeError => Json.mkObj [("err", "TreeError")]
  | .keyError => Json.mkObj [("err", "KeyError")]
  | .attributeError => Json.mkObj [("err", "AttributeError")]
  | .newickError => Json.mkObj [("err", "NewickError")]

def pair (a b : Json) : Json := Json.arr #[a, b]

def pairsOf {α β : Type} (f : Json → Except String α) (g : Json → Except String β) (j : Json) :
    Except String (List (α × β)) := do
  (← j.getArr?).toList.mapM (fun x => do
    let a ← x.getArr?
    if a.size != 2 then throw "pair"
    pure ((← f a[0]!), (← g a[1]!)))

def tmToJson (m : TreeMapping) : Json :=
  Json.arr (m.map (fun x => pair (pathToJson x.1) (pathToJson x.2))).toArray

def synOfJson (j : Json) : Except String Syn :=
  match j.getObjVal? "s" with
  | .ok v => do pure (.set (← strList v))
  | .error _ => do pure (.lst (← strList (← j.getObjVal? "l")))

def synToJson : Syn → Json
  | .lst l => Json.mkObj [("l", strsToJson l)]
  | .set l => Json.mkObj [("s", strsToJson l)]

/-- op `c11_lookup`: `tree & name` and `name in tree` for a list of names. -/
def lookup : Handler := fun j => do
  let t ← getTree j "tree"
  let ns ← strList (← j.getObjVal? "names")
  pure (Json.arr (ns.map (fun n =>
    pair (match t.findPath n with | some p => pathToJson p | none => Json.null)
         (toJson (t.hasName n)))).toArray)

/-- op `c11_ser_tm`. -/
def serTm : Handler := fun j => do
  let ft ← getTree j "ft"
  let tt ← getTree j "tt"
  let m ← pairsOf natList natList (← j.getObjVal? "m")
  pure (Json.arr ((serializeTreeMapping ft tt m).map (fun x => pair x.1 x.2)).toArray)

/-- op `c11_parse_tm`. -/
def parseTm : Handler := fun j => do
  let ft ← getTree j "ft"
  let tt ← getTree j "tt"
  let d ← pairsOf (·.getStr?) (·.getStr?) (← j.getObjVal? "data")
  pure (match parseTreeMapping ft tt d with
    | .ok m => Json.mkObj [("ok", tmToJson m)]
    | .error e => errToJson e)

/-- op `c11_ser_syn`. -/
def serSyn : Handler := fun j => do
  let t ← getTree j "tree"
  let m ← pairsOf natList synOfJson (← j.getObjVal? "m")
  pure (Json.arr ((serializeSynMapping t m).map (fun x => pair x.1 (strsToJson x.2))).toArray)

/-- op `c11_parse_syn`. -/
def parseSyn : Handler := fun j => do
  let t ← getTree j "tree"
  let d ← pairsOf (·.getStr?) strList (← j.getObjVal? "data")
  pure (match parseSynMapping t d with
    | .ok m => Json.mkObj [("ok", Json.arr (m.map (fun x => pair (pathToJson x.1) (synToJson x.2))).toArray)]
    | .error e => errToJson e)

/-- op `c11_sort`: `sort_synteny` on a list (iteration order given). -/
def sort : Handler := fun j => do
  let l ← strList (← j.getObjVal? "l")
  pure (strsToJson (sortSynteny l))

def eventToJson : Event → Json
  | .node n => pair "NodeEvent" n
  | .edge n => pair "EdgeEvent" n

/-- op `c11_costs`: serialise `[[class, member, value]…]`, then parse the result back;
    also parse the extra `names`. -/
def costs : Handler := fun j => do
  let cs ← (← getArr j "costs").toList.mapM (fun x => do
    let a ← x.getArr?
    if a.size != 3 then throw "cost triple"
    pure (eventOfClass (← a[0]!.getStr?) (← a[1]!.getStr?), (← costOfJson a[2]!)))
  let ser := serializeCosts cs
  let back := match parseCosts ser with
    | .ok l => Json.arr (l.map (fun x => pair (eventToJson x.1) (costToJson x.2))).toArray
    | .error e => errToJson e
  let ns ← strList (← j.getObjVal? "names")
  let evs := ns.map (fun n => match eventOfName n with
    | .ok e => eventToJson e
    | .error e => errToJson e)
  pure (Json.mkObj [
    ("ser", Json.arr (ser.map (fun x => pair x.1 (costToJson x.2))).toArray),
    ("back", back),
    ("events", Json.arr evs.toArray),
    ("default", Json.arr (defaultCost.map (fun x => pair (eventToJson x.1) (costToJson x.2))).toArray)])

def synPairs (j : Json) (k : String) : Except String SynMapping :=
  match j.getObjVal? k with
  | .ok v => pairsOf natList synOfJson v
  | .error _ => pure []

def tmPairs (j : Json) (k : String) : Except String TreeMapping :=
  match j.getObjVal? k with
  | .ok v => pairsOf natList natList v
  | .error _ => pure []

def strPairsToJson (l : List (String × String)) : Json :=
  Json.arr (l.map (fun x => pair x.1 x.2)).toArray

def synDictToJson (l : List (String × List String)) : Json :=
  Json.arr (l.map (fun x => pair x.1 (strsToJson x.2))).toArray

def optToJson {α : Type} (f : α → Json) : Option α → Json
  | some a => f a
  | none => Json.null

def inputDictToJson (d : InputDict) : Json :=
  Json.mkObj [("object_tree", d.object_tree), ("species_tree", d.species_tree),
    ("leaf_object_species", optToJson strPairsToJson d.leaf_object_species),
    ("costs", optToJson (fun l => Json.arr (l.map (fun x => pair x.1 (costToJson x.2))).toArray) d.costs),
    ("leaf_syntenies", optToJson synDictToJson d.leaf_syntenies)]

def outputDictToJson (d : OutputDict) : Json :=
  Json.mkObj [("input", inputDictToJson d.input), ("object_species", strPairsToJson d.object_species),
    ("syntenies", optToJson synDictToJson d.syntenies),
    ("ordered", optToJson (fun b : Bool => toJson b) d.ordered)]

/-- op `c11_todict`: `to_dict()` of an object of one of the four classes, with the model of
    the Newick writer. -/
def toDictOp : Handler := fun j => do
  let cls ← getStr j "cls"
  let inpCls ← getStr j "inp_cls"
  let ot ← getTree j "ot"
  let st ← getTree j "st"
  let leaf ← tmPairs j "leaf"
  let cs ← (← getArr j "costs").toList.mapM (fun x => do
    let a ← x.getArr?
    if a.size != 3 then throw "cost triple"
    pure (eventOfClass (← a[0]!.getStr?) (← a[1]!.getStr?), (← costOfJson a[2]!)))
  let base : RecInput := { objectTree := ot, speciesTree := st, leafObjectSpecies := leaf, costs := cs }
  let inp : AnyInput ← if inpCls == "SI" then do
      pure (AnyInput.super { base := base, leafSyntenies := (← synPairs j "leafsyn") })
    else pure (AnyInput.plain base)
  match cls with
  | "RI" | "SI" => pure (inputDictToJson (inp.toDict writeNewick))
  | "RO" =>
    let o : RecOutput := { input := inp, objectSpecies := (← tmPairs j "map") }
    pure (outputDictToJson (o.toDict writeNewick))
  | "SO" =>
    let o : SRecOutput := { input := inp, objectSpecies := (← tmPairs j "map"),
                            syntenies := (← synPairs j "syn"), ordered := (← getBool j "ordered") }
    pure (outputDictToJson (o.toDict writeNewick))
  | _ => throw "cls"

def handlers : List (String × Handler) :=
  [("c11_lookup", lookup), ("c11_ser_tm", serTm), ("c11_parse_tm", parseTm),
   ("c11_ser_syn", serSyn), ("c11_parse_syn", parseSyn), ("c11_sort", sort),
   ("c11_costs", costs), ("c11_todict", toDictOp)]

end SR.Drv.C11
