import SRVerif.Driver.C19
import SRVerif.Model.FindCycle
import SRVerif.Spec.FindCycle

open Lean

namespace SR.Drv.C19Cycle

open SR.Toposort SR.Drv.C19

def cerrJson (e : CErr) : Json :=
  Json.mkObj [("err", match e with
    | .stopIteration => "StopIteration"
    | .keyError => "KeyError"
    | .fuel => "Fuel")]

/-- op `c19_find_cycle`: `{"ok": [..]}`, `{"ok": null}` or `{"err": ..}`. -/
def findCycleH : Handler := fun j => do
  let g ← graphOf j
  match findCycle g with
  | .error e => pure (cerrJson e)
  | .ok none => pure (Json.mkObj [("ok", Json.null)])
  | .ok (some c) => pure (Json.mkObj [("ok", natsToJson c)])

/-- op `c19_is_cycle` (specification): is `walk` read backwards (the
    convention of `find_cycle`) / read forwards a closed walk of `graph`;
    is `graph` well-formed. -/
def isCycleH : Handler := fun j => do
  let g ← graphOf j
  let w ← getNatList j "walk"
  pure (Json.mkObj [("rev", toJson (decide (IsCycle g w.reverse))),
    ("fwd", toJson (decide (IsCycle g w))), ("wf", toJson (decide (WF g)))])

def handlers : List (String × Handler) :=
  [("c19_find_cycle", findCycleH), ("c19_is_cycle", isCycleH)]

end SR.Drv.C19Cycle
