import SRVerif.Driver.Util
import SRVerif.Driver.C16
import SRVerif.Model.Table

/-
  Driver ops of the table model (`Model/Table.lean`), prefix `c16t_`.

  `c16t_run`    : a whole history of operations on one table, one JSON array per operation,
                  one JSON value out per operation.
  `c16t_entry`  : a standalone `Entry(value, infos, merge, retain)` + batches, every observer.
  `c16t_combine`: `Entry.combine` of two standalone entries with a named combinator.
-/
open Lean

namespace SR.Drv.C16T

open SR.Drv.C16 (mergeOf retainOf candOf)
open SR.DP

def errName : PyErr → String
  | .indexError => "IndexError"
  | .typeError => "TypeError"
  | .attributeError => "AttributeError"

/-- Keys: a JSON integer, or a string `s<n>` for the n-th symbol. -/
def keyOf (j : Json) : Except String Key :=
  match j with
  | .str s =>
    match (s.drop 1).toNat? with
    | some n => pure (.sym n)
    | none => throw s!"key {s}"
  | _ => do pure (.int (← j.getInt?))

def keyToJson : Key → Json
  | .int i => toJson i
  | .sym n => Json.str s!"s{n}"

def keysOf (j : Json) : Except String (List Key) := do
  (← j.getArr?).toList.mapM keyOf

def dimOf (j : Json) : Except String Dim :=
  match j with
  | .str "d" => pure .dict
  | _ => do pure (.list (← j.getNat?))

def candToJson (c : Cand Nat) : Json :=
  Json.arr #[extIntToJson c.value, match c.info with | some t => toJson t | none => Json.null]

/-- The named combinators.  Pairs of tags are encoded `a * 1000 + b`. -/
def combOf (m : Merge) (s : String) : Except String (ExtInt → Nat → ExtInt → Nat → Option (Cand Nat)) :=
  let sum := fun (v1 : ExtInt) (t1 : Nat) (v2 : ExtInt) (t2 : Nat) =>
    ({ value := v1 + v2, info := some (t1 * 1000 + t2) } : Cand Nat)
  match s with
  | "sum" => pure (fun v1 t1 v2 t2 => some (sum v1 t1 v2 t2))
  | "rej_none" => pure (fun v1 t1 v2 t2 => if t1 % 1000 = t2 % 1000 then none else some (sum v1 t1 v2 t2))
  | "rej_inf" => pure (fun v1 t1 v2 t2 =>
      if t1 % 1000 = t2 % 1000 then
        some { value := if m = .min then .posInf else .negInf, info := some (t1 * 1000 + t2) }
      else some (sum v1 t1 v2 t2))
  | "untag" => pure (fun v1 _ v2 _ => some { value := v1 + v2, info := none })
  | _ => throw s!"combinator {s}"

def arg (a : Array Json) (i : Nat) : Except String Json :=
  match a[i]? with
  | some x => pure x
  | none => throw "missing operand"

def opOf (m : Merge) (j : Json) : Except String (Op Nat) := do
  let a ← j.getArr?
  let name ← (← arg a 0).getStr?
  let ks ← keysOf (← arg a 1)
  match name with
  | "index" => pure (.index ks)
  | "set" =>
    match ks.getLast? with
    | none => throw "set: empty key"
    | some k => pure (.set ks.dropLast k (← candOf (← arg a 2)))
  | "update" => pure (.update ks (← (← (← arg a 2).getArr?).toList.mapM candOf))
  | "value" => pure (.value ks)
  | "infos" => pure (.infos ks)
  | "info" => pure (.info ks)
  | "isinf" => pure (.isInf ks)
  | "len" => pure (.len ks)
  | "iter" => pure (.iter ks)
  | "keys" => pure (.keys ks)
  | "contains" => pure (.contains ks (← keyOf (← arg a 2)))
  | "eq" => pure (.eqEntry ks (← extIntOfJson (← arg a 2)) (← natList (← arg a 3)))
  | "eqcell" => pure (.eqCell ks (← keysOf (← arg a 2)))
  | "combine" => pure (.combine ks (← keysOf (← arg a 2)) (← combOf m (← (← arg a 3).getStr?)))
  | _ => throw s!"table op {name}"

def outToJson : Out Nat → Json
  | .unit => Json.null
  | .ref false => "proxy"
  | .ref true => "entry"
  | .value v => Json.mkObj [("v", extIntToJson v)]
  | .infos l => Json.mkObj [("tags", natsToJson l)]
  | .info o => Json.mkObj [("tag", match o with | some t => toJson t | none => Json.null)]
  | .bool b => Json.mkObj [("b", toJson b)]
  | .nat n => Json.mkObj [("n", toJson n)]
  | .cands l => Json.mkObj [("cands", Json.arr (l.map candToJson).toArray)]
  | .keys l => Json.mkObj [("keys", Json.arr (l.map keyToJson).toArray)]
  | .entry v l => Json.mkObj [("entry", Json.arr #[extIntToJson v, natsToJson l])]
  | .err e => Json.mkObj [("err", errName e)]

/-- op `c16t_run`. -/
def runOps : Handler := fun j => do
  let m ← mergeOf (← getStr j "merge")
  let r ← retainOf (← getStr j "retain")
  let dims ← (← getArr j "dims").toList.mapM dimOf
  let ops ← (← getArr j "ops").toList.mapM (opOf m)
  let res := (Table.new dims m r : Table Nat).run ops
  pure (Json.arr (res.2.map outToJson).toArray)

def entryOfJson (j : Json) : Except String (Entry Nat) := do
  let m ← mergeOf (← getStr j "merge")
  let r ← retainOf (← getStr j "retain")
  let e0 : Entry Nat := match j.getObjVal? "value" with
    | .ok v => match extIntOfJson v, getNatList j "infos" with
      | .ok v, .ok l => DP.entryOf v l m r
      | _, _ => Entry.init m r
    | .error _ => Entry.init m r
  let bs ← (← getArr j "batches").toList.mapM (fun b => do (← b.getArr?).toList.mapM candOf)
  pure (bs.foldl (fun e b => Entry.update e b) e0)

/-- op `c16t_entry`: `Entry(value, infos, m, r)` (or `Entry(m, r)` when `value` is absent), a
    history of batches, then every observer; `eq`: comparison with `Entry(eq[0], eq[1])`. -/
def entry : Handler := fun j => do
  let e ← entryOfJson j
  let eq ← match j.getObjVal? "eq" with
    | .ok q => do
      let a ← q.getArr?
      pure (toJson (DP.eqv e (← extIntOfJson (← arg a 0)) (← natList (← arg a 1))))
    | .error _ => pure Json.null
  pure (Json.mkObj [("value", extIntToJson e.value), ("infos", natsToJson e.infos),
    ("info", match DP.info e with | some t => toJson t | none => Json.null),
    ("len", toJson (DP.len e)), ("inf", toJson (DP.isInfinite e)),
    ("iter", Json.arr ((DP.iter e).map candToJson).toArray), ("eq", eq)])

/-- op `c16t_combine`: two standalone entries `a`, `b` (as for `c16t_entry`) and a combinator. -/
def combine : Handler := fun j => do
  let a ← entryOfJson (← j.getObjVal? "a")
  let b ← entryOfJson (← j.getObjVal? "b")
  let f ← combOf a.merge (← getStr j "comb")
  match DP.combineOpt a b f with
  | .error e => pure (Json.mkObj [("err", errName e)])
  | .ok e => pure (Json.mkObj [("value", extIntToJson e.value), ("infos", natsToJson e.infos)])

def handlers : List (String × Handler) :=
  [("c16t_run", runOps), ("c16t_entry", entry), ("c16t_combine", combine)]

end SR.Drv.C16T
