import SRVerif.Driver.Util
import SRVerif.Model.Toposort
import SRVerif.Spec.Toposort

open Lean

namespace SR.Drv.C19

open SR.Toposort

/-- A graph is `[[v, [succ, …]], …]` in dict insertion order. -/
def graphOf (j : Json) : Except String Graph := do
  let a ← getArr j "graph"
  a.toList.mapM (fun e => do
    let p ← e.getArr?
    if p.size != 2 then throw "graph entry"
    pure (← p[0]!.getNat?, ← natList p[1]!))

def errJson (e : Err) : Json :=
  Json.mkObj [("err", match e with
    | .keyError => "KeyError"
    | .valueError => "ValueError"
    | .indexError => "IndexError"
    | .fuel => "Fuel")]

def graphToJson (g : Graph) : Json :=
  Json.arr (g.map (fun p => Json.arr #[toJson p.1, natsToJson p.2])).toArray

/-- op `c19_toposort`: `{"ok": [..]}`, `{"ok": null}` or `{"err": ..}`. -/
def toposortH : Handler := fun j => do
  let g ← graphOf j
  match toposort g with
  | .error e => pure (errJson e)
  | .ok none => pure (Json.mkObj [("ok", Json.null)])
  | .ok (some o) => pure (Json.mkObj [("ok", natsToJson o)])

/-- op `c19_toposort_all`: orders in the model's enumeration order. -/
def toposortAllH : Handler := fun j => do
  let g ← graphOf j
  match toposortAll g with
  | .error e => pure (errJson e)
  | .ok os => pure (Json.mkObj [("ok", Json.arr (os.map natsToJson).toArray)])

/-- op `c19_prec_graph`: `syns` is a list of leaf syntenies. -/
def precGraphH : Handler := fun j => do
  let a ← getArr j "syns"
  let syns ← a.toList.mapM natList
  match precGraph syns with
  | .error e => pure (errJson e)
  | .ok g => pure (Json.mkObj [("ok", graphToJson g)])

/-- op `c19_is_topo` (specification): is `order` a topological ordering of
    `graph`; also reports well-formedness of the graph. -/
def isTopoH : Handler := fun j => do
  let g ← graphOf j
  let o ← getNatList j "order"
  pure (Json.mkObj [("topo", toJson (decide (IsTopo g o))), ("wf", toJson (decide (WF g)))])

def handlers : List (String × Handler) :=
  [("c19_toposort", toposortH), ("c19_toposort_all", toposortAllH),
   ("c19_prec_graph", precGraphH), ("c19_is_topo", isTopoH)]

end SR.Drv.C19
