/-
  Driver handlers for the C12 bridge (`Model/SolOutput.lean`): the embedding of a solver
  solution into the serialisable output (`embPlain` / `embSuper`, written with
  `to_dict` and the Newick writer of `Model/Newick.lean`) and the evaluator on the parsed
  structure (`from_dict` with the Newick reader, then `evalPlain` / `evalSuper`).
  Not part of any theorem; `harness/checks/c12_bridge.py` compares both with the real
  `to_dict()` and `from_dict(d).cost()`.
-/
import SRVerif.Driver.Util
import SRVerif.Driver.Solve
import SRVerif.Driver.C11
import SRVerif.Model.Newick
import SRVerif.Model.SolOutput
import SRVerif.Model.SolOutputColour
import SRVerif.Model.Solvers

open Lean

namespace SR.Drv.C12Bridge

open SR SR.Ser SR.SolOut SR.Drv.Solve SR.Drv.C11

/-! ## Names -/

/-- `[[path, name] …]`, paths written as strings of child indices (`harness/sr.py`). -/
def nameTable (j : Json) (k : String) : Except String (List (Path × String)) := do
  pairsOf (fun x => do pure (pathOfString (← x.getStr?))) (·.getStr?) (← j.getObjVal? k)

/-- The naming the harness used: `snames`, `onames` (one entry per node, by path) and
    `fnames` (`[[family id, name] …]`).  A node or family without entry is called `""`
    (never produced by the harness). -/
def namingOf (j : Json) : Except String Naming := do
  let sn ← nameTable j "snames"
  let on ← nameTable j "onames"
  let fn ← pairsOf (·.getNat?) (·.getStr?) (← j.getObjVal? "fnames")
  pure { sname := fun p => (sn.lookup p).getD ""
         oname := fun p => (on.lookup p).getD ""
         fname := fun i => (fn.lookup i).getD "" }

/-- The colours of the input file: optional tables `scolours`, `ocolours` (`[[path, colour] …]`,
    one entry per COLOURED node; absent table or absent node = no colour). -/
def colouringOf (j : Json) : Except String Colouring := do
  let tab (k : String) : Except String (List (Path × String)) :=
    match j.getObjVal? k with
    | .ok .null => pure []
    | .ok _ => nameTable j k
    | .error _ => pure []
  let sc ← tab "scolours"
  let oc ← tab "ocolours"
  pure { scol := fun p => sc.lookup p, ocol := fun p => oc.lookup p }

/-! ## The embedding (op `c12b_emb`) -/

/-- The model's result list for an algorithm under `all` (what op `solve` prints). -/
def modelSols (algo : String) (c : Costs) (S : RTree) (o : OTree) (root : Option (List Nat)) :
    Except String (List Sol) :=
  match algo with
  | "lca" => pure [lcaSol o]
  | "exh" => pure (exhaustive c o)
  | "thl" => pure (thl c S o)
  | "ext_spfs" => pure (spfs c S false o root)
  | "base_spfs" => pure (spfs c S true o root)
  | "superdtl" => pure (uspfs c S false o)
  | "base_uspfs" => pure (uspfs c S true o)
  | a => throw s!"algo {a}"

/-- `"plain"` (`lca`, `exh`, `thl`), `"ordered"` (`*_spfs`) or `"unordered"` (`*_uspfs`). -/
def kindOfAlgo (algo : String) : Except String String :=
  match algo with
  | "lca" | "exh" | "thl" => pure "plain"
  | "ext_spfs" | "base_spfs" => pure "ordered"
  | "superdtl" | "base_uspfs" => pure "unordered"
  | a => throw s!"algo {a}"

/-- op `c12b_emb`: for every solution of `sols` (canonical solutions of the real results)
    the dictionary `to_dict` of its embedding under the given naming and colouring
    (`Model/SolOutputColour.lean`) — `embPlainC` for the plain algorithms (`with_syn`: the
    input object carried leaf syntenies), `embSuperC` for the labelled ones (sets in the order given: `arr = id`; `to_dict` sorts them) — and,
    when `member` is asked, whether the solution is one of the model solver's results. -/
def embOp : Handler := fun j => do
  let S ← rtreeOf (← j.getObjVal? "S")
  let o ← otreeOf (← j.getObjVal? "O")
  let c ← costsOf j
  let root ← rootOf j
  let nm ← namingOf j
  let cl ← colouringOf j
  let algo ← getStr j "algo"
  let kind ← kindOfAlgo algo
  let withSyn ← getBool j "with_syn"
  let sols ← (← getArr j "sols").toList.mapM solOf
  let wantMember := match j.getObjVal? "member" with
    | .ok (.bool b) => b
    | _ => false
  -- the plain algorithms return no syntenies: membership up to the synteny annotation
  let norm (s : Sol) : Sol := if kind == "plain" then s.mapFam (fun _ => []) else s
  let msols ← if wantMember then do pure ((← modelSols algo c S o root).map norm) else pure []
  let dictOf (s : Sol) : OutputDict :=
    if kind == "plain" then (embPlainC nm cl c S o withSyn s).toDict Newick.write
    else (embSuperC nm cl id c S o (kind == "ordered") s).toDict Newick.write
  pure (Json.arr (sols.map (fun s =>
    Json.mkObj [("dict", outputDictToJson (dictOf s)),
                ("member", if wantMember then toJson (msols.contains (norm s)) else Json.null)])).toArray)

/-! ## The evaluator (op `c12b_eval`) -/

def optOf {α : Type} (f : Json → Except String α) (j : Json) (k : String) :
    Except String (Option α) :=
  match j.getObjVal? k with
  | .ok .null => pure none
  | .ok v => do pure (some (← f v))
  | .error _ => pure none

/-- The dictionary form as the harness renders it (`c11.dict_form`): mappings as pair
    lists, absent keys `null`, costs as integers or `"inf"`. -/
def inputDictOf (j : Json) : Except String InputDict := do
  pure { object_tree := ← getStr j "object_tree"
         species_tree := ← getStr j "species_tree"
         leaf_object_species := ← optOf (pairsOf (·.getStr?) (·.getStr?)) j "leaf_object_species"
         costs := ← optOf (pairsOf (·.getStr?) costOfJson) j "costs"
         leaf_syntenies := ← optOf (pairsOf (·.getStr?) strList) j "leaf_syntenies" }

def outputDictOf (j : Json) : Except String OutputDict := do
  pure { input := ← inputDictOf (← j.getObjVal? "input")
         object_species := ← pairsOf (·.getStr?) (·.getStr?) (← j.getObjVal? "object_species")
         syntenies := ← optOf (pairsOf (·.getStr?) strList) j "syntenies"
         ordered := ← optOf (·.getBool?) j "ordered" }

def newickRead (s : String) : Option NT := (Newick.readNT s).toOption

/-- What the evaluator saw: the cost, whether the cost table / the trees and mappings
    decoded, and (when both did) the two parts of the cost (`label` is `null` for a
    labelling on which Python asserts or returns a meaningless number). -/
def evalJson (mode : LabelMode) (i : RecInput) (m : TreeMapping) (famAt : Path → List Nat)
    (cost : Cost) : Json :=
  let cs := decodeCosts i.costs
  let dec := decode i.leafObjectSpecies m famAt i.objectTree []
  let parts := match cs, dec with
    | some c, some (o, t) =>
      [("rec", costToJson (recCost c o t)),
       ("label", match labelingCost c mode t with | some k => toJson k | none => Json.null)]
    | _, _ => []
  Json.mkObj ([("cost", costToJson cost), ("costs_ok", toJson cs.isSome),
               ("decoded", toJson dec.isSome)] ++ parts)

/-- op `c12b_eval`: `X.from_dict(d).cost()` for `X` = `ReconciliationOutput` (`cls = "RO"`)
    or `SuperReconciliationOutput` (`"SO"`): `fromDict` with the Newick reader, then
    `evalPlain` / `evalSuper`. -/
def evalOp : Handler := fun j => do
  let d ← outputDictOf (← j.getObjVal? "dict")
  match ← getStr j "cls" with
  | "RO" =>
    pure (match RecOutput.fromDict newickRead d with
      | .error e => errToJson e
      | .ok y =>
        evalJson .plain y.input.base y.objectSpecies (fun _ => [])
          (evalPlain y.input.base y.objectSpecies))
  | "SO" =>
    pure (match SRecOutput.fromDict newickRead d with
      | .error e => errToJson e
      | .ok y =>
        evalJson (if y.ordered then .ordered else .unordered) y.input.base y.objectSpecies
          (synFam y.syntenies)
          (evalSuper y.input.base y.objectSpecies y.syntenies y.ordered))
  | _ => throw "cls"

def handlers : List (String × Handler) :=
  [("c12b_emb", embOp), ("c12b_eval", evalOp)]

end SR.Drv.C12Bridge
