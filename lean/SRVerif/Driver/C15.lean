import SRVerif.Driver.Util
import SRVerif.Model.Tikz
import SRVerif.Generated.TikzTemplates

open Lean

namespace SR.Drv.C15

open SR.Tikz

def str (s : Str) : Json := Json.str (String.ofList s)

def getS (j : Json) (k : String) : Except String Str := do
  pure (← getStr j k).toList

def strList (j : Json) : Except String (List Str) := do
  (← j.getArr?).toList.mapM fun x => do pure (← x.getStr?).toList

/-- `null` or a natural number -/
def optNat (j : Json) (k : String) : Except String (Option Nat) :=
  match j.getObjVal? k with
  | .ok .null => pure none
  | .ok v => do pure (some (← v.getNat?))
  | .error _ => pure none

def optStrList (j : Json) (k : String) : Except String (Option (List Str)) :=
  match j.getObjVal? k with
  | .ok .null => pure none
  | .ok v => do pure (some (← strList v))
  | .error _ => pure none

def valueError : Json := Json.mkObj [("err", "ValueError")]

def optOut (o : Option Str) : Json :=
  match o with
  | some s => str s
  | none => valueError

def escapeH : Handler := fun j => do
  let s ← getS j "s"
  let e := escape s
  pure (Json.mkObj [("out", str e), ("unescaped", str (unescape e)), ("well", toJson (wellEscaped e))])

def isBalancedH : Handler := fun j => do
  let s ← getS j "s"
  pure (toJson (isBalanced s))

/-- greedy wrapping of single-space separated words -/
def wrapH : Handler := fun j => do
  let text ← getS j "text"
  let w ← getNat j "width"
  if text.isEmpty then pure (Json.arr #[]) else
  if w = 0 then pure valueError else
  pure (Json.arr ((wrap w (splitSpaces text)).map (fun l => str (lineText l))).toArray)

def balancedWrapH : Handler := fun j => do
  let text ← getS j "text"
  let w ← getNat j "width"
  pure (optOut (balancedWrapText ['\n'] w text))

def formatSyntenyH : Handler := fun j => do
  let fams ← strList (← j.getObjVal? "fams")
  let w ← optNat j "width"
  let isSet := (getBool j "set").toOption.getD false
  let fams := if isSet then sortSynteny fams else fams
  pure (optOut (formatSyntenyW w ['\n'] fams))

def sortSyntenyH : Handler := fun j => do
  let fams ← strList (← j.getObjVal? "fams")
  pure (Json.arr ((sortSynteny fams).map str).toArray)

/-- `{"c": colour|null, "ch": [left, right]?}` -/
def ctreeOf : Nat → Json → Except String CTree
  | 0, _ => throw "tree too deep"
  | fuel + 1, j => do
    let c ← match j.getObjVal? "c" with
      | .ok .null => pure none
      | .ok v => do pure (some (← v.getStr?).toList)
      | .error _ => pure none
    match j.getObjVal? "ch" with
    | .ok v =>
      let a ← v.getArr?
      if a.size == 0 then pure (.leaf c)
      else if a.size == 2 then pure (.node c (← ctreeOf fuel a[0]!) (← ctreeOf fuel a[1]!))
      else throw "arity"
    | .error _ => pure (.leaf c)

/-- colours of all branches in pre-order (default applied) -/
def colorsH : Handler := fun j => do
  let t ← ctreeOf 10000 (← j.getObjVal? "tree")
  let p := (t.propagate none).preorder
  pure (Json.arr (p.map (fun c => str (c.getD defaultColor))).toArray)

/-- `get_color` on a sequence of requests: the table and the names handed out -/
def internH : Handler := fun j => do
  let uses ← strList (← j.getObjVal? "uses")
  let (cs, out) := resolveFills [] (uses.map Fill.color)
  pure (Json.mkObj [
    ("table", Json.arr (cs.map str).toArray),
    ("names", Json.arr (out.map (fun f => str (f.str Generated.colorPrefix))).toArray)])

def labelH : Handler := fun j => do
  let leaf ← getBool j "leaf"
  let w ← optNat j "width"
  let syn ← optStrList j "syn"
  let par ← optStrList j "parent"
  if leaf then
    let name ← getS j "name"
    pure (optOut (leafLabel w syn name))
  else
    pure (optOut (internalLabel w syn par))

def tmplOf (name : String) : Except String Template :=
  match Generated.allTemplates.lookup name with
  | some t => pure t
  | none => throw s!"unknown template {name}"

def instantiateH : Handler := fun j => do
  let t ← tmplOf (← getStr j "tmpl")
  let fills ← strList (← j.getObjVal? "fills")
  pure (Json.mkObj [
    ("text", str (t.instantiate fills)),
    ("fills_ok", toJson (fillsOK t.holes fills)),
    ("balanced", toJson (isBalanced (t.instantiate fills)))])

def fillOf (j : Json) : Except String Fill :=
  match j with
  | .str s => pure (.text s.toList)
  | _ => do pure (.color (← getS j "c"))

/-- Reassemble a whole document: `defs` is the definitions template with its fillings, `calls`
    the drawing calls in the order they were made (statement index + fillings, colours as
    `{"c": html}`).  Uses the generated skeleton, layer names, prefix and joiner. -/
def renderH : Handler := fun j => do
  let dt ← tmplOf (← getStr j "defs")
  let dfills ← strList (← j.getObjVal? "defs_fills")
  let cs ← getArr j "calls"
  let calls ← cs.toList.mapM fun c => do
    let k ← getNat c "t"
    let fills ← (← getArr c "fills").toList.mapM fillOf
    match Generated.statements[k]? with
    | some (layer, t) => pure ({ layer := layer, tmpl := t, fills := fills } : Call)
    | none => throw "statement index"
  pure (str (render Generated.renderSkeleton Generated.layerNames Generated.colorPrefix
    Generated.joiner (dt.instantiate dfills) calls))

def handlers : List (String × Handler) :=
  [("c15_escape", escapeH), ("c15_is_balanced", isBalancedH), ("c15_wrap", wrapH),
   ("c15_balanced_wrap", balancedWrapH), ("c15_format_synteny", formatSyntenyH),
   ("c15_sort_synteny", sortSyntenyH), ("c15_colors", colorsH), ("c15_intern", internH),
   ("c15_label", labelH), ("c15_instantiate", instantiateH), ("c15_render", renderH)]

end SR.Drv.C15
