import SRVerif.Driver.Util
import SRVerif.Model.Solvers
import SRVerif.Spec.Opt
import SRVerif.Spec.ValidRoot

open Lean

namespace SR.Drv.Solve

def pathOfString (s : String) : Path :=
  s.toList.map (fun ch => ch.toNat - '0'.toNat)

def pathToString (p : Path) : String :=
  String.ofList (p.map (fun n => Char.ofNat (n + '0'.toNat)))

partial def rtreeOf (j : Json) : Except String RTree := do
  let a ← j.getArr?
  let cs ← a.toList.mapM rtreeOf
  pure (.node cs)

partial def otreeOf (j : Json) : Except String OTree :=
  match j with
  | .arr a =>
    if a.size == 2 then do
      let l ← otreeOf a[0]!
      let r ← otreeOf a[1]!
      pure (.node l r)
    else throw "object tree must be binary"
  | _ => do
    let s ← getStr j "s"
    let f ← match j.getObjVal? "f" with
      | .ok v => natList v
      | .error _ => pure []
    pure (.leaf (pathOfString s) f)

partial def solOf (j : Json) : Except String Sol := do
  let s ← getStr j "s"
  let f ← match j.getObjVal? "f" with
    | .ok v => natList v
    | .error _ => pure []
  match j.getObjVal? "c" with
  | .ok (.arr a) =>
    if a.size == 2 then do
      let l ← solOf a[0]!
      let r ← solOf a[1]!
      pure (.node (pathOfString s) f l r)
    else throw "solution must be binary"
  | _ => pure (.leaf (pathOfString s) f)

def solToJson (withFam : Bool) : Sol → Json
  | .leaf s f =>
    Json.mkObj ([("s", Json.str (pathToString s))] ++ (if withFam then [("f", natsToJson f)] else []))
  | .node s f l r =>
    Json.mkObj ([("s", Json.str (pathToString s))] ++ (if withFam then [("f", natsToJson f)] else [])
      ++ [("c", Json.arr #[solToJson withFam l, solToJson withFam r])])

def costsOf (j : Json) : Except String Costs := do
  let c ← j.getObjVal? "costs"
  pure { spe := ← getNat c "spe", dup := ← getNat c "dup", hgt := ← costOfJson (← c.getObjVal? "hgt"),
         floss := ← getNat c "floss", sloss := ← getNat c "sloss" }

def rootOf (j : Json) : Except String (Option (List Nat)) :=
  match j.getObjVal? "root" with
  | .ok .null => pure none
  | .ok v => do pure (some (← natList v))
  | .error _ => pure none

def modeOf (s : String) : Except String LabelMode :=
  match s with
  | "plain" => pure .plain | "ordered" => pure .ordered | "unordered" => pure .unordered
  | _ => throw "mode"

def eventName : Event → String
  | .leaf => "LEAF" | .invalid => "INVALID" | .spec => "SPECIATION"
  | .dup => "DUPLICATION" | .hgt => "HORIZONTAL_TRANSFER"

def resultJson (withFam : Bool) (c : Costs) (mode : LabelMode) (o : OTree) (sols : List Sol) : Json :=
  let cost := match sols with
    | [] => Json.null
    | s :: _ => costToJson (totalCost c mode o s)
  Json.mkObj [("cost", cost), ("sols", Json.arr (sols.map (solToJson withFam)).toArray)]

/-- op `solve`. -/
def solve : Handler := fun j => do
  let S ← rtreeOf (← j.getObjVal? "S")
  let o ← otreeOf (← j.getObjVal? "O")
  let c ← costsOf j
  let root ← rootOf j
  match ← getStr j "algo" with
  | "lca" => pure (resultJson false c .plain o [lcaSol o])
  | "exh" => pure (resultJson false c .plain o (exhaustive c o))
  | "thl" => pure (resultJson false c .plain o (thl c S o))
  | "ext_spfs" => pure (resultJson true c .ordered o (spfs c S false o root))
  | "base_spfs" => pure (resultJson true c .ordered o (spfs c S true o root))
  | "superdtl" => pure (resultJson true c .unordered o (uspfs c S false o))
  | "base_uspfs" => pure (resultJson true c .unordered o (uspfs c S true o))
  | a => throw s!"algo {a}"

/-- op `table_min`: the minimum table value at the root. -/
def tableMin : Handler := fun j => do
  let S ← rtreeOf (← j.getObjVal? "S")
  let o ← otreeOf (← j.getObjVal? "O")
  let c ← costsOf j
  let root ← rootOf j
  match ← getStr j "algo" with
  | "thl" => pure (costToJson (thlTableMin c S o))
  | "ext_spfs" => pure (costToJson (spfsTableMin c S false o root))
  | "base_spfs" => pure (costToJson (spfsTableMin c S true o root))
  | "superdtl" => pure (costToJson (uspfsTableMin c S false o))
  | "base_uspfs" => pure (costToJson (uspfsTableMin c S true o))
  | "lca" => pure (costToJson (recCost c o (lcaSol o)))
  | a => throw s!"algo {a}"

def eventsPre : Sol → List Event
  | .leaf _ _ => [.leaf]
  | .node s _ l r => internalEvent s l.sp r.sp :: (eventsPre l ++ eventsPre r)

/-- op `eval`: the evaluator on a given solution. -/
def eval : Handler := fun j => do
  let o ← otreeOf (← j.getObjVal? "O")
  let c ← costsOf j
  let mode ← modeOf (← getStr j "mode")
  let sol ← solOf (← j.getObjVal? "sol")
  let lab := labelingCost c mode sol
  pure (Json.mkObj [
    ("events", Json.arr ((eventsPre sol).map (fun e => Json.str (eventName e))).toArray),
    ("root_event", Json.str (eventName (nodeEvent o sol))),
    ("rec", costToJson (recCost c o sol)),
    ("label", match lab with | some k => toJson k | none => Json.null),
    ("total", costToJson (totalCost c mode o sol))])

/-- op `spec_opt`: optimum over all valid solutions (specification side). -/
def specOpt : Handler := fun j => do
  let S ← rtreeOf (← j.getObjVal? "S")
  let o ← otreeOf (← j.getObjVal? "O")
  let c ← costsOf j
  let root ← rootOf j
  let mode ← modeOf (← getStr j "mode")
  let keep ← getBool j "keep"
  let base ← getBool j "base"
  let (best, sols) := Spec.optimum c S mode base keep o root
  pure (Json.mkObj [("cost", costToJson best),
                    ("sols", Json.arr (sols.map (solToJson (mode != .plain))).toArray)])

/-- op `valid`: validity of a solution (specification side, C04). -/
def valid : Handler := fun j => do
  let o ← otreeOf (← j.getObjVal? "O")
  let mode ← modeOf (← getStr j "mode")
  let sol ← solOf (← j.getObjVal? "sol")
  let root ← rootOf j
  pure (toJson (Spec.validSolPre mode o root sol))

/-- op `gen_all`: the exhaustive enumerator. -/
def genAll : Handler := fun j => do
  let o ← otreeOf (← j.getObjVal? "O")
  pure (Json.arr ((generateAll o).map (solToJson false)).toArray)

/-- op `spec_all_valid`: all valid reconciliations by filtering all mappings. -/
def specAllValid : Handler := fun j => do
  let S ← rtreeOf (← j.getObjVal? "S")
  let o ← otreeOf (← j.getObjVal? "O")
  pure (Json.arr ((Spec.allValid S o).map (solToJson false)).toArray)

/-- op `canonical_un`: is an unordered labelling canonical? -/
def canonicalUn : Handler := fun j => do
  let o ← otreeOf (← j.getObjVal? "O")
  let sol ← solOf (← j.getObjVal? "sol")
  pure (toJson (Spec.canonicalUn o [] [] sol))

def handlers : List (String × Handler) :=
  [("solve", solve), ("table_min", tableMin), ("eval", eval), ("spec_opt", specOpt),
   ("valid", valid), ("gen_all", genAll), ("spec_all_valid", specAllValid),
   ("canonical_un", canonicalUn)]

end SR.Drv.Solve
