/-
  JSON helpers for the line-protocol driver.  Not part of any theorem.
-/
import Lean.Data.Json
import SRVerif.Model.Basic

open Lean

namespace SR.Drv

abbrev Handler := Json → Except String Json

def getNat (j : Json) (k : String) : Except String Nat := do
  let v ← j.getObjVal? k
  v.getNat?

def getInt (j : Json) (k : String) : Except String Int := do
  let v ← j.getObjVal? k
  v.getInt?

def getStr (j : Json) (k : String) : Except String String := do
  let v ← j.getObjVal? k
  v.getStr?

def getBool (j : Json) (k : String) : Except String Bool := do
  let v ← j.getObjVal? k
  v.getBool?

def getArr (j : Json) (k : String) : Except String (Array Json) := do
  let v ← j.getObjVal? k
  v.getArr?

def natList (j : Json) : Except String (List Nat) := do
  let a ← j.getArr?
  a.toList.mapM (·.getNat?)

def getNatList (j : Json) (k : String) : Except String (List Nat) := do
  natList (← j.getObjVal? k)

/-- ExtInt encoding: integer, `"inf"` or `"-inf"`. -/
def extIntOfJson (j : Json) : Except String ExtInt :=
  match j with
  | .str "inf" => pure .posInf
  | .str "-inf" => pure .negInf
  | _ => do pure (.fin (← j.getInt?))

def extIntToJson : ExtInt → Json
  | .posInf => "inf"
  | .negInf => "-inf"
  | .fin n => toJson n

def costOfJson (j : Json) : Except String Cost :=
  match j with
  | .str "inf" => pure .inf
  | _ => do pure (.fin (← j.getNat?))

def costToJson : Cost → Json
  | .inf => "inf"
  | .fin n => toJson n

def natsToJson (l : List Nat) : Json := Json.arr (l.map (toJson ·)).toArray

end SR.Drv
