/-
  Driver op for the structure-faithful model of the unordered solvers
  (`Model/UspfsCode.lean`):

  * `c03_uspfscode` {"S","O","costs","algo": "superdtl"|"base_uspfs","policy": "all"|"any"}
    -> {"cost", "sols", "table"}: the result of `_uspfs` and the table of
    `_compute_uspfs_table`: for every object node (pre-order index), every species
    (pre-order) and both kinds, `[index, species path, kind, value, tags]` where `value` is
    `table[object][species][kind].value()` and `tags` its `infos()` as
    `[[left species, left kind], [right species, right kind]]`.
-/
import SRVerif.Driver.Solve
import SRVerif.Model.UspfsCode

open Lean

namespace SR.Drv.C03Code

open SR.Drv.Solve SR.UspfsCode

def kindName : Kind → String
  | .lca => "LCA"
  | .inh => "INHERIT"

/-- Object node paths in pre-order. -/
def objPaths : OTree → Path → List Path
  | .leaf _ _, p => [p]
  | .node l r, p => p :: (objPaths l (p ++ [0]) ++ objPaths r (p ++ [1]))

def asgJson (a : OAsg) : Json := Json.arr #[Json.str (pathToString a.1), Json.str (kindName a.2)]

def tableJson (S : RTree) (o : OTree) (T : Table) : Json :=
  let rows := (objPaths o []).zipIdx.flatMap fun (v, i) =>
    S.preorder.flatMap fun s =>
      [Kind.lca, Kind.inh].map fun k =>
        let cell := cellAt T v s k
        Json.arr #[toJson i, Json.str (pathToString s), Json.str (kindName k),
          extIntToJson (Cell.value .min cell),
          Json.arr ((Cell.infos cell).map (fun t => Json.arr #[asgJson t.1, asgJson t.2])).toArray]
  Json.arr rows.toArray

def policyOf (s : String) : Except String Retain :=
  match s with
  | "all" => pure .all
  | "any" => pure .any
  | p => throw s!"policy {p}"

def uspfsCodeOp : Handler := fun j => do
  let S ← rtreeOf (← j.getObjVal? "S")
  let o ← otreeOf (← j.getObjVal? "O")
  let c ← costsOf j
  let pol ← match j.getObjVal? "policy" with
    | .ok v => do policyOf (← v.getStr?)
    | .error _ => pure Retain.all
  let base ← match ← getStr j "algo" with
    | "superdtl" => pure false
    | "base_uspfs" => pure true
    | a => throw s!"algo {a}"
  let sols := uspfsCodePol pol c S base o
  let res := resultJson true c .unordered o sols
  pure (Json.mkObj [("cost", res.getObjValD "cost"), ("sols", res.getObjValD "sols"),
                    ("table", tableJson S o (codeTable pol c S base o))])

def handlers : List (String × Handler) := [("c03_uspfscode", uspfsCodeOp)]

end SR.Drv.C03Code
