import SRVerif.Driver.Util
import SRVerif.Driver.Solve
import SRVerif.Model.Binarize
import SRVerif.Spec.Refine

open Lean

namespace SR.Drv.C08

open SR.Bin SR.Drv.Solve

/-!
JSON encodings
* `NTree`: leaf = number, internal node = `{"a": ann | null, "c": [child, …]}`
* `BinT`: an `NTree` all of whose internal nodes have two children
* `BTree BinT` (arrangement over items): item = `{"item": BinT}`, node = `[l, r]`
* canonical form of a binary tree: `[[sorted clade, ann | null], …]` (internal nodes)
-/

def annOf (j : Json) : Except String (Option Nat) :=
  match j.getObjVal? "a" with
  | .ok .null => pure none
  | .ok v => do pure (some (← v.getNat?))
  | .error _ => pure none

partial def ntreeOf (j : Json) : Except String NTree :=
  match j with
  | .num _ => do pure (.leaf (← j.getNat?))
  | _ => do
    let cs ← (← getArr j "c").toList.mapM ntreeOf
    pure (.node (← annOf j) cs)

partial def bintOf (j : Json) : Except String BinT :=
  match j with
  | .num _ => do pure (.leaf (← j.getNat?))
  | _ => do
    let cs ← getArr j "c"
    if cs.size != 2 then throw "binary tree expected"
    pure (.node (← annOf j) (← bintOf cs[0]!) (← bintOf cs[1]!))

partial def btreeOf (j : Json) : Except String (BTree BinT) :=
  match j with
  | .arr a =>
    if a.size != 2 then throw "arrangement node must be binary"
    else do pure (.node (← btreeOf a[0]!) (← btreeOf a[1]!))
  | _ => do pure (.item (← bintOf (← j.getObjVal? "item")))

def annToJson : Option Nat → Json
  | none => Json.null
  | some a => toJson a

def canonToJson (b : BinT) : Json :=
  Json.arr ((Spec.canon b).map (fun c => Json.arr #[natsToJson c.1, annToJson c.2])).toArray

def canonsToJson (bs : List BinT) : Json := Json.arr (bs.map canonToJson).toArray

/-- op `c08_graft`: `graft(tree, leaf, ignore)` where the ignored nodes of
    `tree` are its items. -/
def graftH : Handler := fun j => do
  let x ← bintOf (← j.getObjVal? "x")
  let t ← btreeOf (← j.getObjVal? "tree")
  pure (canonsToJson ((graft x t).map subst))

/-- op `c08_graft_ign`: the literal version with an ignore list of leaf sets. -/
def graftIgnH : Handler := fun j => do
  let x ← bintOf (← j.getObjVal? "x")
  let t ← bintOf (← j.getObjVal? "tree")
  let ign ← (← getArr j "ignore").toList.mapM natList
  pure (canonsToJson (graftIgn ign x t))

/-- op `c08_arrange`. -/
def arrangeH : Handler := fun j => do
  let xs ← (← getArr j "items").toList.mapM bintOf
  pure (canonsToJson ((arrange xs).map subst))

/-- op `c08_binarize`: the refinements in the model's order, the count formula. -/
def binarizeH : Handler := fun j => do
  let t ← ntreeOf (← j.getObjVal? "tree")
  pure (Json.mkObj [("trees", canonsToJson (binarize t)), ("count", toJson (Spec.refCount t)),
                    ("wf", toJson t.WF), ("binary", toJson t.isBinary)])

/-- op `c08_is_refinement` (specification). -/
def isRefH : Handler := fun j => do
  let b ← ntreeOf (← j.getObjVal? "b")
  let t ← ntreeOf (← j.getObjVal? "t")
  pure (Json.mkObj [("refines", toJson (Spec.isRefinementB b t)), ("ann", toJson (Spec.keepsAnnB b t))])

/-! ### End to end -/

def otreeToJson : OTree → Json
  | .leaf sp f => Json.mkObj [("s", Json.str (pathToString sp)), ("f", natsToJson f)]
  | .node l r => Json.arr #[otreeToJson l, otreeToJson r]

def bintToJson : BinT → Json
  | .leaf i => toJson i
  | .node a l r => Json.mkObj [("a", annToJson a), ("c", Json.arr #[bintToJson l, bintToJson r])]

/-- `data`: `[[object leaf id, species leaf id, [families]], …]`. -/
def dataOf (j : Json) : Except String LeafData := do
  let rows ← (← getArr j "data").toList.mapM (fun r => do
    let a ← r.getArr?
    if a.size != 3 then throw "data row"
    pure (← a[0]!.getNat?, ← a[1]!.getNat?, ← natList a[2]!))
  pure (fun i => match rows.find? (fun r => r.1 == i) with
    | some r => (r.2.1, r.2.2)
    | none => (0, []))

/-- op `c08_multi`: the extended solvers on a multifurcating input. -/
def multiH : Handler := fun j => do
  let tO ← ntreeOf (← j.getObjVal? "O")
  let tS ← ntreeOf (← j.getObjVal? "S")
  let data ← dataOf j
  let c ← costsOf j
  let root ← rootOf j
  let (mode, outs) ← match ← getStr j "algo" with
    | "ext_spfs" => pure (LabelMode.ordered, spfsMulti c false tO tS data root)
    | "superdtl" => pure (LabelMode.unordered, uspfsMulti c false tO tS data)
    | a => throw s!"algo {a}"
  let cost := match outs with
    | [] => Json.null
    | x :: _ => costToJson (x.cost c mode data)
  pure (Json.mkObj [("cost", cost), ("npairs", toJson (refinementPairs tO tS).length),
    ("outs", Json.arr (outs.map (fun x => Json.mkObj [
      ("S", bintToJson x.sTree), ("O", bintToJson x.oTree),
      ("case_O", otreeToJson (toOTree data x.sTree x.oTree)),
      ("sol", solToJson true x.sol)])).toArray)])

def handlers : List (String × Handler) :=
  [("c08_graft", graftH), ("c08_graft_ign", graftIgnH), ("c08_arrange", arrangeH),
   ("c08_binarize", binarizeH), ("c08_is_refinement", isRefH), ("c08_multi", multiH)]

end SR.Drv.C08
