/-
  Driver handlers for the JSON text layer (`Model/Json.lean`).  Not part of any theorem;
  `harness/checks/c12_json.py` compares `render` with `json.dumps` byte for byte and
  `parseRaw` / `parse` with `json.loads` (with and without `object_pairs_hook`).

  Transport encoding of a value (independent of the JSON reader of the driver itself, which
  is Lean's): `null`, `true`/`false`, `{"i": "<decimal>"}`, `{"f": "inf"}`, `{"f": "-inf"}`,
  `{"s": [code points]}`, `{"a": [values]}`, `{"o": [[[code points of the key], value], …]}`.
  A text to parse is given as its list of code points; a rendered text is pure ASCII and is
  returned as a JSON string.
-/
import SRVerif.Driver.Util
import SRVerif.Model.Json

open Lean

namespace SR.Drv.C12Json

open SR.Json

def charsOf (j : Json) : Except String (List Char) := do
  let a ← j.getArr?
  a.toList.mapM (fun x => do
    let n ← x.getNat?
    match charOfNat? n with
    | some c => pure c
    | none => throw s!"not a scalar value: {n}")

def charsToJson (l : List Char) : Json := Json.arr (l.map (fun c => toJson c.toNat)).toArray

def valOf : Nat → Json → Except String JVal
  | 0, _ => throw "value too deep"
  | _ + 1, .null => pure .null
  | _ + 1, .bool b => pure (.bool b)
  | fuel + 1, j => do
    if let .ok i := j.getObjVal? "i" then
      match (← i.getStr?).toInt? with
      | some n => pure (.int n)
      | none => throw "bad integer"
    else if let .ok f := j.getObjVal? "f" then
      match ← f.getStr? with
      | "inf" => pure .inf
      | "-inf" => pure .ninf
      | s => throw s!"bad float {s}"
    else if let .ok s := j.getObjVal? "s" then
      pure (.str (String.ofList (← charsOf s)))
    else if let .ok a := j.getObjVal? "a" then
      pure (.arr (← (← a.getArr?).toList.mapM (valOf fuel)))
    else if let .ok o := j.getObjVal? "o" then
      let ms ← (← o.getArr?).toList.mapM (fun kv => do
        let p ← kv.getArr?
        match p.toList with
        | [k, v] => pure (String.ofList (← charsOf k), ← valOf fuel v)
        | _ => throw "bad member")
      pure (.obj ms)
    else throw "bad value"

def valToJson : Nat → JVal → Json
  | 0, _ => Json.str "too deep"
  | _ + 1, .null => Json.null
  | _ + 1, .bool b => Json.bool b
  | _ + 1, .int n => Json.mkObj [("i", Json.str (toString n))]
  | _ + 1, .inf => Json.mkObj [("f", "inf")]
  | _ + 1, .ninf => Json.mkObj [("f", "-inf")]
  | _ + 1, .str s => Json.mkObj [("s", charsToJson s.toList)]
  | fuel + 1, .arr l => Json.mkObj [("a", Json.arr (l.map (valToJson fuel)).toArray)]
  | fuel + 1, .obj m =>
    Json.mkObj [("o", Json.arr (m.map (fun kv =>
      Json.arr #[charsToJson kv.1.toList, valToJson fuel kv.2])).toArray)]

/-- op `c12j_render`: `json.dumps(v)` of the model, as a JSON string. -/
def renderOp : Handler := fun j => do
  let v ← valOf 200 (← j.getObjVal? "v")
  pure (Json.str (render v))

/-- op `c12j_parse`: `{"raw": json.loads(text, object_pairs_hook=pairs), "val": json.loads(text)}`
    of the model, `null` when the model rejects the text. -/
def parseOp : Handler := fun j => do
  let cs ← charsOf (← j.getObjVal? "text")
  let s := String.ofList cs
  match parseRaw s, parse s with
  | some r, some v => pure (Json.mkObj [("raw", valToJson 200 r), ("val", valToJson 200 v)])
  | _, _ => pure Json.null

/-- op `c12j_dict`: the value is read as a dictionary structure (`dictOfJ`, what `from_dict`
    looks at) and written back (`dictToJ`, the keys in the order of `to_dict`), then rendered:
    `null` when the value has not the shape of an output dictionary. -/
def dictOp : Handler := fun j => do
  let v ← valOf 200 (← j.getObjVal? "v")
  match dictOfJ v with
  | some d => pure (Json.str (renderDict d))
  | none => pure Json.null

def handlers : List (String × Handler) :=
  [("c12j_render", renderOp), ("c12j_parse", parseOp), ("c12j_dict", dictOp)]

end SR.Drv.C12Json
