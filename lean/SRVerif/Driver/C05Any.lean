/-
  Driver ops for the policy ANY (C05), `Model/LabelDPAny.lean`:

  * `c05_any`   {"S","O","costs","root"?,"algo","pick": "first"|"last"} — the ANY
                variant of the solver model under that selection rule;
  * `c05_reach` {"S","O","costs","root"?,"algo"} — every output the solver can
                return under ANY over all offering orders (`reachAny` of the ALL
                groups; `C05_any_reach_*`: contains every `c05_any` result;
                `C05_reach_eq_all_*`: equals the `all` result where table value =
                evaluated cost).
-/
import SRVerif.Driver.Solve
import SRVerif.Model.LabelDPAny

open Lean

namespace SR.Drv.C05Any

open SR.Drv.Solve

def pickerOf (Lab : Type) (s : String) : Except String (Picker Lab) :=
  match s with
  | "first" => pure (Picker.first Lab)
  | "last" => pure (Picker.last Lab)
  | p => throw s!"pick {p}"

def anyOp : Handler := fun j => do
  let S ← rtreeOf (← j.getObjVal? "S")
  let o ← otreeOf (← j.getObjVal? "O")
  let c ← costsOf j
  let root ← rootOf j
  let pick ← getStr j "pick"
  match ← getStr j "algo" with
  | "thl" => pure (resultJson false c .plain o (thlAny (← pickerOf Unit pick) c S o))
  | "ext_spfs" => pure (resultJson true c .ordered o (spfsAny (← pickerOf Nat pick) c S false o root))
  | "base_spfs" => pure (resultJson true c .ordered o (spfsAny (← pickerOf Nat pick) c S true o root))
  | "superdtl" => pure (resultJson true c .unordered o (uspfsAny (← pickerOf Kind pick) c S false o))
  | "base_uspfs" => pure (resultJson true c .unordered o (uspfsAny (← pickerOf Kind pick) c S true o))
  | a => throw s!"algo {a}"

def reachJson (withFam : Bool) (c : Costs) (mode : LabelMode) (o : OTree) (groups : List (List Sol)) :
    Json :=
  let sols := reachAny (totalCost c mode o) groups
  Json.mkObj [("costs", Json.arr (sols.map (fun s => costToJson (totalCost c mode o s))).toArray),
              ("sols", Json.arr (sols.map (solToJson withFam)).toArray)]

def reachOp : Handler := fun j => do
  let S ← rtreeOf (← j.getObjVal? "S")
  let o ← otreeOf (← j.getObjVal? "O")
  let c ← costsOf j
  let root ← rootOf j
  match ← getStr j "algo" with
  | "thl" => pure (reachJson false c .plain o (thlGroups c S o))
  | "ext_spfs" => pure (reachJson true c .ordered o (spfsGroups c S false o root))
  | "base_spfs" => pure (reachJson true c .ordered o (spfsGroups c S true o root))
  | "superdtl" => pure (reachJson true c .unordered o (uspfsGroups c S false o))
  | "base_uspfs" => pure (reachJson true c .unordered o (uspfsGroups c S true o))
  | a => throw s!"algo {a}"

def handlers : List (String × Handler) := [("c05_any", anyOp), ("c05_reach", reachOp)]

end SR.Drv.C05Any
