import SRVerif.Driver.Util
import SRVerif.Driver.C11
import SRVerif.Model.Cli

open Lean

namespace SR.Drv.C12

open SR.Ser SR.Cli SR.Drv.C11

def ntToJson : Nat → NT → Json
  | 0, _ => Json.null
  | fuel + 1, .node n c cs =>
    Json.mkObj [("n", n), ("c", match c with | some s => Json.str s | none => Json.null),
                ("k", Json.arr (cs.map (ntToJson fuel)).toArray)]

/-- op `c12_label`: `label_internal` on one tree with the given prefix: names in pre-order
    and the relabelled tree. -/
def label : Handler := fun j => do
  let t ← getTree j "tree"
  let pfx ← getStr j "prefix"
  let t' := labelTree pfx t
  pure (Json.mkObj [("names", strsToJson (labelNames pfx t.names)), ("tree", ntToJson 300 t')])

def resultToJson : CallResult → Json
  | .rejected => Json.mkObj [("r", "rejected")]
  | .errorNeedsSyntenies => Json.mkObj [("r", "error")]
  | .unsupportedSignature => Json.mkObj [("r", "unsupported")]
  | .run w p => Json.mkObj [("r", "run"), ("warn", toJson w),
      ("policy", match p with | some s => Json.str s | none => Json.null)]

/-- op `c12_dispatch`: `call_algorithm` up to the call, and the outcome of `reconcile`
    given the number of results. -/
def dispatchOp : Handler := fun j => do
  let algo ← getStr j "algo"
  let sup ← getBool j "syntenies"
  let sol ← getStr j "solutions"
  let n ← getNat j "results"
  let r := dispatch algo (if sup then .super else .plain) sol
  let o := reconcileOutcome r (List.range n) (fun i => toString i)
  pure (Json.mkObj [("call", resultToJson r), ("status", toJson o.1), ("mincost", toJson o.2.1),
                    ("lines", toJson o.2.2.length)])

/-- op `c12_species`: `get_species_mapping`. -/
def species : Handler := fun j => do
  let ot ← getTree j "ot"
  let st ← getTree j "st"
  pure (tmToJson (getSpeciesMapping ot st))

def handlers : List (String × Handler) :=
  [("c12_label", label), ("c12_dispatch", dispatchOp), ("c12_species", species)]

end SR.Drv.C12
